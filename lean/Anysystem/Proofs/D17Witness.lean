import Anysystem.Proofs.R7Demo
/-!
# D17 — kernel-checked witness: without FRESH sends the end-to-end coverage property (C04) fails IN THE MODEL

The model checker blocks a message behind an older IDENTICAL in-flight message (FIFO per (message, sender, receiver)
triple) although their delivery options differ: the older copy was taken over from the simulator by the snapshot
(`noFail`: cannot be corrupted), the newer one is sent during model checking with corruption possible.  The checker can
corrupt the newer copy only after the older one has been delivered, so it never explores "corrupted copy received first,
intact copy second" — which the simulator does when the newer copy is corrupted and overtakes the older one.

The instance (time in ticks of half a unit; names as numbers: processes 0, 1 on nodes 0, 1; message types 0, 1, 2; timer 0):

* `h`: process 0 on the local message: send `⟨1, "q"⟩` to process 1, set timer 0 (delay 1); process 0 on the timer: send
  `⟨1, "q"⟩` to process 1 again; process 1 on a message of type 1: append the payload to its local outbox;
* `q0` (`q0_eq`, `q0_shape`): built by `addNode`, `addProcess`, `sendLocal` (network delay 6), then delay 1 and corruption
  rate `⟨1000⟩` = 1; clock 0, first copy queued for time 6, timer for time 1; every draw is `⟨0⟩`;
* `s0_eq`, `d17Search_eq`, `evald_boxes`: the snapshot, and the exploration from it (DFS fuel 10, BFS fuel 8 — the
  smallest that work, `d17Search_ok` —, full cache, goal = no pending event, no invariant, no prune) finishes `Ok` having
  evaluated seven states in which the outbox of process 1 is `[]`, `["q"]`, `["q","q"]` or `["q",""]`;
* `q2_eq`, `q3_eq`, `q2_q3_shape`: the simulator continuation — the timer fires at 1, the second copy is corrupted and
  arrives at 2: outbox `[""]`; the first copy arrives at 6: outbox `["","q"]`;
* **`D17_uncovered`, `D17_uncovered3`, `D17_witness`**: neither simulator state is process-visibly equal to an evaluated
  state;
* **`D17_not_fresh`**: `FreshSendsFrom` fails for the reference state of the snapshot (`fire 0` is enabled in it and the
  handler call sends a message whose triple is in the air); `D17_blocked`: the reference run the continuation would need
  (`fire 0, corrupt 1`) is not reduced-enabled;
* **`D17_only_freshness_missing`**: every OTHER hypothesis of `sim_run_covered_fates` holds on this instance (the theorem
  is applied with freshness as the only assumption left), so freshness is exactly what breaks.
-/
namespace Anysystem.D17

open Sim R4Demo R5MainDemo

/-- the payload `"q"`; its corruption is `""` -/
def pq : List Nat := [34, 113, 34]

example : corruptSim ⟨1, pq⟩ = ⟨1, [34, 34]⟩ ∧ corruptMc ⟨1, pq⟩ = ⟨1, [34, 34]⟩ := by decide

/-- the program (clock-free).  Process 0, state 0, local message of type 0: send `⟨1, "q"⟩` to process 1, set timer 0
    (delay 1 tick), go to state 1.  Process 0, state 1, timer 0: send `⟨1, "q"⟩` to process 1 AGAIN, go to state 2.
    Process 1, message of type 1: append the payload received to the local outbox (as a local message of type 2). -/
def h : Handler Nat := fun p st i =>
  match p, st, i with
  | 0, 0, .loc ⟨0, _⟩ => (1, [.send ⟨1, pq⟩ 1, .set 0 1 false])
  | 0, 1, .timer 0 => (2, [.send ⟨1, pq⟩ 1])
  | 1, st, .msg ⟨1, d⟩ _ => (st, [.loc ⟨2, d⟩])
  | _, st, _ => (st, [])

/-- the empty simulator: network delay 6 ticks (one tick = half a time unit: delay 3.0), all rates zero; every draw of the
    stream is `⟨0⟩` (below every positive rate; the delay draws do not matter: `min_delay = max_delay`) -/
def qEmpty : Sim Nat Ticks :=
  { clock := ⟨0⟩, draws := List.replicate 46 ⟨0⟩,
    net := { (SimNet.default : SimNet Ticks) with minDelay := ⟨6⟩, maxDelay := ⟨6⟩ } }

/-- the scenario up to the snapshot, by the model's own API: two nodes, process 0 on node 0, process 1 on node 1, the
    local message `⟨0, "go"⟩` to process 0 (handled at once: first copy queued for time 6, timer queued for time 1), then
    delay 1 tick (0.5) and CORRUPTION RATE ONE -/
def build : R (Sim Nat Ticks) :=
  (qEmpty.addNode 0).bind fun s => (s.addNode 1).bind fun s => (s.addProcess 0 0 0).bind fun s =>
  (s.addProcess 1 0 1).bind fun s => (Sim.sendLocal (liftHandler h) s 0 ⟨0, [103, 111]⟩).bind fun s =>
  .ok (s.netSet fun x => { x with minDelay := ⟨1⟩, maxDelay := ⟨1⟩, corruptRate := ⟨1000⟩ })

/-- (1) the simulator state right before the snapshot -/
def q0 : Sim Nat Ticks := match build with
  | .ok s => s
  | .error _ => qEmpty

theorem q0_eq : build = .ok q0 := rfl

/-- the queue of `q0`: the first copy of `⟨1, "q"⟩` (event 0, due at 6) and the timer (event 1, due at 1); clock 0;
    corruption certain; 42 draws left -/
theorem q0_shape :
    q0.events.map (fun e => (e.id, e.time.n, e.data)) =
      [(0, 6, .msg 0 ⟨1, pq⟩ 0 0 1 1), (1, 1, .timer 0 0)] ∧
    q0.clock = ⟨0⟩ ∧ q0.canceled = [] ∧ q0.net.corruptRate = ⟨1000⟩ ∧ q0.net.duplRate = ⟨0⟩ ∧ q0.net.dropRate = ⟨0⟩ ∧
    q0.net.minDelay = ⟨1⟩ ∧ q0.net.maxDelay = ⟨1⟩ ∧ q0.draws = List.replicate 42 ⟨0⟩ := by decide

/-! ## (2) the snapshot and the exploration -/

/-- the snapshot of `q0` -/
def s0 : McSys Nat := match snapshot bitsT q0 with
  | .ok s => s
  | .error _ => {}

theorem s0_eq : snapshot bitsT q0 = .ok s0 := rfl

/-- the snapshot holds the timer (id 0) and the first copy WITHOUT fault options (id 1); the checker's network can
    corrupt (and neither drop nor duplicate) -/
theorem s0_shape :
    s0.events.events = [(0, .timer 0 0 1), (1, .msg ⟨1, pq⟩ 0 1 (.noFail 1))] ∧ s0.events.available = [0, 1] ∧
    s0.net.corruptPos = true ∧ s0.net.duplNonzero = false ∧ s0.net.dropPos = false := by decide

/-- the exploration from the snapshot: full cache, goal = no pending event, no invariant, no prune (`demoP`, the
    predicates of `R5MainDemo` / `R7Demo`) -/
def d17Search (strat : Strat) (fuel : Nat) :=
  search (mcTSys {} h demoP (fun _ => 0)) strat fuel (startedOf s0) (Acc.fresh .full)

/-- the fuel: the smallest that works -/
def fuelOf : Strat → Nat
  | .dfs => 10
  | .bfs => 8

/-- both strategies finish `Ok` (kernel evaluation), and with one unit of fuel less they do not finish -/
theorem d17Search_ok : isOkRes (d17Search .dfs 10) = true ∧ isOkRes (d17Search .bfs 8) = true ∧
    (d17Search .dfs 9).isNone = true ∧ (d17Search .bfs 7).isNone = true := by decide +kernel

/-- the accumulated outcome of the exploration -/
def accOf (strat : Strat) : Acc (McSys Nat) (McSys.Key Nat) :=
  match d17Search strat (fuelOf strat) with
  | some (_, a) => a
  | none => Acc.fresh .full

/-- (2) the exploration finishes `Ok` -/
theorem d17Search_eq (strat : Strat) :
    search (mcTSys {} h demoP (fun _ => 0)) strat (fuelOf strat) (startedOf s0) (Acc.fresh .full) =
      some (.ok, accOf strat) := by
  have hok : isOkRes (d17Search strat (fuelOf strat)) = true := by
    cases strat with
    | dfs => exact d17Search_ok.1
    | bfs => exact d17Search_ok.2.1
  obtain ⟨a, ha⟩ := isOkRes_some hok
  have : accOf strat = a := by unfold accOf; rw [ha]
  rw [this]
  exact ha

/-- the local outbox of process 1 in a checker state -/
def box1 (e : McSys Nat) : Option (List Msg) := (amGet? 1 (procsOf e)).map (·.outbox)

/-- **the seven evaluated states**: the outboxes of process 1 are `[]`, `["q"]`, `["q","q"]`, `["q",""]` only (kernel
    evaluation) -/
theorem evald_boxes :
    (accOf .dfs).evald.map box1 =
      [some [], some [], some [⟨2, pq⟩], some [⟨2, pq⟩, ⟨2, pq⟩], some [⟨2, pq⟩], some [⟨2, pq⟩, ⟨2, [34, 34]⟩],
       some [⟨2, pq⟩]] ∧
    (accOf .bfs).evald.map box1 =
      [some [], some [], some [⟨2, pq⟩], some [⟨2, pq⟩], some [⟨2, pq⟩, ⟨2, pq⟩], some [⟨2, pq⟩],
       some [⟨2, pq⟩, ⟨2, [34, 34]⟩]] := by decide +kernel

/-! ## (3) the simulator continuation -/

/-- two steps: the timer fires, the second copy is CORRUPTED and queued for time 2; it is delivered first -/
def q2 : Sim Nat Ticks := match q0.steps (liftHandler h) 2 with
  | .ok (_, s) => s
  | .error _ => q0

theorem q2_eq : q0.steps (liftHandler h) 2 = .ok (true, q2) := rfl

/-- three steps: then the first (intact) copy is delivered -/
def q3 : Sim Nat Ticks := match q0.steps (liftHandler h) 3 with
  | .ok (_, s) => s
  | .error _ => q0

theorem q3_eq : q0.steps (liftHandler h) 3 = .ok (true, q3) := rfl

/-- process 1 in `q2` / `q3` -/
def pe2 : SProc Nat Ticks := match q2.proc? 1 1 with
  | some pe => pe
  | none => { st := 0 }

def pe3 : SProc Nat Ticks := match q3.proc? 1 1 with
  | some pe => pe
  | none => { st := 0 }

theorem q2_proc : q2.proc? 1 1 = some pe2 := rfl
theorem q3_proc : q3.proc? 1 1 = some pe3 := rfl

/-- the simulator's process-visible states: outbox `[""]` at time 2 (the intact copy still queued for time 6), then
    `["", "q"]` at time 6 -/
theorem q2_q3_shape :
    pe2.outbox = [⟨2, [34, 34]⟩] ∧ q2.clock = ⟨2⟩ ∧
    q2.events.map (fun e => (e.id, e.time.n, e.data)) = [(0, 6, .msg 0 ⟨1, pq⟩ 0 0 1 1)] ∧
    pe3.outbox = [⟨2, [34, 34]⟩, ⟨2, pq⟩] ∧ q3.clock = ⟨6⟩ ∧ q3.events.length = 0 := by decide

/-! ## (4) the witness -/

theorem not_covered_of_box (strat : Strat) (q : Sim Nat Ticks) (pe : SProc Nat Ticks) (hq : q.proc? 1 1 = some pe)
    (hbox : some pe.outbox ∉ (accOf strat).evald.map box1) : ¬ ∃ e ∈ (accOf strat).evald, visibleEqMc q e := by
  rintro ⟨e, he, hv⟩
  apply hbox
  have h1 : box1 e = some pe.outbox := by
    unfold box1
    rw [hv 1 1 pe hq]
    rfl
  rw [← h1]
  exact List.mem_map_of_mem he

/-- **D17 in the model**: the process-visible state of the simulator after two steps (process 1 has received the
    corrupted copy only) is not the process-visible state of any state the `Ok` exploration evaluated -/
theorem D17_uncovered (strat : Strat) : ¬ ∃ e ∈ (accOf strat).evald, visibleEqMc q2 e := by
  refine not_covered_of_box strat q2 pe2 q2_proc ?_
  rw [q2_q3_shape.1]
  cases strat with
  | dfs => rw [evald_boxes.1]; decide
  | bfs => rw [evald_boxes.2]; decide

/-- … nor is the one after three steps (corrupted copy first, intact copy second) -/
theorem D17_uncovered3 (strat : Strat) : ¬ ∃ e ∈ (accOf strat).evald, visibleEqMc q3 e := by
  refine not_covered_of_box strat q3 pe3 q3_proc ?_
  rw [q2_q3_shape.2.2.2.1]
  cases strat with
  | dfs => rw [evald_boxes.1]; decide
  | bfs => rw [evald_boxes.2]; decide

/-- **the witness, self-contained**: for both strategies there are a snapshot, an `Ok` exploration from it and a
    two-step (three-step) continuation of the simulator whose process-visible state no evaluated state has -/
theorem D17_witness (strat : Strat) : ∃ (s : McSys Nat) (a : Acc (McSys Nat) (McSys.Key Nat)) (q' q'' : Sim Nat Ticks),
    snapshot bitsT q0 = .ok s ∧
    search (mcTSys {} h demoP (fun _ => 0)) strat (fuelOf strat) (startedOf s) (Acc.fresh .full) = some (.ok, a) ∧
    q0.steps (liftHandler h) 2 = .ok (true, q') ∧ q0.steps (liftHandler h) 3 = .ok (true, q'') ∧
    (¬ ∃ e ∈ a.evald, visibleEqMc q' e) ∧ (¬ ∃ e ∈ a.evald, visibleEqMc q'' e) :=
  ⟨s0, accOf strat, q2, q3, s0_eq, d17Search_eq strat, q2_eq, q3_eq, D17_uncovered strat, D17_uncovered3 strat⟩

/-! ## (5) the freshness hypothesis of `sim_run_covered_fates` fails on this instance -/

/-- the reference state `sim_run_covered_fates` starts its chain from -/
def r0 : RState Nat :=
  { (snapshotRef bitsT q0) with trace := (snapshotRef bitsT q0).trace ++ [LogE.started] }

/-- the timer of process 0 is pending, the first copy is in the air (no fault options), the network can corrupt -/
theorem r0_shape :
    r0.timers = [⟨0, 0, 1⟩] ∧ r0.flights = [⟨⟨1, pq⟩, 0, 1, .noFail 1⟩] ∧
    r0.procs = [(0, ⟨1, []⟩), (1, ⟨0, []⟩)] ∧ r0.net.canFault = true ∧ r0.crashedNodes = [] := by decide

/-- a handler call that sends a message whose triple is in the air is not fresh (timer case) -/
theorem not_freshAt_fire {σ : Type} (hh : Handler σ) (r : RState σ) (j : Nat) (t : PTimer) (e : RProc σ) (m : Msg)
    (dst : Nat) (rest : List Action) (ht : r.timers[j]? = some t) (he : amGet? t.proc r.procs = some e)
    (hacts : (hh t.proc e.st (.timer t.name)).2 = .send m dst :: rest) (hcan : r.net.canFault = true)
    (g : Flight) (hg : g ∈ r.flights) (hkey : g.key = (m, t.proc, dst)) : ¬ FreshAt hh r (.fire j) := by
  intro hf
  simp only [FreshAt, ht, he, hacts, freshActs, freshSend] at hf
  exact (hf.1 hcan).1 g hg |>.1 hkey

/-- **(5)** `FreshSendsFrom` fails: already in `r0` the step `fire 0` is reduced-enabled, and the handler call of
    process 0 on its timer sends `⟨1, "q"⟩` to process 1 while an identical message is in the air -/
theorem D17_not_fresh : ¬ FreshSendsFrom h .normal r0 := by
  intro hfr
  have hen : r0.enabledRed .normal (.fire 0) = true := by decide
  refine not_freshAt_fire h r0 0 ⟨0, 0, 1⟩ ⟨1, []⟩ ⟨1, pq⟩ 1 [] ?_ ?_ rfl r0_shape.2.2.2.1
    ⟨⟨1, pq⟩, 0, 1, .noFail 1⟩ ?_ rfl (hfr [] r0 rfl (.fire 0) hen)
  · rw [r0_shape.1]; rfl
  · rw [r0_shape.2.2.1]; rfl
  · rw [r0_shape.2.1]; exact List.mem_singleton.2 rfl

/-- the reference run that the simulator continuation would need: fire the timer, then CORRUPT THE NEW FLIGHT (position
    1) — which is not reduced-enabled behind the identical older flight: `refRun` fails, while the unreduced step
    exists -/
theorem D17_blocked :
    (refRun h .normal r0 [.fire 0]).map (fun r => r.flights) =
      some [⟨⟨1, pq⟩, 0, 1, .noFail 1⟩, ⟨⟨1, pq⟩, 0, 1, .faults false 0 true⟩] ∧
    refRun h .normal r0 [.fire 0, .corrupt 1] = none ∧
    refRun h .normal r0 [.fire 0, .corrupt 0] = none ∧
    ((r0.step h (.fire 0)).bind fun r => r.step h (.corrupt 1)).isSome = true := by decide

/-! ## all OTHER hypotheses of `sim_run_covered_fates` hold on this instance -/

section others
open R6Demo

/-- `h` without its actions -/
def hQuiet : Handler Nat := fun p st i => ((h p st i).1, [])

/-- the four set-up calls -/
def qPre : Sim Nat Ticks :=
  match (qEmpty.addNode 0).bind fun s => (s.addNode 1).bind fun s => (s.addProcess 0 0 0).bind fun s =>
    s.addProcess 1 0 1 with
  | .ok s => s
  | .error _ => qEmpty

/-- the local message has been received and the state of process 0 updated, its actions not yet processed: quiet -/
def qa : Sim Nat Ticks := match Sim.sendLocal (liftHandler hQuiet) qPre 0 ⟨0, [103, 111]⟩ with
  | .ok s => s
  | .error _ => qEmpty

def acts0 : List Action := [.send ⟨1, pq⟩ 1, .set 0 1 false]

/-- the actions processed (delay 6, all rates zero) -/
def qb : Sim Nat Ticks := match Sim.handleActions 0 0 ⟨0⟩ acts0 qa with
  | .ok s => s
  | .error _ => qEmpty

theorem qb_eq : Sim.handleActions 0 0 ⟨0⟩ acts0 qa = .ok qb := rfl

theorem q0_qb : q0 = qb.netSet fun x => { x with minDelay := ⟨1⟩, maxDelay := ⟨1⟩, corruptRate := ⟨1000⟩ } := rfl

def pA : SProc Nat Ticks := { st := 1, log := [⟨⟨0⟩, .lrecv ⟨0, [103, 111]⟩⟩] }
def ndA : SNode Nat Ticks := { skew := ⟨0⟩, procs := [(0, pA)], localCount := 1 }
def ndB : SNode Nat Ticks := { skew := ⟨0⟩, procs := [(1, { st := 0 })] }

theorem qa_nodes : qa.nodes = [(0, ndA), (1, ndB)] := rfl

theorem qa_node {n : Nat} {nd : SNode Nat Ticks} (hn : amGet? n qa.nodes = some nd) :
    (n = 0 ∧ nd = ndA) ∨ (n = 1 ∧ nd = ndB) := by
  rw [qa_nodes] at hn
  exact amGet?_pair hn

/-- the reference state of the quiet state `qa` -/
def ra : RState Nat :=
  { procs := qa.nodes.flatMap (fun nd => nd.2.procs.map fun pe => (pe.1, ({ st := pe.2.st, outbox := pe.2.outbox } : RProc Nat))),
    crashedNodes := (qa.nodes.filter (fun nd => !qa.handlers.contains nd.1)).map (·.1),
    net := snapshotNet bitsT qa }

theorem rela : TimedRelF bitsT qa ra [] := by
  refine timedRelF_of_quiet bitsT qa rfl rfl ⟨rfl, rfl⟩ ?_ ?_ ?_ ?_ ?_
  · intro n nd p e hn hp
    rcases qa_node hn with ⟨rfl, rfl⟩ | ⟨rfl, rfl⟩
    · obtain ⟨rfl, rfl⟩ := amGet?_singleton (show amGet? p [(0, pA)] = some e from hp); rfl
    · obtain ⟨rfl, rfl⟩ := amGet?_singleton (show amGet? p [(1, ({ st := 0 } : SProc Nat Ticks))] = some e from hp); rfl
  · intro n nd p e hn hp
    rcases qa_node hn with ⟨rfl, rfl⟩ | ⟨rfl, rfl⟩
    · obtain ⟨rfl, rfl⟩ := amGet?_singleton (show amGet? p [(0, pA)] = some e from hp); rfl
    · obtain ⟨rfl, rfl⟩ := amGet?_singleton (show amGet? p [(1, ({ st := 0 } : SProc Nat Ticks))] = some e from hp); rfl
  · intro p n hh
    rcases amGet?_pair (show amGet? p [(0, 0), (1, 1)] = some n from hh) with ⟨rfl, rfl⟩ | ⟨rfl, rfl⟩ <;> rfl
  · intro n
    constructor
    · intro hh
      have : n = 0 ∨ n = 1 := by
        have hh' : n ∈ [0, 1] := hh
        simpa using hh'
      rcases this with rfl | rfl
      · exact ⟨ndA, rfl, rfl⟩
      · exact ⟨ndB, rfl, rfl⟩
    · rintro ⟨nd, hn, _⟩
      rcases qa_node hn with ⟨rfl, rfl⟩ | ⟨rfl, rfl⟩
      · show 0 ∈ [0, 1]; simp
      · show 1 ∈ [0, 1]; simp
  · rw [qa_nodes]
    exact List.pairwise_cons.2 ⟨by intro x hx; simp only [List.mem_singleton] at hx; subst hx; decide,
      List.pairwise_singleton _ _⟩

theorem ctxa : ra.Ctx 0 0 := ⟨rfl, rfl, by decide⟩

/-- `qb` is related to a reference state -/
theorem relb : ∃ r gs, TimedRelF bitsT qb r gs := by
  obtain ⟨gs, rv, _, hrel, _⟩ := r7_acts_sim (bits := bitsT) (n := 0) (p := 0) (time := (⟨0⟩ : Ticks)) acts0 qa ra ra
    [] [] [] [] rela (RState.SameButFlights.r7_refl _) ctxa rfl (List.Perm.refl _) (by intro x hx; cases hx)
    (fun _ => ⟨(by intro x hx; cases hx), List.Pairwise.nil⟩)
    ⟨fun hc => absurd hc (by decide), trivial, trivial⟩
    (by
      intro d hd
      have : qa.draws = List.replicate 46 ⟨0⟩ := rfl
      rw [this, List.mem_replicate] at hd
      rw [hd.2]; show (0 : Nat) < 1000; omega)
    (by decide)
    (by
      intro a ha
      simp only [acts0, List.mem_cons, List.not_mem_nil, or_false] at ha
      rcases ha with rfl | rfl
      · show (amGet? 1 ra.net.procLoc).isSome = true
        rfl
      · exact ticks_delay 1)
    qb_eq
  exact ⟨rv, gs, hrel⟩

/-- changing the delays and the corruption rate of the simulator's network keeps the relation, with the corresponding
    change of the reference network -/
theorem timedRelF_netSet (q : Sim Nat Ticks) (r : RState Nat) (gs : List (TimerGhost Ticks))
    (hr : TimedRelF bitsT q r gs) (mn mx cr : Ticks)
    (hdel : TimeOps.le TimeOps.zero mn = true ∧ TimeOps.le mn mx = true) :
    TimedRelF bitsT (q.netSet fun x => { x with minDelay := mn, maxDelay := mx, corruptRate := cr })
      { r with net := { r.net with corruptPos := TimeOps.lt TimeOps.zero cr, maxDelay := bitsT mx } } gs :=
  ⟨⟨⟨hr.net.netFlags.1, hr.net.netFlags.2.1, rfl⟩, hr.net.netLoc, hr.net.netCut, rfl, hr.net.crashed, hr.net.locNodes,
      hr.net.handlersOk, hr.net.nodesSorted⟩,
    ⟨hr.proc.procs, hr.proc.procsBack⟩,
    ⟨hr.queue.queueWF, hr.queue.clockOk, hr.queue.cancWF, hdel, hr.queue.timerLoc, hr.queue.msgLoc⟩,
    ⟨hr.timer.timers, hr.timer.ghostsNodup, hr.timer.ghostsTie, hr.timer.ghostsCover, hr.timer.ghostsLive,
      hr.timer.ghostClock, hr.timer.ghostMono, hr.timer.ghostBits, hr.timer.pendMap, hr.timer.uniq⟩,
    ⟨hr.flights.perm⟩⟩

/-- `hrel`: `q0` is related to a reference state -/
theorem rel0 : ∃ r gs, TimedRelF bitsT q0 r gs := by
  obtain ⟨r, gs, hr⟩ := relb
  rw [q0_qb]
  exact ⟨_, gs, timedRelF_netSet qb r gs hr ⟨1⟩ ⟨1⟩ ⟨1000⟩ ⟨rfl, rfl⟩⟩

/-! ### well-formedness of `q0` -/

def pA0 : SProc Nat Ticks :=
  { st := 1, log := [⟨⟨0⟩, .lrecv ⟨0, [103, 111]⟩⟩, ⟨⟨0⟩, .sent ⟨1, pq⟩ 0 1⟩, ⟨⟨0⟩, .tset 0 1 false⟩],
    pending := [(0, 1)], sent := 1 }
def ndA0' : SNode Nat Ticks := { skew := ⟨0⟩, procs := [(0, pA0)], localCount := 1 }
def pB0 : SProc Nat Ticks := { st := 0 }
def evM : QEv Ticks := ⟨0, ⟨6⟩, 0, 1, .msg 0 ⟨1, pq⟩ 0 0 1 1⟩
def evT : QEv Ticks := ⟨1, ⟨1⟩, 0, 0, .timer 0 0⟩

theorem q0_nodes : q0.nodes = [(0, ndA0'), (1, ndB)] := rfl
theorem q0_events : q0.events = [evM, evT] := rfl
theorem q0_live : q0.live = [evM, evT] := rfl
theorem q0_loc : q0.net.procLoc = [(0, 0), (1, 1)] := rfl

theorem mem_q0_live {e : QEv Ticks} (he : e ∈ q0.live) : e = evM ∨ e = evT := by
  rw [q0_live] at he
  simpa using he

theorem q0_node {n : Nat} {nd : SNode Nat Ticks} (hn : amGet? n q0.nodes = some nd) :
    (n = 0 ∧ nd = ndA0') ∨ (n = 1 ∧ nd = ndB) := by
  rw [q0_nodes] at hn
  exact amGet?_pair hn

/-- `hwf` -/
theorem q0_wf : SnapWF q0 := by
  refine ⟨?_, ?_, ?_, ?_, ?_, ?_, ?_, ?_, ?_, ?_, ?_⟩
  · rw [q0_nodes]
    exact List.pairwise_cons.2 ⟨by intro x hx; simp only [List.mem_singleton] at hx; subst hx; decide,
      List.pairwise_singleton _ _⟩
  · intro nd hh
    rw [q0_nodes] at hh
    simp only [List.mem_cons, List.not_mem_nil, or_false] at hh
    rcases hh with rfl | rfl <;> exact List.pairwise_singleton _ _
  · rw [q0_nodes]; decide
  · intro n nd p e hn hp
    rcases q0_node hn with ⟨rfl, rfl⟩ | ⟨rfl, rfl⟩
    · obtain ⟨rfl, rfl⟩ := amGet?_singleton (show amGet? p [(0, pA0)] = some e from hp); rfl
    · obtain ⟨rfl, rfl⟩ := amGet?_singleton (show amGet? p [(1, pB0)] = some e from hp); rfl
  · intro p n hh
    rw [q0_loc] at hh
    rcases amGet?_pair hh with ⟨rfl, rfl⟩ | ⟨rfl, rfl⟩
    · exact ⟨ndA0', pA0, rfl, rfl⟩
    · exact ⟨ndB, pB0, rfl, rfl⟩
  · intro e he p name hd
    rcases mem_q0_live he with rfl | rfl
    · cases hd
    · cases hd; rfl
  · intro a ha b hb p name hda hdb
    rcases mem_q0_live ha with rfl | rfl
    · cases hda
    · rcases mem_q0_live hb with rfl | rfl
      · cases hdb
      · rfl
  · intro n nd p e hn _ hp name
    rcases q0_node hn with ⟨rfl, rfl⟩ | ⟨rfl, rfl⟩
    · obtain ⟨rfl, rfl⟩ := amGet?_singleton (show amGet? p [(0, pA0)] = some e from hp)
      constructor
      · rintro ⟨id, hh⟩
        obtain ⟨rfl, rfl⟩ := amGet?_singleton (show amGet? name [(0, 1)] = some id from hh)
        exact ⟨evT, by rw [q0_live]; simp, rfl⟩
      · rintro ⟨ev, hev, hd⟩
        rcases mem_q0_live hev with rfl | rfl
        · cases hd
        · cases hd; exact ⟨1, rfl⟩
    · obtain ⟨rfl, rfl⟩ := amGet?_singleton (show amGet? p [(1, pB0)] = some e from hp)
      constructor
      · rintro ⟨id, hh⟩
        cases hh
      · rintro ⟨ev, hev, hd⟩
        rcases mem_q0_live hev with rfl | rfl
        · cases hd
        · cases hd
  · intro e he p name hd nd hn
    rcases mem_q0_live he with rfl | rfl
    · cases hd
    · rcases q0_node hn with ⟨_, rfl⟩ | ⟨h0, _⟩
      · rfl
      · cases h0
  · intro e he mid m src sn dst dn hd
    rcases mem_q0_live he with rfl | rfl
    · cases hd
      refine ⟨rfl, rfl, ?_⟩
      intro nd hn
      rcases q0_node hn with ⟨_, rfl⟩ | ⟨h0, _⟩
      · rfl
      · cases h0
    · cases hd
  · rw [q0_events]; decide

/-! ### the program -/

theorem h_len (p st : Nat) (i : Input) : (h p st i).2.length ≤ 2 := by
  unfold h
  split <;> simp

/-- `h` sends to process 1 only -/
theorem h_sends (p st : Nat) (i : Input) (a : Action) (ha : a ∈ (h p st i).2) (m : Msg) (dst : Nat)
    (hm : a = .send m dst) : dst = 1 := by
  subst hm
  unfold h at ha
  split at ha <;> simp at ha <;> omega

/-- `h` sets a timer only on a local message, which the reference steps never feed it -/
theorem h_actsFree_msg (r : RState Nat) (p st : Nat) (m : Msg) (src : Nat) :
    r.overrideFreeActs p (h p st (.msg m src)).2 = true := by
  unfold h
  split <;> simp_all [RState.overrideFreeActs]

theorem h_actsFree_timer (r : RState Nat) (p st name : Nat) :
    r.overrideFreeActs p (h p st (.timer name)).2 = true := by
  unfold h
  split <;> simp_all [RState.overrideFreeActs]

theorem h_overrideFree (r : RState Nat) (l : Label) : r.overrideFree h l = true := by
  cases l with
  | deliver i =>
    simp only [RState.overrideFree]
    split
    · rfl
    · split
      · rfl
      · exact h_actsFree_msg _ _ _ _ _
  | fire j =>
    simp only [RState.overrideFree]
    split
    · rfl
    · split
      · rfl
      · exact h_actsFree_timer _ _ _ _
  | drop i => rfl
  | dup i => rfl
  | corrupt i => rfl

theorem q0_draws : ∀ d ∈ q0.draws, LawfulTime.isDraw d := by
  intro d hd
  rw [q0_shape.2.2.2.2.2.2.2.2, List.mem_replicate] at hd
  rw [hd.2]; show (0 : Nat) < 1000; omega

/-- **Freshness is exactly what breaks**: every hypothesis of `sim_run_covered_fates` other than `FreshSendsFrom` holds
    on this instance (both strategies, `k = 2` and `k = 3`) — the theorem applies as soon as freshness is assumed -/
theorem D17_only_freshness_missing (strat : Strat) (hfr : FreshSendsFrom h .normal r0) :
    (∃ e ∈ (accOf strat).evald, visibleEqMc q2 e) ∧ (∃ e ∈ (accOf strat).evald, visibleEqMc q3 e) := by
  obtain ⟨r, gs, hrel⟩ := rel0
  have hlen : q0.draws.length = 42 := by rw [q0_shape.2.2.2.2.2.2.2.2]; rfl
  have hknown : ∀ p st i a, a ∈ (h p st i).2 → ∀ m dst, a = .send m dst → (amGet? dst q0.net.procLoc).isSome = true := by
    intro p st i a ha m dst hm
    rw [h_sends p st i a ha m dst hm]
    rfl
  constructor
  · refine sim_run_covered_fates bitsT ticks_snapTimeLaws h demoP demoP_keyBased (fun _ => 0) q0 r gs hrel q0_wf
      s0 s0_eq strat .full (Or.inl rfl) (fuelOf strat) (accOf strat) (d17Search_eq strat)
      (fun ls r' _ l _ => h_overrideFree r' l) hfr (fun p st i a _ name d once _ => ticks_delay d) hknown
      (fun x _ hx => demoP_cont x hx) 2 q2 q2_eq q0_draws ?_
    intro p st i
    have := h_len p st i
    omega
  · refine sim_run_covered_fates bitsT ticks_snapTimeLaws h demoP demoP_keyBased (fun _ => 0) q0 r gs hrel q0_wf
      s0 s0_eq strat .full (Or.inl rfl) (fuelOf strat) (accOf strat) (d17Search_eq strat)
      (fun ls r' _ l _ => h_overrideFree r' l) hfr (fun p st i a _ name d once _ => ticks_delay d) hknown
      (fun x _ hx => demoP_cont x hx) 3 q3 q3_eq q0_draws ?_
    intro p st i
    have := h_len p st i
    omega

/-- `D17_not_fresh` once more, now as a consequence of the main theorem and the witness -/
theorem D17_not_fresh' : ¬ FreshSendsFrom h .normal r0 :=
  fun hfr => D17_uncovered .dfs (D17_only_freshness_missing .dfs hfr).1

end others

end Anysystem.D17
