import Anysystem.Proofs.SearchDfs
/-!
# BFS: invariants for arbitrary results, what an `ok` run guarantees, and minimal depth of errors
-/
set_option linter.unusedSectionVars false

namespace Anysystem

variable {σ κ : Type} [DecidableEq κ]

/-! ## Invariants that hold whatever the result -/

theorem bfs_accInv (S : TSys σ κ) (P : Acc σ κ → Prop)
    (hcache : ∀ a c, P a → P { a with cache := c })
    (hcheck : ∀ a s, P a → P (a.check S s).1)
    (n : Nat) (q : List σ) (a : Acc σ κ) (r : Res σ) (a' : Acc σ κ)
    (h : bfsLoop S n q a = some (r, a')) (hP : P a) : P a' := by
  refine bfs_rule S (I := fun _ a => P a) (F := fun _ a => P a) ?_ ?_ ?_ ?_ ?_ n q a r a' hP h
  · intro a h; exact h
  · intro s q a msg h _; exact hcheck a s h
  · intro s q a st h _; exact hcheck a s h
  · intro s q a e h _ _; exact hcheck a s h
  · intro s q a cs h _ _; exact hcache _ _ (hcheck a s h)

theorem bfs_reach (S : TSys σ κ) (s₀ : σ) (n : Nat) (q : List σ) (a : Acc σ κ) (r : Res σ) (a' : Acc σ κ)
    (h : bfsLoop S n q a = some (r, a')) (hq : ∀ x ∈ q, ReachC S s₀ x)
    (ha : ∀ e ∈ a.evald, ReachC S s₀ e) :
    (∀ e ∈ a'.evald, ReachC S s₀ e) ∧
      ∀ msg e, r = .err msg e → e ∈ a'.evald ∧ S.verdict e = .fail msg := by
  have hstep : ∀ (s : σ) (q : List σ) (a : Acc σ κ),
      ((∀ x ∈ s :: q, ReachC S s₀ x) ∧ ∀ e ∈ a.evald, ReachC S s₀ e) →
      ∀ e ∈ (a.check S s).1.evald, ReachC S s₀ e := by
    intro s q a h e he
    rw [check_evald] at he
    rcases List.mem_append.mp he with he | he
    · exact h.2 e he
    · simp only [List.mem_singleton] at he; subst he; exact h.1 _ (List.mem_cons_self ..)
  refine bfs_rule S
    (I := fun q a => (∀ x ∈ q, ReachC S s₀ x) ∧ ∀ e ∈ a.evald, ReachC S s₀ e)
    (F := fun r a => (∀ e ∈ a.evald, ReachC S s₀ e) ∧
      ∀ msg e, r = .err msg e → e ∈ a.evald ∧ S.verdict e = .fail msg)
    ?_ ?_ ?_ ?_ ?_ n q a r a' ⟨hq, ha⟩ h
  · intro a h; exact ⟨h.2, fun _ _ h => by cases h⟩
  · intro s q a msg h hv
    refine ⟨hstep s q a h, ?_⟩
    intro msg' e he
    cases he
    exact ⟨by rw [check_evald]; simp, hv⟩
  · intro s q a st h _
    exact ⟨fun x hx => h.1 x (List.mem_cons_of_mem _ hx), hstep s q a h⟩
  · intro s q a e h _ _
    exact ⟨hstep s q a h, fun _ _ h => by cases h⟩
  · intro s q a cs h hv hs
    obtain ⟨added, h1, h2, _⟩ := bfsEnqueue_sub S cs q a.cache
    refine ⟨?_, hstep s q a h⟩
    intro x hx
    rw [h1] at hx
    rcases List.mem_append.mp hx with hx | hx
    · exact h.1 x (List.mem_cons_of_mem _ hx)
    · exact ReachC.step (h.1 s (List.mem_cons_self ..)) hv hs (h2 x hx)

theorem bfs_nodup (S : TSys σ κ) (n : Nat) (q : List σ) (a : Acc σ κ) (r : Res σ) (a' : Acc σ κ)
    (h : bfsLoop S n q a = some (r, a')) (hm : ExactCache S a.cache.mode)
    (hnd : ((a.evald ++ q).map S.key).Nodup) (hmk : ∀ x ∈ a.evald ++ q, Marked S a.cache (S.key x)) :
    (a'.evald.map S.key).Nodup := by
  have hsub : ∀ (s : σ) (q : List σ) (a : Acc σ κ), ((a.evald ++ s :: q).map S.key).Nodup →
      ((a.check S s).1.evald.map S.key).Nodup := by
    intro s q a h
    rw [check_evald]
    refine List.Nodup.sublist ?_ h
    refine List.Sublist.map _ ?_
    exact List.Sublist.append (List.Sublist.refl _) (by simp)
  refine bfs_rule S
    (I := fun q a => ExactCache S a.cache.mode ∧ ((a.evald ++ q).map S.key).Nodup ∧
      ∀ x ∈ a.evald ++ q, Marked S a.cache (S.key x))
    (F := fun _ a => (a.evald.map S.key).Nodup)
    ?_ ?_ ?_ ?_ ?_ n q a r a' ⟨hm, hnd, hmk⟩ h
  · intro a h; simpa using h.2.1
  · intro s q a msg h _; exact hsub s q a h.2.1
  · intro s q a st h _
    refine ⟨by rw [check_cache]; exact h.1, ?_, ?_⟩
    · rw [check_evald]; simpa using h.2.1
    · rw [check_evald, check_cache]; simpa using h.2.2
  · intro s q a e h _ _; exact hsub s q a h.2.1
  · intro s q a cs h _ _
    obtain ⟨hm, hnd, hmk⟩ := h
    obtain ⟨added, h1, h2, h3, h4, h5, h6, h7⟩ := bfsEnqueue_exact S cs q a.cache hm
    refine ⟨by rw [h2]; exact hm, ?_, ?_⟩
    · show (((a.check S s).1.evald ++ (bfsEnqueue S cs q a.cache).1).map S.key).Nodup
      rw [check_evald, h1]
      have : a.evald ++ [s] ++ (q ++ added) = (a.evald ++ s :: q) ++ added := by simp
      rw [this, List.map_append, List.nodup_append]
      refine ⟨hnd, h6, ?_⟩
      intro k hk k' hk' hkk
      subst hkk
      obtain ⟨x, hx, rfl⟩ := List.mem_map.mp hk
      obtain ⟨y, hy, hyk⟩ := List.mem_map.mp hk'
      exact h7 y hy (by rw [hyk]; exact hmk x hx)
    · show ∀ x ∈ (a.check S s).1.evald ++ (bfsEnqueue S cs q a.cache).1,
        Marked S (bfsEnqueue S cs q a.cache).2 (S.key x)
      rw [check_evald, h1]
      intro x hx
      rw [h4]
      have heq : a.evald ++ [s] ++ (q ++ added) = (a.evald ++ s :: q) ++ added := by simp
      rw [heq] at hx
      have := List.mem_append.mp hx
      rcases this with hx | hx
      · exact Or.inl (hmk x hx)
      · exact Or.inr ⟨x, hx, rfl⟩

/-! ## The exact-cache loop invariant -/

/-- every marked key belongs to an evaluated or a queued state; evaluated states do not fail and
    the children of expanded states are marked -/
structure BInv (S : TSys σ κ) (q : List σ) (c : Cache κ) (E : List σ) : Prop where
  origin : ∀ k, Marked S c k → (∃ e ∈ E, S.key e = k) ∨ ∃ x ∈ q, S.key x = k
  noFail : ∀ e ∈ E, isFail (S.verdict e) = false
  closed : ∀ e ∈ E, S.verdict e = .cont → ∀ cs, S.succ e = .ok cs → ∀ x ∈ cs, Marked S c (S.key x)

theorem BInv.stop {S : TSys σ κ} {s : σ} {q : List σ} {c : Cache κ} {E : List σ} {st : String}
    (h : BInv S (s :: q) c E) (hv : S.verdict s = .stop st) : BInv S q c (E ++ [s]) := by
  refine ⟨?_, ?_, ?_⟩
  · intro k hk
    rcases h.origin k hk with ⟨e, he, rfl⟩ | ⟨x, hx, rfl⟩
    · exact Or.inl ⟨e, List.mem_append_left _ he, rfl⟩
    · rcases List.mem_cons.mp hx with rfl | hx
      · exact Or.inl ⟨x, by simp, rfl⟩
      · exact Or.inr ⟨x, hx, rfl⟩
  · intro e he
    rcases List.mem_append.mp he with he | he
    · exact h.noFail e he
    · simp only [List.mem_singleton] at he; subst he; simp [hv, isFail]
  · intro e he hc
    rcases List.mem_append.mp he with he | he
    · exact h.closed e he hc
    · simp only [List.mem_singleton] at he; subst he; simp [hv] at hc

theorem BInv.cont {S : TSys σ κ} {s : σ} {q cs : List σ} {c : Cache κ} {E : List σ}
    (hm : ExactCache S c.mode) (h : BInv S (s :: q) c E) (hv : S.verdict s = .cont)
    (hs : S.succ s = .ok cs) :
    BInv S (bfsEnqueue S cs q c).1 (bfsEnqueue S cs q c).2 (E ++ [s]) := by
  obtain ⟨added, h1, h2, h3, h4, h5, h6, h7⟩ := bfsEnqueue_exact S cs q c hm
  refine ⟨?_, ?_, ?_⟩
  · intro k hk
    rw [h1]
    rcases (h4 k).1 hk with hk | ⟨x, hx, rfl⟩
    · rcases h.origin k hk with ⟨e, he, rfl⟩ | ⟨x, hx, rfl⟩
      · exact Or.inl ⟨e, List.mem_append_left _ he, rfl⟩
      · rcases List.mem_cons.mp hx with rfl | hx
        · exact Or.inl ⟨x, by simp, rfl⟩
        · exact Or.inr ⟨x, List.mem_append_left _ hx, rfl⟩
    · exact Or.inr ⟨x, List.mem_append_right _ hx, rfl⟩
  · intro e he
    rcases List.mem_append.mp he with he | he
    · exact h.noFail e he
    · simp only [List.mem_singleton] at he; subst he; simp [hv, isFail]
  · intro e he hc cs' hs' x hx
    rcases List.mem_append.mp he with he | he
    · exact (h4 _).2 (Or.inl (h.closed e he hc cs' hs' x hx))
    · simp only [List.mem_singleton] at he; subst he
      rw [hs] at hs'
      cases hs'
      exact h5 x hx

/-! ## `ok` runs with an exact cache -/

theorem bfs_good (S : TSys σ κ) (s₀ : σ) (n : Nat) (q : List σ) (a : Acc σ κ) (a' : Acc σ κ)
    (h : bfsLoop S n q a = some (.ok, a')) (hm : ExactCache S a.cache.mode)
    (hinv : BInv S q a.cache a.evald) (hs₀ : s₀ ∈ a.evald ∨ s₀ ∈ q) :
    BInv S [] a'.cache a'.evald ∧ s₀ ∈ a'.evald := by
  have hmem : ∀ (s : σ) (q : List σ) (a : Acc σ κ), (s₀ ∈ a.evald ∨ s₀ ∈ s :: q) →
      ∀ q' : List σ, (∀ x ∈ q, x ∈ q') → (s₀ ∈ (a.check S s).1.evald ∨ s₀ ∈ q') := by
    intro s q a h q' hq'
    rw [check_evald]
    rcases h with h | h
    · exact Or.inl (List.mem_append_left _ h)
    · rcases List.mem_cons.mp h with rfl | h
      · exact Or.inl (by simp)
      · exact Or.inr (hq' _ h)
  refine bfs_rule S
    (I := fun q a => ExactCache S a.cache.mode ∧ BInv S q a.cache a.evald ∧ (s₀ ∈ a.evald ∨ s₀ ∈ q))
    (F := fun r a => r = .ok → BInv S [] a.cache a.evald ∧ s₀ ∈ a.evald)
    ?_ ?_ ?_ ?_ ?_ n q a .ok a' ⟨hm, hinv, hs₀⟩ h rfl
  · intro a h _
    refine ⟨h.2.1, ?_⟩
    rcases h.2.2 with h | h
    · exact h
    · simp at h
  · intro s q a msg _ _ h; cases h
  · intro s q a st h hv
    refine ⟨by rw [check_cache]; exact h.1, ?_, hmem s q a h.2.2 q (fun _ h => h)⟩
    rw [check_cache, check_evald]
    exact h.2.1.stop hv
  · intro s q a e _ _ _ h; cases h
  · intro s q a cs h hv hs
    obtain ⟨added, h1, _, h2⟩ := bfsEnqueue_sub S cs q a.cache
    refine ⟨by rw [h2]; exact h.1, ?_, ?_⟩
    · show BInv S (bfsEnqueue S cs q a.cache).1 (bfsEnqueue S cs q a.cache).2 (a.check S s).1.evald
      rw [check_evald]
      exact h.2.1.cont h.1 hv hs
    · exact hmem s q a h.2.2 _ (fun x hx => by rw [h1]; exact List.mem_append_left _ hx)

/-! ## `ok` runs with the cache disabled -/

theorem bfs_closedD (S : TSys σ κ) (s₀ : σ) (n : Nat) (q : List σ) (a : Acc σ κ) (a' : Acc σ κ)
    (h : bfsLoop S n q a = some (.ok, a')) (hm : a.cache.mode = .disabled)
    (hinv : ∀ e ∈ a.evald, isFail (S.verdict e) = false ∧
      (S.verdict e = .cont → ∀ cs, S.succ e = .ok cs → ∀ c ∈ cs, c ∈ a.evald ∨ c ∈ q))
    (hs₀ : s₀ ∈ a.evald ∨ s₀ ∈ q) :
    ClosedD S a'.evald ∧ s₀ ∈ a'.evald := by
  have hmem : ∀ (s : σ) (q : List σ) (a : Acc σ κ), (s₀ ∈ a.evald ∨ s₀ ∈ s :: q) →
      ∀ q' : List σ, (∀ x ∈ q, x ∈ q') → (s₀ ∈ (a.check S s).1.evald ∨ s₀ ∈ q') := by
    intro s q a h q' hq'
    rw [check_evald]
    rcases h with h | h
    · exact Or.inl (List.mem_append_left _ h)
    · rcases List.mem_cons.mp h with rfl | h
      · exact Or.inl (by simp)
      · exact Or.inr (hq' _ h)
  refine bfs_rule S
    (I := fun q a => a.cache.mode = .disabled ∧
      (∀ e ∈ a.evald, isFail (S.verdict e) = false ∧
        (S.verdict e = .cont → ∀ cs, S.succ e = .ok cs → ∀ c ∈ cs, c ∈ a.evald ∨ c ∈ q)) ∧
      (s₀ ∈ a.evald ∨ s₀ ∈ q))
    (F := fun r a => r = .ok → ClosedD S a.evald ∧ s₀ ∈ a.evald)
    ?_ ?_ ?_ ?_ ?_ n q a .ok a' ⟨hm, hinv, hs₀⟩ h rfl
  · intro a h _
    refine ⟨?_, ?_⟩
    · intro e he
      refine ⟨(h.2.1 e he).1, fun hv cs hs c hc => ?_⟩
      rcases (h.2.1 e he).2 hv cs hs c hc with h | h
      · exact h
      · simp at h
    · rcases h.2.2 with h | h
      · exact h
      · simp at h
  · intro s q a msg _ _ h; cases h
  · intro s q a st h hv
    refine ⟨by rw [check_cache]; exact h.1, ?_, hmem s q a h.2.2 q (fun _ h => h)⟩
    rw [check_evald]
    intro e he
    rcases List.mem_append.mp he with he | he
    · refine ⟨(h.2.1 e he).1, fun hve cs hs c hc => ?_⟩
      rcases (h.2.1 e he).2 hve cs hs c hc with h | h
      · exact Or.inl (List.mem_append_left _ h)
      · rcases List.mem_cons.mp h with rfl | h
        · exact Or.inl (by simp)
        · exact Or.inr h
    · simp only [List.mem_singleton] at he; subst he
      exact ⟨by simp [hv, isFail], fun hc => by simp [hv] at hc⟩
  · intro s q a e _ _ _ h; cases h
  · intro s q a cs h hv hs
    rw [bfsEnqueue_disabled S cs q a.cache h.1]
    refine ⟨h.1, ?_, hmem s q a h.2.2 _ (fun x hx => List.mem_append_left _ hx)⟩
    show ∀ e ∈ (a.check S s).1.evald, _
    rw [check_evald]
    intro e he
    rcases List.mem_append.mp he with he | he
    · refine ⟨(h.2.1 e he).1, fun hve cs' hs' c hc => ?_⟩
      rcases (h.2.1 e he).2 hve cs' hs' c hc with h | h
      · exact Or.inl (List.mem_append_left _ h)
      · rcases List.mem_cons.mp h with rfl | h
        · exact Or.inl (by simp)
        · exact Or.inr (List.mem_append_left _ h)
    · simp only [List.mem_singleton] at he; subst he
      refine ⟨by simp [hv, isFail], fun _ cs' hs' c hc => ?_⟩
      rw [hs] at hs'
      cases hs'
      exact Or.inr (List.mem_append_right _ hc)

end Anysystem
