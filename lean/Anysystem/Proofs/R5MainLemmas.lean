import Anysystem.Proofs.R5Snap
import Anysystem.Proofs.R5Rel
import Anysystem.Proofs.SearchThmsOn
import Anysystem.Proofs.C11Congr
/-!
# R5 — helper lemmas for the end-to-end composition (`R5Main`)

* `search_ok_succ_ok`        — an `Ok` search computed the successors of every evaluated state it expanded
                               (a failing `successors` would have ended the run with `panic`);
* `search_ok_reach_succ_ok`  — hence, with key congruence, `successors` of every `ReachC`-reachable expanded state
                               does not fail;
* `sim_step_draws`           — one simulator step of a `TimedRel`-related state drops at most `4 * M` draws from the
                               front of the stream when every handler call returns at most `M` actions;
* `procsOf_eq_of_view`       — equal node views (as in `key_covers`) give equal `procsOf`.
-/
namespace Anysystem

set_option linter.unusedSectionVars false
set_option linter.unusedVariables false
set_option linter.unusedSimpArgs false

/-! ## an `Ok` search expanded every evaluated `cont` state without a panic -/
section SearchOk

variable {σ κ : Type} [DecidableEq κ]

/-- the successors of an expanded state were computed -/
def SuccOk (S : TSys σ κ) (e : σ) : Prop := S.verdict e = .cont → ∃ cs, S.succ e = .ok cs

theorem dfs_succOk (S : TSys σ κ) :
    ∀ n, (∀ s a r a', dfs S n s a = some (r, a') → r = .ok → (∀ e ∈ a.evald, SuccOk S e) →
            ∀ e ∈ a'.evald, SuccOk S e) ∧
         (∀ cs a r a', dfsChildren S n cs a = some (r, a') → r = .ok → (∀ e ∈ a.evald, SuccOk S e) →
            ∀ e ∈ a'.evald, SuccOk S e) := by
  refine dfs_rule S
    (Pd := fun _ a r a' => r = .ok → (∀ e ∈ a.evald, SuccOk S e) → ∀ e ∈ a'.evald, SuccOk S e)
    (Pc := fun _ a r a' => r = .ok → (∀ e ∈ a.evald, SuccOk S e) → ∀ e ∈ a'.evald, SuccOk S e)
    ?_ ?_ ?_ ?_ ?_ ?_ ?_ ?_
  · intro s a e _ h; cases h
  · intro s a cs msg _ _ h; cases h
  · intro s a cs st hs _ _ ha e he
    rw [check_evald] at he
    rcases List.mem_append.mp he with he | he
    · exact ha e he
    · simp only [List.mem_singleton] at he; subst he; exact fun _ => ⟨cs, hs⟩
  · intro s a cs r a' hs _ hc hr ha
    refine hc hr ?_
    intro e he
    rw [check_evald] at he
    rcases List.mem_append.mp he with he | he
    · exact ha e he
    · simp only [List.mem_singleton] at he; subst he; exact fun _ => ⟨cs, hs⟩
  · intro a _ ha; exact ha
  · intro c cs a r a' _ hc; exact hc
  · intro c cs a a1 r a' _ hd hc hr ha
    exact hc hr (hd rfl ha)
  · intro c cs a r a1 _ hne _ hr; exact absurd hr hne

theorem bfs_succOk (S : TSys σ κ) (n : Nat) (q : List σ) (a a' : Acc σ κ)
    (h : bfsLoop S n q a = some (.ok, a')) (ha : ∀ e ∈ a.evald, SuccOk S e) :
    ∀ e ∈ a'.evald, SuccOk S e := by
  refine bfs_rule S (I := fun _ a => ∀ e ∈ a.evald, SuccOk S e)
    (F := fun r a => r = .ok → ∀ e ∈ a.evald, SuccOk S e) ?_ ?_ ?_ ?_ ?_ n q a .ok a' ha h rfl
  · intro a h _; exact h
  · intro s q a msg _ _ h; cases h
  · intro s q a st hI hv e he
    rw [check_evald] at he
    rcases List.mem_append.mp he with he | he
    · exact hI e he
    · simp only [List.mem_singleton] at he; subst he
      intro hc; rw [hv] at hc; cases hc
  · intro s q a e _ _ _ h; cases h
  · intro s q a cs hI _ hs e he
    have he' : e ∈ (a.check S s).1.evald := he
    rw [check_evald] at he'
    rcases List.mem_append.mp he' with he' | he'
    · exact hI e he'
    · simp only [List.mem_singleton] at he'; subst he'; exact fun _ => ⟨cs, hs⟩

/-- an `Ok` search computed the successors of every evaluated state whose verdict is `cont` -/
theorem search_ok_succ_ok (S : TSys σ κ) (strat : Strat) (mode : CacheMode) (fuel : Nat) (s₀ : σ) (a : Acc σ κ)
    (h : search S strat fuel s₀ (Acc.fresh mode) = some (.ok, a)) : ∀ e ∈ a.evald, SuccOk S e := by
  cases strat with
  | dfs =>
    rw [search_dfs_eq] at h
    exact (dfs_succOk S fuel).1 s₀ _ _ _ h rfl (by intro e he; rw [startAcc_evald] at he; simp at he)
  | bfs =>
    rw [search_bfs_eq] at h
    exact bfs_succOk S fuel [s₀] _ a h (by intro e he; rw [startAcc_evald] at he; simp at he)

/-- with key congruence on an invariant of the explored states: `succ` does not fail on any reachable expanded state -/
theorem search_ok_reach_succ_ok (S : TSys σ κ) (Inv : σ → Prop) (hc : CongruentOn S Inv) (hcl : InvClosed S Inv)
    (strat : Strat) (mode : CacheMode) (hm : ExactCache S mode) (fuel : Nat) (s₀ : σ) (h0 : Inv s₀) (a : Acc σ κ)
    (h : search S strat fuel s₀ (Acc.fresh mode) = some (.ok, a)) :
    ∀ x, ReachC S s₀ x → S.verdict x = .cont → ∃ cs, S.succ x = .ok cs := by
  intro x hx hv
  obtain ⟨⟨e, he, hk⟩, _⟩ := search_ok_exhaustive_on S Inv hc hcl strat mode hm fuel s₀ h0 a h x hx
  have hie : Inv e := inv_of_reachC hcl h0 (search_evald_reachable S strat mode fuel s₀ _ a h e he)
  have hix : Inv x := inv_of_reachC hcl h0 hx
  obtain ⟨hve, _, _, herr⟩ := hc x e hix hie hk.symm
  obtain ⟨cs, hcs⟩ := search_ok_succ_ok S strat mode fuel s₀ a h e he (hve ▸ hv)
  cases hsx : S.succ x with
  | ok cx => exact ⟨cx, rfl⟩
  | error er =>
    obtain ⟨e', he'⟩ := herr er hsx
    rw [hcs] at he'; cases he'

end SearchOk

/-! ## draws consumed by one simulator step (duplication rate zero: at most four per action; a send dropped at random
consumes one) -/
section Draws

variable {σ T : Type} [TimeOps T]

open Sim

/-- `acts_sim` with the draw stream: the actions of one handler call drop at most four draws each from the front -/
theorem acts_sim_draws [LawfulTime T] {bits : T → Nat} {n p : Nat} {time : T} {s' : Sim σ T} (acts : List Action) :
    ∀ (s : Sim σ T) (r : RState σ) (gs : List (TimerGhost T)),
      TimedRel bits s r gs → r.Ctx n p → (∀ d ∈ s.draws, LawfulTime.isDraw d) → 4 * acts.length ≤ s.draws.length →
      (∀ a ∈ acts, ActOk bits r.net.procLoc a) → Sim.handleActions n p time acts s = .ok s' →
      ∃ k, k ≤ 4 * acts.length ∧ s'.draws = s.draws.drop k := by
  induction acts with
  | nil =>
    intro s r gs h _ _ _ _ hok
    simp only [Sim.handleActions, Except.ok.injEq] at hok
    subst hok
    exact ⟨0, by simp, by simp⟩
  | cons a rest ih =>
    intro s r gs h hctx hdraws hlen haok hok
    have hlen4 : 4 ≤ s.draws.length := by simp only [List.length_cons] at hlen; omega
    have hloc : (r.act p a).1.net.procLoc = r.net.procLoc := by rw [(RState.act_frame r p a).1]
    have haok' : ∀ a' ∈ rest, ActOk bits (r.act p a).1.net.procLoc a' := by
      intro a' ha'; rw [hloc]; exact haok a' (List.mem_cons_of_mem _ ha')
    have hthis := haok a List.mem_cons_self
    have fin : ∀ (s1 : Sim σ T) (gs1 : List (TimerGhost T)), (∃ k, k ≤ 4 ∧ s1.draws = s.draws.drop k) →
        Sim.handleActions n p time rest s1 = .ok s' → TimedRel bits s1 (r.act p a).1 gs1 →
        ∃ k, k ≤ 4 * (a :: rest).length ∧ s'.draws = s.draws.drop k := by
      intro s1 gs1 ⟨k, hk, hdk⟩ hok1 hrel1
      obtain ⟨k2, hk2, hd2⟩ := ih s1 _ gs1 hrel1 (hctx.act p a) (by
          intro d hd; rw [hdk] at hd; exact hdraws d (List.mem_of_mem_drop hd)) (by
          rw [hdk, List.length_drop]; simp only [List.length_cons] at hlen; omega) haok' hok1
      refine ⟨k + k2, by simp only [List.length_cons]; omega, ?_⟩
      rw [hd2, hdk, List.drop_drop]
    cases a with
    | send m dst =>
      obtain ⟨s1, hk, hok1, hrel1⟩ := act_sim_send h hctx m dst hdraws hlen4 hthis hok
      exact fin s1 gs hk hok1 hrel1
    | loc m =>
      obtain ⟨s1, hd, hok1, hrel1⟩ := act_sim_loc h hctx m hok
      exact fin s1 gs ⟨0, by omega, by simpa using hd⟩ hok1 hrel1
    | set name d once =>
      obtain ⟨s1, gs1, hd, hok1, hrel1⟩ := act_sim_set h hctx name d once hthis.1 hthis.2 hok
      exact fin s1 gs1 ⟨0, by omega, by simpa using hd⟩ hok1 hrel1
    | cancel name =>
      obtain ⟨s1, gs1, hd, hok1, hrel1⟩ := act_sim_cancel h hctx name hok
      exact fin s1 gs1 ⟨0, by omega, by simpa using hd⟩ hok1 hrel1

variable [LawfulTime T] {bits : T → Nat}

/-- `handler_tail` with the draw stream -/
theorem handler_tail_draws (h : Handler σ) {s q' : Sim σ T} {r1 : RState σ} {gs1 : List (TimerGhost T)} {n p : Nat}
    {time : T} (hrel : TimedRel bits s r1 gs1) (hctx : r1.Ctx n p)
    (hdraws : ∀ d ∈ s.draws, LawfulTime.isDraw d) (hlen : ∀ p st i, 4 * (h p st i).2.length ≤ s.draws.length)
    (haok : ∀ p st i, ∀ a ∈ (h p st i).2, ActOk bits r1.net.procLoc a) (i : Input)
    (M : Nat) (hM : ∀ p st i, (h p st i).2.length ≤ M)
    (hrun : runHandler (liftHandler h) n p time i s = .ok q') :
    ∃ k, k ≤ 4 * M ∧ q'.draws = s.draws.drop k := by
  obtain ⟨hn, e, he⟩ := hrel.ctx hctx
  obtain ⟨nd, hnd, hpe⟩ := proc?_some he
  obtain ⟨st', acts, used, hout, hact⟩ := runHandler_ok _ n p time i s q' hnd hpe hrun
  simp only [liftHandler, Prod.mk.injEq] at hout
  obtain ⟨rfl, rfl, rfl⟩ := hout
  have relB := hrel.sameView (sameView_draws s (s.draws.drop 0))
  have relC := relB.updVisible (n := n) (p := p) (e := e) he (fun x => { x with st := (h p e.st i).1 })
    (fun rp => { rp with st := (h p e.st i).1 }) (fun _ => rfl) (fun _ => rfl)
  have ctx2 : RState.Ctx ({ r1 with procs := (r1.procs.map (fun (x : Nat × RProc σ) => if x.1 = p then (x.1, { x.2 with st := (h p e.st i).1 }) else x)) } : RState σ) n p :=
    hctx.congr rfl (fun k => RState.isSome_map_upd r1.procs p (fun rp => { rp with st := (h p e.st i).1 }) k) rfl
  obtain ⟨k, hk, hdk⟩ := acts_sim_draws (h p e.st i).2 _ _ gs1 relC ctx2 (by simpa using hdraws)
    (by simpa using hlen p e.st i) (haok p e.st i) hact
  refine ⟨k, Nat.le_trans hk (Nat.mul_le_mul_left 4 (hM p e.st i)), ?_⟩
  simpa using hdk

/-- one simulator step of a related state drops at most `4 * M` draws from the front of the stream, where `M` bounds
    the number of actions of one handler call (hypotheses as in `sim_step_refines_partial`) -/
theorem sim_step_draws (h : Handler σ) (q q' : Sim σ T) (r : RState σ)
    (gs : List (TimerGhost T)) (hr : TimedRel bits q r gs)
    (hbits : ∀ x y : T, TimeOps.le x y = true → bits x ≤ bits y)
    (hadd : ∀ a b c : T, TimeOps.le a b = true → TimeOps.le (TimeOps.add a c) (TimeOps.add b c) = true)
    (hdelays : ∀ p st i a, a ∈ (h p st i).2 → ∀ name d once, a = .set name d once →
      TimeOps.le TimeOps.zero (TimeOps.ofBits d : T) = true ∧ bits (TimeOps.ofBits d : T) = d)
    (hknown : ∀ p st i a, a ∈ (h p st i).2 → ∀ m dst, a = .send m dst → (amGet? dst q.net.procLoc).isSome = true)
    (hdraws : ∀ d ∈ q.draws, LawfulTime.isDraw d) (hlen : ∀ p st i, 4 * (h p st i).2.length ≤ q.draws.length)
    (M : Nat) (hM : ∀ p st i, (h p st i).2.length ≤ M)
    (hstep : q.step (liftHandler h) = .ok (true, q')) :
    ∃ k, k ≤ 4 * M ∧ q'.draws = q.draws.drop k := by
  obtain ⟨e, s1, hne, hdel⟩ := step_inv _ q q' hstep
  have hf : q.events.length < q.events.length + 1 := Nat.lt_succ_self _
  obtain ⟨f1, f2, f3, f4, f5, f6, f7, f8, f9, f10, f11, f12⟩ := pop_frame hr hf hne
  have haok : ∀ p st i, ∀ a ∈ (h p st i).2, ActOk bits r.net.procLoc a := by
    intro p st i a ha
    cases a with
    | send m dst => rw [ActOk, hr.net.netLoc]; exact hknown p st i _ ha m dst rfl
    | loc m => trivial
    | set name d once => exact hdelays p st i _ ha name d once rfl
    | cancel name => trivial
  unfold deliver at hdel
  by_cases hdst : e.dst ∈ q.handlers
  · have hc : s1.handlers.contains e.dst = true := by rw [f7]; simpa using hdst
    simp only [hc, Bool.not_true, Bool.false_eq_true, if_false] at hdel
    have hncr : e.dst ∉ r.crashedNodes := fun hcr => ((hr.net.crashed e.dst).1 hcr).2 hdst
    cases hd : e.data with
    | msg mid m src sn dst dn =>
      rw [hd] at hdel
      simp only at hdel
      have hrun := onMessage_run _ _ _ _ _ _ _ _ _ hdel
      obtain ⟨hdn, hld, hls⟩ := hr.queue.msgLoc e f5 mid m src sn dst dn hd
      have hed : e ∈ q.deliverable := (mem_deliverable q e).2 ⟨f5, hdst⟩
      have hkm : (m, src, dst) ∈ r.flights.map Flight.key := hr.flights.key_mem hed (by rw [hd]; rfl)
      obtain ⟨fl, g1, g2, g4, g3⟩ := firstKeyIdx_spec (m, src, dst) r.flights hkm
      obtain ⟨i, hi⟩ : ∃ i, i = firstKeyIdx (m, src, dst) r.flights := ⟨_, rfl⟩
      rw [← hi] at g1 g3 g4
      simp only [Flight.key, Prod.mk.injEq] at g2
      obtain ⟨hflm, hfls, hfld⟩ := g2
      have hrel1 := r4_pop_msg hr hf hne hdst hd (r.afterDeliver i fl) i rfl rfl rfl rfl rfl (List.Perm.of_eq g4)
      have hrelA := (hrel1.sameView (sameView_log s1 (.recv s1.clock mid sn src e.dst dst m))).sameView
        (sameView_updProc _ e.dst dst (fun e => { e with log := e.log ++ [⟨s1.clock, .recv m src dst⟩], recv := e.recv + 1 })
          (fun _ => rfl))
      have hex : ∃ pe, s1.proc? e.dst dst = some pe := by
        unfold onMessage at hdel
        cases hn : amGet? e.dst s1.nodes with
        | none => simp [nodeOf, hn] at hdel
        | some nd =>
          simp only [nodeOf, hn] at hdel
          split at hdel
          · cases hdel
          · rename_i hhas
            rw [amHas_eq] at hhas
            cases hp : amGet? dst nd.procs with
            | none => simp [hp] at hhas
            | some pe => exact ⟨pe, by rw [proc?_eq hn]; exact hp⟩
      obtain ⟨pe, hpe⟩ := hex
      have hpeq : q.proc? e.dst dst = some pe := by rw [← proc?_of_nodes f9]; exact hpe
      have hctx : (r.afterDeliver i fl).Ctx e.dst dst := by
        refine ⟨?_, ?_, hncr⟩
        · show amGet? dst r.net.procLoc = some e.dst
          rw [hr.net.netLoc, hdn]; exact hld
        · show (amGet? dst r.procs).isSome = true
          rw [(hr.proc.procs e.dst dst pe hpeq).1]; rfl
      obtain ⟨k, hk, hdk⟩ := handler_tail_draws h hrelA hctx (by simpa [log, f10] using hdraws)
        (by simpa [log, f10] using hlen) haok (.msg m src) M hM hrun
      exact ⟨k, hk, by simpa [log, f10] using hdk⟩
    | timer p name =>
      rw [hd] at hdel
      simp only at hdel
      obtain ⟨nd, e0, hnd, he0, hrun⟩ := onTimer_inv _ _ _ _ _ _ hdel
      have he0' : s1.proc? e.dst p = some e0 := by rw [proc?_eq hnd]; exact he0
      obtain ⟨l1, g, l2, hgs, hgid, hgp, hgn, hget, hunb⟩ := popped_timer_unblocked hr hbits hadd hf hne hdst hd
      obtain ⟨hpend, hrel3⟩ := r4_pop_timer hr hf hne hdst hd he0' hgs hgid
        (.timerFired s1.clock e.id name e.dst p) s1.clock
        (r.afterFire l1.length ⟨p, name, g.delay⟩) rfl rfl rfl rfl rfl
      rw [hpend] at hrun
      simp only at hrun
      have hctx : (r.afterFire l1.length ⟨p, name, g.delay⟩).Ctx e.dst p := by
        have hpeq : q.proc? e.dst p = some e0 := by rw [← proc?_of_nodes f9]; exact he0'
        refine ⟨?_, ?_, hncr⟩
        · show amGet? p r.net.procLoc = some e.dst
          rw [hr.net.netLoc]; exact (hr.proc.procs e.dst p e0 hpeq).2
        · show (amGet? p r.procs).isSome = true
          rw [(hr.proc.procs e.dst p e0 hpeq).1]; rfl
      obtain ⟨k, hk, hdk⟩ := handler_tail_draws h hrel3 hctx (by simpa [log, f10] using hdraws)
        (by simpa [log, f10] using hlen) haok (.timer name) M hM hrun
      exact ⟨k, hk, by simpa [log, f10] using hdk⟩
  · have hc : s1.handlers.contains e.dst = false := by rw [f7]; simpa using hdst
    simp only [hc, Bool.not_false, if_true] at hdel
    cases hdel
    exact ⟨0, by omega, by simpa using f10⟩

end Draws

/-! ## equal node views give equal `procsOf` -/
section View

variable {σ : Type}

theorem procsOf_eq_view (s : McSys σ) :
    procsOf s =
      (s.nodes.map (fun nd => (nd.1, nd.2.crashed, nd.2.procs.map fun pe => (pe.1, pe.2.st, pe.2.outbox)))).flatMap
        (fun v => v.2.2.map fun t => (t.1, ({ st := t.2.1, outbox := t.2.2 } : RProc σ))) := by
  unfold procsOf
  rw [List.flatMap_map]
  congr 1
  funext nd
  simp [List.map_map, Function.comp_def]

theorem procsOf_eq_of_view (a b : McSys σ)
    (hv : a.nodes.map (fun nd => (nd.1, nd.2.crashed, nd.2.procs.map fun pe => (pe.1, pe.2.st, pe.2.outbox))) =
      b.nodes.map (fun nd => (nd.1, nd.2.crashed, nd.2.procs.map fun pe => (pe.1, pe.2.st, pe.2.outbox)))) :
    procsOf a = procsOf b := by
  rw [procsOf_eq_view a, procsOf_eq_view b, hv]

end View

end Anysystem
