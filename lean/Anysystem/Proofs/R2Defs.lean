import Anysystem.Spec.RefSpec
import Anysystem.Proofs.StoreLemmas
/-!
# The simulation relation between the mirrored model checker and RefSpec (R2)
-/
namespace Anysystem

variable {σ : Type}

/-- all processes of an MC system with their process-visible part, in node order then process order -/
def procsOf (s : McSys σ) : List (Nat × RProc σ) :=
  s.nodes.flatMap fun nd => nd.2.procs.map fun pe => (pe.1, ({ st := pe.2.st, outbox := pe.2.outbox } : RProc σ))

/-- well-formed topology: unique names, `proc_locations` agrees with where the processes live -/
structure WFTopo (s : McSys σ) : Prop where
  nodes_nodup : (s.nodes.map (·.1)).Nodup
  procs_nodup : ((procsOf s).map (·.1)).Nodup
  loc_of_proc : ∀ nd ∈ s.nodes, ∀ pe ∈ nd.2.procs, amGet? pe.1 s.net.procLoc = some nd.1
  proc_of_loc : ∀ p n, amGet? p s.net.procLoc = some n →
    ∃ nd, amGet? n s.nodes = some nd ∧ (amGet? p nd.procs).isSome = true

/-- `s` (model checker) and `r` (reference semantics) denote the same situation, witnessed by the
    insertion-ordered abstract store `a` -/
structure SimW (s : McSys σ) (r : RState σ) (a : AStore) : Prop where
  topo : WFTopo s
  rep : Rep s.events a
  flights : r.flights = flightsOf a.pending
  timers : r.timers = timersOf a.pending
  procs : r.procs = procsOf s
  crashed : ∀ nd ∈ s.nodes, (nd.2.crashed = true ↔ nd.1 ∈ r.crashedNodes)
  net : r.net = s.net
  trace : r.trace = s.trace
  /-- `pending_timers` mirrors the pending timer events -/
  pend : ∀ nd ∈ s.nodes, ∀ pe ∈ nd.2.procs, ∀ name, name ∈ pe.2.pending ↔ r.timerPending pe.1 name = true
  uniq : r.timersUnique
  /-- the timer mapping points at the pending instance of every pending timer -/
  tm : ∀ x ∈ a.pending, ∀ p name d, x.2 = .timer p name d → amGet? (p, name) a.tm = some x.1
  /-- nothing is pending from, to or on a crashed node -/
  clean : ∀ x ∈ a.pending, match x.2 with
    | .msg _ src dst _ => r.procCrashed src = false ∧ r.procCrashed dst = false
    | .timer p _ _ => r.procCrashed p = false
    | _ => True

def SimRel0 (s : McSys σ) (r : RState σ) : Prop := ∃ a, SimW s r a

/-- the handler only addresses processes that exist (otherwise `get_proc_node` panics) -/
def SendsKnown (h : Handler σ) (s : McSys σ) : Prop :=
  ∀ p st i, ∀ a ∈ (h p st i).2, ∀ m dst, a = Action.send m dst → (amGet? dst s.net.procLoc).isSome = true

/-- reference run: every label must be enabled (reduced) and possible -/
def refRun (h : Handler σ) (mode : Mode) : RState σ → List Label → Option (RState σ)
  | r, [] => some r
  | r, l :: ls =>
    if r.enabledRed mode l then
      match r.step h l with
      | some r' => refRun h mode r' ls
      | none => none
    else none

/-- every step of the reference run is free of `set_timer` on a pending name (circumstances of D1) -/
def overrideFreeRun (h : Handler σ) : RState σ → List Label → Bool
  | _, [] => true
  | r, l :: ls => r.overrideFree h l && (match r.step h l with
    | some r' => overrideFreeRun h r' ls
    | none => true)

/-- a path of the model checker: alternatives of offered events applied one after another -/
inductive McPath (h : Handler σ) : McSys σ → List Alt → McSys σ → Prop where
  | nil (s : McSys σ) : McPath h s [] s
  | cons {s s' s'' : McSys σ} {ids : List Nat} {id : Nat} {alts : List Alt} {alt : Alt} {rest : List Alt} :
      s.available = .ok ids → id ∈ ids → s.alternatives id = .ok alts → alt ∈ alts →
      s.applyAlt {} h alt = .ok s' → McPath h s' rest s'' → McPath h s (alt :: rest) s''

end Anysystem
