import Anysystem.Proofs.SimTraceInv
import Anysystem.Proofs.SimWholeRunLemmas
/-!
# Helper definitions and lemmas for `SimTimeOrder.lean` (C06 / C17: whole-run time order)

* `SLog.time`: the time stamp of a global trace entry;
* `Sim.keyLt`: the strict lexicographic order on `(time, id)` pairs (the order of the event heap, `evBefore`);
* `Sim.TimeWF`: the queue/time well-formedness invariant (`QueueWF`, `ClockOk`, lawful network delay bounds, lawful
  draws); `Sim.DelaysNonneg` / `Sim.HandlerDelaysOk`: the delays a program sets are non-negative;
* `Sim.Above b s`: everything queued in `s`, and everything that can still be created, comes after the key `b`;
* `Sim.TraceTimeInv`: the times of the global trace are sorted and bounded by the clock;
* `Sim.TimeOrder.TStep`: what a handler run (everything between two pops) does to these: the clock stands still, the
  trace grows by entries stamped with the clock, the queue grows by events with fresh ids and times `≥ clock`;
  `Sim.TimeOrder.TRun`: what a run segment does to clock and trace (clock moves forward, the appended entries are
  sorted and lie between the two clocks).
-/
namespace Anysystem

set_option linter.unusedSectionVars false
set_option linter.unusedVariables false

variable {σ T : Type} [TimeOps T]

/-- the time stamp of a global trace entry -/
def SLog.time : SLog T → T
  | .nodeStarted t _ => t
  | .processStarted t _ _ => t
  | .localSent t _ _ _ _ => t
  | .localRecv t _ _ _ _ => t
  | .sent t _ _ _ _ _ _ => t
  | .recv t _ _ _ _ _ _ => t
  | .dropped t _ _ _ _ _ _ => t
  | .nodeDisconnected t _ => t
  | .nodeConnected t _ => t
  | .nodeCrashed t _ => t
  | .nodeRecovered t _ => t
  | .timerSet t _ _ _ _ _ => t
  | .timerFired t _ _ _ _ => t
  | .timerCancelled t _ _ _ _ => t
  | .linkDisabled t _ _ => t
  | .linkEnabled t _ _ => t
  | .dropIncoming t _ => t
  | .passIncoming t _ => t
  | .dropOutgoing t _ => t
  | .passOutgoing t _ => t
  | .partition t _ _ => t
  | .netReset t => t

namespace Sim

/-- strict lexicographic order on `(time, id)`: earlier time, or the same time and a smaller id -/
def keyLt (a b : T × Nat) : Prop := TimeOps.lt a.1 b.1 = true ∨ (a.1 = b.1 ∧ a.2 < b.2)

/-- the timer delays in a list of actions are non-negative (negative delays make `add_event` panic) -/
def DelaysNonneg (T : Type) [TimeOps T] (acts : List Action) : Prop :=
  ∀ name d once, Action.set name d once ∈ acts → TimeOps.le (TimeOps.zero : T) (TimeOps.ofBits d) = true

/-- the program never sets a timer with a negative delay (as `hdelays` of R4, for clock- and draw-reading handlers) -/
def HandlerDelaysOk (h : SHandler σ T) : Prop := ∀ p st i c dr, DelaysNonneg T (h p st i c dr).2.1

/-- queue/time well-formedness: unique issued ids, nothing queued in the past, `0 ≤ minDelay ≤ maxDelay`, the remaining
    random draws are draws -/
structure TimeWF [LawfulTime T] (s : Sim σ T) : Prop where
  queueWF : s.QueueWF
  clockOk : s.ClockOk
  delaysOk : TimeOps.le TimeOps.zero s.net.minDelay = true ∧ TimeOps.le s.net.minDelay s.net.maxDelay = true
  drawsOk : ∀ d ∈ s.draws, LawfulTime.isDraw d

/-- everything queued comes after `b` in `(time, id)` order, and so will everything created from now on: `b`'s time
    is not after the clock and `b`'s id was already handed out -/
def Above (b : T × Nat) (s : Sim σ T) : Prop :=
  TimeOps.le b.1 s.clock = true ∧ b.2 < s.eventCount ∧ ∀ x ∈ s.events, keyLt b (x.time, x.id)

/-- the times of the global trace are non-decreasing and none lies after the clock -/
def TraceTimeInv (s : Sim σ T) : Prop :=
  (s.trace.map SLog.time).Pairwise (fun a b => TimeOps.le a b = true) ∧ ∀ x ∈ s.trace, TimeOps.le x.time s.clock = true

namespace TimeOrder

/-! ### the `(time, id)` order -/

theorem keyLt_of_le_of_lt [LawfulTime T] {b : T × Nat} {t : T} {i : Nat} (h1 : TimeOps.le b.1 t = true) (h2 : b.2 < i) :
    keyLt b (t, i) := by
  cases hle : TimeOps.le t b.1 with
  | true => exact Or.inr ⟨LawfulTime.le_antisymm _ _ h1 hle, h2⟩
  | false => exact Or.inl ((LawfulTime.lt_iff _ _).2 hle)

theorem le_of_keyLt [LawfulTime T] {a b : T × Nat} (h : keyLt a b) : TimeOps.le a.1 b.1 = true := by
  rcases h with h | ⟨h, _⟩
  · have hf := (LawfulTime.lt_iff _ _).1 h
    rcases LawfulTime.le_total a.1 b.1 with h' | h'
    · exact h'
    · rw [hf] at h'; cases h'
  · rw [h]; exact LawfulTime.le_refl _

/-- `keyLt` on the keys of two events is the heap order `evBefore` -/
theorem keyLt_iff_evBefore [LawfulTime T] (a b : QEv T) :
    keyLt (a.time, a.id) (b.time, b.id) ↔ evBefore a b = true := by
  rw [evBefore_iff]
  constructor
  · rintro (h | ⟨h, hi⟩)
    · exact Or.inl ((LawfulTime.lt_iff _ _).1 h)
    · exact Or.inr ⟨by simp only at h; rw [h]; exact LawfulTime.le_refl _, hi⟩
  · rintro (h | ⟨h, hi⟩)
    · exact Or.inl ((LawfulTime.lt_iff _ _).2 h)
    · cases hle : TimeOps.le b.time a.time with
      | true => exact Or.inr ⟨LawfulTime.le_antisymm _ _ h hle, hi⟩
      | false => exact Or.inl ((LawfulTime.lt_iff _ _).2 hle)

theorem keyLt_irrefl [LawfulTime T] (a : T × Nat) : ¬ keyLt a a := by
  rintro (h | ⟨_, h⟩)
  · have := (LawfulTime.lt_iff _ _).1 h
    rw [LawfulTime.le_refl] at this; cases this
  · exact Nat.lt_irrefl _ h

theorem keyLt_trans [LawfulTime T] {a b c : T × Nat} (hab : keyLt a b) (hbc : keyLt b c) : keyLt a c := by
  have h := evBefore_trans (T := T) ⟨a.2, a.1, 0, 0, .timer 0 0⟩ ⟨b.2, b.1, 0, 0, .timer 0 0⟩ ⟨c.2, c.1, 0, 0, .timer 0 0⟩
    ((keyLt_iff_evBefore _ _).1 hab) ((keyLt_iff_evBefore _ _).1 hbc)
  exact (keyLt_iff_evBefore _ _).2 h

theorem pairwise_of_forall_mem {α : Type} {R : α → α → Prop} {l : List α} (h : ∀ a ∈ l, ∀ b ∈ l, R a b) :
    l.Pairwise R := by
  induction l with
  | nil => exact List.Pairwise.nil
  | cons a l ih =>
    exact List.pairwise_cons.2 ⟨fun b hb => h a List.mem_cons_self b (List.mem_cons_of_mem _ hb),
      ih (fun x hx y hy => h x (List.mem_cons_of_mem _ hx) y (List.mem_cons_of_mem _ hy))⟩

/-! ### `TStep`: between two pops -/

/-- the clock stands still, the trace grows by entries stamped with the clock, the id counter does not shrink, the
    well-formedness is kept, and every queued event is an old one or a new one (fresh id, time not before the clock) -/
structure TStep [LawfulTime T] (s s' : Sim σ T) : Prop where
  clock : s'.clock = s.clock
  count : s.eventCount ≤ s'.eventCount
  trace : ∃ extra, s'.trace = s.trace ++ extra ∧ ∀ x ∈ extra, x.time = s.clock
  wf : s.TimeWF → s'.TimeWF
  fresh : s.TimeWF → ∀ x ∈ s'.events, x ∈ s.events ∨ (s.eventCount ≤ x.id ∧ TimeOps.le s.clock x.time = true)

variable [LawfulTime T]

theorem TStep.refl (s : Sim σ T) : TStep s s :=
  ⟨rfl, Nat.le_refl _, ⟨[], by simp, by simp⟩, fun h => h, fun _ x hx => .inl hx⟩

theorem TStep.trans {s s1 s2 : Sim σ T} (h1 : TStep s s1) (h2 : TStep s1 s2) : TStep s s2 where
  clock := h2.clock.trans h1.clock
  count := Nat.le_trans h1.count h2.count
  trace := by
    obtain ⟨e1, ht1, hx1⟩ := h1.trace
    obtain ⟨e2, ht2, hx2⟩ := h2.trace
    refine ⟨e1 ++ e2, by rw [ht2, ht1, List.append_assoc], ?_⟩
    intro x hx
    rcases List.mem_append.1 hx with hx | hx
    · exact hx1 x hx
    · rw [hx2 x hx, h1.clock]
  wf := fun hw => h2.wf (h1.wf hw)
  fresh := by
    intro hw x hx
    rcases h2.fresh (h1.wf hw) x hx with h | ⟨hid, ht⟩
    · exact h1.fresh hw x h
    · right
      refine ⟨Nat.le_trans h1.count hid, ?_⟩
      rw [← h1.clock]; exact ht

/-- the general primitive: events with fresh consecutive ids and times not before the clock are appended, entries stamped
    with the clock are logged, draws are only consumed, the delay bounds are untouched -/
theorem TStep.of_append {s s' : Sim σ T} (new : List (QEv T)) (k : Nat) (extra : List (SLog T))
    (hclock : s'.clock = s.clock) (hev : s'.events = s.events ++ new)
    (hids : new.map (·.id) = (List.range k).map (s.eventCount + ·)) (hec : s'.eventCount = s.eventCount + k)
    (htr : s'.trace = s.trace ++ extra) (hx : ∀ x ∈ extra, x.time = s.clock)
    (hmin : s'.net.minDelay = s.net.minDelay) (hmax : s'.net.maxDelay = s.net.maxDelay)
    (hdr : ∀ d ∈ s'.draws, d ∈ s.draws)
    (htime : s.TimeWF → ∀ e ∈ new, TimeOps.le s.clock e.time = true) : TStep s s' where
  clock := hclock
  count := by omega
  trace := ⟨extra, htr, hx⟩
  wf := fun hw =>
    { queueWF := hw.queueWF.append new k hev hids hec
      clockOk := by
        intro e he
        rw [hev, List.mem_append] at he
        rw [hclock]
        rcases he with he | he
        · exact hw.clockOk e he
        · exact htime hw e he
      delaysOk := by rw [hmin, hmax]; exact hw.delaysOk
      drawsOk := fun d hd => hw.drawsOk d (hdr d hd) }
  fresh := by
    intro hw x hx'
    rw [hev, List.mem_append] at hx'
    rcases hx' with h | h
    · exact .inl h
    · right
      refine ⟨?_, htime hw x h⟩
      have : x.id ∈ new.map (·.id) := List.mem_map_of_mem (f := (·.id)) h
      rw [hids] at this
      obtain ⟨i, _, hie⟩ := List.mem_map.1 this
      omega

theorem TStep.same {s s' : Sim σ T} (hclock : s'.clock = s.clock) (hev : s'.events = s.events)
    (hec : s'.eventCount = s.eventCount) (htr : s'.trace = s.trace) (hnet : s'.net = s.net)
    (hdr : ∀ d ∈ s'.draws, d ∈ s.draws) : TStep s s' :=
  TStep.of_append [] 0 [] hclock (by simp [hev]) (by simp) (by simp [hec]) (by simp [htr]) (by simp)
    (by rw [hnet]) (by rw [hnet]) hdr (by simp)

theorem TStep.updProc (s : Sim σ T) (n p : Nat) (f : SProc σ T → SProc σ T) : TStep s (s.updProc n p f) :=
  TStep.same (by simp) (by simp) (by simp) (by simp) (by simp) (by simp)

theorem TStep.setNode (s : Sim σ T) (n : Nat) (nd : SNode σ T) : TStep s (s.setNode n nd) :=
  TStep.same rfl rfl rfl rfl rfl (fun _ h => h)

theorem TStep.log (s : Sim σ T) (x : SLog T) (hx : x.time = s.clock) : TStep s (s.log x) :=
  TStep.of_append [] 0 [x] rfl (by simp [Sim.log]) (by simp) rfl rfl
    (by intro y hy; rw [List.mem_singleton] at hy; rw [hy]; exact hx) rfl rfl (fun _ h => h) (by simp)

theorem TStep.dropDraws (s : Sim σ T) (k : Nat) : TStep s { s with draws := s.draws.drop k } :=
  TStep.same rfl rfl rfl rfl rfl (fun _ h => List.mem_of_mem_drop h)

theorem TStep.cancelEvent (s : Sim σ T) (id : Nat) : TStep s (s.cancelEvent id) :=
  TStep.same rfl rfl rfl rfl rfl (fun _ h => h)

theorem TStep.addEvent (s : Sim σ T) (data : QData) (src dst : Nat) (d : T)
    (hd : TimeOps.le TimeOps.zero d = true) : TStep s (s.addEvent data src dst d).1 :=
  TStep.of_append [⟨s.eventCount, TimeOps.add s.clock d, src, dst, data⟩] 1 [] rfl rfl (by simp) rfl (by simp [Sim.addEvent])
    (by simp) rfl rfl (fun _ h => h)
    (by
      intro _ e he
      rw [List.mem_singleton] at he
      rw [he]
      exact LawfulTime.le_add _ _ hd)

theorem TStep.then_updProc {s s1 : Sim σ T} (h : TStep s s1) (n p : Nat) (f : SProc σ T → SProc σ T) :
    TStep s (s1.updProc n p f) := h.trans (TStep.updProc s1 n p f)
theorem TStep.then_setNode {s s1 : Sim σ T} (h : TStep s s1) (n : Nat) (nd : SNode σ T) :
    TStep s (s1.setNode n nd) := h.trans (TStep.setNode s1 n nd)
theorem TStep.then_log {s s1 : Sim σ T} (h : TStep s s1) (x : SLog T) (hx : x.time = s.clock) : TStep s (s1.log x) :=
  h.trans (TStep.log s1 x (by rw [hx, h.clock]))
theorem TStep.then_cancelEvent {s s1 : Sim σ T} (h : TStep s s1) (id : Nat) :
    TStep s (s1.cancelEvent id) := h.trans (TStep.cancelEvent s1 id)
theorem TStep.then_addEvent {s s1 : Sim σ T} (h : TStep s s1) (data : QData) (src dst : Nat) (d : T)
    (hd : TimeOps.le TimeOps.zero d = true) :
    TStep s (s1.addEvent data src dst d).1 := h.trans (TStep.addEvent s1 data src dst d hd)

/-- `send_message`: the `MessageSent` (and `MessageDropped`) entries carry the clock; the queued copies get fresh ids and
    arrival times `clock + delay` with `0 ≤ minDelay ≤ delay` -/
theorem TStep.sendMessage (hzero : LawfulTime.isDraw (TimeOps.zero : T)) {s s' : Sim σ T} {m : Msg} {src dst tl : Nat}
    (hok : s.sendMessage m src dst tl = .ok s') : TStep s s' := by
  obtain ⟨sn, dn, hs, hdl⟩ := sendMessage_ok_loc hok
  by_cases hne : sn = dn
  · subst hne
    rw [sendMessage_same s m src dst sn _ hs hdl] at hok
    cases hok
    refine TStep.of_append
      [⟨s.eventCount, TimeOps.add s.clock TimeOps.zero, sn, sn, .msg s.net.messageCount m src sn dst sn⟩] 1
      [.sent s.clock s.net.messageCount sn src sn dst m] rfl rfl (by simp) rfl rfl ?_ rfl rfl (fun _ h => h) ?_
    · intro x hx
      rw [List.mem_singleton] at hx
      rw [hx]; rfl
    · intro _ e he
      rw [List.mem_singleton] at he
      rw [he]
      exact LawfulTime.le_add _ _ (LawfulTime.le_refl _)
  · rw [sendMessage_cross s m src dst sn dn _ hs hdl hne] at hok
    have hs' := (Except.ok.inj hok).symm
    clear hok
    cases hdr : s.sendDropped sn dn with
    | true =>
      rw [cross_dropped _ _ _ _ _ _ _ hdr] at hs'
      subst hs'
      refine TStep.of_append [] 0 [.sent s.clock s.net.messageCount sn src dn dst m,
        .dropped s.clock s.net.messageCount sn src dn dst m] rfl (by simp) (by simp) rfl rfl ?_ rfl rfl
        (fun _ h => List.mem_of_mem_drop h) (by simp)
      intro x hx
      simp only [List.mem_cons, List.not_mem_nil, or_false] at hx
      rcases hx with rfl | rfl <;> rfl
    | false =>
      rw [cross_passed _ _ _ _ _ _ _ hdr] at hs'
      subst hs'
      refine TStep.of_append ((List.range s.sendCount).map
          (copyEv s (.msg s.net.messageCount (s.sendPayload m) src sn dst dn) sn dn s.sendBase)) s.sendCount
        [.sent s.clock s.net.messageCount sn src dn dst m] rfl rfl (by rw [List.map_map]; rfl) rfl rfl ?_ rfl rfl
        (fun _ h => List.mem_of_mem_drop h) ?_
      · intro x hx
        rw [List.mem_singleton] at hx
        rw [hx]; rfl
      · intro hw e he
        obtain ⟨i, _, rfl⟩ := List.mem_map.1 he
        have hr := dr_isDraw s.draws hw.drawsOk hzero (s.sendBase + i)
        have hb := (LawfulTime.scale_bounds _ _ _ hw.delaysOk.2 hr).1
        exact LawfulTime.le_add _ _ (LawfulTime.le_trans _ _ _ hw.delaysOk.1 hb)

/-- `handle_process_actions`, called with the current clock as `time` -/
theorem handleActions_tstep (hzero : LawfulTime.isDraw (TimeOps.zero : T)) (n p : Nat) (acts : List Action) :
    ∀ (s s' : Sim σ T) (time : T), time = s.clock → DelaysNonneg T acts →
      handleActions n p time acts s = .ok s' → TStep s s' := by
  induction acts with
  | nil =>
    intro s s' time _ _ h
    simp only [handleActions, Except.ok.injEq] at h
    subst h
    exact TStep.refl s
  | cons a rest ih =>
    intro s s' time ht hacts h
    subst ht
    have hrest : DelaysNonneg T rest := fun name d once hm => hacts name d once (List.mem_cons_of_mem _ hm)
    have cont : ∀ s1 : Sim σ T, TStep s s1 → handleActions n p s.clock rest s1 = .ok s' → TStep s s' :=
      fun s1 hr h1 => hr.trans (ih s1 s' s.clock hr.clock.symm hrest h1)
    cases a with
    | send m dst =>
      simp only [handleActions] at h
      split at h
      · cases h
      · rename_i s1 hs1
        exact cont _ (((TStep.updProc s n p _).trans (TStep.sendMessage hzero hs1)).then_updProc n p _) h
    | loc m =>
      simp only [handleActions] at h
      split at h
      · cases h
      · split at h
        · cases h
        · refine cont _ ?_ h
          apply TStep.then_setNode
          refine TStep.then_log ?_ _ rfl
          exact TStep.updProc s n p _
    | set name delay once =>
      have hdel : TimeOps.le (TimeOps.zero : T) (TimeOps.ofBits delay) = true :=
        hacts name delay once List.mem_cons_self
      simp only [handleActions] at h
      split at h
      · cases h
      · split at h
        · cases h
        · split at h
          · split at h
            · exact cont _ (TStep.updProc s n p _) h
            · refine cont _ ?_ h
              refine TStep.then_log ?_ _ rfl
              apply TStep.then_updProc
              refine TStep.then_addEvent ?_ _ _ _ _ hdel
              apply TStep.then_cancelEvent
              exact TStep.updProc s n p _
          · refine cont _ ?_ h
            refine TStep.then_log ?_ _ rfl
            apply TStep.then_updProc
            refine TStep.then_addEvent ?_ _ _ _ _ hdel
            exact TStep.updProc s n p _
    | cancel name =>
      simp only [handleActions] at h
      split at h
      · cases h
      · split at h
        · cases h
        · split at h
          · refine cont _ ?_ h
            apply TStep.then_cancelEvent
            refine TStep.then_log ?_ _ rfl
            apply TStep.then_updProc
            exact TStep.updProc s n p _
          · exact cont _ (TStep.updProc s n p _) h

theorem runHandler_tstep (hzero : LawfulTime.isDraw (TimeOps.zero : T)) (h : SHandler σ T) (hh : HandlerDelaysOk h)
    (n p : Nat) (time : T) (i : Input) {s s' : Sim σ T} (ht : time = s.clock)
    (hok : runHandler h n p time i s = .ok s') : TStep s s' := by
  cases hn : amGet? n s.nodes with
  | none => simp [Sim.runHandler, nodeOf, hn] at hok
  | some nd =>
    cases he : amGet? p nd.procs with
    | none => simp [Sim.runHandler, nodeOf, hn, he] at hok
    | some e =>
      obtain ⟨st', acts, used, hcall, hact⟩ := runHandler_ok h n p time i s s' hn he hok
      have hacts : DelaysNonneg T acts := by
        have := hh p e.st i (TimeOps.add s.clock nd.skew) s.draws
        rw [hcall] at this
        exact this
      exact ((TStep.dropDraws s used).then_updProc n p _).trans
        (handleActions_tstep hzero n p acts _ s' time (by rw [ht, updProc_clock]) hacts hact)

theorem onMessage_tstep (hzero : LawfulTime.isDraw (TimeOps.zero : T)) (h : SHandler σ T) (hh : HandlerDelaysOk h)
    (n mid p : Nat) (m : Msg) (src srcNode : Nat) {s s' : Sim σ T}
    (hok : onMessage h n mid p m src srcNode s = .ok s') : TStep s s' := by
  unfold Sim.onMessage at hok
  split at hok
  · cases hok
  · split at hok
    · cases hok
    · exact ((TStep.log s _ rfl).then_updProc n p _).trans
        (runHandler_tstep hzero h hh n p _ _ (by rw [updProc_clock]; rfl) hok)

theorem onTimer_tstep (hzero : LawfulTime.isDraw (TimeOps.zero : T)) (h : SHandler σ T) (hh : HandlerDelaysOk h)
    (n p name : Nat) {s s' : Sim σ T} (hok : onTimer h n p name s = .ok s') : TStep s s' := by
  unfold Sim.onTimer at hok
  split at hok
  · cases hok
  · split at hok
    · cases hok
    · rename_i nd _ e he
      cases hp : amGet? name e.pending with
      | none =>
        simp only [hp] at hok
        exact (TStep.updProc s n p _).trans
          (runHandler_tstep hzero h hh n p _ _ (by rw [updProc_clock]) hok)
      | some id =>
        simp only [hp] at hok
        refine TStep.trans ?_ (runHandler_tstep hzero h hh n p _ _ (by simp [Sim.log]) hok)
        refine TStep.then_log ?_ _ rfl
        apply TStep.then_updProc
        exact TStep.updProc s n p _

theorem onLocal_tstep (hzero : LawfulTime.isDraw (TimeOps.zero : T)) (h : SHandler σ T) (hh : HandlerDelaysOk h)
    (n p : Nat) (m : Msg) {s s' : Sim σ T} (hok : onLocal h n p m s = .ok s') : TStep s s' := by
  unfold Sim.onLocal at hok
  split at hok
  · cases hok
  · split at hok
    · cases hok
    · refine TStep.trans ?_ (runHandler_tstep hzero h hh n p _ _ (by rw [updProc_clock]; rfl) hok)
      apply TStep.then_updProc
      apply TStep.then_setNode
      exact TStep.log s _ rfl

theorem deliver_tstep (hzero : LawfulTime.isDraw (TimeOps.zero : T)) (h : SHandler σ T) (hh : HandlerDelaysOk h)
    (e : QEv T) {s s' : Sim σ T} (hok : deliver h e s = .ok s') : TStep s s' := by
  unfold Sim.deliver at hok
  split at hok
  · cases hok; exact TStep.refl s
  · split at hok
    · exact onMessage_tstep hzero h hh _ _ _ _ _ _ hok
    · exact onTimer_tstep hzero h hh _ _ _ hok

/-- `Above b` is kept between two pops -/
theorem TStep.above {s s' : Sim σ T} (h : TStep s s') (hw : s.TimeWF) {b : T × Nat} (ha : Above b s) : Above b s' := by
  obtain ⟨h1, h2, h3⟩ := ha
  refine ⟨by rw [h.clock]; exact h1, Nat.lt_of_lt_of_le h2 h.count, ?_⟩
  intro x hx
  rcases h.fresh hw x hx with hx | ⟨hid, ht⟩
  · exact h3 x hx
  · exact keyLt_of_le_of_lt (LawfulTime.le_trans _ _ _ h1 ht) (Nat.lt_of_lt_of_le h2 hid)

/-! ### the pop -/

/-- nothing with the popped id stays queued -/
theorem nextEvent_ids_ne (fuel : Nat) (s s' : Sim σ T) (e : QEv T) (h : nextEvent fuel s = (some e, s')) :
    ∀ x ∈ s'.events, x.id ≠ e.id := by
  induction fuel generalizing s with
  | zero => simp [nextEvent] at h
  | succ fuel ih =>
    rw [nextEvent_succ] at h
    split at h
    · cases h
    · rename_i m hm
      split at h
      · exact ih _ h
      · cases h
        intro x hx
        simpa using (List.mem_filter.1 hx).2

/-- a successful pop: the invariant is kept, the clock moves (forward) to the popped event's time, trace and id counter are
    untouched, the queue only loses events, and everything still queued comes strictly after the popped event -/
theorem pop_some {fuel : Nat} {s s1 : Sim σ T} {e : QEv T} (hf : s.events.length < fuel) (hw : s.TimeWF)
    (hpop : nextEvent fuel s = (some e, s1)) :
    s1.TimeWF ∧ s1.clock = e.time ∧ TimeOps.le s.clock e.time = true ∧ s1.trace = s.trace ∧
    s1.eventCount = s.eventCount ∧ e ∈ s.events ∧ (∀ x ∈ s1.events, x ∈ s.events) ∧ Above (e.time, e.id) s1 := by
  obtain ⟨h1, _, _, h4, h5, h6, h7, _⟩ := nextEvent_some_core fuel s s1 e hpop
  obtain ⟨f1, f2, f3, _⟩ := nextEvent_frame fuel s s1 _ hpop
  obtain ⟨k1, k2, k3⟩ := nextEvent_keeps s s1 e fuel hf hw.queueWF hw.clockOk hpop
  refine ⟨⟨k3, k2, by rw [f2]; exact hw.delaysOk, by rw [f3]; exact hw.drawsOk⟩, h4, hw.clockOk e h1, f1, h5, h1,
    fun x hx => h6.subset hx, ?_, ?_, ?_⟩
  · rw [h4]; exact LawfulTime.le_refl _
  · rw [h5]; exact hw.queueWF.2 e h1
  · intro x hx
    have hne := nextEvent_ids_ne fuel s s1 e hpop x hx
    rw [keyLt_iff_evBefore]
    rcases evBefore_total e x (Ne.symm hne) with h | h
    · exact h
    · rw [h7 x hx] at h; cases h

/-- a pop below a bound `b`: the popped event comes after `b`, and `b` stays a bound -/
theorem pop_above {fuel : Nat} {s s1 : Sim σ T} {e : QEv T} (hf : s.events.length < fuel) (hw : s.TimeWF)
    (hpop : nextEvent fuel s = (some e, s1)) {b : T × Nat} (ha : Above b s) :
    keyLt b (e.time, e.id) ∧ Above b s1 := by
  obtain ⟨_, p2, _, _, p5, p6, p7, _⟩ := pop_some hf hw hpop
  have hk := ha.2.2 e p6
  refine ⟨hk, ?_, by rw [p5]; exact ha.2.1, fun x hx => ha.2.2 x (p7 x hx)⟩
  rw [p2]; exact le_of_keyLt hk

/-- an unsuccessful pop (nothing live is queued): the invariant is kept, clock and trace are untouched -/
theorem pop_none {fuel : Nat} {s s1 : Sim σ T} (hf : s.events.length < fuel) (hw : s.TimeWF)
    (hpop : nextEvent fuel s = (none, s1)) : s1.TimeWF ∧ s1.clock = s.clock ∧ s1.trace = s.trace := by
  obtain ⟨_, h2, h3, _⟩ := nextEvent_none_core fuel s s1 hf hpop
  obtain ⟨_, f2, f3, f4, _, _, f7, _⟩ := nextEvent_frame fuel s s1 _ hpop
  refine ⟨⟨hw.queueWF.sublist f7 f4, ?_, by rw [f2]; exact hw.delaysOk, by rw [f3]; exact hw.drawsOk⟩, h2, h3⟩
  intro x hx
  rw [h2]
  exact hw.clockOk x (f7.subset hx)

/-! ### `TRun`: clock and trace along a run segment -/

/-- the clock does not go back; the trace grows by entries whose times are sorted and lie between the old and the new
    clock -/
structure TRun (s s' : Sim σ T) : Prop where
  clock : TimeOps.le s.clock s'.clock = true
  trace : ∃ extra, s'.trace = s.trace ++ extra ∧
    (extra.map SLog.time).Pairwise (fun a b => TimeOps.le a b = true) ∧
    ∀ y ∈ extra, TimeOps.le s.clock y.time = true ∧ TimeOps.le y.time s'.clock = true

theorem TRun.refl (s : Sim σ T) : TRun s s :=
  ⟨LawfulTime.le_refl _, [], by simp, by simp, by simp⟩

theorem TRun.trans {s s1 s2 : Sim σ T} (h1 : TRun s s1) (h2 : TRun s1 s2) : TRun s s2 where
  clock := LawfulTime.le_trans _ _ _ h1.clock h2.clock
  trace := by
    obtain ⟨e1, ht1, hp1, hb1⟩ := h1.trace
    obtain ⟨e2, ht2, hp2, hb2⟩ := h2.trace
    refine ⟨e1 ++ e2, by rw [ht2, ht1, List.append_assoc], ?_, ?_⟩
    · rw [List.map_append, List.pairwise_append]
      refine ⟨hp1, hp2, ?_⟩
      intro a ha b hb
      obtain ⟨x, hx, rfl⟩ := List.mem_map.1 ha
      obtain ⟨y, hy, rfl⟩ := List.mem_map.1 hb
      exact LawfulTime.le_trans _ _ _ (hb1 x hx).2 (hb2 y hy).1
    · intro y hy
      rcases List.mem_append.1 hy with hy | hy
      · exact ⟨(hb1 y hy).1, LawfulTime.le_trans _ _ _ (hb1 y hy).2 h2.clock⟩
      · exact ⟨LawfulTime.le_trans _ _ _ h1.clock (hb2 y hy).1, (hb2 y hy).2⟩

theorem TRun.of_tstep {s s' : Sim σ T} (h : TStep s s') : TRun s s' := by
  obtain ⟨extra, htr, hx⟩ := h.trace
  refine ⟨by rw [h.clock]; exact LawfulTime.le_refl _, extra, htr, ?_, ?_⟩
  · apply pairwise_of_forall_mem
    intro a ha b hb
    obtain ⟨x, hx1, rfl⟩ := List.mem_map.1 ha
    obtain ⟨y, hy1, rfl⟩ := List.mem_map.1 hb
    rw [hx x hx1, hx y hy1]; exact LawfulTime.le_refl _
  · intro y hy
    rw [hx y hy, h.clock]
    exact ⟨LawfulTime.le_refl _, LawfulTime.le_refl _⟩

/-- a move of the clock alone (a pop) -/
theorem TRun.of_clock {s s' : Sim σ T} (hc : TimeOps.le s.clock s'.clock = true) (htr : s'.trace = s.trace) : TRun s s' :=
  ⟨hc, [], by simp [htr], by simp, by simp⟩

/-- the trace invariant along a run segment -/
theorem TRun.inv {s s' : Sim σ T} (h : TRun s s') (hi : s.TraceTimeInv) : s'.TraceTimeInv := by
  obtain ⟨extra, htr, hp, hb⟩ := h.trace
  obtain ⟨i1, i2⟩ := hi
  refine ⟨?_, ?_⟩
  · rw [htr, List.map_append, List.pairwise_append]
    refine ⟨i1, hp, ?_⟩
    intro a ha b hb'
    obtain ⟨x, hx, rfl⟩ := List.mem_map.1 ha
    obtain ⟨y, hy, rfl⟩ := List.mem_map.1 hb'
    exact LawfulTime.le_trans _ _ _ (i2 x hx) (hb y hy).1
  · intro x hx
    rw [htr] at hx
    rcases List.mem_append.1 hx with hx | hx
    · exact LawfulTime.le_trans _ _ _ (i2 x hx) h.clock
    · exact (hb x hx).2

end TimeOrder
end Sim
end Anysystem
