import Anysystem.Proofs.SimDeliveryDupLemmas
/-!
# C05 for an arbitrary duplication rate — between live nodes every send is dropped when it is sent or delivered 1 to 3 times

`SimDelivery.lean` proves, for duplication rate zero, that every message identifier keeps *exactly one* of: a live queued copy, a
`MessageReceived` entry, a `MessageDropped` entry.  Here the duplication, drop and corruption rates are arbitrary.

`FateBounds s`: for every issued identifier `mid`,
* either `dropCount mid = 1`, `recvCount mid = 0` and no live copy is queued (the message was dropped when it was sent),
* or `dropCount mid = 0` and `1 ≤ recvCount mid + queuedCopies mid ≤ 3`;
together with the global-trace invariant `TraceInv` (for some ghost set — existentially quantified, no ghost state in the model)
and the two queue facts of `ExactFate` (`cancels`, `timers`).  While no node is down (`AllUp`) it holds initially and is kept by
`sendMessage` (through `SendFate`, the fate of one send of `SimFates.lean`), `step`, `steps`, `sendLocal`, `stepUntilNoEvents`.

End results, for a run of `step_until_no_events`: `every_send_has_fate_dup`, `delivered_if_not_dropped_dup`,
`drop_rate_zero_all_delivered` (with the frame `stepUntilNoEvents_cfg`: the network settings do not change during the run), and the
old theorem as a special case (`FateBounds.of_exact`, `every_send_has_one_fate_of_dup`).  `SimDeliveryDupDemo`: a concrete run over
`Ticks` with duplication rate one half in which one message is delivered three times.
-/
namespace Anysystem

set_option linter.unusedSectionVars false

variable {σ T : Type} [TimeOps T]

namespace Sim

/-- every issued message was either dropped when it was sent (one `MessageDropped` entry, never received, no copy queued) or
    has between one and three `MessageReceived` entries and live queued copies together, and no `MessageDropped` entry -/
structure FateBounds (s : Sim σ T) : Prop where
  /-- the global-trace invariant, for some ghost set of identifiers sent with a positive duplication rate -/
  inv : ∃ dup, s.TraceInv dup
  bounds : ∀ mid, mid < s.net.messageCount →
    (s.dropCount mid = 1 ∧ s.recvCount mid = 0 ∧ s.queuedCopies mid = 0) ∨
    (s.dropCount mid = 0 ∧ 1 ≤ s.recvCount mid + s.queuedCopies mid ∧ s.recvCount mid + s.queuedCopies mid ≤ 3)
  /-- only issued event ids are cancelled -/
  cancels : ∀ id ∈ s.canceled, id < s.eventCount
  /-- pending-timer tables point at issued ids that no queued message copy carries -/
  timers : s.TimersOk

/-- any state with an empty trace, an empty queue, nothing cancelled, zeroed message counters and no pending timer -/
theorem FateBounds.of_empty (s : Sim σ T) (htr : s.trace = []) (hev : s.events = []) (hc : s.canceled = [])
    (hn : s.net.messageCount = 0 ∧ s.net.networkMessageCount = 0 ∧ s.net.traffic = 0) (ht : s.TimersOk) :
    s.FateBounds where
  inv := ⟨[], TraceInv.of_empty s htr hev hn⟩
  bounds := by intro mid h; rw [hn.1] at h; cases h
  cancels := by intro id h; rw [hc] at h; cases h
  timers := ht

/-- the invariant holds for a fresh simulator -/
theorem FateBounds.init (clock : T) (net : SimNet T) (draws : List T)
    (hn : net.messageCount = 0 ∧ net.networkMessageCount = 0 ∧ net.traffic = 0) :
    ({ clock := clock, net := net, draws := draws } : Sim σ T).FateBounds :=
  FateBounds.of_empty _ rfl rfl rfl hn (by intro n p e name id h; simp [proc?, amGet?] at h)

/-- **the old invariant is the special case**: "exactly one fate or live copy" implies the bounds (whatever the rates) -/
theorem FateBounds.of_exact {s : Sim σ T} (hi : s.ExactFate) : s.FateBounds where
  inv := ⟨[], hi.inv⟩
  bounds := by
    intro mid hm
    have h1 := hi.exact mid hm
    rw [fates_eq] at h1
    omega
  cancels := hi.cancels
  timers := hi.timers

/-- the upper bound is the one of `TraceInv` -/
theorem FateBounds.le_three {s : Sim σ T} (hi : s.FateBounds) (mid : Nat) :
    s.recvCount mid + s.dropCount mid + s.queuedCopies mid ≤ 3 := by
  obtain ⟨dup, hinv⟩ := hi.inv
  have := hinv.fateBound mid
  rw [fates_eq] at this
  exact this

/-- an identifier that was not issued yet has no entry and no copy -/
theorem FateBounds.unissued {s : Sim σ T} (hi : s.FateBounds) (mid : Nat) (hm : s.net.messageCount ≤ mid) :
    s.recvCount mid = 0 ∧ s.dropCount mid = 0 ∧ s.queuedCopies mid = 0 := by
  obtain ⟨dup, hinv⟩ := hi.inv
  have h1 := hinv.issued mid
  rw [fates_eq] at h1
  refine ⟨?_, ?_, ?_⟩ <;>
  · apply Nat.eq_zero_of_not_pos
    intro hpos
    have := h1 (by omega)
    omega

/-! ### a send -/

/-- shape of a send: no `MessageReceived` entry is written, `d` `MessageDropped` entries of the next identifier, new events `new`
    with fresh ids, all copies of that identifier; either `d = 1` and nothing is queued, or `d = 0` and 1 to 3 copies are -/
theorem FateBounds.send_shape {s s' : Sim σ T} (hi : s.FateBounds) (new : List (QEv T)) (d : Nat)
    (hinv : ∃ dup, s'.TraceInv dup)
    (hR : ∀ mid, s'.recvCount mid = s.recvCount mid)
    (hD : ∀ mid, s'.dropCount mid = s.dropCount mid + if mid = s.net.messageCount then d else 0)
    (hev : s'.events = s.events ++ new) (hc : s'.canceled = s.canceled)
    (hnew : ∀ e ∈ new, e.data.mid? = some s.net.messageCount ∧ s.eventCount ≤ e.id)
    (hec : s.eventCount ≤ s'.eventCount) (hm : s'.net.messageCount = s.net.messageCount + 1)
    (hcase : (d = 1 ∧ new = []) ∨ (d = 0 ∧ 1 ≤ new.length ∧ new.length ≤ 3))
    (hnodes : s'.nodes = s.nodes) : s'.FateBounds := by
  have hq : ∀ mid, s'.queuedCopies mid = s.queuedCopies mid + (new.filter (fun e => e.data.mid? == some mid)).length := by
    intro mid
    unfold queuedCopies
    rw [hev, hc, List.filter_append, List.length_append]
    congr 2
    apply List.filter_congr
    intro e he
    have hlive : s.canceled.contains e.id = false := by
      simp only [List.contains_eq_mem, decide_eq_false_iff_not]
      intro hin
      have := hi.cancels _ hin
      have := (hnew e he).2
      omega
    rw [hlive]
    rfl
  have hall : new.filter (fun e => e.data.mid? == some s.net.messageCount) = new := by
    apply List.filter_eq_self.2
    intro e he
    simp [(hnew e he).1]
  refine ⟨hinv, ?_, ?_, ?_⟩
  · intro mid hmid
    have h1 := hR mid
    have h2 := hD mid
    have h3 := hq mid
    by_cases hmc : mid = s.net.messageCount
    · subst hmc
      obtain ⟨u1, u2, u3⟩ := hi.unissued s.net.messageCount (Nat.le_refl _)
      rw [hall] at h3
      simp only [if_true] at h2
      rcases hcase with ⟨rfl, rfl⟩ | ⟨rfl, hl1, hl3⟩
      · left
        simp only [List.length_nil] at h3
        omega
      · right
        omega
    · have hnone : new.filter (fun e => e.data.mid? == some mid) = [] := by
        apply List.filter_eq_nil_iff.2
        intro e he
        simp [(hnew e he).1, Ne.symm hmc]
      rw [hnone] at h3
      simp only [if_neg hmc, List.length_nil, Nat.add_zero] at h2 h3
      rw [h1, h2, h3]
      exact hi.bounds mid (by omega)
  · intro id hid
    rw [hc] at hid
    exact Nat.lt_of_lt_of_le (hi.cancels id hid) hec
  · intro n p e name id hp hg
    rw [proc?_of_nodes hnodes] at hp
    refine (hi.timers n p e name id hp hg).of_le hec ?_
    intro ev hev'
    rw [hev, List.mem_append] at hev'
    rcases hev' with h | h
    · exact .inl h
    · exact .inr (hnew ev h).2

/-- **the invariant through the fate of one cross-node send** (`SendFate`, `SimFates.lean`): `k = 0` copies and one
    `MessageDropped` entry, or `1 ≤ k ≤ 3` copies and none -/
theorem FateBounds.of_sendFate {s s' : Sim σ T} {m : Msg} {src dst sn dn tipLen k : Nat} {corrupted : Bool}
    (hi : s.FateBounds) (hf : SendFate s s' m src dst sn dn tipLen k corrupted) (hinv : ∃ dup, s'.TraceInv dup) :
    s'.FateBounds := by
  obtain ⟨times, hev⟩ := hf.events
  obtain ⟨hc, _, hnodes, _, _, hnet⟩ := hf.frame
  have hk3 := hf.le3
  refine hi.send_shape _ (if k = 0 then 1 else 0) hinv ?_ ?_ hev hc ?_ (by rw [hf.eventCount]; omega)
    (by rw [hnet]; rfl) ?_ hnodes
  · intro mid
    rw [fd_recvCount_append _ hf.trace]
    by_cases hk : k = 0 <;> simp [hk, SLog.fd_recvOf]
  · intro mid
    rw [fd_dropCount_append _ hf.trace]
    by_cases hk : k = 0
    · by_cases hmc : mid = s.net.messageCount
      · subst hmc
        simp [hk, SLog.fd_dropOf]
      · simp [hk, SLog.fd_dropOf, hmc, Ne.symm hmc]
    · simp [hk, SLog.fd_dropOf]
  · intro e he
    obtain ⟨i, _, rfl⟩ := List.mem_map.1 he
    exact ⟨rfl, Nat.le_add_right _ _⟩
  · by_cases hk : k = 0
    · left
      subst hk
      simp
    · right
      simp only [hk, if_false, List.length_map, List.length_range, true_and]
      omega

/-- one `send_message`, arbitrary rates, with its frame: handlers and network settings are untouched, draws are only
    consumed, no `MessageDropped` entry is written when nothing is lost on the way, and the new events are addressed to the
    node of the destination process -/
theorem sendMessage_bounds [LawfulTime T] {s s' : Sim σ T} (m : Msg) (src dst : Nat)
    (hi : s.FateBounds) (hd : ∀ d ∈ s.draws, LawfulTime.isDraw d) (hzero : LawfulTime.isDraw (TimeOps.zero : T))
    (hok : s.sendMessage m src dst (nameLen m.tip) = .ok s') :
    s'.FateBounds ∧ s'.handlers = s.handlers ∧ s'.net.cfg = s.net.cfg ∧ (∀ d ∈ s'.draws, d ∈ s.draws) ∧
      (s.net.NoLoss → ∀ mid, s'.dropCount mid = s.dropCount mid) ∧
      ∃ dn, amGet? dst s.net.procLoc = some dn ∧ ∀ e ∈ s'.events, e ∈ s.events ∨ e.dst = dn := by
  obtain ⟨dup, hinv⟩ := hi.inv
  obtain ⟨hinv', _, hdraws⟩ := hinv.sendMessage_full m src dst hd hzero hok
  obtain ⟨sn, dn, hs, hdl⟩ := sendMessage_ok_loc hok
  by_cases hne : sn = dn
  · subst hne
    rw [sendMessage_same s m src dst sn _ hs hdl] at hok
    have hs' := (Except.ok.inj hok).symm
    subst hs'
    refine ⟨?_, rfl, rfl, hdraws, ?_, sn, hdl, ?_⟩
    · refine hi.send_shape
        [⟨s.eventCount, TimeOps.add s.clock TimeOps.zero, sn, sn, .msg s.net.messageCount m src sn dst sn⟩] 0
        ⟨_, hinv'⟩ ?_ ?_ rfl rfl (by simp [QData.mid?]) (Nat.le_succ _) rfl (.inr ⟨rfl, by simp, by simp⟩) rfl
      · intro mid
        rw [fd_recvCount_append (s := s) [.sent s.clock s.net.messageCount sn src sn dst m] rfl]
        simp [SLog.fd_recvOf]
      · intro mid
        rw [fd_dropCount_append (s := s) [.sent s.clock s.net.messageCount sn src sn dst m] rfl]
        simp [SLog.fd_dropOf]
    · intro _ mid
      rw [fd_dropCount_append (s := s) [.sent s.clock s.net.messageCount sn src sn dst m] rfl]
      simp [SLog.fd_dropOf]
    · intro e he
      simp only [List.mem_append, List.mem_singleton] at he
      rcases he with h | rfl
      · exact .inl h
      · exact .inr rfl
  · obtain ⟨k, c, hf⟩ := sendMessage_fate_z s s' m src dst sn dn _ hs hdl hne hd hzero hok
    obtain ⟨times, hev⟩ := hf.events
    obtain ⟨_, _, _, hh, _, hnet⟩ := hf.frame
    refine ⟨hi.of_sendFate hf ⟨_, hinv'⟩, hh, by rw [hnet]; rfl, hdraws, ?_, dn, hdl, ?_⟩
    · intro hnl mid
      have hk : k ≠ 0 := fun hk => fd_noLoss_not_dropped s sn dn hd hzero hnl (hf.dropped_iff.1 hk)
      rw [fd_dropCount_append _ hf.trace]
      simp [hk, SLog.fd_dropOf]
    · intro e he
      rw [hev, List.mem_append] at he
      rcases he with h | h
      · exact .inl h
      · obtain ⟨i, _, rfl⟩ := List.mem_map.1 h
        exact .inr rfl

/-- one `send_message`, arbitrary rates -/
theorem FateBounds.sendMessage [LawfulTime T] {s s' : Sim σ T} (m : Msg) (src dst : Nat)
    (hi : s.FateBounds) (hd : ∀ d ∈ s.draws, LawfulTime.isDraw d) (hzero : LawfulTime.isDraw (TimeOps.zero : T))
    (hok : s.sendMessage m src dst (nameLen m.tip) = .ok s') : s'.FateBounds :=
  (sendMessage_bounds m src dst hi hd hzero hok).1

/-! ### the context carried through a handler run -/

/-- everything a step needs and keeps: `FateBounds`, no node down (handler set `H`, queued events addressed to `H`), the
    network settings `N`, lawful draws; and, when the settings lose nothing, no `MessageDropped` entry for an identifier from
    `M0` on -/
structure DCtx [LawfulTime T] (H : List Nat) (N : SimNet T) (M0 : Nat) (s : Sim σ T) : Prop where
  fb : s.FateBounds
  queued : ∀ e ∈ s.events, e.dst ∈ H
  handlers : s.handlers = H
  cfg : s.net.cfg = N
  draws : ∀ d ∈ s.draws, LawfulTime.isDraw d
  fresh : N.NoLoss → ∀ mid, M0 ≤ mid → s.dropCount mid = 0

section ctx
variable [LawfulTime T] {H : List Nat} {N : SimNet T} {M0 : Nat}

theorem DCtx.of_keep {s s' : Sim σ T} (kd : KeepD H s s') (c : DCtx H N M0 s) : DCtx H N M0 s' := by
  have k := kd.keep
  obtain ⟨dup, hinv⟩ := c.fb.inv
  refine ⟨⟨⟨dup, hinv.of_le k.le⟩, ?_, k.cancels c.fb.cancels, k.timers c.fb.timers⟩, k.queued c.queued,
    k.handlers.trans c.handlers, by rw [k.le.net]; exact c.cfg, fun d hd => c.draws d (k.le.draws d hd),
    fun hnl mid hm => by rw [kd.drops]; exact c.fresh hnl mid hm⟩
  intro mid hm
  rw [k.le.net] at hm
  have h1 := k.le.load mid
  have h2 := k.ge mid
  have h3 := c.fb.bounds mid hm
  have h4 := kd.drops mid
  rw [fates_eq, fates_eq] at h1 h2
  omega

theorem DCtx.updProc' {s : Sim σ T} (n p : Nat) (f : SProc σ T → SProc σ T) (hf : ∀ e, (f e).pending = e.pending)
    (c : DCtx H N M0 s) : DCtx H N M0 (s.updProc n p f) := c.of_keep (KeepD.updProc' s n p f hf)

theorem DCtx.log {s : Sim σ T} (x : SLog T) (hx : x.sentId = none ∧ x.fateOf = none) (c : DCtx H N M0 s) :
    DCtx H N M0 (s.log x) := c.of_keep (KeepD.log s x hx)

theorem DCtx.setLocalCount {s : Sim σ T} (n : Nat) {nd : SNode σ T} (hn : amGet? n s.nodes = some nd) (k : Nat)
    (c : DCtx H N M0 s) : DCtx H N M0 (s.setNode n { nd with localCount := k }) :=
  c.of_keep (KeepD.setLocalCount s n hn k)

theorem DCtx.dropDraws {s : Sim σ T} (k : Nat) (c : DCtx H N M0 s) : DCtx H N M0 { s with draws := s.draws.drop k } :=
  c.of_keep (KeepD.dropDraws s k)

theorem DCtx.cancelEvent {s : Sim σ T} (id : Nat) (hid : s.TimerId id) (c : DCtx H N M0 s) :
    DCtx H N M0 (s.cancelEvent id) := c.of_keep (KeepD.cancelEvent s id hid)

/-- the queue is well formed -/
theorem DCtx.qids {s : Sim σ T} (c : DCtx H N M0 s) : s.QueueWF := by
  obtain ⟨dup, hinv⟩ := c.fb.inv
  exact hinv.qids

/-- erasing a pending entry -/
theorem DCtx.erasePending {s : Sim σ T} (n p name : Nat) (c : DCtx H N M0 s) :
    DCtx H N M0 (s.updProc n p fun e => { e with pending := amErase name e.pending }) := by
  refine c.of_keep (KeepD.updProc s n p _ ?_)
  intro e nm id h
  simp only [amGet?_amErase] at h
  split at h
  · cases h
  · exact .inl h

/-- queueing a timer for a node of `H` and recording its id in the pending table -/
theorem DCtx.setTimer {s : Sim σ T} (n p name : Nat) (d : T) (hn : n ∈ H) (c : DCtx H N M0 s) :
    DCtx H N M0 ((s.addEvent (.timer p name) n n d).1.updProc n p
      fun e => { e with pending := amInsert natLt name (s.addEvent (.timer p name) n n d).2 e.pending }) := by
  have c1 : DCtx H N M0 (s.addEvent (.timer p name) n n d).1 := c.of_keep (KeepD.addTimer s p name n n d hn)
  refine c1.of_keep (KeepD.updProc _ n p _ ?_)
  intro e nm id h
  simp only [amGet?_amInsert] at h
  split at h
  · cases h
    exact .inr (timerId_addTimer s c.qids p name n n d)
  · exact .inl h

/-- `send_message` inside a handler run -/
theorem DCtx.sendMessage {s s' : Sim σ T} (hzero : LawfulTime.isDraw (TimeOps.zero : T))
    (hprocs : ∀ p n, amGet? p N.procLoc = some n → n ∈ H) (m : Msg) (src dst : Nat) (c : DCtx H N M0 s)
    (hok : s.sendMessage m src dst (nameLen m.tip) = .ok s') : DCtx H N M0 s' := by
  obtain ⟨hfb, hh, hcfg, hdraws, hnl, dn, hdl, hev⟩ := sendMessage_bounds m src dst c.fb c.draws hzero hok
  refine ⟨hfb, ?_, hh.trans c.handlers, hcfg.trans c.cfg, fun d hd => c.draws d (hdraws d hd), ?_⟩
  · intro e he
    rcases hev e he with h | h
    · exact c.queued e h
    · rw [h]
      refine hprocs dst dn ?_
      rw [← c.cfg]
      exact hdl
  · intro hN mid hm
    have hs : s.net.NoLoss := (fd_noLoss_cfg s.net).1 (by rw [c.cfg]; exact hN)
    rw [hnl hs mid]
    exact c.fresh hN mid hm

/-- `handle_process_actions` of a process on a node of `H` -/
theorem handleActions_dctx (hzero : LawfulTime.isDraw (TimeOps.zero : T))
    (hprocs : ∀ p n, amGet? p N.procLoc = some n → n ∈ H)
    (n p : Nat) (time : T) (hn : n ∈ H) (acts : List Action) : ∀ (s s' : Sim σ T), DCtx H N M0 s →
    handleActions n p time acts s = .ok s' → DCtx H N M0 s' := by
  induction acts with
  | nil =>
    intro s s' c h
    simp only [handleActions, Except.ok.injEq] at h
    subst h
    exact c
  | cons a rest ih =>
    intro s s' c h
    cases a with
    | send m dst =>
      simp only [handleActions] at h
      split at h
      · cases h
      · rename_i s1 hs1
        refine ih _ s' ?_ h
        refine DCtx.updProc' n p _ (fun _ => rfl) ?_
        refine DCtx.sendMessage hzero hprocs m p dst ?_ hs1
        exact DCtx.updProc' n p _ (fun _ => rfl) c
    | loc m =>
      simp only [handleActions] at h
      split at h
      · cases h
      · split at h
        · cases h
        · rename_i nd2 hnd2
          refine ih _ s' ?_ h
          apply DCtx.setLocalCount n (nodeOf_ok hnd2)
          apply DCtx.log _ ⟨rfl, rfl⟩
          exact DCtx.updProc' n p _ (fun _ => rfl) c
    | set name delay once =>
      simp only [handleActions] at h
      have c0 : DCtx H N M0 (s.updProc n p fun e => { e with log := e.log ++ [⟨time, .tset name delay once⟩] }) :=
        DCtx.updProc' n p _ (fun _ => rfl) c
      split at h
      · cases h
      · rename_i nd hnd
        split at h
        · cases h
        · rename_i e he
          have hp := (proc?_eq (p := p) (nodeOf_ok hnd)).trans he
          split at h
          · rename_i oldId hold
            split at h
            · exact ih _ s' c0 h
            · refine ih _ s' ?_ h
              apply DCtx.log _ ⟨rfl, rfl⟩
              apply DCtx.setTimer n p name _ hn
              exact DCtx.cancelEvent oldId (c0.fb.timers n p e name oldId hp hold) c0
          · refine ih _ s' ?_ h
            apply DCtx.log _ ⟨rfl, rfl⟩
            exact DCtx.setTimer n p name _ hn c0
    | cancel name =>
      simp only [handleActions] at h
      have c0 : DCtx H N M0 (s.updProc n p fun e => { e with log := e.log ++ [⟨time, .tcancel name⟩] }) :=
        DCtx.updProc' n p _ (fun _ => rfl) c
      split at h
      · cases h
      · rename_i nd hnd
        split at h
        · cases h
        · rename_i e he
          have hp := (proc?_eq (p := p) (nodeOf_ok hnd)).trans he
          split at h
          · rename_i id hold
            refine ih _ s' ?_ h
            have hid := c0.fb.timers n p e name id hp hold
            apply DCtx.cancelEvent id (hid.of_eq (by simp [Sim.log]) (by simp [Sim.log]))
            apply DCtx.log _ ⟨rfl, rfl⟩
            exact DCtx.erasePending n p name c0
          · exact ih _ s' c0 h

theorem runHandler_dctx (hzero : LawfulTime.isDraw (TimeOps.zero : T))
    (hprocs : ∀ p n, amGet? p N.procLoc = some n → n ∈ H)
    (h : SHandler σ T) (n p : Nat) (time : T) (i : Input) (hn : n ∈ H) {s s' : Sim σ T} (c : DCtx H N M0 s)
    (hok : runHandler h n p time i s = .ok s') : DCtx H N M0 s' := by
  cases hnd : amGet? n s.nodes with
  | none => simp [Sim.runHandler, nodeOf, hnd] at hok
  | some nd =>
    cases he : amGet? p nd.procs with
    | none => simp [Sim.runHandler, nodeOf, hnd, he] at hok
    | some e =>
      obtain ⟨st', acts, used, _, hact⟩ := runHandler_ok h n p time i s s' hnd he hok
      refine handleActions_dctx hzero hprocs n p time hn acts _ s' ?_ hact
      refine DCtx.updProc' n p _ (fun _ => rfl) ?_
      exact DCtx.dropDraws used c

/-- `on_message_received`, given the context for the state in which the `MessageReceived` entry is already logged -/
theorem onMessage_dctx (hzero : LawfulTime.isDraw (TimeOps.zero : T))
    (hprocs : ∀ p n, amGet? p N.procLoc = some n → n ∈ H)
    (h : SHandler σ T) (n mid p : Nat) (m : Msg) (src srcNode : Nat) (hn : n ∈ H) {s s' : Sim σ T}
    (c : DCtx H N M0 (s.log (.recv s.clock mid srcNode src n p m)))
    (hok : onMessage h n mid p m src srcNode s = .ok s') : DCtx H N M0 s' := by
  unfold Sim.onMessage at hok
  split at hok
  · cases hok
  · split at hok
    · cases hok
    · refine runHandler_dctx hzero hprocs h n p _ _ hn ?_ hok
      exact DCtx.updProc' n p _ (fun _ => rfl) c

theorem onTimer_dctx (hzero : LawfulTime.isDraw (TimeOps.zero : T))
    (hprocs : ∀ p n, amGet? p N.procLoc = some n → n ∈ H)
    (h : SHandler σ T) (n p name : Nat) (hn : n ∈ H) {s s' : Sim σ T} (c : DCtx H N M0 s)
    (hok : onTimer h n p name s = .ok s') : DCtx H N M0 s' := by
  unfold Sim.onTimer at hok
  split at hok
  · cases hok
  · split at hok
    · cases hok
    · refine runHandler_dctx hzero hprocs h n p _ _ hn ?_ hok
      split
      · apply DCtx.log _ ⟨rfl, rfl⟩
        apply DCtx.erasePending n p name
        exact DCtx.updProc' n p _ (fun _ => rfl) c
      · exact DCtx.updProc' n p _ (fun _ => rfl) c

theorem onLocal_dctx (hzero : LawfulTime.isDraw (TimeOps.zero : T))
    (hprocs : ∀ p n, amGet? p N.procLoc = some n → n ∈ H)
    (h : SHandler σ T) (n p : Nat) (m : Msg) (hn : n ∈ H) {s s' : Sim σ T} (c : DCtx H N M0 s)
    (hok : onLocal h n p m s = .ok s') : DCtx H N M0 s' := by
  unfold Sim.onLocal at hok
  split at hok
  · cases hok
  · rename_i nd hnd
    split at hok
    · cases hok
    · refine runHandler_dctx hzero hprocs h n p _ _ hn ?_ hok
      refine DCtx.updProc' n p _ (fun _ => rfl) ?_
      apply DCtx.setLocalCount (s := s.log _) n (nodeOf_ok hnd)
      exact DCtx.log _ ⟨rfl, rfl⟩ c

/-- delivering the popped event: it is addressed to a node with a handler, so it is handled -/
theorem deliver_dctx (hzero : LawfulTime.isDraw (TimeOps.zero : T))
    (hprocs : ∀ p n, amGet? p N.procLoc = some n → n ∈ H)
    (h : SHandler σ T) (fuel : Nat) {s s1 s' : Sim σ T} {e : QEv T} (c : DCtx H N M0 s)
    (hpop : nextEvent fuel s = (some e, s1)) (hok : deliver h e s1 = .ok s') : DCtx H N M0 s' := by
  obtain ⟨_, _, _, _, _, h6, _, h8, _⟩ := nextEvent_frame fuel s s1 _ hpop
  have hmem : e ∈ s.events := ((mem_liveOf s e).1 (h8 e rfl).1).1
  have hdst : e.dst ∈ H := c.queued e hmem
  unfold Sim.deliver at hok
  split at hok
  · rename_i hno
    rw [h6, c.handlers] at hno
    simp [hdst] at hno
  · split at hok
    · rename_i mid m src sn dst dn hdat
      have k : KeepD H s (s1.log (.recv s1.clock mid sn src e.dst dst m)) :=
        KeepD.pop_recv c.qids hpop mid (by rw [hdat]; rfl) _ rfl rfl rfl
      exact onMessage_dctx hzero hprocs h e.dst mid dst m src sn hdst (c.of_keep k) hok
    · rename_i q nm hdat
      have k : KeepD H s s1 := KeepD.pop c.qids hpop (by
        intro e' he'
        cases he'
        rw [hdat]; rfl)
      exact onTimer_dctx hzero hprocs h _ _ _ hdst (c.of_keep k) hok

theorem step_dctx (hzero : LawfulTime.isDraw (TimeOps.zero : T))
    (hprocs : ∀ p n, amGet? p N.procLoc = some n → n ∈ H)
    (h : SHandler σ T) {s s' : Sim σ T} (b : Bool) (c : DCtx H N M0 s) (hok : s.step h = .ok (b, s')) :
    DCtx H N M0 s' := by
  unfold Sim.step at hok
  split at hok
  · rename_i s1 heq
    cases hok
    exact c.of_keep (KeepD.pop c.qids heq (by intro e he; cases he))
  · rename_i e s1 heq
    split at hok
    · cases hok
    · rename_i s2 hdel
      cases hok
      exact deliver_dctx hzero hprocs h _ c heq hdel

theorem steps_dctx (hzero : LawfulTime.isDraw (TimeOps.zero : T))
    (hprocs : ∀ p n, amGet? p N.procLoc = some n → n ∈ H)
    (h : SHandler σ T) (k : Nat) : ∀ {s s' : Sim σ T} (b : Bool), DCtx H N M0 s → s.steps h k = .ok (b, s') →
    DCtx H N M0 s' := by
  induction k with
  | zero =>
    intro s s' b c hok
    simp only [Sim.steps, Except.ok.injEq, Prod.mk.injEq] at hok
    obtain ⟨_, rfl⟩ := hok
    exact c
  | succ k ih =>
    intro s s' b c hok
    simp only [Sim.steps] at hok
    split at hok
    · cases hok
    · rename_i s1 hst
      cases hok
      exact step_dctx hzero hprocs h false c hst
    · rename_i s1 hst
      exact ih b (step_dctx hzero hprocs h true c hst) hok

theorem stepUntilNoEvents_dctx (hzero : LawfulTime.isDraw (TimeOps.zero : T))
    (hprocs : ∀ p n, amGet? p N.procLoc = some n → n ∈ H) (h : SHandler σ T) (fuel : Nat) :
    ∀ {s s' : Sim σ T}, DCtx H N M0 s → stepUntilNoEvents h fuel s = some (.ok s') →
      DCtx H N M0 s' ∧ s'.events = [] := by
  induction fuel with
  | zero => intro s s' _ hrun; simp [stepUntilNoEvents] at hrun
  | succ f ih =>
    intro s s' c hrun
    simp only [stepUntilNoEvents] at hrun
    split at hrun
    · cases hrun
    · rename_i s1 hstep
      cases hrun
      exact ⟨step_dctx hzero hprocs h false c hstep, step_false_events h s s' hstep⟩
    · rename_i s1 hstep
      exact ih (step_dctx hzero hprocs h true c hstep) hrun

theorem sendLocal_dctx (hzero : LawfulTime.isDraw (TimeOps.zero : T))
    (hprocs : ∀ p n, amGet? p N.procLoc = some n → n ∈ H)
    (h : SHandler σ T) {s s' : Sim σ T} (p : Nat) (m : Msg) (hloc : ∀ n, amGet? p s.procNodes = some n → n ∈ H)
    (c : DCtx H N M0 s) (hok : s.sendLocal h p m = .ok s') : DCtx H N M0 s' := by
  unfold Sim.sendLocal at hok
  split at hok
  · cases hok
  · rename_i n hn
    split at hok
    · cases hok
    · split at hok
      · cases hok
      · exact onLocal_dctx hzero hprocs h n p m (hloc n hn) c hok

end ctx

/-! ### the statements -/

/-- the context of a state with the invariant and no node down; `M0` is the number of messages issued so far -/
theorem DCtx.mk' [LawfulTime T] {s : Sim σ T} (hi : s.FateBounds) (hup : s.AllUp)
    (hd : ∀ d ∈ s.draws, LawfulTime.isDraw d) : DCtx s.handlers s.net.cfg s.net.messageCount s :=
  ⟨hi, hup.queued, rfl, rfl, hd, fun _ mid hm => (hi.unissued mid hm).2.1⟩

theorem DCtx.allUp [LawfulTime T] {H : List Nat} {N : SimNet T} {M0 : Nat} {s : Sim σ T} (c : DCtx H N M0 s)
    (hprocs : ∀ p n, amGet? p N.procLoc = some n → n ∈ H) : s.AllUp := by
  refine ⟨?_, by rw [c.handlers]; exact c.queued⟩
  intro p n hp
  rw [c.handlers]
  refine hprocs p n ?_
  rw [← c.cfg]
  exact hp

/-- one step while no node is down: the invariant, `AllUp`, the network settings and the lawfulness of the draws are kept -/
theorem FateBounds.step [LawfulTime T] (h : SHandler σ T) {s s' : Sim σ T} (b : Bool)
    (hi : s.FateBounds) (hup : s.AllUp)
    (hd : ∀ d ∈ s.draws, LawfulTime.isDraw d) (hzero : LawfulTime.isDraw (TimeOps.zero : T))
    (hok : s.step h = .ok (b, s')) :
    s'.FateBounds ∧ s'.AllUp ∧ s'.net.cfg = s.net.cfg ∧ (∀ d ∈ s'.draws, LawfulTime.isDraw d) := by
  have c := step_dctx (N := s.net.cfg) hzero hup.procs h b (DCtx.mk' hi hup hd) hok
  exact ⟨c.fb, c.allUp hup.procs, c.cfg, c.draws⟩

theorem FateBounds.steps [LawfulTime T] (h : SHandler σ T) (k : Nat) {s s' : Sim σ T} (b : Bool)
    (hi : s.FateBounds) (hup : s.AllUp)
    (hd : ∀ d ∈ s.draws, LawfulTime.isDraw d) (hzero : LawfulTime.isDraw (TimeOps.zero : T))
    (hok : s.steps h k = .ok (b, s')) :
    s'.FateBounds ∧ s'.AllUp ∧ s'.net.cfg = s.net.cfg ∧ (∀ d ∈ s'.draws, LawfulTime.isDraw d) := by
  have c := steps_dctx (N := s.net.cfg) hzero hup.procs h k b (DCtx.mk' hi hup hd) hok
  exact ⟨c.fb, c.allUp hup.procs, c.cfg, c.draws⟩

theorem FateBounds.sendLocal [LawfulTime T] (h : SHandler σ T) {s s' : Sim σ T} (p : Nat) (m : Msg)
    (hi : s.FateBounds) (hup : s.AllUp)
    (hloc : ∀ n, amGet? p s.procNodes = some n → n ∈ s.handlers)
    (hd : ∀ d ∈ s.draws, LawfulTime.isDraw d) (hzero : LawfulTime.isDraw (TimeOps.zero : T))
    (hok : s.sendLocal h p m = .ok s') :
    s'.FateBounds ∧ s'.AllUp ∧ s'.net.cfg = s.net.cfg ∧ (∀ d ∈ s'.draws, LawfulTime.isDraw d) := by
  have c := sendLocal_dctx (N := s.net.cfg) hzero hup.procs h p m hloc (DCtx.mk' hi hup hd) hok
  exact ⟨c.fb, c.allUp hup.procs, c.cfg, c.draws⟩

/-- `step_until_no_events` while no node is down; at the end the queue is empty -/
theorem FateBounds.stepUntilNoEvents [LawfulTime T] (h : SHandler σ T) (fuel : Nat) {s s' : Sim σ T}
    (hi : s.FateBounds) (hup : s.AllUp)
    (hd : ∀ d ∈ s.draws, LawfulTime.isDraw d) (hzero : LawfulTime.isDraw (TimeOps.zero : T))
    (hrun : Sim.stepUntilNoEvents h fuel s = some (.ok s')) :
    s'.FateBounds ∧ s'.AllUp ∧ s'.net.cfg = s.net.cfg ∧ (∀ d ∈ s'.draws, LawfulTime.isDraw d) ∧ s'.events = [] := by
  obtain ⟨c, hev⟩ := stepUntilNoEvents_dctx (N := s.net.cfg) hzero hup.procs h fuel (DCtx.mk' hi hup hd) hrun
  exact ⟨c.fb, c.allUp hup.procs, c.cfg, c.draws, hev⟩

/-- **the frame**: a run of `step_until_no_events` (no node down) does not change the network settings — rates, delays, link
    controls, process locations -/
theorem stepUntilNoEvents_cfg [LawfulTime T] (h : SHandler σ T) (fuel : Nat) {s s' : Sim σ T}
    (hi : s.FateBounds) (hup : s.AllUp)
    (hd : ∀ d ∈ s.draws, LawfulTime.isDraw d) (hzero : LawfulTime.isDraw (TimeOps.zero : T))
    (hrun : Sim.stepUntilNoEvents h fuel s = some (.ok s')) :
    s'.net.dropRate = s.net.dropRate ∧ s'.net.duplRate = s.net.duplRate ∧ s'.net.corruptRate = s.net.corruptRate ∧
    s'.net.minDelay = s.net.minDelay ∧ s'.net.maxDelay = s.net.maxDelay ∧
    s'.net.dropIncoming = s.net.dropIncoming ∧ s'.net.dropOutgoing = s.net.dropOutgoing ∧
    s'.net.disabledLinks = s.net.disabledLinks ∧ s'.net.procLoc = s.net.procLoc := by
  have hc := (FateBounds.stepUntilNoEvents h fuel hi hup hd hzero hrun).2.2.1
  have e : ∀ {α : Type} (f : SimNet T → α), f s'.net.cfg = f s.net.cfg := fun f => congrArg f hc
  exact ⟨e SimNet.dropRate, e SimNet.duplRate, e SimNet.corruptRate, e SimNet.minDelay, e SimNet.maxDelay,
    e SimNet.dropIncoming, e SimNet.dropOutgoing, e SimNet.disabledLinks, e SimNet.procLoc⟩

/-- **nothing is lost silently, whatever the duplication rate**: when the queue has run dry, every message sent has either
    exactly one `MessageDropped` entry and no `MessageReceived` entry, or no `MessageDropped` entry and between one and three
    `MessageReceived` entries -/
theorem every_send_has_fate_dup [LawfulTime T] (h : SHandler σ T) (fuel : Nat) {s s' : Sim σ T}
    (hi : s.FateBounds) (hup : s.AllUp)
    (hd : ∀ d ∈ s.draws, LawfulTime.isDraw d) (hzero : LawfulTime.isDraw (TimeOps.zero : T))
    (hrun : Sim.stepUntilNoEvents h fuel s = some (.ok s')) :
    ∀ mid, mid < s'.net.messageCount →
      (s'.dropCount mid = 1 ∧ s'.recvCount mid = 0) ∨
      (s'.dropCount mid = 0 ∧ 1 ≤ s'.recvCount mid ∧ s'.recvCount mid ≤ 3) := by
  obtain ⟨hfb, _, _, _, hev⟩ := FateBounds.stepUntilNoEvents h fuel hi hup hd hzero hrun
  intro mid hm
  have h1 := hfb.bounds mid hm
  have h2 : s'.queuedCopies mid = 0 := by
    unfold queuedCopies
    rw [hev]
    rfl
  omega

/-- … so a message that was never recorded as dropped has been received, at least once and at most three times -/
theorem delivered_if_not_dropped_dup [LawfulTime T] (h : SHandler σ T) (fuel : Nat) {s s' : Sim σ T}
    (hi : s.FateBounds) (hup : s.AllUp)
    (hd : ∀ d ∈ s.draws, LawfulTime.isDraw d) (hzero : LawfulTime.isDraw (TimeOps.zero : T))
    (hrun : Sim.stepUntilNoEvents h fuel s = some (.ok s')) (mid : Nat) (hm : mid < s'.net.messageCount)
    (hnd : s'.dropCount mid = 0) : 1 ≤ s'.recvCount mid ∧ s'.recvCount mid ≤ 3 := by
  have := every_send_has_fate_dup h fuel hi hup hd hzero hrun mid hm
  omega

/-- **drop rate zero, no link control on: every message issued during the run is delivered** — it has no `MessageDropped`
    entry and between one and three `MessageReceived` entries.  The hypothesis is on the settings of the initial state; they
    do not change during the run (`stepUntilNoEvents_cfg`). -/
theorem drop_rate_zero_all_delivered [LawfulTime T] (h : SHandler σ T) (fuel : Nat) {s s' : Sim σ T}
    (hi : s.FateBounds) (hup : s.AllUp)
    (hd : ∀ d ∈ s.draws, LawfulTime.isDraw d) (hzero : LawfulTime.isDraw (TimeOps.zero : T))
    (hnl : s.net.NoLoss)
    (hrun : Sim.stepUntilNoEvents h fuel s = some (.ok s')) :
    ∀ mid, s.net.messageCount ≤ mid → mid < s'.net.messageCount →
      s'.dropCount mid = 0 ∧ 1 ≤ s'.recvCount mid ∧ s'.recvCount mid ≤ 3 := by
  obtain ⟨c, _⟩ := stepUntilNoEvents_dctx (N := s.net.cfg) hzero hup.procs h fuel (DCtx.mk' hi hup hd) hrun
  intro mid hlo hhi
  have h0 := c.fresh ((fd_noLoss_cfg s.net).2 hnl) mid hlo
  exact ⟨h0, delivered_if_not_dropped_dup h fuel hi hup hd hzero hrun mid hhi h0⟩

/-! ### the old theorem as the special case -/

/-- the global-trace invariant along `step_until_no_events` (the ghost set grows only while the duplication rate is positive) -/
theorem stepUntilNoEvents_next [LawfulTime T] (hzero : LawfulTime.isDraw (TimeOps.zero : T)) (h : SHandler σ T)
    (fuel : Nat) : ∀ {s s' : Sim σ T} {dup : List Nat}, s.TraceInv dup → (∀ d ∈ s.draws, LawfulTime.isDraw d) →
      Sim.stepUntilNoEvents h fuel s = some (.ok s') → Next s dup s' := by
  induction fuel with
  | zero => intro s s' dup _ _ hrun; simp [Sim.stepUntilNoEvents] at hrun
  | succ f ih =>
    intro s s' dup hi hd hrun
    simp only [Sim.stepUntilNoEvents] at hrun
    split at hrun
    · cases hrun
    · rename_i s1 hstep
      cases hrun
      exact step_next hzero h false hi hd hstep
    · rename_i s1 hstep
      exact (step_next hzero h true hi hd hstep).trans
        (fun dup1 hi1 hd1 => ih hi1 (fun d hdd => hd d (hd1 d hdd)) hrun)

/-- `every_send_has_one_fate` (`SimDelivery.lean`) follows from `every_send_has_fate_dup` and the single-fate clause of
    `TraceInv`: with the duplication rate zero, "one to three" is "one" -/
theorem every_send_has_one_fate_of_dup [LawfulTime T] (h : SHandler σ T) (fuel : Nat) {s s' : Sim σ T}
    (hi : s.ExactFate) (hup : s.AllUp) (hz : TimeOps.lt TimeOps.zero s.net.duplRate = false)
    (hd : ∀ d ∈ s.draws, LawfulTime.isDraw d) (hzero : LawfulTime.isDraw (TimeOps.zero : T))
    (hrun : Sim.stepUntilNoEvents h fuel s = some (.ok s')) :
    ∀ mid, mid < s'.net.messageCount → s'.recvCount mid + s'.dropCount mid = 1 := by
  intro mid hm
  have h1 := every_send_has_fate_dup h fuel (FateBounds.of_exact hi) hup hd hzero hrun mid hm
  obtain ⟨dup', hi', _, hdup, _, _⟩ := stepUntilNoEvents_next hzero h fuel hi.inv hd hrun
  rw [hdup hz] at hi'
  have h2 := hi'.fateOnce mid (by simp)
  rw [fates_eq] at h2
  omega

end Sim

/-! ## Non-vacuity: a concrete run over `Ticks` with duplication rate one half in which one message is delivered three times -/
namespace SimDeliveryDupDemo

open Sim
open Sim.TraceDemo (hzero)

/-- node 0 hosts process 1, node 1 hosts process 2; duplication rate one half, drop and corruption rates zero, no link control
    on, delays in `[0, 10]`; the draws: not dropped, not corrupted, duplicated, `copies ⟨600⟩ = 3`, three delay draws, and five
    more (four are used by the reply: not dropped, not corrupted, not duplicated, one delay draw); nothing has happened yet -/
def d1 : Sim Nat Ticks :=
  { clock := ⟨0⟩,
    draws := [⟨1⟩, ⟨1⟩, ⟨1⟩, ⟨600⟩, ⟨0⟩, ⟨500⟩, ⟨999⟩, ⟨7⟩, ⟨8⟩, ⟨900⟩, ⟨100⟩, ⟨200⟩],
    net := { (SimNet.default : SimNet Ticks) with maxDelay := ⟨10⟩, duplRate := ⟨500⟩, procLoc := [(1, 0), (2, 1)] },
    nodes := [(0, { skew := ⟨0⟩, procs := [(1, { st := 0 })] }), (1, { skew := ⟨0⟩, procs := [(2, { st := 0 })] })],
    procNodes := [(1, 0), (2, 1)], handlers := [0, 1] }

/-- process 1 answers a local message with a cross-node send to process 2 and a timer; process 2 acknowledges the first copy
    it receives (its state counts the copies) -/
def hd : SHandler Nat Ticks := fun p st i _ _ =>
  match p, i with
  | 1, .loc _ => (st + 1, [.send ⟨1, [7]⟩ 2, .set 0 5 false], 0)
  | 2, .msg _ src => (st + 1, if st = 0 then [.send ⟨3, []⟩ src] else [], 0)
  | _, _ => (st + 1, [], 0)

example : TimeOps.lt (TimeOps.zero : Ticks) d1.net.duplRate = true := by decide

theorem d1_noLoss : d1.net.NoLoss := ⟨by decide, rfl, rfl, rfl⟩

theorem d1_draws : ∀ d ∈ d1.draws, LawfulTime.isDraw d := by
  intro d hd
  simp only [d1, List.mem_cons, List.not_mem_nil, or_false] at hd
  rcases hd with rfl | rfl | rfl | rfl | rfl | rfl | rfl | rfl | rfl | rfl | rfl | rfl <;>
    (show (_ : Nat) < 1000) <;> decide

theorem d1_bounds : d1.FateBounds := by
  refine FateBounds.of_empty d1 rfl rfl rfl ⟨rfl, rfl, rfl⟩ ?_
  intro n p e name id hp hg
  have hpend : e.pending = [] := by
    unfold proc? at hp
    split at hp
    · rename_i nd hnd
      have h1 := amGet?_eq_some_mem hnd
      have h2 := amGet?_eq_some_mem hp
      simp only [d1, List.mem_cons, List.not_mem_nil, or_false, Prod.mk.injEq] at h1
      rcases h1 with ⟨_, rfl⟩ | ⟨_, rfl⟩ <;>
        simp only [List.mem_cons, List.not_mem_nil, or_false, Prod.mk.injEq] at h2 <;>
        (obtain ⟨_, rfl⟩ := h2; rfl)
    · cases hp
  rw [hpend] at hg
  cases hg

theorem d1_up : d1.AllUp where
  procs := by
    intro p n hp
    have h1 := amGet?_eq_some_mem hp
    simp only [d1, SimNet.default, List.mem_cons, List.not_mem_nil, or_false, Prod.mk.injEq] at h1
    rcases h1 with ⟨_, rfl⟩ | ⟨_, rfl⟩ <;> simp [d1]
  queued := by intro e he; cases he

theorem d1_loc : ∀ n, amGet? 1 d1.procNodes = some n → n ∈ d1.handlers := by
  intro n hn
  simp [d1, amGet?] at hn
  subst hn
  simp [d1]

/-- the state after `send_local_message` to process 1 -/
def d2 : Sim Nat Ticks :=
  match d1.sendLocal hd 1 ⟨0, []⟩ with
  | .ok s => s
  | .error _ => d1

theorem d2_eq : d1.sendLocal hd 1 ⟨0, []⟩ = .ok d2 := rfl

/-- the state after `step_until_no_events` (fuel 10) -/
def d3 : Sim Nat Ticks :=
  match stepUntilNoEvents hd 10 d2 with
  | some (.ok s) => s
  | _ => d2

theorem d3_eq : stepUntilNoEvents hd 10 d2 = some (.ok d3) := rfl

/-- after the `send_local_message` one message is issued and the queue holds **three copies** of it and a timer -/
theorem d2_queue : (d2.net.messageCount, d2.queuedCopies 0, d2.events.length) = (1, 3, 4) := by decide

/-- the run is not trivial: it ends with an empty queue and two messages issued; message 0 is **received three times**, the
    acknowledgement (message 1, issued during the run; not duplicated: its third draw is above the rate) once, none dropped -/
theorem d3_counts : (d3.net.messageCount, [0, 1].map d3.recvCount, [0, 1].map d3.dropCount, d3.events.length) =
    (2, [3, 1], [0, 0], 0) := by decide

/-- every hypothesis of the end results holds for the state after the `send_local_message` … -/
theorem d2_hyps : d2.FateBounds ∧ d2.AllUp ∧ (∀ d ∈ d2.draws, LawfulTime.isDraw d) ∧ d2.net.NoLoss := by
  obtain ⟨hi2, hup2, hcfg2, hd2⟩ := FateBounds.sendLocal hd 1 _ d1_bounds d1_up d1_loc d1_draws hzero d2_eq
  exact ⟨hi2, hup2, hd2, (fd_noLoss_cfg d2.net).1 (by rw [hcfg2]; exact (fd_noLoss_cfg d1.net).2 d1_noLoss)⟩

/-- … so their conclusions hold for the concrete run above -/
theorem d3_results :
    (∀ mid, mid < d3.net.messageCount →
      (d3.dropCount mid = 1 ∧ d3.recvCount mid = 0) ∨
      (d3.dropCount mid = 0 ∧ 1 ≤ d3.recvCount mid ∧ d3.recvCount mid ≤ 3)) ∧
    (∀ mid, mid < d3.net.messageCount → d3.dropCount mid = 0 → 1 ≤ d3.recvCount mid ∧ d3.recvCount mid ≤ 3) ∧
    (∀ mid, d2.net.messageCount ≤ mid → mid < d3.net.messageCount →
      d3.dropCount mid = 0 ∧ 1 ≤ d3.recvCount mid ∧ d3.recvCount mid ≤ 3) := by
  obtain ⟨hi2, hup2, hd2, hnl2⟩ := d2_hyps
  exact ⟨every_send_has_fate_dup hd 10 hi2 hup2 hd2 hzero d3_eq,
    fun mid hm hnd => delivered_if_not_dropped_dup hd 10 hi2 hup2 hd2 hzero d3_eq mid hm hnd,
    drop_rate_zero_all_delivered hd 10 hi2 hup2 hd2 hzero hnl2 d3_eq⟩

/-- the upper bound 3 is attained: `FateBounds` cannot be sharpened to "at most two" -/
theorem d3_three : d3.recvCount 0 = 3 := by decide

end SimDeliveryDupDemo
end Anysystem
