import Anysystem.Proofs.R2AddEvents
/-!
# `handle_process_actions` against `RState.acts` (node side of a reaction)
-/
set_option linter.unusedSimpArgs false
namespace Anysystem

variable {σ : Type}

/-- append local messages to the outbox of process `p` -/
def addOutbox (p : Nat) (locs : List Msg) (x : Nat × RProc σ) : Nat × RProc σ :=
  if x.1 = p then (x.1, { x.2 with outbox := x.2.outbox ++ locs }) else x

theorem map_addOutbox_nil (p : Nat) (P : List (Nat × RProc σ)) : P.map (addOutbox p []) = P := by
  conv => rhs; rw [← List.map_id P]
  apply List.map_congr_left
  intro x _
  simp only [addOutbox, List.append_nil, id]
  split <;> rfl

theorem map_addOutbox_append (p : Nat) (l₁ l₂ : List Msg) (P : List (Nat × RProc σ)) :
    (P.map (addOutbox p l₁)).map (addOutbox p l₂) = P.map (addOutbox p (l₁ ++ l₂)) := by
  rw [List.map_map]
  apply List.map_congr_left
  intro x _
  simp only [Function.comp, addOutbox]
  split <;> simp_all

theorem addEv_msg_timers (r : RState σ) (m : Msg) (s d : Nat) (o : Opts) :
    (r.addEv (.msg m s d o)).1.timers = r.timers := by
  simp only [RState.addEv]
  split
  · split <;> rfl
  · rfl
  · rfl

theorem timerPending_congr {r r' : RState σ} (h : r'.timers = r.timers) (q n : Nat) :
    r'.timerPending q n = r.timerPending q n := by
  simp only [RState.timerPending, h]

theorem removeTimer_noop {r : RState σ} {p n : Nat} (h : r.timerPending p n = false) :
    r.removeTimer p n = r := by
  rw [not_pending_iff] at h
  have : r.timers.filter (fun t => !(t.proc == p && t.name == n)) = r.timers := by
    rw [List.filter_eq_self]
    intro t ht
    have := h t ht
    simp only [Bool.not_eq_eq_eq_not, Bool.not_true, Bool.and_eq_false_iff, beq_eq_false_iff_ne]
    by_cases h1 : t.proc = p
    · right; exact fun e => this ⟨h1, e⟩
    · left; exact h1
  simp only [RState.removeTimer, this]

/-- the per-action override-freedom condition -/
def actFree (r : RState σ) (p : Nat) : Action → Prop
  | .set name _ false => r.timerPending p name = false
  | _ => True

theorem overrideFreeActs_cons {r : RState σ} {p : Nat} {a : Action} {rest : List Action}
    (h : r.overrideFreeActs p (a :: rest) = true) :
    actFree r p a ∧ (r.act p a).1.overrideFreeActs p rest = true := by
  simp only [RState.overrideFreeActs, Bool.and_eq_true] at h
  refine ⟨?_, h.2⟩
  cases a with
  | set name d once =>
    cases once with
    | false => simpa [actFree] using h.1
    | true => trivial
  | _ => trivial

/-- one `Context` call: the code against `RState.act`, through the produced events -/
theorem act_one (p : Nat) (a : Action) (e : ProcEntry σ) (r : RState σ)
    (hpend : ∀ name, name ∈ e.pending ↔ r.timerPending p name = true)
    (hcr : r.procCrashed p = false) (hof : actFree r p a) :
    ∃ (e1 : ProcEntry σ) (ev1 : List Ev) (tr1 : List LogE) (locs : List Msg),
      (∀ rest evs tr, handleActions {} p (a :: rest) e evs tr =
        handleActions {} p rest e1 (evs ++ ev1) (tr ++ tr1)) ∧
      e1.st = e.st ∧ e1.outbox = e.outbox ++ locs ∧
      r.act p a = ((r.addEvs ev1).1.withPT (r.procs.map (addOutbox p locs)) (r.trace ++ tr1),
                    (r.addEvs ev1).2) ∧
      r.evsOK ev1 ∧
      (∀ name, name ∈ e1.pending ↔ (r.addEvs ev1).1.timerPending p name = true) ∧
      (∀ q, q ≠ p → ∀ name, (r.addEvs ev1).1.timerPending q name = r.timerPending q name) ∧
      (∀ m src dst o, Ev.msg m src dst o ∈ ev1 → src = p ∧ a = .send m dst) := by
  cases a with
  | send m dst =>
    refine ⟨{ e with log := e.log ++ [.sent m p dst], sent := e.sent + 1 },
      [.msg m p dst (.noFail 0)], [.sent m p dst], [], ?_, rfl, by simp, ?_, ?_, ?_, ?_, ?_⟩
    · intro rest evs tr
      simp only [handleActions]
    · rw [map_addOutbox_nil]
      simp only [RState.withPT]
      simp only [RState.act, RState.addEvs, RState.addEv, List.append_nil]
      cases hsend : r.net.sendMessage m p dst with
      | error err => simp
      | ok ev' =>
        cases ev' with
        | msg m' s d o' => cases hb : (r.procCrashed s || r.procCrashed d) <;> simp [hb]
        | _ => simp
    · simp [RState.evsOK, RState.evOK]
    · intro name
      rw [hpend name]
      simp only [RState.addEvs]
      rw [timerPending_congr (addEv_msg_timers r m p dst _)]
    · intro q _ name
      simp only [RState.addEvs]
      rw [timerPending_congr (addEv_msg_timers r m p dst _)]
    · intro m' src' dst' o' hm
      simp only [List.mem_singleton, Ev.msg.injEq] at hm
      obtain ⟨rfl, rfl, rfl, _⟩ := hm
      exact ⟨rfl, rfl⟩
  | loc m =>
    refine ⟨{ e with log := e.log ++ [.lsent m], outbox := e.outbox ++ [m] },
      [], [.lsent m p], [m], ?_, rfl, rfl, ?_, ?_, ?_, ?_, ?_⟩
    · intro rest evs tr
      simp only [handleActions, List.append_nil]
    · simp only [RState.act, RState.addEvs]
      rfl
    · simp [RState.evsOK]
    · intro name
      simpa [RState.addEvs] using hpend name
    · intro q _ name
      rfl
    · intro m' src' dst' o' hm
      simp at hm
  | set name delay once =>
    by_cases hc : (!once || !e.pending.contains name) = true
    · -- the timer is set
      have hnp : r.timerPending p name = false := by
        cases once with
        | false => exact hof
        | true =>
          simp only [Bool.not_true, Bool.false_or, Bool.not_eq_eq_eq_not, List.contains_eq_mem,
            decide_eq_false_iff_not] at hc
          have : ¬ r.timerPending p name = true := fun h => hc ((hpend name).mpr h)
          simpa using this
      refine ⟨{ e with log := e.log ++ [.tset name delay once], pending := setInsert name e.pending },
        [.timer p name delay], [.tset p name], [], ?_, rfl, by simp, ?_, ?_, ?_, ?_, ?_⟩
      · intro rest evs tr
        simp only [handleActions, hc, ↓reduceIte]
        simp
      · rw [map_addOutbox_nil]
        simp only [RState.withPT]
        have hcond : (once && r.timerPending p name) = false := by simp [hnp]
        simp only [RState.act, hcond, Bool.false_eq_true, ↓reduceIte, removeTimer_noop hnp,
          RState.addEvs, RState.addEv, List.append_nil]
      · simp [RState.evsOK, RState.evOK, hnp, hcr]
      · intro name'
        simp only [mem_setInsert, hpend name', RState.addEvs, RState.addEv, RState.timerPending,
          List.any_append, List.any_cons, List.any_nil, Bool.or_false, Bool.or_eq_true,
          Bool.and_eq_true, beq_iff_eq, true_and]
        constructor
        · rintro (h | h)
          · right; exact h.symm
          · left; exact h
        · rintro (h | h)
          · right; exact h
          · left; exact h.symm
      · intro q hq name'
        simp only [RState.addEvs, RState.addEv, RState.timerPending, List.any_append, List.any_cons,
          List.any_nil, Bool.or_false]
        have : (p == q) = false := by simpa using fun e => hq e.symm
        simp [this]
      · intro m' src' dst' o' hm
        simp at hm
    · -- `set_timer_once` on a pending name: nothing happens
      simp only [Bool.or_eq_true, Bool.not_eq_eq_eq_not, Bool.not_true, not_or, Bool.not_eq_false] at hc
      obtain ⟨hon, hcont⟩ := hc
      have hp : r.timerPending p name = true := by
        apply (hpend name).mp
        simpa using hcont
      refine ⟨{ e with log := e.log ++ [.tset name delay once] }, [], [], [], ?_, rfl, by simp,
        ?_, ?_, ?_, ?_, ?_⟩
      · intro rest evs tr
        simp only [handleActions, hon, hcont, Bool.not_true, Bool.or_self, Bool.false_eq_true,
          ↓reduceIte, List.append_nil]
      · rw [map_addOutbox_nil]
        simp only [RState.withPT]
        simp only [RState.act, hon, hp, Bool.and_self, ↓reduceIte, RState.addEvs, List.append_nil]
      · simp [RState.evsOK]
      · intro name'
        simpa [RState.addEvs] using hpend name'
      · intro q _ name'
        rfl
      · intro m' src' dst' o' hm
        simp at hm
  | cancel name =>
    by_cases hc : e.pending.contains name = true
    · have hp : r.timerPending p name = true := by
        apply (hpend name).mp
        simpa using hc
      refine ⟨{ e with log := e.log ++ [.tcancel name], pending := setErase name e.pending },
        [.timerCancelled p name], [.tcancel p name], [], ?_, rfl, by simp, ?_, ?_, ?_, ?_, ?_⟩
      · intro rest evs tr
        simp only [handleActions, hc, ↓reduceIte]
      · rw [map_addOutbox_nil]
        simp only [RState.withPT]
        simp only [RState.act, hp, ↓reduceIte, RState.addEvs, RState.addEv, List.append_nil]
        rfl
      · simp [RState.evsOK, RState.evOK, hp]
      · intro name'
        simp only [mem_setErase, hpend name', RState.addEvs, RState.addEv, RState.removeTimer,
          RState.timerPending, List.any_filter, List.any_eq_true, Bool.and_eq_true, beq_iff_eq,
          Bool.not_eq_eq_eq_not, Bool.not_true, Bool.and_eq_false_iff, beq_eq_false_iff_ne]
        constructor
        · rintro ⟨hne, t, ht, h1, h2⟩
          exact ⟨t, ht, Or.inr (by rw [h2]; exact hne), h1, h2⟩
        · rintro ⟨t, ht, hor, h1, h2⟩
          refine ⟨?_, t, ht, h1, h2⟩
          rcases hor with h | h
          · exact absurd h1 h
          · rw [← h2]; exact h
      · intro q hq name'
        simp only [RState.addEvs, RState.addEv, RState.removeTimer, RState.timerPending]
        rw [Bool.eq_iff_iff]
        simp only [List.any_filter, List.any_eq_true, Bool.and_eq_true, beq_iff_eq,
          Bool.not_eq_eq_eq_not, Bool.not_true, Bool.and_eq_false_iff, beq_eq_false_iff_ne]
        constructor
        · rintro ⟨t, ht, _, h1, h2⟩; exact ⟨t, ht, h1, h2⟩
        · rintro ⟨t, ht, h1, h2⟩
          exact ⟨t, ht, Or.inl (by rw [h1]; exact hq), h1, h2⟩
      · intro m' src' dst' o' hm
        simp at hm
    · simp only [Bool.not_eq_true] at hc
      have hp : r.timerPending p name = false := by
        have hn : ¬ name ∈ e.pending := by simpa using hc
        have : ¬ r.timerPending p name = true := fun h => hn ((hpend name).mpr h)
        simpa using this
      refine ⟨{ e with log := e.log ++ [.tcancel name] }, [], [], [], ?_, rfl, by simp,
        ?_, ?_, ?_, ?_, ?_⟩
      · intro rest evs tr
        simp only [handleActions, hc, Bool.false_eq_true, ↓reduceIte, List.append_nil]
      · rw [map_addOutbox_nil]
        simp only [RState.withPT]
        simp only [RState.act, hp, Bool.false_eq_true, ↓reduceIte, RState.addEvs, List.append_nil]
      · simp [RState.evsOK]
      · intro name'
        simpa [RState.addEvs] using hpend name'
      · intro q _ name'
        rfl
      · intro m' src' dst' o' hm
        simp at hm

/-- the whole action list -/
theorem handleActions_acts (p : Nat) (as : List Action) :
    ∀ (e : ProcEntry σ) (evs : List Ev) (tr : List LogE) (r : RState σ) (late : List LogE),
    (∀ name, name ∈ e.pending ↔ r.timerPending p name = true) →
    r.procCrashed p = false →
    r.overrideFreeActs p as = true →
    ∃ (e' : ProcEntry σ) (evs' : List Ev) (tr' : List LogE) (locs : List Msg),
      handleActions {} p as e evs tr = (e', evs ++ evs', tr ++ tr') ∧
      e'.st = e.st ∧ e'.outbox = e.outbox ++ locs ∧
      RState.actsAux p as r late =
        ((r.addEvs evs').1.withPT (r.procs.map (addOutbox p locs)) (r.trace ++ tr'),
          late ++ (r.addEvs evs').2) ∧
      r.evsOK evs' ∧
      (∀ name, name ∈ e'.pending ↔ (r.addEvs evs').1.timerPending p name = true) ∧
      (∀ q, q ≠ p → ∀ name, (r.addEvs evs').1.timerPending q name = r.timerPending q name) ∧
      (∀ m src dst o, Ev.msg m src dst o ∈ evs' → src = p ∧ Action.send m dst ∈ as) := by
  induction as with
  | nil =>
    intro e evs tr r late hpend _ _
    refine ⟨e, [], [], [], by simp [handleActions], rfl, by simp, ?_, by simp [RState.evsOK], ?_, ?_, ?_⟩
    · simp [RState.actsAux, RState.addEvs, map_addOutbox_nil, RState.withPT]
    · intro name; simpa [RState.addEvs] using hpend name
    · intro q _ name; rfl
    · intro m src dst o hm; simp at hm
  | cons a rest ih =>
    intro e evs tr r late hpend hcr hof
    obtain ⟨hfa, hofrest⟩ := overrideFreeActs_cons hof
    obtain ⟨e1, ev1, tr1, locs1, hh, hst1, hob1, hact, hok1, hp1, hq1, hm1⟩ := act_one p a e r hpend hcr hfa
    rw [hact] at hofrest
    obtain ⟨f1, f2, f3, f4⟩ := r.addEvs_frame ev1
    have hcr1 : ((r.addEvs ev1).1.withPT (r.procs.map (addOutbox p locs1)) (r.trace ++ tr1)).procCrashed p
        = false := by
      rw [← hcr]
      exact procCrashed_congr (by simp [f1]) (by simp [f2]) p
    obtain ⟨e', evs2, tr2, locs2, hh2, hst2, hob2, hact2, hok2, hp2, hq2, hm2⟩ :=
      ih e1 (evs ++ ev1) (tr ++ tr1)
        ((r.addEvs ev1).1.withPT (r.procs.map (addOutbox p locs1)) (r.trace ++ tr1))
        (late ++ (r.addEvs ev1).2) hp1 hcr1 hofrest
    rw [RState.addEvs_with] at hact2 hp2 hq2
    rw [RState.evsOK_with] at hok2
    refine ⟨e', ev1 ++ evs2, tr1 ++ tr2, locs1 ++ locs2, ?_, hst2.trans hst1, ?_, ?_, ?_, ?_, ?_, ?_⟩
    · rw [hh, hh2]; simp
    · rw [hob2, hob1]; simp
    · simp only [RState.actsAux, hact, hact2, RState.addEvs_append]
      simp
      rw [← List.map_map, map_addOutbox_append]
    · rw [RState.evsOK_append]; exact ⟨hok1, hok2⟩
    · intro name
      rw [hp2 name, RState.addEvs_append]
      rfl
    · intro q hq name
      rw [RState.addEvs_append]
      have := hq2 q hq name
      simp only [RState.withPT_timerPending] at this ⊢
      rw [← hq1 q hq name]
      exact this
    · intro m src dst o hm
      simp only [List.mem_append] at hm
      rcases hm with hm | hm
      · obtain ⟨h1, h2⟩ := hm1 m src dst o hm
        exact ⟨h1, by simp [h2]⟩
      · obtain ⟨h1, h2⟩ := hm2 m src dst o hm
        exact ⟨h1, List.mem_cons_of_mem _ h2⟩

end Anysystem
