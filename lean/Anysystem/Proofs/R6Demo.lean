import Anysystem.Proofs.R5Main
/-!
# R6 — non-vacuity of the generalised chain with a POSITIVE drop rate

`R4` / `R5` have been generalised from "all fault rates zero" to "duplication and corruption rates zero, drop rate
arbitrary" (see the header of `R4.lean`).  This file instantiates every hypothesis of `sim_step_refines_partial` and of
`sim_run_covered_partial` on a concrete `Sim Nat Ticks` run **with drop rate `⟨1⟩` (one tick out of 1000) in which a
message is dropped at random**:

* two nodes: node 0 hosts process 1, node 1 hosts process 2;
* `qd1`: process 1 has set timer 1 (delay 5) and sent a message to process 2; the send drew `⟨1⟩`, not below the drop
  rate, so the copy is queued (built by `Sim.handleActions` from the quiet state `qd0`, hence related by `acts_sim`);
* the program `dropH`: process 2 answers every message with a message to process 1;
* `qd1d` = `qd1` with the draw stream `⟨0⟩ :: …`: the next step delivers the message to process 2, whose answer draws
  `⟨0⟩ < ⟨1⟩` and is DROPPED AT RANDOM at send time (`qd2`: the trace ends with `dropped`, the queue holds only the
  timer); the step after that fires the timer (`qd3`);
* the reference semantics / the checker put the answer in flight (options `faults true 0 false`); it stays in flight as a
  zombie.  The exploration from the snapshot of `qd1d` finishes `Ok` (eight evaluated states, both strategies, kernel
  evaluation) and `drop_covered` is `sim_run_covered_partial` with every hypothesis discharged.
-/
namespace Anysystem

set_option linter.unusedSectionVars false
set_option linter.unusedVariables false
set_option linter.unusedSimpArgs false

theorem amGet?_pair {β : Type} {k1 k2 n : Nat} {v1 v2 x : β} (h : amGet? n [(k1, v1), (k2, v2)] = some x) :
    (n = k1 ∧ x = v1) ∨ (n = k2 ∧ x = v2) := by
  simp only [amGet?] at h
  split at h
  · exact Or.inl ⟨by assumption, (Option.some.inj h).symm⟩
  · split at h
    · exact Or.inr ⟨by assumption, (Option.some.inj h).symm⟩
    · cases h

namespace R6Demo

open Sim R4Demo R5Demo R5MainDemo

/-- process 2 answers every message with a message to process 1; everything else only counts -/
def dropH : Handler Nat := fun p st i =>
  match i with
  | .msg _ _ => if p = 2 then (st + 1, [.send ⟨1, []⟩ 1]) else (st + 1, [])
  | _ => (st + 1, [])

def dropActs : List Action := [.set 1 5 false, .send ⟨0, []⟩ 2]

def ndA0 : SNode Nat Ticks := { skew := ⟨0⟩, procs := [(1, { st := 0 })] }
def ndB0 : SNode Nat Ticks := { skew := ⟨0⟩, procs := [(2, { st := 0 })] }

/-- node 0 hosts process 1, node 1 hosts process 2; empty queue; **drop rate one tick out of 1000** -/
def qd0 : Sim Nat Ticks :=
  { clock := ⟨0⟩, draws := List.replicate 8 ⟨1⟩,
    net := { (SimNet.default : SimNet Ticks) with dropRate := ⟨1⟩, procLoc := [(1, 0), (2, 1)] },
    nodes := [(0, ndA0), (1, ndB0)],
    procNodes := [(1, 0), (2, 1)], handlers := [0, 1] }

example : TimeOps.lt (TimeOps.zero : Ticks) qd0.net.dropRate = true := by decide

/-- process 1 has set its timer and sent a message to process 2 (the drop draw `⟨1⟩` is not below the rate `⟨1⟩`) -/
def qd1 : Sim Nat Ticks :=
  match Sim.handleActions 0 1 ⟨0⟩ dropActs qd0 with
  | .ok s => s
  | .error _ => qd0

theorem qd1_eq : Sim.handleActions 0 1 ⟨0⟩ dropActs qd0 = .ok qd1 := rfl

/-- `qd1` with a draw stream whose first draw `⟨0⟩` is below the drop rate -/
def qd1d : Sim Nat Ticks := { qd1 with draws := ⟨0⟩ :: List.replicate 7 ⟨1⟩ }

/-- one step: the message is delivered to process 2, whose answer is dropped at random -/
def qd2 : Sim Nat Ticks :=
  match qd1d.step (liftHandler dropH) with
  | .ok (_, s) => s
  | .error _ => qd1d

theorem qd2_eq : qd1d.step (liftHandler dropH) = .ok (true, qd2) := rfl

/-- two steps: then the timer fires -/
def qd3 : Sim Nat Ticks := match qd1d.steps (liftHandler dropH) 2 with
  | .ok (_, s) => s
  | .error _ => qd1d

theorem qd3_eq : qd1d.steps (liftHandler dropH) 2 = .ok (true, qd3) := rfl

def pe1' : SProc Nat Ticks :=
  { st := 0, log := [⟨⟨0⟩, .tset 1 5 false⟩, ⟨⟨0⟩, .sent ⟨0, []⟩ 1 2⟩], pending := [(1, 0)], sent := 1 }
def pe2' : SProc Nat Ticks := { st := 0 }
def ndA1 : SNode Nat Ticks := { skew := ⟨0⟩, procs := [(1, pe1')] }
def ed0 : QEv Ticks := ⟨0, ⟨5⟩, 0, 0, .timer 1 1⟩
def ed1 : QEv Ticks := ⟨1, ⟨0⟩, 0, 1, .msg 0 ⟨0, []⟩ 1 0 2 1⟩

theorem qd1d_nodes : qd1d.nodes = [(0, ndA1), (1, ndB0)] := rfl
theorem qd1d_events : qd1d.events = [ed0, ed1] := rfl
theorem qd1d_live : qd1d.live = [ed0, ed1] := rfl
theorem qd1d_loc : qd1d.net.procLoc = [(1, 0), (2, 1)] := rfl

/-- **the answer of process 2 is dropped at random when it is sent**: the simulator logs `dropped` and queues nothing
    (only the timer is left), one draw is consumed -/
example : qd2.events = [ed0] ∧
    qd2.trace.drop 3 = [.sent ⟨0⟩ 1 1 2 0 1 ⟨1, []⟩, .dropped ⟨0⟩ 1 1 2 0 1 ⟨1, []⟩] ∧ qd2.draws.length = 7 :=
  ⟨rfl, rfl, rfl⟩

example : qd3.events = [] ∧ qd3.clock = ⟨5⟩ ∧ (qd3.proc? 0 1).map (·.st) = some 1 ∧
    (qd3.proc? 1 2).map (·.st) = some 1 := by decide

/-! ## the relation -/

/-- the reference state of the quiet state `qd0` -/
def rd0 : RState Nat :=
  { procs := qd0.nodes.flatMap (fun nd => nd.2.procs.map fun pe => (pe.1, ({ st := pe.2.st, outbox := pe.2.outbox } : RProc Nat))),
    crashedNodes := (qd0.nodes.filter (fun nd => !qd0.handlers.contains nd.1)).map (·.1),
    net := snapshotNet bitsT qd0 }

/-- the reference network of the demo CAN drop -/
example : rd0.net.dropPos = true := by decide

theorem qd0_nodes {n : Nat} {nd : SNode Nat Ticks} (h : amGet? n qd0.nodes = some nd) :
    (n = 0 ∧ nd = ndA0) ∨ (n = 1 ∧ nd = ndB0) :=
  amGet?_pair (show amGet? n [(0, ndA0), (1, ndB0)] = some nd from h)

theorem reld0 : TimedRel bitsT qd0 rd0 [] := by
  refine timedRel_of_quiet bitsT qd0 rfl rfl ⟨rfl, rfl⟩ ⟨rfl, rfl⟩ ?_ ?_ ?_ ?_ ?_
  · intro n nd p e hn hp
    rcases qd0_nodes hn with ⟨rfl, rfl⟩ | ⟨rfl, rfl⟩
    · obtain ⟨rfl, rfl⟩ := amGet?_singleton (show amGet? p [(1, ({ st := 0 } : SProc Nat Ticks))] = some e from hp); rfl
    · obtain ⟨rfl, rfl⟩ := amGet?_singleton (show amGet? p [(2, ({ st := 0 } : SProc Nat Ticks))] = some e from hp); rfl
  · intro n nd p e hn hp
    rcases qd0_nodes hn with ⟨rfl, rfl⟩ | ⟨rfl, rfl⟩
    · obtain ⟨rfl, rfl⟩ := amGet?_singleton (show amGet? p [(1, ({ st := 0 } : SProc Nat Ticks))] = some e from hp); rfl
    · obtain ⟨rfl, rfl⟩ := amGet?_singleton (show amGet? p [(2, ({ st := 0 } : SProc Nat Ticks))] = some e from hp); rfl
  · intro p n h
    rcases amGet?_pair (show amGet? p [(1, 0), (2, 1)] = some n from h) with ⟨rfl, rfl⟩ | ⟨rfl, rfl⟩ <;> rfl
  · intro n
    constructor
    · intro h
      have : n = 0 ∨ n = 1 := by simpa [qd0] using h
      rcases this with rfl | rfl
      · exact ⟨ndA0, rfl, rfl⟩
      · exact ⟨ndB0, rfl, rfl⟩
    · rintro ⟨nd, hn, _⟩
      rcases qd0_nodes hn with ⟨rfl, rfl⟩ | ⟨rfl, rfl⟩ <;> simp [qd0]
  · exact List.pairwise_cons.2 ⟨by intro x hx; simp only [List.mem_singleton] at hx; subst hx; decide,
      List.pairwise_singleton _ _⟩

theorem ctxd0 : rd0.Ctx 0 1 := ⟨rfl, rfl, by decide⟩

/-- `qd1` (and `qd1d`: the draw stream is not looked at) is related to a reference state -/
theorem reld1 : ∃ r gs, TimedRel bitsT qd1d r gs := by
  obtain ⟨gs, hrel⟩ := acts_sim (bits := bitsT) (n := 0) (p := 1) (time := (⟨0⟩ : Ticks)) dropActs qd0 rd0 [] [] reld0 ctxd0
    (by intro d hd; simp only [qd0, List.mem_replicate] at hd; rw [hd.2]; show (1 : Nat) < 1000; omega)
    (by decide)
    (by
      intro a ha
      simp only [dropActs, List.mem_cons, List.not_mem_nil, or_false] at ha
      rcases ha with rfl | rfl
      · exact ticks_delay 5
      · show (amGet? 2 rd0.net.procLoc).isSome = true
        rfl)
    qd1_eq
  exact ⟨_, gs, hrel.sameView (Sim.sameView_draws qd1 (⟨0⟩ :: List.replicate 7 ⟨1⟩))⟩

/-! ## the program -/

theorem dropH_len (p st : Nat) (i : Input) : (dropH p st i).2.length ≤ 1 := by
  cases i with
  | msg m src => by_cases hp : p = 2 <;> simp [dropH, hp]
  | loc m => simp [dropH]
  | timer name => simp [dropH]

theorem dropH_acts (p st : Nat) (i : Input) (a : Action) (ha : a ∈ (dropH p st i).2) : a = .send ⟨1, []⟩ 1 := by
  cases i with
  | msg m src =>
    by_cases hp : p = 2
    · simpa [dropH, hp] using ha
    · simp [dropH, hp] at ha
  | loc m => simp [dropH] at ha
  | timer name => simp [dropH] at ha

theorem dropH_actsFree (r : RState Nat) (p st : Nat) (i : Input) : r.overrideFreeActs p (dropH p st i).2 = true := by
  cases i with
  | msg m src => by_cases hp : p = 2 <;> simp [dropH, hp, RState.overrideFreeActs]
  | loc m => simp [dropH, RState.overrideFreeActs]
  | timer name => simp [dropH, RState.overrideFreeActs]

/-- `dropH` never sets a timer -/
theorem dropH_overrideFree (r : RState Nat) (l : Label) : r.overrideFree dropH l = true := by
  cases l with
  | deliver i =>
    simp only [RState.overrideFree]
    split
    · rfl
    · split
      · rfl
      · exact dropH_actsFree _ _ _ _
  | fire j =>
    simp only [RState.overrideFree]
    split
    · rfl
    · split
      · rfl
      · exact dropH_actsFree _ _ _ _
  | drop i => rfl
  | dup i => rfl
  | corrupt i => rfl

theorem qd1d_draws : ∀ d ∈ qd1d.draws, LawfulTime.isDraw d := by
  intro d hd
  have : qd1d.draws = ⟨0⟩ :: List.replicate 7 ⟨1⟩ := rfl
  rw [this, List.mem_cons, List.mem_replicate] at hd
  rcases hd with rfl | ⟨_, rfl⟩
  · show (0 : Nat) < 1000; omega
  · show (1 : Nat) < 1000; omega

/-- **Non-vacuity of `sim_step_refines_partial` with a positive drop rate**: all hypotheses hold for the step
    `qd1d → qd2`, in which the handler's send is dropped at random. -/
theorem drop_hyps : ∃ r gs,
    TimedRel bitsT qd1d r gs ∧
    TimeOps.lt (TimeOps.zero : Ticks) qd1d.net.dropRate = true ∧
    (∀ x y : Ticks, TimeOps.le x y = true → bitsT x ≤ bitsT y) ∧
    (∀ a b c : Ticks, TimeOps.le a b = true → TimeOps.le (TimeOps.add a c) (TimeOps.add b c) = true) ∧
    (∀ p st i a, a ∈ (dropH p st i).2 → ∀ name d once, a = .set name d once →
      TimeOps.le TimeOps.zero (TimeOps.ofBits d : Ticks) = true ∧ bitsT (TimeOps.ofBits d : Ticks) = d) ∧
    (∀ p st i a, a ∈ (dropH p st i).2 → ∀ m dst, a = .send m dst → (amGet? dst qd1d.net.procLoc).isSome = true) ∧
    (∀ d ∈ qd1d.draws, LawfulTime.isDraw d) ∧ (∀ p st i, 4 * (dropH p st i).2.length ≤ qd1d.draws.length) ∧
    qd1d.step (liftHandler dropH) = .ok (true, qd2) := by
  obtain ⟨r, gs, hrel⟩ := reld1
  refine ⟨r, gs, hrel, by decide, ticks_snapTimeLaws.bits_mono, ticks_snapTimeLaws.add_mono_left, ?_, ?_, qd1d_draws, ?_,
    qd2_eq⟩
  · intro p st i a _ name d once _; exact ticks_delay d
  · intro p st i a ha m dst hm
    have := dropH_acts p st i a ha
    rw [hm] at this
    cases this
    rfl
  · intro p st i
    have h1 := dropH_len p st i
    have : qd1d.draws.length = 8 := rfl
    omega

/-- the main step theorem applied to the demo step (drop rate positive, the answer dropped at random): the delivery
    is ONE reduced-enabled reference step; the dropped answer needs no step of its own -/
theorem drop_step : ∃ r, (∃ gs', TimedRel bitsT qd2 r gs') ∨
    (∃ l r' gs', r.enabledRed .normal l = true ∧ r.step dropH l = some r' ∧ TimedRel bitsT qd2 r' gs') := by
  obtain ⟨r, gs, h1, _, h2, h3, h4, h5, h6, h7, h8⟩ := drop_hyps
  exact ⟨r, sim_step_refines_partial bitsT dropH qd1d qd2 r gs h1 h2 h3 h4 h5 h6 h7 h8⟩

/-! ## well-formedness of `qd1d`, the snapshot, the exploration -/

theorem mem_qd1d_live {e : QEv Ticks} (h : e ∈ qd1d.live) : e = ed0 ∨ e = ed1 := by
  rw [qd1d_live] at h
  simpa using h

theorem qd1d_node {n : Nat} {nd : SNode Nat Ticks} (h : amGet? n qd1d.nodes = some nd) :
    (n = 0 ∧ nd = ndA1) ∨ (n = 1 ∧ nd = ndB0) := by
  rw [qd1d_nodes] at h
  exact amGet?_pair h

theorem qd1d_wf : SnapWF qd1d := by
  refine ⟨?_, ?_, ?_, ?_, ?_, ?_, ?_, ?_, ?_, ?_, ?_⟩
  · rw [qd1d_nodes]
    exact List.pairwise_cons.2 ⟨by intro x hx; simp only [List.mem_singleton] at hx; subst hx; decide,
      List.pairwise_singleton _ _⟩
  · intro nd h
    rw [qd1d_nodes] at h
    simp only [List.mem_cons, List.not_mem_nil, or_false] at h
    rcases h with rfl | rfl <;> exact List.pairwise_singleton _ _
  · rw [qd1d_nodes]; decide
  · intro n nd p e hn hp
    rcases qd1d_node hn with ⟨rfl, rfl⟩ | ⟨rfl, rfl⟩
    · obtain ⟨rfl, rfl⟩ := amGet?_singleton (show amGet? p [(1, pe1')] = some e from hp); rfl
    · obtain ⟨rfl, rfl⟩ := amGet?_singleton (show amGet? p [(2, pe2')] = some e from hp); rfl
  · intro p n h
    rw [qd1d_loc] at h
    rcases amGet?_pair h with ⟨rfl, rfl⟩ | ⟨rfl, rfl⟩
    · exact ⟨ndA1, pe1', rfl, rfl⟩
    · exact ⟨ndB0, pe2', rfl, rfl⟩
  · intro e he p name hd
    rcases mem_qd1d_live he with rfl | rfl
    · cases hd; rfl
    · cases hd
  · intro a ha b hb p name hda hdb
    rcases mem_qd1d_live ha with rfl | rfl <;> rcases mem_qd1d_live hb with rfl | rfl
    · rfl
    · cases hdb
    · cases hda
    · cases hda
  · intro n nd p e hn _ hp name
    rcases qd1d_node hn with ⟨rfl, rfl⟩ | ⟨rfl, rfl⟩
    · obtain ⟨rfl, rfl⟩ := amGet?_singleton (show amGet? p [(1, pe1')] = some e from hp)
      constructor
      · rintro ⟨id, h⟩
        obtain ⟨rfl, rfl⟩ := amGet?_singleton (show amGet? name [(1, 0)] = some id from h)
        exact ⟨ed0, by rw [qd1d_live]; simp, rfl⟩
      · rintro ⟨ev, hev, hd⟩
        rcases mem_qd1d_live hev with rfl | rfl
        · cases hd; exact ⟨0, rfl⟩
        · cases hd
    · obtain ⟨rfl, rfl⟩ := amGet?_singleton (show amGet? p [(2, pe2')] = some e from hp)
      constructor
      · rintro ⟨id, h⟩
        cases h
      · rintro ⟨ev, hev, hd⟩
        rcases mem_qd1d_live hev with rfl | rfl
        · cases hd
        · cases hd
  · intro e he p name hd nd hn
    rcases mem_qd1d_live he with rfl | rfl
    · rcases qd1d_node hn with ⟨_, rfl⟩ | ⟨h0, _⟩
      · rfl
      · cases h0
    · cases hd
  · intro e he mid m src sn dst dn hd
    rcases mem_qd1d_live he with rfl | rfl
    · cases hd
    · cases hd
      refine ⟨rfl, rfl, ?_⟩
      intro nd hn
      rcases qd1d_node hn with ⟨_, rfl⟩ | ⟨h0, _⟩
      · rfl
      · cases h0
  · rw [qd1d_events]; decide

/-- the snapshot of `qd1d` -/
def sd0 : McSys Nat := match snapshot bitsT qd1d with
  | .ok s => s
  | .error _ => {}

theorem sd0_eq : snapshot bitsT qd1d = .ok sd0 := rfl

/-- the checker's network CAN drop: the exploration from the snapshot contains `drop` steps -/
example : sd0.net.dropPos = true := by decide

def dropSearch (strat : Strat) :=
  search (mcTSys {} dropH demoP (fun _ => 0)) strat 30 (startedOf sd0) (Acc.fresh .full)

/-- both strategies finish `Ok` within fuel 30 (kernel evaluation; eight states are evaluated) -/
theorem dropSearch_ok : isOkRes (dropSearch .dfs) = true ∧ isOkRes (dropSearch .bfs) = true := by decide +kernel

/-- **Non-vacuity of `sim_run_covered_partial` with a positive drop rate, full instantiation**: the exploration from
    the snapshot of `qd1d` finishes `Ok`, and the process-visible state after two further simulator steps — the first of
    which contains a send that is dropped at random — is that of an evaluated state. -/
theorem drop_covered (strat : Strat) :
    ∃ a, dropSearch strat = some (.ok, a) ∧ ∃ e ∈ a.evald, visibleEqMc qd3 e := by
  have hok : isOkRes (dropSearch strat) = true := by
    cases strat with
    | dfs => exact dropSearch_ok.1
    | bfs => exact dropSearch_ok.2
  obtain ⟨a, ha⟩ := isOkRes_some hok
  refine ⟨a, ha, ?_⟩
  obtain ⟨r, gs, hrel, _, _, _, hdel, hkn, hdr, _, _⟩ := drop_hyps
  refine sim_run_covered_partial bitsT ticks_snapTimeLaws dropH demoP demoP_keyBased (fun _ => 0) qd1d r gs hrel qd1d_wf
    sd0 sd0_eq strat .full (Or.inl rfl) 30 a ha ?_ hdel hkn (fun x _ hx => demoP_cont x hx) 2 qd3 qd3_eq hdr ?_
  · intro ls r' _ l _
    exact dropH_overrideFree r' l
  · intro p st i
    have h1 := dropH_len p st i
    have : qd1d.draws.length = 8 := rfl
    omega

/-- the covering evaluated state shows both processes in state 1 with empty outboxes -/
example (strat : Strat) : ∃ a, dropSearch strat = some (.ok, a) ∧
    ∃ e ∈ a.evald, amGet? 1 (procsOf e) = some ⟨1, []⟩ ∧ amGet? 2 (procsOf e) = some ⟨1, []⟩ := by
  obtain ⟨a, ha, e, he, hv⟩ := drop_covered strat
  refine ⟨a, ha, e, he, ?_, ?_⟩
  · have hq : qd3.proc? 0 1 = some (match qd3.proc? 0 1 with | some pe => pe | none => pe1') := rfl
    exact hv 0 1 _ hq
  · have hq : qd3.proc? 1 2 = some (match qd3.proc? 1 2 with | some pe => pe | none => pe2') := rfl
    exact hv 1 2 _ hq

end R6Demo

end Anysystem
