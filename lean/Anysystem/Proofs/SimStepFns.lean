import Anysystem.Proofs.SimStepThms
import Anysystem.Proofs.SimQueueThms
import Anysystem.Proofs.SimStepFnsLemmas
import Anysystem.Proofs.SimTraceInv
/-!
# C06 — the stepping functions process exactly the events they document and stop as soon as their condition holds

`step_until_local_message[_max_steps]`, `step_for_duration` / `step_until_time`, expressed through `steps` (a run of `k`
steps each of which finds an event).
-/
namespace Anysystem

set_option linter.unusedSectionVars false

variable {σ T : Type} [TimeOps T]

namespace Sim

/-- the local outbox of process `p` on node `n` is empty (or the process does not exist) -/
def outboxEmpty (s : Sim σ T) (n p : Nat) : Prop := ∀ e, s.proc? n p = some e → e.outbox = []

/-! ### `readNode` and `outboxEmpty` -/

theorem readNode_none {s s2 : Sim σ T} {n p : Nat} (h : s.readNode n p = .ok (none, s2)) :
    s2 = s ∧ s.outboxEmpty n p := by
  obtain ⟨nd, e, hn, he, hout, rfl⟩ := (readNode_drains s s2 n p).2 h
  refine ⟨rfl, ?_⟩
  intro e' he'
  rw [proc?_eq hn, he] at he'
  cases he'
  exact hout

theorem readNode_some_ne {s s2 : Sim σ T} {n p : Nat} {ms : List Msg} (h : s.readNode n p = .ok (some ms, s2)) :
    ms ≠ [] := by
  obtain ⟨_, _, _, _, _, hne, _⟩ := (readNode_drains s s2 n p).1 ms h
  exact hne

/-! ### `step_until_local_message` -/

/-- `step_until_local_message` returns messages: it made `k` steps, the outbox was empty before each of them, and what it
    returns is the (non-empty) outbox found then, which it drains -/
theorem stepUntilLocal_some (h : SHandler σ T) (n p fuel : Nat) (s s' : Sim σ T) (ms : List Msg)
    (hrun : stepUntilLocal h n p fuel s = some (.ok (some ms, s'))) :
    ∃ k s₁, k < fuel ∧ s.steps h k = .ok (true, s₁) ∧
      (∀ j sj, j < k → s.steps h j = .ok (true, sj) → sj.outboxEmpty n p) ∧
      ms ≠ [] ∧ s₁.readNode n p = .ok (some ms, s') := by
  induction fuel generalizing s with
  | zero => simp [stepUntilLocal] at hrun
  | succ f ih =>
    simp only [stepUntilLocal] at hrun
    split at hrun
    · cases hrun
    · rename_i ms' s2 hr
      simp only [Option.some.injEq, Except.ok.injEq, Prod.mk.injEq] at hrun
      obtain ⟨rfl, rfl⟩ := hrun
      exact ⟨0, s, Nat.succ_pos _, rfl, fun j sj hj => absurd hj (Nat.not_lt_zero _), readNode_some_ne hr, hr⟩
    · rename_i s2 hr
      obtain ⟨rfl, hemp⟩ := readNode_none hr
      split at hrun
      · cases hrun
      · cases hrun
      · rename_i s3 hstep
        obtain ⟨k, s₁, hk, hsteps, hall, hne, hread⟩ := ih _ hrun
        refine ⟨k + 1, s₁, Nat.succ_lt_succ hk, ?_, ?_, hne, hread⟩
        · simp only [steps_succ, hstep]; exact hsteps
        · intro j sj hj hsj
          cases j with
          | zero => cases hsj; exact hemp
          | succ j =>
            simp only [steps_succ, hstep] at hsj
            exact hall j sj (Nat.lt_of_succ_lt_succ hj) hsj

/-- `step_until_local_message` returns nothing: the queue ran dry and the outbox stayed empty throughout -/
theorem stepUntilLocal_none (h : SHandler σ T) (n p fuel : Nat) (s s' : Sim σ T)
    (hrun : stepUntilLocal h n p fuel s = some (.ok (none, s'))) :
    ∃ k s₁, k < fuel ∧ s.steps h k = .ok (true, s₁) ∧
      (∀ j sj, j ≤ k → s.steps h j = .ok (true, sj) → sj.outboxEmpty n p) ∧
      s₁.step h = .ok (false, s') ∧ s'.events = [] := by
  induction fuel generalizing s with
  | zero => simp [stepUntilLocal] at hrun
  | succ f ih =>
    simp only [stepUntilLocal] at hrun
    split at hrun
    · cases hrun
    · cases hrun
    · rename_i s2 hr
      obtain ⟨rfl, hemp⟩ := readNode_none hr
      split at hrun
      · cases hrun
      · rename_i s3 hstep
        simp only [Option.some.injEq, Except.ok.injEq, Prod.mk.injEq, true_and] at hrun
        subst hrun
        refine ⟨0, s2, Nat.succ_pos _, rfl, ?_, hstep, step_false_events h _ _ hstep⟩
        intro j sj hj hsj
        obtain rfl : j = 0 := Nat.le_zero.1 hj
        cases hsj; exact hemp
      · rename_i s3 hstep
        obtain ⟨k, s₁, hk, hsteps, hall, hfin, hev⟩ := ih _ hrun
        refine ⟨k + 1, s₁, Nat.succ_lt_succ hk, ?_, ?_, hfin, hev⟩
        · simp only [steps_succ, hstep]; exact hsteps
        · intro j sj hj hsj
          cases j with
          | zero => cases hsj; exact hemp
          | succ j =>
            simp only [steps_succ, hstep] at hsj
            exact hall j sj (Nat.le_of_succ_le_succ hj) hsj

/-! ### `step_until_local_message_max_steps` -/

theorem stepUntilLocalMax_go_some (h : SHandler σ T) (n p m : Nat) (s s' : Sim σ T) (ms : List Msg) (hemp : s.outboxEmpty n p)
    (hrun : stepUntilLocalMax.go h n p m s = .ok (some ms, s')) :
    ∃ k s₁, k ≤ m ∧ s.steps h k = .ok (true, s₁) ∧
      (∀ j sj, j < k → s.steps h j = .ok (true, sj) → sj.outboxEmpty n p) ∧
      ms ≠ [] ∧ s₁.readNode n p = .ok (some ms, s') := by
  induction m generalizing s with
  | zero => simp [stepUntilLocalMax.go] at hrun
  | succ m ih =>
    simp only [stepUntilLocalMax.go] at hrun
    split at hrun
    · cases hrun
    · cases hrun
    · rename_i s2 hstep
      split at hrun
      · cases hrun
      · rename_i ms' s3 hr
        simp only [Except.ok.injEq, Prod.mk.injEq, Option.some.injEq] at hrun
        obtain ⟨rfl, rfl⟩ := hrun
        refine ⟨0 + 1, s2, Nat.succ_le_succ (Nat.zero_le _), ?_, ?_, readNode_some_ne hr, hr⟩
        · simp only [steps_succ, hstep, steps_zero]
        · intro j sj hj hsj
          obtain rfl : j = 0 := Nat.lt_one_iff.1 hj
          cases hsj; exact hemp
      · rename_i s3 hr
        obtain ⟨rfl, hemp2⟩ := readNode_none hr
        obtain ⟨k, s₁, hk, hsteps, hall, hne, hread⟩ := ih _ hemp2 hrun
        refine ⟨k + 1, s₁, Nat.succ_le_succ hk, ?_, ?_, hne, hread⟩
        · simp only [steps_succ, hstep]; exact hsteps
        · intro j sj hj hsj
          cases j with
          | zero => cases hsj; exact hemp
          | succ j =>
            simp only [steps_succ, hstep] at hsj
            exact hall j sj (Nat.lt_of_succ_lt_succ hj) hsj

theorem stepUntilLocalMax_go_none (h : SHandler σ T) (n p m : Nat) (s s' : Sim σ T) (hemp : s.outboxEmpty n p)
    (hrun : stepUntilLocalMax.go h n p m s = .ok (none, s')) :
    ∃ k s₁, k ≤ m ∧ s.steps h k = .ok (true, s₁) ∧
      (∀ j sj, j ≤ k → s.steps h j = .ok (true, sj) → sj.outboxEmpty n p) ∧
      ((k = m ∧ s' = s₁) ∨ (k < m ∧ s₁.step h = .ok (false, s') ∧ s'.events = [])) := by
  induction m generalizing s with
  | zero =>
    simp only [stepUntilLocalMax.go, Except.ok.injEq, Prod.mk.injEq, true_and] at hrun
    subst hrun
    refine ⟨0, s, Nat.le_refl _, rfl, ?_, Or.inl ⟨rfl, rfl⟩⟩
    intro j sj hj hsj
    obtain rfl : j = 0 := Nat.le_zero.1 hj
    cases hsj; exact hemp
  | succ m ih =>
    simp only [stepUntilLocalMax.go] at hrun
    split at hrun
    · cases hrun
    · rename_i s2 hstep
      simp only [Except.ok.injEq, Prod.mk.injEq, true_and] at hrun
      subst hrun
      refine ⟨0, s, Nat.zero_le _, rfl, ?_, Or.inr ⟨Nat.succ_pos _, hstep, step_false_events h _ _ hstep⟩⟩
      intro j sj hj hsj
      obtain rfl : j = 0 := Nat.le_zero.1 hj
      cases hsj; exact hemp
    · rename_i s2 hstep
      split at hrun
      · cases hrun
      · cases hrun
      · rename_i s3 hr
        obtain ⟨rfl, hemp2⟩ := readNode_none hr
        obtain ⟨k, s₁, hk, hsteps, hall, hfin⟩ := ih _ hemp2 hrun
        refine ⟨k + 1, s₁, Nat.succ_le_succ hk, ?_, ?_, ?_⟩
        · simp only [steps_succ, hstep]; exact hsteps
        · intro j sj hj hsj
          cases j with
          | zero => cases hsj; exact hemp
          | succ j =>
            simp only [steps_succ, hstep] at hsj
            exact hall j sj (Nat.le_of_succ_le_succ hj) hsj
        · rcases hfin with ⟨rfl, rfl⟩ | ⟨hlt, hst, hev⟩
          · exact Or.inl ⟨rfl, rfl⟩
          · exact Or.inr ⟨Nat.succ_lt_succ hlt, hst, hev⟩

/-- `step_until_local_message_max_steps`: the same with at most `maxSteps` steps; `none` after exactly `maxSteps` steps
    with an empty outbox, or earlier when the queue ran dry -/
theorem stepUntilLocalMax_some (h : SHandler σ T) (n p maxSteps : Nat) (s s' : Sim σ T) (ms : List Msg)
    (hrun : stepUntilLocalMax h n p maxSteps s = .ok (some ms, s')) :
    ∃ k s₁, k ≤ maxSteps ∧ s.steps h k = .ok (true, s₁) ∧
      (∀ j sj, j < k → s.steps h j = .ok (true, sj) → sj.outboxEmpty n p) ∧
      ms ≠ [] ∧ s₁.readNode n p = .ok (some ms, s') := by
  unfold stepUntilLocalMax at hrun
  split at hrun
  · cases hrun
  · rename_i ms' s2 hr
    simp only [Except.ok.injEq, Prod.mk.injEq, Option.some.injEq] at hrun
    obtain ⟨rfl, rfl⟩ := hrun
    exact ⟨0, s, Nat.zero_le _, rfl, fun j sj hj => absurd hj (Nat.not_lt_zero _), readNode_some_ne hr, hr⟩
  · rename_i s2 hr
    obtain ⟨rfl, hemp⟩ := readNode_none hr
    exact stepUntilLocalMax_go_some h n p maxSteps _ s' ms hemp hrun

theorem stepUntilLocalMax_none (h : SHandler σ T) (n p maxSteps : Nat) (s s' : Sim σ T)
    (hrun : stepUntilLocalMax h n p maxSteps s = .ok (none, s')) :
    ∃ k s₁, k ≤ maxSteps ∧ s.steps h k = .ok (true, s₁) ∧
      (∀ j sj, j ≤ k → s.steps h j = .ok (true, sj) → sj.outboxEmpty n p) ∧
      ((k = maxSteps ∧ s' = s₁) ∨ (k < maxSteps ∧ s₁.step h = .ok (false, s') ∧ s'.events = [])) := by
  unfold stepUntilLocalMax at hrun
  split at hrun
  · cases hrun
  · cases hrun
  · rename_i s2 hr
    obtain ⟨rfl, hemp⟩ := readNode_none hr
    exact stepUntilLocalMax_go_none h n p maxSteps _ s' hemp hrun

/-! ### `step_until_time` / `step_for_duration` -/

/-- two simulator states that differ only in cancelled events already removed from the queue and in the clock -/
structure SameButClock (a b : Sim σ T) : Prop where
  live : a.live = b.live
  nodes : a.nodes = b.nodes
  net : a.net = b.net
  trace : a.trace = b.trace
  handlers : a.handlers = b.handlers
  draws : a.draws = b.draws
  eventCount : a.eventCount = b.eventCount
  procNodes : a.procNodes = b.procNodes

theorem sameButClock_peek (endT : T) (fuel : Nat) (s sp : Sim σ T) (o : Option (QEv T))
    (hp : peekEvent fuel s = (o, sp)) : SameButClock s { sp with clock := endT } := by
  obtain ⟨_, h2, h3, h4, h5, h6, h7, h8, _, h10⟩ := peekEvent_frame fuel s sp o hp
  exact ⟨h10.symm, h6.symm, h3.symm, h2.symm, h7.symm, h4.symm, h5.symm, h8.symm⟩

theorem time_le_of_not_lt [LawfulTime T] (a b : T) (h : ¬ TimeOps.lt a b = true) : TimeOps.le b a = true := by
  cases hle : TimeOps.le b a with
  | true => rfl
  | false => exact absurd ((LawfulTime.lt_iff a b).2 hle) h

/-- `step_until_time` / `step_for_duration`: it made `k` steps, every one of them handling an event due no later than the
    end time (the clock after each step is ≤ the end time); afterwards every live event is due strictly later; the result flag
    says whether such events exist; the clock is left at the end time and nothing else differs from the state after the steps -/
theorem stepUntilTime_spec [LawfulTime T] (h : SHandler σ T) (endT : T) (fuel : Nat) (s s' : Sim σ T) (b : Bool)
    (hrun : stepUntilTime h endT fuel s = some (.ok (b, s'))) :
    ∃ k s₁, k < fuel ∧ s.steps h k = .ok (true, s₁) ∧
      (∀ j sj, 0 < j → j ≤ k → s.steps h j = .ok (true, sj) → TimeOps.le sj.clock endT = true) ∧
      SameButClock s₁ s' ∧ s'.clock = endT ∧
      (∀ e ∈ s'.live, TimeOps.lt endT e.time = true) ∧ (b = true ↔ s'.live ≠ []) := by
  induction fuel generalizing s with
  | zero => simp [stepUntilTime] at hrun
  | succ f ih =>
    simp only [stepUntilTime] at hrun
    split at hrun
    · rename_i sp hp
      simp only [Option.some.injEq, Except.ok.injEq, Prod.mk.injEq] at hrun
      obtain ⟨rfl, rfl⟩ := hrun
      have hev := peekEvent_none_events _ s sp (Nat.lt_succ_self _) hp
      have hlive : ({ sp with clock := endT } : Sim σ T).live = [] := by simp [live, hev]
      refine ⟨0, s, Nat.succ_pos _, rfl, ?_, sameButClock_peek endT _ s sp _ hp, rfl, ?_, ?_⟩
      · intro j sj hj hj'; exact absurd hj (Nat.not_lt_of_le hj')
      · rw [hlive]; intro e he; cases he
      · rw [hlive]; simp
    · rename_i e sp hp
      obtain ⟨hmin, hnc, _⟩ := peekEvent_some _ s sp e hp
      split at hrun
      · rename_i hlt
        simp only [Option.some.injEq, Except.ok.injEq, Prod.mk.injEq] at hrun
        obtain ⟨rfl, rfl⟩ := hrun
        obtain ⟨hmem, hleast⟩ := minEvent_spec _ _ hmin
        refine ⟨0, s, Nat.succ_pos _, rfl, ?_, sameButClock_peek endT _ s sp _ hp, rfl, ?_, ?_⟩
        · intro j sj hj hj'; exact absurd hj (Nat.not_lt_of_le hj')
        · intro x hx
          have hx' : x ∈ sp.events := (List.mem_filter.1 hx).1
          have h1 := le_time_of_not_evBefore x e (hleast x hx')
          rw [LawfulTime.lt_iff] at hlt ⊢
          cases hxe : TimeOps.le x.time endT with
          | false => rfl
          | true =>
            have := LawfulTime.le_trans _ _ _ h1 hxe
            rw [hlt] at this; cases this
        · have : e ∈ ({ sp with clock := endT } : Sim σ T).live := by
            simp only [live, List.mem_filter]
            exact ⟨hmem, by rw [hnc]; rfl⟩
          constructor
          · intro _ h0; rw [h0] at this; cases this
          · intro _; rfl
      · rename_i hlt
        split at hrun
        · cases hrun
        · rename_i b' s2 hstep
          obtain ⟨_, hstep', hclk⟩ := step_after_peek h s sp s2 e b' hp hstep
          obtain ⟨k, s₁, hk, hsteps, hall, hrest⟩ := ih _ hrun
          refine ⟨k + 1, s₁, Nat.succ_lt_succ hk, ?_, ?_, hrest⟩
          · simp only [steps_succ, hstep']; exact hsteps
          · intro j sj hj hj' hsj
            cases j with
            | zero => exact absurd hj (Nat.lt_irrefl _)
            | succ j =>
              simp only [steps_succ, hstep'] at hsj
              cases j with
              | zero =>
                cases hsj
                rw [hclk]
                exact time_le_of_not_lt _ _ hlt
              | succ j => exact hall (j + 1) sj (Nat.succ_pos _) (Nat.le_of_succ_le_succ hj') hsj

/-- `step_for_duration d` is `step_until_time (clock + d)`: the full statement -/
theorem stepForDuration_steps [LawfulTime T] (h : SHandler σ T) (d : T) (fuel : Nat) (s s' : Sim σ T) (b : Bool)
    (hrun : stepForDuration h d fuel s = some (.ok (b, s'))) :
    ∃ k s₁, k < fuel ∧ s.steps h k = .ok (true, s₁) ∧
      (∀ j sj, 0 < j → j ≤ k → s.steps h j = .ok (true, sj) → TimeOps.le sj.clock (TimeOps.add s.clock d) = true) ∧
      SameButClock s₁ s' ∧ s'.clock = TimeOps.add s.clock d ∧
      (∀ e ∈ s'.live, TimeOps.lt (TimeOps.add s.clock d) e.time = true) ∧ (b = true ↔ s'.live ≠ []) :=
  stepUntilTime_spec h _ fuel s s' b hrun

theorem stepForDuration_spec [LawfulTime T] (h : SHandler σ T) (d : T) (fuel : Nat) (s s' : Sim σ T) (b : Bool)
    (hrun : stepForDuration h d fuel s = some (.ok (b, s'))) :
    s'.clock = TimeOps.add s.clock d ∧ (∀ e ∈ s'.live, TimeOps.lt (TimeOps.add s.clock d) e.time = true) ∧
      (b = true ↔ s'.live ≠ []) := by
  obtain ⟨_, _, _, _, _, _, h1, h2, h3⟩ := stepUntilTime_spec h _ fuel s s' b hrun
  exact ⟨h1, h2, h3⟩

end Sim

/-! ### non-vacuity: the demo run of `SimTraceInv.lean` (process 1 on node 0 sends to process 2 on node 1, which answers
    with a local message) -/
namespace Sim.TraceDemo

/-- after `send_local_message` to process 1 the outbox of process 2 is empty; `step_until_local_message` for process 2
    returns its local message, and that takes two steps (after one step the outbox is still empty) -/
example : ((s1.sendLocal h 1 ⟨0, []⟩).toOption.map fun s2 =>
      ((s2.readNode 1 2).toOption.map (·.1),
       (stepUntilLocal h 1 2 10 s2).map (fun r => r.toOption.map (·.1)),
       (s2.steps h 1).toOption.map (fun r => (r.1, (r.2.readNode 1 2).toOption.map (·.1))),
       (s2.steps h 2).toOption.map (fun r => (r.1, (r.2.readNode 1 2).toOption.map (·.1))))) =
    some (some none, some (some (some [⟨1, [7]⟩])), some (true, some none), some (true, some (some [⟨1, [7]⟩]))) := by
  rfl

/-- `step_until_local_message_max_steps`: one step is not enough (`none`), two are -/
example : ((s1.sendLocal h 1 ⟨0, []⟩).toOption.map fun s2 =>
      ((stepUntilLocalMax h 1 2 1 s2).toOption.map (·.1), (stepUntilLocalMax h 1 2 2 s2).toOption.map (·.1))) =
    some (some none, some (some [⟨1, [7]⟩])) := by
  decide

/-- `step_until_time 1`: events are handled, the clock ends at 1 and later events remain (`true`);
    `step_until_time 100` drains the queue (`false`) -/
example : ((s1.sendLocal h 1 ⟨0, []⟩).toOption.map fun s2 =>
      ((stepUntilTime h ⟨1⟩ 10 s2).map (fun r => r.toOption.map (fun x => (x.1, x.2.clock.n, x.2.live.length))),
       (stepUntilTime h ⟨100⟩ 10 s2).map (fun r => r.toOption.map (fun x => (x.1, x.2.clock.n, x.2.live.length))))) =
    some (some (some (true, 1, 2)), some (some (false, 100, 0))) := by
  rfl

end Sim.TraceDemo
end Anysystem
