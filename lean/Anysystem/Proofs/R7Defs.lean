import Anysystem.Proofs.R4Defs
import Anysystem.Proofs.R4Lemmas
import Anysystem.Proofs.SimFates
/-!
# R7 — definitions: the timed relation for ARBITRARY drop / duplication / corruption rates, freshness of sends

`TimedRelF` is `TimedRel` (R4Defs) without the restriction on the rates:

* `NetRelF`: no `ratesZero`; `netFlags` says that the three flags of the reference network are what `snapshotNet`
  (`McNetwork::new`) computes from the simulator's three rates;
* `FlightRelF`: the multiset equation "triples of the flights = triples of the deliverable queued copies + zombies" only;
  `FlightRel.inert` is dropped (the options of the flights are not restricted at all: nothing in the refinement proof
  needs the options of a flight that is already in the air — only the options of the flight a `send` creates matter,
  and those are computed from the flags);
* `TProcRel`, `QueueOk`, `TimerRel` are the R4 clauses, unchanged.

Freshness (`freshActs`, `FreshAt`, `FreshSendsFrom`): a property of the program in the reference semantics, in the style
of `OverrideFreeFrom`.
-/
namespace Anysystem

variable {σ T : Type} [TimeOps T]

/-- network part for arbitrary rates: the flags of the reference network are what the snapshot computes from the rates
    (`drop_rate > 0`, `dupl_rate != 0` as `0 < rate ∨ rate < 0`, `corrupt_rate > 0`); the other clauses are those of
    `NetRel` -/
structure NetRelF (bits : T → Nat) (q : Sim σ T) (r : RState σ) : Prop where
  netFlags : r.net.dropPos = TimeOps.lt TimeOps.zero q.net.dropRate ∧
    r.net.duplNonzero = (TimeOps.lt TimeOps.zero q.net.duplRate || TimeOps.lt q.net.duplRate TimeOps.zero) ∧
    r.net.corruptPos = TimeOps.lt TimeOps.zero q.net.corruptRate
  netLoc : r.net.procLoc = q.net.procLoc
  netCut : ∀ a b, a ∈ q.handlers → amHas b q.nodes = true →
    r.net.pathEnabled a b = (!(q.pathCut a b) && q.handlers.contains b)
  maxDelay : r.net.maxDelay = bits q.net.maxDelay
  crashed : ∀ n, n ∈ r.crashedNodes ↔ (amHas n q.nodes = true ∧ ¬ n ∈ q.handlers)
  locNodes : ∀ p n, amGet? p q.net.procLoc = some n → amHas n q.nodes = true
  handlersOk : ∀ n, n ∈ q.handlers ↔ ∃ nd, amGet? n q.nodes = some nd ∧ nd.crashed = false
  nodesSorted : KSorted q.nodes

/-- in-flight messages, as a multiset of (message, source, destination) triples: the deliverable queued copies plus the
    zombies (messages the simulator dropped at random when they were sent, still in flight in `r`); no zombies unless
    the reference network can drop.  Nothing is said about the options of the flights. -/
structure FlightRelF (q : Sim σ T) (r : RState σ) : Prop where
  perm : ∃ zs : List (Msg × Nat × Nat),
    (r.flights.map Flight.key).Perm (q.liveKeys ++ zs) ∧ (r.net.dropPos = false → zs = [])

/-- the timed relation for arbitrary rates -/
structure TimedRelF (bits : T → Nat) (q : Sim σ T) (r : RState σ) (ghosts : List (TimerGhost T)) : Prop where
  net : NetRelF bits q r
  proc : TProcRel q r
  queue : QueueOk q
  timer : TimerRel bits q r ghosts
  flights : FlightRelF q r

/-- the old relation is the special case "duplication and corruption rates zero" -/
theorem TimedRel.toF [LawfulTime T] {bits : T → Nat} {q : Sim σ T} {r : RState σ} {gs : List (TimerGhost T)}
    (h : TimedRel bits q r gs) : TimedRelF bits q r gs := by
  have hzz : TimeOps.lt (TimeOps.zero : T) TimeOps.zero = false := by
    cases hlt : TimeOps.lt (TimeOps.zero : T) TimeOps.zero with
    | false => rfl
    | true =>
      have := (LawfulTime.lt_iff (TimeOps.zero : T) TimeOps.zero).1 hlt
      rw [LawfulTime.le_refl] at this; cases this
  refine ⟨⟨⟨h.net.netFlags.1, ?_, ?_⟩, h.net.netLoc, h.net.netCut, h.net.maxDelay, h.net.crashed, h.net.locNodes,
    h.net.handlersOk, h.net.nodesSorted⟩, h.proc, h.queue, h.timer, ⟨h.flights.perm⟩⟩
  · rw [h.net.netFlags.2.1, h.net.ratesZero.1, hzz]; rfl
  · rw [h.net.netFlags.2.2, h.net.ratesZero.2, hzz]

/-! ## the fault path for a flight in the middle of the list -/

/-- the triple of the corruption of a flight -/
def Flight.ckey (f : Flight) : Msg × Nat × Nat := (corruptMc f.m, f.src, f.dst)

/-- the fault path that gives the flight at position `n` the fate "`k` copies, corrupted or not" when other flights are
    behind it: the first label is at position `n`; it moves the flight (its corruption, its two halves) to the back, so
    the remaining duplications are at position `n'` = (number of flights) - 1.  The path is EMPTY for the fate "one
    intact copy". -/
def fatePathMid (n n' k : Nat) (corrupted : Bool) : List Label :=
  if k = 0 then [.drop n]
  else if corrupted then .corrupt n :: List.replicate (k - 1) (.dup n')
  else if k = 1 then []
  else .dup n :: List.replicate (k - 2) (.dup n')

theorem fatePathMid_isFault (n n' k : Nat) (corrupted : Bool) :
    ∀ l ∈ fatePathMid n n' k corrupted, l.isFault = true := by
  intro l hl
  unfold fatePathMid at hl
  split at hl
  · simp only [List.mem_singleton] at hl; subst hl; rfl
  · split at hl
    · rcases List.mem_cons.1 hl with h | h
      · subst h; rfl
      · rw [List.eq_of_mem_replicate h]; rfl
    · split at hl
      · cases hl
      · rcases List.mem_cons.1 hl with h | h
        · subst h; rfl
        · rw [List.eq_of_mem_replicate h]; rfl

theorem fatePathMid_length (n n' k : Nat) (corrupted : Bool) (hk : k ≤ 3) :
    (fatePathMid n n' k corrupted).length ≤ 3 := by
  unfold fatePathMid
  split
  · simp
  · split
    · simp; omega
    · split
      · simp
      · simp; omega

/-! ## freshness of the sends of a program -/

/-- the reference network can duplicate or corrupt a cross-node message -/
def McNet.canFault (n : McNet) : Bool := n.duplNonzero || n.corruptPos

/-- One `Context` call of process `p` is *fresh* in `r`, where the first `n0` flights of `r` were in the air before the
    handler call and the others were created earlier in the same call: a `send m dst` finds
    (i) no flight in the air with the triple `(m, p, dst)` or the triple of its corruption `(corruptMc m, p, dst)`, and
    (ii) no flight created earlier in the same call whose CORRUPTION has one of these two triples.
    Nothing is asked when the network can neither duplicate nor corrupt. -/
def freshSend (r : RState σ) (p n0 : Nat) : Action → Prop
  | .send m dst => r.net.canFault = true →
      (∀ g ∈ r.flights, g.key ≠ (m, p, dst) ∧ g.key ≠ (corruptMc m, p, dst)) ∧
      (∀ g ∈ r.flights.drop n0, g.ckey ≠ (m, p, dst) ∧ g.ckey ≠ (corruptMc m, p, dst))
  | _ => True

/-- every call of the list is fresh at its moment -/
def freshActs (r : RState σ) (p n0 : Nat) : List Action → Prop
  | [] => True
  | a :: rest => freshSend r p n0 a ∧ freshActs (r.act p a).1 p n0 rest

/-- the handler call of the label `l` in state `r` is fresh (`True` for the fault labels) -/
def FreshAt (h : Handler σ) (r : RState σ) : Label → Prop
  | .deliver i =>
    match r.flights[i]? with
    | none => True
    | some f => match amGet? f.dst r.procs with
      | none => True
      | some e => freshActs { r with flights := r.flights.eraseIdx i } f.dst (r.flights.length - 1)
          (h f.dst e.st (.msg f.m f.src)).2
  | .fire j =>
    match r.timers[j]? with
    | none => True
    | some t => match amGet? t.proc r.procs with
      | none => True
      | some e => freshActs { r with timers := r.timers.eraseIdx j } t.proc r.flights.length
          (h t.proc e.st (.timer t.name)).2
  | _ => True

/-- from `r` on, every handler call of every reduced-enabled step of every reduced-enabled run is fresh -/
def FreshSendsFrom (h : Handler σ) (mode : Mode) (r : RState σ) : Prop :=
  ∀ ls r', refRun h mode r ls = some r' → ∀ l, r'.enabledRed mode l = true → FreshAt h r' l

/-! ## fated flights -/

/-- a flight the reference `send` created, with the fate the simulator gave the send: `k ≥ 1` copies, corrupted or not
    (a send the simulator dropped at random has the fate "one intact copy": the flight stays in the air as a zombie) -/
structure Fated where
  f : Flight
  k : Nat
  corrupted : Bool

/-- the triples of the copies -/
def Fated.copies (x : Fated) : List (Msg × Nat × Nat) :=
  List.replicate x.k (fatePayload x.f.m x.corrupted, x.f.src, x.f.dst)

/-- "one intact copy": the fate that needs no fault label -/
def Fated.trivial (x : Fated) : Prop := x.k = 1 ∧ x.corrupted = false

instance (x : Fated) : Decidable x.trivial := by unfold Fated.trivial; exact inferInstance

/-- the fate is permitted by the options of the flight -/
def Fated.ok (x : Fated) : Prop :=
  1 ≤ x.k ∧ x.k ≤ 3 ∧
  match x.f.o with
  | .noFail _ => x.k = 1 ∧ x.corrupted = false
  | .faults _ b c => x.k ≤ 1 + b ∧ (x.corrupted = true → c = true)

/-- two flights whose copies, intact or corrupted, could be confused -/
def Flight.clash (f g : Flight) : Prop :=
  f.key = g.key ∨ f.ckey = g.key ∨ f.key = g.ckey ∨ f.ckey = g.ckey

/-- the accumulated freshness facts about the flights a handler call created so far, behind the flights `F0` -/
structure FatesFresh (F0 : List Flight) (xs : List Fated) : Prop where
  old : ∀ x ∈ xs, ∀ g ∈ F0, g.key ≠ x.f.key ∧ g.key ≠ x.f.ckey
  pair : xs.Pairwise (fun x y => ¬ x.f.clash y.f)

end Anysystem
