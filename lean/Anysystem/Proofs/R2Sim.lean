import Anysystem.Proofs.R2Lists
/-!
# The corrected simulation relation `SimW'` / `Sim'` and basic facts

`SimW'` differs from `SimW` (R2Defs) in two points, both needed for the step theorems to be true:
* `sorted`: the node map and every per-node process map are sorted by name (they are `BTreeMap`s in
  the code; `amInsert` on an unsorted list does not replace in place);
* `pend` is only required for the processes of nodes that are not crashed (`crash_node` does not
  clear `pending_timers`, the reference semantics removes the timers).
-/
set_option linter.unusedSimpArgs false
namespace Anysystem

variable {σ : Type}

structure SortedTopo (s : McSys σ) : Prop where
  nodes_sorted : KSorted s.nodes
  procs_sorted : ∀ nd ∈ s.nodes, KSorted nd.2.procs

/-- the part of the relation that talks about the store, the network and the crash flags -/
structure SimS (s : McSys σ) (r : RState σ) (a : AStore) : Prop where
  topo : WFTopo s
  sorted : SortedTopo s
  rep : Rep s.events a
  flights : r.flights = flightsOf a.pending
  timers : r.timers = timersOf a.pending
  crashed : ∀ nd ∈ s.nodes, (nd.2.crashed = true ↔ nd.1 ∈ r.crashedNodes)
  net : r.net = s.net
  uniq : r.timersUnique
  tm : ∀ id p name d, (id, Ev.timer p name d) ∈ a.pending → amGet? (p, name) a.tm = some id
  clean_msg : ∀ id m src dst o, (id, Ev.msg m src dst o) ∈ a.pending →
    r.procCrashed src = false ∧ r.procCrashed dst = false
  clean_timer : ∀ id p name d, (id, Ev.timer p name d) ∈ a.pending → r.procCrashed p = false

/-- `pending_timers` mirrors the pending timer events, on nodes that are alive -/
def Pend (s : McSys σ) (r : RState σ) : Prop :=
  ∀ nd ∈ s.nodes, nd.2.crashed = false → ∀ pe ∈ nd.2.procs, ∀ name,
    name ∈ pe.2.pending ↔ r.timerPending pe.1 name = true

structure SimW' (s : McSys σ) (r : RState σ) (a : AStore) : Prop where
  core : SimS s r a
  procs : r.procs = procsOf s
  trace : r.trace = s.trace
  pend : Pend s r

def Sim' (s : McSys σ) (r : RState σ) : Prop := ∃ a, SimW' s r a

theorem Sim'.trace_eq {s : McSys σ} {r : RState σ} (h : Sim' s r) : r.trace = s.trace := by
  obtain ⟨a, hw⟩ := h; exact hw.trace

theorem Sim'.procs_eq {s : McSys σ} {r : RState σ} (h : Sim' s r) : r.procs = procsOf s := by
  obtain ⟨a, hw⟩ := h; exact hw.procs

theorem Sim'.net_eq {s : McSys σ} {r : RState σ} (h : Sim' s r) : r.net = s.net := by
  obtain ⟨a, hw⟩ := h; exact hw.core.net

theorem Sim'.topo {s : McSys σ} {r : RState σ} (h : Sim' s r) : WFTopo s := by
  obtain ⟨a, hw⟩ := h; exact hw.core.topo

theorem Sim'.sorted {s : McSys σ} {r : RState σ} (h : Sim' s r) : SortedTopo s := by
  obtain ⟨a, hw⟩ := h; exact hw.core.sorted

theorem Sim'.uniq {s : McSys σ} {r : RState σ} (h : Sim' s r) : r.timersUnique := by
  obtain ⟨a, hw⟩ := h; exact hw.core.uniq

/-- the original relation implies the corrected one on sorted systems -/
theorem SimW.toSimW' {s : McSys σ} {r : RState σ} {a : AStore} (h : SimW s r a) (hs : SortedTopo s) :
    SimW' s r a where
  core :=
    { topo := h.topo, sorted := hs, rep := h.rep, flights := h.flights, timers := h.timers,
      crashed := h.crashed, net := h.net, uniq := h.uniq
      tm := fun _ p name d hx => h.tm _ hx p name d rfl
      clean_msg := fun _ _ _ _ _ hx => h.clean _ hx
      clean_timer := fun _ _ _ _ hx => h.clean _ hx }
  procs := h.procs
  trace := h.trace
  pend := fun nd hnd _ pe hpe name => h.pend nd hnd pe hpe name

theorem Sim.toSim' {s : McSys σ} {r : RState σ} (h : SimRel0 s r) (hs : SortedTopo s) : Sim' s r := by
  obtain ⟨a, ha⟩ := h
  exact ⟨a, ha.toSimW' hs⟩

/-- the corrected relation implies the original one when `pending_timers` of crashed nodes is empty
    of stale names -/
theorem SimW'.toSimW {s : McSys σ} {r : RState σ} {a : AStore} (h : SimW' s r a)
    (hp : ∀ nd ∈ s.nodes, nd.2.crashed = true → ∀ pe ∈ nd.2.procs, ∀ name,
      name ∈ pe.2.pending ↔ r.timerPending pe.1 name = true) : SimW s r a where
  topo := h.core.topo
  rep := h.core.rep
  flights := h.core.flights
  timers := h.core.timers
  procs := h.procs
  crashed := h.core.crashed
  net := h.core.net
  trace := h.trace
  pend := by
    intro nd hnd pe hpe name
    cases hc : nd.2.crashed with
    | false => exact h.pend nd hnd hc pe hpe name
    | true => exact hp nd hnd hc pe hpe name
  uniq := h.core.uniq
  tm := by
    intro x hx p name d he
    obtain ⟨id, ev⟩ := x
    simp only at he
    subst he
    exact h.core.tm id p name d hx
  clean := by
    intro x hx
    obtain ⟨id, ev⟩ := x
    cases ev with
    | msg m src dst o => exact h.core.clean_msg id m src dst o hx
    | timer p n d => exact h.core.clean_timer id p n d hx
    | _ => trivial

/-! ## crashed-ness of a process, both sides -/

theorem nodeOf_eq {s : McSys σ} {nd : Nat} {n : McNode σ} (h : amGet? nd s.nodes = some n) :
    s.nodeOf nd = .ok n := by
  simp [McSys.nodeOf, h]

theorem procCrashed_agree {s : McSys σ} {r : RState σ} {a : AStore} (hs : SimS s r a) {q nd : Nat}
    {n : McNode σ} (hq : amGet? q s.net.procLoc = some nd) (hn : amGet? nd s.nodes = some n) :
    s.procCrashed q = .ok n.crashed ∧ r.procCrashed q = n.crashed := by
  constructor
  · simp [McSys.procCrashed, McNet.procNode, hq, McSys.nodeOf, hn]
  · have hmem := amGet?_eq_some_mem hn
    have hc := hs.crashed _ hmem
    simp only [RState.procCrashed, hs.net, hq]
    cases hcr : n.crashed with
    | true =>
      simp only [hcr, true_iff] at hc
      simpa using hc
    | false =>
      simp only [hcr, Bool.false_eq_true, false_iff] at hc
      simpa using hc

theorem procCrashed_known {s : McSys σ} {r : RState σ} {a : AStore} (hs : SimS s r a) {q : Nat}
    (hq : (amGet? q s.net.procLoc).isSome = true) :
    ∃ b, s.procCrashed q = .ok b ∧ r.procCrashed q = b := by
  obtain ⟨nd, hnd⟩ := Option.isSome_iff_exists.mp hq
  obtain ⟨n, hn, _⟩ := hs.topo.proc_of_loc q nd hnd
  exact ⟨n.crashed, procCrashed_agree hs hnd hn⟩

theorem procCrashed_ok_known {s : McSys σ} {q : Nat} {b : Bool} (h : s.procCrashed q = .ok b) :
    (amGet? q s.net.procLoc).isSome = true := by
  simp only [McSys.procCrashed, McNet.procNode] at h
  cases hq : amGet? q s.net.procLoc with
  | none => simp [hq] at h
  | some nd => rfl

/-- `procCrashed` only looks at the process locations and the crashed set -/
theorem procCrashed_congr {r r' : RState σ} (hn : r'.net.procLoc = r.net.procLoc)
    (hc : r'.crashedNodes = r.crashedNodes) (q : Nat) : r'.procCrashed q = r.procCrashed q := by
  simp only [RState.procCrashed, hn, hc]

/-! ## process lookup, both sides -/

theorem mem_procsOf {s : McSys σ} {x : Nat × RProc σ} :
    x ∈ procsOf s ↔ ∃ nd ∈ s.nodes, ∃ pe ∈ nd.2.procs, x = (pe.1, ⟨pe.2.st, pe.2.outbox⟩) := by
  simp only [procsOf, List.mem_flatMap, List.mem_map]
  constructor
  · rintro ⟨nd, hnd, pe, hpe, rfl⟩; exact ⟨nd, hnd, pe, hpe, rfl⟩
  · rintro ⟨nd, hnd, pe, hpe, rfl⟩; exact ⟨nd, hnd, pe, hpe, rfl⟩

theorem amGet?_procsOf {s : McSys σ} (ht : WFTopo s) {nd p : Nat} {n : McNode σ} {e : ProcEntry σ}
    (hn : amGet? nd s.nodes = some n) (he : amGet? p n.procs = some e) :
    amGet? p (procsOf s) = some ⟨e.st, e.outbox⟩ := by
  apply amGet?_of_mem_nodup ht.procs_nodup
  rw [mem_procsOf]
  exact ⟨(nd, n), amGet?_eq_some_mem hn, (p, e), amGet?_eq_some_mem he, rfl⟩

/-- a process known to the reference state lives on a node of the system -/
theorem procsOf_lookup {s : McSys σ} (ht : WFTopo s) (hsrt : SortedTopo s) {p : Nat} {e' : RProc σ}
    (h : amGet? p (procsOf s) = some e') :
    ∃ nd n e, amGet? p s.net.procLoc = some nd ∧ amGet? nd s.nodes = some n ∧
      amGet? p n.procs = some e ∧ e' = ⟨e.st, e.outbox⟩ := by
  have hm := amGet?_eq_some_mem h
  rw [mem_procsOf] at hm
  obtain ⟨⟨nd, n⟩, hnd, ⟨p', e⟩, hpe, heq⟩ := hm
  simp only [Prod.mk.injEq] at heq
  obtain ⟨rfl, rfl⟩ := heq
  refine ⟨nd, n, e, ht.loc_of_proc _ hnd _ hpe, amGet?_of_mem_nodup ht.nodes_nodup hnd, ?_, rfl⟩
  exact amGet?_of_mem_nodup (hsrt.procs_sorted _ hnd).nodup hpe

/-- two entries with the same process name live on the same node -/
theorem proc_node_unique {s : McSys σ} (ht : WFTopo s) {x y : Nat × McNode σ} (hx : x ∈ s.nodes)
    (hy : y ∈ s.nodes) {pe pe' : Nat × ProcEntry σ} (hpe : pe ∈ x.2.procs) (hpe' : pe' ∈ y.2.procs)
    (heq : pe.1 = pe'.1) : x.1 = y.1 := by
  have h1 := ht.loc_of_proc x hx pe hpe
  have h2 := ht.loc_of_proc y hy pe' hpe'
  rw [heq, h2] at h1
  simpa using h1.symm

end Anysystem
