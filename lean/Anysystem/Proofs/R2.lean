import Anysystem.Proofs.R2Defs
import Anysystem.Proofs.R2Uniq
import Anysystem.Proofs.R2Crash
/-!
# R2: the mirrored model checker refines the reference semantics

The relation used by the theorems is `SimW'` / `Sim'` (`R2Sim.lean`): the relation `SimW` of
`R2Defs.lean` plus sortedness of the node and process maps, with `pending_timers` required to mirror
the pending timer events only on nodes that are alive.  The first formulation (`SimW` itself) turned
out to be too weak for five of the statements (one-step soundness and completeness, the path
theorem, `send_local_message` and `crash_node`); the kernel-checked counterexamples are kept in
`Anysystem/Proofs/R2Counter.lean`:

* `WFTopo` does not say that the node map and the per-node process maps are sorted by name;
  `amInsert natLt` on an unsorted list may insert a second entry for a present key, after which
  `procsOf` has one process twice and cannot equal the reference `procs`;
* `SimW.pend` also speaks about crashed nodes, but `crash_node` leaves `pending_timers` of the
  crashed processes as they are while the reference crash removes their timers.

`Sim.toSim'` turns `SimRel0` into `Sim'` on sorted systems.
-/
namespace Anysystem

variable {σ : Type}

/-! ## callbacks -/

/-- a system with nothing pending is related to the reference state with the same processes -/
theorem Sim.init (s : McSys σ) (ht : WFTopo s) (he : s.events = {})
    (hp : ∀ nd ∈ s.nodes, ∀ pe ∈ nd.2.procs, pe.2.pending = []) (hc : ∀ nd ∈ s.nodes, nd.2.crashed = false) :
    SimRel0 s { procs := procsOf s, net := s.net, trace := s.trace } := by
  refine ⟨{}, ⟨ht, by rw [he]; exact Rep.empty, rfl, rfl, rfl, ?_, rfl, rfl, ?_, List.Pairwise.nil, ?_, ?_⟩⟩
  · intro nd hnd
    simp [hc nd hnd]
  · intro nd hnd pe hpe name
    simp [hp nd hnd pe hpe, RState.timerPending]
  · intro x hx; simp at hx
  · intro x hx; simp at hx

/-- network settings and the ordering mode are not constrained by the relation beyond equality -/
theorem Sim.setNet {s : McSys σ} {r : RState σ} (hs : SimRel0 s r) (n : McNet) (hloc : n.procLoc = s.net.procLoc) :
    SimRel0 { s with net := n } { r with net := n } := by
  obtain ⟨a, hw⟩ := hs
  have hc : ∀ q, ({ r with net := n } : RState σ).procCrashed q = r.procCrashed q :=
    procCrashed_congr (by simp only [hloc, hw.net]) rfl
  refine ⟨a, ⟨hw.topo.congr rfl hloc, hw.rep, hw.flights, hw.timers, hw.procs, hw.crashed, rfl, hw.trace,
    hw.pend, hw.uniq, hw.tm, ?_⟩⟩
  intro x hx
  have := hw.clean x hx
  obtain ⟨id, ev⟩ := x
  cases ev with
  | msg m src dst o => simp only [hc]; exact this
  | timer p nm d => simp only [hc]; exact this
  | _ => trivial

theorem Sim.setMode {s : McSys σ} {r : RState σ} (hs : SimRel0 s r) (m : Mode) : SimRel0 { s with mode := m } r := by
  obtain ⟨a, hw⟩ := hs
  exact ⟨a, ⟨hw.topo.congr rfl rfl, hw.rep, hw.flights, hw.timers, hw.procs, hw.crashed, hw.net, hw.trace,
    hw.pend, hw.uniq, hw.tm, hw.clean⟩⟩

/-! ## one step: soundness -/

/-- the ordering mode is never changed by a step -/
theorem applyAlt_mode (h : Handler σ) {s s' : McSys σ} {alt : Alt} (hok : s.applyAlt {} h alt = .ok s') :
    s'.mode = s.mode := applyAlt_mode_gen h hok

/-! ## one step: completeness -/

/-- `successors` lists exactly the results of the alternatives of the offered events -/
theorem mem_successors_iff (h : Handler σ) {s : McSys σ} {cs : List (McSys σ)}
    (hsucc : s.successors {} h = .ok cs) (c : McSys σ) :
    c ∈ cs ↔ ∃ ids id alts alt, s.available = .ok ids ∧ id ∈ ids ∧ s.alternatives id = .ok alts ∧ alt ∈ alts ∧
      s.applyAlt {} h alt = .ok c := by
  simp only [McSys.successors] at hsucc
  cases hav : s.available with
  | error e => simp [hav] at hsucc
  | ok ids =>
    simp only [hav] at hsucc
    rw [goIds_spec ids hsucc c]
    simp only [List.not_mem_nil, false_or]
    constructor
    · rintro ⟨id, hid, alts, halts, alt, halt, happ⟩
      exact ⟨ids, id, alts, alt, rfl, hid, halts, halt, happ⟩
    · rintro ⟨ids', id, alts, alt, hids, hid, halts, halt, happ⟩
      simp only [Except.ok.injEq] at hids
      subst hids
      exact ⟨id, hid, alts, halts, alt, halt, happ⟩

/-- the reference semantics keeps the timer contract: at most one pending timer per (process, name) -/
theorem RState.step_timersUnique (h : Handler σ) {r r' : RState σ} {l : Label}
    (hu : r.timersUnique) (hstep : r.step h l = some r') : r'.timersUnique :=
  step_timersUnique_aux h hu hstep

/-! ## The corrected variants (relation `Sim'`, see `R2Sim.lean`) -/

/-- `Sim.init` for the corrected relation: additionally the maps are sorted -/
theorem Sim.init' (s : McSys σ) (ht : WFTopo s) (hsrt : SortedTopo s) (he : s.events = {})
    (hp : ∀ nd ∈ s.nodes, ∀ pe ∈ nd.2.procs, pe.2.pending = []) (hc : ∀ nd ∈ s.nodes, nd.2.crashed = false) :
    Sim' s { procs := procsOf s, net := s.net, trace := s.trace } :=
  Sim'.init s ht hsrt he hp hc

theorem Sim.sendLocal' (h : Handler σ) {s s' : McSys σ} {r : RState σ} (hs : Sim' s r) (node p : Nat) (m : Msg)
    (hnode : amGet? p s.net.procLoc = some node)
    (hok : s.sendLocal {} h node p m = .ok s')
    (hof : ∀ e, amGet? p r.procs = some e →
      RState.overrideFreeActs { r with trace := r.trace ++ [LogE.lrecv m p] } p (h p e.st (.loc m)).2 = true) :
    ∃ r', r.sendLocal h p m = some r' ∧ Sim' s' r' :=
  Sim'.sendLocal h hs node p m hnode hok hof

theorem Sim.crashNode' {s s' : McSys σ} {r : RState σ} (hs : Sim' s r) (node : Nat)
    (hok : s.crashNode {} node = .ok s') :
    ∃ order, order.Perm (r.lostOnCrash node) ∧ Sim' s' (r.crashNode node order) :=
  Sim'.crashNode hs node hok

theorem Sim.setNet' {s : McSys σ} {r : RState σ} (hs : Sim' s r) (n : McNet) (hloc : n.procLoc = s.net.procLoc) :
    Sim' { s with net := n } { r with net := n } :=
  Sim'.setNet hs n hloc

theorem Sim.setMode' {s : McSys σ} {r : RState σ} (hs : Sim' s r) (m : Mode) : Sim' { s with mode := m } r :=
  Sim'.setMode hs m

-- `applyAlt_refines'`, `alternatives_complete'` (R2Sound.lean, R2Complete.lean) and
-- `mc_path_sound_partial'` (R2Callbacks.lean) are the corrected step and path theorems.

end Anysystem
