import Anysystem.Proofs.R2Defs
namespace Anysystem

variable {σ : Type}

/-! ## callbacks -/

/-- a system with nothing pending is related to the reference state with the same processes -/
theorem Sim.init (s : McSys σ) (ht : WFTopo s) (he : s.events = {})
    (hp : ∀ nd ∈ s.nodes, ∀ pe ∈ nd.2.procs, pe.2.pending = []) (hc : ∀ nd ∈ s.nodes, nd.2.crashed = false) :
    Sim s { procs := procsOf s, net := s.net, trace := s.trace } := sorry

/-- `send_local_message` refines the reference `sendLocal` (when the handler does not override a pending timer) -/
theorem Sim.sendLocal (h : Handler σ) {s s' : McSys σ} {r : RState σ} (hs : Sim s r) (node p : Nat) (m : Msg)
    (hnode : amGet? p s.net.procLoc = some node)
    (hok : s.sendLocal {} h node p m = .ok s')
    (hof : ∀ e, amGet? p r.procs = some e →
      RState.overrideFreeActs { r with trace := r.trace ++ [LogE.lrecv m p] } p (h p e.st (.loc m)).2 = true) :
    ∃ r', r.sendLocal h p m = some r' ∧ Sim s' r' := sorry

/-- `crash_node` refines the reference crash, for some order of the recorded losses -/
theorem Sim.crashNode {s s' : McSys σ} {r : RState σ} (hs : Sim s r) (node : Nat)
    (hok : s.crashNode {} node = .ok s') :
    ∃ order, order.Perm (r.lostOnCrash node) ∧ Sim s' (r.crashNode node order) := sorry

/-- network settings and the ordering mode are not constrained by the relation beyond equality -/
theorem Sim.setNet {s : McSys σ} {r : RState σ} (hs : Sim s r) (n : McNet) (hloc : n.procLoc = s.net.procLoc) :
    Sim { s with net := n } { r with net := n } := sorry

theorem Sim.setMode {s : McSys σ} {r : RState σ} (hs : Sim s r) (m : Mode) : Sim { s with mode := m } r := sorry

/-! ## one step: soundness -/

/-- (R2, soundness) every alternative the checker applies to an offered event is a step of the
    reference semantics that is enabled in the reduced sense; when the handler does not override a
    pending timer the successor states are related again -/
theorem applyAlt_refines (h : Handler σ) {s s' : McSys σ} {r : RState σ} (hs : Sim s r)
    {ids : List Nat} {id : Nat} {alts : List Alt} {alt : Alt}
    (hav : s.available = .ok ids) (hid : id ∈ ids) (halts : s.alternatives id = .ok alts) (halt : alt ∈ alts)
    (hok : s.applyAlt {} h alt = .ok s') :
    ∃ l, r.enabledRed s.mode l = true ∧ (r.overrideFree h l = true → ∃ r', r.step h l = some r' ∧ Sim s' r') := sorry

/-- the ordering mode is never changed by a step -/
theorem applyAlt_mode (h : Handler σ) {s s' : McSys σ} {alt : Alt} (hok : s.applyAlt {} h alt = .ok s') :
    s'.mode = s.mode := sorry

/-- (C02, partial: `OverrideFree`) every path of the checker is an enabled run of the reference
    semantics ending in the related state -/
theorem mc_path_sound_partial (h : Handler σ) {s₀ s : McSys σ} {r₀ : RState σ} {alts : List Alt}
    (hs : Sim s₀ r₀) (hp : McPath h s₀ alts s) :
    ∃ ls, ls.length = alts.length ∧
      (overrideFreeRun h r₀ ls = true → ∃ r, refRun h s₀.mode r₀ ls = some r ∧ Sim s r) := sorry

/-! ## one step: completeness -/

/-- (R2, completeness) every reduced-enabled step of the reference semantics is an alternative of an
    offered event, the checker does not panic on it, and the successors are related -/
theorem alternatives_complete (h : Handler σ) {s : McSys σ} {r r' : RState σ} (hs : Sim s r)
    (hk : SendsKnown h s) {l : Label} (hen : r.enabledRed s.mode l = true) (hstep : r.step h l = some r')
    (hof : r.overrideFree h l = true) :
    ∃ ids id alts alt s', s.available = .ok ids ∧ id ∈ ids ∧ s.alternatives id = .ok alts ∧ alt ∈ alts ∧
      s.applyAlt {} h alt = .ok s' ∧ Sim s' r' := sorry

/-- `successors` lists exactly the results of the alternatives of the offered events -/
theorem mem_successors_iff (h : Handler σ) {s : McSys σ} {cs : List (McSys σ)}
    (hsucc : s.successors {} h = .ok cs) (c : McSys σ) :
    c ∈ cs ↔ ∃ ids id alts alt, s.available = .ok ids ∧ id ∈ ids ∧ s.alternatives id = .ok alts ∧ alt ∈ alts ∧
      s.applyAlt {} h alt = .ok c := sorry

/-- the reference semantics keeps the timer contract: at most one pending timer per (process, name) -/
theorem RState.step_timersUnique (h : Handler σ) {r r' : RState σ} {l : Label}
    (hu : r.timersUnique) (hstep : r.step h l = some r') : r'.timersUnique := sorry

end Anysystem
