import Anysystem.Spec.Monitors
import Anysystem.Proofs.R2
namespace Anysystem

variable {σ : Type}

/-! ## The acceptor `tcRun` -/

theorem PendSet.same_refl (a : PendSet) : a.same a := fun _ => Iff.rfl

theorem PendSet.same_symm {a b : PendSet} (h : a.same b) : b.same a := fun x => (h x).symm

theorem PendSet.same_trans {a b c : PendSet} (h1 : a.same b) (h2 : b.same c) : a.same c :=
  fun x => (h1 x).trans (h2 x)

theorem PendSet.same_contains {a b : PendSet} (h : a.same b) (x : Nat × Nat) : a.contains x = b.contains x := by
  rw [Bool.eq_iff_iff]
  simp only [List.contains_iff_mem]
  exact h x

theorem PendSet.same_filter {a b : PendSet} (h : a.same b) (q : Nat × Nat → Bool) :
    PendSet.same (a.filter q) (b.filter q) := by
  intro x
  simp only [List.mem_filter, h x]

theorem tcStep_same (loc : List (Nat × Nat)) {a b : PendSet} (hab : a.same b) (e : LogE) :
    (∀ a', tcStep loc a e = some a' → ∃ b', tcStep loc b e = some b' ∧ a'.same b') ∧
    (tcStep loc a e = none → tcStep loc b e = none) := by
  have hc := PendSet.same_contains hab
  have hf := PendSet.same_filter hab
  cases e with
  | tset p t =>
    simp only [tcStep, Option.some.injEq, reduceCtorEq, false_imp_iff, and_true, hc]
    rintro a' rfl
    refine ⟨_, rfl, ?_⟩
    split
    · exact hab
    · intro x
      simp only [List.mem_append, hab x]
  | tcancel p t =>
    simp only [tcStep, hc]
    split
    · simp only [Option.some.injEq, reduceCtorEq, false_imp_iff, and_true]
      rintro a' rfl
      exact ⟨_, rfl, hf _⟩
    · simp
  | tfired p t =>
    simp only [tcStep, hc]
    split
    · simp only [Option.some.injEq, reduceCtorEq, false_imp_iff, and_true]
      rintro a' rfl
      exact ⟨_, rfl, hf _⟩
    · simp
  | crashed n =>
    simp only [tcStep, Option.some.injEq, reduceCtorEq, false_imp_iff, and_true]
    rintro a' rfl
    exact ⟨_, rfl, hf _⟩
  | _ =>
    simp only [tcStep, Option.some.injEq, reduceCtorEq, false_imp_iff, and_true]
    rintro a' rfl
    exact ⟨_, rfl, hab⟩

/-- `tcRun` only depends on the members of the pending set -/
theorem tcRun_same (loc : List (Nat × Nat)) (a b : PendSet) (hab : a.same b) (tr : List LogE) :
    (∀ a', tcRun loc a tr = some a' → ∃ b', tcRun loc b tr = some b' ∧ a'.same b') ∧
    (tcRun loc a tr = none → tcRun loc b tr = none) := by
  induction tr generalizing a b with
  | nil =>
    simp only [tcRun, Option.some.injEq, reduceCtorEq, false_imp_iff, and_true]
    rintro a' rfl
    exact ⟨_, rfl, hab⟩
  | cons e es ih =>
    obtain ⟨h1, h2⟩ := tcStep_same loc hab e
    simp only [tcRun]
    cases ha : tcStep loc a e with
    | none => simp [h2 ha]
    | some a1 =>
      obtain ⟨b1, hb, hs⟩ := h1 a1 ha
      simp only [hb]
      exact ih a1 b1 hs

theorem tcRun_append (loc : List (Nat × Nat)) (a : PendSet) (x y : List LogE) :
    tcRun loc a (x ++ y) = (tcRun loc a x).bind (fun a' => tcRun loc a' y) := by
  induction x generalizing a with
  | nil => rfl
  | cons e es ih =>
    simp only [List.cons_append, tcRun]
    cases tcStep loc a e with
    | none => rfl
    | some a1 => exact ih a1

/-- entries the timer contract does not look at -/
def tcIgn : LogE → Bool
  | .tset .. => false
  | .tcancel .. => false
  | .tfired .. => false
  | .crashed _ => false
  | _ => true

theorem tcStep_ign {loc : List (Nat × Nat)} {pend : PendSet} {e : LogE} (h : tcIgn e = true) :
    tcStep loc pend e = some pend := by
  cases e <;> first | rfl | simp [tcIgn] at h

theorem tcRun_ign (loc : List (Nat × Nat)) (pend : PendSet) (l : List LogE) (h : ∀ e ∈ l, tcIgn e = true) :
    tcRun loc pend l = some pend := by
  induction l with
  | nil => rfl
  | cons e es ih =>
    simp only [tcRun, tcStep_ign (h e (by simp))]
    exact ih (fun e' he' => h e' (by simp [he']))

/-! ## The invariant: the trace grows by accepted entries and the pending set is tracked -/

/-- `r'` extends the trace of `r` by entries the contract accepts from `pendOf r`, ending with the
    members of `pendOf r'` -/
def TC (loc : List (Nat × Nat)) (r r' : RState σ) : Prop :=
  ∃ new, r'.trace = r.trace ++ new ∧
    ∃ pend', tcRun loc (pendOf r) new = some pend' ∧ pend'.same (pendOf r')

theorem TC.refl (loc : List (Nat × Nat)) (r : RState σ) : TC loc r r :=
  ⟨[], by simp, _, rfl, PendSet.same_refl _⟩

theorem TC.trans {loc : List (Nat × Nat)} {r r' r'' : RState σ} (h1 : TC loc r r') (h2 : TC loc r' r'') :
    TC loc r r'' := by
  obtain ⟨n1, ht1, p1, hr1, hs1⟩ := h1
  obtain ⟨n2, ht2, p2, hr2, hs2⟩ := h2
  obtain ⟨p2', hr2', hs2'⟩ := (tcRun_same loc _ _ (PendSet.same_symm hs1) n2).1 p2 hr2
  refine ⟨n1 ++ n2, by rw [ht2, ht1, List.append_assoc], p2', ?_, PendSet.same_trans (PendSet.same_symm hs2') hs2⟩
  rw [tcRun_append, hr1]
  exact hr2'

/-- a change that leaves the timers alone and logs only irrelevant entries -/
theorem TC.of_ign (loc : List (Nat × Nat)) {r r' : RState σ} (new : List LogE) (htm : r'.timers = r.timers)
    (htr : r'.trace = r.trace ++ new) (hign : ∀ e ∈ new, tcIgn e = true) : TC loc r r' :=
  ⟨new, htr, _, tcRun_ign loc _ new hign, by simp only [pendOf, htm]; exact PendSet.same_refl _⟩

theorem mem_pendOf {r : RState σ} {x : Nat × Nat} :
    x ∈ pendOf r ↔ ∃ t ∈ r.timers, (t.proc, t.name) = x := by
  simp [pendOf]

theorem contains_pendOf (r : RState σ) (p n : Nat) : (pendOf r).contains (p, n) = r.timerPending p n := by
  rw [Bool.eq_iff_iff]
  simp only [List.contains_iff_mem, mem_pendOf, RState.timerPending, List.any_eq_true, Bool.and_eq_true,
    beq_iff_eq, Prod.mk.injEq]

theorem act_TC (loc : List (Nat × Nat)) (r : RState σ) (p : Nat) (a : Action) :
    TC loc r (r.act p a).1 ∧ ∀ e ∈ (r.act p a).2, tcIgn e = true := by
  cases a with
  | send m dst =>
    simp only [RState.act]
    split
    · split
      · exact ⟨TC.of_ign loc [LogE.sent m p dst] rfl rfl (by simp [tcIgn]), by simp [tcIgn]⟩
      · exact ⟨TC.of_ign loc [LogE.sent m p dst] rfl rfl (by simp [tcIgn]), by simp⟩
    · exact ⟨TC.of_ign loc [LogE.sent m p dst] rfl rfl (by simp [tcIgn]), by simp [tcIgn]⟩
    · exact ⟨TC.of_ign loc [LogE.sent m p dst] rfl rfl (by simp [tcIgn]), by simp⟩
  | loc m =>
    exact ⟨TC.of_ign loc [LogE.lsent m p] rfl rfl (by simp [tcIgn]), by simp [RState.act]⟩
  | set name delay once =>
    simp only [RState.act]
    split
    · exact ⟨TC.refl loc r, by simp⟩
    · refine ⟨⟨[LogE.tset p name], rfl, _, rfl, ?_⟩, by simp⟩
      intro x
      rw [mem_pendOf]
      simp only [RState.removeTimer, List.mem_append, List.mem_filter, List.mem_singleton]
      split
      · rename_i hc
        rw [List.contains_iff_mem] at hc
        rw [mem_pendOf]
        constructor
        · rintro ⟨t, ht, rfl⟩
          by_cases hpn : t.proc = p ∧ t.name = name
          · exact ⟨⟨p, name, delay⟩, Or.inr rfl, by simp [hpn.1, hpn.2]⟩
          · exact ⟨t, Or.inl ⟨ht, by simp; omega⟩, rfl⟩
        · rintro ⟨t, ht | rfl, rfl⟩
          · exact ⟨t, ht.1, rfl⟩
          · exact mem_pendOf.mp hc
      · rw [List.mem_append, mem_pendOf, List.mem_singleton]
        constructor
        · rintro (⟨t, ht, rfl⟩ | rfl)
          · by_cases hpn : t.proc = p ∧ t.name = name
            · exact ⟨⟨p, name, delay⟩, Or.inr rfl, by simp [hpn.1, hpn.2]⟩
            · exact ⟨t, Or.inl ⟨ht, by simp; omega⟩, rfl⟩
          · exact ⟨⟨p, name, delay⟩, Or.inr rfl, rfl⟩
        · rintro ⟨t, ht | rfl, rfl⟩
          · exact Or.inl ⟨t, ht.1, rfl⟩
          · exact Or.inr rfl
  | cancel name =>
    simp only [RState.act]
    split
    · rename_i hpend
      refine ⟨⟨[LogE.tcancel p name], rfl, (pendOf r).filter (· != (p, name)), ?_, ?_⟩, by simp⟩
      · simp only [tcRun, tcStep, contains_pendOf, hpend, ↓reduceIte]
      · intro x
        rw [mem_pendOf]
        simp only [RState.removeTimer, List.mem_filter, mem_pendOf]
        constructor
        · rintro ⟨⟨t, ht, rfl⟩, hne⟩
          refine ⟨t, ⟨ht, ?_⟩, rfl⟩
          simp at hne ⊢
          omega
        · rintro ⟨t, ⟨ht, hne⟩, rfl⟩
          refine ⟨⟨t, ht, rfl⟩, ?_⟩
          simp at hne ⊢
          omega
    · exact ⟨TC.refl loc r, by simp⟩

theorem actsAux_TC (loc : List (Nat × Nat)) (p : Nat) (as : List Action) :
    ∀ (r : RState σ) (late : List LogE), (∀ e ∈ late, tcIgn e = true) →
      TC loc r (RState.actsAux p as r late).1 ∧ ∀ e ∈ (RState.actsAux p as r late).2, tcIgn e = true := by
  induction as with
  | nil => intro r late hl; exact ⟨TC.refl loc r, hl⟩
  | cons a rest ih =>
    intro r late hl
    simp only [RState.actsAux]
    obtain ⟨h1, h2⟩ := act_TC loc r p a
    obtain ⟨h3, h4⟩ := ih (r.act p a).1 (late ++ (r.act p a).2) (by
      intro e he
      rcases List.mem_append.mp he with he | he
      · exact hl e he
      · exact h2 e he)
    exact ⟨h1.trans h3, h4⟩

theorem acts_TC (loc : List (Nat × Nat)) (r : RState σ) (p : Nat) (as : List Action) :
    TC loc r (r.acts p as) := by
  obtain ⟨h1, h2⟩ := actsAux_TC loc p as r [] (by simp)
  simp only [RState.acts]
  exact h1.trans (TC.of_ign loc _ rfl rfl h2)

theorem react_TC (loc : List (Nat × Nat)) (h : Handler σ) {r r' : RState σ} {p : Nat} {i : Input}
    (hstep : r.react h p i = some r') : TC loc r r' := by
  simp only [RState.react] at hstep
  split at hstep
  · simp at hstep
  · split at hstep
    · simp at hstep
    · simp only [Option.some.injEq] at hstep
      subst hstep
      exact (TC.of_ign loc [] rfl (by simp) (by simp)).trans (acts_TC loc _ p _)

/-- consuming a pending timer: the `tfired` entry is legal and, timers being unique, the name is no
    longer pending afterwards -/
theorem fire_TC (loc : List (Nat × Nat)) (r : RState σ) (hu : r.timersUnique) (j : Nat) (t : PTimer)
    (ht : r.timers[j]? = some t) :
    TC loc r { r with timers := r.timers.eraseIdx j, trace := r.trace ++ [LogE.tfired t.proc t.name] } := by
  obtain ⟨hj, hjt⟩ := List.getElem?_eq_some_iff.mp ht
  have hmem : t ∈ r.timers := hjt ▸ List.getElem_mem hj
  have hpend : (pendOf r).contains (t.proc, t.name) = true := by
    rw [List.contains_iff_mem, mem_pendOf]
    exact ⟨t, hmem, rfl⟩
  refine ⟨[LogE.tfired t.proc t.name], rfl, (pendOf r).filter (· != (t.proc, t.name)), ?_, ?_⟩
  · simp only [tcRun, tcStep, hpend, ↓reduceIte]
  · intro x
    rw [mem_pendOf]
    simp only [List.mem_filter, mem_pendOf, List.mem_eraseIdx_iff_getElem]
    simp only [RState.timersUnique, List.pairwise_iff_getElem] at hu
    constructor
    · rintro ⟨⟨u, hu', rfl⟩, hne⟩
      obtain ⟨i, hi, rfl⟩ := List.getElem_of_mem hu'
      refine ⟨_, ⟨i, hi, ?_, rfl⟩, rfl⟩
      rintro rfl
      rw [hjt] at hne
      simp at hne
    · rintro ⟨u, ⟨i, hi, hij, rfl⟩, rfl⟩
      refine ⟨⟨_, List.getElem_mem hi, rfl⟩, ?_⟩
      simp only [bne_iff_ne, ne_eq, Prod.mk.injEq]
      subst hjt
      rcases Nat.lt_or_gt_of_ne hij with hlt | hgt
      · exact hu i j hi hj hlt
      · intro hc
        exact hu j i hj hi hgt ⟨hc.1.symm, hc.2.symm⟩

theorem step_TC (loc : List (Nat × Nat)) (h : Handler σ) {r r' : RState σ} {l : Label} (hu : r.timersUnique)
    (hstep : r.step h l = some r') : TC loc r r' := by
  cases l with
  | deliver i =>
    simp only [RState.step] at hstep
    split at hstep
    · simp at hstep
    · rename_i f _
      refine TC.trans ?_ (react_TC loc h hstep)
      exact TC.of_ign loc [_] rfl rfl (by simp [tcIgn])
  | fire j =>
    simp only [RState.step] at hstep
    split at hstep
    · simp at hstep
    · rename_i t ht
      exact (fire_TC loc r hu j t ht).trans (react_TC loc h hstep)
  | drop i =>
    simp only [RState.step] at hstep
    split at hstep
    · simp only [Option.some.injEq] at hstep
      subst hstep
      exact TC.of_ign loc [_] rfl rfl (by simp [tcIgn])
    · simp at hstep
  | dup i =>
    simp only [RState.step] at hstep
    split at hstep
    · simp only [Option.some.injEq] at hstep
      subst hstep
      exact TC.of_ign loc [_] rfl rfl (by simp [tcIgn])
    · simp at hstep
  | corrupt i =>
    simp only [RState.step] at hstep
    split at hstep
    · simp only [Option.some.injEq] at hstep
      subst hstep
      exact TC.of_ign loc [_] rfl rfl (by simp [tcIgn])
    · simp at hstep

theorem refRun_TC (loc : List (Nat × Nat)) (h : Handler σ) (mode : Mode) (ls : List Label) :
    ∀ (r r' : RState σ), r.timersUnique → refRun h mode r ls = some r' → TC loc r r' := by
  induction ls with
  | nil =>
    intro r r' _ hrun
    simp only [refRun, Option.some.injEq] at hrun
    subst hrun
    exact TC.refl loc r
  | cons l ls ih =>
    intro r r' hu hrun
    simp only [refRun] at hrun
    split at hrun
    · cases hstep : r.step h l with
      | none => simp [hstep] at hrun
      | some r1 =>
        simp only [hstep] at hrun
        exact (step_TC loc h hu hstep).trans (ih r1 r' (RState.step_timersUnique h hu hstep) hrun)
    · simp at hrun

/-! ## The statements -/

/-- every step of the reference semantics extends the trace by entries the timer contract accepts,
    and the contract's pending set tracks the pending timers -/
theorem step_timerContract (h : Handler σ) (r r' : RState σ) (l : Label) (hu : r.timersUnique)
    (hstep : r.step h l = some r') :
    ∃ new, r'.trace = r.trace ++ new ∧
      ∃ pend', tcRun r.net.procLoc (pendOf r) new = some pend' ∧ pend'.same (pendOf r') :=
  step_TC r.net.procLoc h hu hstep

/-- the same for a whole reduced-enabled run -/
theorem refRun_timerContract (h : Handler σ) (mode : Mode) (r r' : RState σ) (ls : List Label)
    (hu : r.timersUnique) (hrun : refRun h mode r ls = some r') :
    ∃ new, r'.trace = r.trace ++ new ∧
      ∃ pend', tcRun r.net.procLoc (pendOf r) new = some pend' ∧ pend'.same (pendOf r') :=
  refRun_TC r.net.procLoc h mode ls r r' hu hrun

/-- `send_local_message` in the callback -/
theorem sendLocal_timerContract (h : Handler σ) (r r' : RState σ) (p : Nat) (m : Msg) (hu : r.timersUnique)
    (hstep : r.sendLocal h p m = some r') :
    ∃ new, r'.trace = r.trace ++ new ∧
      ∃ pend', tcRun r.net.procLoc (pendOf r) new = some pend' ∧ pend'.same (pendOf r') := by
  have _ := hu
  simp only [RState.sendLocal] at hstep
  refine TC.trans ?_ (react_TC r.net.procLoc h hstep)
  exact TC.of_ign _ [_] rfl rfl (by simp [tcIgn])

/-- C07 for the model checker, partial (`OverrideFree`): along every path of the checker whose
    reference run is override-free, the trace entries added since the start satisfy the timer
    contract (every timer fires at most once, never after cancellation, names are reusable) -/
theorem mc_timer_contract_partial (h : Handler σ) {s₀ s : McSys σ} {r₀ : RState σ} {alts : List Alt}
    (hs : Sim' s₀ r₀) (hp : McPath h s₀ alts s) :
    ∃ ls, ls.length = alts.length ∧ (overrideFreeRun h r₀ ls = true →
      ∃ new, s.trace = s₀.trace ++ new ∧ timerContractOk s₀.net.procLoc (pendOf r₀) new = true) := by
  obtain ⟨ls, hlen, hrest⟩ := mc_path_sound_partial' h hs hp
  refine ⟨ls, hlen, fun hof => ?_⟩
  obtain ⟨r, hrun, hsim⟩ := hrest hof
  obtain ⟨new, htr, pend', hrun', _⟩ := refRun_timerContract h s₀.mode r₀ r ls hs.uniq hrun
  refine ⟨new, ?_, ?_⟩
  · rw [← hsim.trace_eq, ← hs.trace_eq]
    exact htr
  · rw [← hs.net_eq]
    simp only [timerContractOk, hrun', Option.isSome_some]

end Anysystem
