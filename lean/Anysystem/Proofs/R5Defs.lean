import Anysystem.Proofs.SnapshotThms
import Anysystem.Proofs.R2
import Anysystem.Proofs.R4
/-!
# R5 — definitions shared by the pieces of the C04 composition

`snapshotRef bits q` is the reference state that `ModelChecker::new` *means*: the processes with their states and
outboxes, the crashed nodes, the live queued message copies (not addressed to crashed nodes) and the live queued timers
in `(time, id)` order — the order in which the snapshot pushes them — timers carrying their remaining time, messages
carrying no fault options, the checker's network settings, and a trace of placeholder entries.
-/
namespace Anysystem

variable {σ T : Type} [TimeOps T]

/-- the pending events of the snapshot, with the ids `0, 1, 2, …` the store gives them (`snapshotEvents_spec`) -/
def snapshotPending (bits : T → Nat) (q : Sim σ T) : List (Nat × Ev) :=
  (snapshotSource q).zipIdx.map (fun (e, i) => (i, snapshotEv bits q (snapshotNet bits q).maxDelay e))

/-- the reference state a snapshot stands for -/
def snapshotRef (bits : T → Nat) (q : Sim σ T) : RState σ :=
  { procs := q.nodes.flatMap (fun nd => nd.2.procs.map fun pe => (pe.1, ({ st := pe.2.st, outbox := pe.2.outbox } : RProc σ))),
    crashedNodes := (q.nodes.filter (·.2.crashed)).map (·.1),
    flights := flightsOf (snapshotPending bits q),
    timers := timersOf (snapshotPending bits q),
    net := snapshotNet bits q,
    trace := (List.range q.trace.length).map LogE.sim }

/-- delivery options that permit no fault -/
def Opts.inert : Opts → Bool
  | .noFail _ => true
  | .faults false 0 false => true
  | _ => false

/-- what the reduced semantics looks at in a flight -/
def Flight.core (f : Flight) : Msg × Nat × Nat := (f.m, f.src, f.dst)

end Anysystem
