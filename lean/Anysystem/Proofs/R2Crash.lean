import Anysystem.Proofs.R2CrashStore
import Anysystem.Proofs.R2Callbacks
/-!
# `crash_node` refines the reference crash (for the corrected relation)
-/
set_option linter.unusedSimpArgs false
namespace Anysystem

variable {σ : Type}

/-! ## replacing a node by one with the same processes -/

theorem procsOf_replace_node {s s2 : McSys σ} (ht : WFTopo s) (hsrt : SortedTopo s) {nd : Nat}
    {n n2 : McNode σ} (hn : amGet? nd s.nodes = some n) (hp : n2.procs = n.procs)
    (h2 : s2.nodes = amInsert natLt nd n2 s.nodes) : procsOf s2 = procsOf s := by
  simp only [procsOf, h2]
  rw [amInsert_natLt_replace nd n n2 s.nodes hsrt.nodes_sorted hn, List.flatMap_map]
  apply flatMap_congr'
  intro x hx
  by_cases hxn : x.1 = nd
  · have hx2 : x.2 = n := by
      have := amGet?_of_mem_nodup ht.nodes_nodup (k := x.1) (v := x.2) hx
      rw [hxn, hn] at this
      simpa using this.symm
    simp only [hxn, ↓reduceIte, hp, hx2]
  · simp only [hxn, ↓reduceIte]

theorem WFTopo.replace_node {s s2 : McSys σ} (ht : WFTopo s) (hsrt : SortedTopo s) {nd : Nat}
    {n n2 : McNode σ} (hn : amGet? nd s.nodes = some n) (hp : n2.procs = n.procs)
    (h2 : s2.nodes = amInsert natLt nd n2 s.nodes) (hl : s2.net.procLoc = s.net.procLoc) :
    WFTopo s2 := by
  have hnmem := amGet?_eq_some_mem hn
  refine ⟨?_, ?_, ?_, ?_⟩
  · rw [h2, keys_amInsert_present hsrt.nodes_sorted hn]
    exact ht.nodes_nodup
  · rw [procsOf_replace_node ht hsrt hn hp h2]
    exact ht.procs_nodup
  · intro x hx pe hpe
    rw [h2] at hx
    rw [hl]
    rcases mem_amInsert_sorted hsrt.nodes_sorted hx with ⟨h1, h2'⟩ | ⟨_, hx'⟩
    · rw [h2', hp] at hpe
      rw [h1]
      exact ht.loc_of_proc _ hnmem _ hpe
    · exact ht.loc_of_proc _ hx' _ hpe
  · intro q nn hq
    rw [hl] at hq
    obtain ⟨n0, hn0, hq0⟩ := ht.proc_of_loc q nn hq
    rw [h2]
    simp only [amGet?_amInsert]
    by_cases hnn : nn = nd
    · subst hnn
      rw [hn] at hn0
      simp only [Option.some.injEq] at hn0
      subst hn0
      exact ⟨n2, by simp, by rw [hp]; exact hq0⟩
    · exact ⟨n0, by simp [hnn, hn0], hq0⟩

theorem SortedTopo.replace_node {s s2 : McSys σ} (hsrt : SortedTopo s) {nd : Nat}
    {n n2 : McNode σ} (hn : amGet? nd s.nodes = some n) (hp : n2.procs = n.procs)
    (h2 : s2.nodes = amInsert natLt nd n2 s.nodes) : SortedTopo s2 := by
  have hnmem := amGet?_eq_some_mem hn
  refine ⟨?_, ?_⟩
  · rw [h2]; exact hsrt.nodes_sorted.amInsert _ _
  · intro x hx
    rw [h2] at hx
    rcases mem_amInsert_sorted hsrt.nodes_sorted hx with ⟨_, h2'⟩ | ⟨_, hx'⟩
    · rw [h2', hp]; exact hsrt.procs_sorted _ hnmem
    · exact hsrt.procs_sorted _ hx'

/-- the processes located on a node are the processes of that node -/
theorem onNode_iff {s : McSys σ} (ht : WFTopo s) {node : Nat} {n : McNode σ}
    (hn : amGet? node s.nodes = some n) (q : Nat) :
    (amGet? q s.net.procLoc == some node) = (n.procs.map (·.1)).contains q := by
  rw [Bool.eq_iff_iff]
  simp only [beq_iff_eq, List.contains_eq_mem, decide_eq_true_eq]
  constructor
  · intro hq
    obtain ⟨n0, hn0, hq0⟩ := ht.proc_of_loc q node hq
    rw [hn] at hn0
    simp only [Option.some.injEq] at hn0
    subst hn0
    exact amGet?_isSome_iff.mp hq0
  · intro hq
    obtain ⟨pe, hpe, rfl⟩ := List.mem_map.mp hq
    exact ht.loc_of_proc _ (amGet?_eq_some_mem hn) _ hpe

theorem any_touches_msg (P : List Nat) (m : Msg) (src dst : Nat) (o : Opts) :
    P.any (fun p => Store.touches p (.msg m src dst o)) = (P.contains src || P.contains dst) := by
  rw [Bool.eq_iff_iff]
  simp only [List.any_eq_true, Store.touches, Bool.or_eq_true, beq_iff_eq, List.contains_eq_mem,
    decide_eq_true_eq]
  constructor
  · rintro ⟨p, hp, h | h⟩
    · left; rw [h]; exact hp
    · right; rw [h]; exact hp
  · rintro (h | h)
    · exact ⟨src, h, Or.inl rfl⟩
    · exact ⟨dst, h, Or.inr rfl⟩

theorem any_touches_timer (P : List Nat) (q nm d : Nat) :
    P.any (fun p => Store.touches p (.timer q nm d)) = P.contains q := by
  rw [Bool.eq_iff_iff]
  simp only [List.any_eq_true, Store.touches, beq_iff_eq, List.contains_eq_mem, decide_eq_true_eq]
  constructor
  · rintro ⟨p, hp, h⟩; rw [h]; exact hp
  · intro h; exact ⟨q, h, rfl⟩

/-! ## the crash -/

theorem crashNode_eq {s : McSys σ} {node : Nat} {n : McNode σ} {st : Store} {tr : List LogE}
    (hn : amGet? node s.nodes = some n)
    (hgo : McSys.crashNode.go {} (n.procs.map (·.1)) s.events [] = .ok (st, tr)) :
    s.crashNode {} node = .ok { s with events := st, net := s.net.disconnectNode node,
                                       trace := s.trace ++ [LogE.crashed node] ++ tr,
                                       nodes := amInsert natLt node { n with crashed := true } s.nodes } := by
  simp only [McSys.crashNode, McSys.nodeOf, hn, hgo]

theorem crashNode_ok_node {s s' : McSys σ} {node : Nat} (hok : s.crashNode {} node = .ok s') :
    ∃ n, amGet? node s.nodes = some n := by
  simp only [McSys.crashNode, McSys.nodeOf] at hok
  cases hn : amGet? node s.nodes with
  | none => simp [hn] at hok
  | some n => exact ⟨n, rfl⟩

theorem procCrashed_crash (r : RState σ) (node : Nat) (order : List Flight) (q : Nat) :
    (r.crashNode node order).procCrashed q =
      (r.procCrashed q || (amGet? q r.net.procLoc == some node)) := by
  simp only [RState.procCrashed, RState.crashNode, McNet.disconnectNode, McNet.dropOutgoingOn,
    McNet.dropIncomingOn]
  cases hq : amGet? q r.net.procLoc with
  | none => simp
  | some nd =>
    rw [Bool.eq_iff_iff]
    simp only [List.contains_eq_mem, mem_setInsert, decide_eq_true_eq, Bool.or_eq_true, beq_iff_eq,
      Option.some.injEq]
    exact or_comm

theorem Sim'.crashNode {s s' : McSys σ} {r : RState σ} (hs : Sim' s r) (node : Nat)
    (hok : s.crashNode {} node = .ok s') :
    ∃ order, order.Perm (r.lostOnCrash node) ∧ Sim' s' (r.crashNode node order) := by
  obtain ⟨a, hw⟩ := hs
  obtain ⟨n, hn⟩ := crashNode_ok_node hok
  have hnmem := amGet?_eq_some_mem hn
  have hnd := hw.core.rep.inv.nodup
  obtain ⟨st', order, hgo, hrep', hperm⟩ := crash_go (n.procs.map (·.1)) [] hw.core.rep
  simp only [List.nil_append] at hgo
  rw [crashNode_eq hn hgo] at hok
  simp only [Except.ok.injEq] at hok
  subst hok
  -- the predicate "is on the node"
  have hon : ∀ q, (amGet? q r.net.procLoc == some node) = (n.procs.map (·.1)).contains q := by
    intro q; rw [hw.core.net]; exact onNode_iff hw.core.topo hn q
  refine ⟨order, ?_, _, ⟨⟨?_, ?_, hrep', ?_, ?_, ?_, ?_, ?_, ?_, ?_, ?_⟩, ?_, ?_, ?_⟩⟩
  · -- the order is a permutation of the lost flights
    refine hperm.trans (List.Perm.of_eq ?_)
    simp only [RState.lostOnCrash, hw.core.flights, flightsOf]
    apply filterMap_filter_of
    intro x _ f hf
    obtain ⟨id, ev⟩ := x
    cases ev <;> simp at hf
    subst hf
    simp only [any_touches_msg, hon]
  · exact hw.core.topo.replace_node (n2 := { n with crashed := true }) hw.core.sorted hn rfl rfl rfl
  · exact hw.core.sorted.replace_node (n2 := { n with crashed := true }) hn rfl rfl
  · -- flights
    simp only [RState.crashNode, hw.core.flights, flightsOf]
    symm
    apply filterMap_filter_of
    intro x _ f hf
    obtain ⟨id, ev⟩ := x
    cases ev <;> simp at hf
    subst hf
    simp only [any_touches_msg, hon]
  · -- timers
    simp only [RState.crashNode, hw.core.timers, timersOf]
    symm
    apply filterMap_filter_of
    intro x _ t ht
    obtain ⟨id, ev⟩ := x
    cases ev <;> simp at ht
    subst ht
    simp only [any_touches_timer, hon]
  · -- crashed flags
    intro x hx
    simp only [RState.crashNode, mem_setInsert]
    rcases mem_amInsert_sorted hw.core.sorted.nodes_sorted hx with ⟨h1, h2⟩ | ⟨h1, hx'⟩
    · rw [h2]; simp [h1]
    · rw [hw.core.crashed x hx']
      simp [h1]
  · simp only [RState.crashNode, hw.core.net]
  · have hu := hw.core.uniq
    simp only [RState.timersUnique, RState.crashNode] at hu ⊢
    exact hu.filter _
  · intro id p name d hx
    exact hw.core.tm id p name d (List.mem_filter.mp hx).1
  · intro id m src dst o hx
    obtain ⟨hx1, hx2⟩ := List.mem_filter.mp hx
    obtain ⟨h1, h2⟩ := hw.core.clean_msg id m src dst o hx1
    simp only [any_touches_msg, Bool.not_eq_eq_eq_not, Bool.not_true, Bool.or_eq_false_iff] at hx2
    rw [procCrashed_crash, procCrashed_crash, h1, h2, hon, hon, hx2.1, hx2.2]
    simp
  · intro id p name d hx
    obtain ⟨hx1, hx2⟩ := List.mem_filter.mp hx
    have h1 := hw.core.clean_timer id p name d hx1
    simp only [any_touches_timer, Bool.not_eq_eq_eq_not, Bool.not_true] at hx2
    rw [procCrashed_crash, h1, hon, hx2]
    simp
  · -- processes
    simp only [RState.crashNode]
    rw [hw.procs]
    exact (procsOf_replace_node (n2 := { n with crashed := true }) hw.core.topo hw.core.sorted hn rfl rfl).symm
  · simp [RState.crashNode, hw.trace]
  · -- pending timers of the nodes alive
    intro x hx hc pe hpe name
    rcases mem_amInsert_sorted hw.core.sorted.nodes_sorted hx with ⟨_, h2⟩ | ⟨h1, hx'⟩
    · rw [h2] at hc; simp at hc
    · rw [hw.pend x hx' hc pe hpe name]
      have hloc := hw.core.topo.loc_of_proc x hx' pe hpe
      have hoff : (amGet? pe.1 r.net.procLoc == some node) = false := by
        rw [hw.core.net, hloc]
        simpa using h1
      simp only [RState.crashNode, RState.timerPending, List.any_filter]
      simp only [List.any_eq_true, Bool.and_eq_true, beq_iff_eq, Bool.not_eq_eq_eq_not, Bool.not_true]
      constructor
      · rintro ⟨t, ht, h3, h4⟩
        exact ⟨t, ht, by rw [h3]; exact hoff, h3, h4⟩
      · rintro ⟨t, ht, _, h3, h4⟩
        exact ⟨t, ht, h3, h4⟩

end Anysystem
