import Anysystem.Proofs.R2AddEvents
/-!
# Updating a process entry / a node: topology, `procsOf`, the store-level relation
-/
set_option linter.unusedSimpArgs false
namespace Anysystem

variable {σ : Type}

/-- membership in a sorted map after `amInsert` -/
theorem mem_amInsert_sorted {β : Type} {k : Nat} {v : β} {l : List (Nat × β)} (hs : KSorted l)
    {x : Nat × β} (hx : x ∈ amInsert natLt k v l) :
    (x.1 = k ∧ x.2 = v) ∨ (x.1 ≠ k ∧ x ∈ l) := by
  have hsorted := hs.amInsert k v
  have hg : amGet? x.1 (amInsert natLt k v l) = some x.2 :=
    amGet?_of_mem_nodup hsorted.nodup hx
  rw [amGet?_amInsert] at hg
  by_cases hk : x.1 = k
  · left
    simp only [hk, ↓reduceIte, Option.some.injEq] at hg
    exact ⟨hk, hg.symm⟩
  · right
    simp only [hk, ↓reduceIte] at hg
    exact ⟨hk, amGet?_eq_some_mem hg⟩

theorem flatMap_congr' {α β : Type} {f g : α → List β} {l : List α} (h : ∀ x ∈ l, f x = g x) :
    l.flatMap f = l.flatMap g := by
  induction l with
  | nil => rfl
  | cons x xs ih =>
    simp only [List.flatMap_cons]
    rw [h x List.mem_cons_self, ih (fun y hy => h y (List.mem_cons_of_mem _ hy))]

/-- the node map after the entry of `p` on node `nd` was replaced -/
def updNodes (s : McSys σ) (nd : Nat) (n : McNode σ) (p : Nat) (e2 : ProcEntry σ) :
    List (Nat × McNode σ) :=
  amInsert natLt nd { n with procs := amInsert natLt p e2 n.procs } s.nodes

/-- the node map after a node was replaced by one with the same processes -/
theorem mem_updNodes {s : McSys σ} (hsrt : SortedTopo s) {nd : Nat} {n : McNode σ} {p : Nat}
    {e2 : ProcEntry σ} {x : Nat × McNode σ} (hx : x ∈ updNodes s nd n p e2) :
    (x.1 = nd ∧ x.2 = { n with procs := amInsert natLt p e2 n.procs }) ∨ (x.1 ≠ nd ∧ x ∈ s.nodes) :=
  mem_amInsert_sorted hsrt.nodes_sorted hx

theorem keys_amInsert_present {β : Type} {k : Nat} {v v' : β} {l : List (Nat × β)} (hs : KSorted l)
    (hg : amGet? k l = some v) : (amInsert natLt k v' l).map (·.1) = l.map (·.1) := by
  rw [amInsert_natLt_replace k v v' l hs hg, keys_map_update]

theorem procsOf_update {s s2 : McSys σ} (ht : WFTopo s) (hsrt : SortedTopo s) {nd p : Nat}
    {n : McNode σ} {e e2 : ProcEntry σ} (hn : amGet? nd s.nodes = some n)
    (he : amGet? p n.procs = some e) (h2 : s2.nodes = updNodes s nd n p e2) :
    procsOf s2 = (procsOf s).map (fun x => if x.1 = p then (p, ⟨e2.st, e2.outbox⟩) else x) := by
  have hnmem := amGet?_eq_some_mem hn
  have hps := hsrt.procs_sorted _ hnmem
  simp only [procsOf, h2, updNodes]
  rw [amInsert_natLt_replace nd n _ s.nodes hsrt.nodes_sorted hn,
    amInsert_natLt_replace p e e2 n.procs hps he]
  rw [List.flatMap_map, List.map_flatMap]
  apply flatMap_congr'
  intro x hx
  by_cases hxn : x.1 = nd
  · have hx2 : x.2 = n := by
      have := amGet?_of_mem_nodup ht.nodes_nodup (k := x.1) (v := x.2) hx
      rw [hxn, hn] at this
      simpa using this.symm
    simp only [hxn, ↓reduceIte, hx2, List.map_map]
    apply List.map_congr_left
    intro y _
    simp only [Function.comp]
    split <;> simp_all
  · simp only [hxn, ↓reduceIte, List.map_map]
    apply List.map_congr_left
    intro y hy
    have hne : ¬ y.1 = p := by
      intro hyp
      apply hxn
      have := proc_node_unique ht hx hnmem hy (amGet?_eq_some_mem he) hyp
      exact this
    simp [Function.comp, hne]

theorem WFTopo.update {s s2 : McSys σ} (ht : WFTopo s) (hsrt : SortedTopo s) {nd p : Nat}
    {n : McNode σ} {e e2 : ProcEntry σ} (hn : amGet? nd s.nodes = some n)
    (he : amGet? p n.procs = some e) (h2 : s2.nodes = updNodes s nd n p e2)
    (hl : s2.net.procLoc = s.net.procLoc) : WFTopo s2 := by
  have hnmem := amGet?_eq_some_mem hn
  have hps := hsrt.procs_sorted _ hnmem
  refine ⟨?_, ?_, ?_, ?_⟩
  · rw [h2, updNodes, keys_amInsert_present hsrt.nodes_sorted hn]
    exact ht.nodes_nodup
  · rw [procsOf_update ht hsrt hn he h2, keys_map_update]
    exact ht.procs_nodup
  · intro x hx pe hpe
    rw [h2] at hx
    rw [hl]
    rcases mem_updNodes hsrt hx with ⟨h1, h2'⟩ | ⟨_, hx'⟩
    · rw [h2'] at hpe
      simp only at hpe
      rcases mem_amInsert_sorted hps hpe with ⟨hk, _⟩ | ⟨_, hpe'⟩
      · rw [hk, h1]
        exact ht.loc_of_proc _ hnmem _ (amGet?_eq_some_mem he)
      · rw [h1]
        exact ht.loc_of_proc _ hnmem _ hpe'
    · exact ht.loc_of_proc _ hx' _ hpe
  · intro q nn hq
    rw [hl] at hq
    obtain ⟨n0, hn0, hq0⟩ := ht.proc_of_loc q nn hq
    rw [h2, updNodes]
    simp only [amGet?_amInsert]
    by_cases hnn : nn = nd
    · subst hnn
      rw [hn] at hn0
      simp only [Option.some.injEq] at hn0
      subst hn0
      refine ⟨{ n with procs := amInsert natLt p e2 n.procs }, by simp, ?_⟩
      simp only [amGet?_amInsert]
      split
      · rfl
      · exact hq0
    · exact ⟨n0, by simp [hnn, hn0], hq0⟩

theorem SortedTopo.update {s s2 : McSys σ} (hsrt : SortedTopo s) {nd p : Nat}
    {n : McNode σ} {e2 : ProcEntry σ} (hn : amGet? nd s.nodes = some n)
    (h2 : s2.nodes = updNodes s nd n p e2) : SortedTopo s2 := by
  have hnmem := amGet?_eq_some_mem hn
  have hps := hsrt.procs_sorted _ hnmem
  refine ⟨?_, ?_⟩
  · rw [h2]; exact hsrt.nodes_sorted.amInsert _ _
  · intro x hx
    rw [h2] at hx
    rcases mem_updNodes hsrt hx with ⟨_, h2'⟩ | ⟨_, hx'⟩
    · rw [h2']; exact hps.amInsert _ _
    · exact hsrt.procs_sorted _ hx'

/-- replacing a process entry does not disturb the store-level relation -/
theorem SimS.update_node {s s2 : McSys σ} {r r2 : RState σ} {a : AStore} (hs : SimS s r a) {nd p : Nat}
    {n : McNode σ} {e e2 : ProcEntry σ} (hn : amGet? nd s.nodes = some n)
    (he : amGet? p n.procs = some e) (h2 : s2.nodes = updNodes s nd n p e2)
    (hnet : s2.net = s.net) (hev : s2.events = s.events)
    (hrnet : r2.net = r.net) (hcr : r2.crashedNodes = r.crashedNodes)
    (hfl : r2.flights = r.flights) (htm : r2.timers = r.timers) : SimS s2 r2 a where
  topo := hs.topo.update hs.sorted hn he h2 (by rw [hnet])
  sorted := hs.sorted.update hn h2
  rep := by rw [hev]; exact hs.rep
  flights := by rw [hfl]; exact hs.flights
  timers := by rw [htm]; exact hs.timers
  crashed := by
    intro x hx
    rw [h2] at hx
    rw [hcr]
    rcases mem_updNodes hs.sorted hx with ⟨h1, h2'⟩ | ⟨_, hx'⟩
    · rw [h2', h1]
      exact hs.crashed _ (amGet?_eq_some_mem hn)
    · exact hs.crashed _ hx'
  net := by rw [hrnet, hnet]; exact hs.net
  uniq := by
    have := hs.uniq
    simp only [RState.timersUnique, htm] at this ⊢
    exact this
  tm := hs.tm
  clean_msg := by
    intro id m src dst o hx
    have hc : ∀ q, r2.procCrashed q = r.procCrashed q := procCrashed_congr (by rw [hrnet]) hcr
    rw [hc, hc]
    exact hs.clean_msg id m src dst o hx
  clean_timer := by
    intro id p' name d hx
    have hc : ∀ q, r2.procCrashed q = r.procCrashed q := procCrashed_congr (by rw [hrnet]) hcr
    rw [hc]
    exact hs.clean_timer id p' name d hx

end Anysystem
