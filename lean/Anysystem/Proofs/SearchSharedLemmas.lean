import Anysystem.Proofs.SearchThmsOn
/-!
# One run of the generic search from an arbitrary (non-fresh) accumulator

Helper material for `SearchShared.lean`: what a run adds to `evald` (whatever its result), what an Ok run
guarantees on top of a closed cache (`BInv`) or with the cache disabled (`ClosedD`), and the fact that a run does
not look at the `evald`/`collected`/`statuses` it is handed (`AccSim`): the model checker's `run_from_states` hands
every run an accumulator with the shared cache but an empty `evald`, `searchMany` threads the whole accumulator.
-/
set_option linter.unusedSectionVars false

namespace Anysystem

variable {σ κ : Type} [DecidableEq κ]

theorem ReachC.trans {S : TSys σ κ} {a b c : σ} (h1 : ReachC S a b) (h2 : ReachC S b c) : ReachC S a c := by
  induction h2 with
  | refl => exact h1
  | step _ hv hs hm ih => exact ReachC.step ih hv hs hm

/-! ## what one run adds to `evald`, whatever its result -/

theorem dfs_ext (S : TSys σ κ) (s₀ : σ) (base : List σ) (n : Nat) (s : σ) (a : Acc σ κ) (r : Res σ) (a' : Acc σ κ)
    (h : dfs S n s a = some (r, a')) (hs : ReachC S s₀ s)
    (ha : ∃ new, a.evald = base ++ new ∧ ∀ e ∈ new, ReachC S s₀ e) :
    ∃ new, a'.evald = base ++ new ∧ ∀ e ∈ new, ReachC S s₀ e := by
  refine (dfs_inv_rule S (ReachC S s₀) (fun a => ∃ new, a.evald = base ++ new ∧ ∀ e ∈ new, ReachC S s₀ e)
    (fun _ a => ∃ new, a.evald = base ++ new ∧ ∀ e ∈ new, ReachC S s₀ e) ?_ ?_ ?_ ?_ n).1 s a r a' h hs ha
  · intro s cs c hs hv hsucc hc
    exact ReachC.step hs hv hsucc hc
  · intro a c h _ _; exact h
  · rintro a s ⟨new, h1, h2⟩ hs
    refine ⟨new ++ [s], by rw [check_evald, h1, List.append_assoc], ?_⟩
    intro e he
    rcases List.mem_append.mp he with he | he
    · exact h2 e he
    · simp only [List.mem_singleton] at he; subst he; exact hs
  · intro a s h; exact h

/-- the BFS loop invariant for "what this run adds": `base` is what was evaluated before the run -/
def BExt (S : TSys σ κ) (s₀ : σ) (base : List σ) (mode : CacheMode) (q : List σ) (a : Acc σ κ) : Prop :=
  ∃ new, a.evald = base ++ new ∧ (∀ e ∈ new, ReachC S s₀ e) ∧ (∀ x ∈ q, ReachC S s₀ x) ∧
    (s₀ ∈ new ∨ s₀ ∈ q) ∧ a.cache.mode = mode

theorem BExt.mode {S : TSys σ κ} {s₀ : σ} {base : List σ} {mode : CacheMode} {q : List σ} {a : Acc σ κ}
    (h : BExt S s₀ base mode q a) : a.cache.mode = mode := by
  obtain ⟨_, _, _, _, _, h5⟩ := h; exact h5

theorem BExt.head {S : TSys σ κ} {s₀ : σ} {base : List σ} {mode : CacheMode} {s : σ} {q : List σ} {a : Acc σ κ}
    (h : BExt S s₀ base mode (s :: q) a) : ReachC S s₀ s := by
  obtain ⟨_, _, _, h3, _, _⟩ := h; exact h3 s (List.mem_cons_self ..)

theorem BExt.next {S : TSys σ κ} {s₀ : σ} {base : List σ} {mode : CacheMode} {s : σ} {q : List σ} {a : Acc σ κ}
    (h : BExt S s₀ base mode (s :: q) a) (b : Acc σ κ) (hev : b.evald = a.evald ++ [s]) (hmode : b.cache.mode = mode)
    (q' : List σ) (hq' : ∀ x ∈ q', ReachC S s₀ x) (hsub : ∀ x ∈ q, x ∈ q') : BExt S s₀ base mode q' b := by
  obtain ⟨new, h1, h2, h3, h4, _⟩ := h
  refine ⟨new ++ [s], by rw [hev, h1, List.append_assoc], ?_, hq', ?_, hmode⟩
  · intro e he
    rcases List.mem_append.mp he with he | he
    · exact h2 e he
    · simp only [List.mem_singleton] at he; subst he; exact h3 _ (List.mem_cons_self ..)
  · rcases h4 with h4 | h4
    · exact Or.inl (List.mem_append_left _ h4)
    · rcases List.mem_cons.mp h4 with rfl | h4
      · exact Or.inl (by simp)
      · exact Or.inr (hsub _ h4)

theorem bfs_ext (S : TSys σ κ) (s₀ : σ) (base : List σ) (mode : CacheMode) (n : Nat) (q : List σ) (a : Acc σ κ)
    (r : Res σ) (a' : Acc σ κ) (h : bfsLoop S n q a = some (r, a')) (hI : BExt S s₀ base mode q a) :
    ∃ new, a'.evald = base ++ new ∧ (∀ e ∈ new, ReachC S s₀ e) ∧ a'.cache.mode = mode ∧ (r = .ok → s₀ ∈ new) := by
  have hfin : ∀ (q : List σ) (b : Acc σ κ) (r : Res σ), r ≠ .ok → BExt S s₀ base mode q b →
      ∃ new, b.evald = base ++ new ∧ (∀ e ∈ new, ReachC S s₀ e) ∧ b.cache.mode = mode ∧ (r = .ok → s₀ ∈ new) := by
    rintro q b r hr ⟨new, h1, h2, _, _, h5⟩
    exact ⟨new, h1, h2, h5, fun h => absurd h hr⟩
  have htail : ∀ (s : σ) (q : List σ) (a : Acc σ κ), BExt S s₀ base mode (s :: q) a → ∀ x ∈ q, ReachC S s₀ x := by
    rintro s q a ⟨_, _, _, h3, _⟩ x hx
    exact h3 x (List.mem_cons_of_mem _ hx)
  refine bfs_rule S (I := BExt S s₀ base mode)
    (F := fun r a => ∃ new, a.evald = base ++ new ∧ (∀ e ∈ new, ReachC S s₀ e) ∧ a.cache.mode = mode ∧
      (r = .ok → s₀ ∈ new)) ?_ ?_ ?_ ?_ ?_ n q a r a' hI h
  · rintro a ⟨new, h1, h2, _, h4, h5⟩
    refine ⟨new, h1, h2, h5, fun _ => ?_⟩
    rcases h4 with h4 | h4
    · exact h4
    · simp at h4
  · intro s q a msg hI _
    have hm : a.cache.mode = mode := hI.mode
    exact hfin q _ _ (by simp)
      (hI.next _ (check_evald S a s) (by rw [check_cache]; exact hm) q (htail s q a hI) (fun _ h => h))
  · intro s q a st hI _
    have hm : a.cache.mode = mode := hI.mode
    exact hI.next _ (check_evald S a s) (by rw [check_cache]; exact hm) q (htail s q a hI) (fun _ h => h)
  · intro s q a e hI _ _
    have hm : a.cache.mode = mode := hI.mode
    exact hfin q _ _ (by simp)
      (hI.next _ (check_evald S a s) (by rw [check_cache]; exact hm) q (htail s q a hI) (fun _ h => h))
  · intro s q a cs hI hv hs
    have hm : a.cache.mode = mode := hI.mode
    obtain ⟨added, h1, h2, h3⟩ := bfsEnqueue_sub S cs q a.cache
    refine hI.next { (a.check S s).1 with cache := (bfsEnqueue S cs q a.cache).2 } (check_evald S a s)
      (by show (bfsEnqueue S cs q a.cache).2.mode = mode; rw [h3]; exact hm) _ ?_ ?_
    · intro x hx
      rw [h1] at hx
      rcases List.mem_append.mp hx with hx | hx
      · exact htail s q a hI x hx
      · exact ReachC.step (hI.head) hv hs (h2 x hx)
    · intro x hx
      rw [h1]; exact List.mem_append_left _ hx

/-- one run from any accumulator: `evald` is extended by states reachable from the start state -/
theorem search_ext (S : TSys σ κ) (strat : Strat) (fuel : Nat) (s : σ) (a a' : Acc σ κ) (r : Res σ)
    (h : search S strat fuel s a = some (r, a')) :
    ∃ new, a'.evald = a.evald ++ new ∧ ∀ e ∈ new, ReachC S s e := by
  cases strat with
  | dfs =>
    exact dfs_ext S s a.evald fuel s _ r a' h ReachC.refl ⟨[], by simp, by simp⟩
  | bfs =>
    obtain ⟨new, h1, h2, _, _⟩ := bfs_ext S s a.evald a.cache.mode fuel [s] _ r a' h
      ⟨[], by simp, by simp, by simp [ReachC.refl], Or.inr (by simp), mark_mode S _ s⟩
    exact ⟨new, h1, h2⟩

/-! ## an Ok run on top of a closed exact cache -/

theorem binv_fresh (S : TSys σ κ) (mode : CacheMode) (hm : ExactCache S mode) :
    BInv S [] (Acc.fresh mode : Acc σ κ).cache (Acc.fresh mode : Acc σ κ).evald := by
  refine ⟨?_, ?_, ?_⟩
  · intro k hk
    exfalso
    unfold Marked at hk
    rcases hm with hm | ⟨hm, _⟩ <;> simp [Acc.fresh, hm] at hk
  · intro e he; simp [Acc.fresh] at he
  · intro e he; simp [Acc.fresh] at he

theorem search_ok_binv_from' (S : TSys σ κ) (strat : Strat) (fuel : Nat) (s : σ) (a a' : Acc σ κ)
    (hm : ExactCache S a.cache.mode) (hb : BInv S [] a.cache a.evald)
    (h : search S strat fuel s a = some (.ok, a')) :
    BInv S [] a'.cache a'.evald ∧ a'.cache.mode = a.cache.mode ∧ (∃ new, a'.evald = a.evald ++ new ∧ s ∈ new) := by
  have hm' : ExactCache S (a.cache.mark S s).mode := by rw [mark_mode]; exact hm
  cases strat with
  | dfs =>
    obtain ⟨new, h1, h2, h3, h4⟩ := (dfs_good S fuel).1 s _ _ _ h rfl hm'
    simp only at h1
    simp only [mark_mode] at h4
    refine ⟨?_, h4, new, h1, h2⟩
    rw [h1]
    refine ⟨?_, ?_, ?_⟩
    · intro k hk
      rcases h3.origin k hk with hk | ⟨e, he, hke⟩
      · rcases (marked_mark_iff S a.cache hm s k).1 hk with hk | rfl
        · rcases hb.origin k hk with ⟨e, he, hke⟩ | ⟨x, hx, _⟩
          · exact Or.inl ⟨e, List.mem_append_left _ he, hke⟩
          · simp at hx
        · exact Or.inl ⟨s, List.mem_append_right _ h2, rfl⟩
      · exact Or.inl ⟨e, List.mem_append_right _ he, hke⟩
    · intro e he
      rcases List.mem_append.mp he with he | he
      · exact hb.noFail e he
      · exact h3.noFail e he
    · intro e he hv cs hs x hx
      rcases List.mem_append.mp he with he | he
      · exact h3.mono _ (marked_mark_of_marked S _ _ _ (hb.closed e he hv cs hs x hx))
      · exact h3.closed e he hv cs hs x hx
  | bfs =>
    have hb0 : BInv S [s] (a.cache.mark S s) a.evald := by
      refine ⟨?_, hb.noFail, ?_⟩
      · intro k hk
        rcases (marked_mark_iff S a.cache hm s k).1 hk with hk | rfl
        · rcases hb.origin k hk with ⟨e, he, hke⟩ | ⟨x, hx, _⟩
          · exact Or.inl ⟨e, he, hke⟩
          · simp at hx
        · exact Or.inr ⟨s, by simp, rfl⟩
      · intro e he hv cs hs x hx
        exact marked_mark_of_marked S _ _ _ (hb.closed e he hv cs hs x hx)
    obtain ⟨hb', _⟩ := bfs_good S s fuel [s] _ a' h hm' hb0 (Or.inr (by simp))
    obtain ⟨new, h1, _, h3, h4⟩ := bfs_ext S s a.evald a.cache.mode fuel [s] _ .ok a' h
      ⟨[], by simp, by simp, by simp [ReachC.refl], Or.inr (by simp), mark_mode S _ s⟩
    exact ⟨hb', h3, new, h1, h4 rfl⟩

/-! ## an Ok run with the cache disabled, on top of a closed `evald` -/

theorem search_ok_closedD_from (S : TSys σ κ) (strat : Strat) (fuel : Nat) (s : σ) (a a' : Acc σ κ)
    (hm : a.cache.mode = .disabled) (hc : ClosedD S a.evald)
    (h : search S strat fuel s a = some (.ok, a')) :
    ClosedD S a'.evald ∧ s ∈ a'.evald ∧ a'.cache.mode = .disabled := by
  have hm' : (a.cache.mark S s).mode = .disabled := by rw [mark_mode]; exact hm
  cases strat with
  | dfs =>
    obtain ⟨new, h1, h2, h3, h4⟩ := (dfs_closedD S fuel).1 s _ _ _ h rfl hm'
    simp only at h1
    rw [h1]
    exact ⟨hc.append h3, List.mem_append_right _ h2, h4⟩
  | bfs =>
    obtain ⟨h1, h2⟩ := bfs_closedD S s fuel [s] _ a' h hm'
      (fun e he => ⟨(hc e he).1, fun hv cs hs c hcm => Or.inl ((hc e he).2 hv cs hs c hcm)⟩) (Or.inr (by simp))
    obtain ⟨_, _, _, h3, _⟩ := bfs_ext S s a.evald .disabled fuel [s] _ .ok a' h
      ⟨[], by simp, by simp, by simp [ReachC.refl], Or.inr (by simp), hm'⟩
    exact ⟨h1, h2, h3⟩

/-! ## a run does not look at the `evald`, `collected` and `statuses` it is handed -/

/-- same cache, and `a` has evaluated `P` before what `b` has evaluated -/
def AccSim (P : List σ) (a b : Acc σ κ) : Prop := a.cache = b.cache ∧ a.evald = P ++ b.evald

def ResSim (P : List σ) : Option (Res σ × Acc σ κ) → Option (Res σ × Acc σ κ) → Prop
  | none, none => True
  | some (r, a), some (r', b) => r = r' ∧ AccSim P a b
  | _, _ => False

theorem AccSim.check {P : List σ} {a b : Acc σ κ} (S : TSys σ κ) (s : σ) (h : AccSim P a b) :
    AccSim P (a.check S s).1 (b.check S s).1 := by
  refine ⟨by rw [check_cache, check_cache]; exact h.1, ?_⟩
  rw [check_evald, check_evald, h.2, List.append_assoc]

theorem AccSim.withCache {P : List σ} {a b : Acc σ κ} (h : AccSim P a b) (c : Cache κ) :
    AccSim P { a with cache := c } { b with cache := c } := ⟨rfl, h.2⟩

theorem dfs_succ_eq (S : TSys σ κ) (n : Nat) (s : σ) (a : Acc σ κ) :
    dfs S (n + 1) s a =
      match S.succ s with
      | .error e => some (.panic e, a)
      | .ok cs =>
        match S.verdict s with
        | .fail msg => some (.err msg s, (a.check S s).1)
        | .stop _ => some (.ok, (a.check S s).1)
        | .cont => dfsChildren S n cs (a.check S s).1 := by
  simp only [dfs]
  cases S.succ s with
  | error e => rfl
  | ok cs =>
    simp only
    have hv := check_snd S a s
    cases hv' : S.verdict s <;> rw [hv'] at hv <;> simp only [hv]

theorem bfsLoop_succ_cons_eq (S : TSys σ κ) (n : Nat) (s : σ) (q : List σ) (a : Acc σ κ) :
    bfsLoop S (n + 1) (s :: q) a =
      match S.verdict s with
      | .fail msg => some (.err msg s, (a.check S s).1)
      | .stop _ => bfsLoop S n q (a.check S s).1
      | .cont =>
        match S.succ s with
        | .error e => some (.panic e, (a.check S s).1)
        | .ok cs => bfsLoop S n (bfsEnqueue S cs q a.cache).1
            { (a.check S s).1 with cache := (bfsEnqueue S cs q a.cache).2 } := by
  simp only [bfsLoop]
  have hv := check_snd S a s
  cases hv' : S.verdict s with
  | fail msg => rw [hv'] at hv; simp only [hv]
  | stop st => rw [hv'] at hv; simp only [hv]
  | cont =>
    rw [hv'] at hv
    simp only [hv]
    cases S.succ s with
    | error e => rfl
    | ok cs => simp only [check_cache]

theorem dfs_sim (S : TSys σ κ) (P : List σ) :
    ∀ n, (∀ s a b, AccSim P a b → ResSim P (dfs S n s a) (dfs S n s b)) ∧
         (∀ cs a b, AccSim P a b → ResSim P (dfsChildren S n cs a) (dfsChildren S n cs b)) := by
  intro n
  induction n with
  | zero =>
    constructor
    · intro s a b _; simp [dfs, ResSim]
    · intro cs a b h
      cases cs with
      | nil => simp only [dfsChildren]; exact ⟨rfl, h⟩
      | cons c cs => simp [dfsChildren, ResSim]
  | succ n ih =>
    obtain ⟨ihd, ihc⟩ := ih
    constructor
    · intro s a b h
      rw [dfs_succ_eq, dfs_succ_eq]
      cases S.succ s with
      | error e => exact ⟨rfl, h⟩
      | ok cs =>
        simp only
        cases S.verdict s with
        | fail msg => exact ⟨rfl, h.check S s⟩
        | stop st => exact ⟨rfl, h.check S s⟩
        | cont => exact ihc cs _ _ (h.check S s)
    · intro cs a b h
      cases cs with
      | nil => simp only [dfsChildren]; exact ⟨rfl, h⟩
      | cons c cs =>
        simp only [dfsChildren]
        rw [← h.1]
        cases a.cache.has S c with
        | true => simp only [if_true]; exact ihc cs a b h
        | false =>
          simp only [Bool.false_eq_true, if_false]
          have hd := ihd c { a with cache := a.cache.mark S c } { b with cache := a.cache.mark S c }
            (h.withCache _)
          revert hd
          cases dfs S n c { a with cache := a.cache.mark S c } with
          | none =>
            cases dfs S n c { b with cache := a.cache.mark S c } with
            | none => intro _; trivial
            | some v => intro hd; exact hd.elim
          | some v =>
            obtain ⟨r1, a1⟩ := v
            cases dfs S n c { b with cache := a.cache.mark S c } with
            | none => intro hd; exact hd.elim
            | some w =>
              obtain ⟨r2, b1⟩ := w
              rintro ⟨rfl, hs⟩
              cases r1 with
              | ok => exact ihc cs a1 b1 hs
              | err msg e => exact ⟨rfl, hs⟩
              | panic msg => exact ⟨rfl, hs⟩

theorem bfs_sim (S : TSys σ κ) (P : List σ) :
    ∀ n q a b, AccSim P a b → ResSim P (bfsLoop S n q a) (bfsLoop S n q b) := by
  intro n
  induction n with
  | zero => intro q a b _; simp [bfsLoop, ResSim]
  | succ n ih =>
    intro q a b h
    cases q with
    | nil => simp only [bfsLoop]; exact ⟨rfl, h⟩
    | cons s q =>
      rw [bfsLoop_succ_cons_eq, bfsLoop_succ_cons_eq, ← h.1]
      cases S.verdict s with
      | fail msg => exact ⟨rfl, h.check S s⟩
      | stop st => exact ih q _ _ (h.check S s)
      | cont =>
        simp only
        cases S.succ s with
        | error e => exact ⟨rfl, h.check S s⟩
        | ok cs => exact ih _ _ _ ((h.check S s).withCache _)

theorem search_sim (S : TSys σ κ) (P : List σ) (strat : Strat) (fuel : Nat) (s : σ) (a b : Acc σ κ)
    (h : AccSim P a b) : ResSim P (search S strat fuel s a) (search S strat fuel s b) := by
  have h0 : AccSim P { a with cache := a.cache.mark S s } { b with cache := b.cache.mark S s } := by
    rw [← h.1]; exact h.withCache _
  cases strat with
  | dfs => exact (dfs_sim S P fuel).1 s _ _ h0
  | bfs => exact bfs_sim S P fuel [s] _ _ h0

/-- a run from the small accumulator `b` is also a run from the big one, with `P` in front of what is evaluated -/
theorem search_of_sim (S : TSys σ κ) (P : List σ) (strat : Strat) (fuel : Nat) (s : σ) (a b b' : Acc σ κ) (r : Res σ)
    (h : AccSim P a b) (hb : search S strat fuel s b = some (r, b')) :
    ∃ a', search S strat fuel s a = some (r, a') ∧ AccSim P a' b' := by
  have := search_sim S P strat fuel s a b h
  rw [hb] at this
  cases ha : search S strat fuel s a with
  | none => rw [ha] at this; exact this.elim
  | some v =>
    obtain ⟨r1, a1⟩ := v
    rw [ha] at this
    obtain ⟨rfl, hs⟩ := this
    exact ⟨a1, rfl, hs⟩

end Anysystem
