import Anysystem.Proofs.SimTraceInv
import Anysystem.Proofs.SimRunLemmas
/-!
# C08 / C05 — whole-run facts about crashed nodes and about where received messages come from

* **a crashed node is silent** (C08): while a node has no handler (from `crash_node` until `recover_node`) no step records a
  handler invocation on it (no message receipt, timer firing or local-message receipt in the global trace) and the states,
  logs, counters and outboxes of its processes do not change;
* **origin of received messages** (C05): every queued copy and every `MessageReceived` entry of the global trace stems from
  an earlier `MessageSent` entry with the same identifier and endpoints, carrying the payload that was sent or its canonical
  corruption — and exactly the payload that was sent when both processes live on one node.

The trace-entry classifier `SLog.handledOn` ("the entry records a handler invocation on node `n`": `recv` with destination
node `n`, `timerFired` / `localRecv` on node `n`) is defined in `SimRunLemmas.lean`, together with the step relations
`Quiet` (silence of a node) and `OStep` (origin) that are carried through `sendMessage` → `handleActions` → `runHandler` →
`onMessage / onTimer / onLocal` → `deliver` → `step` → `steps`.

Changes with respect to the statements as first written (all forced, see the counterexample below):
* `TraceOrigin.queued` additionally says `e.dst = dn`: a queued message copy is addressed to the node its data names;
* hypothesis `hq` of `received_intact_no_corruption` additionally says `e.dst = dn`.
`deliver` hands a popped message event to `onMessage` with `n := e.dst`, and the `recv` entry is logged with destination
node `e.dst`, whereas the `sent` entry (and the event's data) name `dn`.  Without `e.dst = dn`, `TraceOrigin.step` and
`received_intact_no_corruption` are false: take a state with handlers `[5]`, node 5 holding process 2, empty trace apart from
`sent t 0 0 1 7 2 m`, and the single queued event `⟨0, t, 0, 5, .msg 0 m 1 0 2 7⟩` (`dst = 5`, `dn = 7`); it satisfies the
original `TraceOrigin` (and `hq`, `hr`), one step logs `recv t 0 0 1 5 2 m`, and no `sent` entry with destination node 5
exists (machine-checked at the end of this file: `Sim.RunDemo.cex`, and the two `example`s refuting the original
`TraceOrigin.step` and `received_intact_no_corruption`).  `sendMessage` always queues copies with `dst := dn`, so the
clause holds in every reachable state.
-/
namespace Anysystem

set_option linter.unusedSectionVars false

variable {σ T : Type} [TimeOps T]

namespace Sim

/-- `crash_node` removes the handler -/
theorem crashNode_no_handler (s s' : Sim σ T) (n : Nat) (h : s.crashNode n = .ok s') : n ∉ s'.handlers :=
  (crashNode_cancels s s' n h).2.1

/-- one step while node `n` has no handler: still no handler, no handler invocation on `n` is recorded, the node's
    processes are untouched -/
theorem step_crashed_silent (h : SHandler σ T) (s s' : Sim σ T) (b : Bool) (n : Nat) (hn : n ∉ s.handlers)
    (hok : s.step h = .ok (b, s')) :
    n ∉ s'.handlers ∧ (∃ ext, s'.trace = s.trace ++ ext ∧ ∀ x ∈ ext, x.handledOn n = false) ∧
      amGet? n s'.nodes = amGet? n s.nodes := by
  have hq := step_quiet h b n hn hok
  exact ⟨by rw [hq.handlers]; exact hn, hq.trace, hq.node⟩

/-- the same along a whole run of steps -/
theorem steps_crashed_silent (h : SHandler σ T) (k : Nat) (s s' : Sim σ T) (b : Bool) (n : Nat) (hn : n ∉ s.handlers)
    (hok : s.steps h k = .ok (b, s')) :
    n ∉ s'.handlers ∧ (∃ ext, s'.trace = s.trace ++ ext ∧ ∀ x ∈ ext, x.handledOn n = false) ∧
      amGet? n s'.nodes = amGet? n s.nodes := by
  have hq := steps_quiet h k b n hn hok
  exact ⟨by rw [hq.handlers]; exact hn, hq.trace, hq.node⟩

/-- … and `send_local_message` to a process of a crashed node is refused (an error, nothing changes) -/
theorem sendLocal_crashed_refused (h : SHandler σ T) (s : Sim σ T) (p n : Nat) (m : Msg) (nd : SNode σ T)
    (hp : amGet? p s.procNodes = some n) (hnd : amGet? n s.nodes = some nd) (hc : nd.crashed = true) :
    ∃ e, s.sendLocal h p m = .error e :=
  ⟨"Cannot send local message to process on crashed node", by simp [Sim.sendLocal, hp, nodeOf, hnd, hc]⟩

/-- every queued message copy and every receipt stems from a logged send -/
structure TraceOrigin (s : Sim σ T) : Prop where
  queued : ∀ e ∈ s.events, ∀ mid m src sn dst dn, e.data = .msg mid m src sn dst dn →
    e.dst = dn ∧
    ∃ t m0, SLog.sent t mid sn src dn dst m0 ∈ s.trace ∧ (m = m0 ∨ (sn ≠ dn ∧ m = corruptSim m0))
  received : ∀ t mid sn src dn dst m, SLog.recv t mid sn src dn dst m ∈ s.trace →
    ∃ t0 m0, SLog.sent t0 mid sn src dn dst m0 ∈ s.trace ∧ (m = m0 ∨ (sn ≠ dn ∧ m = corruptSim m0))
  dropped : ∀ t mid sn src dn dst m, SLog.dropped t mid sn src dn dst m ∈ s.trace →
    ∃ t0 m0, SLog.sent t0 mid sn src dn dst m0 ∈ s.trace ∧ (m = m0 ∨ (sn ≠ dn ∧ m = corruptSim m0))

/-- `TraceOrigin` is the queue invariant plus the trace invariant of `SimRunLemmas.lean`, with corruption admissible -/
theorem traceOrigin_iff (s : Sim σ T) : s.TraceOrigin ↔ QOk true s ∧ TrOk true s := by
  constructor
  · intro hi
    refine ⟨?_, ?_⟩
    · intro e he mid m src sn dst dn hd
      obtain ⟨h1, h2⟩ := hi.queued e he mid m src sn dst dn hd
      exact ⟨h1, (org_true_iff _ _ _ _ _ _ _).2 h2⟩
    · intro x hx
      cases x with
      | recv t mid sn src dn dst m => exact (org_true_iff _ _ _ _ _ _ _).2 (hi.received t mid sn src dn dst m hx)
      | dropped t mid sn src dn dst m => exact (org_true_iff _ _ _ _ _ _ _).2 (hi.dropped t mid sn src dn dst m hx)
      | _ => trivial
  · rintro ⟨hq, ht⟩
    refine ⟨?_, ?_, ?_⟩
    · intro e he mid m src sn dst dn hd
      obtain ⟨h1, h2⟩ := hq e he mid m src sn dst dn hd
      exact ⟨h1, (org_true_iff _ _ _ _ _ _ _).1 h2⟩
    · intro t mid sn src dn dst m hx
      exact (org_true_iff _ _ _ _ _ _ _).1 (ht _ hx)
    · intro t mid sn src dn dst m hx
      exact (org_true_iff _ _ _ _ _ _ _).1 (ht _ hx)

/-- the invariant is inherited along any origin-respecting step -/
theorem TraceOrigin.of_step {s s' : Sim σ T} (hi : s.TraceOrigin) (h : OStep true s s') : s'.TraceOrigin := by
  obtain ⟨hq, ht⟩ := (traceOrigin_iff s).1 hi
  exact (traceOrigin_iff s').2 ⟨hq.of_step h, ht.of_step h⟩

theorem TraceOrigin.init (clock : T) (net : SimNet T) (draws : List T) :
    ({ clock := clock, net := net, draws := draws } : Sim σ T).TraceOrigin :=
  ⟨fun e he => (by cases he), fun t mid sn src dn dst m hx => (by cases hx), fun t mid sn src dn dst m hx => (by cases hx)⟩

theorem TraceOrigin.sendMessage {s s' : Sim σ T} (m : Msg) (src dst : Nat) (hi : s.TraceOrigin)
    (hok : s.sendMessage m src dst (nameLen m.tip) = .ok s') : s'.TraceOrigin :=
  hi.of_step (sendMessage_orun true 0 (.inl rfl) hok).o

theorem TraceOrigin.step (h : SHandler σ T) {s s' : Sim σ T} (b : Bool) (hi : s.TraceOrigin)
    (hok : s.step h = .ok (b, s')) : s'.TraceOrigin :=
  hi.of_step (step_ostep true h b ((traceOrigin_iff s).1 hi).1 (.inl rfl) hok)

theorem TraceOrigin.steps (h : SHandler σ T) (k : Nat) {s s' : Sim σ T} (b : Bool) (hi : s.TraceOrigin)
    (hok : s.steps h k = .ok (b, s')) : s'.TraceOrigin :=
  hi.of_step (steps_ostep true h k b ((traceOrigin_iff s).1 hi).1 (.inl rfl) hok)

theorem TraceOrigin.sendLocal (h : SHandler σ T) {s s' : Sim σ T} (p : Nat) (m : Msg) (hi : s.TraceOrigin)
    (hok : s.sendLocal h p m = .ok s') : s'.TraceOrigin :=
  hi.of_step (sendLocal_ostep true h p m (.inl rfl) hok)

theorem TraceOrigin.crashNode {s s' : Sim σ T} (n : Nat) (hi : s.TraceOrigin) (hok : s.crashNode n = .ok s') :
    s'.TraceOrigin :=
  hi.of_step (crashNode_ostep true n ((traceOrigin_iff s).1 hi).1 hok)

theorem TraceOrigin.recoverNode {s s' : Sim σ T} (n : Nat) (hi : s.TraceOrigin) (hok : s.recoverNode n = .ok s') :
    s'.TraceOrigin :=
  hi.of_step (recoverNode_ostep true n hok)

/-- with the corruption rate at zero throughout a run, every trace entry the run adds that is a `recv` or a `dropped`
    entry, and every message copy queued at its end, carries exactly a sent payload (`Org false`, `QOk false`) -/
theorem run_intact_no_corruption [LawfulTime T] (h : SHandler σ T) (k : Nat) {s s' : Sim σ T} (b : Bool)
    (hq : ∀ e ∈ s.events, ∀ mid m src sn dst dn, e.data = .msg mid m src sn dst dn →
      e.dst = dn ∧ ∃ t, SLog.sent t mid sn src dn dst m ∈ s.trace)
    (hz : TimeOps.lt TimeOps.zero s.net.corruptRate = false)
    (hd : ∀ d ∈ s.draws, LawfulTime.isDraw d) (hzero : LawfulTime.isDraw (TimeOps.zero : T))
    (hok : s.steps h k = .ok (b, s')) : OStep false s s' ∧ QOk false s' := by
  have hq0 : QOk false s := fun e he mid m src sn dst dn hdat =>
    ⟨(hq e he mid m src sn dst dn hdat).1, (org_false_iff _ _ _ _ _ _ _).2 (hq e he mid m src sn dst dn hdat).2⟩
  have hp : Pre false s := by
    right
    intro r hr
    refine lt_draw_false r _ ?_ hz
    rcases hr with hr | hr
    · exact hd r hr
    · rw [hr]; exact hzero
  have ho := steps_ostep false h k b hq0 hp hok
  exact ⟨ho, hq0.of_step ho⟩

/-- corruption needs a positive corruption rate: with the rate at zero throughout, what is queued and received is exactly
    what was sent -/
theorem received_intact_no_corruption [LawfulTime T] (h : SHandler σ T) (k : Nat) {s s' : Sim σ T} (b : Bool)
    (hq : ∀ e ∈ s.events, ∀ mid m src sn dst dn, e.data = .msg mid m src sn dst dn →
      e.dst = dn ∧ ∃ t, SLog.sent t mid sn src dn dst m ∈ s.trace)
    (hr : ∀ t mid sn src dn dst m, SLog.recv t mid sn src dn dst m ∈ s.trace → ∃ t0, SLog.sent t0 mid sn src dn dst m ∈ s.trace)
    (hz : TimeOps.lt TimeOps.zero s.net.corruptRate = false)
    (hd : ∀ d ∈ s.draws, LawfulTime.isDraw d) (hzero : LawfulTime.isDraw (TimeOps.zero : T))
    (hok : s.steps h k = .ok (b, s')) :
    ∀ t mid sn src dn dst m, SLog.recv t mid sn src dn dst m ∈ s'.trace → ∃ t0, SLog.sent t0 mid sn src dn dst m ∈ s'.trace := by
  obtain ⟨ho, _⟩ := run_intact_no_corruption h k b hq hz hd hzero hok
  obtain ⟨ext, ht, hx⟩ := ho.trace
  intro t mid sn src dn dst m hmem
  rw [ht] at hmem
  rcases List.mem_append.1 hmem with hmem | hmem
  · obtain ⟨t0, h0⟩ := hr t mid sn src dn dst m hmem
    exact ⟨t0, sub_of_append ht _ h0⟩
  · exact (org_false_iff _ _ _ _ _ _ _).1 (hx _ hmem)

/-- … and what is still queued at the end of the run is exactly what was sent, too -/
theorem queued_intact_no_corruption [LawfulTime T] (h : SHandler σ T) (k : Nat) {s s' : Sim σ T} (b : Bool)
    (hq : ∀ e ∈ s.events, ∀ mid m src sn dst dn, e.data = .msg mid m src sn dst dn →
      e.dst = dn ∧ ∃ t, SLog.sent t mid sn src dn dst m ∈ s.trace)
    (hz : TimeOps.lt TimeOps.zero s.net.corruptRate = false)
    (hd : ∀ d ∈ s.draws, LawfulTime.isDraw d) (hzero : LawfulTime.isDraw (TimeOps.zero : T))
    (hok : s.steps h k = .ok (b, s')) :
    ∀ e ∈ s'.events, ∀ mid m src sn dst dn, e.data = .msg mid m src sn dst dn →
      e.dst = dn ∧ ∃ t, SLog.sent t mid sn src dn dst m ∈ s'.trace := by
  obtain ⟨_, hq'⟩ := run_intact_no_corruption h k b hq hz hd hzero hok
  intro e he mid m src sn dst dn hdat
  exact ⟨(hq' e he mid m src sn dst dn hdat).1, (org_false_iff _ _ _ _ _ _ _).1 (hq' e he mid m src sn dst dn hdat).2⟩

end Sim

/-! ## Non-vacuity -/
namespace Sim.RunDemo
open Sim.TraceDemo

-- the `example`s below name the run's hypotheses even where the proof term does not need them
set_option linter.unusedVariables false

/-- `TraceOrigin.init` instantiated for a fresh simulator over `Ticks` -/
example : ({ clock := ⟨0⟩, net := SimNet.default, draws := [⟨500⟩] } : Sim Nat Ticks).TraceOrigin :=
  TraceOrigin.init _ _ _

/-- the demo state of `Sim.TraceDemo` (nothing sent, nothing queued) satisfies the invariant … -/
theorem s1_origin : s1.TraceOrigin :=
  ⟨fun e he => (by cases he), fun t mid sn src dn dst m hx => (by cases hx), fun t mid sn src dn dst m hx => (by cases hx)⟩

/-- … hence so does every state reached by a local message and ten steps -/
example (s2 s' : Sim Nat Ticks) (b : Bool) (hsend : s1.sendLocal h 1 ⟨0, []⟩ = .ok s2)
    (hrun : s2.steps h 10 = .ok (b, s')) : s'.TraceOrigin :=
  (s1_origin.sendLocal h 1 _ hsend).steps h 10 b hrun

/-- a concrete crashed-node run: process 1 on node 0 gets a local message (it sends message 0 to process 2 on node 1 and
    message 1 to itself and sets a timer), then node 1 is crashed, then the simulator runs for up to ten steps.  The run
    exists and reaches the end of the queue; node 1 has no handler at the end; the two trace entries added after the crash
    (the receipt of message 1 and the timer firing, both on node 0) record no handler invocation on node 1; node 1 is left
    exactly as the crash left it (process 2 in state 0, nothing received, empty event log). -/
example : ((s1.sendLocal h 1 ⟨0, []⟩).bind fun s2 => (s2.crashNode 1).bind fun sc => (sc.steps h 10).map fun r =>
      (r.1, r.2.handlers, (r.2.trace.drop sc.trace.length).all (fun x => !x.handledOn 1),
       (r.2.trace.drop sc.trace.length).any (fun x => x.handledOn 0), (r.2.trace.drop sc.trace.length).length)).toOption =
    some (false, [0], true, true, 2) := by decide

/-- what is observable of the processes of node `n`: name, state, receive counter, length of the event log -/
def view (s : Sim Nat Ticks) (n : Nat) : List (Nat × Nat × Nat × Nat) :=
  ((amGet? n s.nodes).map (fun nd => nd.procs.map (fun q => (q.1, q.2.st, q.2.recv, q.2.log.length)))).getD []

example : ((s1.sendLocal h 1 ⟨0, []⟩).bind fun s2 => (s2.crashNode 1).bind fun sc => (sc.steps h 10).map fun r =>
      (view r.2 1 == [(2, 0, 0, 0)], view sc 1 == [(2, 0, 0, 0)], (amGet? 1 r.2.nodes).map (·.crashed) == some true,
       view r.2 0 == [(1, 3, 1, 6)])).toOption = some (true, true, true, true) := by decide

/-- the hypothesis of `steps_crashed_silent` holds along that run, so its conclusion does -/
example (s2 sc s' : Sim Nat Ticks) (b : Bool) (hsend : s1.sendLocal h 1 ⟨0, []⟩ = .ok s2)
    (hcrash : s2.crashNode 1 = .ok sc) (hrun : sc.steps h 10 = .ok (b, s')) :
    1 ∉ s'.handlers ∧ (∃ ext, s'.trace = sc.trace ++ ext ∧ ∀ x ∈ ext, x.handledOn 1 = false) ∧
      amGet? 1 s'.nodes = amGet? 1 sc.nodes :=
  steps_crashed_silent h 10 sc s' b 1 (crashNode_no_handler s2 sc 1 hcrash) hrun

/-- … and the invariant `TraceOrigin` holds at its end -/
example (s2 sc s' : Sim Nat Ticks) (b : Bool) (hsend : s1.sendLocal h 1 ⟨0, []⟩ = .ok s2)
    (hcrash : s2.crashNode 1 = .ok sc) (hrun : sc.steps h 10 = .ok (b, s')) : s'.TraceOrigin :=
  (((s1_origin.sendLocal h 1 _ hsend).crashNode 1 hcrash).steps h 10 b hrun)

/-! ### the statements as first written are false: a machine-checked counterexample

Without the clause `e.dst = dn` a queued message copy may be addressed (`QEv.dst`) to another node than its data and its
`sent` entry name; `deliver` then records the receipt on node `QEv.dst`, for which no `sent` entry exists. -/

/-- `TraceOrigin` as first stated (no `e.dst = dn`) -/
structure TraceOrigin₀ (s : Sim Nat Ticks) : Prop where
  queued : ∀ e ∈ s.events, ∀ mid m src sn dst dn, e.data = .msg mid m src sn dst dn →
    ∃ t m0, SLog.sent t mid sn src dn dst m0 ∈ s.trace ∧ (m = m0 ∨ (sn ≠ dn ∧ m = corruptSim m0))
  received : ∀ t mid sn src dn dst m, SLog.recv t mid sn src dn dst m ∈ s.trace →
    ∃ t0 m0, SLog.sent t0 mid sn src dn dst m0 ∈ s.trace ∧ (m = m0 ∨ (sn ≠ dn ∧ m = corruptSim m0))
  dropped : ∀ t mid sn src dn dst m, SLog.dropped t mid sn src dn dst m ∈ s.trace →
    ∃ t0 m0, SLog.sent t0 mid sn src dn dst m0 ∈ s.trace ∧ (m = m0 ∨ (sn ≠ dn ∧ m = corruptSim m0))

/-- a handler that does nothing -/
def idle : SHandler Nat Ticks := fun _ st _ _ _ => (st, [], 0)

/-- message 0 was sent to process 2 "on node 7", its queued copy is addressed to node 5 (which hosts a process 2) -/
def cex : Sim Nat Ticks :=
  { clock := ⟨0⟩, net := SimNet.default, handlers := [5],
    nodes := [(5, { skew := ⟨0⟩, procs := [(2, { st := 0 })] })],
    trace := [.sent ⟨0⟩ 0 0 1 7 2 ⟨0, []⟩],
    events := [⟨0, ⟨0⟩, 0, 5, .msg 0 ⟨0, []⟩ 1 0 2 7⟩] }

def recvOn5 : SLog Ticks → Bool
  | .recv _ _ _ _ dn _ _ => dn == 5
  | _ => false

def sentTo5 : SLog Ticks → Bool
  | .sent _ _ _ _ dn _ _ => dn == 5
  | _ => false

theorem cex_origin₀ : TraceOrigin₀ cex := by
  refine ⟨?_, ?_, ?_⟩
  · intro e he mid m src sn dst dn hd
    simp only [cex, List.mem_singleton] at he
    subst he
    cases hd
    exact ⟨⟨0⟩, ⟨0, []⟩, by simp [cex], .inl rfl⟩
  · intro t mid sn src dn dst m hx
    simp [cex] at hx
  · intro t mid sn src dn dst m hx
    simp [cex] at hx

/-- a trace with a receipt on node 5 and no send to node 5 violates the `received` clause -/
theorem breaks (tr : List (SLog Ticks)) (h1 : tr.any recvOn5 = true) (h2 : tr.any sentTo5 = false) :
    ¬ ∀ t mid sn src dn dst m, SLog.recv t mid sn src dn dst m ∈ tr → ∃ t0 m0, SLog.sent t0 mid sn src dn dst m0 ∈ tr := by
  intro hall
  obtain ⟨x, hx, hx5⟩ := List.any_eq_true.1 h1
  cases x with
  | recv t mid sn src dn dst m =>
    obtain ⟨t0, m0, hs⟩ := hall t mid sn src dn dst m hx
    have : tr.any sentTo5 = true := List.any_eq_true.2 ⟨_, hs, hx5⟩
    rw [h2] at this
    cases this
  | _ => simp [recvOn5] at hx5

/-- `TraceOrigin.step` as first stated is false -/
example : ¬ ∀ (h : SHandler Nat Ticks) (s s' : Sim Nat Ticks) (b : Bool), TraceOrigin₀ s → s.step h = .ok (b, s') →
    TraceOrigin₀ s' := by
  intro hall
  have hfact : (cex.step idle).toOption.map (fun r => (r.2.trace.any recvOn5, r.2.trace.any sentTo5)) =
      some (true, false) := by decide
  cases hst : cex.step idle with
  | error e => rw [hst] at hfact; cases hfact
  | ok r =>
    rw [hst] at hfact
    simp only [Except.toOption, Option.map_some, Option.some.injEq, Prod.mk.injEq] at hfact
    have hi := hall idle cex r.2 r.1 cex_origin₀ hst
    exact breaks r.2.trace hfact.1 hfact.2 (fun t mid sn src dn dst m hx =>
      let ⟨t0, m0, hs, _⟩ := hi.received t mid sn src dn dst m hx; ⟨t0, m0, hs⟩)

/-- `received_intact_no_corruption` as first stated (hypothesis `hq` without `e.dst = dn`) is false -/
example : ¬ ∀ (h : SHandler Nat Ticks) (k : Nat) (s s' : Sim Nat Ticks) (b : Bool),
    (∀ e ∈ s.events, ∀ mid m src sn dst dn, e.data = .msg mid m src sn dst dn →
      ∃ t, SLog.sent t mid sn src dn dst m ∈ s.trace) →
    (∀ t mid sn src dn dst m, SLog.recv t mid sn src dn dst m ∈ s.trace → ∃ t0, SLog.sent t0 mid sn src dn dst m ∈ s.trace) →
    TimeOps.lt TimeOps.zero s.net.corruptRate = false →
    (∀ d ∈ s.draws, LawfulTime.isDraw d) → LawfulTime.isDraw (TimeOps.zero : Ticks) →
    s.steps h k = .ok (b, s') →
    ∀ t mid sn src dn dst m, SLog.recv t mid sn src dn dst m ∈ s'.trace → ∃ t0, SLog.sent t0 mid sn src dn dst m ∈ s'.trace := by
  intro hall
  have hfact : (cex.steps idle 1).toOption.map (fun r => (r.2.trace.any recvOn5, r.2.trace.any sentTo5)) =
      some (true, false) := by decide
  cases hst : cex.steps idle 1 with
  | error e => rw [hst] at hfact; cases hfact
  | ok r =>
    rw [hst] at hfact
    simp only [Except.toOption, Option.map_some, Option.some.injEq, Prod.mk.injEq] at hfact
    have hq : ∀ e ∈ cex.events, ∀ mid m src sn dst dn, e.data = .msg mid m src sn dst dn →
        ∃ t, SLog.sent t mid sn src dn dst m ∈ cex.trace := by
      intro e he mid m src sn dst dn hd
      obtain ⟨t, m0, hs, hm⟩ := cex_origin₀.queued e he mid m src sn dst dn hd
      rcases hm with rfl | ⟨hne, _⟩
      · exact ⟨t, hs⟩
      · simp only [cex, List.mem_singleton] at he
        subst he
        cases hd
        exact ⟨⟨0⟩, by simp [cex]⟩
    have hi := hall idle 1 cex r.2 r.1 hq (fun t mid sn src dn dst m hx => by simp [cex] at hx) (by decide)
      (fun d hd => by simp [cex] at hd) hzero hst
    exact breaks r.2.trace hfact.1 hfact.2 (fun t mid sn src dn dst m hx =>
      let ⟨t0, hs⟩ := hi t mid sn src dn dst m hx; ⟨t0, m, hs⟩)

end Sim.RunDemo
end Anysystem

