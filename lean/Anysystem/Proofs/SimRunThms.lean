import Anysystem.Proofs.SimTraceInv
/-!
# C08 / C05 — whole-run facts about crashed nodes and about where received messages come from

* **a crashed node is silent** (C08): while a node has no handler (from `crash_node` until `recover_node`) no step records a
  handler invocation on it (no message receipt, timer firing or local-message receipt in the global trace) and the states,
  logs, counters and outboxes of its processes do not change;
* **origin of received messages** (C05): every queued copy and every `MessageReceived` entry of the global trace stems from
  an earlier `MessageSent` entry with the same identifier and endpoints, carrying the payload that was sent or its canonical
  corruption — and exactly the payload that was sent when both processes live on one node.
-/
namespace Anysystem

set_option linter.unusedSectionVars false

variable {σ T : Type} [TimeOps T]

/-- the trace entry records a handler invocation on node `n` -/
def SLog.handledOn (n : Nat) : SLog T → Bool
  | .recv _ _ _ _ dn _ _ => dn == n
  | .timerFired _ _ _ node _ => node == n
  | .localRecv _ node _ _ _ => node == n
  | _ => false

namespace Sim

/-- `crash_node` removes the handler -/
theorem crashNode_no_handler (s s' : Sim σ T) (n : Nat) (h : s.crashNode n = .ok s') : n ∉ s'.handlers := sorry

/-- one step while node `n` has no handler: still no handler, no handler invocation on `n` is recorded, the node's
    processes are untouched -/
theorem step_crashed_silent (h : SHandler σ T) (s s' : Sim σ T) (b : Bool) (n : Nat) (hn : n ∉ s.handlers)
    (hok : s.step h = .ok (b, s')) :
    n ∉ s'.handlers ∧ (∃ ext, s'.trace = s.trace ++ ext ∧ ∀ x ∈ ext, x.handledOn n = false) ∧
      amGet? n s'.nodes = amGet? n s.nodes := sorry

/-- the same along a whole run of steps -/
theorem steps_crashed_silent (h : SHandler σ T) (k : Nat) (s s' : Sim σ T) (b : Bool) (n : Nat) (hn : n ∉ s.handlers)
    (hok : s.steps h k = .ok (b, s')) :
    n ∉ s'.handlers ∧ (∃ ext, s'.trace = s.trace ++ ext ∧ ∀ x ∈ ext, x.handledOn n = false) ∧
      amGet? n s'.nodes = amGet? n s.nodes := sorry

/-- … and `send_local_message` to a process of a crashed node is refused (an error, nothing changes) -/
theorem sendLocal_crashed_refused (h : SHandler σ T) (s : Sim σ T) (p n : Nat) (m : Msg) (nd : SNode σ T)
    (hp : amGet? p s.procNodes = some n) (hnd : amGet? n s.nodes = some nd) (hc : nd.crashed = true) :
    ∃ e, s.sendLocal h p m = .error e := sorry

/-- every queued message copy and every receipt stems from a logged send -/
structure TraceOrigin (s : Sim σ T) : Prop where
  queued : ∀ e ∈ s.events, ∀ mid m src sn dst dn, e.data = .msg mid m src sn dst dn →
    ∃ t m0, SLog.sent t mid sn src dn dst m0 ∈ s.trace ∧ (m = m0 ∨ (sn ≠ dn ∧ m = corruptSim m0))
  received : ∀ t mid sn src dn dst m, SLog.recv t mid sn src dn dst m ∈ s.trace →
    ∃ t0 m0, SLog.sent t0 mid sn src dn dst m0 ∈ s.trace ∧ (m = m0 ∨ (sn ≠ dn ∧ m = corruptSim m0))
  dropped : ∀ t mid sn src dn dst m, SLog.dropped t mid sn src dn dst m ∈ s.trace →
    ∃ t0 m0, SLog.sent t0 mid sn src dn dst m0 ∈ s.trace ∧ (m = m0 ∨ (sn ≠ dn ∧ m = corruptSim m0))

theorem TraceOrigin.init (clock : T) (net : SimNet T) (draws : List T) :
    ({ clock := clock, net := net, draws := draws } : Sim σ T).TraceOrigin := sorry

theorem TraceOrigin.sendMessage {s s' : Sim σ T} (m : Msg) (src dst : Nat) (hi : s.TraceOrigin)
    (hok : s.sendMessage m src dst (nameLen m.tip) = .ok s') : s'.TraceOrigin := sorry

theorem TraceOrigin.step (h : SHandler σ T) {s s' : Sim σ T} (b : Bool) (hi : s.TraceOrigin)
    (hok : s.step h = .ok (b, s')) : s'.TraceOrigin := sorry

theorem TraceOrigin.steps (h : SHandler σ T) (k : Nat) {s s' : Sim σ T} (b : Bool) (hi : s.TraceOrigin)
    (hok : s.steps h k = .ok (b, s')) : s'.TraceOrigin := sorry

theorem TraceOrigin.sendLocal (h : SHandler σ T) {s s' : Sim σ T} (p : Nat) (m : Msg) (hi : s.TraceOrigin)
    (hok : s.sendLocal h p m = .ok s') : s'.TraceOrigin := sorry

theorem TraceOrigin.crashNode {s s' : Sim σ T} (n : Nat) (hi : s.TraceOrigin) (hok : s.crashNode n = .ok s') :
    s'.TraceOrigin := sorry

theorem TraceOrigin.recoverNode {s s' : Sim σ T} (n : Nat) (hi : s.TraceOrigin) (hok : s.recoverNode n = .ok s') :
    s'.TraceOrigin := sorry

/-- corruption needs a positive corruption rate: with the rate at zero throughout, what is queued and received is exactly
    what was sent -/
theorem received_intact_no_corruption [LawfulTime T] (h : SHandler σ T) (k : Nat) {s s' : Sim σ T} (b : Bool)
    (hq : ∀ e ∈ s.events, ∀ mid m src sn dst dn, e.data = .msg mid m src sn dst dn →
      ∃ t, SLog.sent t mid sn src dn dst m ∈ s.trace)
    (hr : ∀ t mid sn src dn dst m, SLog.recv t mid sn src dn dst m ∈ s.trace → ∃ t0, SLog.sent t0 mid sn src dn dst m ∈ s.trace)
    (hz : TimeOps.lt TimeOps.zero s.net.corruptRate = false)
    (hd : ∀ d ∈ s.draws, LawfulTime.isDraw d) (hzero : LawfulTime.isDraw (TimeOps.zero : T))
    (hok : s.steps h k = .ok (b, s')) :
    ∀ t mid sn src dn dst m, SLog.recv t mid sn src dn dst m ∈ s'.trace → ∃ t0, SLog.sent t0 mid sn src dn dst m ∈ s'.trace := sorry

end Sim
end Anysystem
