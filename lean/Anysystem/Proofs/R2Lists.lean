import Anysystem.Proofs.R2Defs
/-!
# List-level lemmas for R2: `flightsOf` / `timersOf`, positions, sorted assoc maps, `procsOf`
-/
set_option linter.unusedSimpArgs false
namespace Anysystem

variable {σ : Type}

/-! ## `flightsOf` / `timersOf` -/

theorem flightsOf_append (A B : List (Nat × Ev)) : flightsOf (A ++ B) = flightsOf A ++ flightsOf B := by
  simp [flightsOf, List.filterMap_append]

theorem timersOf_append (A B : List (Nat × Ev)) : timersOf (A ++ B) = timersOf A ++ timersOf B := by
  simp [timersOf, List.filterMap_append]

@[simp] theorem flightsOf_nil : flightsOf [] = [] := rfl
@[simp] theorem timersOf_nil : timersOf [] = [] := rfl

theorem flightsOf_cons_msg (id : Nat) (m : Msg) (s d : Nat) (o : Opts) (A : List (Nat × Ev)) :
    flightsOf ((id, .msg m s d o) :: A) = ⟨m, s, d, o⟩ :: flightsOf A := by
  simp [flightsOf, List.filterMap_cons]

theorem timersOf_cons_msg (id : Nat) (m : Msg) (s d : Nat) (o : Opts) (A : List (Nat × Ev)) :
    timersOf ((id, .msg m s d o) :: A) = timersOf A := by
  simp [timersOf, List.filterMap_cons]

theorem flightsOf_cons_timer (id p n d : Nat) (A : List (Nat × Ev)) :
    flightsOf ((id, .timer p n d) :: A) = flightsOf A := by
  simp [flightsOf, List.filterMap_cons]

theorem timersOf_cons_timer (id p n d : Nat) (A : List (Nat × Ev)) :
    timersOf ((id, .timer p n d) :: A) = ⟨p, n, d⟩ :: timersOf A := by
  simp [timersOf, List.filterMap_cons]

theorem mem_flightsOf {A : List (Nat × Ev)} {f : Flight} :
    f ∈ flightsOf A ↔ ∃ id, (id, Ev.msg f.m f.src f.dst f.o) ∈ A := by
  simp only [flightsOf, List.mem_filterMap]
  constructor
  · rintro ⟨⟨id, ev⟩, hx, hf⟩
    cases ev <;> simp at hf
    subst hf
    exact ⟨id, hx⟩
  · rintro ⟨id, hx⟩
    exact ⟨_, hx, rfl⟩

theorem mem_timersOf {A : List (Nat × Ev)} {t : PTimer} :
    t ∈ timersOf A ↔ ∃ id, (id, Ev.timer t.proc t.name t.delay) ∈ A := by
  simp only [timersOf, List.mem_filterMap]
  constructor
  · rintro ⟨⟨id, ev⟩, hx, hf⟩
    cases ev <;> simp at hf
    subst hf
    exact ⟨id, hx⟩
  · rintro ⟨id, hx⟩
    exact ⟨_, hx, rfl⟩

/-- with unique ids, erasing an id removes exactly that entry -/
theorem filter_ne_decomp {l r : List (Nat × Ev)} {id : Nat} {e : Ev}
    (hnd : (keys (l ++ (id, e) :: r)).Nodup) :
    (l ++ (id, e) :: r).filter (·.1 != id) = l ++ r := by
  simp only [keys, List.map_append, List.map_cons] at hnd
  rw [List.nodup_append] at hnd
  obtain ⟨_, hr, hlr⟩ := hnd
  rw [List.nodup_cons] at hr
  have h1 : l.filter (·.1 != id) = l := by
    rw [List.filter_eq_self]
    intro x hx
    simp only [bne_iff_ne, ne_eq]
    intro e'
    exact hlr x.1 (List.mem_map_of_mem hx) id (by simp) e'
  have h2 : r.filter (·.1 != id) = r := by
    rw [List.filter_eq_self]
    intro x hx
    simp only [bne_iff_ne, ne_eq]
    intro e'
    apply hr.1
    rw [← e']
    exact List.mem_map_of_mem hx
  simp [List.filter_append, List.filter_cons, h1, h2]

/-- position of the `i`-th element of a `filterMap` in the original list -/
theorem filterMap_getElem?_decomp {α β : Type} (g : α → Option β) (A : List α) (i : Nat) (b : β)
    (h : (A.filterMap g)[i]? = some b) :
    ∃ l x r, A = l ++ x :: r ∧ g x = some b ∧ (l.filterMap g).length = i := by
  induction A generalizing i with
  | nil => simp at h
  | cons y ys ih =>
    cases hg : g y with
    | none =>
      rw [List.filterMap_cons_none hg] at h
      obtain ⟨l, x, r, rfl, hx, hl⟩ := ih i h
      exact ⟨y :: l, x, r, rfl, hx, by rw [List.filterMap_cons_none hg]; exact hl⟩
    | some c =>
      rw [List.filterMap_cons_some hg] at h
      cases i with
      | zero =>
        simp only [List.getElem?_cons_zero, Option.some.injEq] at h
        subst h
        exact ⟨[], y, ys, rfl, hg, rfl⟩
      | succ i =>
        simp only [List.getElem?_cons_succ] at h
        obtain ⟨l, x, r, rfl, hx, hl⟩ := ih i h
        exact ⟨y :: l, x, r, rfl, hx, by rw [List.filterMap_cons_some hg]; simp [hl]⟩

theorem flightsOf_getElem?_decomp {A : List (Nat × Ev)} {i : Nat} {f : Flight}
    (h : (flightsOf A)[i]? = some f) :
    ∃ l id r, A = l ++ (id, Ev.msg f.m f.src f.dst f.o) :: r ∧ (flightsOf l).length = i := by
  obtain ⟨l, ⟨id, ev⟩, r, rfl, hx, hl⟩ := filterMap_getElem?_decomp _ A i f h
  cases ev <;> simp at hx
  subst hx
  exact ⟨l, id, r, rfl, hl⟩

theorem timersOf_getElem?_decomp {A : List (Nat × Ev)} {j : Nat} {t : PTimer}
    (h : (timersOf A)[j]? = some t) :
    ∃ l id r, A = l ++ (id, Ev.timer t.proc t.name t.delay) :: r ∧ (timersOf l).length = j := by
  obtain ⟨l, ⟨id, ev⟩, r, rfl, hx, hl⟩ := filterMap_getElem?_decomp _ A j t h
  cases ev <;> simp at hx
  subst hx
  exact ⟨l, id, r, rfl, hl⟩

/-- the flight of a pending message sits at the position given by the messages before it -/
theorem flightsOf_decomp_msg (l r : List (Nat × Ev)) (id : Nat) (m : Msg) (s d : Nat) (o : Opts) :
    flightsOf (l ++ (id, .msg m s d o) :: r) = flightsOf l ++ ⟨m, s, d, o⟩ :: flightsOf r ∧
    timersOf (l ++ (id, .msg m s d o) :: r) = timersOf l ++ timersOf r := by
  simp [flightsOf_append, timersOf_append, flightsOf_cons_msg, timersOf_cons_msg]

theorem timersOf_decomp_timer (l r : List (Nat × Ev)) (id p n d : Nat) :
    timersOf (l ++ (id, .timer p n d) :: r) = timersOf l ++ ⟨p, n, d⟩ :: timersOf r ∧
    flightsOf (l ++ (id, .timer p n d) :: r) = flightsOf l ++ flightsOf r := by
  simp [flightsOf_append, timersOf_append, flightsOf_cons_timer, timersOf_cons_timer]

theorem getElem?_append_length_cons {α : Type} (l r : List α) (x : α) :
    (l ++ x :: r)[l.length]? = some x := by
  simp

theorem eraseIdx_append_length_cons {α : Type} (l r : List α) (x : α) :
    (l ++ x :: r).eraseIdx l.length = l ++ r := by
  rw [List.eraseIdx_append_of_length_le (Nat.le_refl _)]
  simp

theorem take_append_length_cons {α : Type} (l r : List α) (x : α) :
    (l ++ x :: r).take l.length = l := by
  simp

/-! ## offered ⇔ oldest identical / unblocked -/

theorem all_flightsOf (l : List (Nat × Ev)) (q : Flight → Bool) :
    (flightsOf l).all q = l.all (fun y => match y.2 with
      | .msg m s d o => q ⟨m, s, d, o⟩
      | _ => true) := by
  induction l with
  | nil => rfl
  | cons y ys ih =>
    obtain ⟨id, ev⟩ := y
    cases ev <;> simp [flightsOf, List.filterMap_cons] at ih ⊢ <;> simp [ih]

theorem all_timersOf (l : List (Nat × Ev)) (q : PTimer → Bool) :
    (timersOf l).all q = l.all (fun y => match y.2 with
      | .timer p n d => q ⟨p, n, d⟩
      | _ => true) := by
  induction l with
  | nil => rfl
  | cons y ys ih =>
    obtain ⟨id, ev⟩ := y
    cases ev <;> simp [timersOf, List.filterMap_cons] at ih ⊢ <;> simp [ih]

/-! ## sorted assoc maps: `amInsert` on a present key is an in-place update -/

theorem amInsert_natLt_replace {β : Type} (k : Nat) (v v' : β) (l : List (Nat × β)) (hs : KSorted l)
    (hg : amGet? k l = some v) :
    amInsert natLt k v' l = l.map (fun x => if x.1 = k then (k, v') else x) := by
  induction l with
  | nil => simp [amGet?] at hg
  | cons y ys ih =>
    obtain ⟨k', w⟩ := y
    unfold KSorted at hs ih
    rw [List.pairwise_cons] at hs
    simp only [amGet?] at hg
    by_cases hk : k = k'
    · subst hk
      have hrest : ys.map (fun x => if x.1 = k then (k, v') else x) = ys := by
        conv => rhs; rw [← List.map_id ys]
        apply List.map_congr_left
        intro x hx
        have := hs.1 x hx
        simp only at this
        have : ¬ x.1 = k := by omega
        simp [this]
      simp [amInsert, natLt, hrest]
    · simp only [hk, ↓reduceIte] at hg
      have hmem := amGet?_eq_some_mem hg
      have hlt := hs.1 _ hmem
      simp only at hlt
      have h1 : ¬ k < k' := by omega
      have hk' : ¬ k' = k := fun e => hk e.symm
      simp [amInsert, natLt, h1, hk, hk', ih hs.2 hg]

theorem keys_map_update {β : Type} (k : Nat) (v' : β) (l : List (Nat × β)) :
    (l.map (fun x => if x.1 = k then (k, v') else x)).map (·.1) = l.map (·.1) := by
  rw [List.map_map]
  apply List.map_congr_left
  intro x _
  simp only [Function.comp]
  split
  · rename_i h; exact h.symm
  · rfl

theorem KSorted.map_update {β : Type} (k : Nat) (v' : β) (l : List (Nat × β)) (hs : KSorted l) :
    KSorted (l.map (fun x => if x.1 = k then (k, v') else x)) := by
  unfold KSorted at *
  rw [List.pairwise_map]
  refine hs.imp ?_
  intro a b hab
  have ha : (if a.1 = k then (k, v') else a).1 = a.1 := by split <;> simp_all
  have hb : (if b.1 = k then (k, v') else b).1 = b.1 := by split <;> simp_all
  rw [ha, hb]; exact hab

end Anysystem
