import Anysystem.Proofs.C11Lemmas
/-!
# C11, helper lemmas II: `KV` is preserved by `add_events`, `apply_event`, one alternative, and lifts
through `successors`
-/
set_option linter.unusedSimpArgs false
namespace Anysystem

variable {σ : Type}

theorem ResRel.error_left {e : String} {y : R (McSys σ)} (h : ResRel (.error e) y) : ∃ e', y = .error e' := by
  cases y with
  | error e' => exact ⟨e', rfl⟩
  | ok _ => exact h.elim

theorem ResRel.ok_left {x : McSys σ} {y : R (McSys σ)} (h : ResRel (.ok x) y) : ∃ x', y = .ok x' ∧ KV x x' := by
  cases y with
  | error e' => exact h.elim
  | ok x' => exact ⟨x', rfl, h⟩

/-! ## `add_events` -/

/-- the classification of one new event (`ev'` in `addEvents`) -/
def McSys.prepEv (s : McSys σ) (ev : Ev) : R Ev :=
  match ev with
  | .msg m src dst _ =>
    match s.net.sendMessage m src dst with
    | .ok (.msg m' src' dst' o) =>
      match s.procCrashed src', s.procCrashed dst' with
      | .ok a, .ok b => if a || b then .ok (.dropped m' src' dst' none) else .ok (.msg m' src' dst' o)
      | .error e, _ => .error e
      | _, .error e => .error e
    | r => r
  | e => .ok e

/-- what `addEvents` does with a classified event -/
def McSys.addOne (cfg : Cfg) (s : McSys σ) (ev' : R Ev) : R (McSys σ) :=
  match ev' with
  | .error e => .error e
  | .ok (.timerCancelled p t) =>
    match s.events.cancelTimer cfg.store p t with
    | .error e => .error e
    | .ok st => .ok { s with events := st }
  | .ok (.dropped m src dst rid) =>
    let st : R Store := match rid with
      | some id => (s.events.pop cfg.store id).map (·.1)
      | none => .ok s.events
    match st with
    | .error e => .error e
    | .ok st => .ok { s with events := st, trace := s.trace ++ [.dropped m src dst] }
  | .ok e =>
    match s.events.push e with
    | .error err => .error err
    | .ok (st, _) => .ok { s with events := st }

/-- the continuation of `addEvents` after the classification, verbatim -/
def McSys.addRest (cfg : Cfg) (rest : List Ev) (s : McSys σ) (ev' : R Ev) : R (McSys σ) :=
  match ev' with
  | .error e => .error e
  | .ok (.timerCancelled p t) =>
    match s.events.cancelTimer cfg.store p t with
    | .error e => .error e
    | .ok st => McSys.addEvents cfg rest { s with events := st }
  | .ok (.dropped m src dst rid) =>
    let st : R Store := match rid with
      | some id => (s.events.pop cfg.store id).map (·.1)
      | none => .ok s.events
    match st with
    | .error e => .error e
    | .ok st => McSys.addEvents cfg rest { s with events := st, trace := s.trace ++ [.dropped m src dst] }
  | .ok e =>
    match s.events.push e with
    | .error err => .error err
    | .ok (st, _) => McSys.addEvents cfg rest { s with events := st }

theorem addEvents_cons_rest (cfg : Cfg) (ev : Ev) (rest : List Ev) (s : McSys σ) :
    McSys.addEvents cfg (ev :: rest) s = s.addRest cfg rest (s.prepEv ev) := rfl

theorem addRest_eq (cfg : Cfg) (rest : List Ev) (s : McSys σ) (ev' : R Ev) :
    s.addRest cfg rest ev' =
      match s.addOne cfg ev' with
      | .error e => .error e
      | .ok s1 => McSys.addEvents cfg rest s1 := by
  cases ev' with
  | error e => rfl
  | ok ev =>
    cases ev with
    | timerCancelled p t =>
      simp only [McSys.addRest, McSys.addOne]
      cases s.events.cancelTimer cfg.store p t <;> rfl
    | dropped m src dst rid =>
      simp only [McSys.addRest, McSys.addOne]
      cases rid with
      | none => rfl
      | some id =>
        simp only
        cases s.events.pop cfg.store id <;> rfl
    | msg m src dst o =>
      simp only [McSys.addRest, McSys.addOne]
      cases s.events.push (.msg m src dst o) <;> rfl
    | timer p n d =>
      simp only [McSys.addRest, McSys.addOne]
      cases s.events.push (.timer p n d) <;> rfl
    | duplicated m src dst rid =>
      simp only [McSys.addRest, McSys.addOne]
      cases s.events.push (.duplicated m src dst rid) <;> rfl
    | corrupted m cm src dst rid =>
      simp only [McSys.addRest, McSys.addOne]
      cases s.events.push (.corrupted m cm src dst rid) <;> rfl

theorem addEvents_cons_eq (cfg : Cfg) (ev : Ev) (rest : List Ev) (s : McSys σ) :
    McSys.addEvents cfg (ev :: rest) s =
      match s.addOne cfg (s.prepEv ev) with
      | .error e => .error e
      | .ok s1 => McSys.addEvents cfg rest s1 := by
  rw [addEvents_cons_rest, addRest_eq]

theorem KV.prepEv {a b : McSys σ} (h : KV a b) (ev : Ev) : a.prepEv ev = b.prepEv ev := by
  cases ev with
  | msg m src dst o =>
    simp only [McSys.prepEv, h.net, h.procCrashed]
  | _ => rfl

theorem KV.with_events {a b : McSys σ} (h : KV a b) (st : Store) (ta tb : List LogE) :
    KV { a with events := st, trace := ta } { b with events := st, trace := tb } :=
  ⟨rfl, h.net, h.mode, h.nodes⟩

theorem KV.addOne {a b : McSys σ} (h : KV a b) (ev' : R Ev) : ResRel (a.addOne {} ev') (b.addOne {} ev') := by
  cases ev' with
  | error e => exact trivial
  | ok ev =>
    cases ev with
    | timerCancelled p t =>
      simp only [McSys.addOne, h.events]
      cases b.events.cancelTimer ({} : Cfg).store p t with
      | error e => exact trivial
      | ok st => exact h.with_events st _ _
    | dropped m src dst rid =>
      simp only [McSys.addOne, h.events]
      cases rid with
      | none => exact h.with_events _ _ _
      | some id =>
        simp only
        cases b.events.pop ({} : Cfg).store id with
        | error e => exact trivial
        | ok v => exact h.with_events _ _ _
    | msg m src dst o =>
      simp only [McSys.addOne, h.events]
      cases b.events.push (.msg m src dst o) with
      | error e => exact trivial
      | ok v => exact h.with_events _ _ _
    | timer p n d =>
      simp only [McSys.addOne, h.events]
      cases b.events.push (.timer p n d) with
      | error e => exact trivial
      | ok v => exact h.with_events _ _ _
    | duplicated m src dst rid =>
      simp only [McSys.addOne, h.events]
      cases b.events.push (.duplicated m src dst rid) with
      | error e => exact trivial
      | ok v => exact h.with_events _ _ _
    | corrupted m cm src dst rid =>
      simp only [McSys.addOne, h.events]
      cases b.events.push (.corrupted m cm src dst rid) with
      | error e => exact trivial
      | ok v => exact h.with_events _ _ _

theorem KV.addEvents (evs : List Ev) : ∀ {a b : McSys σ}, KV a b →
    ResRel (McSys.addEvents {} evs a) (McSys.addEvents {} evs b) := by
  induction evs with
  | nil => intro a b h; exact h
  | cons ev rest ih =>
    intro a b h
    rw [addEvents_cons_eq, addEvents_cons_eq, h.prepEv ev]
    have h1 := h.addOne (b.prepEv ev)
    cases ha : a.addOne {} (b.prepEv ev) with
    | error e =>
      rw [ha] at h1
      obtain ⟨e', he'⟩ := h1.error_left
      rw [he']
      exact trivial
    | ok a1 =>
      rw [ha] at h1
      obtain ⟨b1, hb1, hkv⟩ := h1.ok_left
      rw [hb1]
      exact ih hkv

/-! ## `apply_event` -/

theorem KV.deliverTo (h : Handler σ) {a b : McSys σ} (hkv : KV a b) (p : Nat) (i : Input) :
    ResRel (McSys.deliverTo {} h a p i) (McSys.deliverTo {} h b p i) := by
  simp only [McSys.deliverTo, hkv.net, McSys.nodeOf]
  cases b.net.procNode p with
  | error e => exact trivial
  | ok nd =>
    simp only
    rcases hkv.nodes.amGet? nd with ⟨h1, h2⟩ | ⟨n, m, h1, h2, h3⟩
    · simp only [h1, h2]
      exact trivial
    · simp only [h1, h2]
      have hr := react_rel h (n := n) (m := m) h3 p i
      cases hn : n.react {} h p i with
      | error e =>
        rw [hn] at hr
        cases hm : m.react {} h p i with
        | error e' => exact trivial
        | ok v => rw [hm] at hr; exact hr.elim
      | ok v =>
        rw [hn] at hr
        cases hm : m.react {} h p i with
        | error e' => rw [hm] at hr; exact hr.elim
        | ok w =>
          rw [hm] at hr
          obtain ⟨n', evs, tr⟩ := v
          obtain ⟨m', evs', tr'⟩ := w
          obtain ⟨hr1, hr2⟩ := hr
          simp only at hr1 hr2
          subst hr2
          simp only
          apply KV.addEvents
          exact ⟨hkv.events, rfl, hkv.mode, hkv.nodes.amInsert nd hr1⟩

theorem KV.applyEvent (h : Handler σ) {a b : McSys σ} (hkv : KV a b) (ev : Ev) :
    ResRel (a.applyEvent {} h ev) (b.applyEvent {} h ev) := by
  have h1 : ∀ (ta tb : List LogE), KV ({ a with depth := a.depth + 1, trace := ta } : McSys σ)
      ({ b with depth := b.depth + 1, trace := tb } : McSys σ) :=
    fun _ _ => ⟨hkv.events, hkv.net, hkv.mode, hkv.nodes⟩
  cases ev with
  | msg m src dst o => rw [applyEvent_msg, applyEvent_msg]; exact (h1 _ _).deliverTo h dst _
  | timer p t d => rw [applyEvent_timer, applyEvent_timer]; exact (h1 _ _).deliverTo h p _
  | timerCancelled _ _ => exact h1 _ _
  | dropped _ _ _ _ => exact h1 _ _
  | duplicated _ _ _ _ => exact h1 _ _
  | corrupted _ _ _ _ _ => exact h1 _ _

theorem KV.set_events {a b : McSys σ} (h : KV a b) (st : Store) :
    KV { a with events := st } { b with events := st } :=
  ⟨rfl, h.net, h.mode, h.nodes⟩

/-! ## one alternative -/

theorem KV.applyAlt (h : Handler σ) {a b : McSys σ} (hkv : KV a b) (alt : Alt) :
    ResRel (a.applyAlt {} h alt) (b.applyAlt {} h alt) := by
  cases alt with
  | deliver id =>
    simp only [McSys.applyAlt, hkv.events]
    cases b.events.pop ({} : Cfg).store id with
    | error e => exact trivial
    | ok v => exact (hkv.set_events _).applyEvent h _
  | drop id =>
    simp only [McSys.applyAlt, hkv.events]
    cases b.events.pop ({} : Cfg).store id with
    | error e => exact trivial
    | ok v =>
      obtain ⟨st, ev⟩ := v
      cases ev with
      | msg m src dst o => exact (hkv.set_events _).applyEvent h _
      | _ => exact trivial
  | corrupt id =>
    simp only [McSys.applyAlt, hkv.events]
    cases b.events.pop ({} : Cfg).store id with
    | error e => exact trivial
    | ok v =>
      obtain ⟨st, ev⟩ := v
      cases ev with
      | msg m src dst o =>
        simp only
        split
        · exact trivial
        · exact (hkv.set_events _).applyEvent h _
      | _ => exact trivial
  | dup id =>
    simp only [McSys.applyAlt, hkv.events]
    cases b.events.pop ({} : Cfg).store id with
    | error e => exact trivial
    | ok v =>
      obtain ⟨st, ev⟩ := v
      simp only
      cases McSys.duplicateEv ev with
      | none => exact trivial
      | some d =>
        simp only
        cases st.pushFixed d id with
        | error e => exact trivial
        | ok st1 =>
          simp only
          cases st1.push (McSys.disableDup ev) with
          | error e => exact trivial
          | ok w =>
            obtain ⟨st2, k⟩ := w
            cases ev with
            | msg m src dst o => exact (hkv.set_events _).applyEvent h _
            | _ => exact trivial

/-! ## `successors` -/

/-- both fail, or both succeed with position-wise related lists -/
def ResRelL : R (List (McSys σ)) → R (List (McSys σ)) → Prop
  | .ok x, .ok y => All2 KV x y
  | .error _, .error _ => True
  | _, _ => False

theorem KV.goAlts (h : Handler σ) {a b : McSys σ} (hkv : KV a b) (alts : List Alt) :
    ∀ {acc acc' : List (McSys σ)}, All2 KV acc acc' →
      ResRelL (McSys.successors.goAlts {} h a alts acc) (McSys.successors.goAlts {} h b alts acc') := by
  induction alts with
  | nil => intro acc acc' hacc; exact hacc
  | cons alt rest ih =>
    intro acc acc' hacc
    simp only [McSys.successors.goAlts]
    have h1 := hkv.applyAlt h alt
    cases ha : a.applyAlt {} h alt with
    | error e =>
      rw [ha] at h1
      obtain ⟨e', he'⟩ := h1.error_left
      rw [he']
      exact trivial
    | ok a1 =>
      rw [ha] at h1
      obtain ⟨b1, hb1, hk1⟩ := h1.ok_left
      rw [hb1]
      exact ih (hacc.append hk1)

theorem KV.alternatives {a b : McSys σ} (hkv : KV a b) (id : Nat) : a.alternatives id = b.alternatives id := by
  simp only [McSys.alternatives, hkv.events]

theorem KV.goIds (h : Handler σ) {a b : McSys σ} (hkv : KV a b) (ids : List Nat) :
    ∀ {acc acc' : List (McSys σ)}, All2 KV acc acc' →
      ResRelL (McSys.successors.goIds {} h a ids acc) (McSys.successors.goIds {} h b ids acc') := by
  induction ids with
  | nil => intro acc acc' hacc; exact hacc
  | cons id rest ih =>
    intro acc acc' hacc
    simp only [McSys.successors.goIds, hkv.alternatives id]
    cases b.alternatives id with
    | error e => exact trivial
    | ok alts =>
      simp only
      have h1 := hkv.goAlts h alts hacc
      cases ha : McSys.successors.goAlts {} h a alts acc with
      | error e =>
        rw [ha] at h1
        cases hb : McSys.successors.goAlts {} h b alts acc' with
        | error e' => exact trivial
        | ok y => rw [hb] at h1; exact h1.elim
      | ok x =>
        rw [ha] at h1
        cases hb : McSys.successors.goAlts {} h b alts acc' with
        | error e' => rw [hb] at h1; exact h1.elim
        | ok y =>
          rw [hb] at h1
          exact ih h1

theorem KV.successors (h : Handler σ) {a b : McSys σ} (hkv : KV a b) :
    ResRelL (a.successors {} h) (b.successors {} h) := by
  simp only [McSys.successors, McSys.available, hkv.events, hkv.mode]
  cases b.events.availableEvents b.mode with
  | error e => exact trivial
  | ok ids => exact hkv.goIds h ids All2.nil

end Anysystem
