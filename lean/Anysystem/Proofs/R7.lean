import Anysystem.Proofs.R7Send
import Anysystem.Proofs.R4
import Anysystem.Proofs.R5Rel
/-!
# R7 — one simulator step refines the reference semantics, ARBITRARY drop / duplication / corruption rates

* `TimedRelF.visible`          — the relation implies equality of the process-visible projection;
* `sim_step_refines_fates_aux` — one simulator step that handles an event is a reference run of one `deliver` / `fire`
                                  label (the one of `sim_step_refines_partial`) followed by at most `3 * M` FAULT labels
                                  (`M` bounds the number of actions of a handler call): the fault paths `fatePathMid` of
                                  the sends the simulator duplicated or corrupted; with the draws consumed (≤ `7 * M`);
* `sim_step_refines_fates` (2) — the same in the shape of `sim_step_refines_run`;
* `netRelF_snapshotNet`, `timedRelF_snapshot` (3) — the relation holds between a simulator state and the reference state
                                  of its snapshot, whatever the rates.

A send the simulator drops at random still needs no label (zombie, as in R6).  Freshness (`FreshAt`, R7Defs) is asked of
the handler call of every reduced-enabled label of `r`.
-/
namespace Anysystem

set_option linter.unusedSectionVars false
set_option linter.unusedVariables false
set_option linter.unusedSimpArgs false

variable {σ T : Type} [TimeOps T]

open Sim

/-- the relation implies equality of the process-visible projection -/
theorem TimedRelF.visible (bits : T → Nat) (q : Sim σ T) (r : RState σ) (gs : List (TimerGhost T))
    (hr : TimedRelF bits q r gs) : visibleEq q r := by
  intro n nd p e hn hp
  exact (hr.proc.procs n p e (by rw [proc?_eq hn]; exact hp)).1

/-- one reduced-enabled step in front of a run -/
theorem r7_refRun_cons (h : Handler σ) (mode : Mode) (r r1 : RState σ) (l : Label) (ls : List Label)
    (hen : r.enabledRed mode l = true) (hst : r.step h l = some r1) :
    refRun h mode r (l :: ls) = refRun h mode r1 ls := fate_refRun_cons h mode r r1 l ls hen hst

/-- **(2), with the frame facts.**  One simulator step that handles an event: the empty reference run (the event was
    addressed to a node without handler), or one reduced-enabled `deliver` / `fire` label followed by at most `3 * M`
    reduced-enabled fault labels; the relation is re-established; at most `7 * M` draws are consumed. -/
theorem sim_step_refines_fates_aux [LawfulTime T] (bits : T → Nat) (h : Handler σ) (q q' : Sim σ T) (r : RState σ)
    (gs : List (TimerGhost T)) (hr : TimedRelF bits q r gs)
    (hbits : ∀ x y : T, TimeOps.le x y = true → bits x ≤ bits y)
    (hadd : ∀ a b c : T, TimeOps.le a b = true → TimeOps.le (TimeOps.add a c) (TimeOps.add b c) = true)
    (hdelays : ∀ p st i a, a ∈ (h p st i).2 → ∀ name d once, a = .set name d once →
      TimeOps.le TimeOps.zero (TimeOps.ofBits d : T) = true ∧ bits (TimeOps.ofBits d : T) = d)
    (hknown : ∀ p st i a, a ∈ (h p st i).2 → ∀ m dst, a = .send m dst → (amGet? dst q.net.procLoc).isSome = true)
    (hdraws : ∀ d ∈ q.draws, LawfulTime.isDraw d) (hlen : ∀ p st i, 7 * (h p st i).2.length ≤ q.draws.length)
    (M : Nat) (hM : ∀ p st i, (h p st i).2.length ≤ M)
    (hfresh : ∀ l, r.enabledRed .normal l = true → FreshAt h r l)
    (hstep : q.step (liftHandler h) = .ok (true, q')) :
    (∃ j, j ≤ 7 * M ∧ q'.draws = q.draws.drop j) ∧
    ((∃ gs', TimedRelF bits q' r gs') ∨
     (∃ l rA ls r' gs', l.isFault = false ∧ r.enabledRed .normal l = true ∧ r.step h l = some rA ∧
        (∀ l' ∈ ls, l'.isFault = true) ∧ ls.length ≤ 3 * M ∧ refRun h .normal rA ls = some r' ∧
        TimedRelF bits q' r' gs')) := by
  obtain ⟨e, s1, hne, hdel⟩ := step_inv _ q q' hstep
  have hf : q.events.length < q.events.length + 1 := Nat.lt_succ_self _
  obtain ⟨f1, f2, f3, f4, f5, f6, f7, f8, f9, f10, f11, f12⟩ := r7_pop_frame hr hf hne
  have haok : ∀ p st i, ∀ a ∈ (h p st i).2, ActOk bits r.net.procLoc a := by
    intro p st i a ha
    cases a with
    | send m dst => rw [ActOk, hr.net.netLoc]; exact hknown p st i _ ha m dst rfl
    | loc m => trivial
    | set name d once => exact hdelays p st i _ ha name d once rfl
    | cancel name => trivial
  unfold deliver at hdel
  by_cases hdst : e.dst ∈ q.handlers
  · have hc : s1.handlers.contains e.dst = true := by rw [f7]; simpa using hdst
    simp only [hc, Bool.not_true, Bool.false_eq_true, if_false] at hdel
    have hncr : e.dst ∉ r.crashedNodes := fun hcr => ((hr.net.crashed e.dst).1 hcr).2 hdst
    cases hd : e.data with
    | msg mid m src sn dst dn =>
      rw [hd] at hdel
      simp only at hdel
      have hrun := onMessage_run _ _ _ _ _ _ _ _ _ hdel
      obtain ⟨hdn, hld, hls⟩ := hr.queue.msgLoc e f5 mid m src sn dst dn hd
      have hed : e ∈ q.deliverable := (mem_deliverable q e).2 ⟨f5, hdst⟩
      -- some flight of the reference state carries the triple of the popped copy; take the oldest such flight
      have hkm : (m, src, dst) ∈ r.flights.map Flight.key := hr.flights.key_mem hed (by rw [hd]; rfl)
      obtain ⟨fl, g1, g2, g4, g3⟩ := firstKeyIdx_spec (m, src, dst) r.flights hkm
      obtain ⟨i, hi⟩ : ∃ i, i = firstKeyIdx (m, src, dst) r.flights := ⟨_, rfl⟩
      rw [← hi] at g1 g3 g4
      simp only [Flight.key, Prod.mk.injEq] at g2
      obtain ⟨hflm, hfls, hfld⟩ := g2
      have hrel1 := r7_pop_msg hr hf hne hdst hd (r.afterDeliver i fl) i rfl rfl rfl rfl rfl (List.Perm.of_eq g4)
      have hrelA := (hrel1.sameView (sameView_log s1 (.recv s1.clock mid sn src e.dst dst m))).sameView
        (sameView_updProc _ e.dst dst (fun e => { e with log := e.log ++ [⟨s1.clock, .recv m src dst⟩], recv := e.recv + 1 })
          (fun _ => rfl))
      -- the process exists on both sides
      have hex : ∃ pe, s1.proc? e.dst dst = some pe := by
        unfold onMessage at hdel
        cases hn : amGet? e.dst s1.nodes with
        | none => simp [nodeOf, hn] at hdel
        | some nd =>
          simp only [nodeOf, hn] at hdel
          split at hdel
          · cases hdel
          · rename_i hhas
            rw [amHas_eq] at hhas
            cases hp : amGet? dst nd.procs with
            | none => simp [hp] at hhas
            | some pe => exact ⟨pe, by rw [proc?_eq hn]; exact hp⟩
      obtain ⟨pe, hpe⟩ := hex
      have hpeq : q.proc? e.dst dst = some pe := by rw [← proc?_of_nodes f9]; exact hpe
      have hctx : (r.afterDeliver i fl).Ctx e.dst dst := by
        refine ⟨?_, ?_, hncr⟩
        · show amGet? dst r.net.procLoc = some e.dst
          rw [hr.net.netLoc, hdn]; exact hld
        · show (amGet? dst r.procs).isSome = true
          rw [(hr.proc.procs e.dst dst pe hpeq).1]; rfl
      -- the delivered copy is the oldest among identical flights
      have hen : r.enabledRed .normal (.deliver i) = true := by
        show r.oldestIdentical _ = true
        unfold RState.oldestIdentical
        rw [g1]
        simp only
        rw [List.all_eq_true]
        intro g hg
        have hgne := g3 g hg
        rw [hflm, hfls, hfld]
        cases hb : (decide (g.m = m) && g.src == src && g.dst == dst) with
        | false => rfl
        | true =>
          simp only [Bool.and_eq_true, decide_eq_true_eq, beq_iff_eq] at hb
          obtain ⟨⟨h1, h2⟩, h3⟩ := hb
          exact absurd (by simp [Flight.key, h1, h2, h3]) hgne
      -- the handler call of this label is fresh
      have hfr : ∀ rp, amGet? dst (r.afterDeliver i fl).procs = some rp →
          freshActs (r.afterDeliver i fl) dst (r.afterDeliver i fl).flights.length (h dst rp.st (.msg m src)).2 := by
        intro rp hrp
        have hF := hfresh (.deliver i) hen
        simp only [FreshAt, g1] at hF
        rw [hfld] at hF
        have hrp' : amGet? dst r.procs = some rp := hrp
        rw [hrp'] at hF
        simp only [hflm, hfls] at hF
        have hil : i < r.flights.length := by
          cases hlt : decide (i < r.flights.length) with
          | true => exact of_decide_eq_true hlt
          | false =>
            have := of_decide_eq_false hlt
            rw [List.getElem?_eq_none (by omega)] at g1; cases g1
        have hl : (r.afterDeliver i fl).flights.length = r.flights.length - 1 := by
          show (r.flights.eraseIdx i).length = _
          rw [List.length_eraseIdx, if_pos hil]
        rw [hl]
        exact freshActs_congr _ ({ r with flights := r.flights.eraseIdx i } : RState σ) (r.afterDeliver i fl) dst _
          rfl rfl rfl hF
      obtain ⟨rA, ls, r', gs', hreact, hfa, hll, hrunr, hfin, hdr⟩ := r7_handler_tail h hrelA hctx
        (by simpa [log, f10] using hdraws) (by simpa [log, f10] using hlen) haok (.msg m src) hfr M hM hrun
      refine ⟨?_, Or.inr ⟨.deliver i, rA, ls, r', gs', rfl, hen, ?_, hfa, hll, hrunr .normal, hfin⟩⟩
      · obtain ⟨j, hj, hdj⟩ := hdr
        exact ⟨j, hj, by simpa [log, f10] using hdj⟩
      · show r.step h (.deliver _) = some rA
        simp only [RState.step, g1]
        show RState.react h (r.afterDeliver i fl) fl.dst (.msg fl.m fl.src) = some rA
        rw [hfld, hflm, hfls]
        exact hreact
    | timer p name =>
      rw [hd] at hdel
      simp only at hdel
      obtain ⟨nd, e0, hnd, he0, hrun⟩ := onTimer_inv _ _ _ _ _ _ hdel
      have he0' : s1.proc? e.dst p = some e0 := by rw [proc?_eq hnd]; exact he0
      obtain ⟨l1, g, l2, hgs, hgid, hgp, hgn, hget, hunb⟩ := r7_popped_timer_unblocked hr hbits hadd hf hne hdst hd
      obtain ⟨hpend, hrel3⟩ := r7_pop_timer hr hf hne hdst hd he0' hgs hgid
        (.timerFired s1.clock e.id name e.dst p) s1.clock
        (r.afterFire l1.length ⟨p, name, g.delay⟩) rfl rfl rfl rfl rfl
      rw [hpend] at hrun
      simp only at hrun
      have hctx : (r.afterFire l1.length ⟨p, name, g.delay⟩).Ctx e.dst p := by
        have hpeq : q.proc? e.dst p = some e0 := by rw [← proc?_of_nodes f9]; exact he0'
        refine ⟨?_, ?_, hncr⟩
        · show amGet? p r.net.procLoc = some e.dst
          rw [hr.net.netLoc]; exact (hr.proc.procs e.dst p e0 hpeq).2
        · show (amGet? p r.procs).isSome = true
          rw [(hr.proc.procs e.dst p e0 hpeq).1]; rfl
      have hen : r.enabledRed .normal (.fire l1.length) = true := by
        show (r.timerUnblocked l1.length && (Mode.normal == Mode.normal || r.flights.isEmpty)) = true
        rw [hunb]; rfl
      have hfr : ∀ rp, amGet? p (r.afterFire l1.length ⟨p, name, g.delay⟩).procs = some rp →
          freshActs (r.afterFire l1.length ⟨p, name, g.delay⟩) p (r.afterFire l1.length ⟨p, name, g.delay⟩).flights.length
            (h p rp.st (.timer name)).2 := by
        intro rp hrp
        have hF := hfresh (.fire l1.length) hen
        simp only [FreshAt, hget] at hF
        have hrp' : amGet? p r.procs = some rp := hrp
        rw [hrp'] at hF
        simp only at hF
        exact freshActs_congr _ ({ r with timers := r.timers.eraseIdx l1.length } : RState σ)
          (r.afterFire l1.length ⟨p, name, g.delay⟩) p _ rfl rfl rfl hF
      obtain ⟨rA, ls, r', gs', hreact, hfa, hll, hrunr, hfin, hdr⟩ := r7_handler_tail h hrel3 hctx
        (by simpa [log, f10] using hdraws) (by simpa [log, f10] using hlen) haok (.timer name) hfr M hM hrun
      refine ⟨?_, Or.inr ⟨.fire l1.length, rA, ls, r', gs', rfl, hen, ?_, hfa, hll, hrunr .normal, hfin⟩⟩
      · obtain ⟨j, hj, hdj⟩ := hdr
        exact ⟨j, hj, by simpa [log, f10] using hdj⟩
      · show r.step h (.fire _) = some rA
        simp only [RState.step, hget]
        exact hreact
  · have hc : s1.handlers.contains e.dst = false := by rw [f7]; simpa using hdst
    simp only [hc, Bool.not_false, if_true] at hdel
    cases hdel
    exact ⟨⟨0, by omega, by simpa using f10⟩, Or.inl ⟨gs, r7_pop_undeliverable hr hf hne hdst⟩⟩

/-- **(2)** `sim_step_refines_run` for arbitrary rates: one simulator step is a reference run of at most `1 + 3 * M`
    labels, `M` a bound on the number of actions of a handler call (the first label is the `deliver` / `fire` of
    `sim_step_refines_partial`, the others are fault labels) — under freshness of the handler calls enabled in `r`, and
    with seven draws per action instead of four. -/
theorem sim_step_refines_fates [LawfulTime T] (bits : T → Nat) (h : Handler σ) (q q' : Sim σ T) (r : RState σ)
    (gs : List (TimerGhost T)) (hr : TimedRelF bits q r gs)
    (hbits : ∀ x y : T, TimeOps.le x y = true → bits x ≤ bits y)
    (hadd : ∀ a b c : T, TimeOps.le a b = true → TimeOps.le (TimeOps.add a c) (TimeOps.add b c) = true)
    (hdelays : ∀ p st i a, a ∈ (h p st i).2 → ∀ name d once, a = .set name d once →
      TimeOps.le TimeOps.zero (TimeOps.ofBits d : T) = true ∧ bits (TimeOps.ofBits d : T) = d)
    (hknown : ∀ p st i a, a ∈ (h p st i).2 → ∀ m dst, a = .send m dst → (amGet? dst q.net.procLoc).isSome = true)
    (hdraws : ∀ d ∈ q.draws, LawfulTime.isDraw d) (hlen : ∀ p st i, 7 * (h p st i).2.length ≤ q.draws.length)
    (M : Nat) (hM : ∀ p st i, (h p st i).2.length ≤ M)
    (hfresh : ∀ l, r.enabledRed .normal l = true → FreshAt h r l)
    (hstep : q.step (liftHandler h) = .ok (true, q')) :
    ∃ ls r' gs', ls.length ≤ 1 + 3 * M ∧ refRun h .normal r ls = some r' ∧ TimedRelF bits q' r' gs' := by
  rcases (sim_step_refines_fates_aux bits h q q' r gs hr hbits hadd hdelays hknown hdraws hlen M hM hfresh hstep).2 with
    ⟨gs', hrel'⟩ | ⟨l, rA, ls, r', gs', _, hen, hst, _, hll, hrun, hrel'⟩
  · exact ⟨[], r, gs', Nat.zero_le _, rfl, hrel'⟩
  · refine ⟨l :: ls, r', gs', by simp only [List.length_cons]; omega, ?_, hrel'⟩
    rw [r7_refRun_cons h .normal r rA l ls hen hst]
    exact hrun

/-! ## (3) the relation at snapshot time, arbitrary rates -/

/-- the network part of the relation for the checker's network settings `snapshotNet`, whatever the rates: the three
    flags are what `snapshotNet` computes -/
theorem netRelF_snapshotNet [LawfulTime T] (bits : T → Nat) (q : Sim σ T) (r : RState σ)
    (hlocNodes : ∀ p n, amGet? p q.net.procLoc = some n → amHas n q.nodes = true)
    (hhand : ∀ n, n ∈ q.handlers ↔ (∃ nd, amGet? n q.nodes = some nd ∧ nd.crashed = false))
    (hsorted : KSorted q.nodes)
    (hnet : r.net = snapshotNet bits q)
    (hcr : ∀ n, n ∈ r.crashedNodes ↔ (amHas n q.nodes = true ∧ ¬ n ∈ q.handlers)) :
    NetRelF bits q r := by
  have hnodes : (q.nodes.map (·.1)).Nodup := hsorted.nodup
  have hzz : TimeOps.lt (TimeOps.zero : T) TimeOps.zero = false := by
    cases hlt : TimeOps.lt (TimeOps.zero : T) TimeOps.zero with
    | false => rfl
    | true =>
      have := (LawfulTime.lt_iff (TimeOps.zero : T) TimeOps.zero).1 hlt
      rw [LawfulTime.le_refl] at this; cases this
  obtain ⟨s1, s2, s3, s4, s5, s6⟩ := disconnectFold_spec ((q.nodes.filter (·.2.crashed)).map (·.1))
    { dropPos := TimeOps.lt TimeOps.zero q.net.dropRate,
      duplNonzero := TimeOps.lt TimeOps.zero q.net.duplRate || TimeOps.lt q.net.duplRate TimeOps.zero,
      corruptPos := TimeOps.lt TimeOps.zero q.net.corruptRate,
      dropIncoming := q.net.dropIncoming, dropOutgoing := q.net.dropOutgoing,
      disabledLinks := q.net.disabledLinks, procLoc := q.net.procLoc, maxDelay := bits q.net.maxDelay }
  obtain ⟨s7, s8⟩ := disconnectFold_more ((q.nodes.filter (·.2.crashed)).map (·.1))
    { dropPos := TimeOps.lt TimeOps.zero q.net.dropRate,
      duplNonzero := TimeOps.lt TimeOps.zero q.net.duplRate || TimeOps.lt q.net.duplRate TimeOps.zero,
      corruptPos := TimeOps.lt TimeOps.zero q.net.corruptRate,
      dropIncoming := q.net.dropIncoming, dropOutgoing := q.net.dropOutgoing,
      disabledLinks := q.net.disabledLinks, procLoc := q.net.procLoc, maxDelay := bits q.net.maxDelay }
  -- membership in the crashed list
  have hcrashed : ∀ n nd, amGet? n q.nodes = some nd →
      (n ∈ (q.nodes.filter (·.2.crashed)).map (·.1) ↔ nd.crashed = true) := by
    intro n nd hn
    simp only [List.mem_map, List.mem_filter]
    constructor
    · rintro ⟨x, ⟨hx, hxc⟩, rfl⟩
      have := amGet?_of_mem_nodup hnodes (k := x.1) (v := x.2) hx
      rw [hn] at this
      rw [Option.some.inj this]; exact hxc
    · intro hcr; exact ⟨(n, nd), ⟨amGet?_eq_some_mem hn, hcr⟩, rfl⟩
  have hhand' : ∀ n nd, amGet? n q.nodes = some nd → (n ∈ q.handlers ↔ nd.crashed = false) := by
    intro n nd hn
    rw [hhand]
    constructor
    · rintro ⟨nd', h1, h2⟩; rw [hn] at h1; rw [Option.some.inj h1]; exact h2
    · intro h2; exact ⟨nd, hn, h2⟩
  refine ⟨?_, by rw [hnet]; exact s1, ?_, by rw [hnet]; exact s8, hcr, hlocNodes, hhand, hsorted⟩
  · -- netFlags
    rw [hnet]
    refine ⟨?_, ?_, ?_⟩
    · show (snapshotNet bits q).dropPos = TimeOps.lt TimeOps.zero q.net.dropRate
      unfold snapshotNet; simp only; rw [s3]
    · show (snapshotNet bits q).duplNonzero = _
      unfold snapshotNet; simp only; rw [s7]
    · show (snapshotNet bits q).corruptPos = _
      unfold snapshotNet; simp only; rw [s4]
  · -- netCut
    intro a b ha hb
    rw [hnet]
    rw [amHas_eq] at hb
    cases hgb : amGet? b q.nodes with
    | none => rw [hgb] at hb; cases hb
    | some ndb =>
      obtain ⟨nda, hga, hac⟩ := (hhand a).1 ha
      have ha' : a ∉ (q.nodes.filter (·.2.crashed)).map (·.1) := by
        rw [hcrashed a nda hga, hac]; simp
      have hbm := hcrashed b ndb hgb
      have hbh := hhand' b ndb hgb
      show (snapshotNet bits q).pathEnabled a b = _
      unfold snapshotNet McNet.pathEnabled pathCut
      simp only
      rw [s2, Bool.eq_iff_iff]
      simp only [Bool.and_eq_true, Bool.not_eq_true', List.contains_eq_mem, decide_eq_false_iff_not, s5, s6,
        Bool.or_eq_false_iff, decide_eq_true_eq, hbm, hbh, not_or]
      constructor
      · rintro ⟨⟨⟨h1, _⟩, h2, h3⟩, h4⟩
        refine ⟨⟨⟨h1, h2⟩, h4⟩, ?_⟩
        cases hcb : ndb.crashed with
        | false => rfl
        | true => exact absurd hcb h3
      · rintro ⟨⟨⟨h1, h2⟩, h4⟩, h5⟩
        exact ⟨⟨⟨h1, ha'⟩, h2, by rw [h5]; simp⟩, h4⟩

/-- **(3) the relation at snapshot time, arbitrary rates**: whatever reference state the run so far is related to, the
    simulator state is also related to the reference state of its snapshot (the flags of the snapshot's network are what
    `snapshotNet` computes from the three rates; the snapshot takes over the deliverable copies only — no zombies — and
    `FlightRelF` does not look at the options `noFail` it gives them) -/
theorem timedRelF_snapshot [LawfulTime T] (bits : T → Nat) (laws : SnapTimeLaws bits) (q : Sim σ T) (r : RState σ)
    (gs : List (TimerGhost T)) (hr : TimedRelF bits q r gs) :
    ∃ gs₀, TimedRelF bits q (snapshotRef bits q) gs₀ := by
  have hwf := hr.queue.queueWF
  have hhand := hr.net.handlersOk
  have hsorted := hr.net.nodesSorted
  have hnd : (q.nodes.map (·.1)).Nodup := hsorted.nodup
  have hcrl := mem_crashedList q hhand hnd
  have hloc : ∀ n nd p e, amGet? n q.nodes = some nd → amGet? p nd.procs = some e →
      amGet? p q.net.procLoc = some n := by
    intro n nd p e hn hp
    exact (hr.proc.procs n p e (by rw [proc?_eq hn]; exact hp)).2
  -- the time laws on the live events
  have htime : ∀ e ∈ q.live, TimeOps.le TimeOps.zero (TimeOps.sub e.time q.clock) = true ∧
      e.time = TimeOps.add q.clock (TimeOps.ofBits (bits (TimeOps.sub e.time q.clock))) := by
    intro e he
    have hc : TimeOps.le q.clock e.time = true := hr.queue.clockOk e ((mem_live q e).1 he).1
    have h0 := laws.sub_nonneg q.clock e.time hc
    exact ⟨h0, by rw [laws.ofBits_bits _ h0, laws.add_sub _ _ hc]⟩
  -- flights and timers of the snapshot, read off the source list
  have hflights : (snapshotRef bits q).flights = (snapshotSource q).filterMap (fun e =>
      match snapEv bits q.clock (snapshotNet bits q).maxDelay e with
      | .msg m s d o => some (⟨m, s, d, o⟩ : Flight) | _ => none) :=
    flightsOf_zipIdx (snapshotSource q) _ 0
  have htimers : (snapshotRef bits q).timers = (snapshotSource q).filterMap (fun e =>
      match snapEv bits q.clock (snapshotNet bits q).maxDelay e with
      | .timer p nm d => some (⟨p, nm, d⟩ : PTimer) | _ => none) :=
    timersOf_zipIdx_rel (snapshotSource q) _ 0
  -- members of the ghost list
  have hghost : ∀ g, g ∈ (snapshotSource q).filterMap (snapGhost bits q.clock) ↔
      ∃ e ∈ q.live, ∃ p name, e.data = .timer p name ∧
        g = ⟨e.id, p, name, bits (TimeOps.sub e.time q.clock), q.clock⟩ := by
    intro g
    rw [List.mem_filterMap]
    constructor
    · rintro ⟨e, he, hg⟩
      rw [mem_snapshotSource_rel] at he
      unfold snapGhost at hg
      cases hd : e.data with
      | msg mid m src sn dst dn => rw [hd] at hg; cases hg
      | timer p name =>
        rw [hd] at hg
        exact ⟨e, he.1, p, name, hd, (Option.some.inj hg).symm⟩
    · rintro ⟨e, he, p, name, hd, rfl⟩
      refine ⟨e, (mem_snapshotSource_rel q e).2 ⟨he, by simp [snapKeep, hd]⟩, ?_⟩
      simp [snapGhost, hd]
  have htm : (snapshotRef bits q).timers =
      ((snapshotSource q).filterMap (snapGhost bits q.clock)).map TimerGhost.toPTimer := by
    rw [htimers, List.map_filterMap]
    apply filterMap_congr_mem
    intro e _
    unfold snapEv snapGhost
    cases e.data <;> rfl
  -- ids of the source list are distinct, and it is sorted by `(time, id)`
  have hids : (snapshotSource q).Pairwise (fun a b => a.id ≠ b.id) :=
    List.pairwise_map.1 (snapshotSource_ids_nodup_rel q hwf)
  have hsrc : (snapshotSource q).Pairwise (fun a b =>
      (evBefore b a = false ∧ a.id ≠ b.id) ∧ a ∈ q.live ∧ b ∈ q.live) := by
    refine List.Pairwise.imp_of_mem ?_ ((snapshotSource_sorted q).and hids)
    intro a b ha hb hab
    exact ⟨hab, ((mem_snapshotSource_rel q a).1 ha).1, ((mem_snapshotSource_rel q b).1 hb).1⟩
  -- at most one live timer event per (process, name)
  have huniq : ∀ e1 ∈ q.live, ∀ e2 ∈ q.live, ∀ p name, e1.data = .timer p name → e2.data = .timer p name →
      e1.id = e2.id := by
    intro e1 h1 e2 h2 p name hd1 hd2
    have hdl1 : e1 ∈ q.deliverable := (mem_deliverable q e1).2 ⟨h1, hr.timer.timerLive hwf h1 hd1⟩
    have hdl2 : e2 ∈ q.deliverable := (mem_deliverable q e2).2 ⟨h2, hr.timer.timerLive hwf h2 hd2⟩
    obtain ⟨g1, hg1, hid1, hp1, hn1, _⟩ := r7_ghost_of_timer hr hdl1 hd1
    obtain ⟨g2, hg2, hid2, hp2, hn2, _⟩ := r7_ghost_of_timer hr hdl2 hd2
    by_cases hne : g1 = g2
    · rw [← hid1, ← hid2, hne]
    · exfalso
      have hu := hr.timer.uniq
      unfold RState.timersUnique at hu
      rw [hr.timer.timers, List.pairwise_map] at hu
      rcases pairwise_mem_cases hu hg1 hg2 hne with h | h
      · exact h ⟨by simp [TimerGhost.toPTimer, hp1, hp2], by simp [TimerGhost.toPTimer, hn1, hn2]⟩
      · exact h ⟨by simp [TimerGhost.toPTimer, hp1, hp2], by simp [TimerGhost.toPTimer, hn1, hn2]⟩
  refine ⟨(snapshotSource q).filterMap (snapGhost bits q.clock),
    netRelF_snapshotNet bits q _ hr.net.locNodes hhand hsorted rfl hcrl,
    tprocRel_flat q _ hloc hnd rfl, hr.queue, ⟨?_, ?_, ?_, ?_, ?_, ?_, ?_, ?_, hr.timer.pendMap, ?_⟩, ⟨?_⟩⟩
  · exact htm
  · -- ghostsNodup
    show List.Pairwise (· ≠ ·) (List.map _ _)
    rw [List.pairwise_map]
    refine List.Pairwise.filterMap _ ?_ hids
    intro a a' hne b hb b' hb'
    obtain ⟨_, _, _, rfl⟩ := snapGhost_some hb
    obtain ⟨_, _, _, rfl⟩ := snapGhost_some hb'
    exact hne
  · -- ghostsTie: the source list is in `(time, id)` order
    refine List.Pairwise.filterMap _ ?_ hsrc
    rintro a a' ⟨⟨hbef, hne⟩, hla, hla'⟩ b hb b' hb' hfire
    obtain ⟨_, _, _, rfl⟩ := snapGhost_some hb
    obtain ⟨_, _, _, rfl⟩ := snapGhost_some hb'
    have hteq : a.time = a'.time := by
      rw [(htime a hla).2, (htime a' hla').2]; exact hfire
    obtain ⟨_, hle⟩ := (evBefore_eq_false_iff a' a).1 hbef
    have := hle (by rw [hteq]; exact LawfulTime.le_refl _)
    exact Nat.lt_of_le_of_ne this hne
  · -- ghostsCover
    intro e he p name hd
    exact ⟨_, (hghost _).2 ⟨e, he, p, name, hd, rfl⟩, rfl⟩
  · -- ghostsLive
    intro g hg
    obtain ⟨e, he, p, name, hd, rfl⟩ := (hghost g).1 hg
    exact ⟨e, (mem_deliverable q e).2 ⟨he, hr.timer.timerLive hwf he hd⟩, rfl, hd, (htime e he).2⟩
  · -- ghostClock
    intro g hg
    obtain ⟨e, he, p, name, hd, rfl⟩ := (hghost g).1 hg
    exact LawfulTime.le_refl _
  · -- ghostMono
    apply List.pairwise_of_forall_mem_list
    intro a ha b hb
    obtain ⟨e, he, p, name, hd, rfl⟩ := (hghost a).1 ha
    obtain ⟨e', he', p', name', hd', rfl⟩ := (hghost b).1 hb
    exact LawfulTime.le_refl _
  · -- ghostBits
    intro g hg
    obtain ⟨e, he, p, name, hd, rfl⟩ := (hghost g).1 hg
    show bits (TimeOps.ofBits (bits (TimeOps.sub e.time q.clock))) = bits (TimeOps.sub e.time q.clock)
    rw [laws.ofBits_bits _ (htime e he).1]
  · -- uniq
    unfold RState.timersUnique
    rw [htm, List.pairwise_map]
    refine List.Pairwise.filterMap _ ?_ hsrc
    rintro a a' ⟨⟨_, hne⟩, hla, hla'⟩ b hb b' hb' ⟨hp, hn⟩
    obtain ⟨p, name, hd, rfl⟩ := snapGhost_some hb
    obtain ⟨p', name', hd', rfl⟩ := snapGhost_some hb'
    simp only [TimerGhost.toPTimer] at hp hn
    subst hp hn
    exact hne (huniq a hla a' hla' _ _ hd hd')
  · -- flights, as a multiset of triples (the snapshot takes over the deliverable copies only: no zombies)
    refine ⟨[], ?_, fun _ => rfl⟩
    rw [List.append_nil]
    unfold liveKeys
    rw [hflights, List.map_filterMap]
    have h1 : (snapshotSource q).filterMap (fun e => Option.map Flight.key
        (match snapEv bits q.clock (snapshotNet bits q).maxDelay e with
          | .msg m s d o => some (⟨m, s, d, o⟩ : Flight) | _ => none)) =
        (snapshotSource q).filterMap (fun e => keyOfQ e.data) :=
      filterMap_congr_mem (fun e _ => by unfold snapEv keyOfQ; cases e.data <;> rfl)
    rw [h1]
    refine ((snapshotSource_perm q).filterMap _).trans ?_
    unfold deliverable
    rw [List.filterMap_filter, List.filterMap_filter]
    apply List.Perm.of_eq
    apply filterMap_congr_mem
    intro e he
    cases hd : e.data with
    | timer p name => simp [keyOfQ]
    | msg mid m src sn dst dn =>
      obtain ⟨hdn, hld, _⟩ := hr.queue.msgLoc e he mid m src sn dst dn hd
      have hhas := hr.net.locNodes dst dn hld
      have hk : snapKeep (crashedList q) e = q.handlers.contains e.dst := by
        simp only [snapKeep, hd]
        rw [hdn]
        by_cases hh : dn ∈ q.handlers
        · have : dn ∉ crashedList q := fun hc => ((hcrl dn).1 hc).2 hh
          simp [hh, this]
        · have : dn ∈ crashedList q := (hcrl dn).2 ⟨hhas, hh⟩
          simp [hh, this]
      rw [hk]

/-- the relation does not look at the trace of the reference state -/
theorem TimedRelF.withTrace (bits : T → Nat) (q : Sim σ T) (r : RState σ) (gs : List (TimerGhost T))
    (hr : TimedRelF bits q r gs) (tr : List LogE) : TimedRelF bits q { r with trace := tr } gs :=
  TimedRelF.congr_r (r := r) (r' := { r with trace := tr }) rfl rfl rfl rfl rfl hr

/-- the relation holds between a freshly built simulator state with an empty queue and its snapshot, whatever the
    rates (`timedRel_of_quiet` without the hypothesis on the rates) -/
theorem timedRelF_of_quiet [LawfulTime T] (bits : T → Nat) (q : Sim σ T) (hq : q.events = []) (hc : q.canceled = [])
    (hdel : TimeOps.le TimeOps.zero q.net.minDelay = true ∧ TimeOps.le q.net.minDelay q.net.maxDelay = true)
    (hpend : ∀ n nd p e, amGet? n q.nodes = some nd → amGet? p nd.procs = some e → e.pending = [])
    (hloc : ∀ n nd p e, amGet? n q.nodes = some nd → amGet? p nd.procs = some e → amGet? p q.net.procLoc = some n)
    (hlocNodes : ∀ p n, amGet? p q.net.procLoc = some n → amHas n q.nodes = true)
    (hhand : ∀ n, n ∈ q.handlers ↔ (∃ nd, amGet? n q.nodes = some nd ∧ nd.crashed = false))
    (hnodes : KSorted q.nodes) :
    TimedRelF bits q
      { procs := q.nodes.flatMap (fun nd => nd.2.procs.map fun pe => (pe.1, ({ st := pe.2.st, outbox := pe.2.outbox } : RProc σ))),
        crashedNodes := (q.nodes.filter (fun nd => !q.handlers.contains nd.1)).map (·.1),
        net := (snapshotNet bits q) } [] := by
  have hlive : q.live = [] := by unfold live; rw [hq]; rfl
  have hdeliv : q.deliverable = [] := by unfold deliverable; rw [hlive]; rfl
  refine ⟨netRelF_snapshotNet bits q _ hlocNodes hhand hnodes rfl ?_, tprocRel_flat q _ hloc hnodes.nodup rfl,
    ⟨?_, ?_, ?_, hdel, ?_, ?_⟩,
    ⟨rfl, List.nodup_nil, List.Pairwise.nil, ?_, ?_, ?_, List.Pairwise.nil, ?_, ?_, List.Pairwise.nil⟩, ⟨?_⟩⟩
  · -- crashed
    intro n
    simp only [List.mem_map, List.mem_filter, Bool.not_eq_true', List.contains_eq_mem, decide_eq_false_iff_not]
    rw [amHas_eq, amGet?_isSome_iff]
    constructor
    · rintro ⟨x, ⟨hx, hxh⟩, rfl⟩
      exact ⟨List.mem_map_of_mem hx, hxh⟩
    · rintro ⟨hm, hh⟩
      obtain ⟨x, hx, rfl⟩ := List.mem_map.1 hm
      exact ⟨x, ⟨hx, hh⟩, rfl⟩
  · -- queueWF
    unfold QueueWF; rw [hq]; exact ⟨List.nodup_nil, fun e he => by cases he⟩
  · unfold ClockOk; rw [hq]; intro e he; cases he
  · rw [hc]; intro id hid; cases hid
  · rw [hlive]; intro e he; cases he
  · rw [hlive]; intro e he; cases he
  · rw [hlive]; intro e he; cases he
  · intro g hg; cases hg
  · intro g hg; cases hg
  · intro g hg; cases hg
  · -- pendMap
    intro n p e _ he name id
    obtain ⟨nd, hn, hp⟩ := proc?_some he
    rw [hpend n nd p e hn hp, hlive]
    simp [amGet?]
  · refine ⟨[], ?_, fun _ => rfl⟩
    show List.Perm [] _
    unfold liveKeys
    rw [hdeliv]; exact List.Perm.nil

end Anysystem
