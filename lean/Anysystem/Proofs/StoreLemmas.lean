import Anysystem.Proofs.ResolverLemmas
/-!
# The concrete store represents the abstract one; one-step preservation
-/
namespace Anysystem

/-- the internal refinement invariant: `Abs` plus everything needed to preserve it -/
structure Rep (s : Store) (a : AStore) : Prop where
  inv : PInv a.pending a.next
  sorted : KSorted s.events
  get_eq : ∀ id, amGet? id s.events = amGet? id a.pending
  avail : ∀ id, id ∈ s.available ↔ id ∈ specOffered a.pending
  tm_eq : s.timerMapping = a.tm
  next_eq : s.idCounter = a.next
  res : RRep s.resolver a.pending

theorem Rep.empty : Rep {} {} :=
  ⟨PInv.nil, KSorted.nil, by simp [amGet?], by simp [specOffered, offeredFrom], rfl, rfl, RRep.empty⟩

theorem Rep.abs {s : Store} {a : AStore} (h : Rep s a) : Abs s a :=
  ⟨fun id => by rw [lookup_eq_amGet?]; exact h.get_eq id, h.avail, h.tm_eq, h.next_eq⟩

/-! ## `push_with_fixed_id` -/

theorem pushFixed_msg_eq (s : Store) (m : Msg) (sr d : Nat) (o : Opts) (id : Nat) :
    s.pushFixed (.msg m sr d o) id =
      if amHas id s.events then .error "event with such id already exists" else
      .ok { s with
        resolver := (s.resolver.addMessage m sr d id).1,
        available := if (s.resolver.addMessage m sr d id).2 then setInsert id s.available
                     else s.available,
        events := amInsert natLt id (.msg m sr d o) s.events } := rfl

theorem Rep.not_has {s : Store} {a : AStore} (h : Rep s a) {id : Nat} (hfresh : id ∉ keys a.pending) :
    amHas id s.events = false := by
  rw [amHas_eq, h.get_eq, amGet?_none_of_fresh hfresh]
  rfl

theorem Rep.pushFixed_msg {s : Store} {a : AStore} (h : Rep s a) (m : Msg) (sr d : Nat) (o : Opts)
    (id n' : Nat) (hfresh : id ∉ keys a.pending) (hid : id < n') (hn : a.next ≤ n') :
    ∃ s', ({ s with idCounter := n' }).pushFixed (.msg m sr d o) id = .ok s' ∧
      Rep s' { pending := a.pending ++ [(id, .msg m sr d o)], tm := a.tm, next := n' } := by
  have hhas := h.not_has hfresh
  obtain ⟨hr, hflag⟩ := h.res.addMessage m sr d id o hfresh
  rw [pushFixed_msg_eq]
  simp only [hhas, Bool.false_eq_true, ↓reduceIte]
  refine ⟨_, rfl, ⟨?_, ?_, ?_, ?_, h.tm_eq, rfl, hr⟩⟩
  · refine h.inv.append id _ n' (Or.inl rfl) hfresh hid hn ?_
    intro ht; simp [Ev.isTimer] at ht
  · exact h.sorted.amInsert _ _
  · intro j
    simp only [amGet?_amInsert, amGet?_append_fresh _ hfresh, h.get_eq]
  · intro j
    simp only [mem_specOffered_append, hflag]
    have hiff : (∀ y ∈ a.pending, blocks y.2 (Ev.msg m sr d o) = false) ↔
        fifo a.pending (m, sr, d) = [] := by
      simp only [fifo, List.map_eq_nil_iff, List.filter_eq_nil_iff, blocks_msg]
      constructor
      · intro hh y hy; simp [hh y hy]
      · intro hh y hy; simpa using hh y hy
    rw [hiff]
    cases hf : fifo a.pending (m, sr, d) with
    | nil =>
      simp only [List.isEmpty_nil, ↓reduceIte, mem_setInsert, h.avail, and_true]
      exact or_comm
    | cons x xs =>
      simp [h.avail]

theorem pushFixed_timer_eq (s : Store) (p nm dl id : Nat) :
    s.pushFixed (.timer p nm dl) id =
      if amHas id s.events then .error "event with such id already exists" else
      match s.resolver.addTimer p dl id with
      | .error err => .error err
      | .ok (res, avail) =>
        .ok { s with resolver := res, timerMapping := amInsert pairLt (p, nm) id s.timerMapping,
                     available := if avail then setInsert id s.available else s.available,
                     events := amInsert natLt id (.timer p nm dl) s.events } := rfl

theorem Rep.pushFixed_timer {s : Store} {a : AStore} (h : Rep s a) (p nm dl : Nat) :
    ∃ s', ({ s with idCounter := a.next + 1 }).pushFixed (.timer p nm dl) a.next = .ok s' ∧
      Rep s' { pending := a.pending ++ [(a.next, .timer p nm dl)],
               tm := amInsert pairLt (p, nm) a.next a.tm, next := a.next + 1 } := by
  have hfresh : a.next ∉ keys a.pending := by
    intro hm
    obtain ⟨x, hx, hxe⟩ := List.mem_map.mp hm
    have := h.inv.lt_next x hx
    omega
  have hhas := h.not_has hfresh
  obtain ⟨r', b, hadd, hr, hflag⟩ := h.res.addTimer p nm dl a.next hfresh h.inv.lt_next
  rw [pushFixed_timer_eq]
  simp only [hhas, Bool.false_eq_true, ↓reduceIte, hadd]
  refine ⟨_, rfl, ⟨?_, ?_, ?_, ?_, ?_, rfl, hr⟩⟩
  · exact h.inv.append _ _ _ (Or.inr rfl) hfresh (Nat.lt_succ_self _) (Nat.le_succ _)
      (fun _ => h.inv.lt_next)
  · exact h.sorted.amInsert _ _
  · intro j
    simp only [amGet?_amInsert, amGet?_append_fresh _ hfresh, h.get_eq]
  · intro j
    simp only [mem_specOffered_append]
    have hiff : (∀ y ∈ a.pending, blocks y.2 (Ev.timer p nm dl) = false) ↔ b = true := by
      rw [hflag]
      constructor
      · intro hh b' n' d' hg hle
        have := hh _ (amGet?_eq_some_mem hg)
        simp [blocks, hle] at this
      · intro hh y hy
        obtain ⟨j, ev⟩ := y
        have hg := amGet?_of_mem_nodup h.inv.nodup hy
        cases ev <;> simp only [blocks] <;> try rfl
        rename_i p' n' d'
        by_cases hp : p' = p
        · subst hp
          have := hh j n' d' hg
          simp [this]
        · simp [hp]
    rw [hiff]
    cases b with
    | true =>
      simp only [↓reduceIte, mem_setInsert, h.avail, and_true]
      exact or_comm
    | false => simp [h.avail]
  · simp only [h.tm_eq]

/-! ## `pop` -/

theorem pop_timer_eq (s : Store) (id p nm dl : Nat)
    (hg : amGet? id s.events = some (.timer p nm dl)) :
    s.pop {} id =
      match s.resolver.removeTimer id with
      | .error err => .error err
      | .ok (res, unblocked) =>
        .ok ({ s with events := amErase id s.events, resolver := res,
                      available := unblocked.foldl (fun a x => setInsert x a)
                        (setErase id s.available) }, .timer p nm dl) := by
  simp only [Store.pop, hg]
  rfl

theorem pop_msg_eq (s : Store) (id : Nat) (m : Msg) (sr d : Nat) (o : Opts)
    (hg : amGet? id s.events = some (.msg m sr d o)) :
    s.pop {} id =
      match s.resolver.removeMessageById m sr d id with
      | .error err => .error err
      | .ok (res, unb) =>
        .ok ({ s with events := amErase id s.events, resolver := res,
                      available := match unb with
                        | some u => setInsert u (setErase id s.available)
                        | none => setErase id s.available }, .msg m sr d o) := by
  simp only [Store.pop, hg, Bool.false_eq_true, ↓reduceIte]
  rfl

theorem Rep.pop {s : Store} {a : AStore} (h : Rep s a) {id : Nat} {e : Ev}
    (hid : amGet? id a.pending = some e) :
    ∃ s', s.pop {} id = .ok (s', e) ∧ Rep s' (a.erase id) := by
  have hev : amGet? id s.events = some e := by rw [h.get_eq]; exact hid
  have hinv' : PInv (a.pending.filter (·.1 != id)) a.next := h.inv.filter _
  have hget' : ∀ j, amGet? j (amErase id s.events) = amGet? j (a.pending.filter (·.1 != id)) := by
    intro j
    simp only [amGet?_amErase, amGet?_erase, h.get_eq]
  have hlive : ∀ {i : Nat}, i ∈ specOffered (a.pending.filter (·.1 != id)) →
      i ≠ id ∧ ∃ ei, amGet? i a.pending = some ei := by
    intro i hi
    obtain ⟨ei, hei⟩ := specOffered_live hi
    simp only [amGet?_erase] at hei
    split at hei
    · simp at hei
    · rename_i hne; exact ⟨hne, ei, hei⟩
  have hkind := h.inv.kinds _ (amGet?_eq_some_mem hid)
  cases e with
  | timer p nm dl =>
    obtain ⟨r', unb, hrem, hr, hunb⟩ := h.res.removeTimer h.inv hid
    rw [pop_timer_eq s id p nm dl hev, hrem]
    refine ⟨_, rfl, ⟨hinv', h.sorted.amErase _, hget', ?_, h.tm_eq, h.next_eq, hr⟩⟩
    intro i
    simp only [mem_foldl_setInsert, mem_setErase, h.avail]
    constructor
    · rintro (hu | ⟨hne, ho⟩)
      · obtain ⟨info, hi, hip, hb⟩ := (hunb i).mp hu
        obtain ⟨⟨n', hn⟩, hbl⟩ := hr.timers_sound i info hi
        rw [hip] at hn
        apply (offered_timer hinv' hn).mpr
        intro b n'' d'' hgb hlt hle
        have : b ∈ info.blockers := (hbl b).mpr ⟨hlt, n'', d'', by rw [hip]; exact hgb, hle⟩
        rw [hb] at this
        simp at this
      · exact offered_erase_mono h.inv hne ho
    · intro ho
      obtain ⟨hne, ei, hei⟩ := hlive ho
      by_cases hbk : blocks (Ev.timer p nm dl) ei = true
      · left
        cases ei <;> simp only [blocks, Bool.false_eq_true] at hbk
        rename_i p' n' d'
        simp only [Bool.and_eq_true, beq_iff_eq, decide_eq_true_eq] at hbk
        obtain ⟨rfl, _⟩ := hbk
        have hei' : amGet? i (a.pending.filter (·.1 != id)) = some (.timer p n' d') := by
          simp only [amGet?_erase, hne, ↓reduceIte]; exact hei
        obtain ⟨info, hi⟩ := Option.isSome_iff_exists.mp (hr.timers_complete i p n' d' hei')
        obtain ⟨⟨n'', hn⟩, hbl⟩ := hr.timers_sound i info hi
        rw [hei'] at hn
        simp only [Option.some.injEq, Ev.timer.injEq] at hn
        obtain ⟨hp, _, hd⟩ := hn
        refine (hunb i).mpr ⟨info, hi, hp.symm, ?_⟩
        rw [List.eq_nil_iff_forall_not_mem]
        intro b hb
        obtain ⟨hlt, n3, d3, hg3, hle3⟩ := (hbl b).mp hb
        rw [← hp] at hg3
        rw [← hd] at hle3
        exact (offered_timer hinv' hei').mp ho b n3 d3 hg3 hlt hle3
      · right
        have hbk' : blocks (Ev.timer p nm dl) ei = false := by simpa using hbk
        exact ⟨hne, (offered_erase_unrelated h.inv hne hei hid hbk').mp ho⟩
  | msg m sr d o =>
    obtain ⟨r', unb, hrem, hr, hunb⟩ := h.res.removeMessage h.inv hid
    rw [pop_msg_eq s id m sr d o hev, hrem]
    refine ⟨_, rfl, ⟨hinv', h.sorted.amErase _, hget', ?_, h.tm_eq, h.next_eq, hr⟩⟩
    intro i
    have hav : i ∈ (match unb with
        | some u => setInsert u (setErase id s.available)
        | none => setErase id s.available) ↔ unb = some i ∨ (i ≠ id ∧ i ∈ s.available) := by
      cases unb with
      | none => simp [mem_setErase]
      | some u =>
        simp only [mem_setInsert, mem_setErase, Option.some.injEq]
        constructor
        · rintro (hh | hh)
          · exact Or.inl hh.symm
          · exact Or.inr hh
        · rintro (hh | hh)
          · exact Or.inl hh.symm
          · exact Or.inr hh
    simp only
    rw [hav, hunb i, h.avail]
    have hndA' := hinv'.nodup
    constructor
    · rintro (⟨_, hh⟩ | ⟨hne, ho⟩)
      · have hmem : i ∈ fifo (a.pending.filter (·.1 != id)) (m, sr, d) := by
          exact List.mem_of_mem_head? hh
        obtain ⟨ei, hgi, hk⟩ := (mem_fifo hndA' _ i).mp hmem
        cases ei <;> simp only [isKey, Bool.false_eq_true] at hk
        rename_i m' s' d' o'
        simp only [decide_eq_true_eq, Prod.mk.injEq] at hk
        obtain ⟨rfl, rfl, rfl⟩ := hk
        exact (offered_msg hinv' hgi).mpr hh
      · exact offered_erase_mono h.inv hne ho
    · intro ho
      obtain ⟨hne, ei, hei⟩ := hlive ho
      by_cases hbk : blocks (Ev.msg m sr d o) ei = true
      · cases ei <;> simp only [blocks, Bool.false_eq_true] at hbk
        rename_i m' s' d' o'
        simp only [Bool.and_eq_true, beq_iff_eq, decide_eq_true_eq] at hbk
        obtain ⟨⟨rfl, rfl⟩, rfl⟩ := hbk
        have hei' : amGet? i (a.pending.filter (·.1 != id)) = some (.msg m sr d o') := by
          simp only [amGet?_erase, hne, ↓reduceIte]; exact hei
        have hh := (offered_msg hinv' hei').mp ho
        by_cases hhead : (fifo a.pending (m, sr, d)).head? = some id
        · exact Or.inl ⟨hhead, hh⟩
        · right
          refine ⟨hne, (offered_msg h.inv hei).mpr ?_⟩
          rw [fifo_filter] at hh
          cases hf : fifo a.pending (m, sr, d) with
          | nil => rw [hf] at hh; simp at hh
          | cons x xs =>
            rw [hf] at hh hhead
            simp only [List.head?_cons, Option.some.injEq] at hhead
            have : (x != id) = true := by simpa using hhead
            simp only [List.filter_cons, this, ↓reduceIte, List.head?_cons] at hh
            simpa using hh
      · right
        have hbk' : blocks (Ev.msg m sr d o) ei = false := by simpa using hbk
        exact ⟨hne, (offered_erase_unrelated h.inv hne hei hid hbk').mp ho⟩
  | timerCancelled _ _ => simp [Ev.isMsg, Ev.isTimer] at hkind
  | dropped _ _ _ _ => simp [Ev.isMsg, Ev.isTimer] at hkind
  | duplicated _ _ _ _ => simp [Ev.isMsg, Ev.isTimer] at hkind
  | corrupted _ _ _ _ _ => simp [Ev.isMsg, Ev.isTimer] at hkind

/-! ## `cancel_timer` -/

theorem Rep.set_tm {s : Store} {a : AStore} (h : Rep s a) (t : List ((Nat × Nat) × Nat)) :
    Rep { s with timerMapping := t } { a with tm := t } :=
  ⟨h.inv, h.sorted, h.get_eq, h.avail, rfl, h.next_eq, h.res⟩

theorem Rep.cancelTimer {s : Store} {a a' : AStore} {o : Out} (h : Rep s a) (p nm : Nat)
    (hs : a.step (.cancelTimer p nm) = some (a', o)) :
    ∃ s', s.cancelTimer {} p nm = .ok s' ∧ Rep s' a' ∧ o = .unit := by
  simp only [AStore.step] at hs
  cases hg : amGet? (p, nm) a.tm with
  | none =>
    simp only [hg, Option.some.injEq, Prod.mk.injEq] at hs
    obtain ⟨rfl, rfl⟩ := hs
    exact ⟨s, by simp only [Store.cancelTimer, h.tm_eq, hg], h, rfl⟩
  | some id =>
    simp only [hg, Option.some.injEq, Prod.mk.injEq] at hs
    obtain ⟨rfl, rfl⟩ := hs
    have h1 := h.set_tm (amErase (p, nm) a.tm)
    cases hl : amGet? id a.pending with
    | none =>
      have hhas : amHas id s.events = false := by rw [amHas_eq, h.get_eq, hl]; rfl
      refine ⟨{ s with timerMapping := amErase (p, nm) a.tm }, ?_, ?_, rfl⟩
      · simp only [Store.cancelTimer, h.tm_eq, hg, hhas, Bool.not_false, Bool.and_self, ↓reduceIte]
      · have hf : a.pending.filter (·.1 != id) = a.pending := by
          rw [List.filter_eq_self]
          intro x hx
          simp only [bne_iff_ne, ne_eq]
          intro e
          rw [amGet?_eq_none_iff] at hl
          exact hl x hx e
        have : ({ (a.erase id) with tm := amErase (p, nm) a.tm } : AStore)
            = { a with tm := amErase (p, nm) a.tm } := by
          simp only [AStore.erase, hf]
        rw [this]
        exact h1
    | some e =>
      have hhas : amHas id s.events = true := by rw [amHas_eq, h.get_eq, hl]; rfl
      obtain ⟨s2, hpop, hr2⟩ := h1.pop (id := id) (e := e) hl
      refine ⟨s2, ?_, hr2, rfl⟩
      simp only [Store.cancelTimer, h.tm_eq, hg, hhas, Bool.not_true, Bool.and_false,
        Bool.false_eq_true, ↓reduceIte, hpop]

/-! ## `cancel_proc_events` -/

/-- the `MessageDropped` event produced when cancelling event `e` with id `id` -/
def dropEv (id : Nat) : Ev → Option Ev
  | .msg m sr d _ => some (.dropped m sr d (some id))
  | _ => none

theorem go_cons_eq {s s' : Store} {id : Nat} {e : Ev} (rest : List Nat) (acc : List Ev)
    (hpop : s.pop {} id = .ok (s', e)) :
    Store.cancelProcEvents.go {} (id :: rest) s acc =
      Store.cancelProcEvents.go {} rest s' (acc ++ (dropEv id e).toList) := by
  simp only [Store.cancelProcEvents.go, hpop]
  cases e <;> simp [dropEv]

theorem filterMap_congr' {α β : Type} {f g : α → Option β} {l : List α}
    (h : ∀ x ∈ l, f x = g x) : l.filterMap f = l.filterMap g := by
  induction l with
  | nil => rfl
  | cons x xs ih =>
    simp only [List.filterMap_cons, h x (by simp)]
    rw [ih (fun y hy => h y (by simp [hy]))]

theorem Rep.cancelGo (ids : List Nat) : ∀ {s : Store} {a : AStore}, Rep s a → ∀ (acc : List Ev),
    ids.Nodup → (∀ i ∈ ids, (amGet? i a.pending).isSome = true) →
    ∃ s', Store.cancelProcEvents.go {} ids s acc =
        .ok (s', acc ++ ids.filterMap (fun i => (amGet? i a.pending).bind (dropEv i))) ∧
      Rep s' { a with pending := a.pending.filter (fun x => !ids.contains x.1) } := by
  induction ids with
  | nil =>
    intro s a h acc _ _
    refine ⟨s, by simp [Store.cancelProcEvents.go], ?_⟩
    have : ({ a with pending := a.pending.filter (fun x => !([] : List Nat).contains x.1) } : AStore)
        = a := by
      have : a.pending.filter (fun _ => true) = a.pending := List.filter_eq_self.mpr (fun _ _ => rfl)
      simp [this]
    rw [this]
    exact h
  | cons id rest ih =>
    intro s a h acc hnd hlive
    rw [List.nodup_cons] at hnd
    obtain ⟨e, he⟩ := Option.isSome_iff_exists.mp (hlive id (by simp))
    obtain ⟨s1, hpop, hr1⟩ := h.pop he
    have hlive1 : ∀ i ∈ rest, (amGet? i (a.erase id).pending).isSome = true := by
      intro i hi
      have hne : i ≠ id := by intro e'; subst e'; exact hnd.1 hi
      simp only [AStore.erase, amGet?_erase, hne, ↓reduceIte]
      exact hlive i (by simp [hi])
    obtain ⟨s2, hgo, hr2⟩ := ih hr1 (acc ++ (dropEv id e).toList) hnd.2 hlive1
    refine ⟨s2, ?_, ?_⟩
    · rw [go_cons_eq rest acc hpop, hgo]
      have hcongr : rest.filterMap (fun i => (amGet? i (a.erase id).pending).bind (dropEv i))
          = rest.filterMap (fun i => (amGet? i a.pending).bind (dropEv i)) := by
        apply filterMap_congr'
        intro i hi
        have hne : i ≠ id := by intro e'; subst e'; exact hnd.1 hi
        simp only [AStore.erase, amGet?_erase, hne, ↓reduceIte]
      rw [hcongr]
      simp only [List.filterMap_cons, he, Option.bind_some]
      cases dropEv id e <;> simp
    · have : ({ a.erase id with
          pending := (a.erase id).pending.filter (fun x => !rest.contains x.1) } : AStore)
          = { a with pending := a.pending.filter (fun x => !(id :: rest).contains x.1) } := by
        simp only [AStore.erase, List.filter_filter, AStore.mk.injEq, and_true]
        apply List.filter_congr
        intro x _
        by_cases hx : x.1 = id
        · simp [hx]
        · simp [hx]
      rw [← this]
      exact hr2

theorem foldl_amInsert_sorted (L : List (Nat × Ev)) (acc : List (Nat × Ev)) (h : KSorted acc) :
    KSorted (L.foldl (fun acc x => amInsert natLt x.1 x.2 acc) acc) := by
  induction L generalizing acc with
  | nil => exact h
  | cons x L ih => exact ih _ (h.amInsert _ _)

theorem foldl_amInsert_get (L : List (Nat × Ev)) (acc : List (Nat × Ev)) (hnd : (keys L).Nodup)
    (k : Nat) :
    amGet? k (L.foldl (fun acc x => amInsert natLt x.1 x.2 acc) acc)
      = (amGet? k L).or (amGet? k acc) := by
  induction L generalizing acc with
  | nil => simp [amGet?]
  | cons x L ih =>
    obtain ⟨j, e⟩ := x
    simp only [keys, List.map_cons, List.nodup_cons] at hnd
    simp only [List.foldl_cons, ih _ hnd.2, amGet?_amInsert, amGet?]
    split
    · subst_vars
      rw [amGet?_none_of_fresh hnd.1]
      simp
    · rfl

theorem Rep.cancelProc {s : Store} {a a' : AStore} {o : Out} (h : Rep s a) (p : Nat)
    (hs : a.step (.cancelProc p) = some (a', o)) :
    ∃ s' l, s.cancelProcEvents {} p = .ok (s', l) ∧ Rep s' a' ∧ o = .evs l := by
  simp only [AStore.step, Option.some.injEq, Prod.mk.injEq] at hs
  obtain ⟨rfl, rfl⟩ := hs
  have hndE := h.sorted.nodup
  have hndA := h.inv.nodup
  -- the sorted victims are the touched part of the events map
  have hV : (a.pending.filter (fun x => Store.touches p x.2)).foldl
      (fun acc x => amInsert natLt x.1 x.2 acc) [] = s.events.filter (fun e => Store.touches p e.2) := by
    apply KSorted.ext
    · exact foldl_amInsert_sorted _ _ KSorted.nil
    · exact h.sorted.filter _
    · intro k
      have hndV : (keys (a.pending.filter (fun x => Store.touches p x.2))).Nodup :=
        hndA.sublist (List.Sublist.map _ List.filter_sublist)
      rw [foldl_amInsert_get _ _ hndV, amGet?_filter _ _ hndA, amGet?_filter _ _ hndE, h.get_eq]
      simp [amGet?]
  have hmemE : ∀ x ∈ s.events, amGet? x.1 a.pending = some x.2 := by
    intro x hx
    rw [← h.get_eq]
    exact amGet?_of_mem_nodup hndE hx
  have hnd : ((s.events.filter (fun e => Store.touches p e.2)).map (·.1)).Nodup :=
    hndE.sublist (List.Sublist.map _ List.filter_sublist)
  have hlive : ∀ i ∈ (s.events.filter (fun e => Store.touches p e.2)).map (·.1),
      (amGet? i a.pending).isSome = true := by
    intro i hi
    obtain ⟨x, hx, rfl⟩ := List.mem_map.mp hi
    rw [hmemE x (List.mem_filter.mp hx).1]
    rfl
  obtain ⟨s', hgo, hr⟩ := Rep.cancelGo _ h [] hnd hlive
  refine ⟨s', _, ?_, ?_, rfl⟩
  · simp only [Store.cancelProcEvents, hgo, List.nil_append, hV, List.filterMap_map]
    congr 2
    apply filterMap_congr'
    intro x hx
    simp only [Function.comp_apply, hmemE x (List.mem_filter.mp hx).1, Option.bind_some]
    obtain ⟨i, e⟩ := x
    cases e <;> rfl
  · have : a.pending.filter (fun x => !Store.touches p x.2) = a.pending.filter (fun x =>
        !((s.events.filter (fun e => Store.touches p e.2)).map (·.1)).contains x.1) := by
      apply List.filter_congr
      intro x hx
      congr 1
      have hgx : amGet? x.1 a.pending = some x.2 := amGet?_of_mem_nodup hndA hx
      rw [Bool.eq_iff_iff]
      simp only [List.contains_iff_mem, List.mem_map, List.mem_filter]
      constructor
      · intro ht
        refine ⟨x, ⟨?_, ht⟩, rfl⟩
        rw [← h.get_eq] at hgx
        exact amGet?_eq_some_mem hgx
      · rintro ⟨y, ⟨hy, ht⟩, hyx⟩
        have := hmemE y hy
        rw [hyx, hgx] at this
        simp only [Option.some.injEq] at this
        rw [this]; exact ht
    rw [this]
    exact hr

/-! ## One step and whole runs -/

theorem Rep.step {s : Store} {a a' : AStore} {op : Op} {o : Out} (h : Rep s a)
    (hs : a.step op = some (a', o)) : ∃ s', s.stepOp {} op = .ok (s', o) ∧ Rep s' a' := by
  have hfreshNext : a.next ∉ keys a.pending := by
    intro hm
    obtain ⟨x, hx, hxe⟩ := List.mem_map.mp hm
    have := h.inv.lt_next x hx
    omega
  cases op with
  | push e =>
    cases e with
    | msg m sr d o' =>
      simp only [AStore.step, Ev.isMsg, ↓reduceIte, Option.some.injEq, Prod.mk.injEq] at hs
      obtain ⟨rfl, rfl⟩ := hs
      obtain ⟨s', hp, hr⟩ := h.pushFixed_msg m sr d o' a.next (a.next + 1) hfreshNext
        (Nat.lt_succ_self _) (Nat.le_succ _)
      refine ⟨s', ?_, hr⟩
      simp only [Store.stepOp, Store.push, h.next_eq, hp]
    | timer p nm dl =>
      simp only [AStore.step, Ev.isMsg, Bool.false_eq_true, ↓reduceIte, Option.some.injEq,
        Prod.mk.injEq] at hs
      obtain ⟨rfl, rfl⟩ := hs
      obtain ⟨s', hp, hr⟩ := h.pushFixed_timer p nm dl
      refine ⟨s', ?_, hr⟩
      simp only [Store.stepOp, Store.push, h.next_eq, hp]
    | timerCancelled _ _ => simp [AStore.step, Ev.isMsg] at hs
    | dropped _ _ _ _ => simp [AStore.step, Ev.isMsg] at hs
    | duplicated _ _ _ _ => simp [AStore.step, Ev.isMsg] at hs
    | corrupted _ _ _ _ _ => simp [AStore.step, Ev.isMsg] at hs
  | reinsert e id =>
    simp only [AStore.step] at hs
    split at hs
    · rename_i hc
      simp only [Bool.and_eq_true, Bool.not_eq_eq_eq_not, Bool.not_true, decide_eq_true_eq] at hc
      simp only [Option.some.injEq, Prod.mk.injEq] at hs
      obtain ⟨rfl, rfl⟩ := hs
      have hfresh := (not_live_iff a id).mp hc.1.2
      cases e with
      | msg m sr d o' =>
        obtain ⟨s', hp, hr⟩ := h.pushFixed_msg m sr d o' id a.next hfresh hc.2 (Nat.le_refl _)
        have hs0 : ({ s with idCounter := a.next } : Store) = s := by
          rw [← h.next_eq]
        rw [hs0] at hp
        refine ⟨s', ?_, hr⟩
        simp only [Store.stepOp, hp]
      | timer _ _ _ => simp [Ev.isMsg] at hc
      | timerCancelled _ _ => simp [Ev.isMsg] at hc
      | dropped _ _ _ _ => simp [Ev.isMsg] at hc
      | duplicated _ _ _ _ => simp [Ev.isMsg] at hc
      | corrupted _ _ _ _ _ => simp [Ev.isMsg] at hc
    · simp at hs
  | pop id =>
    simp only [AStore.step] at hs
    split at hs
    · rename_i e he
      simp only [Option.some.injEq, Prod.mk.injEq] at hs
      obtain ⟨rfl, rfl⟩ := hs
      rw [lookup_eq_amGet?] at he
      obtain ⟨s', hp, hr⟩ := h.pop he
      exact ⟨s', by simp only [Store.stepOp, hp], hr⟩
    · simp at hs
  | cancelTimer p nm =>
    obtain ⟨s', hc, hr, rfl⟩ := h.cancelTimer p nm hs
    exact ⟨s', by simp only [Store.stepOp, hc], hr⟩
  | cancelProc p =>
    obtain ⟨s', l, hc, hr, rfl⟩ := h.cancelProc p hs
    exact ⟨s', by simp only [Store.stepOp, hc], hr⟩

theorem Rep.run {s : Store} {a a' : AStore} {ops : List Op} {os : List Out} (h : Rep s a)
    (hs : a.run ops = some (a', os)) : ∃ s', s.runOps {} ops = .ok (s', os) ∧ Rep s' a' := by
  induction ops generalizing s a os with
  | nil =>
    simp only [AStore.run, Option.some.injEq, Prod.mk.injEq] at hs
    obtain ⟨rfl, rfl⟩ := hs
    exact ⟨s, rfl, h⟩
  | cons op ops ih =>
    simp only [AStore.run] at hs
    split at hs
    · simp at hs
    · rename_i a1 o1 hstep
      split at hs
      · simp at hs
      · rename_i a2 os2 hrun
        simp only [Option.some.injEq, Prod.mk.injEq] at hs
        obtain ⟨rfl, rfl⟩ := hs
        obtain ⟨s1, hs1, hr1⟩ := h.step hstep
        obtain ⟨s2, hs2, hr2⟩ := ih hr1 hrun
        exact ⟨s2, by simp only [Store.runOps, hs1, hs2], hr2⟩

end Anysystem
