import Anysystem.Proofs.R4Defs
import Anysystem.Proofs.SimStepThms
import Anysystem.Proofs.DetLemmas
/-!
# Helper lemmas for `R4.lean` (the simulator step refines the reference semantics; duplication and corruption rates
zero, drop rate arbitrary)

Sections, in dependency order:
* `R4Lemmas`  — lists, `live` / `deliverable`, what `nextEvent` leaves alone;
* `R4View`    — the part of a simulator state the relation looks at (`SameView`), congruence of the clauses;
* `R4Queue`   — `QueueOk` and `FlightRel` under a change of the event queue;
* `R4Timer`   — `TimerRel` under a change of the event queue (`liveChange`, `addTimer`, `remove`);
* `R4Ref`     — the reference side of one `Context` call, `TProcRel.upd`, the context `RState.Ctx`;
* `R4Prims`   — the relation follows the primitive state changes (`updVisible`, `addMsg`, `cancelTimer`, `setTimer`);
* `R4Eqns`    — equations for one timer call of `handle_process_actions`;
* `R4Acts`    — `send_local`, `set_timer`, `set_timer_once`, `cancel_timer` on both sides;
* `R4Send`    — `send` on both sides (a send the simulator drops at random leaves a zombie flight in the reference state);
* `R4Run`     — a whole action list (`acts_sim`), inversion of `step` / `onTimer`, the oldest identical flight;
* `R4Pop`     — popping the next event (`pop_frame`, `pop_undeliverable`, `r4_pop_msg`);
* `R4PopTimer`— `popped_timer_unblocked`, `r4_pop_timer`;
* `R4Tail`    — running the handler on related states (`handler_tail`);
* `R4Quiet`   — lemmas for `timedRel_of_quiet`.
-/
namespace Anysystem

set_option linter.unusedSectionVars false
set_option linter.unusedVariables false
set_option linter.unusedSimpArgs false

/-! # section R4Lemmas -/
section R4Lemmas
variable {σ T : Type} [TimeOps T]

/-! ## lists -/

theorem filterMap_filter_none {α β : Type} (P : α → Bool) (F : α → Option β) (l : List α)
    (h : ∀ x ∈ l, P x = false → F x = none) : (l.filter P).filterMap F = l.filterMap F := by
  induction l with
  | nil => rfl
  | cons a l ih =>
    have ih' := ih (fun x hx => h x (List.mem_cons_of_mem _ hx))
    cases hp : P a with
    | true => simp [List.filter_cons, hp, List.filterMap_cons, ih']
    | false =>
      have := h a List.mem_cons_self hp
      simp [List.filter_cons, hp, List.filterMap_cons, ih', this]

theorem filter_eq_self_of {α : Type} (P : α → Bool) (l : List α) (h : ∀ x ∈ l, P x = true) : l.filter P = l :=
  List.filter_eq_self.2 h

namespace Sim

/-! ## `live` and `deliverable` -/

theorem live_eq (s : Sim σ T) : s.live = s.events.filter (fun e => !s.canceled.contains e.id) := rfl

theorem mem_live (s : Sim σ T) (x : QEv T) : x ∈ s.live ↔ x ∈ s.events ∧ x.id ∉ s.canceled := mem_liveOf s x

theorem mem_deliverable (s : Sim σ T) (x : QEv T) : x ∈ s.deliverable ↔ x ∈ s.live ∧ x.dst ∈ s.handlers := by
  simp [deliverable, List.mem_filter]

theorem live_addEvent (s : Sim σ T) (data : QData) (src dst : Nat) (d : T) (hc : s.eventCount ∉ s.canceled) :
    (s.addEvent data src dst d).1.live = s.live ++ [⟨s.eventCount, TimeOps.add s.clock d, src, dst, data⟩] := by
  simp [live, addEvent, List.filter_append, List.filter_cons, hc]

theorem live_cancelEvent (s : Sim σ T) (c : Nat) : (s.cancelEvent c).live = s.live.filter (fun x => x.id != c) := by
  simp only [live, cancelEvent, List.filter_filter]
  apply List.filter_congr
  intro x _
  rw [Bool.eq_iff_iff]
  simp [mem_setInsert]

theorem ids_nodup_live (s : Sim σ T) (h : s.QueueWF) : (s.live.map (·.id)).Nodup :=
  (List.Sublist.map _ List.filter_sublist).nodup h.1

theorem live_eq_of_id (s : Sim σ T) (h : s.QueueWF) {x y : QEv T} (hx : x ∈ s.live) (hy : y ∈ s.live)
    (hid : x.id = y.id) : x = y :=
  eq_of_id_eq_of_nodup h.1 ((mem_live s x).1 hx).1 ((mem_live s y).1 hy).1 hid

/-! ## `nextEvent`: everything but the queue and the clock is untouched -/

theorem nextEvent_frame_r4 [LawfulTime T] (fuel : Nat) (s s' : Sim σ T) (e : QEv T)
    (h : nextEvent fuel s = (some e, s')) :
    s'.net = s.net ∧ s'.nodes = s.nodes ∧ s'.handlers = s.handlers ∧ s'.eventCount = s.eventCount ∧
    s'.draws = s.draws ∧ s'.clock = e.time ∧ (∀ id ∈ s'.canceled, id ∈ s.canceled) ∧
    s'.live = s.live.filter (fun x => x.id != e.id) := by
  induction fuel generalizing s with
  | zero => simp [nextEvent] at h
  | succ fuel ih =>
    rw [nextEvent_succ] at h
    split at h
    · cases h
    · rename_i m hm
      split at h
      · rename_i hc
        have hc' : m.id ∈ s.canceled := by simpa using hc
        obtain ⟨h1, h2, h3, h4, h5, h6, h7, h8⟩ := ih _ h
        refine ⟨h1, h2, h3, h4, h5, h6, ?_, ?_⟩
        · intro id hid
          have := h7 id hid
          exact ((mem_setErase _ _ _).1 this).2
        · have := liveOf_skip s m hc'
          unfold liveOf at this
          unfold live at h8 ⊢
          rw [h8]
          simp only at this ⊢
          rw [this]
      · cases h
        refine ⟨rfl, rfl, rfl, rfl, rfl, rfl, fun _ h => h, ?_⟩
        simp only [live, List.filter_filter]
        apply List.filter_congr
        intro x _
        rw [Bool.and_comm]

end Sim

end R4Lemmas

/-! # section R4View -/
section R4View
variable {σ T : Type} [TimeOps T]

/-- the network settings without the counters -/
def SimNet.core (x : SimNet T) : SimNet T := { x with networkMessageCount := 0, messageCount := 0, traffic := 0 }

theorem SimNet.core_eq {x y : SimNet T} (h : x.core = y.core) :
    x.minDelay = y.minDelay ∧ x.maxDelay = y.maxDelay ∧ x.dropRate = y.dropRate ∧ x.duplRate = y.duplRate ∧
    x.corruptRate = y.corruptRate ∧ x.dropIncoming = y.dropIncoming ∧ x.dropOutgoing = y.dropOutgoing ∧
    x.disabledLinks = y.disabledLinks ∧ x.procLoc = y.procLoc := by
  have h1 := congrArg SimNet.minDelay h
  have h2 := congrArg SimNet.maxDelay h
  have h3 := congrArg SimNet.dropRate h
  have h4 := congrArg SimNet.duplRate h
  have h5 := congrArg SimNet.corruptRate h
  have h6 := congrArg SimNet.dropIncoming h
  have h7 := congrArg SimNet.dropOutgoing h
  have h8 := congrArg SimNet.disabledLinks h
  have h9 := congrArg SimNet.procLoc h
  exact ⟨h1, h2, h3, h4, h5, h6, h7, h8, h9⟩

theorem SimNet.core_procLoc {x y : SimNet T} (h : x.core = y.core) : x.procLoc = y.procLoc := (SimNet.core_eq h).2.2.2.2.2.2.2.2

/-! ## what the relation sees of the node table: keys, crash flags, sortedness -/

/-- crash flag of a node, by lookup -/
def nodeFlags (l : List (Nat × SNode σ T)) : Nat → Option Bool := fun n => (amGet? n l).map (·.crashed)

/-- the node table `l'` has the keys and crash flags of `l`, and is sorted if `l` is -/
def NodesLike (l l' : List (Nat × SNode σ T)) : Prop := nodeFlags l' = nodeFlags l ∧ (KSorted l → KSorted l')

theorem NodesLike.refl (l : List (Nat × SNode σ T)) : NodesLike l l := ⟨rfl, id⟩

theorem NodesLike.trans {a b c : List (Nat × SNode σ T)} (h1 : NodesLike a b) (h2 : NodesLike b c) : NodesLike a c :=
  ⟨h2.1.trans h1.1, fun h => h2.2 (h1.2 h)⟩

theorem NodesLike.of_eq {l l' : List (Nat × SNode σ T)} (h : l' = l) : NodesLike l l' := h ▸ NodesLike.refl _

/-- two tables derived from a common sorted one -/
theorem NodesLike.of_common {c l l' : List (Nat × SNode σ T)} (h1 : NodesLike c l) (h2 : NodesLike c l')
    (hc : KSorted c) : NodesLike l l' := ⟨h2.1.trans h1.1.symm, fun _ => h2.2 hc⟩

theorem nodeFlags_some_false (l : List (Nat × SNode σ T)) (n : Nat) :
    (∃ nd, amGet? n l = some nd ∧ nd.crashed = false) ↔ nodeFlags l n = some false := by
  unfold nodeFlags
  cases amGet? n l with
  | none => simp
  | some nd => simp

theorem NodesLike.amHas {l l' : List (Nat × SNode σ T)} (h : NodesLike l l') (n : Nat) : amHas n l' = amHas n l := by
  rw [amHas_eq, amHas_eq]
  have := congrArg Option.isSome (congrFun h.1 n)
  simpa [nodeFlags] using this

theorem NodesLike.alive {l l' : List (Nat × SNode σ T)} (h : NodesLike l l') (n : Nat) :
    (∃ nd, amGet? n l' = some nd ∧ nd.crashed = false) ↔ (∃ nd, amGet? n l = some nd ∧ nd.crashed = false) := by
  rw [nodeFlags_some_false, nodeFlags_some_false, h.1]

theorem nodesLike_amInsert (l : List (Nat × SNode σ T)) (n : Nat) {nd nd' : SNode σ T} (hn : amGet? n l = some nd)
    (hc : nd'.crashed = nd.crashed) : NodesLike l (amInsert natLt n nd' l) := by
  refine ⟨?_, KSorted.amInsert n nd' l⟩
  funext k
  simp only [nodeFlags, amGet?_amInsert]
  by_cases hk : k = n
  · subst hk; simp [hn, hc]
  · simp [hk]

namespace Sim

theorem nodesLike_setNode (s : Sim σ T) (n : Nat) {nd nd' : SNode σ T} (hn : amGet? n s.nodes = some nd)
    (hc : nd'.crashed = nd.crashed) : NodesLike s.nodes (s.setNode n nd').nodes :=
  nodesLike_amInsert s.nodes n hn hc

theorem nodesLike_updProc (s : Sim σ T) (n p : Nat) (f : SProc σ T → SProc σ T) :
    NodesLike s.nodes (s.updProc n p f).nodes := by
  unfold updProc
  split
  · exact NodesLike.refl _
  · rename_i nd hn
    split
    · exact NodesLike.refl _
    · exact nodesLike_setNode s n hn rfl

/-- what the relation sees of a process entry: state, outbox, the timer map as a lookup function -/
def pv (e : SProc σ T) : σ × List Msg × (Nat → Option Nat) := (e.st, e.outbox, fun name => amGet? name e.pending)

theorem pv_of_map_eq {a b : Option (SProc σ T)} (h : a.map pv = b.map pv) {e : SProc σ T} (he : a = some e) :
    ∃ e', b = some e' ∧ e.st = e'.st ∧ e.outbox = e'.outbox ∧ ∀ name, amGet? name e.pending = amGet? name e'.pending := by
  subst he
  cases b with
  | none => simp at h
  | some e' =>
    simp only [Option.map_some, Option.some.injEq, pv, Prod.mk.injEq] at h
    exact ⟨e', rfl, h.1, h.2.1, fun name => congrFun h.2.2 name⟩

/-- state and outbox of a process entry -/
def pvo (e : SProc σ T) : σ × List Msg := (e.st, e.outbox)

/-- the timer map of a process entry as a lookup function -/
def pvp (e : SProc σ T) : Nat → Option Nat := fun name => amGet? name e.pending

theorem pvo_of_pv {a b : Option (SProc σ T)} (h : a.map pv = b.map pv) : a.map pvo = b.map pvo := by
  have := congrArg (Option.map (fun x : σ × List Msg × (Nat → Option Nat) => (x.1, x.2.1))) h
  simp only [Option.map_map, Function.comp_def, pv] at this
  exact this

theorem pvp_of_pv {a b : Option (SProc σ T)} (h : a.map pv = b.map pv) : a.map pvp = b.map pvp := by
  have := congrArg (Option.map (fun x : σ × List Msg × (Nat → Option Nat) => x.2.2)) h
  simp only [Option.map_map, Function.comp_def, pv] at this
  exact this

theorem pvo_of_map_eq {a b : Option (SProc σ T)} (h : a.map pvo = b.map pvo) {e : SProc σ T} (he : a = some e) :
    ∃ e', b = some e' ∧ e.st = e'.st ∧ e.outbox = e'.outbox := by
  subst he
  cases b with
  | none => simp at h
  | some e' =>
    simp only [Option.map_some, Option.some.injEq, pvo, Prod.mk.injEq] at h
    exact ⟨e', rfl, h.1, h.2⟩

theorem pvp_of_map_eq {a b : Option (SProc σ T)} (h : a.map pvp = b.map pvp) {e : SProc σ T} (he : a = some e) :
    ∃ e', b = some e' ∧ ∀ name, amGet? name e.pending = amGet? name e'.pending := by
  subst he
  cases b with
  | none => simp at h
  | some e' =>
    simp only [Option.map_some, Option.some.injEq, pvp] at h
    exact ⟨e', rfl, fun name => congrFun h name⟩

/-- the two states agree on everything the relation looks at -/
structure SameView (q q' : Sim σ T) : Prop where
  clock : q'.clock = q.clock
  events : q'.events = q.events
  canceled : q'.canceled = q.canceled
  eventCount : q'.eventCount = q.eventCount
  handlers : q'.handlers = q.handlers
  net : q'.net.core = q.net.core
  nodes : NodesLike q.nodes q'.nodes
  procs : ∀ n p, (q'.proc? n p).map pv = (q.proc? n p).map pv

theorem SameView.refl (q : Sim σ T) : SameView q q := ⟨rfl, rfl, rfl, rfl, rfl, rfl, NodesLike.refl _, fun _ _ => rfl⟩

theorem SameView.trans {a b c : Sim σ T} (h1 : SameView a b) (h2 : SameView b c) : SameView a c :=
  ⟨h2.clock.trans h1.clock, h2.events.trans h1.events, h2.canceled.trans h1.canceled,
   h2.eventCount.trans h1.eventCount, h2.handlers.trans h1.handlers, h2.net.trans h1.net,
   h1.nodes.trans h2.nodes, fun n p => (h2.procs n p).trans (h1.procs n p)⟩

theorem live_congr {q q' : Sim σ T} (he : q'.events = q.events) (hc : q'.canceled = q.canceled) : q'.live = q.live := by
  unfold live; rw [he, hc]

theorem deliverable_congr {q q' : Sim σ T} (he : q'.events = q.events) (hc : q'.canceled = q.canceled)
    (hh : q'.handlers = q.handlers) : q'.deliverable = q.deliverable := by
  unfold deliverable; rw [live_congr he hc, hh]

theorem pathCut_congr {q q' : Sim σ T} (hn : q'.net.core = q.net.core) (a b : Nat) : q'.pathCut a b = q.pathCut a b := by
  obtain ⟨_, _, _, _, _, e2, e1, e3, _⟩ := SimNet.core_eq hn
  unfold pathCut; rw [e1, e2, e3]

theorem amHas_setNode (s : Sim σ T) (n : Nat) (nd : SNode σ T) (h : amHas n s.nodes = true) (k : Nat) :
    amHas k (s.setNode n nd).nodes = amHas k s.nodes := by
  simp only [setNode, amHas_eq, amGet?_amInsert] at h ⊢
  by_cases hk : k = n
  · subst hk; simp [h]
  · simp [hk]

theorem amHas_updProc (s : Sim σ T) (n p : Nat) (f : SProc σ T → SProc σ T) (k : Nat) :
    amHas k (s.updProc n p f).nodes = amHas k s.nodes := by
  unfold updProc
  split
  · rfl
  · rename_i nd hn
    split
    · rfl
    · exact amHas_setNode s n _ (by rw [amHas_eq, hn]; rfl) k

theorem sameView_updProc (s : Sim σ T) (n p : Nat) (f : SProc σ T → SProc σ T) (hf : ∀ e, pv (f e) = pv e) :
    SameView s (s.updProc n p f) := by
  refine ⟨by simp, by simp, by simp, by simp, ?_, by simp, nodesLike_updProc s n p f, ?_⟩
  · obtain ⟨ns, h⟩ := updProc_frame s n p f; rw [h]
  · intro n' p'
    rw [proc?_updProc]
    split
    · rename_i h; obtain ⟨rfl, rfl⟩ := h
      cases s.proc? n' p' <;> simp [hf]
    · rfl

theorem sameView_log (s : Sim σ T) (x : SLog T) : SameView s (s.log x) :=
  ⟨rfl, rfl, rfl, rfl, rfl, rfl, NodesLike.refl _, fun _ _ => rfl⟩

theorem sameView_draws (s : Sim σ T) (d : List T) : SameView s { s with draws := d } :=
  ⟨rfl, rfl, rfl, rfl, rfl, rfl, NodesLike.refl _, fun _ _ => rfl⟩

theorem sameView_setLocalCount (s : Sim σ T) (n : Nat) {nd : SNode σ T} (hn : amGet? n s.nodes = some nd) (c : Nat) :
    SameView s (s.setNode n { nd with localCount := c }) :=
  ⟨rfl, rfl, rfl, rfl, rfl, rfl, nodesLike_setNode s n hn rfl,
   fun n' p' => by rw [proc?_setNode_localCount s n hn]⟩

end Sim

open Sim

/-! ## congruence of the clauses -/

theorem NetRel.congr {bits : T → Nat} {q q' : Sim σ T} {r r' : RState σ} (hnet : q'.net.core = q.net.core)
    (hh : q'.handlers = q.handlers) (hn : NodesLike q.nodes q'.nodes) (hrn : r'.net = r.net)
    (hrc : r'.crashedNodes = r.crashedNodes) (h : NetRel bits q r) : NetRel bits q' r' := by
  obtain ⟨_, e5, e1, e2, e3, _, _, _, e4⟩ := SimNet.core_eq hnet
  refine ⟨?_, ?_, ?_, ?_, ?_, ?_, ?_, ?_, hn.2 h.nodesSorted⟩
  · rw [e2, e3]; exact h.ratesZero
  · rw [hrn, e1]; exact h.netFlags
  · rw [hrn, e4]; exact h.netLoc
  · intro a b ha hb
    rw [hrn, pathCut_congr hnet, hh]
    rw [hh] at ha; rw [hn.amHas] at hb
    exact h.netCut a b ha hb
  · rw [hrn, e5]; exact h.maxDelay
  · intro n; rw [hrc, hn.amHas, hh]; exact h.crashed n
  · intro p n; rw [e4, hn.amHas]; exact h.locNodes p n
  · intro n; rw [hh, hn.alive]; exact h.handlersOk n

theorem TProcRel.congr {q q' : Sim σ T} {r r' : RState σ} (hloc : q'.net.procLoc = q.net.procLoc)
    (hp : ∀ n p, (q'.proc? n p).map pvo = (q.proc? n p).map pvo) (hr : r'.procs = r.procs) (h : TProcRel q r) :
    TProcRel q' r' := by
  refine ⟨?_, ?_⟩
  · intro n p e he
    obtain ⟨e', he', h1, h2⟩ := pvo_of_map_eq (hp n p) he
    rw [hr, hloc, h1, h2]
    exact h.procs n p e' he'
  · intro p rp hrp
    rw [hr] at hrp
    obtain ⟨n, e, he⟩ := h.procsBack p rp hrp
    obtain ⟨e', he', _⟩ := pvo_of_map_eq (hp n p).symm he
    exact ⟨n, e', he'⟩

theorem QueueOk.congr {q q' : Sim σ T} (hc : q'.clock = q.clock) (he : q'.events = q.events)
    (hcan : q'.canceled = q.canceled) (hcnt : q'.eventCount = q.eventCount) (hnet : q'.net.core = q.net.core)
    (h : QueueOk q) : QueueOk q' := by
  obtain ⟨e6, e5, _, _, _, _, _, _, e4⟩ := SimNet.core_eq hnet
  have hl := live_congr he hcan
  refine ⟨?_, ?_, ?_, ?_, ?_, ?_⟩
  · unfold QueueWF; rw [he, hcnt]; exact h.queueWF
  · unfold ClockOk; rw [he, hc]; exact h.clockOk
  · rw [hcan, hcnt]; exact h.cancWF
  · rw [e5, e6]; exact h.delaysOk
  · rw [hl, e4]; exact h.timerLoc
  · rw [hl, e4]; exact h.msgLoc

theorem TimerRel.congr {bits : T → Nat} {q q' : Sim σ T} {r r' : RState σ} {gs : List (TimerGhost T)}
    (hc : q'.clock = q.clock) (he : q'.events = q.events) (hcan : q'.canceled = q.canceled)
    (hh : q'.handlers = q.handlers) (hp : ∀ n p, (q'.proc? n p).map pvp = (q.proc? n p).map pvp)
    (hr : r'.timers = r.timers) (h : TimerRel bits q r gs) : TimerRel bits q' r' gs := by
  have hl := live_congr he hcan
  have hd := deliverable_congr he hcan hh
  refine ⟨?_, h.ghostsNodup, h.ghostsTie, ?_, ?_, ?_, h.ghostMono, h.ghostBits, ?_, ?_⟩
  · rw [hr]; exact h.timers
  · rw [hl]; exact h.ghostsCover
  · rw [hd]; exact h.ghostsLive
  · rw [hc]; exact h.ghostClock
  · intro n p e hn hpe name id
    rw [hh] at hn
    obtain ⟨e', he', h3⟩ := pvp_of_map_eq (hp n p) hpe
    rw [h3, hl]
    exact h.pendMap n p e' hn he' name id
  · unfold RState.timersUnique; rw [hr]; exact h.uniq

theorem FlightRel.congr {q q' : Sim σ T} {r r' : RState σ} (he : q'.events = q.events)
    (hcan : q'.canceled = q.canceled) (hh : q'.handlers = q.handlers)
    (hf : r'.flights = r.flights) (hn : r'.net = r.net) (h : FlightRel q r) : FlightRel q' r' :=
  ⟨by unfold liveKeys; rw [hf, hn, deliverable_congr he hcan hh]; exact h.perm, by rw [hf]; exact h.inert⟩

theorem TimedRel.sameView {bits : T → Nat} {q q' : Sim σ T} {r : RState σ} {gs : List (TimerGhost T)}
    (hv : SameView q q') (h : TimedRel bits q r gs) : TimedRel bits q' r gs :=
  ⟨h.net.congr hv.net hv.handlers hv.nodes rfl rfl,
   h.proc.congr (SimNet.core_procLoc hv.net) (fun n p => pvo_of_pv (hv.procs n p)) rfl,
   h.queue.congr hv.clock hv.events hv.canceled hv.eventCount hv.net,
   h.timer.congr hv.clock hv.events hv.canceled hv.handlers (fun n p => pvp_of_pv (hv.procs n p)) rfl,
   h.flights.congr hv.events hv.canceled hv.handlers rfl rfl⟩

/-- the relation does not look at the trace of the reference state -/
theorem TimedRel.congr_r {bits : T → Nat} {q : Sim σ T} {r r' : RState σ} {gs : List (TimerGhost T)}
    (h1 : r'.procs = r.procs) (h2 : r'.crashedNodes = r.crashedNodes) (h3 : r'.flights = r.flights)
    (h4 : r'.timers = r.timers) (h5 : r'.net = r.net) (h : TimedRel bits q r gs) : TimedRel bits q r' gs :=
  ⟨h.net.congr rfl rfl (NodesLike.refl _) h5 h2,
   h.proc.congr rfl (fun _ _ => rfl) h1,
   h.queue,
   h.timer.congr rfl rfl rfl rfl (fun _ _ => rfl) h4,
   h.flights.congr rfl rfl rfl h3 h5⟩

end R4View

/-! # section R4Queue -/
section R4Queue
variable {σ T : Type} [TimeOps T]

/-! ## lists -/

theorem perm_filterMap_erase {α β : Type} [BEq β] [LawfulBEq β] (key : α → Nat) (F : α → Option β) (l : List α)
    (hnd : (l.map key).Nodup) (e : α) (he : e ∈ l) (f : β) (hf : F e = some f) :
    ((l.filter (fun x => key x != key e)).filterMap F).Perm ((l.filterMap F).erase f) := by
  induction l with
  | nil => cases he
  | cons a l ih =>
    rw [List.map_cons, List.nodup_cons] at hnd
    by_cases hk : key a = key e
    · have hae : e = a := by
        rcases List.mem_cons.1 he with h | h
        · exact h
        · exact absurd (hk ▸ List.mem_map_of_mem (f := key) h) hnd.1
      subst hae
      have hall : ∀ x ∈ l, (key x != key e) = true := by
        intro x hx
        simp only [bne_iff_ne, ne_eq]
        intro hxe
        exact hnd.1 (hxe ▸ List.mem_map_of_mem (f := key) hx)
      simp [List.filter_cons, List.filterMap_cons, hf, filter_eq_self_of _ _ hall]
    · have hel : e ∈ l := by
        rcases List.mem_cons.1 he with h | h
        · exact absurd (h ▸ rfl) hk
        · exact h
      have ih' := ih hnd.2 hel
      have hkb : (key a != key e) = true := by simpa using hk
      simp only [List.filter_cons, hkb, if_true, List.filterMap_cons]
      cases hFa : F a with
      | none => simpa using ih'
      | some b =>
        simp only
        by_cases hbf : b = f
        · subst hbf
          rw [List.erase_cons_head]
          have hmem : b ∈ l.filterMap F := List.mem_filterMap.2 ⟨e, hel, hf⟩
          exact (ih'.cons b).trans (List.perm_cons_erase hmem).symm
        · rw [List.erase_cons_tail (by simpa using hbf)]
          exact ih'.cons b

theorem eraseIdx_eq_filter_of_nodup {α : Type} (f : α → Nat) (l : List α) (hnd : (l.map f).Nodup) (j : Nat)
    (hj : j < l.length) : l.eraseIdx j = l.filter (fun x => f x != f l[j]) := by
  induction l generalizing j with
  | nil => simp at hj
  | cons a l ih =>
    rw [List.map_cons, List.nodup_cons] at hnd
    cases j with
    | zero =>
      have hall : ∀ x ∈ l, (f x != f a) = true := by
        intro x hx
        simp only [bne_iff_ne, ne_eq]
        intro hxe
        exact hnd.1 (hxe ▸ List.mem_map_of_mem (f := f) hx)
      simp [List.filter_cons, filter_eq_self_of _ _ hall]
    | succ j =>
      have hj' : j < l.length := by simpa using hj
      have hne : (f a != f l[j]) = true := by
        simp only [bne_iff_ne, ne_eq]
        intro hxe
        exact hnd.1 (hxe ▸ List.mem_map_of_mem (f := f) (List.getElem_mem hj'))
      simp [List.filter_cons, hne, ih hnd.2 j hj']

namespace Sim

theorem live_updProc (s : Sim σ T) (n p : Nat) (f : SProc σ T → SProc σ T) : (s.updProc n p f).live = s.live :=
  live_congr (by simp) (by simp)

theorem handlers_updProc (s : Sim σ T) (n p : Nat) (f : SProc σ T → SProc σ T) : (s.updProc n p f).handlers = s.handlers := by
  obtain ⟨ns, h⟩ := updProc_frame s n p f; rw [h]

theorem deliverable_of_live_append {s s' : Sim σ T} {ev : QEv T} (hl : s'.live = s.live ++ [ev])
    (hh : s'.handlers = s.handlers) :
    s'.deliverable = s.deliverable ++ (if s.handlers.contains ev.dst then [ev] else []) := by
  unfold deliverable
  rw [hl, hh, List.filter_append]
  congr 1
  simp [List.filter_cons]

theorem deliverable_of_live_filter {s s' : Sim σ T} {P : QEv T → Bool} (hl : s'.live = s.live.filter P)
    (hh : s'.handlers = s.handlers) : s'.deliverable = s.deliverable.filter P := by
  unfold deliverable
  rw [hl, hh, List.filter_filter, List.filter_filter]
  apply List.filter_congr
  intro x _
  rw [Bool.and_comm]

theorem ids_nodup_deliverable (s : Sim σ T) (h : s.QueueWF) : (s.deliverable.map (·.id)).Nodup :=
  (List.Sublist.map _ List.filter_sublist).nodup (ids_nodup_live s h)

end Sim

open Sim

/-! ## `FlightRel` -/

theorem FlightRel.addEv {s s' : Sim σ T} {r r' : RState σ} {ev : QEv T} (h : FlightRel s r)
    (hl : s'.live = s.live ++ [ev]) (hh : s'.handlers = s.handlers) (fs : List Flight)
    (hf : r'.flights = r.flights ++ fs) (hn : r'.net = r.net)
    (hkey : fs.map Flight.key = if s.handlers.contains ev.dst then (keyOfQ ev.data).toList else [])
    (hin : ∀ f ∈ fs, f.o.dropOnly = true) :
    FlightRel s' r' := by
  refine ⟨?_, ?_⟩
  · obtain ⟨zs, hp, hz⟩ := h.perm
    refine ⟨zs, ?_, by rw [hn]; exact hz⟩
    unfold liveKeys at hp ⊢
    rw [deliverable_of_live_append hl hh, hf, List.map_append, List.filterMap_append, hkey]
    have hadd : (if s.handlers.contains ev.dst = true then (keyOfQ ev.data).toList else []) =
        (if s.handlers.contains ev.dst = true then [ev] else []).filterMap (fun e => keyOfQ e.data) := by
      split
      · cases hfo : keyOfQ ev.data <;> simp [List.filterMap_cons, hfo]
      · simp
    rw [hadd]
    -- (A ++ B) ~ (L ++ zs) ++ B ~ (L ++ B) ++ zs
    refine (hp.append_right _).trans ?_
    rw [List.append_assoc, List.append_assoc]
    exact List.Perm.append_left _ List.perm_append_comm
  · intro f hfm
    rw [hf] at hfm
    rcases List.mem_append.1 hfm with hfm | hfm
    · exact h.inert f hfm
    · exact hin f hfm

/-- the reference state puts a message in flight that the simulator has dropped at random at send time: a zombie -/
theorem FlightRel.addZombie {s s' : Sim σ T} {r r' : RState σ} (h : FlightRel s r)
    (hl : s'.live = s.live) (hh : s'.handlers = s.handlers) (f : Flight)
    (hf : r'.flights = r.flights ++ [f]) (hn : r'.net = r.net) (hdp : r.net.dropPos = true)
    (hin : f.o.dropOnly = true) : FlightRel s' r' := by
  refine ⟨?_, ?_⟩
  · obtain ⟨zs, hp, hz⟩ := h.perm
    refine ⟨zs ++ [f.key], ?_, ?_⟩
    · have hd : s'.deliverable = s.deliverable := by unfold deliverable; rw [hl, hh]
      unfold liveKeys at hp ⊢
      rw [hd, hf, List.map_append, ← List.append_assoc]
      exact hp.append_right _
    · intro hfalse; rw [hn, hdp] at hfalse; cases hfalse
  · intro g hg
    rw [hf] at hg
    rcases List.mem_append.1 hg with hg | hg
    · exact h.inert g hg
    · simp only [List.mem_singleton] at hg; subst hg; exact hin

theorem FlightRel.filterNone {s s' : Sim σ T} {r r' : RState σ} {P : QEv T → Bool} (h : FlightRel s r)
    (hl : s'.live = s.live.filter P) (hh : s'.handlers = s.handlers) (hf : r'.flights = r.flights)
    (hn : r'.net = r.net)
    (hP : ∀ x ∈ s.deliverable, P x = false → ∀ mid m src sn dst dn, x.data ≠ .msg mid m src sn dst dn) :
    FlightRel s' r' := by
  refine ⟨?_, by rw [hf]; exact h.inert⟩
  unfold liveKeys
  rw [deliverable_of_live_filter hl hh, hf, hn, filterMap_filter_none]
  · exact h.perm
  · intro x hx hpx
    cases hd : x.data with
    | msg mid m src sn dst dn => exact absurd hd (hP x hx hpx mid m src sn dst dn)
    | timer p name => rfl

/-- a message copy leaves the queue, a flight with its (message, source, destination) triple leaves the reference
    state (`hi`: the erased flight is the first one with that triple, or any one: only the multiset matters) -/
theorem FlightRel.popMsg {s s' : Sim σ T} {r r' : RState σ} {e : QEv T} {k : Msg × Nat × Nat} {i : Nat}
    (h : FlightRel s r)
    (hwf : s.QueueWF) (hl : s'.live = s.live.filter (fun x => x.id != e.id)) (hh : s'.handlers = s.handlers)
    (he : e ∈ s.deliverable) (hke : keyOfQ e.data = some k) (hf : r'.flights = r.flights.eraseIdx i)
    (hn : r'.net = r.net)
    (hi : ((r.flights.eraseIdx i).map Flight.key).Perm ((r.flights.map Flight.key).erase k)) :
    FlightRel s' r' := by
  refine ⟨?_, ?_⟩
  · obtain ⟨zs, hp, hz⟩ := h.perm
    refine ⟨zs, ?_, by rw [hn]; exact hz⟩
    unfold liveKeys at hp ⊢
    rw [deliverable_of_live_filter hl hh, hf]
    have hmem : k ∈ s.deliverable.filterMap (fun e => keyOfQ e.data) := List.mem_filterMap.2 ⟨e, he, hke⟩
    refine hi.trans ((hp.erase k).trans ?_)
    rw [List.erase_append_left _ hmem]
    exact ((perm_filterMap_erase (·.id) (fun e => keyOfQ e.data) s.deliverable
      (ids_nodup_deliverable s hwf) e he k hke).symm).append_right _
  · intro f hfm
    rw [hf] at hfm
    exact h.inert f (List.mem_of_mem_eraseIdx hfm)

/-- some flight of the reference state carries the triple of a deliverable queued copy -/
theorem FlightRel.key_mem {s : Sim σ T} {r : RState σ} (h : FlightRel s r) {e : QEv T} {k : Msg × Nat × Nat}
    (he : e ∈ s.deliverable) (hke : keyOfQ e.data = some k) : k ∈ r.flights.map Flight.key := by
  obtain ⟨zs, hp, _⟩ := h.perm
  rw [hp.mem_iff]
  exact List.mem_append_left _ (List.mem_filterMap.2 ⟨e, he, hke⟩)

/-- when the reference network cannot drop there are no zombies: the flights are exactly the deliverable copies -/
theorem FlightRel.perm_of_noDrop {s : Sim σ T} {r : RState σ} (h : FlightRel s r) (hd : r.net.dropPos = false) :
    (r.flights.map Flight.key).Perm s.liveKeys := by
  obtain ⟨zs, hp, hz⟩ := h.perm
  rw [hz hd, List.append_nil] at hp
  exact hp

/-! ## `QueueOk` -/

theorem QueueOk.addEv [LawfulTime T] {s s' : Sim σ T} {ev : QEv T} (h : QueueOk s)
    (hev : s'.events = s.events ++ [ev]) (hcan : s'.canceled = s.canceled) (hcnt : s'.eventCount = s.eventCount + 1)
    (hc : s'.clock = s.clock) (hnet : s'.net.core = s.net.core) (hid : ev.id = s.eventCount)
    (htime : TimeOps.le s.clock ev.time = true)
    (htl : ∀ p name, ev.data = .timer p name → ev.dst = ev.src ∧ amGet? p s.net.procLoc = some ev.dst)
    (hml : ∀ mid m src sn dst dn, ev.data = .msg mid m src sn dst dn →
      ev.dst = dn ∧ amGet? dst s.net.procLoc = some dn ∧ amGet? src s.net.procLoc = some sn) :
    QueueOk s' := by
  obtain ⟨e6, e5, _, _, _, _, _, _, e4⟩ := SimNet.core_eq hnet
  have hfresh : s.eventCount ∉ s.canceled := fun hin => Nat.lt_irrefl _ (h.cancWF _ hin)
  have hl : s'.live = s.live ++ [ev] := by
    unfold live
    rw [hev, hcan, List.filter_append]
    congr 1
    simp [List.filter_cons, hid, hfresh]
  refine ⟨⟨?_, ?_⟩, ?_, ?_, ?_, ?_, ?_⟩
  · rw [hev, List.map_append, List.nodup_append]
    refine ⟨h.queueWF.1, by simp, ?_⟩
    intro a ha b hb
    simp only [List.map_cons, List.map_nil, List.mem_singleton] at hb
    obtain ⟨x, hx, rfl⟩ := List.mem_map.1 ha
    have := h.queueWF.2 x hx
    omega
  · intro e he
    rw [hev] at he
    rw [hcnt]
    rcases List.mem_append.1 he with he | he
    · exact Nat.lt_succ_of_lt (h.queueWF.2 e he)
    · simp only [List.mem_singleton] at he; subst he; omega
  · intro e he
    rw [hev] at he
    rw [hc]
    rcases List.mem_append.1 he with he | he
    · exact h.clockOk e he
    · simp only [List.mem_singleton] at he; subst he; exact htime
  · intro id hid'
    rw [hcan] at hid'
    rw [hcnt]
    exact Nat.lt_succ_of_lt (h.cancWF id hid')
  · rw [e5, e6]; exact h.delaysOk
  · intro e he p name hd
    rw [hl] at he
    rw [e4]
    rcases List.mem_append.1 he with he | he
    · exact h.timerLoc e he p name hd
    · simp only [List.mem_singleton] at he; subst he; exact htl p name hd
  · intro e he mid m src sn dst dn hd
    rw [hl] at he
    rw [e4]
    rcases List.mem_append.1 he with he | he
    · exact h.msgLoc e he mid m src sn dst dn hd
    · simp only [List.mem_singleton] at he; subst he; exact hml mid m src sn dst dn hd

theorem QueueOk.cancel {s s' : Sim σ T} {c : Nat} (h : QueueOk s)
    (hev : s'.events = s.events) (hcan : s'.canceled = setInsert c s.canceled) (hcnt : s'.eventCount = s.eventCount)
    (hc : s'.clock = s.clock) (hnet : s'.net.core = s.net.core) (hlt : c < s.eventCount) : QueueOk s' := by
  obtain ⟨e6, e5, _, _, _, _, _, _, e4⟩ := SimNet.core_eq hnet
  have hsub : ∀ x ∈ s'.live, x ∈ s.live := by
    intro x hx
    rw [mem_live] at hx ⊢
    rw [hev, hcan, mem_setInsert] at hx
    exact ⟨hx.1, fun hin => hx.2 (Or.inr hin)⟩
  refine ⟨?_, ?_, ?_, ?_, ?_, ?_⟩
  · unfold QueueWF; rw [hev, hcnt]; exact h.queueWF
  · unfold ClockOk; rw [hev, hc]; exact h.clockOk
  · intro id hid
    rw [hcan, mem_setInsert] at hid
    rw [hcnt]
    rcases hid with rfl | hid
    · exact hlt
    · exact h.cancWF id hid
  · rw [e5, e6]; exact h.delaysOk
  · intro e he; rw [e4]; exact h.timerLoc e (hsub e he)
  · intro e he; rw [e4]; exact h.msgLoc e (hsub e he)

theorem QueueOk.pop [LawfulTime T] {s s' : Sim σ T} {e : QEv T} {fuel : Nat} (h : QueueOk s)
    (hf : s.events.length < fuel) (hne : nextEvent fuel s = (some e, s')) : QueueOk s' := by
  obtain ⟨h1, h2, h3, h4, h5, h6, h7, h8⟩ := nextEvent_frame_r4 fuel s s' e hne
  obtain ⟨_, k2, k3⟩ := nextEvent_keeps s s' e fuel hf h.queueWF h.clockOk hne
  have hsub : ∀ x ∈ s'.live, x ∈ s.live := by
    intro x hx; rw [h8] at hx; exact (List.mem_filter.1 hx).1
  refine ⟨k3, k2, ?_, ?_, ?_, ?_⟩
  · intro id hid; rw [h4]; exact h.cancWF id (h7 id hid)
  · rw [h1]; exact h.delaysOk
  · intro x hx; rw [h1]; exact h.timerLoc x (hsub x hx)
  · intro x hx; rw [h1]; exact h.msgLoc x (hsub x hx)

end R4Queue

/-! # section R4Timer -/
section R4Timer
variable {σ T : Type} [TimeOps T]

open Sim

/-- a process lives on one node only -/
theorem TProcRel.node_unique {q : Sim σ T} {r : RState σ} (h : TProcRel q r) {n n' p : Nat} {e e' : SProc σ T}
    (h1 : q.proc? n p = some e) (h2 : q.proc? n' p = some e') : n' = n := by
  have a := (h.procs n p e h1).2
  have b := (h.procs n' p e' h2).2
  rw [a] at b
  exact (Option.some.inj b).symm

/-- every live timer event is addressed to a node with handler -/
theorem TimerRel.timerLive {bits : T → Nat} {s : Sim σ T} {r : RState σ} {gs : List (TimerGhost T)}
    (h : TimerRel bits s r gs) (hwf : s.QueueWF) {x : QEv T} (hx : x ∈ s.live) {p name : Nat}
    (hd : x.data = .timer p name) : x.dst ∈ s.handlers := by
  obtain ⟨g, hg, hgid⟩ := h.ghostsCover x hx p name hd
  obtain ⟨y, hy, hyid, _, _⟩ := h.ghostsLive g hg
  rw [mem_deliverable] at hy
  have : y = x := live_eq_of_id s hwf hy.1 hx (hyid.trans hgid)
  exact this ▸ hy.2

/-- the queue changes, but no timer event becomes live or stops being live -/
theorem TimerRel.liveChange [LawfulTime T] {bits : T → Nat} {s s' : Sim σ T} {r r' : RState σ}
    {gs : List (TimerGhost T)} (h : TimerRel bits s r gs) (hq : QueueOk s) (hq' : QueueOk s') (hpr : TProcRel s r)
    (hloc : s'.net.procLoc = s.net.procLoc)
    (hT : ∀ x p name, x.data = .timer p name → (x ∈ s'.live ↔ x ∈ s.live))
    (hh : s'.handlers = s.handlers) (hc : TimeOps.le s.clock s'.clock = true)
    (hp : ∀ n p, (s'.proc? n p).map pvp = (s.proc? n p).map pvp) (hr : r'.timers = r.timers) :
    TimerRel bits s' r' gs := by
  refine ⟨?_, h.ghostsNodup, h.ghostsTie, ?_, ?_, ?_, h.ghostMono, h.ghostBits, ?_, ?_⟩
  · rw [hr]; exact h.timers
  · intro e he p name hd
    exact h.ghostsCover e ((hT e p name hd).1 he) p name hd
  · intro g hg
    obtain ⟨e, he, h1, h2, h3⟩ := h.ghostsLive g hg
    rw [mem_deliverable] at he
    exact ⟨e, (mem_deliverable s' e).2 ⟨(hT e _ _ h2).2 he.1, hh ▸ he.2⟩, h1, h2, h3⟩
  · intro g hg; exact LawfulTime.le_trans _ _ _ (h.ghostClock g hg) hc
  · intro n p e hn hpe name id
    rw [hh] at hn
    obtain ⟨e', he', h3⟩ := pvp_of_map_eq (hp n p) hpe
    rw [h3, h.pendMap n p e' hn he' name id]
    have hpl := (hpr.procs n p e' he').2
    constructor
    · rintro ⟨ev, hev, h1, h2⟩
      exact ⟨ev, (hT ev p name h2).2 hev, h1, h2⟩
    · rintro ⟨ev, hev, h1, h2⟩
      exact ⟨ev, (hT ev p name h2).1 hev, h1, h2⟩
  · unfold RState.timersUnique; rw [hr]; exact h.uniq

/-- a timer event of process `p` on node `n` (with handler) is queued under a name that is not pending -/
theorem TimerRel.addTimer [LawfulTime T] {bits : T → Nat} {s s' : Sim σ T} {r r' : RState σ}
    {gs : List (TimerGhost T)} (h : TimerRel bits s r gs) (hq : QueueOk s) (hpr : TProcRel s r)
    {ev : QEv T} {n p name d : Nat} {e : SProc σ T}
    (hl : s'.live = s.live ++ [ev]) (hh : s'.handlers = s.handlers) (hc : s'.clock = s.clock)
    (hid : ev.id = s.eventCount) (hdata : ev.data = .timer p name) (hdst : ev.dst = n)
    (htime : ev.time = TimeOps.add s.clock (TimeOps.ofBits d))
    (hn : n ∈ s.handlers) (he : s.proc? n p = some e) (hnone : amGet? name e.pending = none)
    (hp : ∀ n' p' e', s'.proc? n' p' = some e' → ∃ e0, s.proc? n' p' = some e0 ∧
      ∀ nm, amGet? nm e'.pending = if n' = n ∧ p' = p ∧ nm = name then some ev.id else amGet? nm e0.pending)
    (hbits : bits (TimeOps.ofBits d : T) = d)
    (hr : r'.timers = r.timers ++ [⟨p, name, d⟩]) :
    TimerRel bits s' r' (gs ++ [⟨ev.id, p, name, d, s.clock⟩]) := by
  have hidlt : ∀ g ∈ gs, g.id < ev.id := by
    intro g hg
    obtain ⟨x, hx, h1, _⟩ := h.ghostsLive g hg
    have := hq.queueWF.2 x ((mem_live s x).1 ((mem_deliverable s x).1 hx).1).1
    omega
  have hnolive : ∀ x ∈ s.live, x.data ≠ .timer p name := by
    intro x hx hd
    have := (h.pendMap n p e hn he name x.id).2 ⟨x, hx, rfl, hd⟩
    rw [hnone] at this; cases this
  refine ⟨?_, ?_, ?_, ?_, ?_, ?_, ?_, ?_, ?_, ?_⟩
  · rw [hr, List.map_append, h.timers]; rfl
  · rw [List.map_append, List.nodup_append]
    refine ⟨h.ghostsNodup, by simp, ?_⟩
    intro a ha b hb
    simp only [List.map_cons, List.map_nil, List.mem_singleton] at hb
    obtain ⟨g, hg, rfl⟩ := List.mem_map.1 ha
    subst hb
    exact Nat.ne_of_lt (hidlt g hg)
  · rw [List.pairwise_append]
    refine ⟨h.ghostsTie, by simp, ?_⟩
    intro a ha b hb _
    simp only [List.mem_singleton] at hb; subst hb
    exact hidlt a ha
  · intro x hx p' name' hd
    rw [hl] at hx
    rcases List.mem_append.1 hx with hx1 | hx1
    · obtain ⟨g, hg, hgid⟩ := h.ghostsCover x hx1 p' name' hd
      exact ⟨g, List.mem_append_left _ hg, hgid⟩
    · simp only [List.mem_singleton] at hx1; subst hx1
      exact ⟨_, List.mem_append_right _ (List.mem_singleton.2 rfl), rfl⟩
  · intro g hg
    rcases List.mem_append.1 hg with hg | hg
    · obtain ⟨x, hx, h1, h2, h3⟩ := h.ghostsLive g hg
      rw [mem_deliverable] at hx
      exact ⟨x, (mem_deliverable s' x).2 ⟨by rw [hl]; exact List.mem_append_left _ hx.1, hh ▸ hx.2⟩, h1, h2, h3⟩
    · simp only [List.mem_singleton] at hg; subst hg
      refine ⟨ev, (mem_deliverable s' ev).2 ⟨by rw [hl]; simp, ?_⟩, rfl, hdata, htime⟩
      rw [hh, hdst]; exact hn
  · intro g hg
    rw [hc]
    rcases List.mem_append.1 hg with hg | hg
    · exact h.ghostClock g hg
    · simp only [List.mem_singleton] at hg; subst hg; exact LawfulTime.le_refl _
  · rw [List.pairwise_append]
    refine ⟨h.ghostMono, by simp, ?_⟩
    intro a ha b hb
    simp only [List.mem_singleton] at hb; subst hb
    exact h.ghostClock a ha
  · intro g hg
    rcases List.mem_append.1 hg with hg | hg
    · exact h.ghostBits g hg
    · simp only [List.mem_singleton] at hg; subst hg; exact hbits
  · intro n' p' e' hn' hpe' nm id
    rw [hh] at hn'
    obtain ⟨e0, he0, hpend⟩ := hp n' p' e' hpe'
    rw [hpend nm, hl]
    by_cases hcase : n' = n ∧ p' = p ∧ nm = name
    · obtain ⟨rfl, rfl, rfl⟩ := hcase
      simp only [and_self, if_true, Option.some.injEq]
      constructor
      · intro hid'; exact ⟨ev, by simp, hid', hdata⟩
      · rintro ⟨x, hx, h1, h2⟩
        rcases List.mem_append.1 hx with hx | hx
        · exact absurd h2 (hnolive x hx)
        · simp only [List.mem_singleton] at hx; subst hx; exact h1
    · rw [if_neg hcase, h.pendMap n' p' e0 hn' he0 nm id]
      constructor
      · rintro ⟨x, hx, h1, h2⟩; exact ⟨x, List.mem_append_left _ hx, h1, h2⟩
      · rintro ⟨x, hx, h1, h2⟩
        rcases List.mem_append.1 hx with hx | hx
        · exact ⟨x, hx, h1, h2⟩
        · simp only [List.mem_singleton] at hx; subst hx
          rw [hdata] at h2
          simp only [QData.timer.injEq] at h2
          obtain ⟨rfl, rfl⟩ := h2
          have := hpr.node_unique he he0
          exact absurd ⟨this, rfl, rfl⟩ hcase
  · unfold RState.timersUnique
    rw [hr, List.pairwise_append]
    refine ⟨h.uniq, by simp, ?_⟩
    intro a ha b hb
    simp only [List.mem_singleton] at hb; subst hb
    rw [h.timers] at ha
    obtain ⟨g, hg, rfl⟩ := List.mem_map.1 ha
    rintro ⟨h1, h2⟩
    simp only [TimerGhost.toPTimer] at h1 h2
    obtain ⟨x, hx, _, hd, _⟩ := h.ghostsLive g hg
    rw [h1, h2] at hd
    exact hnolive x ((mem_deliverable s x).1 hx).1 hd

/-- the live timer event `ec` of process `p` on node `n` (with handler) leaves the queue (popped or cancelled) and
    its name is forgotten -/
theorem TimerRel.remove [LawfulTime T] {bits : T → Nat} {s s' : Sim σ T} {r r' : RState σ}
    {gs gs' : List (TimerGhost T)} (h : TimerRel bits s r gs) (hq : QueueOk s) (hpr : TProcRel s r)
    {ec : QEv T} {n p name : Nat} {e : SProc σ T}
    (hl : s'.live = s.live.filter (fun x => x.id != ec.id)) (hh : s'.handlers = s.handlers)
    (hc : TimeOps.le s.clock s'.clock = true)
    (hec : ec ∈ s.live) (hdata : ec.data = .timer p name)
    (hn : n ∈ s.handlers) (he : s.proc? n p = some e)
    (hp : ∀ n' p' e', s'.proc? n' p' = some e' → ∃ e0, s.proc? n' p' = some e0 ∧
      ∀ nm, amGet? nm e'.pending = if n' = n ∧ p' = p ∧ nm = name then none else amGet? nm e0.pending)
    (hsub : gs'.Sublist gs) (hmem : ∀ g, g ∈ gs' ↔ g ∈ gs ∧ g.id ≠ ec.id)
    (hr : r'.timers = gs'.map TimerGhost.toPTimer) :
    TimerRel bits s' r' gs' := by
  have hlm : ∀ x, x ∈ s'.live ↔ x ∈ s.live ∧ x.id ≠ ec.id := by
    intro x; rw [hl]; simp [List.mem_filter]
  have hpc : amGet? name e.pending = some ec.id := (h.pendMap n p e hn he name ec.id).2 ⟨ec, hec, rfl, hdata⟩
  refine ⟨hr, (hsub.map _).nodup h.ghostsNodup, h.ghostsTie.sublist hsub, ?_, ?_, ?_, h.ghostMono.sublist hsub, ?_, ?_, ?_⟩
  · intro x hx p' name' hd
    rw [hlm] at hx
    obtain ⟨g, hg, hgid⟩ := h.ghostsCover x hx.1 p' name' hd
    exact ⟨g, (hmem g).2 ⟨hg, hgid ▸ hx.2⟩, hgid⟩
  · intro g hg
    obtain ⟨hg1, hg2⟩ := (hmem g).1 hg
    obtain ⟨x, hx, h1, h2, h3⟩ := h.ghostsLive g hg1
    rw [mem_deliverable] at hx
    exact ⟨x, (mem_deliverable s' x).2 ⟨(hlm x).2 ⟨hx.1, h1 ▸ hg2⟩, hh ▸ hx.2⟩, h1, h2, h3⟩
  · intro g hg; exact LawfulTime.le_trans _ _ _ (h.ghostClock g ((hmem g).1 hg).1) hc
  · intro g hg; exact h.ghostBits g ((hmem g).1 hg).1
  · intro n' p' e' hn' hpe' nm id
    rw [hh] at hn'
    obtain ⟨e0, he0, hpend⟩ := hp n' p' e' hpe'
    rw [hpend nm]
    by_cases hcase : n' = n ∧ p' = p ∧ nm = name
    · obtain ⟨rfl, rfl, rfl⟩ := hcase
      simp only [and_self, if_true]
      constructor
      · intro hx; cases hx
      · rintro ⟨x, hx, h1, h2⟩
        exfalso
        rw [hlm] at hx
        have := (h.pendMap n' p' e hn he nm x.id).2 ⟨x, hx.1, rfl, h2⟩
        rw [hpc] at this
        exact hx.2 (Option.some.inj this).symm
    · rw [if_neg hcase, h.pendMap n' p' e0 hn' he0 nm id]
      constructor
      · rintro ⟨x, hx, h1, h2⟩
        refine ⟨x, (hlm x).2 ⟨hx, ?_⟩, h1, h2⟩
        intro hxid
        have hxe := live_eq_of_id s hq.queueWF hx hec hxid
        subst hxe
        rw [hdata] at h2
        simp only [QData.timer.injEq] at h2
        obtain ⟨rfl, rfl⟩ := h2
        have := hpr.node_unique he he0
        exact hcase ⟨this, rfl, rfl⟩
      · rintro ⟨x, hx, h1, h2⟩; exact ⟨x, ((hlm x).1 hx).1, h1, h2⟩
  · unfold RState.timersUnique
    rw [hr]
    have := h.uniq
    unfold RState.timersUnique at this
    rw [h.timers] at this
    exact this.sublist (hsub.map _)

end R4Timer

/-! # section R4Ref -/
section R4Ref
variable {σ T : Type} [TimeOps T]

open Sim

theorem amGet?_map_upd_r4 {β : Type} (l : List (Nat × β)) (p : Nat) (g : β → β) (k : Nat) :
    amGet? k (l.map (fun x => if x.1 = p then (x.1, g x.2) else x)) =
      if k = p then (amGet? k l).map g else amGet? k l := by
  induction l with
  | nil => simp [amGet?]
  | cons x xs ih =>
    obtain ⟨k', v⟩ := x
    simp only [List.map_cons]
    by_cases hk' : k' = p
    · subst hk'
      simp only [if_true, amGet?]
      by_cases hk : k = k'
      · subst hk; simp
      · simp [hk, ih]
    · simp only [hk', if_false, amGet?]
      by_cases hk : k = k'
      · subst hk; simp [hk']
      · simp [hk, ih]

/-- the state or the outbox of process `p` on node `n` changes on both sides -/
theorem TProcRel.upd {q : Sim σ T} {r : RState σ} (h : TProcRel q r) (n p : Nat) (f : SProc σ T → SProc σ T)
    (g : RProc σ → RProc σ) (hfg : ∀ e : SProc σ T, (⟨(f e).st, (f e).outbox⟩ : RProc σ) = g ⟨e.st, e.outbox⟩)
    {e : SProc σ T} (he : q.proc? n p = some e) :
    TProcRel (q.updProc n p f)
      { r with procs := r.procs.map (fun (x : Nat × RProc σ) => if x.1 = p then (x.1, g x.2) else x) } := by
  refine ⟨?_, ?_⟩
  · intro n' p' e' he'
    rw [proc?_updProc] at he'
    simp only [updProc_net, amGet?_map_upd_r4]
    split at he'
    · rename_i hnp
      obtain ⟨rfl, rfl⟩ := hnp
      rw [he] at he'
      simp only [Option.map_some, Option.some.injEq] at he'
      subst he'
      obtain ⟨h1, h2⟩ := h.procs n' p' e he
      rw [if_pos rfl, h1]
      exact ⟨by simp [hfg], h2⟩
    · rename_i hnp
      have hpp : p' ≠ p := by
        intro hpp; subst hpp
        exact hnp ⟨h.node_unique he he', rfl⟩
      rw [if_neg hpp]
      exact h.procs n' p' e' he'
  · intro p' rp hrp
    simp only [amGet?_map_upd_r4] at hrp
    have : ∃ rp0, amGet? p' r.procs = some rp0 := by
      split at hrp
      · cases hg : amGet? p' r.procs with
        | none => rw [hg] at hrp; cases hrp
        | some rp0 => exact ⟨rp0, rfl⟩
      · exact ⟨rp, hrp⟩
    obtain ⟨rp0, hrp0⟩ := this
    obtain ⟨n', e', he'⟩ := h.procsBack p' rp0 hrp0
    refine ⟨n', ?_⟩
    rw [proc?_updProc]
    split
    · rename_i hnp; obtain ⟨rfl, rfl⟩ := hnp; rw [he]; exact ⟨_, rfl⟩
    · exact ⟨e', he'⟩

namespace RState

/-- process `p` exists, lives on node `n`, and `n` is not crashed -/
def Ctx (r : RState σ) (n p : Nat) : Prop :=
  amGet? p r.net.procLoc = some n ∧ (amGet? p r.procs).isSome = true ∧ n ∉ r.crashedNodes

theorem Ctx.congr {r r' : RState σ} {n p : Nat} (h : r.Ctx n p) (h1 : r'.net = r.net)
    (h2 : ∀ k, (amGet? k r'.procs).isSome = (amGet? k r.procs).isSome) (h3 : r'.crashedNodes = r.crashedNodes) :
    r'.Ctx n p := by
  unfold Ctx; rw [h1, h2, h3]; exact h

theorem procCrashed_false_of {r : RState σ} {p n : Nat} (h1 : amGet? p r.net.procLoc = some n)
    (h2 : n ∉ r.crashedNodes) : r.procCrashed p = false := by
  simp [procCrashed, h1, h2]

theorem isSome_map_upd (l : List (Nat × RProc σ)) (p : Nat) (g : RProc σ → RProc σ) (k : Nat) :
    (amGet? k (l.map (fun x => if x.1 = p then (x.1, g x.2) else x))).isSome = (amGet? k l).isSome := by
  rw [amGet?_map_upd_r4]
  split
  · cases amGet? k l <;> rfl
  · rfl

/-- a `Context` call changes neither the network settings, nor the crashed nodes, nor the set of processes -/
theorem act_frame (r : RState σ) (p : Nat) (a : Action) :
    (r.act p a).1.net = r.net ∧ (r.act p a).1.crashedNodes = r.crashedNodes ∧
    ∀ k, (amGet? k (r.act p a).1.procs).isSome = (amGet? k r.procs).isSome := by
  cases a with
  | send m dst =>
    simp only [act]
    split
    · split <;> exact ⟨rfl, rfl, fun _ => rfl⟩
    · exact ⟨rfl, rfl, fun _ => rfl⟩
    · exact ⟨rfl, rfl, fun _ => rfl⟩
  | loc m =>
    refine ⟨rfl, rfl, fun k => ?_⟩
    exact isSome_map_upd r.procs p (fun rp => { rp with outbox := rp.outbox ++ [m] }) k
  | set name delay once =>
    simp only [act]
    split <;> exact ⟨rfl, rfl, fun _ => rfl⟩
  | cancel name =>
    simp only [act]
    split <;> exact ⟨rfl, rfl, fun _ => rfl⟩

theorem Ctx.act {r : RState σ} {n p : Nat} (h : r.Ctx n p) (p' : Nat) (a : Action) : (r.act p' a).1.Ctx n p :=
  let ⟨h1, h2, h3⟩ := act_frame r p' a
  h.congr h1 h3 h2

/-- what a `send` does to the reference state -/
theorem act_send_spec (r : RState σ) (p : Nat) (m : Msg) (dst sn dn : Nat)
    (hs : amGet? p r.net.procLoc = some sn) (hd : amGet? dst r.net.procLoc = some dn)
    (hcp : r.procCrashed p = false) :
    (r.act p (.send m dst)).1.procs = r.procs ∧ (r.act p (.send m dst)).1.timers = r.timers ∧
    (r.act p (.send m dst)).1.flights =
      if (sn = dn ∨ r.net.pathEnabled sn dn = true) ∧ r.procCrashed dst = false then
        r.flights ++ [⟨m, p, dst, if sn = dn then .noFail r.net.maxDelay
          else .faults r.net.dropPos (if r.net.duplNonzero then DUPL_COUNT else 0) r.net.corruptPos⟩]
      else r.flights := by
  simp only [act, McNet.sendMessage, McNet.procNode, hs, hd]
  by_cases hsd : sn = dn
  · subst hsd
    cases h2 : r.procCrashed dst <;> simp [hcp, h2]
  · cases hpe : r.net.pathEnabled sn dn
    · simp [hsd, hpe]
    · cases h2 : r.procCrashed dst <;> simp [hsd, hpe, hcp, h2]

end RState

/-- from the relation and the reference-side context: the node has a handler and the process entry exists -/
theorem TimedRel.ctx {bits : T → Nat} {s : Sim σ T} {r : RState σ} {gs : List (TimerGhost T)}
    (h : TimedRel bits s r gs) {n p : Nat} (hc : r.Ctx n p) : n ∈ s.handlers ∧ ∃ e, s.proc? n p = some e := by
  obtain ⟨h1, h2, h3⟩ := hc
  cases hrp : amGet? p r.procs with
  | none => rw [hrp] at h2; cases h2
  | some rp =>
    obtain ⟨n', e, he⟩ := h.proc.procsBack p rp hrp
    have hl := (h.proc.procs n' p e he).2
    rw [h.net.netLoc, hl] at h1
    have hn : n' = n := Option.some.inj h1
    subst hn
    refine ⟨?_, e, he⟩
    have hhas : amHas n' s.nodes = true := h.net.locNodes p n' hl
    cases hdec : decide (n' ∈ s.handlers) with
    | true => exact of_decide_eq_true hdec
    | false =>
      exact absurd ((h.net.crashed n').2 ⟨hhas, of_decide_eq_false hdec⟩) h3

end R4Ref

/-! # section R4Prims -/
section R4Prims
variable {σ T : Type} [TimeOps T]

open Sim

namespace Sim

theorem pvo_updProc (s : Sim σ T) (n p : Nat) (f : SProc σ T → SProc σ T) (hf : ∀ e, pvo (f e) = pvo e) (n' p' : Nat) :
    ((s.updProc n p f).proc? n' p').map pvo = (s.proc? n' p').map pvo := by
  rw [proc?_updProc]
  split
  · rename_i h; obtain ⟨rfl, rfl⟩ := h
    cases s.proc? n' p' <;> simp [hf]
  · rfl

theorem pvp_updProc (s : Sim σ T) (n p : Nat) (f : SProc σ T → SProc σ T) (hf : ∀ e, (f e).pending = e.pending)
    (n' p' : Nat) : ((s.updProc n p f).proc? n' p').map pvp = (s.proc? n' p').map pvp := by
  have key : ∀ e, pvp (f e) = pvp e := fun e => by unfold pvp; rw [hf]
  rw [proc?_updProc]
  split
  · rename_i h; obtain ⟨rfl, rfl⟩ := h
    cases s.proc? n' p' <;> simp [key]
  · rfl

theorem live_of_append {s s' : Sim σ T} {ev : QEv T} (hev : s'.events = s.events ++ [ev])
    (hcan : s'.canceled = s.canceled) (hfresh : ev.id ∉ s.canceled) : s'.live = s.live ++ [ev] := by
  unfold live
  rw [hev, hcan, List.filter_append]
  congr 1
  simp [List.filter_cons, hfresh]

theorem live_of_cancel {s s' : Sim σ T} {c : Nat} (hev : s'.events = s.events)
    (hcan : s'.canceled = setInsert c s.canceled) : s'.live = s.live.filter (fun x => x.id != c) := by
  have : s'.live = (s.cancelEvent c).live := live_congr hev hcan
  rw [this, live_cancelEvent]

end Sim

/-- the state or the outbox of a process changes on both sides -/
theorem TimedRel.updVisible {bits : T → Nat} {s : Sim σ T} {r : RState σ} {gs : List (TimerGhost T)}
    (h : TimedRel bits s r gs) {n p : Nat} {e : SProc σ T} (he : s.proc? n p = some e)
    (f : SProc σ T → SProc σ T) (g : RProc σ → RProc σ)
    (hfg : ∀ e : SProc σ T, (⟨(f e).st, (f e).outbox⟩ : RProc σ) = g ⟨e.st, e.outbox⟩)
    (hpend : ∀ e, (f e).pending = e.pending) :
    TimedRel bits (s.updProc n p f)
      { r with procs := r.procs.map (fun (x : Nat × RProc σ) => if x.1 = p then (x.1, g x.2) else x) } gs :=
  ⟨NetRel.congr (r := r) (by simp) (handlers_updProc s n p f) (nodesLike_updProc s n p f) rfl rfl h.net,
   h.proc.upd n p f g hfg he,
   h.queue.congr (by simp) (by simp) (by simp) (by simp) (by simp),
   TimerRel.congr (r := r) (by simp) (by simp) (by simp) (handlers_updProc s n p f) (pvp_updProc s n p f hpend) rfl h.timer,
   FlightRel.congr (r := r) (by simp) (by simp) (handlers_updProc s n p f) rfl rfl h.flights⟩

/-- a message copy is queued -/
theorem TimedRel.addMsg [LawfulTime T] {bits : T → Nat} {s s' : Sim σ T} {r r' : RState σ}
    {gs : List (TimerGhost T)} (h : TimedRel bits s r gs) {ev : QEv T} {mid src sn dst dn : Nat} {m : Msg} {o : Opts}
    (hev : s'.events = s.events ++ [ev]) (hcan : s'.canceled = s.canceled) (hcnt : s'.eventCount = s.eventCount + 1)
    (hc : s'.clock = s.clock) (hh : s'.handlers = s.handlers) (hnet : s'.net.core = s.net.core)
    (hnodes : NodesLike s.nodes s'.nodes)
    (hp : ∀ n p, (s'.proc? n p).map pv = (s.proc? n p).map pv)
    (hid : ev.id = s.eventCount) (hdst : ev.dst = dn) (hdata : ev.data = .msg mid m src sn dst dn)
    (htime : TimeOps.le s.clock ev.time = true)
    (hld : amGet? dst s.net.procLoc = some dn) (hls : amGet? src s.net.procLoc = some sn)
    (h1 : r'.procs = r.procs) (h2 : r'.crashedNodes = r.crashedNodes) (h4 : r'.timers = r.timers)
    (h5 : r'.net = r.net) (ho : o.dropOnly = true)
    (h3 : r'.flights = if dn ∈ s.handlers then r.flights ++ [⟨m, src, dst, o⟩] else r.flights) :
    TimedRel bits s' r' gs := by
  have hfresh : ev.id ∉ s.canceled := fun hin => Nat.lt_irrefl _ (hid ▸ h.queue.cancWF _ hin)
  have hl := live_of_append hev hcan hfresh
  have hloc := SimNet.core_procLoc hnet
  have hq' : QueueOk s' := h.queue.addEv hev hcan hcnt hc hnet hid htime
    (fun p name hd => by rw [hdata] at hd; cases hd)
    (fun mid' m' src' sn' dst' dn' hd => by
      rw [hdata] at hd; cases hd; exact ⟨hdst, hld, hls⟩)
  refine ⟨h.net.congr hnet hh hnodes h5 h2, h.proc.congr hloc (fun n p => pvo_of_pv (hp n p)) h1, hq', ?_, ?_⟩
  · refine h.timer.liveChange h.queue hq' h.proc hloc ?_ hh (by rw [hc]; exact LawfulTime.le_refl _)
      (fun n p => pvp_of_pv (hp n p)) h4
    intro x p name hd
    rw [hl, List.mem_append, List.mem_singleton]
    constructor
    · rintro (hx | hx)
      · exact hx
      · subst hx; rw [hdata] at hd; cases hd
    · exact Or.inl
  · refine h.flights.addEv hl hh (if dn ∈ s.handlers then [⟨m, src, dst, o⟩] else []) ?_ h5 ?_ ?_
    · rw [h3]; split <;> simp
    · rw [hdst]
      by_cases hdn : dn ∈ s.handlers
      · simp [hdn, hdata, keyOfQ, Flight.key]
      · simp [hdn]
    · intro f hf
      split at hf
      · simp only [List.mem_singleton] at hf; subst hf; exact ho
      · cases hf

/-- the reference state puts a message in flight that the simulator has dropped at random when it was sent -/
theorem TimedRel.addZombie {bits : T → Nat} {s : Sim σ T} {r r' : RState σ} {gs : List (TimerGhost T)}
    (h : TimedRel bits s r gs) (f : Flight)
    (h1 : r'.procs = r.procs) (h2 : r'.crashedNodes = r.crashedNodes) (h4 : r'.timers = r.timers)
    (h5 : r'.net = r.net) (h3 : r'.flights = r.flights ++ [f]) (hdp : r.net.dropPos = true)
    (ho : f.o.dropOnly = true) : TimedRel bits s r' gs :=
  ⟨h.net.congr rfl rfl (NodesLike.refl _) h5 h2,
   h.proc.congr rfl (fun _ _ => rfl) h1,
   h.queue,
   h.timer.congr rfl rfl rfl rfl (fun _ _ => rfl) h4,
   h.flights.addZombie rfl rfl f h3 h5 hdp ho⟩

/-- `timerPending` of the reference state = the name is in the timer map of the process entry -/
theorem TimedRel.timerPending_iff {bits : T → Nat} {s : Sim σ T} {r : RState σ} {gs : List (TimerGhost T)}
    (h : TimedRel bits s r gs) {n p : Nat} {e : SProc σ T} (hn : n ∈ s.handlers) (he : s.proc? n p = some e)
    (name : Nat) : r.timerPending p name = true ↔ ∃ id, amGet? name e.pending = some id := by
  unfold RState.timerPending
  rw [List.any_eq_true, h.timer.timers]
  constructor
  · rintro ⟨t, ht, hpn⟩
    obtain ⟨g, hg, rfl⟩ := List.mem_map.1 ht
    simp only [TimerGhost.toPTimer, Bool.and_eq_true, beq_iff_eq] at hpn
    obtain ⟨x, hx, _, hd, _⟩ := h.timer.ghostsLive g hg
    rw [hpn.1, hpn.2] at hd
    exact ⟨x.id, (h.timer.pendMap n p e hn he name x.id).2 ⟨x, ((mem_deliverable s x).1 hx).1, rfl, hd⟩⟩
  · rintro ⟨id, hid⟩
    obtain ⟨x, hx, _, hd⟩ := (h.timer.pendMap n p e hn he name id).1 hid
    have hdst : x.dst = n := by
      have := (h.queue.timerLoc x hx p name hd).2
      rw [(h.proc.procs n p e he).2] at this
      exact (Option.some.inj this).symm
    have hxd : x ∈ s.deliverable := (mem_deliverable s x).2 ⟨hx, hdst ▸ hn⟩
    obtain ⟨g, hg, hgid⟩ := h.timer.ghostsCover x hx p name hd
    obtain ⟨x', hx', hid', hd', _⟩ := h.timer.ghostsLive g hg
    have : x' = x := live_eq_of_id s h.queue.queueWF ((mem_deliverable s x').1 hx').1 hx (hid'.trans hgid)
    subst this
    rw [hd] at hd'
    simp only [QData.timer.injEq] at hd'
    exact ⟨g.toPTimer, List.mem_map_of_mem hg, by simp [TimerGhost.toPTimer, hd'.1, hd'.2]⟩

/-- the pending timer `name` of process `p` is cancelled: its event id goes to the cancelled set, the name leaves
    the timer map -/
theorem TimedRel.cancelTimer [LawfulTime T] {bits : T → Nat} {s s' : Sim σ T} {r : RState σ}
    {gs : List (TimerGhost T)} (h : TimedRel bits s r gs) {n p name old : Nat} {e : SProc σ T}
    (hn : n ∈ s.handlers) (he : s.proc? n p = some e) (hold : amGet? name e.pending = some old)
    (hev : s'.events = s.events) (hcan : s'.canceled = setInsert old s.canceled) (hcnt : s'.eventCount = s.eventCount)
    (hc : s'.clock = s.clock) (hh : s'.handlers = s.handlers) (hnet : s'.net.core = s.net.core)
    (hnodes : NodesLike s.nodes s'.nodes)
    (hpo : ∀ n' p', (s'.proc? n' p').map pvo = (s.proc? n' p').map pvo)
    (hpp : ∀ n' p' e', s'.proc? n' p' = some e' → ∃ e0, s.proc? n' p' = some e0 ∧
      ∀ nm, amGet? nm e'.pending = if n' = n ∧ p' = p ∧ nm = name then none else amGet? nm e0.pending) :
    TimedRel bits s' (r.removeTimer p name) (gs.filter (fun g => !(g.proc == p && g.name == name))) := by
  obtain ⟨ec, hec, hecid, hecd⟩ := (h.timer.pendMap n p e hn he name old).1 hold
  subst hecid
  have hloc := SimNet.core_procLoc hnet
  have hlt : ec.id < s.eventCount := h.queue.queueWF.2 ec ((mem_live s ec).1 hec).1
  have hl := live_of_cancel hev hcan
  have hq' : QueueOk s' := h.queue.cancel hev hcan hcnt hc hnet hlt
  refine ⟨NetRel.congr (r := r) hnet hh hnodes rfl rfl h.net, TProcRel.congr (r := r) hloc hpo rfl h.proc, hq', ?_, ?_⟩
  · refine h.timer.remove h.queue h.proc hl hh (by rw [hc]; exact LawfulTime.le_refl _) hec hecd hn he hpp
      List.filter_sublist ?_ ?_
    · intro g
      rw [List.mem_filter]
      refine and_congr_right (fun hg => ?_)
      obtain ⟨x, hx, hxid, hxd, _⟩ := h.timer.ghostsLive g hg
      have hxl := ((mem_deliverable s x).1 hx).1
      simp only [Bool.not_eq_true', Bool.and_eq_false_iff, beq_eq_false_iff_ne, ne_eq]
      constructor
      · intro hne hid
        have : x = ec := live_eq_of_id s h.queue.queueWF hxl hec (hxid.trans hid)
        subst this
        rw [hecd] at hxd
        simp only [QData.timer.injEq] at hxd
        rcases hne with hne | hne
        · exact hne hxd.1.symm
        · exact hne hxd.2.symm
      · intro hid
        by_cases hgp : g.proc = p
        · by_cases hgn : g.name = name
          · exfalso
            rw [hgp, hgn] at hxd
            have := (h.timer.pendMap n p e hn he name x.id).2 ⟨x, hxl, rfl, hxd⟩
            rw [hold] at this
            exact hid (hxid.symm.trans (Option.some.inj this).symm)
          · exact Or.inr hgn
        · exact Or.inl hgp
    · show r.timers.filter _ = _
      rw [h.timer.timers, List.filter_map]
      rfl
  · refine h.flights.filterNone hl hh rfl rfl ?_
    intro x hx hpx mid m src sn dst dn hd
    simp only [bne_eq_false_iff_eq] at hpx
    have : x = ec := live_eq_of_id s h.queue.queueWF ((mem_deliverable s x).1 hx).1 hec hpx
    subst this
    rw [hecd] at hd; cases hd

/-- a timer is set under a name that is not pending -/
theorem TimedRel.setTimer [LawfulTime T] {bits : T → Nat} {s s' : Sim σ T} {r r' : RState σ}
    {gs : List (TimerGhost T)} (h : TimedRel bits s r gs) {n p name d : Nat} {e : SProc σ T}
    (hn : n ∈ s.handlers) (he : s.proc? n p = some e) (hnone : amGet? name e.pending = none)
    (hd0 : TimeOps.le TimeOps.zero (TimeOps.ofBits d : T) = true) (hbits : bits (TimeOps.ofBits d : T) = d)
    (hev : s'.events = s.events ++ [⟨s.eventCount, TimeOps.add s.clock (TimeOps.ofBits d), n, n, .timer p name⟩])
    (hcan : s'.canceled = s.canceled) (hcnt : s'.eventCount = s.eventCount + 1)
    (hc : s'.clock = s.clock) (hh : s'.handlers = s.handlers) (hnet : s'.net.core = s.net.core)
    (hnodes : NodesLike s.nodes s'.nodes)
    (hpo : ∀ n' p', (s'.proc? n' p').map pvo = (s.proc? n' p').map pvo)
    (hpp : ∀ n' p' e', s'.proc? n' p' = some e' → ∃ e0, s.proc? n' p' = some e0 ∧
      ∀ nm, amGet? nm e'.pending = if n' = n ∧ p' = p ∧ nm = name then some s.eventCount else amGet? nm e0.pending)
    (h1 : r'.procs = r.procs) (h2 : r'.crashedNodes = r.crashedNodes) (h3 : r'.flights = r.flights)
    (h5 : r'.net = r.net) (h4 : r'.timers = r.timers ++ [⟨p, name, d⟩]) :
    TimedRel bits s' r' (gs ++ [⟨s.eventCount, p, name, d, s.clock⟩]) := by
  have hfresh : s.eventCount ∉ s.canceled := fun hin => Nat.lt_irrefl _ (h.queue.cancWF _ hin)
  have hl := live_of_append hev hcan hfresh
  have hloc := SimNet.core_procLoc hnet
  have hpl := (h.proc.procs n p e he).2
  have hq' : QueueOk s' := h.queue.addEv hev hcan hcnt hc hnet rfl (LawfulTime.le_add _ _ hd0)
    (fun p' name' hd => by cases hd; exact ⟨rfl, hpl⟩)
    (fun mid' m' src' sn' dst' dn' hd => by cases hd)
  refine ⟨h.net.congr hnet hh hnodes h5 h2, h.proc.congr hloc hpo h1, hq', ?_, ?_⟩
  · exact h.timer.addTimer h.queue h.proc hl hh hc rfl rfl rfl rfl hn he hnone hpp hbits h4
  · exact h.flights.addEv hl hh [] (by rw [h3]; simp) h5 (by simp [keyOfQ]) (by intro f hf; cases hf)

end R4Prims

/-! # section R4Eqns -/
section R4Eqns
variable {σ T : Type} [TimeOps T]

namespace Sim

theorem handleActions_set_none (s : Sim σ T) (n p : Nat) (time : T) (name delay : Nat) (once : Bool)
    (rest : List Action) {nd : SNode σ T} {e : SProc σ T}
    (hn : amGet? n s.nodes = some nd) (he : amGet? p nd.procs = some e) (hfree : amGet? name e.pending = none) :
    handleActions n p time (.set name delay once :: rest) s = handleActions n p time rest
      ((((s.updProc n p fun e => { e with log := e.log ++ [⟨time, .tset name delay once⟩] }).addEvent
          (.timer p name) n n (TimeOps.ofBits delay)).1.updProc n p
          fun e => { e with pending := amInsert natLt name s.eventCount e.pending }).log
        (.timerSet time s.eventCount name n p (TimeOps.ofBits delay))) := by
  obtain ⟨h1, h2⟩ := timer_lookups s n p (fun e => { e with log := e.log ++ [⟨time, .tset name delay once⟩] }) hn he
  simp only [handleActions, h1, h2, hfree]
  simp [addEvent, handleActions.delayOf]

theorem handleActions_set_once (s : Sim σ T) (n p : Nat) (time : T) (name delay old : Nat)
    (rest : List Action) {nd : SNode σ T} {e : SProc σ T}
    (hn : amGet? n s.nodes = some nd) (he : amGet? p nd.procs = some e) (hold : amGet? name e.pending = some old) :
    handleActions n p time (.set name delay true :: rest) s = handleActions n p time rest
      (s.updProc n p fun e => { e with log := e.log ++ [⟨time, .tset name delay true⟩] }) := by
  obtain ⟨h1, h2⟩ := timer_lookups s n p (fun e => { e with log := e.log ++ [⟨time, .tset name delay true⟩] }) hn he
  simp only [handleActions, h1, h2, hold]
  rfl

theorem handleActions_set_override (s : Sim σ T) (n p : Nat) (time : T) (name delay old : Nat)
    (rest : List Action) {nd : SNode σ T} {e : SProc σ T}
    (hn : amGet? n s.nodes = some nd) (he : amGet? p nd.procs = some e) (hold : amGet? name e.pending = some old) :
    handleActions n p time (.set name delay false :: rest) s = handleActions n p time rest
      (((((s.updProc n p fun e => { e with log := e.log ++ [⟨time, .tset name delay false⟩] }).cancelEvent old).addEvent
          (.timer p name) n n (TimeOps.ofBits delay)).1.updProc n p
          fun e => { e with pending := amInsert natLt name s.eventCount e.pending }).log
        (.timerSet time s.eventCount name n p (TimeOps.ofBits delay))) := by
  obtain ⟨h1, h2⟩ := timer_lookups s n p (fun e => { e with log := e.log ++ [⟨time, .tset name delay false⟩] }) hn he
  simp only [handleActions, h1, h2, hold]
  simp [addEvent, cancelEvent, handleActions.delayOf]

theorem handleActions_cancel_some (s : Sim σ T) (n p : Nat) (time : T) (name old : Nat)
    (rest : List Action) {nd : SNode σ T} {e : SProc σ T}
    (hn : amGet? n s.nodes = some nd) (he : amGet? p nd.procs = some e) (hold : amGet? name e.pending = some old) :
    handleActions n p time (.cancel name :: rest) s = handleActions n p time rest
      ((((s.updProc n p fun e => { e with log := e.log ++ [⟨time, .tcancel name⟩] }).updProc n p
          fun e => { e with pending := amErase name e.pending }).log
        (.timerCancelled time old name n p)).cancelEvent old) := by
  obtain ⟨h1, h2⟩ := timer_lookups s n p (fun e => { e with log := e.log ++ [⟨time, .tcancel name⟩] }) hn he
  simp only [handleActions, h1, h2, hold]

theorem handleActions_cancel_none (s : Sim σ T) (n p : Nat) (time : T) (name : Nat)
    (rest : List Action) {nd : SNode σ T} {e : SProc σ T}
    (hn : amGet? n s.nodes = some nd) (he : amGet? p nd.procs = some e) (hfree : amGet? name e.pending = none) :
    handleActions n p time (.cancel name :: rest) s = handleActions n p time rest
      (s.updProc n p fun e => { e with log := e.log ++ [⟨time, .tcancel name⟩] }) := by
  obtain ⟨h1, h2⟩ := timer_lookups s n p (fun e => { e with log := e.log ++ [⟨time, .tcancel name⟩] }) hn he
  simp only [handleActions, h1, h2, hfree]

end Sim

end R4Eqns

/-! # section R4Acts -/
section R4Acts
variable {σ T : Type} [TimeOps T]

open Sim

namespace Sim

theorem pend_updProc_insert (t : Sim σ T) (n p name id : Nat) (n' p' : Nat) (e' : SProc σ T)
    (h : (t.updProc n p fun e => { e with pending := amInsert natLt name id e.pending }).proc? n' p' = some e') :
    ∃ e0, t.proc? n' p' = some e0 ∧
      ∀ nm, amGet? nm e'.pending = if n' = n ∧ p' = p ∧ nm = name then some id else amGet? nm e0.pending := by
  rw [proc?_updProc] at h
  split at h
  · rename_i hnp; obtain ⟨rfl, rfl⟩ := hnp
    cases hu : t.proc? n' p' with
    | none => rw [hu] at h; cases h
    | some eu =>
      rw [hu] at h
      simp only [Option.map_some, Option.some.injEq] at h
      subst h
      refine ⟨eu, rfl, fun nm => ?_⟩
      simp only [amGet?_amInsert, true_and]
  · rename_i hnp
    refine ⟨e', h, fun nm => ?_⟩
    rw [if_neg (fun hc => hnp ⟨hc.1, hc.2.1⟩)]

theorem pend_updProc_erase (t : Sim σ T) (n p name : Nat) (n' p' : Nat) (e' : SProc σ T)
    (h : (t.updProc n p fun e => { e with pending := amErase name e.pending }).proc? n' p' = some e') :
    ∃ e0, t.proc? n' p' = some e0 ∧
      ∀ nm, amGet? nm e'.pending = if n' = n ∧ p' = p ∧ nm = name then none else amGet? nm e0.pending := by
  rw [proc?_updProc] at h
  split at h
  · rename_i hnp; obtain ⟨rfl, rfl⟩ := hnp
    cases hu : t.proc? n' p' with
    | none => rw [hu] at h; cases h
    | some eu =>
      rw [hu] at h
      simp only [Option.map_some, Option.some.injEq] at h
      subst h
      refine ⟨eu, rfl, fun nm => ?_⟩
      simp only [amGet?_amErase, true_and]
  · rename_i hnp
    refine ⟨e', h, fun nm => ?_⟩
    rw [if_neg (fun hc => hnp ⟨hc.1, hc.2.1⟩)]

theorem pend_insert_after_erase (u1 u : Sim σ T) (hu1 : ∀ n p, u1.proc? n p = u.proc? n p) (n p name id : Nat)
    (n' p' : Nat) (e' : SProc σ T)
    (h : (u1.updProc n p fun e => { e with pending := amInsert natLt name id e.pending }).proc? n' p' = some e') :
    ∃ e0, (u.updProc n p fun e => { e with pending := amErase name e.pending }).proc? n' p' = some e0 ∧
      ∀ nm, amGet? nm e'.pending = if n' = n ∧ p' = p ∧ nm = name then some id else amGet? nm e0.pending := by
  rw [proc?_updProc, hu1, hu1] at h
  rw [proc?_updProc]
  split at h
  · rename_i hnp; obtain ⟨rfl, rfl⟩ := hnp
    cases hu : u.proc? n' p' with
    | none => rw [hu] at h; cases h
    | some eu =>
      rw [hu] at h
      simp only [Option.map_some, Option.some.injEq] at h
      subst h
      refine ⟨{ eu with pending := amErase name eu.pending }, by simp, fun nm => ?_⟩
      simp only [amGet?_amInsert, amGet?_amErase, true_and]
      split <;> rfl
  · rename_i hnp
    refine ⟨e', by rw [if_neg hnp]; exact h, fun nm => ?_⟩
    rw [if_neg (fun hc => hnp ⟨hc.1, hc.2.1⟩)]

theorem cancelEvent_eventCount (s : Sim σ T) (id : Nat) : (s.cancelEvent id).eventCount = s.eventCount := rfl

end Sim

namespace RState

theorem removeTimer_of_not_pending (r : RState σ) (p name : Nat) (h : r.timerPending p name = false) :
    (r.removeTimer p name).timers = r.timers := by
  unfold removeTimer
  simp only
  apply filter_eq_self_of
  intro t ht
  unfold timerPending at h
  rw [List.any_eq_false] at h
  cases hb : (t.proc == p && t.name == name) with
  | false => rfl
  | true => exact absurd hb (h t ht)

theorem act_set_spec (r : RState σ) (p name d : Nat) (once : Bool) (h : (once && r.timerPending p name) = false) :
    (r.act p (.set name d once)).1.procs = r.procs ∧ (r.act p (.set name d once)).1.crashedNodes = r.crashedNodes ∧
    (r.act p (.set name d once)).1.flights = r.flights ∧ (r.act p (.set name d once)).1.net = r.net ∧
    (r.act p (.set name d once)).1.timers = (r.removeTimer p name).timers ++ [⟨p, name, d⟩] := by
  simp only [act, h]
  exact ⟨rfl, rfl, rfl, rfl, rfl⟩

theorem act_set_ignored (r : RState σ) (p name d : Nat) (once : Bool) (h : (once && r.timerPending p name) = true) :
    (r.act p (.set name d once)).1 = r := by
  simp only [act, h]
  rfl

theorem act_cancel_pending (r : RState σ) (p name : Nat) (h : r.timerPending p name = true) :
    (r.act p (.cancel name)).1.procs = r.procs ∧ (r.act p (.cancel name)).1.crashedNodes = r.crashedNodes ∧
    (r.act p (.cancel name)).1.flights = r.flights ∧ (r.act p (.cancel name)).1.net = r.net ∧
    (r.act p (.cancel name)).1.timers = (r.removeTimer p name).timers := by
  simp only [act, h]
  exact ⟨rfl, rfl, rfl, rfl, rfl⟩

theorem act_cancel_none (r : RState σ) (p name : Nat) (h : r.timerPending p name = false) :
    (r.act p (.cancel name)).1 = r := by
  simp only [act, h]
  rfl

end RState

/-- what is required of one call: delays are non-negative round-trip bit patterns, destinations are known -/
def ActOk (bits : T → Nat) (loc : List (Nat × Nat)) : Action → Prop
  | .set _ d _ => TimeOps.le TimeOps.zero (TimeOps.ofBits d : T) = true ∧ bits (TimeOps.ofBits d : T) = d
  | .send _ dst => (amGet? dst loc).isSome = true
  | _ => True

variable [LawfulTime T] {bits : T → Nat} {s s' : Sim σ T} {r : RState σ} {gs : List (TimerGhost T)}
  {n p : Nat} {time : T} {rest : List Action}

theorem act_sim_loc (h : TimedRel bits s r gs) (hctx : r.Ctx n p) (m : Msg)
    (hok : Sim.handleActions n p time (.loc m :: rest) s = .ok s') :
    ∃ s1, s1.draws = s.draws ∧ Sim.handleActions n p time rest s1 = .ok s' ∧
      TimedRel bits s1 (r.act p (.loc m)).1 gs := by
  obtain ⟨hn, e, he⟩ := h.ctx hctx
  simp only [Sim.handleActions] at hok
  split at hok
  · cases hok
  · rename_i nd hnd
    split at hok
    · cases hok
    · rename_i nd' hnd'
      refine ⟨_, ?_, hok, ?_⟩
      · simp [setNode, log]
      · apply TimedRel.sameView (sameView_setLocalCount _ n (nodeOf_ok hnd') _)
        apply TimedRel.sameView (sameView_log _ _)
        have := h.updVisible he (fun e => { e with log := e.log ++ [⟨time, .lsent m⟩], outbox := e.outbox ++ [m] })
          (fun rp => { rp with outbox := rp.outbox ++ [m] }) (fun e => rfl) (fun e => rfl)
        refine TimedRel.congr_r ?_ ?_ ?_ ?_ ?_ this <;> rfl

theorem act_sim_set (h : TimedRel bits s r gs) (hctx : r.Ctx n p) (name d : Nat) (once : Bool)
    (hd0 : TimeOps.le TimeOps.zero (TimeOps.ofBits d : T) = true) (hbits : bits (TimeOps.ofBits d : T) = d)
    (hok : Sim.handleActions n p time (.set name d once :: rest) s = .ok s') :
    ∃ s1 gs1, s1.draws = s.draws ∧ Sim.handleActions n p time rest s1 = .ok s' ∧
      TimedRel bits s1 (r.act p (.set name d once)).1 gs1 := by
  obtain ⟨hn, e, he⟩ := h.ctx hctx
  obtain ⟨nd, hnd, hpe⟩ := proc?_some he
  have hva := sameView_updProc s n p (fun e => { e with log := e.log ++ [⟨time, .tset name d once⟩] }) (fun e => rfl)
  have ha := h.sameView hva
  have hna : n ∈ (s.updProc n p fun e => { e with log := e.log ++ [⟨time, .tset name d once⟩] }).handlers := by
    rw [hva.handlers]; exact hn
  have hea : (s.updProc n p fun e => { e with log := e.log ++ [⟨time, .tset name d once⟩] }).proc? n p =
      some { e with log := e.log ++ [⟨time, .tset name d once⟩] } := by
    rw [proc?_updProc, if_pos ⟨rfl, rfl⟩, he]; rfl
  cases hpend : amGet? name e.pending with
  | none =>
    rw [handleActions_set_none s n p time name d once rest hnd hpe hpend] at hok
    have hnp : r.timerPending p name = false := by
      cases hp : r.timerPending p name with
      | false => rfl
      | true =>
        obtain ⟨id, hid⟩ := (h.timerPending_iff hn he name).1 hp
        rw [hpend] at hid; cases hid
    obtain ⟨a1, a2, a3, a4, a5⟩ := RState.act_set_spec r p name d once (by rw [hnp, Bool.and_false])
    rw [RState.removeTimer_of_not_pending r p name hnp] at a5
    refine ⟨_, ?_, ?_, hok, ?_⟩
    rotate_left 2
    · refine ha.setTimer hna hea hpend hd0 hbits ?_ ?_ ?_ ?_ ?_ ?_ ?_ ?_ ?_ a1 a2 a3 a4 a5
      · simp [log, addEvent]
      · simp [log, addEvent]
      · simp [log, addEvent]
      · simp [log, addEvent]
      · simp [log, addEvent, handlers_updProc]
      · simp [log, addEvent]
      · exact nodesLike_updProc ((s.updProc n p fun e => { e with log := e.log ++ [⟨time, .tset name d once⟩] }).addEvent
          (.timer p name) n n (TimeOps.ofBits d)).1 n p _
      · intro n' p'
        exact pvo_updProc ((s.updProc n p fun e => { e with log := e.log ++ [⟨time, .tset name d once⟩] }).addEvent
          (.timer p name) n n (TimeOps.ofBits d)).1 n p
          (fun e => { e with pending := amInsert natLt name s.eventCount e.pending }) (fun e => rfl) n' p'
      · intro n' p' e' he'
        have := pend_updProc_insert ((s.updProc n p fun e => { e with log := e.log ++ [⟨time, .tset name d once⟩] }).addEvent
          (.timer p name) n n (TimeOps.ofBits d)).1 n p name s.eventCount n' p' e' he'
        rw [proc?_addEvent] at this
        simpa using this
    · simp [log, addEvent]
  | some old =>
    cases once with
    | true =>
      rw [handleActions_set_once s n p time name d old rest hnd hpe hpend] at hok
      have hp : r.timerPending p name = true := (h.timerPending_iff hn he name).2 ⟨old, hpend⟩
      refine ⟨_, gs, by simp, hok, ?_⟩
      rw [RState.act_set_ignored r p name d true (by rw [hp]; rfl)]
      exact ha
    | false =>
      rw [handleActions_set_override s n p time name d old rest hnd hpe hpend] at hok
      obtain ⟨a1, a2, a3, a4, a5⟩ := RState.act_set_spec r p name d false (by simp)
      -- first the cancellation, on an intermediate state that has forgotten the name
      have hc := ha.cancelTimer (s' := ((s.updProc n p fun e => { e with log := e.log ++ [⟨time, .tset name d false⟩] }).updProc n p
          fun e => { e with pending := amErase name e.pending }).cancelEvent old) hna hea hpend
        (by simp [cancelEvent]) (by simp [cancelEvent]) (by simp [cancelEvent]) (by simp [cancelEvent])
        (by simp only [cancelEvent, handlers_updProc]) (by simp [cancelEvent])
        (nodesLike_updProc (s.updProc n p fun e => { e with log := e.log ++ [⟨time, .tset name d false⟩] }) n p _)
        (fun n' p' => pvo_updProc (s.updProc n p fun e => { e with log := e.log ++ [⟨time, .tset name d false⟩] }) n p
          (fun e => { e with pending := amErase name e.pending }) (fun e => rfl) n' p')
        (fun n' p' e' he' => pend_updProc_erase _ n p name n' p' e' he')
      refine ⟨_, ?_, ?_, hok, ?_⟩
      rotate_left 2
      · refine hc.setTimer (n := n) (p := p) (name := name) (e := { e with log := e.log ++ [⟨time, .tset name d false⟩], pending := amErase name e.pending })
          ?_ ?_ (by simp [amGet?_amErase]) hd0 hbits ?_ ?_ ?_ ?_ ?_ ?_ ?_ ?_ ?_ a1 a2 a3 a4 a5
        · simp only [cancelEvent, handlers_updProc]; exact hn
        · show ((s.updProc n p _).updProc n p _).proc? n p = _
          rw [proc?_updProc, if_pos ⟨rfl, rfl⟩, hea]; rfl
        · simp [log, addEvent, cancelEvent]
        · simp [log, addEvent, cancelEvent]
        · simp [log, addEvent, cancelEvent]
        · simp [log, addEvent, cancelEvent]
        · simp [log, addEvent, cancelEvent, handlers_updProc]
        · simp [log, addEvent, cancelEvent]
        · exact NodesLike.of_common
            (nodesLike_updProc (s.updProc n p fun e => { e with log := e.log ++ [⟨time, .tset name d false⟩] }) n p _)
            (nodesLike_updProc (((s.updProc n p fun e => { e with log := e.log ++ [⟨time, .tset name d false⟩] }).cancelEvent old).addEvent
              (.timer p name) n n (TimeOps.ofBits d)).1 n p _) ha.net.nodesSorted
        · intro n' p'
          have e1 := pvo_updProc (((s.updProc n p fun e => { e with log := e.log ++ [⟨time, .tset name d false⟩] }).cancelEvent old).addEvent
            (.timer p name) n n (TimeOps.ofBits d)).1 n p
            (fun e => { e with pending := amInsert natLt name s.eventCount e.pending }) (fun e => rfl) n' p'
          have e2 := pvo_updProc (s.updProc n p fun e => { e with log := e.log ++ [⟨time, .tset name d false⟩] }) n p
            (fun e => { e with pending := amErase name e.pending }) (fun e => rfl) n' p'
          exact e1.trans e2.symm
        · intro n' p' e' he'
          have := pend_insert_after_erase
            (((s.updProc n p fun e => { e with log := e.log ++ [⟨time, .tset name d false⟩] }).cancelEvent old).addEvent
              (.timer p name) n n (TimeOps.ofBits d)).1
            (s.updProc n p fun e => { e with log := e.log ++ [⟨time, .tset name d false⟩] }) (fun _ _ => rfl)
            n p name s.eventCount n' p' e' he'
          simpa only [proc?_cancelEvent, cancelEvent_eventCount, updProc_eventCount] using this
      · simp [log, addEvent, cancelEvent]

theorem act_sim_cancel (h : TimedRel bits s r gs) (hctx : r.Ctx n p) (name : Nat)
    (hok : Sim.handleActions n p time (.cancel name :: rest) s = .ok s') :
    ∃ s1 gs1, s1.draws = s.draws ∧ Sim.handleActions n p time rest s1 = .ok s' ∧
      TimedRel bits s1 (r.act p (.cancel name)).1 gs1 := by
  obtain ⟨hn, e, he⟩ := h.ctx hctx
  obtain ⟨nd, hnd, hpe⟩ := proc?_some he
  have hva := sameView_updProc s n p (fun e => { e with log := e.log ++ [⟨time, .tcancel name⟩] }) (fun e => rfl)
  have ha := h.sameView hva
  have hna : n ∈ (s.updProc n p fun e => { e with log := e.log ++ [⟨time, .tcancel name⟩] }).handlers := by
    rw [hva.handlers]; exact hn
  have hea : (s.updProc n p fun e => { e with log := e.log ++ [⟨time, .tcancel name⟩] }).proc? n p =
      some { e with log := e.log ++ [⟨time, .tcancel name⟩] } := by
    rw [proc?_updProc, if_pos ⟨rfl, rfl⟩, he]; rfl
  cases hpend : amGet? name e.pending with
  | none =>
    rw [handleActions_cancel_none s n p time name rest hnd hpe hpend] at hok
    have hnp : r.timerPending p name = false := by
      cases hp : r.timerPending p name with
      | false => rfl
      | true =>
        obtain ⟨id, hid⟩ := (h.timerPending_iff hn he name).1 hp
        rw [hpend] at hid; cases hid
    refine ⟨_, gs, by simp, hok, ?_⟩
    rw [RState.act_cancel_none r p name hnp]
    exact ha
  | some old =>
    rw [handleActions_cancel_some s n p time name old rest hnd hpe hpend] at hok
    have hp : r.timerPending p name = true := (h.timerPending_iff hn he name).2 ⟨old, hpend⟩
    obtain ⟨a1, a2, a3, a4, a5⟩ := RState.act_cancel_pending r p name hp
    have hc := ha.cancelTimer (s' := (((s.updProc n p fun e => { e with log := e.log ++ [⟨time, .tcancel name⟩] }).updProc n p
          fun e => { e with pending := amErase name e.pending }).log (.timerCancelled time old name n p)).cancelEvent old)
        hna hea hpend
        (by simp [cancelEvent, log]) (by simp [cancelEvent, log]) (by simp [cancelEvent, log]) (by simp [cancelEvent, log])
        (by simp only [cancelEvent, log, handlers_updProc]) (by simp [cancelEvent, log])
        (nodesLike_updProc (s.updProc n p fun e => { e with log := e.log ++ [⟨time, .tcancel name⟩] }) n p _)
        (fun n' p' => pvo_updProc (s.updProc n p fun e => { e with log := e.log ++ [⟨time, .tcancel name⟩] }) n p
          (fun e => { e with pending := amErase name e.pending }) (fun e => rfl) n' p')
        (fun n' p' e' he' => pend_updProc_erase
          (s.updProc n p fun e => { e with log := e.log ++ [⟨time, .tcancel name⟩] }) n p name n' p' e' he')
    refine ⟨_, _, ?_, hok, TimedRel.congr_r (r := r.removeTimer p name) a1 a2 a3 a5 a4 hc⟩
    simp [cancelEvent, log]

end R4Acts

/-! # section R4Send -/
section R4Send
variable {σ T : Type} [TimeOps T]

open Sim

variable [LawfulTime T] {bits : T → Nat} {s s' : Sim σ T} {r : RState σ} {gs : List (TimerGhost T)}
  {n p : Nat} {time : T} {rest : List Action}

/-- a draw below a rate: the rate is positive -/
theorem lt_zero_of_le_of_lt (x rate : T) (h0 : TimeOps.le TimeOps.zero x = true) (h : TimeOps.lt x rate = true) :
    TimeOps.lt TimeOps.zero rate = true := by
  cases hlt : TimeOps.lt TimeOps.zero rate with
  | true => rfl
  | false =>
    exfalso
    have h1 : TimeOps.le rate TimeOps.zero = true := by
      cases hle : TimeOps.le rate TimeOps.zero with
      | true => rfl
      | false => rw [(LawfulTime.lt_iff _ _).2 hle] at hlt; cases hlt
    have h2 := LawfulTime.le_trans _ _ _ h1 h0
    rw [(LawfulTime.lt_iff _ _).1 h] at h2; cases h2

theorem send_sim (h : TimedRel bits s r gs) (hctx : r.Ctx n p) (m : Msg) (dst tl : Nat)
    (hdraws : ∀ d ∈ s.draws, LawfulTime.isDraw d) (hlen : 4 ≤ s.draws.length)
    (hknown : (amGet? dst r.net.procLoc).isSome = true)
    (hok : s.sendMessage m p dst tl = .ok s') :
    (∃ k, k ≤ 4 ∧ s'.draws = s.draws.drop k) ∧ TimedRel bits s' (r.act p (.send m dst)).1 gs := by
  obtain ⟨hn, e, he⟩ := h.ctx hctx
  obtain ⟨hz2, hz3⟩ := h.net.ratesZero
  obtain ⟨hf1, hf2, hf3⟩ := h.net.netFlags
  have hpl : amGet? p s.net.procLoc = some n := (h.proc.procs n p e he).2
  cases hdl : amGet? dst r.net.procLoc with
  | none => rw [hdl] at hknown; cases hknown
  | some dn =>
  have hdl' : amGet? dst s.net.procLoc = some dn := by rw [← h.net.netLoc]; exact hdl
  have hcp : r.procCrashed p = false := RState.procCrashed_false_of hctx.1 hctx.2.2
  obtain ⟨b1, b4, b3⟩ := RState.act_send_spec r p m dst n dn hctx.1 hdl hcp
  obtain ⟨b5, b2, _⟩ := RState.act_frame r p (.send m dst)
  have hdnode : amHas dn s.nodes = true := h.net.locNodes dst dn hdl'
  have hcr : r.procCrashed dst = !(decide (dn ∈ s.handlers)) := by
    simp only [RState.procCrashed, hdl]
    by_cases hdn : dn ∈ s.handlers
    · have : dn ∉ r.crashedNodes := fun hc => ((h.net.crashed dn).1 hc).2 hdn
      simp [hdn, this]
    · have : dn ∈ r.crashedNodes := (h.net.crashed dn).2 ⟨hdnode, hdn⟩
      simp [hdn, this]
  by_cases hnd : n = dn
  · subst hnd
    rw [sendMessage_same s m p dst n tl hpl hdl'] at hok
    have hok' := Except.ok.inj hok
    subst hok'
    refine ⟨⟨0, by omega, by simp⟩, ?_⟩
    refine h.addMsg (ev := ⟨s.eventCount, TimeOps.add s.clock TimeOps.zero, n, n, .msg s.net.messageCount m p n dst n⟩)
      (o := .noFail r.net.maxDelay)
      rfl rfl rfl rfl rfl rfl (NodesLike.refl _) (fun _ _ => rfl) rfl rfl rfl
      (LawfulTime.le_add _ _ (LawfulTime.le_refl _)) hdl' hpl b1 b2 b4 b5 rfl ?_
    rw [b3, hcr]
    simp [hn]
  · rw [sendMessage_cross s m p dst n dn tl hpl hdl' hnd] at hok
    have hok' := Except.ok.inj hok
    subst hok'
    have hpe : r.net.pathEnabled n dn = (!(s.pathCut n dn) && s.handlers.contains dn) :=
      h.net.netCut n dn hn hdnode
    cases hcut : s.pathCut n dn with
    | true =>
      have hdr : s.sendDropped n dn = true := by rw [sendDropped_eq, hcut, Bool.or_true]
      rw [cross_dropped _ _ _ _ _ _ _ hdr]
      refine ⟨⟨1, by omega, rfl⟩, ?_⟩
      refine TimedRel.congr_r b1 b2 ?_ b4 b5
        (TimedRel.sameView (q := s) ⟨rfl, rfl, rfl, rfl, rfl, rfl, NodesLike.refl _, fun _ _ => rfl⟩ h)
      rw [b3, hpe, hcut]
      simp [hnd]
    | false =>
      cases hrd : TimeOps.lt (dr s.draws 0) s.net.dropRate with
      | true =>
        -- dropped at random at send time: the simulator queues nothing, the reference flight is a zombie
        have hdr : s.sendDropped n dn = true := by rw [sendDropped_eq, hrd]; rfl
        rw [cross_dropped _ _ _ _ _ _ _ hdr]
        refine ⟨⟨1, by omega, rfl⟩, ?_⟩
        have hsv := TimedRel.sameView (q := s)
          (q' := { s with draws := s.draws.drop 1, net := s.crossNet m tl,
                          trace := s.trace ++ [.sent s.clock s.net.messageCount n p dn dst m,
                                               .dropped s.clock s.net.messageCount n p dn dst m] })
          ⟨rfl, rfl, rfl, rfl, rfl, rfl, NodesLike.refl _, fun _ _ => rfl⟩ h
        have hdp : r.net.dropPos = true := by
          rw [hf1]; exact lt_zero_of_le_of_lt _ _ (dr_nonneg _ hdraws 0) hrd
        by_cases hdn : dn ∈ s.handlers
        · refine hsv.addZombie ⟨m, p, dst, .faults r.net.dropPos 0 false⟩ b1 b2 b4 b5 ?_ hdp rfl
          rw [b3, hpe, hcut, hcr]
          simp [hdn, hnd, hf2, hf3]
        · refine TimedRel.congr_r b1 b2 ?_ b4 b5 hsv
          rw [b3, hpe, hcut, hcr]
          simp [hdn, hnd]
      | false =>
      have hdr : s.sendDropped n dn = false := by
        rw [sendDropped_eq, hcut, hrd]; rfl
      have hcnt : s.sendCount = 1 := sendCount_dupl_zero s hdraws hz2
      have hbase : s.sendBase = 3 := by simp [sendBase, sendDup, hz2, dr_lt_zero _ hdraws]
      have hpay : s.sendPayload m = m := by simp [sendPayload, hz3, dr_lt_zero _ hdraws]
      rw [cross_passed _ _ _ _ _ _ _ hdr, hcnt, hbase, hpay]
      refine ⟨⟨4, by omega, rfl⟩, ?_⟩
      have hdrw : LawfulTime.isDraw (dr s.draws (3 + 0)) := hdraws _ (dr_mem _ _ (by omega))
      have hb := LawfulTime.scale_bounds s.net.minDelay s.net.maxDelay _ h.queue.delaysOk.2 hdrw
      refine h.addMsg (ev := copyEv s (.msg s.net.messageCount m p n dst dn) n dn 3 0)
        (o := .faults r.net.dropPos 0 false)
        (by simp [List.range_succ]) rfl rfl rfl rfl rfl (NodesLike.refl _) (fun _ _ => rfl) (by simp [copyEv]) rfl rfl
        (LawfulTime.le_add _ _ (LawfulTime.le_trans _ _ _ h.queue.delaysOk.1 hb.1)) hdl' hpl b1 b2 b4 b5 rfl ?_
      rw [b3, hpe, hcut, hcr]
      by_cases hdn : dn ∈ s.handlers
      · simp [copyEv, hdn, hnd, hf2, hf3]
      · simp [copyEv, hdn, hnd]

theorem act_sim_send (h : TimedRel bits s r gs) (hctx : r.Ctx n p) (m : Msg) (dst : Nat)
    (hdraws : ∀ d ∈ s.draws, LawfulTime.isDraw d) (hlen : 4 ≤ s.draws.length)
    (hknown : (amGet? dst r.net.procLoc).isSome = true)
    (hok : Sim.handleActions n p time (.send m dst :: rest) s = .ok s') :
    ∃ s1, (∃ k, k ≤ 4 ∧ s1.draws = s.draws.drop k) ∧ Sim.handleActions n p time rest s1 = .ok s' ∧
      TimedRel bits s1 (r.act p (.send m dst)).1 gs := by
  simp only [Sim.handleActions] at hok
  split at hok
  · cases hok
  · rename_i sb hsb
    have hva := sameView_updProc s n p (fun e => { e with log := e.log ++ [⟨time, .sent m p dst⟩] }) (fun e => rfl)
    obtain ⟨⟨k, hk, hdk⟩, hrel⟩ := send_sim (h.sameView hva) hctx m dst _ (by simpa using hdraws) (by simpa using hlen)
      hknown hsb
    refine ⟨_, ⟨k, hk, ?_⟩, hok, hrel.sameView (sameView_updProc sb n p _ (fun e => rfl))⟩
    simpa using hdk

end R4Send

/-! # section R4Run -/
section R4Run
variable {σ T : Type} [TimeOps T]

open Sim

namespace RState

theorem actsAux_cons (p : Nat) (a : Action) (rest : List Action) (r : RState σ) (late : List LogE) :
    actsAux p (a :: rest) r late = actsAux p rest (r.act p a).1 (late ++ (r.act p a).2) := rfl

end RState

theorem acts_sim [LawfulTime T] {bits : T → Nat} {n p : Nat} {time : T} {s' : Sim σ T} (acts : List Action) :
    ∀ (s : Sim σ T) (r : RState σ) (gs : List (TimerGhost T)) (late : List LogE),
      TimedRel bits s r gs → r.Ctx n p → (∀ d ∈ s.draws, LawfulTime.isDraw d) → 4 * acts.length ≤ s.draws.length →
      (∀ a ∈ acts, ActOk bits r.net.procLoc a) → Sim.handleActions n p time acts s = .ok s' →
      ∃ gs', TimedRel bits s' (RState.actsAux p acts r late).1 gs' := by
  induction acts with
  | nil =>
    intro s r gs late h _ _ _ _ hok
    simp only [Sim.handleActions, Except.ok.injEq] at hok
    subst hok
    exact ⟨gs, h⟩
  | cons a rest ih =>
    intro s r gs late h hctx hdraws hlen haok hok
    rw [RState.actsAux_cons]
    have hlen4 : 4 ≤ s.draws.length := by simp only [List.length_cons] at hlen; omega
    have hloc : (r.act p a).1.net.procLoc = r.net.procLoc := by rw [(RState.act_frame r p a).1]
    have haok' : ∀ a' ∈ rest, ActOk bits (r.act p a).1.net.procLoc a' := by
      intro a' ha'; rw [hloc]; exact haok a' (List.mem_cons_of_mem _ ha')
    have hthis := haok a List.mem_cons_self
    have fin : ∀ (s1 : Sim σ T) (gs1 : List (TimerGhost T)), (∃ k, k ≤ 4 ∧ s1.draws = s.draws.drop k) →
        Sim.handleActions n p time rest s1 = .ok s' → TimedRel bits s1 (r.act p a).1 gs1 →
        ∃ gs', TimedRel bits s' (RState.actsAux p rest (r.act p a).1 (late ++ (r.act p a).2)).1 gs' := by
      intro s1 gs1 ⟨k, hk, hdk⟩ hok1 hrel1
      refine ih s1 _ gs1 _ hrel1 (hctx.act p a) ?_ ?_ haok' hok1
      · intro d hd; rw [hdk] at hd; exact hdraws d (List.mem_of_mem_drop hd)
      · rw [hdk, List.length_drop]; simp only [List.length_cons] at hlen; omega
    cases a with
    | send m dst =>
      obtain ⟨s1, hk, hok1, hrel1⟩ := act_sim_send h hctx m dst hdraws hlen4 hthis hok
      exact fin s1 gs hk hok1 hrel1
    | loc m =>
      obtain ⟨s1, hd, hok1, hrel1⟩ := act_sim_loc h hctx m hok
      exact fin s1 gs ⟨0, by omega, by simpa using hd⟩ hok1 hrel1
    | set name d once =>
      obtain ⟨s1, gs1, hd, hok1, hrel1⟩ := act_sim_set h hctx name d once hthis.1 hthis.2 hok
      exact fin s1 gs1 ⟨0, by omega, by simpa using hd⟩ hok1 hrel1
    | cancel name =>
      obtain ⟨s1, gs1, hd, hok1, hrel1⟩ := act_sim_cancel h hctx name hok
      exact fin s1 gs1 ⟨0, by omega, by simpa using hd⟩ hok1 hrel1

/-! ## the oldest copy of a flight -/

/-- index of the first flight with the given (message, source, destination) triple -/
def firstKeyIdx (k : Msg × Nat × Nat) : List Flight → Nat
  | [] => 0
  | a :: l => if a.key = k then 0 else firstKeyIdx k l + 1

theorem firstKeyIdx_spec (k : Msg × Nat × Nat) (l : List Flight) (hk : k ∈ l.map Flight.key) :
    ∃ f, l[firstKeyIdx k l]? = some f ∧ f.key = k ∧
      (l.eraseIdx (firstKeyIdx k l)).map Flight.key = (l.map Flight.key).erase k ∧
      ∀ g ∈ l.take (firstKeyIdx k l), g.key ≠ k := by
  induction l with
  | nil => cases hk
  | cons a l ih =>
    by_cases ha : a.key = k
    · refine ⟨a, ?_, ha, ?_, ?_⟩
      · simp [firstKeyIdx, ha]
      · simp [firstKeyIdx, ha]
      · simp [firstKeyIdx, ha]
    · have hkl : k ∈ l.map Flight.key := by
        rw [List.map_cons] at hk
        rcases List.mem_cons.1 hk with h | h
        · exact absurd h.symm ha
        · exact h
      obtain ⟨f, h1, h2, h3, h4⟩ := ih hkl
      refine ⟨f, ?_, h2, ?_, ?_⟩
      · simp only [firstKeyIdx, if_neg ha]
        simpa using h1
      · simp only [firstKeyIdx, if_neg ha]
        rw [List.eraseIdx_cons_succ, List.map_cons, List.map_cons, h3, List.erase_cons_tail (by simpa using ha)]
      · intro g hg
        simp only [firstKeyIdx, if_neg ha] at hg
        rw [List.take_succ_cons] at hg
        rcases List.mem_cons.1 hg with h | h
        · subst h; exact ha
        · exact h4 g h

/-! ## inversion -/

namespace Sim

theorem step_inv (hh : SHandler σ T) (q q' : Sim σ T) (hstep : q.step hh = .ok (true, q')) :
    ∃ e s1, nextEvent (q.events.length + 1) q = (some e, s1) ∧ deliver hh e s1 = .ok q' := by
  unfold step at hstep
  split at hstep
  · cases hstep
  · rename_i e s1 heq
    split at hstep
    · cases hstep
    · rename_i s2 hdel
      cases hstep
      exact ⟨e, s1, heq, hdel⟩

/-- `onMessage` that succeeds: the process exists, its handler runs on the bookkept state -/
theorem onMessage_inv (h : SHandler σ T) (n mid p : Nat) (m : Msg) (src srcNode : Nat) (s s' : Sim σ T)
    (hok : onMessage h n mid p m src srcNode s = .ok s') :
    ∃ nd e st' acts used, amGet? n s.nodes = some nd ∧ amGet? p nd.procs = some e ∧
      h p e.st (.msg m src) (TimeOps.add s.clock nd.skew) s.draws = (st', acts, used) ∧
      ∃ sA : Sim σ T, sA = ((s.log (.recv s.clock mid srcNode src n p m)).updProc n p
              fun (e : SProc σ T) => { e with log := e.log ++ [(⟨s.clock, .recv m src p⟩ : SPEv T)], recv := e.recv + 1 }) ∧
      handleActions n p s.clock acts
        (({ sA with draws := sA.draws.drop used }).updProc n p fun e => { e with st := st' }) = .ok s' := by
  unfold onMessage at hok
  cases hn : amGet? n s.nodes with
  | none => simp [nodeOf, hn] at hok
  | some nd =>
    simp only [nodeOf, hn] at hok
    split at hok
    · cases hok
    · rename_i hhas
      rw [amHas_eq] at hhas
      cases he : amGet? p nd.procs with
      | none => simp [he] at hhas
      | some e =>
        have hn1 : amGet? n (s.log (SLog.recv s.clock mid srcNode src n p m)).nodes = some nd := hn
        have hnode := updProc_node (s.log (.recv s.clock mid srcNode src n p m)) n p
          (fun e => { e with log := e.log ++ [⟨s.clock, .recv m src p⟩], recv := e.recv + 1 }) hn1 he
        obtain ⟨st', acts, used, hout, hact⟩ := runHandler_ok h n p s.clock (.msg m src) _ s' hnode
          (by simp only [amGet?_amInsert, if_true]; rfl) hok
        simp only [updProc_clock, updProc_draws] at hout
        exact ⟨nd, e, st', acts, used, rfl, he, hout, _, rfl, hact⟩

/-- `onTimer` that succeeds -/
theorem onTimer_inv (h : SHandler σ T) (n p name : Nat) (s s' : Sim σ T) (hok : onTimer h n p name s = .ok s') :
    ∃ nd e, amGet? n s.nodes = some nd ∧ amGet? p nd.procs = some e ∧
      runHandler h n p s.clock (.timer name)
        (match amGet? name e.pending with
         | some id => ((s.updProc n p fun e => { e with log := e.log ++ [⟨s.clock, .tfired name⟩] }).updProc n p
              fun e => { e with pending := amErase name e.pending }).log (.timerFired s.clock id name n p)
         | none => s.updProc n p fun e => { e with log := e.log ++ [⟨s.clock, .tfired name⟩] }) = .ok s' := by
  unfold onTimer at hok
  cases hn : amGet? n s.nodes with
  | none => simp [nodeOf, hn] at hok
  | some nd =>
    simp only [nodeOf, hn] at hok
    cases he : amGet? p nd.procs with
    | none => simp [he] at hok
    | some e =>
      simp only [he] at hok
      exact ⟨nd, e, rfl, he, hok⟩

end Sim

end R4Run

/-! # section R4Pop -/
section R4Pop
variable {σ T : Type} [TimeOps T]

open Sim

variable [LawfulTime T] {bits : T → Nat} {q s1 : Sim σ T} {r : RState σ} {gs : List (TimerGhost T)}
  {e : QEv T} {fuel : Nat}

/-- what popping the next event leaves alone, and what it guarantees -/
theorem pop_frame (h : TimedRel bits q r gs) (hf : q.events.length < fuel) (hne : nextEvent fuel q = (some e, s1)) :
    NetRel bits s1 r ∧ TProcRel s1 r ∧ QueueOk s1 ∧ TimeOps.le q.clock s1.clock = true ∧ e ∈ q.live ∧
    s1.live = q.live.filter (fun x => x.id != e.id) ∧ s1.handlers = q.handlers ∧ s1.net = q.net ∧
    s1.nodes = q.nodes ∧ s1.draws = q.draws ∧ s1.clock = e.time ∧ (∀ x ∈ q.live, evBefore x e = false) := by
  obtain ⟨h1, h2, h3, h4, h5, h6, h7, h8⟩ := nextEvent_frame_r4 fuel q s1 e hne
  obtain ⟨k1, k2, _⟩ := nextEvent_some q s1 e fuel hf h.queue.queueWF hne
  obtain ⟨m1, _, _⟩ := nextEvent_keeps q s1 e fuel hf h.queue.queueWF h.queue.clockOk hne
  refine ⟨NetRel.congr (r := r) (by rw [h1]) h3 (NodesLike.of_eq h2) rfl rfl h.net,
    TProcRel.congr (r := r) (by rw [h1]) (fun n p => by rw [proc?_of_nodes h2]) rfl h.proc,
    h.queue.pop hf hne, m1, k1, h8, h3, h1, h2, h5, h6, k2⟩

/-- the popped event is addressed to a node without handler: nothing the relation looks at changes -/
theorem pop_undeliverable (h : TimedRel bits q r gs) (hf : q.events.length < fuel)
    (hne : nextEvent fuel q = (some e, s1)) (hdst : e.dst ∉ q.handlers) : TimedRel bits s1 r gs := by
  obtain ⟨f1, f2, f3, f4, f5, f6, f7, f8, f9, _, _, _⟩ := pop_frame h hf hne
  have hpp : ∀ n p, (s1.proc? n p).map pvp = (q.proc? n p).map pvp := fun n p => by rw [proc?_of_nodes f9]
  refine ⟨f1, f2, f3, ?_, ?_⟩
  · refine h.timer.liveChange h.queue f3 h.proc (by rw [f8]) ?_ f7 f4 hpp rfl
    intro x p name hd
    rw [f6, List.mem_filter]
    constructor
    · exact fun hm => hm.1
    · intro hm
      refine ⟨hm, ?_⟩
      simp only [bne_iff_ne, ne_eq]
      intro hid
      have := live_eq_of_id q h.queue.queueWF hm f5 hid
      subst this
      exact hdst (h.timer.timerLive h.queue.queueWF hm hd)
  · refine h.flights.filterNone f6 f7 rfl rfl ?_
    intro x hx hpx
    simp only [bne_eq_false_iff_eq] at hpx
    have := live_eq_of_id q h.queue.queueWF ((mem_deliverable q x).1 hx).1 f5 hpx
    subst this
    exact absurd ((mem_deliverable q x).1 hx).2 hdst

/-- a message copy is popped: its flight leaves the reference state -/
theorem r4_pop_msg (h : TimedRel bits q r gs) (hf : q.events.length < fuel)
    (hne : nextEvent fuel q = (some e, s1)) (hdst : e.dst ∈ q.handlers) {mid src sn dst dn : Nat} {m : Msg}
    (hd : e.data = .msg mid m src sn dst dn) (r' : RState σ) (i : Nat)
    (h1 : r'.procs = r.procs) (h2 : r'.crashedNodes = r.crashedNodes) (h4 : r'.timers = r.timers)
    (h5 : r'.net = r.net)
    (h3 : r'.flights = r.flights.eraseIdx i)
    (hi : ((r.flights.eraseIdx i).map Flight.key).Perm ((r.flights.map Flight.key).erase (m, src, dst))) :
    TimedRel bits s1 r' gs := by
  obtain ⟨f1, f2, f3, f4, f5, f6, f7, f8, f9, _, _, _⟩ := pop_frame h hf hne
  have hpp : ∀ n p, (s1.proc? n p).map pvp = (q.proc? n p).map pvp := fun n p => by rw [proc?_of_nodes f9]
  refine ⟨NetRel.congr (r := r) rfl rfl (NodesLike.refl _) h5 h2 f1, TProcRel.congr (r := r) rfl (fun _ _ => rfl) h1 f2, f3, ?_, ?_⟩
  · refine h.timer.liveChange h.queue f3 h.proc (by rw [f8]) ?_ f7 f4 hpp h4
    intro x p name hdx
    rw [f6, List.mem_filter]
    constructor
    · exact fun hm => hm.1
    · intro hm
      refine ⟨hm, ?_⟩
      simp only [bne_iff_ne, ne_eq]
      intro hid
      have := live_eq_of_id q h.queue.queueWF hm f5 hid
      subst this
      rw [hd] at hdx; cases hdx
  · exact h.flights.popMsg h.queue.queueWF f6 f7 ((mem_deliverable q e).2 ⟨f5, hdst⟩)
      (by rw [hd]; rfl) h3 h5 hi

end R4Pop

/-! # section R4PopTimer -/
section R4PopTimer
variable {σ T : Type} [TimeOps T]

open Sim

variable [LawfulTime T] {bits : T → Nat} {q s1 : Sim σ T} {r : RState σ} {gs : List (TimerGhost T)}
  {e : QEv T} {fuel : Nat}

/-- the ghost of a deliverable timer event -/
theorem ghost_of_timer (h : TimedRel bits q r gs) (he : e ∈ q.deliverable) {p name : Nat}
    (hd : e.data = .timer p name) :
    ∃ g ∈ gs, g.id = e.id ∧ g.proc = p ∧ g.name = name ∧
      e.time = TimeOps.add g.setClock (TimeOps.ofBits g.delay) := by
  obtain ⟨g, hg, hgid⟩ := h.timer.ghostsCover e ((mem_deliverable q e).1 he).1 p name hd
  obtain ⟨x, hx, hxid, hxd, hxt⟩ := h.timer.ghostsLive g hg
  have : x = e := live_eq_of_id q h.queue.queueWF ((mem_deliverable q x).1 hx).1 ((mem_deliverable q e).1 he).1
    (hxid.trans hgid)
  subst this
  rw [hd] at hxd
  simp only [QData.timer.injEq] at hxd
  exact ⟨g, hg, hgid, hxd.1.symm, hxd.2.symm, hxt⟩

/-- **The timer the simulator pops is `timerUnblocked` in the related reference state**: no earlier-set pending
    timer of the same process has a less-or-equal delay — it would be queued for a time not later than the popped
    one with a smaller id, hence would have been popped first. -/
theorem popped_timer_unblocked (h : TimedRel bits q r gs)
    (hbits : ∀ x y : T, TimeOps.le x y = true → bits x ≤ bits y)
    (hadd : ∀ a b c : T, TimeOps.le a b = true → TimeOps.le (TimeOps.add a c) (TimeOps.add b c) = true)
    (hf : q.events.length < fuel) (hne : nextEvent fuel q = (some e, s1)) (hdst : e.dst ∈ q.handlers)
    {p name : Nat} (hd : e.data = .timer p name) :
    ∃ l1 g l2, gs = l1 ++ g :: l2 ∧ g.id = e.id ∧ g.proc = p ∧ g.name = name ∧
      r.timers[l1.length]? = some ⟨p, name, g.delay⟩ ∧ r.timerUnblocked l1.length = true := by
  obtain ⟨_, _, _, _, f5, _, _, _, _, _, _, fmin⟩ := pop_frame h hf hne
  have hed : e ∈ q.deliverable := (mem_deliverable q e).2 ⟨f5, hdst⟩
  obtain ⟨g, hg, hgid, hgp, hgn, hgt⟩ := ghost_of_timer h hed hd
  obtain ⟨l1, l2, hgs⟩ := List.append_of_mem hg
  have htm : r.timers = l1.map TimerGhost.toPTimer ++ g.toPTimer :: l2.map TimerGhost.toPTimer := by
    rw [h.timer.timers, hgs]; simp
  have hget : r.timers[l1.length]? = some ⟨p, name, g.delay⟩ := by
    rw [htm, List.getElem?_append_right (by simp)]
    simp [TimerGhost.toPTimer, hgp, hgn]
  refine ⟨l1, g, l2, hgs, hgid, hgp, hgn, hget, ?_⟩
  unfold RState.timerUnblocked
  rw [hget]
  simp only
  have htake : r.timers.take l1.length = l1.map TimerGhost.toPTimer := by
    rw [htm]; exact List.take_left' (by simp)
  rw [htake, List.all_eq_true]
  intro u hu
  obtain ⟨g', hg', rfl⟩ := List.mem_map.1 hu
  cases hb : (g'.toPTimer.proc == p && decide (g'.toPTimer.delay ≤ g.delay)) with
  | false => rfl
  | true =>
    exfalso
    simp only [TimerGhost.toPTimer, Bool.and_eq_true, beq_iff_eq, decide_eq_true_eq] at hb
    obtain ⟨_, hdel⟩ := hb
    have hg'gs : g' ∈ gs := by rw [hgs]; exact List.mem_append_left _ hg'
    -- earlier in the list: set no later, and the smaller id in case of a tie
    have htie := h.timer.ghostsTie
    rw [hgs, List.pairwise_append] at htie
    have hidlt : g'.fire = g.fire → g'.id < g.id := htie.2.2 g' hg' g (by simp)
    have hmono := h.timer.ghostMono
    rw [hgs, List.pairwise_append] at hmono
    have hclk : TimeOps.le g'.setClock g.setClock = true := hmono.2.2 g' hg' g (by simp)
    obtain ⟨x', hx', hx'id, _, hx't⟩ := h.timer.ghostsLive g' hg'gs
    -- the delays compare as their bit patterns do
    have hb1 := h.timer.ghostBits g' hg'gs
    have hb2 := h.timer.ghostBits g hg
    have hdle : TimeOps.le (TimeOps.ofBits g'.delay : T) (TimeOps.ofBits g.delay) = true := by
      rcases LawfulTime.le_total (TimeOps.ofBits g'.delay : T) (TimeOps.ofBits g.delay) with hle | hle
      · exact hle
      · have := hbits _ _ hle
        rw [hb1, hb2] at this
        have heq : g'.delay = g.delay := Nat.le_antisymm (of_decide_eq_true hdel) this
        rw [heq]; exact LawfulTime.le_refl _
    have ht : TimeOps.le x'.time e.time = true := by
      rw [hx't, hgt]
      exact LawfulTime.le_trans _ _ _ (LawfulTime.add_mono _ _ _ hdle) (hadd _ _ _ hclk)
    -- the popped event is minimal in `(time, id)`: the times are equal and its id is not larger
    obtain ⟨hmin1, hmin2⟩ := (evBefore_eq_false_iff x' e).1 (fmin x' ((mem_deliverable q x').1 hx').1)
    have hteq : x'.time = e.time := LawfulTime.le_antisymm _ _ ht hmin1
    have hfire : g'.fire = g.fire := by
      unfold TimerGhost.fire; rw [← hx't, ← hgt]; exact hteq
    have h1 := hidlt hfire
    have h2 := hmin2 ht
    rw [hx'id, ← hgid] at h2
    exact absurd h1 (Nat.not_lt.2 h2)

/-- after popping a timer event and forgetting its name (the bookkeeping of `on_timer_fired` before the handler
    runs), the relation holds with the timer removed from the reference state -/
theorem r4_pop_timer (h : TimedRel bits q r gs) (hf : q.events.length < fuel)
    (hne : nextEvent fuel q = (some e, s1)) (hdst : e.dst ∈ q.handlers) {p name : Nat}
    (hd : e.data = .timer p name) {e0 : SProc σ T} (he0 : s1.proc? e.dst p = some e0)
    {l1 l2 : List (TimerGhost T)} {g : TimerGhost T} (hgs : gs = l1 ++ g :: l2) (hgid : g.id = e.id)
    (x : SLog T) (tm : T) (r' : RState σ)
    (h1 : r'.procs = r.procs) (h2 : r'.crashedNodes = r.crashedNodes) (h3 : r'.flights = r.flights)
    (h5 : r'.net = r.net) (h4 : r'.timers = r.timers.eraseIdx l1.length) :
    amGet? name e0.pending = some e.id ∧
    TimedRel bits
      (((s1.updProc e.dst p fun e => { e with log := e.log ++ [⟨tm, .tfired name⟩] }).updProc e.dst p
        fun e => { e with pending := amErase name e.pending }).log x) r' (l1 ++ l2) := by
  obtain ⟨f1, f2, f3, f4, f5, f6, f7, f8, f9, _, _, _⟩ := pop_frame h hf hne
  have he0q : q.proc? e.dst p = some e0 := by rw [← proc?_of_nodes f9]; exact he0
  have hpend : amGet? name e0.pending = some e.id :=
    (h.timer.pendMap e.dst p e0 hdst he0q name e.id).2 ⟨e, f5, rfl, hd⟩
  refine ⟨hpend, ?_⟩
  have hl : (((s1.updProc e.dst p fun e => { e with log := e.log ++ [⟨tm, .tfired name⟩] }).updProc e.dst p
        fun e => { e with pending := amErase name e.pending }).log x).live = q.live.filter (fun y => y.id != e.id) := by
    rw [← f6]; exact live_congr (by simp [log]) (by simp [log])
  have hh : (((s1.updProc e.dst p fun e => { e with log := e.log ++ [⟨tm, .tfired name⟩] }).updProc e.dst p
        fun e => { e with pending := amErase name e.pending }).log x).handlers = q.handlers := by
    rw [← f7]; simp [log, handlers_updProc]
  refine ⟨?_, ?_, ?_, ?_, ?_⟩
  · exact NetRel.congr (r := r) (by simp [log]) (by rw [hh, f7])
      ((nodesLike_updProc s1 e.dst p _).trans (nodesLike_updProc (s1.updProc e.dst p _) e.dst p _)) h5 h2 f1
  · refine TProcRel.congr (r := r) (by simp [log]) ?_ h1 f2
    intro n' p'
    have e1 := pvo_updProc (s1.updProc e.dst p fun e => { e with log := e.log ++ [⟨tm, .tfired name⟩] }) e.dst p
      (fun e => { e with pending := amErase name e.pending }) (fun e => rfl) n' p'
    have e2 := pvo_updProc s1 e.dst p (fun e => { e with log := e.log ++ [⟨tm, .tfired name⟩] }) (fun e => rfl) n' p'
    exact e1.trans e2
  · exact f3.congr (by simp [log]) (by simp [log]) (by simp [log]) (by simp [log]) (by simp [log])
  · refine h.timer.remove (n := e.dst) (p := p) (name := name) h.queue h.proc hl hh ?_ f5 hd hdst he0q ?_ ?_ ?_ ?_
    · simpa [log] using f4
    · intro n' p' e' he'
      obtain ⟨ea, hea, hrel⟩ := pend_updProc_erase
        (s1.updProc e.dst p fun e => { e with log := e.log ++ [⟨tm, .tfired name⟩] }) e.dst p name n' p' e' he'
      obtain ⟨eb, heb, hrel2⟩ := pvp_of_map_eq (pvp_updProc s1 e.dst p (fun e => { e with log := e.log ++ [⟨tm, .tfired name⟩] }) (fun e => rfl) n' p') hea
      rw [proc?_of_nodes f9] at heb
      exact ⟨eb, heb, fun nm => by rw [hrel nm, hrel2 nm]⟩
    · rw [hgs]; exact (List.sublist_cons_self g l2).append_left l1
    · intro g'
      have hnd := h.timer.ghostsNodup
      rw [hgs, List.map_append, List.map_cons, List.nodup_append, List.nodup_cons] at hnd
      rw [hgs]
      simp only [List.mem_append, List.mem_cons]
      constructor
      · rintro (hm | hm)
        · refine ⟨Or.inl hm, ?_⟩
          rw [← hgid]
          exact hnd.2.2 _ (List.mem_map_of_mem hm) _ List.mem_cons_self
        · refine ⟨Or.inr (Or.inr hm), ?_⟩
          rw [← hgid]
          intro hid
          exact hnd.2.1.1 (hid ▸ List.mem_map_of_mem (f := fun g : TimerGhost T => g.id) hm)
      · rintro ⟨hm | hm | hm, hid⟩
        · exact Or.inl hm
        · subst hm; exact absurd hgid hid
        · exact Or.inr hm
    · rw [h4, h.timer.timers, hgs]
      simp [List.eraseIdx_append_of_length_le]
  · refine h.flights.filterNone hl hh h3 h5 ?_
    intro y hy hpy mid m src sn dst dn hdy
    simp only [bne_eq_false_iff_eq] at hpy
    have := live_eq_of_id q h.queue.queueWF ((mem_deliverable q y).1 hy).1 f5 hpy
    subst this
    rw [hd] at hdy; cases hdy

end R4PopTimer

/-! # section R4Tail -/
section R4Tail
variable {σ T : Type} [TimeOps T]

open Sim

/-- `onMessage` that succeeds runs the handler on the bookkept state -/
theorem Sim.onMessage_run (h : SHandler σ T) (n mid p : Nat) (m : Msg) (src srcNode : Nat) (s s' : Sim σ T)
    (hok : onMessage h n mid p m src srcNode s = .ok s') :
    runHandler h n p s.clock (.msg m src)
      ((s.log (.recv s.clock mid srcNode src n p m)).updProc n p
        fun e => { e with log := e.log ++ [⟨s.clock, .recv m src p⟩], recv := e.recv + 1 }) = .ok s' := by
  unfold onMessage at hok
  cases hn : amGet? n s.nodes with
  | none => simp [nodeOf, hn] at hok
  | some nd =>
    simp only [nodeOf, hn] at hok
    split at hok
    · cases hok
    · exact hok

theorem RState.acts_eq (r : RState σ) (p : Nat) (as : List Action) :
    (r.acts p as).procs = (RState.actsAux p as r []).1.procs ∧
    (r.acts p as).crashedNodes = (RState.actsAux p as r []).1.crashedNodes ∧
    (r.acts p as).flights = (RState.actsAux p as r []).1.flights ∧
    (r.acts p as).timers = (RState.actsAux p as r []).1.timers ∧
    (r.acts p as).net = (RState.actsAux p as r []).1.net := ⟨rfl, rfl, rfl, rfl, rfl⟩

variable [LawfulTime T] {bits : T → Nat}

/-- the handler of `p` runs on both sides -/
theorem handler_tail (h : Handler σ) {s q' : Sim σ T} {r1 : RState σ} {gs1 : List (TimerGhost T)} {n p : Nat}
    {time : T} (hrel : TimedRel bits s r1 gs1) (hctx : r1.Ctx n p)
    (hdraws : ∀ d ∈ s.draws, LawfulTime.isDraw d) (hlen : ∀ p st i, 4 * (h p st i).2.length ≤ s.draws.length)
    (haok : ∀ p st i, ∀ a ∈ (h p st i).2, ActOk bits r1.net.procLoc a) (i : Input)
    (hrun : runHandler (liftHandler h) n p time i s = .ok q') :
    ∃ r' gs', r1.react h p i = some r' ∧ TimedRel bits q' r' gs' := by
  obtain ⟨hn, e, he⟩ := hrel.ctx hctx
  obtain ⟨nd, hnd, hpe⟩ := proc?_some he
  obtain ⟨st', acts, used, hout, hact⟩ := runHandler_ok _ n p time i s q' hnd hpe hrun
  simp only [liftHandler, Prod.mk.injEq] at hout
  obtain ⟨rfl, rfl, rfl⟩ := hout
  have hprocs : amGet? p r1.procs = some ⟨e.st, e.outbox⟩ := (hrel.proc.procs n p e he).1
  have hcr : r1.procCrashed p = false := RState.procCrashed_false_of hctx.1 hctx.2.2
  have relB := hrel.sameView (sameView_draws s (s.draws.drop 0))
  have relC := relB.updVisible (n := n) (p := p) (e := e) he (fun x => { x with st := (h p e.st i).1 })
    (fun rp => { rp with st := (h p e.st i).1 }) (fun _ => rfl) (fun _ => rfl)
  have ctx2 : RState.Ctx ({ r1 with procs := (r1.procs.map (fun (x : Nat × RProc σ) => if x.1 = p then (x.1, { x.2 with st := (h p e.st i).1 }) else x)) } : RState σ) n p :=
    hctx.congr rfl (fun k => RState.isSome_map_upd r1.procs p (fun rp => { rp with st := (h p e.st i).1 }) k) rfl
  obtain ⟨gs', hfin⟩ := acts_sim (h p e.st i).2 _ _ gs1 [] relC ctx2 (by simpa using hdraws)
    (by simpa using hlen p e.st i) (haok p e.st i) hact
  have hreact : r1.react h p i = some (RState.acts ({ r1 with procs := (r1.procs.map (fun (x : Nat × RProc σ) => if x.1 = p then (x.1, { x.2 with st := (h p e.st i).1 }) else x)) } : RState σ) p (h p e.st i).2) := by
    unfold RState.react
    rw [hprocs]
    simp only [hcr]
    rfl
  obtain ⟨a1, a2, a3, a4, a5⟩ := RState.acts_eq ({ r1 with procs := (r1.procs.map (fun (x : Nat × RProc σ) => if x.1 = p then (x.1, { x.2 with st := (h p e.st i).1 }) else x)) } : RState σ) p (h p e.st i).2
  exact ⟨_, gs', hreact, TimedRel.congr_r a1 a2 a3 a4 a5 hfin⟩

end R4Tail

/-! # section R4Quiet -/
section R4Quiet

variable {σ T : Type} [TimeOps T]

/-- the reference state after a flight was taken out for delivery -/
def RState.afterDeliver (r : RState σ) (i : Nat) (f : Flight) : RState σ :=
  { r with flights := r.flights.eraseIdx i, trace := r.trace ++ [LogE.recv f.m f.src f.dst] }

/-- the reference state after a timer was taken out for firing -/
def RState.afterFire (r : RState σ) (j : Nat) (t : PTimer) : RState σ :=
  { r with timers := r.timers.eraseIdx j, trace := r.trace ++ [LogE.tfired t.proc t.name] }

theorem disconnectFold_more (cs : List Nat) : ∀ b : McNet,
    (cs.foldl (fun n c => n.disconnectNode c) b).duplNonzero = b.duplNonzero ∧
    (cs.foldl (fun n c => n.disconnectNode c) b).maxDelay = b.maxDelay := by
  induction cs with
  | nil => intro b; exact ⟨rfl, rfl⟩
  | cons c cs ih => intro b; rw [List.foldl_cons]; exact ih (b.disconnectNode c)

theorem amGet?_map_val_r4 {β γ : Type} (l : List (Nat × β)) (g : β → γ) (k : Nat) :
    amGet? k (l.map fun pe => (pe.1, g pe.2)) = (amGet? k l).map g := by
  induction l with
  | nil => rfl
  | cons x xs ih =>
    obtain ⟨k', v⟩ := x
    simp only [List.map_cons, amGet?]
    split
    · rfl
    · exact ih

theorem flat_lookup (l : List (Nat × SNode σ T)) (n p : Nat) (nd : SNode σ T) (e : SProc σ T)
    (hget : amGet? n l = some nd) (hp : amGet? p nd.procs = some e)
    (huniq : ∀ x ∈ l, (amGet? p x.2.procs).isSome = true → x.1 = n) :
    amGet? p (l.flatMap fun nd => nd.2.procs.map fun pe => (pe.1, ({ st := pe.2.st, outbox := pe.2.outbox } : RProc σ))) =
      some ⟨e.st, e.outbox⟩ := by
  induction l with
  | nil => simp [amGet?] at hget
  | cons x xs ih =>
    obtain ⟨n0, nd0⟩ := x
    rw [List.flatMap_cons, amGet?_append]
    simp only [amGet?] at hget
    by_cases hn : n = n0
    · subst hn
      simp only [if_true, Option.some.injEq] at hget
      subst hget
      rw [amGet?_map_val_r4 nd0.procs (fun v => ({ st := v.st, outbox := v.outbox } : RProc σ)) p, hp]
      rfl
    · rw [if_neg hn] at hget
      have hnone : amGet? p (nd0.procs.map fun pe => (pe.1, ({ st := pe.2.st, outbox := pe.2.outbox } : RProc σ))) = none := by
        rw [amGet?_map_val_r4 nd0.procs (fun v => ({ st := v.st, outbox := v.outbox } : RProc σ)) p]
        cases hq : amGet? p nd0.procs with
        | none => rfl
        | some e' =>
          exfalso
          exact hn (huniq (n0, nd0) List.mem_cons_self (by simp [hq])).symm
      rw [hnone]
      exact ih hget (fun x hx => huniq x (List.mem_cons_of_mem _ hx))

end R4Quiet

end Anysystem
