import Anysystem.Proofs.R4Defs
namespace Anysystem

variable {σ T : Type} [TimeOps T]

/-- the relation implies equality of the process-visible projection -/
theorem TimedRel.visible (bits : T → Nat) (q : Sim σ T) (r : RState σ) (gs : List (TimerGhost T))
    (hr : TimedRel bits q r gs) : visibleEq q r := sorry

/-- (R4, partial: rates zero) one simulator step that handles an event is a step of the reference semantics that is
    enabled in the reduced sense (modulo the choice among identical in-flight messages: the reference delivers the
    oldest copy of the same message), and the relation is re-established.  A step that pops an event addressed to a
    node without handler changes nothing process-visible and keeps the relation.  `bits` must be monotone. -/
theorem sim_step_refines_partial [LawfulTime T] (bits : T → Nat) (h : Handler σ) (q q' : Sim σ T) (r : RState σ)
    (gs : List (TimerGhost T)) (hr : TimedRel bits q r gs)
    (hbits : ∀ x y : T, TimeOps.le x y = true → bits x ≤ bits y)
    (hdelays : ∀ p st i a, a ∈ (h p st i).2 → ∀ name d once, a = .set name d once →
      TimeOps.le TimeOps.zero (TimeOps.ofBits d : T) = true)
    (hnet : TimeOps.le TimeOps.zero q.net.minDelay = true ∧ TimeOps.le q.net.minDelay q.net.maxDelay = true)
    (hknown : ∀ p st i a, a ∈ (h p st i).2 → ∀ m dst, a = .send m dst → (amGet? dst q.net.procLoc).isSome = true)
    (hdraws : ∀ d ∈ q.draws, LawfulTime.isDraw d) (hlen : 64 ≤ q.draws.length)
    (hstep : q.step (liftHandler h) = .ok (true, q')) :
    (∃ gs', TimedRel bits q' r gs') ∨
    (∃ l r' gs', r.enabledRed .normal l = true ∧ r.step h l = some r' ∧ TimedRel bits q' r' gs') := sorry

/-- the snapshot of a related simulator state is the reference state: what `ModelChecker::new` hands to the
    checker is related (`Sim'`, R2) to a reference state with the same flights (as a multiset) and timers -/
theorem timedRel_of_quiet (bits : T → Nat) (q : Sim σ T) (hq : q.events = []) (hc : q.canceled = [])
    (hrates : q.net.dropRate = TimeOps.zero ∧ q.net.duplRate = TimeOps.zero ∧ q.net.corruptRate = TimeOps.zero)
    (hpend : ∀ n nd p e, amGet? n q.nodes = some nd → amGet? p nd.procs = some e → e.pending = [])
    (hloc : ∀ n nd p e, amGet? n q.nodes = some nd → amGet? p nd.procs = some e → amGet? p q.net.procLoc = some n)
    (hhand : ∀ n, n ∈ q.handlers ↔ (∃ nd, amGet? n q.nodes = some nd ∧ nd.crashed = false))
    (hnodes : (q.nodes.map (·.1)).Nodup) :
    TimedRel bits q
      { procs := q.nodes.flatMap (fun nd => nd.2.procs.map fun pe => (pe.1, ({ st := pe.2.st, outbox := pe.2.outbox } : RProc σ))),
        crashedNodes := (q.nodes.filter (fun nd => !q.handlers.contains nd.1)).map (·.1),
        net := (snapshotNet bits q) } [] := sorry

end Anysystem
