import Anysystem.Proofs.R4Defs
import Anysystem.Proofs.R4Lemmas
import Anysystem.Proofs.SnapshotLemmas
import Anysystem.Proofs.R2Defs
/-!
# R4 (partial: duplication and corruption rates zero, drop rate arbitrary): one simulator step refines the reference
semantics

Property-level theorems (helper lemmas are in `R4Lemmas.lean`, among them `popped_timer_unblocked`: the timer the
simulator pops is `timerUnblocked` in the related reference state):

* `TimedRel.visible`            — the relation implies equality of the process-visible projection;
* `sim_step_refines_partial`    — one simulator step that handles an event is a reduced-enabled step of the
                                   reference semantics (or the event was addressed to a node without handler), and
                                   the relation is re-established;
* `sim_step_refines_run`        — the same in the shape of a reference run (`refRun`) of at most one label;
* `timedRel_of_quiet`           — the relation holds between a simulator state with an empty queue and its snapshot;
* `R4Demo.demo_hyps`, `R4Demo.demo_step` — non-vacuity: a concrete `Sim Nat Ticks` state with one process, one queued
                                   timer and one queued message satisfies all hypotheses of the main theorem.

Changes with respect to the first draft of the statements (each needed, see the comments at the clauses):

* `TimerGhost` carries the process and timer name; `TimerRel.timers` is `r.timers = ghosts.map toPTimer`, and
  `ghostsLive` says that the ghost's event is a deliverable timer event of that process and name with
  `time = setClock + delay`;
* `NetRel.netCut` is restricted to a source node with handler and an existing target node: the unrestricted clause is
  false for the snapshot of a quiet state (`R4Demo.netCut_draft_false`); `NetRel.locNodes` (processes are located on
  existing nodes) is new: without it a message to a process on a non-existing node is in flight for the reference
  semantics (the node is not crashed) and undeliverable for the simulator;
* `QueueOk.cancWF` (cancelled ids were handed out) is new: with a stale cancelled id equal to the id counter the next
  timer event would be born cancelled, pending for the reference semantics and dead for the simulator, so the draft
  theorem was false; `QueueOk.delaysOk` replaces the hypothesis `hnet` (the delay bounds never change);
* `TimerRel.ghostBits` and the second half of `hdelays` (delays survive `bits ∘ ofBits`) give, with the monotone `bits`,
  the monotonicity of `ofBits` on the delays in use; `hadd` (adding a delay is monotone in the clock) is not among the
  `LawfulTime` laws and is needed to compare `setClock + delay` of two timers;
* `hlen` asks for four draws per action of one handler call instead of 64 draws: a cross-node send consumes four draws,
  and an exhausted stream yields a delay the laws say nothing about.

Generalisation for R5 (so that the relation also holds between a simulator state and the reference state of its
snapshot, `R5Rel.timedRel_snapshot`; all theorems above keep their names and the shape of their conclusions):

* `TimerRel.ghostsSorted` (ghosts in creation order) is replaced by `ghostsNodup` (event ids pairwise distinct) and
  `ghostsTie` (of two ghosts with the same firing time the earlier one in the list has the smaller id); with
  `ghostMono` this is all `popped_timer_unblocked` needs: an earlier pending timer of the same process with a
  less-or-equal delay would fire no later than the popped event, hence (minimality of the popped event) at the same
  time, hence has the smaller id — contradicting minimality;
* `TimerRel.ghostsCover` speaks about all live timer events, not only the deliverable ones: every live timer event is
  addressed to a node with handler (`TimerRel.timerLive`); the snapshot takes over every live timer event;
* `FlightRel` relates the flights of the reference state to the deliverable message copies as multisets of
  (message, source, destination) triples (`Flight.key`) and asks every flight to carry options that permit no fault
  (`Opts.noFault`) instead of prescribing the options `zeroOpts`;
* `NetRel.handlersOk` (a node has a handler iff it exists and is not marked crashed) and `NetRel.nodesSorted` are
  new invariants of the simulator state alone; `timedRel_of_quiet` asks for `KSorted q.nodes` instead of distinct keys;
* `netRel_snapshotNet`, `tprocRel_flat` are the two halves of the proof of `timedRel_of_quiet` that `R5Rel` reuses.

Generalisation R6 (drop rate arbitrary; all theorems keep their names and the shape of their conclusions):

* `NetRel.ratesZero` asks for duplication and corruption rate zero only; `NetRel.netFlags` says
  `r.net.dropPos = lt zero q.net.dropRate` (what the snapshot computes) instead of `dropPos = false`;
* `FlightRel.perm`: the triples of the flights of `r` are the triples of the deliverable queued copies of `q` **plus a
  list of zombies** (empty when `r.net.dropPos = false`, `FlightRel.perm_of_noDrop`): the simulator decides a random
  drop when the message is sent (`sendMessage`: it logs `dropped` and queues nothing) while the reference `send` puts the
  message in flight with options `faults dropPos 0 false`.  Such a send needs NO reference step: the new flight is a
  zombie (`FlightRel.addZombie`, `TimedRel.addZombie`, the new case of `send_sim`).  Nor does a zombie ever have to be
  dropped by the reference run: reduced enabledness and the handler's reaction depend on a flight's triple only, so
  when the simulator delivers a copy with triple `c` the reference run delivers the *oldest* flight with triple `c`
  (it exists since the deliverable triples are among the flight triples, `FlightRel.key_mem`), and the multiset
  equation "flights = deliverable + zombies" is kept with the same zombies (`FlightRel.popMsg`).  Hence one simulator
  step is still AT MOST ONE reference step — `sim_step_refines_partial` keeps its conclusion verbatim — and the
  zombies simply stay in flight (in `Mode.normal` they block nothing: timers fire regardless of flights);
* `FlightRel.inert` asks for `Opts.dropOnly` (`noFail _` or `faults _ 0 false`) instead of `Opts.noFault`;
* `timedRel_of_quiet`, `netRel_snapshotNet`: the hypothesis on the rates is `duplRate = zero ∧ corruptRate = zero`.
-/
namespace Anysystem

set_option linter.unusedSectionVars false
set_option linter.unusedVariables false
set_option linter.unusedSimpArgs false

variable {σ T : Type} [TimeOps T]

open Sim

/-- the relation implies equality of the process-visible projection -/
theorem TimedRel.visible (bits : T → Nat) (q : Sim σ T) (r : RState σ) (gs : List (TimerGhost T))
    (hr : TimedRel bits q r gs) : visibleEq q r := by
  intro n nd p e hn hp
  exact (hr.proc.procs n p e (by rw [proc?_eq hn]; exact hp)).1

/-- (R4, partial: duplication and corruption rates zero, drop rate arbitrary) one simulator step that handles an event is a step of the reference semantics that is
    enabled in the reduced sense (modulo the choice among identical in-flight messages: the reference delivers the
    oldest copy of the same message), and the relation is re-established.  A step that pops an event addressed to a
    node without handler changes nothing process-visible and keeps the relation.  `bits` must be monotone, adding a
    delay must be monotone in the clock, the delays the program sets must be non-negative and survive the round trip
    through the time type, destinations must be known processes, and the draw stream must be long enough for the
    sends of one handler call (four draws each). -/
theorem sim_step_refines_partial [LawfulTime T] (bits : T → Nat) (h : Handler σ) (q q' : Sim σ T) (r : RState σ)
    (gs : List (TimerGhost T)) (hr : TimedRel bits q r gs)
    (hbits : ∀ x y : T, TimeOps.le x y = true → bits x ≤ bits y)
    (hadd : ∀ a b c : T, TimeOps.le a b = true → TimeOps.le (TimeOps.add a c) (TimeOps.add b c) = true)
    (hdelays : ∀ p st i a, a ∈ (h p st i).2 → ∀ name d once, a = .set name d once →
      TimeOps.le TimeOps.zero (TimeOps.ofBits d : T) = true ∧ bits (TimeOps.ofBits d : T) = d)
    (hknown : ∀ p st i a, a ∈ (h p st i).2 → ∀ m dst, a = .send m dst → (amGet? dst q.net.procLoc).isSome = true)
    (hdraws : ∀ d ∈ q.draws, LawfulTime.isDraw d) (hlen : ∀ p st i, 4 * (h p st i).2.length ≤ q.draws.length)
    (hstep : q.step (liftHandler h) = .ok (true, q')) :
    (∃ gs', TimedRel bits q' r gs') ∨
    (∃ l r' gs', r.enabledRed .normal l = true ∧ r.step h l = some r' ∧ TimedRel bits q' r' gs') := by
  obtain ⟨e, s1, hne, hdel⟩ := step_inv _ q q' hstep
  have hf : q.events.length < q.events.length + 1 := Nat.lt_succ_self _
  obtain ⟨f1, f2, f3, f4, f5, f6, f7, f8, f9, f10, f11, f12⟩ := pop_frame hr hf hne
  have haok : ∀ p st i, ∀ a ∈ (h p st i).2, ActOk bits r.net.procLoc a := by
    intro p st i a ha
    cases a with
    | send m dst => rw [ActOk, hr.net.netLoc]; exact hknown p st i _ ha m dst rfl
    | loc m => trivial
    | set name d once => exact hdelays p st i _ ha name d once rfl
    | cancel name => trivial
  unfold deliver at hdel
  by_cases hdst : e.dst ∈ q.handlers
  · have hc : s1.handlers.contains e.dst = true := by rw [f7]; simpa using hdst
    simp only [hc, Bool.not_true, Bool.false_eq_true, if_false] at hdel
    right
    have hncr : e.dst ∉ r.crashedNodes := fun hcr => ((hr.net.crashed e.dst).1 hcr).2 hdst
    cases hd : e.data with
    | msg mid m src sn dst dn =>
      rw [hd] at hdel
      simp only at hdel
      have hrun := onMessage_run _ _ _ _ _ _ _ _ _ hdel
      obtain ⟨hdn, hld, hls⟩ := hr.queue.msgLoc e f5 mid m src sn dst dn hd
      have hed : e ∈ q.deliverable := (mem_deliverable q e).2 ⟨f5, hdst⟩
      -- some flight of the reference state carries the triple of the popped copy; take the oldest such flight
      have hkm : (m, src, dst) ∈ r.flights.map Flight.key := hr.flights.key_mem hed (by rw [hd]; rfl)
      obtain ⟨fl, g1, g2, g4, g3⟩ := firstKeyIdx_spec (m, src, dst) r.flights hkm
      obtain ⟨i, hi⟩ : ∃ i, i = firstKeyIdx (m, src, dst) r.flights := ⟨_, rfl⟩
      rw [← hi] at g1 g3 g4
      simp only [Flight.key, Prod.mk.injEq] at g2
      obtain ⟨hflm, hfls, hfld⟩ := g2
      have hrel1 := r4_pop_msg hr hf hne hdst hd (r.afterDeliver i fl) i rfl rfl rfl rfl rfl (List.Perm.of_eq g4)
      have hrelA := (hrel1.sameView (sameView_log s1 (.recv s1.clock mid sn src e.dst dst m))).sameView
        (sameView_updProc _ e.dst dst (fun e => { e with log := e.log ++ [⟨s1.clock, .recv m src dst⟩], recv := e.recv + 1 })
          (fun _ => rfl))
      -- the process exists on both sides
      have hex : ∃ pe, s1.proc? e.dst dst = some pe := by
        unfold onMessage at hdel
        cases hn : amGet? e.dst s1.nodes with
        | none => simp [nodeOf, hn] at hdel
        | some nd =>
          simp only [nodeOf, hn] at hdel
          split at hdel
          · cases hdel
          · rename_i hhas
            rw [amHas_eq] at hhas
            cases hp : amGet? dst nd.procs with
            | none => simp [hp] at hhas
            | some pe => exact ⟨pe, by rw [proc?_eq hn]; exact hp⟩
      obtain ⟨pe, hpe⟩ := hex
      have hpeq : q.proc? e.dst dst = some pe := by rw [← proc?_of_nodes f9]; exact hpe
      have hctx : (r.afterDeliver i fl).Ctx e.dst dst := by
        refine ⟨?_, ?_, hncr⟩
        · show amGet? dst r.net.procLoc = some e.dst
          rw [hr.net.netLoc, hdn]; exact hld
        · show (amGet? dst r.procs).isSome = true
          rw [(hr.proc.procs e.dst dst pe hpeq).1]; rfl
      obtain ⟨r', gs', hreact, hfin⟩ := handler_tail h hrelA hctx (by simpa [log, f10] using hdraws)
        (by simpa [log, f10] using hlen) haok (.msg m src) hrun
      refine ⟨.deliver i, r', gs', ?_, ?_, hfin⟩
      · -- the delivered copy is the oldest among identical flights
        show r.oldestIdentical _ = true
        unfold RState.oldestIdentical
        rw [g1]
        simp only
        rw [List.all_eq_true]
        intro g hg
        have hgne := g3 g hg
        rw [hflm, hfls, hfld]
        cases hb : (decide (g.m = m) && g.src == src && g.dst == dst) with
        | false => rfl
        | true =>
          simp only [Bool.and_eq_true, decide_eq_true_eq, beq_iff_eq] at hb
          obtain ⟨⟨h1, h2⟩, h3⟩ := hb
          exact absurd (by simp [Flight.key, h1, h2, h3]) hgne
      · show r.step h (.deliver _) = some r'
        simp only [RState.step, g1]
        show RState.react h (r.afterDeliver i fl) fl.dst (.msg fl.m fl.src) = some r'
        rw [hfld, hflm, hfls]
        exact hreact
    | timer p name =>
      rw [hd] at hdel
      simp only at hdel
      obtain ⟨nd, e0, hnd, he0, hrun⟩ := onTimer_inv _ _ _ _ _ _ hdel
      have he0' : s1.proc? e.dst p = some e0 := by rw [proc?_eq hnd]; exact he0
      obtain ⟨l1, g, l2, hgs, hgid, hgp, hgn, hget, hunb⟩ := popped_timer_unblocked hr hbits hadd hf hne hdst hd
      obtain ⟨hpend, hrel3⟩ := r4_pop_timer hr hf hne hdst hd he0' hgs hgid
        (.timerFired s1.clock e.id name e.dst p) s1.clock
        (r.afterFire l1.length ⟨p, name, g.delay⟩) rfl rfl rfl rfl rfl
      rw [hpend] at hrun
      simp only at hrun
      have hctx : (r.afterFire l1.length ⟨p, name, g.delay⟩).Ctx e.dst p := by
        have hpeq : q.proc? e.dst p = some e0 := by rw [← proc?_of_nodes f9]; exact he0'
        refine ⟨?_, ?_, hncr⟩
        · show amGet? p r.net.procLoc = some e.dst
          rw [hr.net.netLoc]; exact (hr.proc.procs e.dst p e0 hpeq).2
        · show (amGet? p r.procs).isSome = true
          rw [(hr.proc.procs e.dst p e0 hpeq).1]; rfl
      obtain ⟨r', gs', hreact, hfin⟩ := handler_tail h hrel3 hctx (by simpa [log, f10] using hdraws)
        (by simpa [log, f10] using hlen) haok (.timer name) hrun
      refine ⟨.fire l1.length, r', gs', ?_, ?_, hfin⟩
      · show (r.timerUnblocked l1.length && (Mode.normal == Mode.normal || r.flights.isEmpty)) = true
        rw [hunb]; rfl
      · show r.step h (.fire _) = some r'
        simp only [RState.step, hget]
        exact hreact
  · have hc : s1.handlers.contains e.dst = false := by rw [f7]; simpa using hdst
    simp only [hc, Bool.not_false, if_true] at hdel
    cases hdel
    exact Or.inl ⟨gs, pop_undeliverable hr hf hne hdst⟩

/-- `sim_step_refines_partial` in the shape of a reference run: the empty run when the popped event was addressed to
    a node without handler, a run of one reduced-enabled label otherwise.  (A send that the simulator drops at random
    needs no reference step of its own: the flight the reference `send` creates stays in flight as a zombie.) -/
theorem sim_step_refines_run [LawfulTime T] (bits : T → Nat) (h : Handler σ) (q q' : Sim σ T) (r : RState σ)
    (gs : List (TimerGhost T)) (hr : TimedRel bits q r gs)
    (hbits : ∀ x y : T, TimeOps.le x y = true → bits x ≤ bits y)
    (hadd : ∀ a b c : T, TimeOps.le a b = true → TimeOps.le (TimeOps.add a c) (TimeOps.add b c) = true)
    (hdelays : ∀ p st i a, a ∈ (h p st i).2 → ∀ name d once, a = .set name d once →
      TimeOps.le TimeOps.zero (TimeOps.ofBits d : T) = true ∧ bits (TimeOps.ofBits d : T) = d)
    (hknown : ∀ p st i a, a ∈ (h p st i).2 → ∀ m dst, a = .send m dst → (amGet? dst q.net.procLoc).isSome = true)
    (hdraws : ∀ d ∈ q.draws, LawfulTime.isDraw d) (hlen : ∀ p st i, 4 * (h p st i).2.length ≤ q.draws.length)
    (hstep : q.step (liftHandler h) = .ok (true, q')) :
    ∃ ls r' gs', ls.length ≤ 1 ∧ refRun h .normal r ls = some r' ∧ TimedRel bits q' r' gs' := by
  rcases sim_step_refines_partial bits h q q' r gs hr hbits hadd hdelays hknown hdraws hlen hstep with
    ⟨gs', hrel'⟩ | ⟨l, r', gs', hen, hst, hrel'⟩
  · exact ⟨[], r, gs', Nat.zero_le _, rfl, hrel'⟩
  · refine ⟨[l], r', gs', Nat.le_refl _, ?_, hrel'⟩
    simp only [refRun, hen, ↓reduceIte, hst]

/-! ## the relation holds for a freshly built simulator state with an empty queue -/

/-- the network part of the relation for the checker's network settings `snapshotNet` (used for quiet states here and
    for arbitrary related states in `R5Rel`) -/
theorem netRel_snapshotNet [LawfulTime T] (bits : T → Nat) (q : Sim σ T) (r : RState σ)
    (hrates : q.net.duplRate = TimeOps.zero ∧ q.net.corruptRate = TimeOps.zero)
    (hlocNodes : ∀ p n, amGet? p q.net.procLoc = some n → amHas n q.nodes = true)
    (hhand : ∀ n, n ∈ q.handlers ↔ (∃ nd, amGet? n q.nodes = some nd ∧ nd.crashed = false))
    (hsorted : KSorted q.nodes)
    (hnet : r.net = snapshotNet bits q)
    (hcr : ∀ n, n ∈ r.crashedNodes ↔ (amHas n q.nodes = true ∧ ¬ n ∈ q.handlers)) :
    NetRel bits q r := by
  have hnodes : (q.nodes.map (·.1)).Nodup := hsorted.nodup
  have hzz : TimeOps.lt (TimeOps.zero : T) TimeOps.zero = false := by
    cases hlt : TimeOps.lt (TimeOps.zero : T) TimeOps.zero with
    | false => rfl
    | true =>
      have := (LawfulTime.lt_iff (TimeOps.zero : T) TimeOps.zero).1 hlt
      rw [LawfulTime.le_refl] at this; cases this
  obtain ⟨s1, s2, s3, s4, s5, s6⟩ := disconnectFold_spec ((q.nodes.filter (·.2.crashed)).map (·.1))
    { dropPos := TimeOps.lt TimeOps.zero q.net.dropRate,
      duplNonzero := TimeOps.lt TimeOps.zero q.net.duplRate || TimeOps.lt q.net.duplRate TimeOps.zero,
      corruptPos := TimeOps.lt TimeOps.zero q.net.corruptRate,
      dropIncoming := q.net.dropIncoming, dropOutgoing := q.net.dropOutgoing,
      disabledLinks := q.net.disabledLinks, procLoc := q.net.procLoc, maxDelay := bits q.net.maxDelay }
  obtain ⟨s7, s8⟩ := disconnectFold_more ((q.nodes.filter (·.2.crashed)).map (·.1))
    { dropPos := TimeOps.lt TimeOps.zero q.net.dropRate,
      duplNonzero := TimeOps.lt TimeOps.zero q.net.duplRate || TimeOps.lt q.net.duplRate TimeOps.zero,
      corruptPos := TimeOps.lt TimeOps.zero q.net.corruptRate,
      dropIncoming := q.net.dropIncoming, dropOutgoing := q.net.dropOutgoing,
      disabledLinks := q.net.disabledLinks, procLoc := q.net.procLoc, maxDelay := bits q.net.maxDelay }
  -- membership in the crashed list
  have hcrashed : ∀ n nd, amGet? n q.nodes = some nd →
      (n ∈ (q.nodes.filter (·.2.crashed)).map (·.1) ↔ nd.crashed = true) := by
    intro n nd hn
    simp only [List.mem_map, List.mem_filter]
    constructor
    · rintro ⟨x, ⟨hx, hxc⟩, rfl⟩
      have := amGet?_of_mem_nodup hnodes (k := x.1) (v := x.2) hx
      rw [hn] at this
      rw [Option.some.inj this]; exact hxc
    · intro hcr; exact ⟨(n, nd), ⟨amGet?_eq_some_mem hn, hcr⟩, rfl⟩
  have hhand' : ∀ n nd, amGet? n q.nodes = some nd → (n ∈ q.handlers ↔ nd.crashed = false) := by
    intro n nd hn
    rw [hhand]
    constructor
    · rintro ⟨nd', h1, h2⟩; rw [hn] at h1; rw [Option.some.inj h1]; exact h2
    · intro h2; exact ⟨nd, hn, h2⟩
  refine ⟨hrates, ?_, by rw [hnet]; exact s1, ?_, by rw [hnet]; exact s8, hcr, hlocNodes, hhand, hsorted⟩
  · -- netFlags
    rw [hnet]
    refine ⟨?_, ?_, ?_⟩
    · show (snapshotNet bits q).dropPos = TimeOps.lt TimeOps.zero q.net.dropRate
      unfold snapshotNet; simp only; rw [s3]
    · show (snapshotNet bits q).duplNonzero = false
      unfold snapshotNet; simp only; rw [s7, hrates.1, hzz]; rfl
    · show (snapshotNet bits q).corruptPos = false
      unfold snapshotNet; simp only; rw [s4, hrates.2]; exact hzz
  · -- netCut
    intro a b ha hb
    rw [hnet]
    rw [amHas_eq] at hb
    cases hgb : amGet? b q.nodes with
    | none => rw [hgb] at hb; cases hb
    | some ndb =>
      obtain ⟨nda, hga, hac⟩ := (hhand a).1 ha
      have ha' : a ∉ (q.nodes.filter (·.2.crashed)).map (·.1) := by
        rw [hcrashed a nda hga, hac]; simp
      have hbm := hcrashed b ndb hgb
      have hbh := hhand' b ndb hgb
      show (snapshotNet bits q).pathEnabled a b = _
      unfold snapshotNet McNet.pathEnabled pathCut
      simp only
      rw [s2, Bool.eq_iff_iff]
      simp only [Bool.and_eq_true, Bool.not_eq_true', List.contains_eq_mem, decide_eq_false_iff_not, s5, s6,
        Bool.or_eq_false_iff, decide_eq_true_eq, hbm, hbh, not_or]
      constructor
      · rintro ⟨⟨⟨h1, _⟩, h2, h3⟩, h4⟩
        refine ⟨⟨⟨h1, h2⟩, h4⟩, ?_⟩
        cases hcb : ndb.crashed with
        | false => rfl
        | true => exact absurd hcb h3
      · rintro ⟨⟨⟨h1, h2⟩, h4⟩, h5⟩
        exact ⟨⟨⟨h1, ha'⟩, h2, by rw [h5]; simp⟩, h4⟩

/-- the process part of the relation for the process table read off the node table -/
theorem tprocRel_flat (q : Sim σ T) (r : RState σ)
    (hloc : ∀ n nd p e, amGet? n q.nodes = some nd → amGet? p nd.procs = some e → amGet? p q.net.procLoc = some n)
    (hnodes : (q.nodes.map (·.1)).Nodup)
    (hp : r.procs = q.nodes.flatMap
      (fun nd => nd.2.procs.map fun pe => (pe.1, ({ st := pe.2.st, outbox := pe.2.outbox } : RProc σ)))) :
    TProcRel q r := by
  refine ⟨?_, ?_⟩
  · -- procs
    intro n p e he
    obtain ⟨nd, hn, hp'⟩ := proc?_some he
    refine ⟨?_, hloc n nd p e hn hp'⟩
    rw [hp]
    refine flat_lookup q.nodes n p nd e hn hp' ?_
    intro x hx hsome
    cases hq' : amGet? p x.2.procs with
    | none => rw [hq'] at hsome; cases hsome
    | some e' =>
      have hgx := amGet?_of_mem_nodup hnodes (k := x.1) (v := x.2) hx
      have h1 := hloc x.1 x.2 p e' hgx hq'
      have h2 := hloc n nd p e hn hp'
      rw [h1] at h2
      exact Option.some.inj h2
  · -- procsBack
    intro p rp hrp
    rw [hp] at hrp
    have hm := amGet?_eq_some_mem hrp
    simp only [List.mem_flatMap, List.mem_map] at hm
    obtain ⟨x, hx, pe, hpe, hpeq⟩ := hm
    have hk : (amGet? p x.2.procs).isSome = true := by
      rw [amGet?_isSome_iff]
      have : pe.1 = p := by simpa using congrArg Prod.fst hpeq
      rw [← this]
      exact List.mem_map_of_mem hpe
    cases hq' : amGet? p x.2.procs with
    | none => rw [hq'] at hk; cases hk
    | some e' =>
      have hgx := amGet?_of_mem_nodup hnodes (k := x.1) (v := x.2) hx
      exact ⟨x.1, e', by rw [proc?_eq hgx]; exact hq'⟩

/-- the snapshot of a related simulator state is the reference state: what `ModelChecker::new` hands to the
    checker is related (`Sim'`, R2) to a reference state with the same flights (as a multiset) and timers -/
theorem timedRel_of_quiet [LawfulTime T] (bits : T → Nat) (q : Sim σ T) (hq : q.events = []) (hc : q.canceled = [])
    (hrates : q.net.duplRate = TimeOps.zero ∧ q.net.corruptRate = TimeOps.zero)
    (hdel : TimeOps.le TimeOps.zero q.net.minDelay = true ∧ TimeOps.le q.net.minDelay q.net.maxDelay = true)
    (hpend : ∀ n nd p e, amGet? n q.nodes = some nd → amGet? p nd.procs = some e → e.pending = [])
    (hloc : ∀ n nd p e, amGet? n q.nodes = some nd → amGet? p nd.procs = some e → amGet? p q.net.procLoc = some n)
    (hlocNodes : ∀ p n, amGet? p q.net.procLoc = some n → amHas n q.nodes = true)
    (hhand : ∀ n, n ∈ q.handlers ↔ (∃ nd, amGet? n q.nodes = some nd ∧ nd.crashed = false))
    (hnodes : KSorted q.nodes) :
    TimedRel bits q
      { procs := q.nodes.flatMap (fun nd => nd.2.procs.map fun pe => (pe.1, ({ st := pe.2.st, outbox := pe.2.outbox } : RProc σ))),
        crashedNodes := (q.nodes.filter (fun nd => !q.handlers.contains nd.1)).map (·.1),
        net := (snapshotNet bits q) } [] := by
  have hlive : q.live = [] := by unfold live; rw [hq]; rfl
  have hdeliv : q.deliverable = [] := by unfold deliverable; rw [hlive]; rfl
  refine ⟨netRel_snapshotNet bits q _ hrates hlocNodes hhand hnodes rfl ?_, tprocRel_flat q _ hloc hnodes.nodup rfl,
    ⟨?_, ?_, ?_, hdel, ?_, ?_⟩,
    ⟨rfl, List.nodup_nil, List.Pairwise.nil, ?_, ?_, ?_, List.Pairwise.nil, ?_, ?_, List.Pairwise.nil⟩, ⟨?_, ?_⟩⟩
  · -- crashed
    intro n
    simp only [List.mem_map, List.mem_filter, Bool.not_eq_true', List.contains_eq_mem, decide_eq_false_iff_not]
    rw [amHas_eq, amGet?_isSome_iff]
    constructor
    · rintro ⟨x, ⟨hx, hxh⟩, rfl⟩
      exact ⟨List.mem_map_of_mem hx, hxh⟩
    · rintro ⟨hm, hh⟩
      obtain ⟨x, hx, rfl⟩ := List.mem_map.1 hm
      exact ⟨x, ⟨hx, hh⟩, rfl⟩
  · -- queueWF
    unfold QueueWF; rw [hq]; exact ⟨List.nodup_nil, fun e he => by cases he⟩
  · unfold ClockOk; rw [hq]; intro e he; cases he
  · rw [hc]; intro id hid; cases hid
  · rw [hlive]; intro e he; cases he
  · rw [hlive]; intro e he; cases he
  · rw [hlive]; intro e he; cases he
  · intro g hg; cases hg
  · intro g hg; cases hg
  · intro g hg; cases hg
  · -- pendMap
    intro n p e _ he name id
    obtain ⟨nd, hn, hp⟩ := proc?_some he
    rw [hpend n nd p e hn hp, hlive]
    simp [amGet?]
  · refine ⟨[], ?_, fun _ => rfl⟩
    show List.Perm [] _
    unfold liveKeys
    rw [hdeliv]; exact List.Perm.nil
  · intro f hf; cases hf

/-! ## Non-vacuity: a concrete state with one process, one queued timer and one queued message satisfies the
hypotheses of `sim_step_refines_partial` -/
namespace R4Demo

open Sim

/-- on a local message: set timer 1 with delay 5 and send a message to itself; otherwise only count -/
def demoH : Handler Nat := fun _ st i =>
  match i with
  | .loc _ => (st + 1, [.set 1 5 false, .send ⟨0, []⟩ 1])
  | _ => (st + 1, [])

def demoActs : List Action := [.set 1 5 false, .send ⟨0, []⟩ 1]

/-- node 0 (with handler) hosts process 1; empty queue -/
def q0 : Sim Nat Ticks :=
  { clock := ⟨0⟩, draws := List.replicate 8 ⟨1⟩,
    net := { (SimNet.default : SimNet Ticks) with procLoc := [(1, 0)] },
    nodes := [(0, { skew := ⟨0⟩, procs := [(1, { st := 0 })] })],
    procNodes := [(1, 0)], handlers := [0] }

/-- the state after process 1 has set its timer and sent itself a message: one queued timer, one queued message -/
def q1 : Sim Nat Ticks :=
  match Sim.handleActions 0 1 ⟨0⟩ demoActs q0 with
  | .ok s => s
  | .error _ => q0

theorem q1_eq : Sim.handleActions 0 1 ⟨0⟩ demoActs q0 = .ok q1 := rfl

example : q1.events.map (fun e => (e.id, e.time.n, e.data)) = [(0, 5, .timer 1 1), (1, 0, .msg 0 ⟨0, []⟩ 1 0 1 0)] := by decide

def q2 : Sim Nat Ticks :=
  match q1.step (liftHandler demoH) with
  | .ok (_, s) => s
  | .error _ => q1

theorem q2_eq : q1.step (liftHandler demoH) = .ok (true, q2) := rfl

def bitsT : Ticks → Nat := fun x => x.n

/-- the reference state of the quiet state `q0` -/
def r0 : RState Nat :=
  { procs := q0.nodes.flatMap (fun nd => nd.2.procs.map fun pe => (pe.1, ({ st := pe.2.st, outbox := pe.2.outbox } : RProc Nat))),
    crashedNodes := (q0.nodes.filter (fun nd => !q0.handlers.contains nd.1)).map (·.1),
    net := snapshotNet bitsT q0 }

theorem q0_nodes (n : Nat) (nd : SNode Nat Ticks) (h : amGet? n q0.nodes = some nd) :
    n = 0 ∧ nd = { skew := ⟨0⟩, procs := [(1, { st := 0 })] } := by
  simp only [q0, amGet?] at h
  split at h
  · exact ⟨by assumption, (Option.some.inj h).symm⟩
  · cases h

theorem q0_procs (p : Nat) (e : SProc Nat Ticks)
    (h : amGet? p ([(1, { st := 0 })] : List (Nat × SProc Nat Ticks)) = some e) : p = 1 ∧ e = { st := 0 } := by
  simp only [amGet?] at h
  split at h
  · exact ⟨by assumption, (Option.some.inj h).symm⟩
  · cases h

theorem rel0 : TimedRel bitsT q0 r0 [] := by
  refine timedRel_of_quiet bitsT q0 rfl rfl ⟨rfl, rfl⟩ ⟨rfl, rfl⟩ ?_ ?_ ?_ ?_ (List.pairwise_singleton _ _)
  · intro n nd p e hn hp
    obtain ⟨rfl, rfl⟩ := q0_nodes n nd hn
    obtain ⟨rfl, rfl⟩ := q0_procs p e hp
    rfl
  · intro n nd p e hn hp
    obtain ⟨rfl, rfl⟩ := q0_nodes n nd hn
    obtain ⟨rfl, rfl⟩ := q0_procs p e hp
    rfl
  · intro p n h
    simp only [q0, SimNet.default, amGet?] at h
    split at h
    · cases h; rfl
    · cases h
  · intro n
    constructor
    · intro h
      have : n = 0 := by simpa [q0] using h
      subst this
      exact ⟨_, rfl, rfl⟩
    · rintro ⟨nd, hn, _⟩
      obtain ⟨rfl, _⟩ := q0_nodes n nd hn
      simp [q0]

theorem ctx0 : r0.Ctx 0 1 := ⟨rfl, rfl, by decide⟩

theorem ticks_delay (d : Nat) :
    TimeOps.le TimeOps.zero (TimeOps.ofBits d : Ticks) = true ∧ bitsT (TimeOps.ofBits d : Ticks) = d := by
  simp [TimeOps.le, TimeOps.zero, TimeOps.ofBits, bitsT]

/-- **Non-vacuity.**  `q1` — one process, one queued timer (id 0, due at 5) and one queued message (id 1, due at 0) —
    is related to a reference state, and all hypotheses of `sim_step_refines_partial` hold for the program `demoH`
    and the step `q1 → q2` (the delivery of the message). -/
theorem demo_hyps : ∃ r gs,
    TimedRel bitsT q1 r gs ∧
    (∀ x y : Ticks, TimeOps.le x y = true → bitsT x ≤ bitsT y) ∧
    (∀ a b c : Ticks, TimeOps.le a b = true → TimeOps.le (TimeOps.add a c) (TimeOps.add b c) = true) ∧
    (∀ p st i a, a ∈ (demoH p st i).2 → ∀ name d once, a = .set name d once →
      TimeOps.le TimeOps.zero (TimeOps.ofBits d : Ticks) = true ∧ bitsT (TimeOps.ofBits d : Ticks) = d) ∧
    (∀ p st i a, a ∈ (demoH p st i).2 → ∀ m dst, a = .send m dst → (amGet? dst q1.net.procLoc).isSome = true) ∧
    (∀ d ∈ q1.draws, LawfulTime.isDraw d) ∧ (∀ p st i, 4 * (demoH p st i).2.length ≤ q1.draws.length) ∧
    q1.step (liftHandler demoH) = .ok (true, q2) ∧ q1.events.length = 2 := by
  obtain ⟨gs, hrel⟩ := acts_sim (bits := bitsT) (n := 0) (p := 1) (time := (⟨0⟩ : Ticks)) demoActs q0 r0 [] [] rel0 ctx0
    (by intro d hd; simp only [q0, List.mem_replicate] at hd; rw [hd.2]; show (1 : Nat) < 1000; omega)
    (by decide)
    (by
      intro a ha
      simp only [demoActs, List.mem_cons, List.not_mem_nil, or_false] at ha
      rcases ha with rfl | rfl
      · exact ticks_delay 5
      · show (amGet? 1 r0.net.procLoc).isSome = true
        rfl)
    q1_eq
  refine ⟨_, gs, hrel, ?_, ?_, ?_, ?_, ?_, ?_, q2_eq, rfl⟩
  · intro x y h; simpa [TimeOps.le, bitsT] using h
  · intro a b c h
    simp only [TimeOps.le, TimeOps.add, decide_eq_true_eq] at h ⊢
    omega
  · intro p st i a _ name d once _; exact ticks_delay d
  · intro p st i a ha m dst hm
    subst hm
    cases i with
    | loc m' =>
      simp only [demoH, List.mem_cons, List.not_mem_nil, or_false] at ha
      rcases ha with ha | ha
      · cases ha
      · cases ha; rfl
    | msg m' src => simp [demoH] at ha
    | timer name => simp [demoH] at ha
  · intro d hd
    have : q1.draws = List.replicate 8 ⟨1⟩ := rfl
    rw [this, List.mem_replicate] at hd
    rw [hd.2]; show (1 : Nat) < 1000; omega
  · intro p st i
    have : q1.draws.length = 8 := rfl
    rw [this]
    cases i <;> simp [demoH]

/-- the main theorem applied to the demo step: the delivery of the message is a reduced-enabled reference step -/
theorem demo_step : ∃ r, (∃ gs', TimedRel bitsT q2 r gs') ∨
    (∃ l r' gs', r.enabledRed .normal l = true ∧ r.step demoH l = some r' ∧ TimedRel bitsT q2 r' gs') := by
  obtain ⟨r, gs, h1, h2, h3, h4, h5, h6, h7, h8, _⟩ := demo_hyps
  exact ⟨r, sim_step_refines_partial bitsT demoH q1 q2 r gs h1 h2 h3 h4 h5 h6 h7 h8⟩

/-- the draft clause `netCut` (for all `a b`, without the restriction to nodes) is false for the snapshot of the
    quiet state `q0`: node 7 does not exist, the snapshot does not cut the path from it, but it has no handler -/
theorem netCut_draft_false :
    (snapshotNet bitsT q0).pathEnabled 7 0 ≠ (!(q0.pathCut 7 0) && q0.handlers.contains 7 && q0.handlers.contains 0) := by
  decide

end R4Demo

end Anysystem
