import Anysystem.Proofs.R7
import Anysystem.Proofs.R5Main
/-!
# R7 — C04 end to end for ARBITRARY drop / duplication / corruption rates (no crash/recover after the snapshot,
override-free program, exact time, FRESH sends)

Same statement as `sim_run_covered_partial` (R5Main), with the relation `TimedRelF` instead of `TimedRel`, the freshness
hypothesis `FreshSendsFrom` added, and seven draws per action instead of four.

Chain: `timedRelF_snapshot` and `snapshot_sim'`; then per simulator step `sim_step_refines_fates_aux` (the step is a
reference run of one `deliver` / `fire` label and at most `3 * M` fault labels), and for EVERY label of that run — the
fault labels included — R2 completeness (`alternatives_complete'`: the checker offers the step, `r7_run_matched`); finally
R3 + C11 as before.  The hypothesis `hcont` ("the exploration stops only at states without pending events") covers the
intermediate states as it stands: `alternatives_complete'` exhibits an available event in each of them.
-/
namespace Anysystem

variable {σ T : Type} [TimeOps T]

/-- every label of a reduced-enabled reference run, fault labels included, is matched by an expansion step of the
    checker -/
theorem r7_run_matched [DecidableEq σ] (h : Handler σ) (p : Preds σ) (hash : McSys.Key σ → Nat) (s₁ : McSys σ)
    (hcont : ∀ x, ReachC (mcTSys {} h p hash) s₁ x → (∃ ids id, x.available = .ok ids ∧ id ∈ ids) → p.verdict x = .cont)
    (hsucc : ∀ x, ReachC (mcTSys {} h p hash) s₁ x → p.verdict x = .cont → ∃ cs, x.successors {} h = .ok cs)
    (ls : List Label) : ∀ (s : McSys σ) (r r' : RState σ),
      Sim' s r → s.mode = .normal → SendsKnown h s → ReachC (mcTSys {} h p hash) s₁ s →
      OverrideFreeFrom h .normal r → FreshSendsFrom h .normal r → refRun h .normal r ls = some r' →
      ∃ s', Sim' s' r' ∧ s'.mode = .normal ∧ SendsKnown h s' ∧ ReachC (mcTSys {} h p hash) s₁ s' ∧
        OverrideFreeFrom h .normal r' ∧ FreshSendsFrom h .normal r' ∧ s'.net = s.net := by
  induction ls with
  | nil =>
    intro s r r' hsim hmode hk hreach hof hfr hrun
    simp only [refRun, Option.some.injEq] at hrun
    subst hrun
    exact ⟨s, hsim, hmode, hk, hreach, hof, hfr, rfl⟩
  | cons l ls ih =>
    intro s r r' hsim hmode hk hreach hof hfr hrun
    simp only [refRun] at hrun
    split at hrun
    · rename_i hen
      cases hst : r.step h l with
      | none => rw [hst] at hrun; cases hrun
      | some r1 =>
        rw [hst] at hrun
        simp only at hrun
        have hovf : r.overrideFree h l = true := hof [] r rfl l hen
        obtain ⟨ids, id, alts, alt, s', hav, hid, halts, halt, happ, hsim'⟩ :=
          alternatives_complete' h hsim hk (by rw [hmode]; exact hen) hst hovf
        have hv : p.verdict s = .cont := hcont s hreach ⟨ids, id, hav, hid⟩
        obtain ⟨cs, hcs⟩ := hsucc s hreach hv
        have hmem : s' ∈ cs := (mem_successors_iff h hcs s').mpr ⟨ids, id, alts, alt, hav, hid, halts, halt, happ⟩
        have hnet : s'.net = s.net := applyAlt_net h happ
        obtain ⟨s'', c1, c2, c3, c4, c5, c6, c7⟩ := ih s' r1 r' hsim' ((applyAlt_mode h happ).trans hmode)
          (by
            intro pr st i a ha m dst hm
            rw [hnet]
            exact hk pr st i a ha m dst hm)
          (ReachC.step (S := mcTSys {} h p hash) hreach hv hcs hmem)
          (by
            intro ls2 r'' hrun2 l' hen'
            refine hof (l :: ls2) r'' ?_ l' hen'
            simp only [refRun, hen, ↓reduceIte, hst]
            exact hrun2)
          (by
            intro ls2 r'' hrun2 l' hen'
            refine hfr (l :: ls2) r'' ?_ l' hen'
            simp only [refRun, hen, ↓reduceIte, hst]
            exact hrun2)
          hrun
        exact ⟨s'', c1, c2, c3, c4, c5, c6, c7.trans hnet⟩
    · cases hrun

/-- the chain step: one simulator step is matched by at most `1 + 3 * M` expansion steps of the checker -/
theorem sim_step_matched_fates [LawfulTime T] [DecidableEq σ] (bits : T → Nat) (laws : SnapTimeLaws bits)
    (h : Handler σ) (p : Preds σ) (hash : McSys.Key σ → Nat)
    (q q' : Sim σ T) (s s₁ : McSys σ) (r : RState σ) (gs : List (TimerGhost T))
    (hrel : TimedRelF bits q r gs) (hsim : Sim' s r) (hmode : s.mode = .normal) (hk : SendsKnown h s)
    (hreach : ReachC (mcTSys {} h p hash) s₁ s)
    (hof : OverrideFreeFrom h .normal r) (hfr : FreshSendsFrom h .normal r)
    (hcont : ∀ x, ReachC (mcTSys {} h p hash) s₁ x → (∃ ids id, x.available = .ok ids ∧ id ∈ ids) → p.verdict x = .cont)
    (hsucc : ∀ x, ReachC (mcTSys {} h p hash) s₁ x → p.verdict x = .cont → ∃ cs, x.successors {} h = .ok cs)
    (hdelays : ∀ p st i a, a ∈ (h p st i).2 → ∀ name d once, a = .set name d once →
      TimeOps.le TimeOps.zero (TimeOps.ofBits d : T) = true ∧ bits (TimeOps.ofBits d : T) = d)
    (hknown : ∀ p st i a, a ∈ (h p st i).2 → ∀ m dst, a = .send m dst → (amGet? dst q.net.procLoc).isSome = true)
    (hdraws : ∀ d ∈ q.draws, LawfulTime.isDraw d) (hlen : ∀ p st i, 7 * (h p st i).2.length ≤ q.draws.length)
    (M : Nat) (hM : ∀ p st i, (h p st i).2.length ≤ M)
    (hstep : q.step (liftHandler h) = .ok (true, q')) :
    ∃ s' r' gs', TimedRelF bits q' r' gs' ∧ Sim' s' r' ∧ s'.mode = .normal ∧ SendsKnown h s' ∧
      ReachC (mcTSys {} h p hash) s₁ s' ∧ OverrideFreeFrom h .normal r' ∧ FreshSendsFrom h .normal r' ∧
      s'.net = s.net ∧ ∃ j, j ≤ 7 * M ∧ q'.draws = q.draws.drop j := by
  obtain ⟨hdr, hcase⟩ := sim_step_refines_fates_aux bits h q q' r gs hrel laws.bits_mono laws.add_mono_left hdelays
    hknown hdraws hlen M hM (hfr [] r rfl) hstep
  rcases hcase with ⟨gs', hrel'⟩ | ⟨l, rA, ls, r', gs', _, hen, hst, _, _, hrun, hrel'⟩
  · exact ⟨s, r, gs', hrel', hsim, hmode, hk, hreach, hof, hfr, rfl, hdr⟩
  · have hrun' : refRun h .normal r (l :: ls) = some r' := by
      rw [r7_refRun_cons h .normal r rA l ls hen hst]; exact hrun
    obtain ⟨s', c1, c2, c3, c4, c5, c6, c7⟩ := r7_run_matched h p hash s₁ hcont hsucc (l :: ls) s r r' hsim hmode hk
      hreach hof hfr hrun'
    exact ⟨s', r', gs', hrel', c1, c2, c3, c4, c5, c6, c7, hdr⟩

/-- the invariant of the chain along `k` simulator steps; `M` bounds the number of actions of one handler call -/
theorem sim_run_chain_fates [LawfulTime T] [DecidableEq σ] (bits : T → Nat) (laws : SnapTimeLaws bits) (h : Handler σ)
    (p : Preds σ) (hash : McSys.Key σ → Nat) (s₁ : McSys σ)
    (hcont : ∀ x, ReachC (mcTSys {} h p hash) s₁ x → (∃ ids id, x.available = .ok ids ∧ id ∈ ids) → p.verdict x = .cont)
    (hsucc : ∀ x, ReachC (mcTSys {} h p hash) s₁ x → p.verdict x = .cont → ∃ cs, x.successors {} h = .ok cs)
    (hdelays : ∀ p st i a, a ∈ (h p st i).2 → ∀ name d once, a = .set name d once →
      TimeOps.le TimeOps.zero (TimeOps.ofBits d : T) = true ∧ bits (TimeOps.ofBits d : T) = d)
    (M : Nat) (hM : ∀ p st i, (h p st i).2.length ≤ M) (q' : Sim σ T) (k : Nat) :
    ∀ (q : Sim σ T) (s : McSys σ) (r : RState σ) (gs : List (TimerGhost T)),
      TimedRelF bits q r gs → Sim' s r → s.mode = .normal → SendsKnown h s →
      ReachC (mcTSys {} h p hash) s₁ s → OverrideFreeFrom h .normal r → FreshSendsFrom h .normal r →
      (∀ p st i a, a ∈ (h p st i).2 → ∀ m dst, a = .send m dst → (amGet? dst q.net.procLoc).isSome = true) →
      (∀ d ∈ q.draws, LawfulTime.isDraw d) → 7 * (k * M) ≤ q.draws.length →
      q.steps (liftHandler h) k = .ok (true, q') →
      ∃ s' r' gs', TimedRelF bits q' r' gs' ∧ Sim' s' r' ∧ ReachC (mcTSys {} h p hash) s₁ s' := by
  induction k with
  | zero =>
    intro q s r gs hrel hsim _ _ hreach _ _ _ _ _ hrun
    simp only [Sim.steps, Except.ok.injEq, Prod.mk.injEq, true_and] at hrun
    subst hrun
    exact ⟨s, r, gs, hrel, hsim, hreach⟩
  | succ k ih =>
    intro q s r gs hrel hsim hmode hk hreach hof hfr hknown hdraws hlen hrun
    obtain ⟨q₁, hstep, hrest⟩ := steps_succ_inv _ k q q' hrun
    have hkm : (k + 1) * M = k * M + M := Nat.succ_mul k M
    rw [hkm] at hlen
    have hlen1 : ∀ p st i, 7 * (h p st i).2.length ≤ q.draws.length := by
      intro pr st i
      have := hM pr st i
      omega
    obtain ⟨s', r', gs', hrel', hsim', hmode', hk', hreach', hof', hfr', hnet, k0, hk0, hd0⟩ :=
      sim_step_matched_fates bits laws h p hash q q₁ s s₁ r gs hrel hsim hmode hk hreach hof hfr hcont hsucc hdelays
        hknown hdraws hlen1 M hM hstep
    -- `proc_locations` are untouched: both sides mirror the (unchanged) network settings of the checker
    have hloc : q₁.net.procLoc = q.net.procLoc := by
      rw [← hrel'.net.netLoc, hsim'.net_eq, hnet, ← hsim.net_eq, hrel.net.netLoc]
    refine ih q₁ s' r' gs' hrel' hsim' hmode' hk' hreach' hof' hfr' ?_ ?_ ?_ hrest
    · intro pr st i a ha m dst hm
      rw [hloc]
      exact hknown pr st i a ha m dst hm
    · intro d hd
      rw [hd0] at hd
      exact hdraws d (List.mem_of_mem_drop hd)
    · rw [hd0, List.length_drop]
      omega

/-- **(4) C04, end to end, ARBITRARY drop / duplication / corruption rates.**  A simulation is stopped in state `q`
    (related to some reference state: a state of a run that started quiet); `ModelChecker::new` takes the snapshot `s₀`
    and an exploration from it (after `McStarted`, no callback) finishes `Ok`.  If the simulation is instead continued
    for `k` steps to `q'` — dropping, duplicating, corrupting messages at random —, the process-visible state of `q'`
    is the process-visible state of one of the states the exploration evaluated, provided the exploration does not stop
    at a state that still has pending events, the program is override-free and ITS SENDS ARE FRESH (`FreshSendsFrom`),
    and the draw stream has seven lawful draws per action of every handler call of the `k` steps. -/
theorem sim_run_covered_fates [LawfulTime T] [DecidableEq σ] (bits : T → Nat) (laws : SnapTimeLaws bits) (h : Handler σ)
    (p : Preds σ) (hp : KeyBased p) (hash : McSys.Key σ → Nat)
    -- the simulation so far: `q` is related to some reference state and well formed
    (q : Sim σ T) (r : RState σ) (gs : List (TimerGhost T)) (hrel : TimedRelF bits q r gs) (hwf : SnapWF q)
    -- the snapshot and an `Ok` exploration from it
    (s₀ : McSys σ) (hsnap : snapshot bits q = .ok s₀)
    (strat : Strat) (mode : CacheMode) (hm : ExactCache (mcTSys {} h p hash) mode) (fuel : Nat)
    (a : Acc (McSys σ) (McSys.Key σ))
    (hsearch : search (mcTSys {} h p hash) strat fuel (startedOf s₀) (Acc.fresh mode) = some (.ok, a))
    -- the program: no `set_timer` on a pending name (finding D1), fresh sends, sane delays, known destinations
    (hof : OverrideFreeFrom h .normal { (snapshotRef bits q) with trace := (snapshotRef bits q).trace ++ [LogE.started] })
    (hfr : FreshSendsFrom h .normal { (snapshotRef bits q) with trace := (snapshotRef bits q).trace ++ [LogE.started] })
    (hdelays : ∀ p st i a, a ∈ (h p st i).2 → ∀ name d once, a = .set name d once →
      TimeOps.le TimeOps.zero (TimeOps.ofBits d : T) = true ∧ bits (TimeOps.ofBits d : T) = d)
    (hknown : ∀ p st i a, a ∈ (h p st i).2 → ∀ m dst, a = .send m dst → (amGet? dst q.net.procLoc).isSome = true)
    -- the exploration stops (goal / prune) only at states without pending events
    (hcont : ∀ x, ReachC (mcTSys {} h p hash) (startedOf s₀) x → (∃ ids id, x.available = .ok ids ∧ id ∈ ids) →
      p.verdict x = .cont)
    -- the simulation continues for `k` steps, each of which finds an event
    (k : Nat) (q' : Sim σ T) (hrun : q.steps (liftHandler h) k = .ok (true, q'))
    (hdraws : ∀ d ∈ q.draws, LawfulTime.isDraw d)
    (hlen : ∀ p st i, 7 * k * (h p st i).2.length ≤ q.draws.length) :
    ∃ e ∈ a.evald, visibleEqMc q' e := by
  -- the start of the chain
  obtain ⟨gs₀, hrel₀'⟩ := timedRelF_snapshot bits laws q r gs hrel
  have hrel₀ := TimedRelF.withTrace bits q _ gs₀ hrel₀' ((snapshotRef bits q).trace ++ [LogE.started])
  have hsim₀ : Sim' (startedOf s₀) { (snapshotRef bits q) with trace := (snapshotRef bits q).trace ++ [LogE.started] } :=
    (snapshot_sim' bits q s₀ hwf hsnap).appendTrace [LogE.started]
  have hmode₀ : (startedOf s₀).mode = .normal := snapshot_mode bits q s₀ hsnap
  have hk₀ : SendsKnown h (startedOf s₀) := snapshot_sendsKnown bits h q s₀ hsnap hknown
  have hgood : GoodState h (startedOf s₀).net .normal (startedOf s₀) := ⟨rfl, hmode₀, hk₀, _, hsim₀, hof⟩
  have hcong := mcTSys_congruentOn h p hp hash (startedOf s₀).net .normal
  have hclosed := goodState_closed h p hash (startedOf s₀).net .normal
  have hsucc : ∀ x, ReachC (mcTSys {} h p hash) (startedOf s₀) x → p.verdict x = .cont →
      ∃ cs, x.successors {} h = .ok cs :=
    search_ok_reach_succ_ok (mcTSys {} h p hash) _ hcong hclosed strat mode hm fuel (startedOf s₀) hgood a hsearch
  -- the chain
  have hchain : ∃ s' r' gs', TimedRelF bits q' r' gs' ∧ Sim' s' r' ∧ ReachC (mcTSys {} h p hash) (startedOf s₀) s' := by
    cases k with
    | zero =>
      simp only [Sim.steps, Except.ok.injEq, Prod.mk.injEq, true_and] at hrun
      subst hrun
      exact ⟨_, _, gs₀, hrel₀, hsim₀, ReachC.refl⟩
    | succ k =>
      have hM : ∀ pr st i, (h pr st i).2.length ≤ q.draws.length / (7 * (k + 1)) := by
        intro pr st i
        rw [Nat.le_div_iff_mul_le (by omega)]
        have := hlen pr st i
        rw [Nat.mul_comm]
        exact this
      refine sim_run_chain_fates bits laws h p hash (startedOf s₀) hcont hsucc hdelays _ hM q' (k + 1) q (startedOf s₀) _
        gs₀ hrel₀ hsim₀ hmode₀ hk₀ ReachC.refl hof hfr hknown hdraws ?_ hrun
      rw [← Nat.mul_assoc]
      exact Nat.mul_div_le _ _
  -- R3 + C11: a key-representative of the reached checker state was evaluated; its process-visible part is the same
  obtain ⟨s', r', gs', hrel', hsim', hreach'⟩ := hchain
  obtain ⟨⟨e, he, hkey⟩, _⟩ := search_ok_exhaustive_on (mcTSys {} h p hash) _ hcong hclosed strat mode hm fuel
    (startedOf s₀) hgood a hsearch s' hreach'
  have hkey' : e.key = s'.key := hkey
  have hprocs : procsOf e = procsOf s' := procsOf_eq_of_view e s' (key_covers e s' hkey').2
  refine ⟨e, he, ?_⟩
  intro n pr pe hq
  rw [hprocs, ← hsim'.procs_eq]
  exact (hrel'.proc.procs n pr pe hq).1

end Anysystem
