import Anysystem.Proofs.SimStepThms
import Anysystem.Proofs.SimQueueThms
/-!
# Helper lemmas for `SimStepFns.lean`

* handling an event does not move the clock (`deliver_clock`), so a successful `step` leaves the clock at the
  time of the event it popped (`step_true_clock`);
* `peekEvent` removes the cancelled events at the head of the queue exactly as `nextEvent` does, so a `step`
  after a `peekEvent` that found an event is *equal* to the `step` before it (`step_peek`).
-/
namespace Anysystem

set_option linter.unusedSectionVars false

variable {σ T : Type} [TimeOps T]

namespace Sim

/-! ### the clock is moved by `nextEvent` only -/

theorem sendMessage_clock {s s' : Sim σ T} {m : Msg} {src dst tipLen : Nat}
    (h : s.sendMessage m src dst tipLen = .ok s') : s'.clock = s.clock := by
  obtain ⟨sn, dn, hs, hd⟩ := sendMessage_ok_loc h
  by_cases hne : sn = dn
  · subst hne
    rw [sendMessage_same s m src dst sn tipLen hs hd] at h
    cases h; rfl
  · rw [sendMessage_cross s m src dst sn dn tipLen hs hd hne] at h
    cases h
    unfold crossResult
    split <;> rfl

theorem handleActions_clock (n p : Nat) (time : T) (acts : List Action) : ∀ (s s' : Sim σ T),
    handleActions n p time acts s = .ok s' → s'.clock = s.clock := by
  induction acts with
  | nil =>
    intro s s' h
    simp only [handleActions, Except.ok.injEq] at h
    subst h
    rfl
  | cons a rest ih =>
    intro s s' h
    cases a with
    | send m dst =>
      simp only [handleActions] at h
      split at h
      · cases h
      · rename_i s1 hs1
        rw [ih _ _ h, updProc_clock, sendMessage_clock hs1, updProc_clock]
    | loc m =>
      simp only [handleActions] at h
      split at h
      · cases h
      · split at h
        · cases h
        · rw [ih _ _ h]
          simp [setNode, log]
    | set name delay once =>
      simp only [handleActions] at h
      split at h
      · cases h
      · split at h
        · cases h
        · split at h
          · split at h
            · rw [ih _ _ h, updProc_clock]
            · rw [ih _ _ h]
              simp [log, addEvent, cancelEvent]
          · rw [ih _ _ h]
            simp [log, addEvent]
    | cancel name =>
      simp only [handleActions] at h
      split at h
      · cases h
      · split at h
        · cases h
        · split at h
          · rw [ih _ _ h]
            simp [log, cancelEvent]
          · rw [ih _ _ h, updProc_clock]

theorem runHandler_clock' (h : SHandler σ T) (n p : Nat) (time : T) (i : Input) (s s' : Sim σ T)
    (hok : runHandler h n p time i s = .ok s') : s'.clock = s.clock := by
  unfold runHandler at hok
  split at hok
  · cases hok
  · split at hok
    · cases hok
    · rw [handleActions_clock _ _ _ _ _ _ hok, updProc_clock]

theorem deliver_clock (h : SHandler σ T) (e : QEv T) (s s' : Sim σ T) (hok : deliver h e s = .ok s') :
    s'.clock = s.clock := by
  unfold deliver at hok
  split at hok
  · cases hok; rfl
  · split at hok
    · unfold onMessage at hok
      split at hok
      · cases hok
      · split at hok
        · cases hok
        · rw [runHandler_clock' _ _ _ _ _ _ _ hok, updProc_clock]; rfl
    · unfold onTimer at hok
      split at hok
      · cases hok
      · split at hok
        · cases hok
        · rw [runHandler_clock' _ _ _ _ _ _ _ hok]
          split
          · simp [log]
          · simp

/-- a `step` that handles an event: it is the event `next_event` pops, and the clock is left at its time -/
theorem step_true_inv (h : SHandler σ T) (s s' : Sim σ T) (hstep : step h s = .ok (true, s')) :
    ∃ e s1, nextEvent (s.events.length + 1) s = (some e, s1) ∧ deliver h e s1 = .ok s' ∧ s'.clock = e.time := by
  unfold step at hstep
  split at hstep
  · cases hstep
  · rename_i e s1 hne
    split at hstep
    · cases hstep
    · rename_i s2 hd
      cases hstep
      refine ⟨e, s1, hne, hd, ?_⟩
      rw [deliver_clock h e s1 s' hd]
      generalize s.events.length + 1 = fuel at hne
      clear hd
      induction fuel generalizing s with
      | zero => simp [nextEvent] at hne
      | succ fuel ih =>
        rw [nextEvent_succ] at hne
        split at hne
        · cases hne
        · split at hne
          · exact ih _ hne
          · cases hne; rfl

/-! ### `peekEvent` -/

theorem peekEvent_succ (fuel : Nat) (s : Sim σ T) :
    peekEvent (fuel + 1) s = (match minEvent s.events with
      | none => (none, s)
      | some e =>
        if s.canceled.contains e.id then
          peekEvent fuel { s with events := s.events.filter (fun x => x.id != e.id),
                                  canceled := setErase e.id s.canceled }
        else (some e, s)) := rfl

/-- `peek_event` touches only the queue and the cancellation set, and keeps the live events -/
theorem peekEvent_frame (fuel : Nat) (s s' : Sim σ T) (o : Option (QEv T)) (h : peekEvent fuel s = (o, s')) :
    s'.clock = s.clock ∧ s'.trace = s.trace ∧ s'.net = s.net ∧ s'.draws = s.draws ∧ s'.eventCount = s.eventCount ∧
    s'.nodes = s.nodes ∧ s'.handlers = s.handlers ∧ s'.procNodes = s.procNodes ∧ s'.events.Sublist s.events ∧
    liveOf s' = liveOf s := by
  induction fuel generalizing s with
  | zero =>
    simp only [peekEvent, Prod.mk.injEq] at h
    obtain ⟨rfl, rfl⟩ := h
    exact ⟨rfl, rfl, rfl, rfl, rfl, rfl, rfl, rfl, List.Sublist.refl _, rfl⟩
  | succ fuel ih =>
    rw [peekEvent_succ] at h
    split at h
    · simp only [Prod.mk.injEq] at h
      obtain ⟨rfl, rfl⟩ := h
      exact ⟨rfl, rfl, rfl, rfl, rfl, rfl, rfl, rfl, List.Sublist.refl _, rfl⟩
    · rename_i m hm
      split at h
      · rename_i hc
        have hc' : m.id ∈ s.canceled := by simpa using hc
        obtain ⟨h1, h2, h3, h4, h5, h6, h7, h8, h9, h10⟩ := ih _ h
        rw [liveOf_skip s m hc'] at h10
        exact ⟨h1, h2, h3, h4, h5, h6, h7, h8, h9.trans List.filter_sublist, h10⟩
      · simp only [Prod.mk.injEq] at h
        obtain ⟨rfl, rfl⟩ := h
        exact ⟨rfl, rfl, rfl, rfl, rfl, rfl, rfl, rfl, List.Sublist.refl _, rfl⟩

/-- with enough fuel, `peek_event` gives up only on an empty queue -/
theorem peekEvent_none_events (fuel : Nat) (s s' : Sim σ T) (hf : s.events.length < fuel)
    (h : peekEvent fuel s = (none, s')) : s'.events = [] := by
  induction fuel generalizing s with
  | zero => exact absurd hf (Nat.not_lt_zero _)
  | succ fuel ih =>
    rw [peekEvent_succ] at h
    split at h
    · rename_i hn
      cases h
      exact minEvent_eq_none _ hn
    · rename_i m hm
      split at h
      · refine ih _ ?_ h
        have := length_filter_ne_lt s.events m (minEvent_mem _ _ hm)
        simp only
        omega
      · cases h

/-- a peeked event is the head of the cleaned queue and is not cancelled; `next_event` on the state before the
    peek pops that very event from the cleaned queue -/
theorem peekEvent_some (fuel : Nat) (s s' : Sim σ T) (e : QEv T) (h : peekEvent fuel s = (some e, s')) :
    minEvent s'.events = some e ∧ s'.canceled.contains e.id = false ∧
    nextEvent fuel s = (some e, { s' with events := s'.events.filter (fun x => x.id != e.id), clock := e.time }) := by
  induction fuel generalizing s with
  | zero => simp [peekEvent] at h
  | succ fuel ih =>
    rw [peekEvent_succ] at h
    rw [nextEvent_succ]
    split at h
    · cases h
    · rename_i m hm
      rw [hm]
      split at h
      · rename_i hc
        simp only [hc, if_true]
        exact ih _ h
      · rename_i hc
        simp only [Prod.mk.injEq, Option.some.injEq] at h
        obtain ⟨rfl, rfl⟩ := h
        simp only [hc]
        exact ⟨hm, trivial, rfl⟩

/-- `step` after a `peek_event` that found an event is the `step` before it -/
theorem step_peek (h : SHandler σ T) (s s' : Sim σ T) (e : QEv T)
    (hp : peekEvent (s.events.length + 1) s = (some e, s')) : step h s' = step h s := by
  obtain ⟨hm, hc, hn⟩ := peekEvent_some _ s s' e hp
  unfold step
  rw [hn, nextEvent_succ, hm]
  simp only [hc]
  rfl

/-- the `step` that `step_until_time` makes after peeking `e`: it is the `step` of the state before the peek, it
    finds an event, and it leaves the clock at the time of `e` -/
theorem step_after_peek (h : SHandler σ T) (s sp s2 : Sim σ T) (e : QEv T) (b : Bool)
    (hp : peekEvent (s.events.length + 1) s = (some e, sp)) (hstep : step h sp = .ok (b, s2)) :
    b = true ∧ step h s = .ok (true, s2) ∧ s2.clock = e.time := by
  rw [step_peek h s sp e hp] at hstep
  obtain ⟨_, _, hn⟩ := peekEvent_some _ s sp e hp
  have hstep' := hstep
  unfold step at hstep'
  rw [hn] at hstep'
  simp only at hstep'
  split at hstep'
  · cases hstep'
  · rename_i s3 hd
    simp only [Except.ok.injEq, Prod.mk.injEq] at hstep'
    obtain ⟨rfl, rfl⟩ := hstep'
    exact ⟨rfl, hstep, deliver_clock h e _ _ hd⟩

end Sim
end Anysystem
