import Anysystem.Proofs.R5Defs
/-!
# R5, piece 1 — the snapshot is related (`Sim'`, R2) to the reference state it stands for
-/
namespace Anysystem

variable {σ T : Type} [TimeOps T]

/-- well-formedness of a simulator state, as far as the snapshot needs it (first draft; adjust as the proof requires,
    keeping every clause a property of `q` alone that reachable simulator states have) -/
structure SnapWF (q : Sim σ T) : Prop where
  nodesSorted : KSorted q.nodes
  procsSorted : ∀ nd ∈ q.nodes, KSorted nd.2.procs
  procsNodup : ((q.nodes.flatMap fun nd => nd.2.procs.map (·.1))).Nodup
  /-- `proc_locations` says where the processes live -/
  loc : ∀ n nd p e, amGet? n q.nodes = some nd → amGet? p nd.procs = some e → amGet? p q.net.procLoc = some n
  locBack : ∀ p n, amGet? p q.net.procLoc = some n → ∃ nd e, amGet? n q.nodes = some nd ∧ amGet? p nd.procs = some e
  /-- live queued timers: on their process's node, at most one per (process, name), mirrored by `pending` on live nodes -/
  timerLoc : ∀ e ∈ q.live, ∀ p name, e.data = .timer p name → amGet? p q.net.procLoc = some e.dst
  timerUniq : ∀ e₁ ∈ q.live, ∀ e₂ ∈ q.live, ∀ p name, e₁.data = .timer p name → e₂.data = .timer p name → e₁.id = e₂.id
  pendMap : ∀ n nd p e, amGet? n q.nodes = some nd → nd.crashed = false → amGet? p nd.procs = some e → ∀ name,
    (∃ id, amGet? name e.pending = some id) ↔ ∃ ev ∈ q.live, ev.data = .timer p name
  /-- nothing live stems from or belongs to a crashed node, except messages *to* it (which the snapshot skips) -/
  noCrashedTimer : ∀ e ∈ q.live, ∀ p name, e.data = .timer p name → ∀ nd, amGet? e.dst q.nodes = some nd → nd.crashed = false
  noCrashedSrc : ∀ e ∈ q.live, ∀ mid m src sn dst dn, e.data = .msg mid m src sn dst dn →
    amGet? src q.net.procLoc = some sn ∧ amGet? dst q.net.procLoc = some dn ∧
    ∀ nd, amGet? sn q.nodes = some nd → nd.crashed = false
  idsNodup : (q.events.map (·.id)).Nodup

/-- the snapshot of a well-formed simulator state never fails -/
theorem snapshot_ok (bits : T → Nat) (q : Sim σ T) (hwf : SnapWF q) : ∃ s₀, snapshot bits q = .ok s₀ := sorry

/-- **the snapshot is `Sim'`-related to `snapshotRef`** -/
theorem snapshot_sim' (bits : T → Nat) (q : Sim σ T) (s₀ : McSys σ) (hwf : SnapWF q)
    (hsnap : snapshot bits q = .ok s₀) : Sim' s₀ (snapshotRef bits q) := sorry

/-- `run_impl` appends `McStarted` before exploring: the relation survives an extension of the trace on both sides -/
theorem Sim'.appendTrace {s : McSys σ} {r : RState σ} (h : Sim' s r) (es : List LogE) :
    Sim' { s with trace := s.trace ++ es } { r with trace := r.trace ++ es } := sorry

/-- the snapshot's handler addresses: `SendsKnown` for the snapshot follows from the simulator's process table -/
theorem snapshot_sendsKnown (bits : T → Nat) (h : Handler σ) (q : Sim σ T) (s₀ : McSys σ)
    (hsnap : snapshot bits q = .ok s₀)
    (hk : ∀ p st i, ∀ a ∈ (h p st i).2, ∀ m dst, a = Action.send m dst → (amGet? dst q.net.procLoc).isSome = true) :
    SendsKnown h s₀ := sorry

end Anysystem
