import Anysystem.Proofs.R5Defs
import Anysystem.Proofs.R5SnapLemmas
/-!
# R5, piece 1 — the snapshot is related (`Sim'`, R2) to the reference state it stands for
-/
namespace Anysystem

variable {σ T : Type} [TimeOps T]

/-- well-formedness of a simulator state, as far as the snapshot needs it; every clause is a property of `q` alone -/
structure SnapWF (q : Sim σ T) : Prop where
  nodesSorted : KSorted q.nodes
  procsSorted : ∀ nd ∈ q.nodes, KSorted nd.2.procs
  procsNodup : ((q.nodes.flatMap fun nd => nd.2.procs.map (·.1))).Nodup
  /-- `proc_locations` says where the processes live -/
  loc : ∀ n nd p e, amGet? n q.nodes = some nd → amGet? p nd.procs = some e → amGet? p q.net.procLoc = some n
  locBack : ∀ p n, amGet? p q.net.procLoc = some n → ∃ nd e, amGet? n q.nodes = some nd ∧ amGet? p nd.procs = some e
  /-- live queued timers: on their process's node, at most one per (process, name), mirrored by `pending` on live nodes -/
  timerLoc : ∀ e ∈ q.live, ∀ p name, e.data = .timer p name → amGet? p q.net.procLoc = some e.dst
  timerUniq : ∀ e₁ ∈ q.live, ∀ e₂ ∈ q.live, ∀ p name, e₁.data = .timer p name → e₂.data = .timer p name → e₁.id = e₂.id
  pendMap : ∀ n nd p e, amGet? n q.nodes = some nd → nd.crashed = false → amGet? p nd.procs = some e → ∀ name,
    (∃ id, amGet? name e.pending = some id) ↔ ∃ ev ∈ q.live, ev.data = .timer p name
  /-- nothing live stems from or belongs to a crashed node, except messages *to* it (which the snapshot skips) -/
  noCrashedTimer : ∀ e ∈ q.live, ∀ p name, e.data = .timer p name → ∀ nd, amGet? e.dst q.nodes = some nd → nd.crashed = false
  noCrashedSrc : ∀ e ∈ q.live, ∀ mid m src sn dst dn, e.data = .msg mid m src sn dst dn →
    amGet? src q.net.procLoc = some sn ∧ amGet? dst q.net.procLoc = some dn ∧
    ∀ nd, amGet? sn q.nodes = some nd → nd.crashed = false
  idsNodup : (q.events.map (·.id)).Nodup

/-- the snapshot of a well-formed simulator state never fails (in fact: of any simulator state) -/
theorem snapshot_ok (bits : T → Nat) (q : Sim σ T) (hwf : SnapWF q) : ∃ s₀, snapshot bits q = .ok s₀ := by
  have _ := hwf
  obtain ⟨st, a, hf, -⟩ := snapshotEvents_spec bits q (snapshotNet bits q).maxDelay
  simp only [snapshot, hf]
  exact ⟨_, rfl⟩

/-! ### membership in the snapshot's node table -/

omit [TimeOps T] in
theorem mem_snapshotNodes {q : Sim σ T} {x : Nat × McNode σ} (h : x ∈ snapshotNodes q) :
    ∃ nd ∈ q.nodes, x = (nd.1, cvNode nd.2) := by
  rw [snapshotNodes_eq] at h
  obtain ⟨nd, hnd, rfl⟩ := List.mem_map.mp h
  exact ⟨nd, hnd, rfl⟩

omit [TimeOps T] in
theorem mem_cvNode_procs {nd : SNode σ T} {pe : Nat × ProcEntry σ} (h : pe ∈ (cvNode nd).procs) :
    ∃ pe' ∈ nd.procs, pe = (pe'.1, cvProc pe'.2) := by
  obtain ⟨pe', hpe', rfl⟩ := List.mem_map.mp h
  exact ⟨pe', hpe', rfl⟩

omit [TimeOps T] in
/-- a node all of whose table entries are alive is not among the crashed nodes -/
theorem not_mem_crashed {q : Sim σ T} (hnd : (q.nodes.map (·.1)).Nodup) {n : Nat}
    (h : ∀ nd, amGet? n q.nodes = some nd → nd.crashed = false) :
    n ∉ (q.nodes.filter (·.2.crashed)).map (·.1) := by
  intro hm
  obtain ⟨⟨n', nd⟩, hm', rfl⟩ := List.mem_map.mp hm
  obtain ⟨hmem, hc⟩ := List.mem_filter.mp hm'
  have := h nd (amGet?_of_mem_nodup hnd hmem)
  simp only at hc
  rw [this] at hc
  cases hc

theorem snapshotRef_procCrashed (bits : T → Nat) (q : Sim σ T) {p n : Nat}
    (hp : amGet? p q.net.procLoc = some n) (hn : n ∉ (q.nodes.filter (·.2.crashed)).map (·.1)) :
    (snapshotRef bits q).procCrashed p = false := by
  simp only [RState.procCrashed, snapshotRef, snapshotNet_procLoc, hp]
  simpa using hn

/-- **the snapshot is `Sim'`-related to `snapshotRef`** -/
theorem snapshot_sim' (bits : T → Nat) (q : Sim σ T) (s₀ : McSys σ) (hwf : SnapWF q)
    (hsnap : snapshot bits q = .ok s₀) : Sim' s₀ (snapshotRef bits q) := by
  have hu := snapshotPending_tuniq bits q hwf.idsNodup hwf.timerUniq
  obtain ⟨st, a, hf, hrep, hp, -, htm⟩ := snapshotEvents_spec_tm bits q (snapshotNet bits q).maxDelay hu
  have hpend : a.pending = snapshotPending bits q := hp
  have hs₀ : s₀ = { nodes := snapshotNodes q, net := snapshotNet bits q, events := st, depth := 0, mode := .normal,
                    trace := (List.range q.trace.length).map LogE.sim } := by
    simp only [snapshot, hf] at hsnap
    exact (Except.ok.inj hsnap).symm
  have hN : s₀.nodes = snapshotNodes q := by rw [hs₀]
  have hNet : s₀.net = snapshotNet bits q := by rw [hs₀]
  have hE : s₀.events = st := by rw [hs₀]
  have hT : s₀.trace = (List.range q.trace.length).map LogE.sim := by rw [hs₀]
  clear hs₀
  have hnodup : (q.nodes.map (·.1)).Nodup := hwf.nodesSorted.nodup
  have hloc := snapshotNet_procLoc bits q
  have hgetN : ∀ nd ∈ q.nodes, amGet? nd.1 q.nodes = some nd.2 := fun nd h => amGet?_of_mem_nodup hnodup h
  have hgetP : ∀ nd ∈ q.nodes, ∀ pe ∈ nd.2.procs, amGet? pe.1 nd.2.procs = some pe.2 :=
    fun nd h pe hpe => amGet?_of_mem_nodup (hwf.procsSorted nd h).nodup hpe
  refine ⟨a, ⟨⟨⟨?_, ?_, ?_, ?_⟩, ⟨?_, ?_⟩, hE ▸ hrep, ?_, ?_, ?_, hNet.symm, ?_, ?_, ?_, ?_⟩, ?_, hT.symm, ?_⟩⟩
  · -- nodes_nodup
    rw [hN, snapshotNodes_eq, List.map_map]
    exact hnodup
  · -- procs_nodup
    have : (procsOf s₀).map (·.1) = q.nodes.flatMap fun nd => nd.2.procs.map (·.1) := by
      simp only [procsOf, hN, snapshotNodes_eq, List.map_flatMap, List.flatMap_map, cvNode, List.map_map,
        Function.comp_def]
    rw [this]
    exact hwf.procsNodup
  · -- loc_of_proc
    intro x hx pe hpe
    rw [hN] at hx
    obtain ⟨nd, hnd, rfl⟩ := mem_snapshotNodes hx
    obtain ⟨pe', hpe', rfl⟩ := mem_cvNode_procs hpe
    show amGet? pe'.1 s₀.net.procLoc = some nd.1
    rw [hNet, hloc]
    exact hwf.loc nd.1 nd.2 pe'.1 pe'.2 (hgetN nd hnd) (hgetP nd hnd pe' hpe')
  · -- proc_of_loc
    intro p n h
    rw [hNet, hloc] at h
    obtain ⟨nd, e, hn, he⟩ := hwf.locBack p n h
    refine ⟨cvNode nd, ?_, ?_⟩
    · rw [hN, snapshotNodes_eq, amGet?_map_val_r4, hn]; rfl
    · show (amGet? p (nd.procs.map fun pe => (pe.1, cvProc pe.2))).isSome = true
      rw [amGet?_map_val_r4, he]; rfl
  · -- nodes_sorted
    rw [hN, snapshotNodes_eq]
    exact hwf.nodesSorted.map_val _
  · -- procs_sorted
    intro x hx
    rw [hN] at hx
    obtain ⟨nd, hnd, rfl⟩ := mem_snapshotNodes hx
    exact (hwf.procsSorted nd hnd).map_val _
  · -- flights
    rw [hpend]; rfl
  · -- timers
    rw [hpend]; rfl
  · -- crashed
    intro x hx
    rw [hN] at hx
    obtain ⟨nd, hnd, rfl⟩ := mem_snapshotNodes hx
    show nd.2.crashed = true ↔ nd.1 ∈ (q.nodes.filter (·.2.crashed)).map (·.1)
    constructor
    · intro h
      exact List.mem_map.mpr ⟨nd, List.mem_filter.mpr ⟨hnd, h⟩, rfl⟩
    · intro h
      obtain ⟨nd', hm', heq⟩ := List.mem_map.mp h
      obtain ⟨hmem, hc⟩ := List.mem_filter.mp hm'
      have h1 := hgetN nd' hmem
      have h2 := hgetN nd hnd
      rw [heq, h2] at h1
      rw [Option.some.inj h1]
      exact hc
  · -- uniq
    show (timersOf (snapshotPending bits q)).Pairwise _
    exact hu
  · -- tm
    exact htm
  · -- clean_msg
    intro id m src dst o hx
    rw [hpend] at hx
    obtain ⟨e, he, hev⟩ := mem_snapshotPending hx
    obtain ⟨mid, sn, dn, hd⟩ := snapshotEv_msg hev
    obtain ⟨hlive, hkeep⟩ := (mem_snapshotSource q e).mp he
    obtain ⟨h1, h2, h3⟩ := hwf.noCrashedSrc e hlive mid m src sn dst dn hd
    exact ⟨snapshotRef_procCrashed bits q h1 (not_mem_crashed hnodup h3),
      snapshotRef_procCrashed bits q h2 (hkeep mid m src sn dst dn hd)⟩
  · -- clean_timer
    intro id p name d hx
    rw [hpend] at hx
    obtain ⟨e, he, hev⟩ := mem_snapshotPending hx
    have hd := snapshotEv_timer' hev
    obtain ⟨hlive, -⟩ := (mem_snapshotSource q e).mp he
    exact snapshotRef_procCrashed bits q (hwf.timerLoc e hlive p name hd)
      (not_mem_crashed hnodup (hwf.noCrashedTimer e hlive p name hd))
  · -- procs
    simp only [snapshotRef, procsOf, hN, snapshotNodes_eq, List.flatMap_map, cvNode, cvProc, List.map_map, Function.comp_def]
  · -- pend
    intro x hx hcr pe hpe name
    rw [hN] at hx
    obtain ⟨nd, hnd, rfl⟩ := mem_snapshotNodes hx
    obtain ⟨pe', hpe', rfl⟩ := mem_cvNode_procs hpe
    rw [snapshotRef_timerPending,
      ← hwf.pendMap nd.1 nd.2 pe'.1 pe'.2 (hgetN nd hnd) hcr (hgetP nd hnd pe' hpe') name]
    show name ∈ pe'.2.pending.map (·.1) ↔ _
    rw [← amGet?_isSome_iff, Option.isSome_iff_exists]

/-- `run_impl` appends `McStarted` before exploring: the relation survives an extension of the trace on both sides -/
theorem Sim'.appendTrace {s : McSys σ} {r : RState σ} (h : Sim' s r) (es : List LogE) :
    Sim' { s with trace := s.trace ++ es } { r with trace := r.trace ++ es } := by
  obtain ⟨a, hw⟩ := h
  have hc := hw.core
  refine ⟨a, ⟨⟨⟨hc.topo.nodes_nodup, hc.topo.procs_nodup, hc.topo.loc_of_proc, hc.topo.proc_of_loc⟩,
    ⟨hc.sorted.nodes_sorted, hc.sorted.procs_sorted⟩, hc.rep, hc.flights, hc.timers, hc.crashed, hc.net, hc.uniq,
    hc.tm, hc.clean_msg, hc.clean_timer⟩, hw.procs, ?_, hw.pend⟩⟩
  show r.trace ++ es = s.trace ++ es
  rw [hw.trace]

/-- the snapshot's handler addresses: `SendsKnown` for the snapshot follows from the simulator's process table -/
theorem snapshot_sendsKnown (bits : T → Nat) (h : Handler σ) (q : Sim σ T) (s₀ : McSys σ)
    (hsnap : snapshot bits q = .ok s₀)
    (hk : ∀ p st i, ∀ a ∈ (h p st i).2, ∀ m dst, a = Action.send m dst → (amGet? dst q.net.procLoc).isSome = true) :
    SendsKnown h s₀ := by
  have hnet : s₀.net = snapshotNet bits q := by
    obtain ⟨st, a, hf, -⟩ := snapshotEvents_spec bits q (snapshotNet bits q).maxDelay
    simp only [snapshot, hf] at hsnap
    rw [← Except.ok.inj hsnap]
  intro p st i a ha m dst hm
  rw [hnet, snapshotNet_procLoc]
  exact hk p st i a ha m dst hm

/-! ## Non-vacuity -/

omit [TimeOps T] in
/-- a quiet simulator state (empty queue, no pending timers on live nodes) with sorted node and process tables, unique
    process names and a consistent `proc_locations` table is well-formed -/
theorem snapWF_quiet (q : Sim σ T) (hev : q.events = [])
    (hns : KSorted q.nodes) (hps : ∀ nd ∈ q.nodes, KSorted nd.2.procs)
    (hnd : (q.nodes.flatMap fun nd => nd.2.procs.map (·.1)).Nodup)
    (hloc : ∀ n nd p e, amGet? n q.nodes = some nd → amGet? p nd.procs = some e → amGet? p q.net.procLoc = some n)
    (hback : ∀ p n, amGet? p q.net.procLoc = some n → ∃ nd e, amGet? n q.nodes = some nd ∧ amGet? p nd.procs = some e)
    (hpend : ∀ n nd p e, amGet? n q.nodes = some nd → nd.crashed = false → amGet? p nd.procs = some e → e.pending = []) :
    SnapWF q := by
  have hlive : q.live = [] := by simp [Sim.live, hev]
  refine ⟨hns, hps, hnd, hloc, hback, ?_, ?_, ?_, ?_, ?_, ?_⟩
  · intro e he; rw [hlive] at he; cases he
  · intro e he; rw [hlive] at he; cases he
  · intro n nd p e hn hc hp name
    rw [hpend n nd p e hn hc hp, hlive]
    constructor
    · rintro ⟨id, h⟩; cases h
    · rintro ⟨ev, h, _⟩; cases h
  · intro e he; rw [hlive] at he; cases he
  · intro e he; rw [hlive] at he; cases he
  · rw [hev]; exact List.nodup_nil

theorem amGet?_singleton {β : Type} {k n : Nat} {v x : β} (h : amGet? n [(k, v)] = some x) : n = k ∧ x = v := by
  simp only [amGet?] at h
  split at h
  · exact ⟨by assumption, (Option.some.inj h).symm⟩
  · cases h

namespace R5Demo

open R4Demo

/-- the quiet state `q0` of `R4Demo` (node 0 hosts process 1, empty queue) is well-formed, by `snapWF_quiet` -/
theorem q0_wf : SnapWF q0 := by
  refine snapWF_quiet q0 rfl (List.pairwise_singleton _ _) ?_ (by decide) ?_ ?_ ?_
  · intro nd h
    have : nd = (0, { skew := ⟨0⟩, procs := [(1, { st := 0 })] }) := by simpa [q0] using h
    subst this
    exact List.pairwise_singleton _ _
  · intro n nd p e hn hp
    obtain ⟨rfl, rfl⟩ := q0_nodes n nd hn
    obtain ⟨rfl, rfl⟩ := q0_procs p e hp
    rfl
  · intro p n h
    obtain ⟨rfl, rfl⟩ := amGet?_singleton (show amGet? p [(1, 0)] = some n from h)
    exact ⟨_, _, rfl, rfl⟩
  · intro n nd p e hn _ hp
    obtain ⟨rfl, rfl⟩ := q0_nodes n nd hn
    obtain ⟨rfl, rfl⟩ := q0_procs p e hp
    rfl

/-- the process entry, the node, and the two queued events of `q1` -/
def pe1 : SProc Nat Ticks :=
  { st := 0, log := [⟨⟨0⟩, .tset 1 5 false⟩, ⟨⟨0⟩, .sent ⟨0, []⟩ 1 1⟩], pending := [(1, 0)], sent := 1 }
def nd1 : SNode Nat Ticks := { skew := ⟨0⟩, procs := [(1, pe1)] }
def e0 : QEv Ticks := ⟨0, ⟨5⟩, 0, 0, .timer 1 1⟩
def e1 : QEv Ticks := ⟨1, ⟨0⟩, 0, 0, .msg 0 ⟨0, []⟩ 1 0 1 0⟩

theorem q1_nodes : q1.nodes = [(0, nd1)] := rfl
theorem q1_events : q1.events = [e0, e1] := rfl
theorem q1_live : q1.live = [e0, e1] := rfl
theorem q1_loc : q1.net.procLoc = [(1, 0)] := rfl

theorem mem_q1_live {e : QEv Ticks} (h : e ∈ q1.live) : e = e0 ∨ e = e1 := by
  rw [q1_live] at h
  simpa using h

/-- **non-vacuity**: `q1` of `R4Demo` — one process on node 0 with one queued timer (id 0) and one queued message
    to itself (id 1), built by `Sim.handleActions` from the quiet state `q0` — is well-formed -/
theorem q1_wf : SnapWF q1 := by
  refine ⟨?_, ?_, ?_, ?_, ?_, ?_, ?_, ?_, ?_, ?_, ?_⟩
  · rw [q1_nodes]; exact List.pairwise_singleton _ _
  · intro nd h
    rw [q1_nodes, List.mem_singleton] at h
    subst h
    exact List.pairwise_singleton _ _
  · rw [q1_nodes]; decide
  · intro n nd p e hn hp
    rw [q1_nodes] at hn
    obtain ⟨rfl, rfl⟩ := amGet?_singleton hn
    obtain ⟨rfl, rfl⟩ := amGet?_singleton (show amGet? p [(1, pe1)] = some e from hp)
    rfl
  · intro p n h
    rw [q1_loc] at h
    obtain ⟨rfl, rfl⟩ := amGet?_singleton h
    exact ⟨nd1, pe1, rfl, rfl⟩
  · intro e he p name hd
    rcases mem_q1_live he with rfl | rfl
    · cases hd; rfl
    · cases hd
  · intro a ha b hb p name hda hdb
    rcases mem_q1_live ha with rfl | rfl <;> rcases mem_q1_live hb with rfl | rfl
    · rfl
    · cases hdb
    · cases hda
    · cases hda
  · intro n nd p e hn _ hp name
    rw [q1_nodes] at hn
    obtain ⟨rfl, rfl⟩ := amGet?_singleton hn
    obtain ⟨rfl, rfl⟩ := amGet?_singleton (show amGet? p [(1, pe1)] = some e from hp)
    constructor
    · rintro ⟨id, h⟩
      obtain ⟨rfl, rfl⟩ := amGet?_singleton (show amGet? name [(1, 0)] = some id from h)
      exact ⟨e0, by rw [q1_live]; simp, rfl⟩
    · rintro ⟨ev, hev, hd⟩
      rcases mem_q1_live hev with rfl | rfl
      · cases hd; exact ⟨0, rfl⟩
      · cases hd
  · intro e he p name hd nd hn
    rcases mem_q1_live he with rfl | rfl
    · rw [q1_nodes] at hn
      obtain ⟨-, rfl⟩ := amGet?_singleton (show amGet? 0 [(0, nd1)] = some nd from hn)
      rfl
    · cases hd
  · intro e he mid m src sn dst dn hd
    rcases mem_q1_live he with rfl | rfl
    · cases hd
    · cases hd
      refine ⟨rfl, rfl, ?_⟩
      intro nd hn
      rw [q1_nodes] at hn
      obtain ⟨-, rfl⟩ := amGet?_singleton hn
      rfl
  · rw [q1_events]; decide

/-- the main theorem applied to the demo state: the snapshot exists, holds the message and the timer, and is related
    to `snapshotRef` -/
example : ∃ s₀, snapshot bitsT q1 = .ok s₀ ∧ Sim' s₀ (snapshotRef bitsT q1) ∧
    (snapshotRef bitsT q1).flights = [⟨⟨0, []⟩, 1, 1, .noFail 0⟩] ∧ (snapshotRef bitsT q1).timers = [⟨1, 1, 5⟩] := by
  obtain ⟨s₀, h⟩ := snapshot_ok bitsT q1 q1_wf
  exact ⟨s₀, h, snapshot_sim' bitsT q1 s₀ q1_wf h, by decide, by decide⟩

/-- a caveat on reachability, kernel-checked: between `recover_node` and the re-`add_process` the clause `locBack`
    does NOT hold (`recoverNode` empties the node's process table but leaves `proc_locations` alone).  The clause
    cannot be dropped: `WFTopo.proc_of_loc` (part of `Sim'`) is exactly this statement about the snapshot, so for such
    a state `Sim' s₀ r` is false for every `r`. -/
example : ∃ q : Sim Nat Ticks, (q0.crashNode 0 >>= fun s => s.recoverNode 0) = .ok q ∧
    amGet? 1 q.net.procLoc = some 0 ∧ (amGet? 0 q.nodes).map (fun nd => nd.procs.length) = some 0 :=
  ⟨_, rfl, rfl, rfl⟩

end R5Demo

end Anysystem
