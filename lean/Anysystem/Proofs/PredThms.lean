import Anysystem.Model.Pred
import Anysystem.Model.Strategy
import Anysystem.Proofs.PredLemmas
/-!
# C19 — the built-in predicates mean what their documentation says
-/
namespace Anysystem

variable {σ : Type}

open Pred

/-! ### current run trace -/

/-- `current_run_trace` is the suffix starting at the last `McStarted` -/
theorem currentRunTrace_last_started (pre post : List LogE) (hpost : LogE.started ∉ post) :
    currentRunTrace (pre ++ LogE.started :: post) = LogE.started :: post := by
  have hnone : List.findIdx? (fun x => x == LogE.started) post.reverse = none := by
    rw [List.findIdx?_eq_none_iff]
    intro x hx
    simp only [List.mem_reverse] at hx
    simp only [beq_eq_false_iff_ne, ne_eq]
    rintro rfl
    exact hpost hx
  have hidx : List.findIdx? (fun x => x == LogE.started) (pre ++ LogE.started :: post).reverse
      = some post.length := by
    rw [List.reverse_append, List.reverse_cons, List.append_assoc, List.findIdx?_append, hnone]
    simp [List.findIdx?_cons]
  unfold currentRunTrace
  rw [hidx]
  simp only [List.length_append, List.length_cons]
  have : pre.length + (post.length + 1) - 1 - post.length = pre.length := by omega
  rw [this, List.drop_left]

/-- ... and the whole trace when no run was started -/
theorem currentRunTrace_no_started (tr : List LogE) (h : LogE.started ∉ tr) : currentRunTrace tr = tr := by
  have hnone : List.findIdx? (fun x => x == LogE.started) tr.reverse = none := by
    rw [List.findIdx?_eq_none_iff]
    intro x hx
    simp only [List.mem_reverse] at hx
    simp only [beq_eq_false_iff_ne, ne_eq]
    rintro rfl
    exact h hx
  unfold currentRunTrace
  rw [hnone]

/-! ### depth and count limits: the comparison operators -/

theorem invStateDepth_iff (d : Nat) (s : McSys σ) : invStateDepth d s = true ↔ s.depth > d := by
  simp [invStateDepth]
theorem pruneStateDepth_iff (d : Nat) (s : McSys σ) : pruneStateDepth d s = true ↔ s.depth > d := by
  simp [pruneStateDepth]
theorem depthReached_iff (d : Nat) (s : McSys σ) : depthReached d s = true ↔ s.depth ≥ d := by
  simp [depthReached]
theorem sentMessagesLimit_iff (k : Nat) (s : McSys σ) :
    sentMessagesLimit k s = true ↔ ∃ nd ∈ s.nodes, ∃ pe ∈ nd.2.procs, pe.2.sent > k := by
  simp only [sentMessagesLimit, List.any_eq_true, decide_eq_true_eq]
theorem eventsLimit_iff (p : LogE → Bool) (k : Nat) (s : McSys σ) :
    eventsLimit p k s = true ↔ (s.trace.filter p).length > k := by
  simp [eventsLimit, countTrace]
theorem eventsLimitPerProc_iff (p : LogE → Nat → Bool) (procs : List Nat) (k : Nat) (s : McSys σ) :
    eventsLimitPerProc p procs k s = true ↔ ∃ q ∈ procs, (s.trace.filter (fun e => p e q)).length > k := by
  simp [eventsLimitPerProc, countTrace]
theorem eventHappened_iff (p : LogE → Bool) (n : Nat) (s : McSys σ) :
    eventHappenedNTimesCurrentRun p n s = true ↔ ((currentRunTrace s.trace).filter p).length ≥ n := by
  simp [eventHappenedNTimesCurrentRun, countTrace]
theorem gotNLocalMessages_iff (node proc n : Nat) (s : McSys σ) (e : ProcEntry σ) (he : findProc s node proc = some e) :
    gotNLocalMessages node proc n s = some (decide (e.outbox.length = n)) := by
  simp only [gotNLocalMessages, he, Option.map_some, Option.some.injEq]
  rw [Bool.eq_iff_iff]; simp

/-! ### received_messages -/

/-- Ok iff: not more messages than expected; not fewer when nothing is pending; no payload twice;
    every payload expected -/
theorem invReceivedMessages_spec (node proc : Nat) (expected : List (List Nat)) (s : McSys σ) (e : ProcEntry σ)
    (he : findProc s node proc = some e) :
    invReceivedMessages node proc expected s = some false ↔
      (e.outbox.length ≤ expected.eraseDups.length ∧
       ¬ (e.outbox.length < expected.eraseDups.length ∧ noEvents s = true) ∧
       (e.outbox.map (·.data)).Nodup ∧ ∀ m ∈ e.outbox, m.data ∈ expected) := by
  simp only [invReceivedMessages, he]
  by_cases h1 : e.outbox.length > expected.eraseDups.length
  · simp only [h1, if_true]
    constructor
    · intro h; simp at h
    · rintro ⟨h, _⟩; omega
  · simp only [h1, if_false]
    by_cases h2 : (decide (e.outbox.length < expected.eraseDups.length) && noEvents s) = true
    · simp only [h2, if_true]
      constructor
      · intro h; simp at h
      · rintro ⟨_, h, _⟩
        simp only [Bool.and_eq_true, decide_eq_true_eq] at h2
        exact absurd h2 h
    · simp only [h2]
      simp only [Bool.and_eq_true, decide_eq_true_eq] at h2
      simp only [Bool.false_eq_true, if_false, Option.some.injEq, invReceivedMessages_go_false]
      constructor
      · rintro ⟨a, _, c⟩
        exact ⟨by omega, h2, a, c⟩
      · rintro ⟨_, _, a, c⟩
        exact ⟨a, by simp, c⟩

/-! ### proc_permutations -/

/-- processes mentioned (as message sender or timer owner) in a trace, in order -/
def mentions (tr : List LogE) : List Nat :=
  tr.filterMap fun e => match e with
    | .recv _ src _ => some src
    | .tfired p _ => some p
    | _ => none

/-- the proc a trace entry mentions -/
def mentionOf (e : LogE) : Option Nat := match e with
  | .recv _ src _ => some src
  | .tfired p _ => some p
  | _ => none

theorem mentions_cons (e : LogE) (es : List LogE) :
    mentions (e :: es) = match mentionOf e with | some p => p :: mentions es | none => mentions es := by
  cases e <;> simp [mentions, mentionOf]

theorem procPermutations_go_cons (equiv : List Nat) (e : LogE) (es : List LogE) (used : List Nat) (waiting : Nat) :
    procPermutations.go equiv (e :: es) used waiting =
      match mentionOf e with
      | none => procPermutations.go equiv es used waiting
      | some p =>
        if used.contains p || !equiv.contains p then procPermutations.go equiv es used waiting
        else match equiv[waiting]? with
          | none => none
          | some q => if q != p then some true else procPermutations.go equiv es (p :: used) (waiting + 1) := by
  cases e <;> rfl

theorem procPermutations_go_spec (equiv : List Nat) (es : List LogE) : ∀ (used : List Nat) (waiting : Nat),
    (∀ p, p ∈ used ↔ p ∈ equiv.take waiting) →
    procPermutations.go equiv es used waiting =
      some (!(((mentions es).filter (fun p => equiv.contains p && !used.contains p)).eraseDups.isPrefixOf
        (equiv.drop waiting))) := by
  induction es with
  | nil => intro used waiting _; simp [procPermutations.go, mentions]
  | cons e es ih =>
    intro used waiting hinv
    rw [procPermutations_go_cons, mentions_cons]
    cases hm : mentionOf e with
    | none => exact ih used waiting hinv
    | some p =>
      simp only
      by_cases hc : (used.contains p || !equiv.contains p) = true
      · rw [if_pos hc, ih used waiting hinv, List.filter_cons_of_neg]
        simp only [Bool.or_eq_true, Bool.not_eq_true'] at hc
        rcases hc with hc | hc
        · have : p ∈ used := by simpa using hc
          simp [this]
        · have : p ∉ equiv := by simpa using hc
          simp [this]
      · rw [if_neg hc]
        simp only [Bool.or_eq_true, Bool.not_eq_true', not_or, Bool.not_eq_true, Bool.not_eq_false] at hc
        obtain ⟨hu, he⟩ := hc
        have hu' : p ∉ used := by simpa using hu
        have he' : p ∈ equiv := by simpa using he
        have hpd : p ∈ equiv.drop waiting := by
          have := (List.take_append_drop waiting equiv) ▸ he'
          rcases List.mem_append.1 this with h | h
          · exact absurd ((hinv p).2 h) hu'
          · exact h
        have hlt : waiting < equiv.length := by
          rcases Nat.lt_or_ge waiting equiv.length with h | h
          · exact h
          · rw [List.drop_of_length_le h] at hpd; simp at hpd
        rw [List.filter_cons_of_pos (by simp [hu', he']), List.eraseDups_cons,
          List.drop_eq_getElem_cons hlt, List.isPrefixOf_cons_cons, List.getElem?_eq_getElem hlt]
        simp only
        by_cases hq : equiv[waiting] = p
        · have hinv' : ∀ p', p' ∈ p :: used ↔ p' ∈ equiv.take (waiting + 1) := by
            intro p'
            rw [List.take_add_one, List.getElem?_eq_getElem hlt, hq]
            simp [hinv p', or_comm]
          have hf : List.filter (fun a => (!a == p) && (equiv.contains a && !used.contains a)) (mentions es)
              = List.filter (fun a => equiv.contains a && !(p :: used).contains a) (mentions es) := by
            apply List.filter_congr
            intro x _
            by_cases hx : x = p
            · subst hx; simp
            · have h1 : (x == p) = false := by simpa using hx
              simp [h1, hx]
          rw [ih (p :: used) (waiting + 1) hinv', List.filter_filter, hf]
          simp [hq]
        · have h1 : (equiv[waiting] != p) = true := by simpa using hq
          have h2 : (p == equiv[waiting]) = false := by simpa using fun h => hq h.symm
          simp [h1, h2]

/-- prunes iff the order in which the equivalent processes are first mentioned in the current run is
    not a prefix of the given order; the index into `equivalent_procs` is always in bounds -/
theorem procPermutations_spec (equiv : List Nat) (hnd : equiv.Nodup) (s : McSys σ) :
    procPermutations equiv s =
      some (!(((mentions (currentRunTrace s.trace)).filter (equiv.contains ·)).eraseDups.isPrefixOf equiv)) := by
  -- `hnd` is not needed: the invariant `used ≈ equiv.take waiting` alone keeps the index in bounds
  have _ := hnd
  unfold procPermutations
  rw [procPermutations_go_spec equiv _ [] 0 (by simp)]
  simp

/-! ### combinators: value and short-circuiting -/

theorem allInvariants_value {S α : Type} (rules : List (S → α → Bool × S)) (states : List S) (x : α)
    (hlen : rules.length = states.length) :
    (allInvariants rules states x).1 = (rules.zip states).any (fun rs => (rs.1 rs.2 x).1) := by
  induction rules generalizing states with
  | nil => simp [allInvariants]
  | cons r rs ih =>
    cases states with
    | nil => simp at hlen
    | cons st sts =>
      simp only [List.length_cons, Nat.add_right_cancel_iff] at hlen
      rw [allInvariants_cons, List.zip_cons_cons, List.any_cons]
      cases hb : (r st x).1 <;> simp [ih sts hlen]

/-- rules after the first broken one are not invoked: their state is untouched -/
theorem allInvariants_short_circuit {S α : Type} (rules : List (S → α → Bool × S)) (states : List S) (x : α)
    (k : Nat) (r : S → α → Bool × S) (st : S) (hr : rules[k]? = some r) (hs : states[k]? = some st)
    (hbroken : (r st x).1 = true) :
    ∀ j, k < j → (allInvariants rules states x).2[j]? = states[j]? := by
  induction rules generalizing states k with
  | nil => simp at hr
  | cons r0 rs ih =>
    cases states with
    | nil => simp at hs
    | cons st0 sts =>
      intro j hj
      rw [allInvariants_cons]
      obtain ⟨j', rfl⟩ : ∃ j', j = j' + 1 := ⟨j - 1, by omega⟩
      cases hb : (r0 st0 x).1 with
      | true => simp
      | false =>
        cases k with
        | zero =>
          simp only [List.getElem?_cons_zero, Option.some.injEq] at hr hs
          subst hr hs
          rw [hb] at hbroken; simp at hbroken
        | succ k' =>
          simp only [List.getElem?_cons_succ] at hr hs
          simpa using ih sts k' hr hs j' (by omega)

theorem anyRule_value {S α : Type} (rules : List (S → α → Bool × S)) (states : List S) (x : α)
    (hlen : rules.length = states.length) :
    (anyRule rules states x).1 = (rules.zip states).any (fun rs => (rs.1 rs.2 x).1) := by
  induction rules generalizing states with
  | nil => simp [anyRule]
  | cons r rs ih =>
    cases states with
    | nil => simp at hlen
    | cons st sts =>
      simp only [List.length_cons, Nat.add_right_cancel_iff] at hlen
      rw [anyRule_cons, List.zip_cons_cons, List.any_cons]
      cases hb : (r st x).1 <;> simp [ih sts hlen]

theorem anyRule_short_circuit {S α : Type} (rules : List (S → α → Bool × S)) (states : List S) (x : α)
    (k : Nat) (r : S → α → Bool × S) (st : S) (hr : rules[k]? = some r) (hs : states[k]? = some st)
    (hhit : (r st x).1 = true) :
    ∀ j, k < j → (anyRule rules states x).2[j]? = states[j]? := by
  induction rules generalizing states k with
  | nil => simp at hr
  | cons r0 rs ih =>
    cases states with
    | nil => simp at hs
    | cons st0 sts =>
      intro j hj
      rw [anyRule_cons]
      obtain ⟨j', rfl⟩ : ∃ j', j = j' + 1 := ⟨j - 1, by omega⟩
      cases hb : (r0 st0 x).1 with
      | true => simp
      | false =>
        cases k with
        | zero =>
          simp only [List.getElem?_cons_zero, Option.some.injEq] at hr hs
          subst hr hs
          rw [hb] at hhit; simp at hhit
        | succ k' =>
          simp only [List.getElem?_cons_succ] at hr hs
          simpa using ih sts k' hr hs j' (by omega)

theorem allRules_value {S α : Type} (rules : List (S → α → Bool × S)) (states : List S) (x : α)
    (hlen : rules.length = states.length) :
    (allRules rules states x).1 = (rules.zip states).all (fun rs => (rs.1 rs.2 x).1) := by
  induction rules generalizing states with
  | nil => simp [allRules]
  | cons r rs ih =>
    cases states with
    | nil => simp at hlen
    | cons st sts =>
      simp only [List.length_cons, Nat.add_right_cancel_iff] at hlen
      rw [allRules_cons, List.zip_cons_cons, List.all_cons]
      cases hb : (r st x).1 <;> simp [ih sts hlen]

theorem allRules_short_circuit {S α : Type} (rules : List (S → α → Bool × S)) (states : List S) (x : α)
    (k : Nat) (r : S → α → Bool × S) (st : S) (hr : rules[k]? = some r) (hs : states[k]? = some st)
    (hmiss : (r st x).1 = false) :
    ∀ j, k < j → (allRules rules states x).2[j]? = states[j]? := by
  induction rules generalizing states k with
  | nil => simp at hr
  | cons r0 rs ih =>
    cases states with
    | nil => simp at hs
    | cons st0 sts =>
      intro j hj
      rw [allRules_cons]
      obtain ⟨j', rfl⟩ : ∃ j', j = j' + 1 := ⟨j - 1, by omega⟩
      cases hb : (r0 st0 x).1 with
      | false => simp
      | true =>
        cases k with
        | zero =>
          simp only [List.getElem?_cons_zero, Option.some.injEq] at hr hs
          subst hr hs
          rw [hb] at hmiss; simp at hmiss
        | succ k' =>
          simp only [List.getElem?_cons_succ] at hr hs
          simpa using ih sts k' hr hs j' (by omega)

/-! ### state_depth_current_run (finding D11): the sound half -/

/-- every explored step adds at least one trace entry, none of them `McStarted`, and one to the depth -/
theorem applyAlt_trace_depth (h : Handler σ) {s s' : McSys σ} {alt : Alt} (hok : s.applyAlt {} h alt = .ok s') :
    s'.depth = s.depth + 1 ∧ ∃ new, new ≠ [] ∧ s'.trace = s.trace ++ new ∧ LogE.started ∉ new :=
  applyAlt_trace_depth_gen h hok

theorem path_trace_depth (h : Handler σ) (alts : List Alt) : ∀ (s₀ s : McSys σ) (pre post : List LogE),
    s₀.trace = pre ++ LogE.started :: post → LogE.started ∉ post →
    alts.foldlM (fun st alt => st.applyAlt {} h alt) s₀ = .ok s →
    ∃ post', s.trace = pre ++ LogE.started :: post' ∧ LogE.started ∉ post' ∧
      post.length + (s.depth - s₀.depth) ≤ post'.length := by
  induction alts with
  | nil =>
    intro s₀ s pre post ht hp hpath
    simp only [List.foldlM_nil, pure, Except.pure, Except.ok.injEq] at hpath
    subst hpath
    exact ⟨post, ht, hp, by omega⟩
  | cons a as ih =>
    intro s₀ s pre post ht hp hpath
    rw [List.foldlM_cons] at hpath
    cases h1 : s₀.applyAlt {} h a with
    | error e => rw [h1] at hpath; simp [bind, Except.bind] at hpath
    | ok s1 =>
      rw [h1] at hpath
      simp only [bind, Except.bind] at hpath
      obtain ⟨hd, new, hne, htr, hns⟩ := applyAlt_trace_depth h h1
      have hlen : 0 < new.length := List.length_pos_iff.2 hne
      obtain ⟨post', g1, g2, g3⟩ := ih s1 s pre (post ++ new)
        (by rw [htr, ht]; simp) (by simp [hp, hns]) hpath
      refine ⟨post', g1, g2, ?_⟩
      simp only [List.length_append] at g3
      omega

/-- D11, partial: the predicate compares the limit with the number of trace entries of the current run,
    which is at least `1 +` the number of steps of the run; so it never accepts a state that is more
    than `d - 1` steps into the run (it is stricter than documented: it rejects the start state for `d = 0`) -/
theorem invStateDepthCurrentRun_partial (h : Handler σ) (s₀ : McSys σ) (alts : List Alt) (s : McSys σ)
    (hstart : ∃ pre, s₀.trace = pre ++ [LogE.started])
    (hpath : alts.foldlM (fun st alt => st.applyAlt {} h alt) s₀ = .ok s) (d : Nat)
    (hacc : invStateDepthCurrentRun d s = false) : s.depth - s₀.depth + 1 ≤ d := by
  obtain ⟨pre, hpre⟩ := hstart
  obtain ⟨post', g1, g2, g3⟩ := path_trace_depth h alts s₀ s pre [] hpre (by simp) hpath
  simp only [invStateDepthCurrentRun, g1, currentRunTrace_last_started pre post' g2, List.length_cons,
    decide_eq_false_iff_not, gt_iff_lt, Nat.not_lt] at hacc
  simp only [List.length_nil, Nat.zero_add] at g3
  omega

/-- the witness of D11: at the start state of a run the predicate with limit 0 reports a violation -/
theorem invStateDepthCurrentRun_D11_witness (s₀ : McSys σ) (pre : List LogE) (hstart : s₀.trace = pre ++ [LogE.started]) :
    invStateDepthCurrentRun 0 s₀ = true := by
  simp [invStateDepthCurrentRun, hstart, currentRunTrace_last_started pre [] (by simp)]

end Anysystem
