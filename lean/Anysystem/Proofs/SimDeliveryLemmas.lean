import Anysystem.Proofs.SimTraceInv
/-!
# Helper lemmas for `SimDelivery.lean`

The lower-bound counterpart of `TraceLe` (`SimTraceInv.lean`): the bookkeeping relation `Keep H s s'` says that `s'` arises
from `s` by bookkeeping that keeps, for every message, the number of recorded fates plus live queued copies *exactly*, keeps
the handler set, addresses every queued event to a node of `H`, never cancels an event id that has not been issued, and keeps
the pending-timer tables pointing at timer events (`TimersOk`).
-/
namespace Anysystem

set_option linter.unusedSectionVars false

variable {σ T : Type} [TimeOps T]

/-- exact counting: in a list whose `f`-values are pairwise different, removing the elements with the `f`-value of a member
    `e` lowers the `q`-count by one if `q e` and not at all otherwise -/
theorem length_filter_pop_exact {α : Type} (l : List α) (f : α → Nat) (q : α → Bool) (e : α) (he : e ∈ l)
    (hnd : (l.map f).Nodup) :
    ((l.filter (fun x => f x != f e)).filter q).length + (if q e = true then 1 else 0) = (l.filter q).length := by
  induction l with
  | nil => cases he
  | cons x xs ih =>
    rw [List.map_cons, List.nodup_cons] at hnd
    by_cases hfx : f x = f e
    · have hex : e = x := by
        rcases List.mem_cons.1 he with h | h
        · exact h
        · exact absurd (by rw [hfx]; exact List.mem_map_of_mem (f := f) h) hnd.1
      subst hex
      have hall : xs.filter (fun y => f y != f e) = xs := by
        apply List.filter_eq_self.2
        intro y hy
        simp only [bne_iff_ne, ne_eq]
        intro hyx
        exact hnd.1 (by rw [← hyx]; exact List.mem_map_of_mem (f := f) hy)
      have h1 : (e :: xs).filter (fun y => f y != f e) = xs := by
        rw [List.filter_cons]
        simp [hall]
      rw [h1, List.filter_cons]
      cases q e <;> simp
    · have hex : e ∈ xs := by
        rcases List.mem_cons.1 he with h | h
        · exact absurd (by rw [h]) hfx
        · exact h
      have ih' := ih hex hnd.2
      have h1 : (x :: xs).filter (fun y => f y != f e) = x :: xs.filter (fun y => f y != f e) := by
        rw [List.filter_cons]
        simp [hfx]
      rw [h1, List.filter_cons, List.filter_cons]
      cases q x <;> simp only [↓reduceIte, Bool.false_eq_true, List.length_cons] <;> omega

/-- a filter that is the disjoint union of two filters -/
theorem length_filter_split {α : Type} (l : List α) (a b c : α → Bool)
    (h : ∀ x ∈ l, a x = (b x || c x) ∧ ¬(b x = true ∧ c x = true)) :
    (l.filter a).length = (l.filter b).length + (l.filter c).length := by
  induction l with
  | nil => rfl
  | cons x xs ih =>
    have hx := h x List.mem_cons_self
    have ih' := ih (fun y hy => h y (List.mem_cons_of_mem _ hy))
    simp only [List.filter_cons]
    cases ha : a x <;> cases hb : b x <;> cases hc : c x <;> simp_all <;> omega

namespace Sim

/-- `id` has been issued and no queued message copy carries it -/
def TimerId (s : Sim σ T) (id : Nat) : Prop :=
  id < s.eventCount ∧ ∀ ev ∈ s.events, ev.id = id → ev.data.mid? = none

/-- every entry of every process's pending-timer table points at an issued event id that is not a message copy
    (so `cancel_timer` / a timer override can never cancel a message) -/
def TimersOk (s : Sim σ T) : Prop :=
  ∀ n p e name id, s.proc? n p = some e → amGet? name e.pending = some id → s.TimerId id

theorem TimerId.of_le {s s' : Sim σ T} {id : Nat} (h : s.TimerId id) (hec : s.eventCount ≤ s'.eventCount)
    (hev : ∀ ev, ev ∈ s'.events → ev ∈ s.events ∨ (s.eventCount ≤ ev.id)) : s'.TimerId id := by
  refine ⟨Nat.lt_of_lt_of_le h.1 hec, ?_⟩
  intro ev hev' hid
  rcases hev ev hev' with h1 | h1
  · exact h.2 ev h1 hid
  · have := h.1; omega

theorem TimerId.of_eq {s s' : Sim σ T} {id : Nat} (h : s.TimerId id) (hec : s'.eventCount = s.eventCount)
    (hev : s'.events = s.events) : s'.TimerId id :=
  h.of_le (Nat.le_of_eq hec.symm) (fun _ hev' => .inl (hev ▸ hev'))

@[simp] theorem updProc_handlers (s : Sim σ T) (n p : Nat) (f : SProc σ T → SProc σ T) :
    (s.updProc n p f).handlers = s.handlers := by
  obtain ⟨ns, h⟩ := updProc_frame s n p f; rw [h]

/-- `next_event` only ever forgets cancelled ids -/
theorem nextEvent_canceled (fuel : Nat) (s s' : Sim σ T) (o : Option (QEv T)) (h : nextEvent fuel s = (o, s')) :
    ∀ id ∈ s'.canceled, id ∈ s.canceled := by
  induction fuel generalizing s with
  | zero =>
    simp only [nextEvent, Prod.mk.injEq] at h
    obtain ⟨_, rfl⟩ := h
    exact fun _ h => h
  | succ fuel ih =>
    rw [nextEvent_succ] at h
    split at h
    · simp only [Prod.mk.injEq] at h
      obtain ⟨_, rfl⟩ := h
      exact fun _ h => h
    · split at h
      · intro id hid
        have := ih _ h id hid
        exact ((mem_setErase _ _ _).1 this).2
      · simp only [Prod.mk.injEq] at h
        obtain ⟨_, rfl⟩ := h
        exact fun _ h => h

/-- with unique event ids, the popped event leaves the live copies of its message, exactly -/
theorem pop_count_exact {fuel : Nat} {s s1 : Sim σ T} {e : QEv T} (hwf : s.QueueWF)
    (hpop : nextEvent fuel s = (some e, s1)) (mid : Nat) :
    s1.queuedCopies mid + (if (e.data.mid? == some mid) = true then 1 else 0) = s.queuedCopies mid := by
  obtain ⟨_, _, _, _, _, _, _, h8, _⟩ := nextEvent_frame fuel s s1 _ hpop
  obtain ⟨hmem, hlive⟩ := h8 e rfl
  rw [queuedCopies_eq_live, queuedCopies_eq_live, hlive]
  have hnd : ((liveOf s).map (·.id)).Nodup := by
    unfold liveOf
    exact ((List.filter_sublist (l := s.events)).map (·.id)).nodup hwf.1
  exact length_filter_pop_exact (liveOf s) (·.id) (fun x => x.data.mid? == some mid) e hmem hnd

/-! ### the bookkeeping relation -/

/-- `s'` arises from `s` by bookkeeping that keeps every message's fates plus live copies (`le` and `ge`), the handler
    set, the addressing of queued events to nodes of `H`, the bound on cancelled ids and the timer tables -/
structure Keep (H : List Nat) (s s' : Sim σ T) : Prop where
  le : TraceLe s s'
  ge : ∀ mid, s.fates mid + s.queuedCopies mid ≤ s'.fates mid + s'.queuedCopies mid
  handlers : s'.handlers = s.handlers
  queued : (∀ e ∈ s.events, e.dst ∈ H) → ∀ e ∈ s'.events, e.dst ∈ H
  cancels : (∀ id ∈ s.canceled, id < s.eventCount) → ∀ id ∈ s'.canceled, id < s'.eventCount
  timers : s.TimersOk → s'.TimersOk

/-- trace, queue, cancellation set, counters, handlers untouched -/
theorem Keep.same {H : List Nat} {s s' : Sim σ T} (htr : s'.trace = s.trace) (hev : s'.events = s.events)
    (hc : s'.canceled = s.canceled) (hec : s'.eventCount = s.eventCount) (hnet : s'.net = s.net)
    (hdr : ∀ d ∈ s'.draws, d ∈ s.draws) (hh : s'.handlers = s.handlers)
    (ht : ∀ n p e', s'.proc? n p = some e' → ∀ name id, amGet? name e'.pending = some id →
      (∃ e, s.proc? n p = some e ∧ amGet? name e.pending = some id) ∨ s.TimerId id) : Keep H s s' := by
  refine ⟨TraceLe.same htr hev hc hec hnet hdr, ?_, hh, by rw [hev]; exact id, by rw [hc, hec]; exact id, ?_⟩
  · intro mid
    unfold fates
    rw [htr, queuedCopies_of_eq hev hc]
    exact Nat.le_refl _
  · intro hto n p e' name id hp hg
    rcases ht n p e' hp name id hg with ⟨e, he, hge⟩ | h
    · exact (hto n p e name id he hge).of_eq hec hev
    · exact h.of_eq hec hev

/-- rewriting a process entry; a new pending entry must point at a timer id -/
theorem Keep.updProc {H : List Nat} (s : Sim σ T) (n p : Nat) (f : SProc σ T → SProc σ T)
    (hf : ∀ e name id, amGet? name (f e).pending = some id → amGet? name e.pending = some id ∨ s.TimerId id) :
    Keep H s (s.updProc n p f) := by
  refine Keep.same (by simp) (by simp) (by simp) (by simp) (by simp) (by simp) (by simp) ?_
  intro n' p' e' hp name id hg
  rw [proc?_updProc] at hp
  split at hp
  · rename_i hnp
    obtain ⟨rfl, rfl⟩ := hnp
    cases hs : s.proc? n' p' with
    | none => simp [hs] at hp
    | some e =>
      simp only [hs, Option.map_some, Option.some.injEq] at hp
      subst hp
      rcases hf e name id hg with h | h
      · exact .inl ⟨e, rfl, h⟩
      · exact .inr h
  · exact .inl ⟨e', hp, hg⟩

/-- rewriting a process entry without touching its pending-timer table -/
theorem Keep.updProc' {H : List Nat} (s : Sim σ T) (n p : Nat) (f : SProc σ T → SProc σ T)
    (hf : ∀ e, (f e).pending = e.pending) : Keep H s (s.updProc n p f) :=
  Keep.updProc s n p f (fun e name id h => .inl (by rw [← hf e]; exact h))

theorem Keep.setLocalCount {H : List Nat} (s : Sim σ T) (n : Nat) {nd : SNode σ T} (hn : amGet? n s.nodes = some nd)
    (c : Nat) : Keep H s (s.setNode n { nd with localCount := c }) :=
  Keep.same rfl rfl rfl rfl rfl (fun _ h => h) rfl
    (fun n' p' e' hp name id hg => .inl ⟨e', by rw [← proc?_setNode_localCount s n hn c]; exact hp, hg⟩)

theorem Keep.dropDraws {H : List Nat} (s : Sim σ T) (k : Nat) : Keep H s { s with draws := s.draws.drop k } :=
  Keep.same rfl rfl rfl rfl rfl (fun _ h => List.mem_of_mem_drop h) rfl
    (fun _ _ e' hp _ _ hg => .inl ⟨e', hp, hg⟩)

/-- logging an entry that is neither a send nor a fate -/
theorem Keep.log {H : List Nat} (s : Sim σ T) (x : SLog T) (hx : x.sentId = none ∧ x.fateOf = none) :
    Keep H s (s.log x) := by
  refine ⟨TraceLe.log s x hx, ?_, rfl, id, id, fun h => h⟩
  intro mid
  rw [fates_of_trace_nonfate (s := s) (s' := s.log x) [x] rfl (by simpa using hx.2),
    queuedCopies_of_eq (s := s) (s' := s.log x) rfl rfl]
  exact Nat.le_refl _

/-- cancelling an issued id that no message copy carries -/
theorem Keep.cancelEvent {H : List Nat} (s : Sim σ T) (id : Nat) (hid : s.TimerId id) : Keep H s (s.cancelEvent id) := by
  refine ⟨TraceLe.cancelEvent s id, ?_, rfl, fun h => h, ?_, fun h => h⟩
  · intro mid
    apply Nat.add_le_add_left
    unfold queuedCopies
    apply length_filter_le_of_imp
    intro x hxm hx
    simp only [Sim.cancelEvent, Bool.and_eq_true, Bool.not_eq_true', List.contains_eq_mem, decide_eq_false_iff_not,
      mem_setInsert, not_or] at hx ⊢
    refine ⟨⟨?_, hx.1⟩, hx.2⟩
    intro hxid
    have := hid.2 x hxm hxid
    rw [this] at hx
    simp at hx
  · intro hc i hi
    rcases (mem_setInsert _ _ _).1 hi with rfl | h
    · exact hid.1
    · exact hc i h

/-- queueing a timer for a node of `H` -/
theorem Keep.addTimer {H : List Nat} (s : Sim σ T) (p name src dst : Nat) (d : T) (hdst : dst ∈ H) :
    Keep H s (s.addEvent (.timer p name) src dst d).1 := by
  refine ⟨TraceLe.addTimer s p name src dst d, ?_, rfl, ?_, ?_, ?_⟩
  · intro mid
    apply Nat.add_le_add_left
    unfold queuedCopies
    simp [Sim.addEvent, List.filter_append, QData.mid?]
  · intro hq e he
    simp only [Sim.addEvent, List.mem_append, List.mem_singleton] at he
    rcases he with he | rfl
    · exact hq e he
    · exact hdst
  · intro hc i hi
    exact Nat.lt_succ_of_lt (hc i hi)
  · intro hto n' p' e' nm id hp hg
    refine (hto n' p' e' nm id hp hg).of_le (Nat.le_succ _) ?_
    intro ev hev
    simp only [Sim.addEvent, List.mem_append, List.mem_singleton] at hev
    rcases hev with h | rfl
    · exact .inl h
    · exact .inr (Nat.le_refl _)

/-- the id of the timer just queued is a timer id -/
theorem timerId_addTimer (s : Sim σ T) (hwf : s.QueueWF) (p name src dst : Nat) (d : T) :
    (s.addEvent (.timer p name) src dst d).1.TimerId s.eventCount := by
  refine ⟨Nat.lt_succ_self _, ?_⟩
  intro ev hev hid
  simp only [Sim.addEvent, List.mem_append, List.mem_singleton] at hev
  rcases hev with h | rfl
  · have := hwf.2 ev h; omega
  · rfl

/-- `next_event` that returns nothing or a timer -/
theorem Keep.pop {H : List Nat} {fuel : Nat} {s s1 : Sim σ T} {o : Option (QEv T)} (hwf : s.QueueWF)
    (hpop : nextEvent fuel s = (o, s1)) (ho : ∀ e, o = some e → e.data.mid? = none) : Keep H s s1 := by
  obtain ⟨h1, h2, h3, h4, h5, h6, h7, _, h9⟩ := nextEvent_frame fuel s s1 _ hpop
  refine ⟨TraceLe.pop hpop, ?_, h6, fun hq e he => hq e (h7.subset he), ?_, ?_⟩
  · intro mid
    unfold fates
    rw [h1]
    apply Nat.add_le_add_left
    cases o with
    | none => rw [queuedCopies_eq_live, queuedCopies_eq_live, h9 rfl]; exact Nat.le_refl _
    | some e =>
      have := pop_count_exact hwf hpop mid
      rw [ho e rfl] at this
      simp at this
      omega
  · intro hc i hi
    rw [h4]
    exact hc i (nextEvent_canceled fuel s s1 o hpop i hi)
  · intro hto n p e name id hp hg
    rw [proc?_of_nodes h5] at hp
    exact (hto n p e name id hp hg).of_le (Nat.le_of_eq h4.symm) (fun ev hev => .inl (h7.subset hev))

/-- popping a copy of `mid` and logging one fate of `mid`: the copy turns into the fate -/
theorem Keep.pop_fate {H : List Nat} {fuel : Nat} {s s1 : Sim σ T} {e : QEv T} (hwf : s.QueueWF)
    (hpop : nextEvent fuel s = (some e, s1)) (mid : Nat) (hmid : e.data.mid? = some mid) (x : SLog T)
    (hx1 : x.sentId = none) (hx2 : x.fateOf = some mid) : Keep H s (s1.log x) := by
  obtain ⟨h1, h2, h3, h4, h5, h6, h7, _, _⟩ := nextEvent_frame fuel s s1 _ hpop
  refine ⟨TraceLe.pop_fate hpop mid hmid x hx1 hx2, ?_, h6, fun hq e he => hq e (h7.subset he), ?_, ?_⟩
  · intro mid'
    have htr : (s1.log x).trace = s.trace ++ [x] := by rw [← h1]; rfl
    have hf := fates_of_trace [x] htr mid'
    have hq : (s1.log x).queuedCopies mid' = s1.queuedCopies mid' := queuedCopies_of_eq rfl rfl mid'
    have hp := pop_count_exact hwf hpop mid'
    rw [hmid] at hp
    rw [hf, hq]
    by_cases hm : mid = mid'
    · subst hm
      simp only [beq_self_eq_true, if_true] at hp
      simp only [List.filter_cons, hx2, beq_self_eq_true, if_true, List.filter_nil, List.length_cons, List.length_nil]
      omega
    · have hne : (some mid == some mid') = false := by simpa using hm
      simp only [List.filter_cons, hx2, hne, List.filter_nil, List.length_nil, Bool.false_eq_true, if_false]
      simp only [hne, Bool.false_eq_true, if_false] at hp
      omega
  · intro hc i hi
    show i < s1.eventCount
    rw [h4]
    exact hc i (nextEvent_canceled fuel s s1 _ hpop i hi)
  · intro hto n p e name id hp hg
    have hp' : s.proc? n p = some e := by rw [← proc?_of_nodes h5]; exact hp
    exact (hto n p e name id hp' hg).of_le (Nat.le_of_eq h4.symm) (fun ev hev => .inl (h7.subset hev))

end Sim
end Anysystem
