import Anysystem.Proofs.SearchLemmas
/-!
# DFS: invariants for arbitrary results, and what an `ok` run guarantees
-/
set_option linter.unusedSectionVars false

namespace Anysystem

variable {σ κ : Type} [DecidableEq κ]

/-! ## Invariants that hold whatever the result -/

/-- `PreS` is inherited by the children of expanded states, `Inv' s` is what holds when `s` is about
    to be evaluated, `Inv` holds between evaluations. -/
theorem dfs_inv_rule (S : TSys σ κ) (PreS : σ → Prop) (Inv : Acc σ κ → Prop) (Inv' : σ → Acc σ κ → Prop)
    (hS : ∀ s cs c, PreS s → S.verdict s = .cont → S.succ s = .ok cs → c ∈ cs → PreS c)
    (hM : ∀ a c, Inv a → a.cache.has S c = false → PreS c →
      Inv' c { a with cache := a.cache.mark S c })
    (hC : ∀ a s, Inv' s a → PreS s → Inv (a.check S s).1)
    (hW : ∀ a s, Inv' s a → Inv a) :
    ∀ n, (∀ s a r a', dfs S n s a = some (r, a') → PreS s → Inv' s a → Inv a') ∧
         (∀ cs a r a', dfsChildren S n cs a = some (r, a') → (∀ c ∈ cs, PreS c) → Inv a → Inv a') := by
  refine dfs_rule S (Pd := fun s a _ a' => PreS s → Inv' s a → Inv a')
    (Pc := fun cs a _ a' => (∀ c ∈ cs, PreS c) → Inv a → Inv a') ?_ ?_ ?_ ?_ ?_ ?_ ?_ ?_
  · intro s a e _ _ h; exact hW a s h
  · intro s a cs msg _ _ hp h; exact hC a s h hp
  · intro s a cs st _ _ hp h; exact hC a s h hp
  · intro s a cs r a' hs hv hc hp h
    exact hc (fun c hcm => hS s cs c hp hv hs hcm) (hC a s h hp)
  · intro a _ h; exact h
  · intro c cs a r a' _ hc hp h
    exact hc (fun x hx => hp x (List.mem_cons_of_mem _ hx)) h
  · intro c cs a a1 r a' hh hd hc hp h
    exact hc (fun x hx => hp x (List.mem_cons_of_mem _ hx))
      (hd (hp c (List.mem_cons_self ..)) (hM a c h hh (hp c (List.mem_cons_self ..))))
  · intro c cs a r a1 hh _ hd hp h
    exact hd (hp c (List.mem_cons_self ..)) (hM a c h hh (hp c (List.mem_cons_self ..)))

/-- invariants of the accumulator that do not look at the cache -/
theorem dfs_accInv (S : TSys σ κ) (P : Acc σ κ → Prop)
    (hcache : ∀ a c, P a → P { a with cache := c })
    (hcheck : ∀ a s, P a → P (a.check S s).1)
    (n : Nat) (s : σ) (a : Acc σ κ) (r : Res σ) (a' : Acc σ κ)
    (h : dfs S n s a = some (r, a')) (hP : P a) : P a' :=
  ((dfs_inv_rule S (fun _ => True) P (fun _ => P) (fun _ _ _ _ _ _ _ => trivial)
    (fun a _ h _ _ => hcache a _ h) (fun a s h _ => hcheck a s h) (fun _ _ h => h) n).1
    s a r a' h trivial hP)

/-- evaluated states are reachable -/
theorem dfs_reach (S : TSys σ κ) (s₀ : σ) (n : Nat) (s : σ) (a : Acc σ κ) (r : Res σ) (a' : Acc σ κ)
    (h : dfs S n s a = some (r, a')) (hs : ReachC S s₀ s) (ha : ∀ e ∈ a.evald, ReachC S s₀ e) :
    ∀ e ∈ a'.evald, ReachC S s₀ e := by
  refine (dfs_inv_rule S (ReachC S s₀) (fun a => ∀ e ∈ a.evald, ReachC S s₀ e)
    (fun _ a => ∀ e ∈ a.evald, ReachC S s₀ e) ?_ ?_ ?_ ?_ n).1 s a r a' h hs ha
  · intro s cs c hs hv hsucc hc
    exact ReachC.step hs hv hsucc hc
  · intro a c h _ _; exact h
  · intro a s h hs e he
    rw [check_evald] at he
    rcases List.mem_append.mp he with he | he
    · exact h e he
    · simp only [List.mem_singleton] at he; subst he; exact hs
  · intro a s h; exact h

/-- no key is evaluated twice and evaluated keys are marked -/
def NK (S : TSys σ κ) (a : Acc σ κ) : Prop :=
  (a.evald.map S.key).Nodup ∧ ∀ e ∈ a.evald, Marked S a.cache (S.key e)

theorem dfs_nodup (S : TSys σ κ) (mode : CacheMode) (hm : ExactCache S mode)
    (n : Nat) (s : σ) (a : Acc σ κ) (r : Res σ) (a' : Acc σ κ)
    (h : dfs S n s a = some (r, a')) (hmode : a.cache.mode = mode) (hnk : NK S a)
    (hmk : Marked S a.cache (S.key s)) (hnew : S.key s ∉ a.evald.map S.key) : NK S a' := by
  refine ((dfs_inv_rule S (fun _ => True) (fun a => a.cache.mode = mode ∧ NK S a)
    (fun s a => (a.cache.mode = mode ∧ NK S a) ∧ Marked S a.cache (S.key s) ∧
      S.key s ∉ a.evald.map S.key) ?_ ?_ ?_ ?_ n).1 s a r a' h trivial ⟨⟨hmode, hnk⟩, hmk, hnew⟩).2
  · intros; trivial
  · rintro a c ⟨hmd, hnd, hmk⟩ hh _
    have hex : ExactCache S a.cache.mode := by rw [hmd]; exact hm
    have hnm : ¬ Marked S a.cache (S.key c) := (has_false_iff S _ _).1 hh
    refine ⟨⟨by simp only [mark_mode]; exact hmd, hnd, ?_⟩, ?_, ?_⟩
    · intro e he
      exact marked_mark_of_marked S _ _ _ (hmk e he)
    · exact marked_mark_self S _ hex c
    · intro hmem
      obtain ⟨e, he, hk⟩ := List.mem_map.mp hmem
      exact hnm (by rw [← hk]; exact hmk e he)
  · rintro a s ⟨⟨hmd, hnd, hmk⟩, hms, hnew⟩ _
    refine ⟨by rw [check_cache]; exact hmd, ?_, ?_⟩
    · rw [check_evald, List.map_append, List.nodup_append]
      refine ⟨hnd, by simp, ?_⟩
      intro x hx y hy
      simp only [List.map_cons, List.map_nil, List.mem_singleton] at hy
      subst hy
      intro hxy; subst hxy; exact hnew hx
    · intro e he
      rw [check_evald] at he
      rw [check_cache]
      rcases List.mem_append.mp he with he | he
      · exact hmk e he
      · simp only [List.mem_singleton] at he; subst he; exact hms
  · rintro a s ⟨h, _⟩; exact h

/-- an `err` result names an evaluated failing state; `evald` only grows -/
theorem dfs_err (S : TSys σ κ) :
    ∀ n, (∀ s a r a', dfs S n s a = some (r, a') → (∀ x ∈ a.evald, x ∈ a'.evald) ∧
            ∀ msg e, r = .err msg e → e ∈ a'.evald ∧ S.verdict e = .fail msg) ∧
         (∀ cs a r a', dfsChildren S n cs a = some (r, a') → (∀ x ∈ a.evald, x ∈ a'.evald) ∧
            ∀ msg e, r = .err msg e → e ∈ a'.evald ∧ S.verdict e = .fail msg) := by
  refine dfs_rule S
    (Pd := fun _ a r a' => (∀ x ∈ a.evald, x ∈ a'.evald) ∧
            ∀ msg e, r = .err msg e → e ∈ a'.evald ∧ S.verdict e = .fail msg)
    (Pc := fun _ a r a' => (∀ x ∈ a.evald, x ∈ a'.evald) ∧
            ∀ msg e, r = .err msg e → e ∈ a'.evald ∧ S.verdict e = .fail msg)
    ?_ ?_ ?_ ?_ ?_ ?_ ?_ ?_
  · intro s a e _
    exact ⟨fun _ h => h, fun _ _ h => by cases h⟩
  · intro s a cs msg _ hv
    refine ⟨fun x hx => by rw [check_evald]; exact List.mem_append_left _ hx, ?_⟩
    intro msg' e h
    cases h
    exact ⟨by rw [check_evald]; simp, hv⟩
  · intro s a cs st _ _
    exact ⟨fun x hx => by rw [check_evald]; exact List.mem_append_left _ hx, fun _ _ h => by cases h⟩
  · intro s a cs r a' _ _ hc
    refine ⟨fun x hx => hc.1 x (by rw [check_evald]; exact List.mem_append_left _ hx), hc.2⟩
  · intro a
    exact ⟨fun _ h => h, fun _ _ h => by cases h⟩
  · intro c cs a r a' _ hc; exact hc
  · intro c cs a a1 r a' _ hd hc
    exact ⟨fun x hx => hc.1 x (hd.1 x hx), hc.2⟩
  · intro c cs a r a1 _ _ hd; exact hd

/-! ## `ok` runs with an exact cache -/

/-- what a successful (sub)run with an exact cache guarantees about the states `E` it evaluated -/
structure GoodX (S : TSys σ κ) (c c' : Cache κ) (E : List σ) : Prop where
  mono : ∀ k, Marked S c k → Marked S c' k
  noFail : ∀ e ∈ E, isFail (S.verdict e) = false
  closed : ∀ e ∈ E, S.verdict e = .cont → ∀ cs, S.succ e = .ok cs → ∀ x ∈ cs, Marked S c' (S.key x)
  origin : ∀ k, Marked S c' k → Marked S c k ∨ ∃ e ∈ E, S.key e = k

theorem GoodX.refl (S : TSys σ κ) (c : Cache κ) : GoodX S c c [] :=
  ⟨fun _ h => h, by simp, by simp, fun _ h => Or.inl h⟩

theorem GoodX.trans {S : TSys σ κ} {c c1 c2 : Cache κ} {E1 E2 : List σ}
    (h1 : GoodX S c c1 E1) (h2 : GoodX S c1 c2 E2) : GoodX S c c2 (E1 ++ E2) := by
  refine ⟨fun k hk => h2.mono k (h1.mono k hk), ?_, ?_, ?_⟩
  · intro e he
    rcases List.mem_append.mp he with he | he
    · exact h1.noFail e he
    · exact h2.noFail e he
  · intro e he hv cs hs x hx
    rcases List.mem_append.mp he with he | he
    · exact h2.mono _ (h1.closed e he hv cs hs x hx)
    · exact h2.closed e he hv cs hs x hx
  · intro k hk
    rcases h2.origin k hk with hk | ⟨e, he, rfl⟩
    · rcases h1.origin k hk with hk | ⟨e, he, rfl⟩
      · exact Or.inl hk
      · exact Or.inr ⟨e, List.mem_append_left _ he, rfl⟩
    · exact Or.inr ⟨e, List.mem_append_right _ he, rfl⟩

theorem GoodX.unmark {S : TSys σ κ} {c c1 : Cache κ} {E : List σ} {s : σ}
    (hm : ExactCache S c.mode) (h : GoodX S (c.mark S s) c1 E) (hs : s ∈ E) : GoodX S c c1 E := by
  refine ⟨fun k hk => h.mono k (marked_mark_of_marked S c s k hk), h.noFail, h.closed, ?_⟩
  intro k hk
  rcases h.origin k hk with hk | hk
  · rcases (marked_mark_iff S c hm s k).1 hk with hk | rfl
    · exact Or.inl hk
    · exact Or.inr ⟨s, hs, rfl⟩
  · exact Or.inr hk

theorem dfs_good (S : TSys σ κ) :
    ∀ n, (∀ s a r a', dfs S n s a = some (r, a') → r = .ok → ExactCache S a.cache.mode →
            ∃ new, a'.evald = a.evald ++ new ∧ s ∈ new ∧ GoodX S a.cache a'.cache new ∧
              a'.cache.mode = a.cache.mode) ∧
         (∀ cs a r a', dfsChildren S n cs a = some (r, a') → r = .ok → ExactCache S a.cache.mode →
            ∃ new, a'.evald = a.evald ++ new ∧ GoodX S a.cache a'.cache new ∧
              (∀ c ∈ cs, Marked S a'.cache (S.key c)) ∧ a'.cache.mode = a.cache.mode) := by
  refine dfs_rule S
    (Pd := fun s a r a' => r = .ok → ExactCache S a.cache.mode →
            ∃ new, a'.evald = a.evald ++ new ∧ s ∈ new ∧ GoodX S a.cache a'.cache new ∧
              a'.cache.mode = a.cache.mode)
    (Pc := fun cs a r a' => r = .ok → ExactCache S a.cache.mode →
            ∃ new, a'.evald = a.evald ++ new ∧ GoodX S a.cache a'.cache new ∧
              (∀ c ∈ cs, Marked S a'.cache (S.key c)) ∧ a'.cache.mode = a.cache.mode)
    ?_ ?_ ?_ ?_ ?_ ?_ ?_ ?_
  · intro s a e _ h; cases h
  · intro s a cs msg _ _ h; cases h
  · intro s a cs st _ hv _ _
    refine ⟨[s], check_evald S a s, by simp, ?_, by rw [check_cache]⟩
    rw [check_cache]
    refine ⟨fun _ h => h, ?_, ?_, fun _ h => Or.inl h⟩
    · intro e he; simp only [List.mem_singleton] at he; subst he; simp [hv, isFail]
    · intro e he hc; simp only [List.mem_singleton] at he; subst he; simp [hv] at hc
  · intro s a cs r a' hs hv hc hr hm
    obtain ⟨new, h1, h2, h3, h4⟩ := hc hr (by rw [check_cache]; exact hm)
    rw [check_cache] at h2 h4
    rw [check_evald] at h1
    refine ⟨s :: new, by rw [h1]; simp, by simp, ?_, h4⟩
    refine ⟨h2.mono, ?_, ?_, ?_⟩
    · intro e he
      rcases List.mem_cons.mp he with rfl | he
      · simp [hv, isFail]
      · exact h2.noFail e he
    · intro e he hve cs' hse x hx
      rcases List.mem_cons.mp he with rfl | he
      · rw [hs] at hse
        cases hse
        exact h3 x hx
      · exact h2.closed e he hve cs' hse x hx
    · intro k hk
      rcases h2.origin k hk with hk | ⟨e, he, rfl⟩
      · exact Or.inl hk
      · exact Or.inr ⟨e, List.mem_cons_of_mem _ he, rfl⟩
  · intro a _ _
    exact ⟨[], by simp, GoodX.refl S _, by simp, rfl⟩
  · intro c cs a r a' hh hc hr hm
    obtain ⟨new, h1, h2, h3, h4⟩ := hc hr hm
    refine ⟨new, h1, h2, ?_, h4⟩
    intro x hx
    rcases List.mem_cons.mp hx with rfl | hx
    · exact h2.mono _ ((has_iff S _ _).1 hh)
    · exact h3 x hx
  · intro c cs a a1 r a' hh hd hc hr hm
    obtain ⟨new1, d1, d2, d3, d4⟩ := hd rfl (by simp only [mark_mode]; exact hm)
    simp only [mark_mode] at d4
    simp only at d1 d3
    obtain ⟨new2, c1, c2, c3, c4⟩ := hc hr (by rw [d4]; exact hm)
    have g1 : GoodX S a.cache a1.cache new1 := GoodX.unmark hm d3 d2
    refine ⟨new1 ++ new2, by rw [c1, d1]; simp, g1.trans c2, ?_, by rw [c4, d4]⟩
    intro x hx
    rcases List.mem_cons.mp hx with rfl | hx
    · exact c2.mono _ (d3.mono _ (marked_mark_self S _ hm x))
    · exact c3 x hx
  · intro c cs a r a1 _ hne _ hr; exact absurd hr hne

/-! ## `ok` runs with the cache disabled -/

/-- the evaluated states do not fail and contain the children of their expanded members -/
def ClosedD (S : TSys σ κ) (E : List σ) : Prop :=
  ∀ e ∈ E, isFail (S.verdict e) = false ∧
    (S.verdict e = .cont → ∀ cs, S.succ e = .ok cs → ∀ c ∈ cs, c ∈ E)

theorem ClosedD.append {S : TSys σ κ} {E1 E2 : List σ} (h1 : ClosedD S E1) (h2 : ClosedD S E2) :
    ClosedD S (E1 ++ E2) := by
  intro e he
  rcases List.mem_append.mp he with he | he
  · exact ⟨(h1 e he).1, fun hv cs hs c hc => List.mem_append_left _ ((h1 e he).2 hv cs hs c hc)⟩
  · exact ⟨(h2 e he).1, fun hv cs hs c hc => List.mem_append_right _ ((h2 e he).2 hv cs hs c hc)⟩

theorem dfs_closedD (S : TSys σ κ) :
    ∀ n, (∀ s a r a', dfs S n s a = some (r, a') → r = .ok → a.cache.mode = .disabled →
            ∃ new, a'.evald = a.evald ++ new ∧ s ∈ new ∧ ClosedD S new ∧
              a'.cache.mode = .disabled) ∧
         (∀ cs a r a', dfsChildren S n cs a = some (r, a') → r = .ok → a.cache.mode = .disabled →
            ∃ new, a'.evald = a.evald ++ new ∧ (∀ c ∈ cs, c ∈ new) ∧ ClosedD S new ∧
              a'.cache.mode = .disabled) := by
  refine dfs_rule S
    (Pd := fun s a r a' => r = .ok → a.cache.mode = .disabled →
            ∃ new, a'.evald = a.evald ++ new ∧ s ∈ new ∧ ClosedD S new ∧
              a'.cache.mode = .disabled)
    (Pc := fun cs a r a' => r = .ok → a.cache.mode = .disabled →
            ∃ new, a'.evald = a.evald ++ new ∧ (∀ c ∈ cs, c ∈ new) ∧ ClosedD S new ∧
              a'.cache.mode = .disabled)
    ?_ ?_ ?_ ?_ ?_ ?_ ?_ ?_
  · intro s a e _ h; cases h
  · intro s a cs msg _ _ h; cases h
  · intro s a cs st _ hv _ hm
    refine ⟨[s], check_evald S a s, by simp, ?_, by rw [check_cache]; exact hm⟩
    intro e he
    simp only [List.mem_singleton] at he; subst he
    exact ⟨by simp [hv, isFail], fun hc => by simp [hv] at hc⟩
  · intro s a cs r a' hs hv hc hr hm
    obtain ⟨new, h1, h2, h3, h4⟩ := hc hr (by rw [check_cache]; exact hm)
    rw [check_evald] at h1
    refine ⟨s :: new, by rw [h1]; simp, by simp, ?_, h4⟩
    intro e he
    rcases List.mem_cons.mp he with rfl | he
    · refine ⟨by simp [hv, isFail], ?_⟩
      intro _ cs' hse x hx
      rw [hs] at hse
      cases hse
      exact List.mem_cons_of_mem _ (h2 x hx)
    · exact ⟨(h3 e he).1, fun hve cs' hse x hx => List.mem_cons_of_mem _ ((h3 e he).2 hve cs' hse x hx)⟩
  · intro a _ hm
    exact ⟨[], by simp, by simp, by intro e he; simp at he, hm⟩
  · intro c cs a r a' hh _ _ hm
    rw [has_of_disabled S _ hm] at hh
    cases hh
  · intro c cs a a1 r a' _ hd hc hr hm
    obtain ⟨new1, d1, d2, d3, d4⟩ := hd rfl (by simp only [mark_mode]; exact hm)
    simp only at d1
    obtain ⟨new2, c1, c2, c3, c4⟩ := hc hr d4
    refine ⟨new1 ++ new2, by rw [c1, d1]; simp, ?_, d3.append c3, c4⟩
    intro x hx
    rcases List.mem_cons.mp hx with rfl | hx
    · exact List.mem_append_left _ d2
    · exact List.mem_append_right _ (c2 x hx)
  · intro c cs a r a1 _ hne _ hr; exact absurd hr hne

end Anysystem
