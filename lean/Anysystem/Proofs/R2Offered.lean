import Anysystem.Proofs.R2Sim
import Anysystem.Proofs.SpecLemmas
import Anysystem.Proofs.StoreRefine
/-!
# Offered events against reduced enabledness; `available_events` from `Rep`
-/
set_option linter.unusedSimpArgs false
namespace Anysystem

variable {σ : Type}

theorem offered_iff_oldest {A l rest : List (Nat × Ev)} {id : Nat} {m : Msg} {s d : Nat} {o : Opts}
    (hnd : (keys A).Nodup) (hA : A = l ++ (id, .msg m s d o) :: rest) (R : RState σ)
    (hf : R.flights = flightsOf A) :
    id ∈ specOffered A ↔ R.oldestIdentical (flightsOf l).length = true := by
  subst hA
  rw [mem_specOffered_decomp l rest id _ hnd]
  have hfl := (flightsOf_decomp_msg l rest id m s d o).1
  simp only [RState.oldestIdentical, hf, hfl, getElem?_append_length_cons, take_append_length_cons,
    all_flightsOf, List.all_eq_true]
  apply forall_congr'
  intro y
  apply imp_congr_right
  intro _
  obtain ⟨i, ev⟩ := y
  cases ev with
  | msg m' s' d' o' =>
    simp only [blocks]
    by_cases h1 : m' = m <;> by_cases h2 : s' = s <;> by_cases h3 : d' = d <;> simp [h1, h2, h3]
  | _ => simp [blocks]

theorem offered_iff_unblocked {A l rest : List (Nat × Ev)} {id p nm dl : Nat}
    (hnd : (keys A).Nodup) (hA : A = l ++ (id, .timer p nm dl) :: rest) (R : RState σ)
    (ht : R.timers = timersOf A) :
    id ∈ specOffered A ↔ R.timerUnblocked (timersOf l).length = true := by
  subst hA
  rw [mem_specOffered_decomp l rest id _ hnd]
  have htl := (timersOf_decomp_timer l rest id p nm dl).1
  simp only [RState.timerUnblocked, ht, htl, getElem?_append_length_cons, take_append_length_cons,
    all_timersOf, List.all_eq_true]
  apply forall_congr'
  intro y
  apply imp_congr_right
  intro _
  obtain ⟨i, ev⟩ := y
  cases ev with
  | timer p' n' d' =>
    simp only [blocks]
    by_cases h1 : p' = p <;> simp [h1]
  | _ => simp [blocks]

/-- the first pending message is offered -/
theorem first_msg_offered {A : List (Nat × Ev)} (hnd : (keys A).Nodup) (hne : flightsOf A ≠ []) :
    ∃ id m s d o, amGet? id A = some (.msg m s d o) ∧ id ∈ specOffered A := by
  cases hfl : flightsOf A with
  | nil => exact absurd hfl hne
  | cons f fs =>
    have h0 : (flightsOf A)[0]? = some f := by rw [hfl]; rfl
    obtain ⟨l, id, rest, hA, hl⟩ := flightsOf_getElem?_decomp h0
    subst hA
    refine ⟨id, f.m, f.src, f.dst, f.o, amGet?_of_mem_nodup hnd (by simp), ?_⟩
    rw [mem_specOffered_decomp l rest id _ hnd]
    intro y hy
    have hnil : flightsOf l = [] := List.eq_nil_of_length_eq_zero hl
    obtain ⟨i, ev⟩ := y
    cases ev with
    | msg m' s' d' o' =>
      exfalso
      have : (⟨m', s', d', o'⟩ : Flight) ∈ flightsOf l := mem_flightsOf.mpr ⟨i, hy⟩
      rw [hnil] at this
      simp at this
    | _ => simp [blocks]

/-- `available_events(mode)` does not panic and returns the declarative offered set -/
theorem Rep.availableEvents {s : Store} {a : AStore} (hr : Rep s a) (mode : Mode) :
    ∃ l, s.availableEvents mode = .ok l ∧ ∀ id, id ∈ l ↔ id ∈ specOfferedMode a.pending mode := by
  have habs := hr.abs
  have hassert : s.assertOk = true := by
    simp only [Store.assertOk, Bool.or_eq_true, Bool.not_eq_eq_eq_not, Bool.not_true]
    cases hev : s.events with
    | nil => right; rfl
    | cons x rest =>
      left
      have hx : amGet? x.1 s.events = some x.2 := by rw [hev]; simp [amGet?]
      rw [hr.get_eq] at hx
      have hmem := amGet?_eq_some_mem hx
      cases hp : a.pending with
      | nil => rw [hp] at hmem; simp at hmem
      | cons y ys =>
        have : y.1 ∈ specOffered (y :: ys) := by simp [specOffered, offeredFrom]
        have := (hr.avail y.1).mpr (by rw [hp]; exact this)
        cases hav : s.available with
        | nil => rw [hav] at this; simp at this
        | cons _ _ => rfl
  cases mode with
  | normal =>
    refine ⟨s.available, ?_, ?_⟩
    · simp [Store.availableEvents, hassert]
    · intro id
      simp only [specOfferedMode]
      exact hr.avail id
  | messagesFirst =>
    have hlive : s.available.any (fun id => (s.get id).isNone) = false := by
      rw [List.any_eq_false]
      intro id hid
      obtain ⟨e, he⟩ := specOffered_live ((hr.avail id).mp hid)
      simp only [Store.get, hr.get_eq, he]
      simp
    simp only [Store.availableEvents, hassert, Bool.not_true, Bool.false_eq_true, ↓reduceIte,
      hlive]
    refine ⟨_, rfl, ?_⟩
    intro id
    simp only [specOfferedMode]
    exact mode_lemma _ _ _ _ (fun id => by rw [habs.get_eq] <;> rfl) hr.avail id

theorem mem_ite_filter (f : Nat → Bool) (S : List Nat) (id : Nat) :
    id ∈ (if (S.filter f).isEmpty then S else S.filter f) ↔
      id ∈ S ∧ (f id = true ∨ ∀ j ∈ S, f j = false) := by
  by_cases hF : (S.filter f).isEmpty = true
  · rw [if_pos hF]
    rw [List.isEmpty_iff, List.filter_eq_nil_iff] at hF
    constructor
    · intro h; exact ⟨h, Or.inr (fun j hj => by simpa using hF j hj)⟩
    · intro h; exact h.1
  · rw [if_neg hF]
    rw [List.isEmpty_iff, List.filter_eq_nil_iff] at hF
    simp only [List.mem_filter]
    constructor
    · intro h; exact ⟨h.1, Or.inl h.2⟩
    · rintro ⟨h1, h2 | h2⟩
      · exact ⟨h1, h2⟩
      · exfalso; apply hF; intro j hj; simp [h2 j hj]

/-- membership in the mode-filtered offered set -/
theorem mem_specOfferedMode {A : List (Nat × Ev)} (hnd : (keys A).Nodup) {mode : Mode} {id : Nat}
    {e : Ev} (hg : amGet? id A = some e) :
    id ∈ specOfferedMode A mode ↔
      id ∈ specOffered A ∧ (e.isMsg = true ∨ mode = .normal ∨ flightsOf A = []) := by
  cases mode with
  | normal => simp [specOfferedMode]
  | messagesFirst =>
    simp only [specOfferedMode]
    rw [mem_ite_filter]
    have hlk : ∀ j, A.lookup j = amGet? j A := fun j => lookup_eq_amGet? A j
    simp only [hlk, hg, reduceCtorEq, false_or]
    apply and_congr_right
    intro _
    apply or_congr_right
    constructor
    · intro hall
      by_cases hfl : flightsOf A = []
      · exact hfl
      · exfalso
        obtain ⟨j, m, s, d, o, hgj, hoj⟩ := first_msg_offered hnd hfl
        have := hall j hoj
        rw [hgj] at this
        simp [Ev.isMsg] at this
    · intro hfl j hj
      obtain ⟨ej, hej⟩ := specOffered_live hj
      rw [hej]
      cases ej with
      | msg m s d o =>
        exfalso
        have : (⟨m, s, d, o⟩ : Flight) ∈ flightsOf A := mem_flightsOf.mpr ⟨j, amGet?_eq_some_mem hej⟩
        rw [hfl] at this
        simp at this
      | _ => rfl

end Anysystem
