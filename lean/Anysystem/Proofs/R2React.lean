import Anysystem.Proofs.R2Node
import Anysystem.Proofs.R2Topo
/-!
# One reaction of a process: `McNode.react` + `add_events` against `RState.react`
-/
set_option linter.unusedSimpArgs false
namespace Anysystem

variable {σ : Type}

/-- the entry as `on_message_received` / `on_timer_fired` / `on_local_message_received` prepare it -/
def inEntry (p : Nat) (i : Input) (e : ProcEntry σ) : ProcEntry σ :=
  match i with
  | .msg m src => { e with log := e.log ++ [.recv m src p], recv := e.recv + 1 }
  | .timer name => { e with pending := setErase name e.pending, log := e.log ++ [.tfired name] }
  | .loc _ => e

@[simp] theorem inEntry_st (p : Nat) (i : Input) (e : ProcEntry σ) : (inEntry p i e).st = e.st := by
  cases i <;> rfl

@[simp] theorem inEntry_outbox (p : Nat) (i : Input) (e : ProcEntry σ) :
    (inEntry p i e).outbox = e.outbox := by
  cases i <;> rfl

/-- what `handle_process_actions` returns for the reaction of `p` (entry `e`) to `i` -/
def reactOut (h : Handler σ) (p : Nat) (i : Input) (e : ProcEntry σ) : ProcEntry σ × List Ev × List LogE :=
  handleActions {} p (h p e.st i).2 { inEntry p i e with st := (h p e.st i).1 } [] []

theorem McNode.react_eq (h : Handler σ) (n : McNode σ) (p : Nat) (i : Input) (e : ProcEntry σ)
    (hcr : n.crashed = false) (he : amGet? p n.procs = some e) :
    n.react {} h p i =
      .ok ({ n with procs := amInsert natLt p (reactOut h p i e).1 n.procs },
           (reactOut h p i e).2.1, (reactOut h p i e).2.2) := by
  simp only [McNode.react, hcr, Bool.false_eq_true, ↓reduceIte, he, reactOut]
  cases i <;> rfl

/-- the reference state update of the process state -/
def setSt (p : Nat) (st' : σ) (x : Nat × RProc σ) : Nat × RProc σ :=
  if x.1 = p then (x.1, { x.2 with st := st' }) else x

theorem McNode.react_ok {h : Handler σ} {n n' : McNode σ} {p : Nat} {i : Input} {evs : List Ev}
    {tr : List LogE} (hok : n.react {} h p i = .ok (n', evs, tr)) :
    n.crashed = false ∧ ∃ e, amGet? p n.procs = some e := by
  simp only [McNode.react] at hok
  cases hc : n.crashed with
  | true => simp [hc] at hok
  | false =>
    refine ⟨rfl, ?_⟩
    cases he : amGet? p n.procs with
    | none => simp [hc, he] at hok
    | some e => exact ⟨e, rfl⟩

/-! ## override-freedom only looks at the timers -/

theorem act_send_timers (r : RState σ) (p : Nat) (m : Msg) (dst : Nat) :
    (r.act p (.send m dst)).1.timers = r.timers := by
  simp only [RState.act]
  split
  · split <;> rfl
  · rfl
  · rfl

theorem act_timers_congr {r r' : RState σ} (h : r.timers = r'.timers) (p : Nat) (a : Action) :
    (r.act p a).1.timers = (r'.act p a).1.timers := by
  have hp : ∀ q n, r.timerPending q n = r'.timerPending q n := fun q n => by
    simp only [RState.timerPending, h]
  cases a with
  | send m dst => rw [act_send_timers, act_send_timers, h]
  | loc m => simpa [RState.act] using h
  | set name d once =>
    simp only [RState.act, hp]
    split
    · exact h
    · simp [RState.removeTimer, h]
  | cancel name =>
    simp only [RState.act, hp]
    split
    · simp [RState.removeTimer, h]
    · exact h

theorem overrideFreeActs_congr (p : Nat) (as : List Action) : ∀ {r r' : RState σ},
    r.timers = r'.timers → r.overrideFreeActs p as = r'.overrideFreeActs p as := by
  induction as with
  | nil => intro r r' _; rfl
  | cons a rest ih =>
    intro r r' h
    have hp : ∀ q n, r.timerPending q n = r'.timerPending q n := fun q n => by
      simp only [RState.timerPending, h]
    simp only [RState.overrideFreeActs, hp, ih (act_timers_congr h p a)]

/-! ## the reaction -/

theorem react_refines (h : Handler σ) {s : McSys σ} {r : RState σ} {a : AStore} {p nd : Nat}
    {n : McNode σ} {e : ProcEntry σ} (i : Input)
    (hs : SimS s r a) (hprocs : r.procs = procsOf s) (htrace : r.trace = s.trace)
    (hloc : amGet? p s.net.procLoc = some nd) (hn : amGet? nd s.nodes = some n)
    (hcr : n.crashed = false) (he : amGet? p n.procs = some e)
    (hpp : ∀ name, name ∈ (inEntry p i e).pending ↔ r.timerPending p name = true)
    (hpo : ∀ x ∈ s.nodes, x.2.crashed = false → ∀ pe ∈ x.2.procs, pe.1 ≠ p →
      ∀ name, name ∈ pe.2.pending ↔ r.timerPending pe.1 name = true)
    (hof : r.overrideFreeActs p (h p e.st i).2 = true) :
    ∃ n' evs tr r', n.react {} h p i = .ok (n', evs, tr) ∧ r.react h p i = some r' ∧
      (∀ m src dst o, Ev.msg m src dst o ∈ evs → src = p ∧ Action.send m dst ∈ (h p e.st i).2) ∧
      (evsKnown s evs → ∃ s' a', McSys.addEvents {} evs
          { s with nodes := amInsert natLt nd n' s.nodes, trace := s.trace ++ tr } = .ok s' ∧
        SimW' s' r' a' ∧ s'.mode = s.mode) := by
  have hnmem := amGet?_eq_some_mem hn
  have hrc : r.procCrashed p = false := by
    rw [(procCrashed_agree hs hloc hn).2, hcr]
  have hget : amGet? p r.procs = some ⟨e.st, e.outbox⟩ := by
    rw [hprocs]; exact amGet?_procsOf hs.topo hn he
  rw [McNode.react_eq h n p i e hcr he]
  simp only [reactOut]
  rcases hhd : h p e.st i with ⟨st', as⟩
  rw [hhd] at hof
  simp only
  -- the reference state after the state update
  have hr1 : ∃ r1 : RState σ, r1 = { r with procs := r.procs.map (setSt p st') } := ⟨_, rfl⟩
  obtain ⟨r1, hr1⟩ := hr1
  have hr1t : r1.timers = r.timers := by rw [hr1]
  have hpp1 : ∀ name, name ∈ ({ inEntry p i e with st := st' } : ProcEntry σ).pending ↔
      r1.timerPending p name = true := by
    intro name
    rw [timerPending_congr hr1t]
    exact hpp name
  have hrc1 : r1.procCrashed p = false := by
    rw [← hrc]; exact procCrashed_congr (by rw [hr1]) (by rw [hr1]) p
  have hof1 : r1.overrideFreeActs p as = true := by
    rw [overrideFreeActs_congr p as hr1t]; exact hof
  obtain ⟨e2, evs, tr, locs, hh, hst, hob, hact, hok, hp2, hq2, hm2⟩ :=
    handleActions_acts p as ({ inEntry p i e with st := st' } : ProcEntry σ) [] [] r1 [] hpp1 hrc1 hof1
  simp only [List.nil_append] at hh hact
  simp only [inEntry_outbox] at hob
  have hst' : e2.st = st' := hst
  rw [hh]
  simp only
  refine ⟨_, _, _, (r1.addEvs evs).1.withPT (r1.procs.map (addOutbox p locs))
    (r1.trace ++ tr ++ (r1.addEvs evs).2), rfl, ?_, hm2, ?_⟩
  · -- the reference reaction
    have hr1' : ({ r with procs := r.procs.map (fun (x : Nat × RProc σ) =>
        if x.1 = p then (x.1, { x.2 with st := st' }) else x) } : RState σ) = r1 := by
      rw [hr1]; rfl
    simp only [RState.react, hget, hrc, Bool.false_eq_true, ↓reduceIte, hhd, RState.acts, hr1',
      hact]
    rfl
  · intro hk
    -- the system after the node update
    have hsX : SimS ({ s with nodes := updNodes s nd n p e2, trace := s.trace ++ tr } : McSys σ) r1 a :=
      hs.update_node (e2 := e2) hn he rfl rfl rfl (by rw [hr1]) (by rw [hr1]) (by rw [hr1]) hr1t
    obtain ⟨s', a', hadd, hs', hnodes, hnet, hmode, htr⟩ := addEvents_refines evs hsX hok hk
    refine ⟨s', a', hadd, ⟨?_, ?_, ?_, ?_⟩, hmode⟩
    · exact hs'.transfer rfl rfl rfl rfl hs'.rep hs'.flights hs'.timers hs'.uniq hs'.tm
        hs'.clean_msg hs'.clean_timer
    · -- processes
      simp only [RState.withPT_procs]
      rw [procsOf_update hs.topo hs.sorted hn he (e2 := e2) hnodes, hr1]
      simp only [hprocs, List.map_map]
      apply List.map_congr_left
      intro x hx
      simp only [Function.comp, addOutbox, setSt]
      by_cases hxp : x.1 = p
      · have hx2 : x.2 = ⟨e.st, e.outbox⟩ := by
          have := amGet?_of_mem_nodup hs.topo.procs_nodup (k := x.1) (v := x.2) hx
          rw [hxp, ← hprocs, hget] at this
          simpa using this.symm
        simp [hxp, hx2, hst', hob]
      · simp [hxp]
    · -- trace
      simp only [RState.withPT_trace]
      rw [htr, hr1]
      simp [htrace]
    · -- pending timers
      intro x hx hxc pe hpe name
      simp only [RState.withPT_timerPending]
      rw [hnodes] at hx
      have hother : ∀ q, q ≠ p → (r1.addEvs evs).1.timerPending q name = r.timerPending q name := by
        intro q hq
        rw [hq2 q hq name, timerPending_congr hr1t]
      rcases mem_updNodes hs.sorted hx with ⟨h1, h2⟩ | ⟨h1, hx'⟩
      · rw [h2] at hpe
        simp only at hpe
        rcases mem_amInsert_sorted (hs.sorted.procs_sorted _ hnmem) hpe with ⟨hk1, hk2⟩ | ⟨hk1, hpe'⟩
        · rw [hk1, hk2]
          exact hp2 name
        · rw [hother _ hk1]
          exact hpo _ hnmem hcr pe hpe' hk1 name
      · have hne : pe.1 ≠ p := by
          intro hpe1
          apply h1
          exact proc_node_unique hs.topo hx' hnmem hpe (amGet?_eq_some_mem he) hpe1
        rw [hother _ hne]
        exact hpo x hx' hxc pe hpe hne name

end Anysystem
