import Anysystem.Proofs.R2
/-!
# Shapes of node maps and the `set_state` fold (helpers for C09)

List-level facts: the shape (node names, per node the process names) of a node map, its invariance
under in-place updates, and the two nested `amInsert` folds `set_state` performs.
-/
set_option linter.unusedSimpArgs false
namespace Anysystem

variable {σ : Type}

/-! ## sortedness only depends on the keys -/

theorem KSorted.iff_keys {β : Type} (l : List (Nat × β)) :
    KSorted l ↔ (l.map (·.1)).Pairwise (· < ·) := by
  unfold KSorted
  rw [List.pairwise_map]

theorem KSorted.of_keys_eq {β γ : Type} {l : List (Nat × β)} {m : List (Nat × γ)} (h : KSorted l)
    (hk : m.map (·.1) = l.map (·.1)) : KSorted m := by
  rw [KSorted.iff_keys] at h ⊢
  rw [hk]; exact h

/-! ## folding `amInsert` over a list with the same keys -/

theorem amGet?_none_of_not_mem_keys {β : Type} {l : List (Nat × β)} {k : Nat}
    (h : k ∉ l.map (·.1)) : amGet? k l = none := by
  cases hg : amGet? k l with
  | none => rfl
  | some v =>
    exfalso; apply h
    rw [← amGet?_isSome_iff, hg]; rfl

theorem amGet?_foldl_amInsert {β : Type} (L : List (Nat × β)) :
    ∀ (M : List (Nat × β)), (L.map (·.1)).Nodup → ∀ k,
      amGet? k (L.foldl (fun ps (x : Nat × β) => amInsert natLt x.1 x.2 ps) M) =
        (amGet? k L).or (amGet? k M) := by
  induction L with
  | nil => intro M _ k; simp [amGet?]
  | cons y ys ih =>
    intro M hnd k
    obtain ⟨a, v⟩ := y
    rw [List.map_cons, List.nodup_cons] at hnd
    simp only [List.foldl_cons]
    rw [ih _ hnd.2 k, amGet?_amInsert]
    simp only [amGet?]
    by_cases hk : k = a
    · subst hk
      simp only [↓reduceIte]
      rw [amGet?_none_of_not_mem_keys hnd.1]
      rfl
    · simp only [hk, ↓reduceIte]

theorem kSorted_foldl_amInsert {β : Type} (L : List (Nat × β)) :
    ∀ (M : List (Nat × β)), KSorted M →
      KSorted (L.foldl (fun ps (x : Nat × β) => amInsert natLt x.1 x.2 ps) M) := by
  induction L with
  | nil => intro M h; exact h
  | cons y ys ih => intro M h; exact ih _ (h.amInsert _ _)

/-- overwriting every entry of a sorted map, key by key, yields the list of the new entries -/
theorem foldl_amInsert_same_keys {β : Type} (L M : List (Nat × β)) (hM : KSorted M)
    (hk : M.map (·.1) = L.map (·.1)) :
    L.foldl (fun ps (x : Nat × β) => amInsert natLt x.1 x.2 ps) M = L := by
  have hL : KSorted L := hM.of_keys_eq hk.symm
  apply KSorted.ext _ _ (kSorted_foldl_amInsert L M hM) hL
  intro k
  rw [amGet?_foldl_amInsert L M hL.nodup k]
  cases hg : amGet? k L with
  | some v => rfl
  | none =>
    simp only [Option.or_none, Option.none_or]
    apply amGet?_none_of_not_mem_keys
    rw [hk]
    intro hmem
    rw [← amGet?_isSome_iff, hg] at hmem
    simp at hmem

/-! ## shapes -/

/-- node names and per node the process names, in order -/
def shapeOf (l : List (Nat × McNode σ)) : List (Nat × List Nat) :=
  l.map (fun nd => (nd.1, nd.2.procs.map (·.1)))

theorem shapeOf_keys (l : List (Nat × McNode σ)) : (shapeOf l).map (·.1) = l.map (·.1) := by
  simp [shapeOf, List.map_map, Function.comp]

theorem keys_eq_of_shape {l m : List (Nat × McNode σ)} (h : shapeOf l = shapeOf m) :
    l.map (·.1) = m.map (·.1) := by
  rw [← shapeOf_keys l, ← shapeOf_keys m, h]

/-- replacing a present node by one with the same process names keeps the shape -/
theorem shapeOf_amInsert {l : List (Nat × McNode σ)} (hs : KSorted l) {k : Nat} {v v' : McNode σ}
    (hg : amGet? k l = some v) (hp : v'.procs.map (·.1) = v.procs.map (·.1)) :
    shapeOf (amInsert natLt k v' l) = shapeOf l := by
  rw [amInsert_natLt_replace k v v' l hs hg]
  simp only [shapeOf, List.map_map]
  apply List.map_congr_left
  intro x hx
  simp only [Function.comp]
  by_cases hxk : x.1 = k
  · have hx2 : amGet? x.1 l = some x.2 := amGet?_of_mem_nodup hs.nodup hx
    rw [hxk, hg] at hx2
    simp only [Option.some.injEq] at hx2
    simp only [hxk, ↓reduceIte, hp, hx2]
  · simp only [hxk, ↓reduceIte]

/-- a node of one map has a partner with the same process names in a map of the same shape -/
theorem shape_partner {l m : List (Nat × McNode σ)} (h : shapeOf l = shapeOf m) (hm : KSorted m)
    {x : Nat × McNode σ} (hx : x ∈ l) :
    ∃ cur, amGet? x.1 m = some cur ∧ cur.procs.map (·.1) = x.2.procs.map (·.1) := by
  have h1 : (x.1, x.2.procs.map (·.1)) ∈ shapeOf l := by
    simp only [shapeOf, List.mem_map]
    exact ⟨x, hx, rfl⟩
  rw [h] at h1
  simp only [shapeOf, List.mem_map, Prod.mk.injEq] at h1
  obtain ⟨y, hy, hy1, hy2⟩ := h1
  refine ⟨y.2, ?_, hy2⟩
  rw [← hy1]
  exact amGet?_of_mem_nodup hm.nodup hy

/-! ## the `set_state` fold -/

/-- the step of the outer fold of `set_state` -/
def restoreStep (ns : List (Nat × McNode σ)) (x : Nat × McNode σ) : List (Nat × McNode σ) :=
  match amGet? x.1 ns with
  | none => ns
  | some cur =>
    let procs := x.2.procs.foldl (fun ps (y : Nat × ProcEntry σ) => amInsert natLt y.1 y.2 ps) cur.procs
    amInsert natLt x.1 { procs, crashed := x.2.crashed } ns

theorem restoreStep_eq {ns : List (Nat × McNode σ)} {x : Nat × McNode σ} {cur : McNode σ}
    (hg : amGet? x.1 ns = some cur) (hc : KSorted cur.procs)
    (hk : cur.procs.map (·.1) = x.2.procs.map (·.1)) :
    restoreStep ns x = amInsert natLt x.1 x.2 ns := by
  simp only [restoreStep, hg]
  rw [foldl_amInsert_same_keys x.2.procs cur.procs hc hk]

theorem foldl_restoreStep (L : List (Nat × McNode σ)) :
    ∀ (ns : List (Nat × McNode σ)), KSorted L →
      (∀ x ∈ L, ∃ cur, amGet? x.1 ns = some cur ∧ KSorted cur.procs ∧
        cur.procs.map (·.1) = x.2.procs.map (·.1)) →
      L.foldl restoreStep ns = L.foldl (fun ps (x : Nat × McNode σ) => amInsert natLt x.1 x.2 ps) ns := by
  induction L with
  | nil => intro ns _ _; rfl
  | cons y ys ih =>
    intro ns hL hinv
    unfold KSorted at hL
    rw [List.pairwise_cons] at hL
    obtain ⟨cur, hg, hc, hk⟩ := hinv y List.mem_cons_self
    simp only [List.foldl_cons]
    rw [restoreStep_eq hg hc hk]
    apply ih _ hL.2
    intro x hx
    obtain ⟨cur', hg', hc', hk'⟩ := hinv x (List.mem_cons_of_mem _ hx)
    refine ⟨cur', ?_, hc', hk'⟩
    rw [amGet?_amInsert]
    have hlt := hL.1 x hx
    have hne : ¬ x.1 = y.1 := by omega
    simp only [hne, ↓reduceIte, hg']

/-- restoring the saved node map `L` into a node map `M` of the same shape yields `L` -/
theorem foldl_restoreStep_shape (L M : List (Nat × McNode σ)) (hL : KSorted L)
    (hLp : ∀ x ∈ L, KSorted x.2.procs) (hsh : shapeOf L = shapeOf M) :
    L.foldl restoreStep M = L := by
  have hkeys := keys_eq_of_shape hsh
  have hM : KSorted M := hL.of_keys_eq hkeys.symm
  rw [foldl_restoreStep L M hL]
  · exact foldl_amInsert_same_keys L M hM hkeys.symm
  · intro x hx
    obtain ⟨cur, hg, hk⟩ := shape_partner hsh hM hx
    exact ⟨cur, hg, (hLp x hx).of_keys_eq hk, hk⟩

end Anysystem
