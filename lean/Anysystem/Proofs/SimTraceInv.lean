import Anysystem.Proofs.SimLogInv
import Anysystem.Proofs.SimStepThms
import Anysystem.Spec.TimeLaws
import Anysystem.Proofs.SimTraceLemmas
/-!
# C17 — the global trace: message identifiers, network counters and single fate (whole-run invariant)

`TraceInv s`:
* the identifiers of the `MessageSent` entries of the global trace are `0, 1, 2, …` in order, as many as the
  network's message counter says (so identifiers are unique and every send is logged exactly once);
* `network_message_count` is the number of inter-node sends in the trace and `traffic` their total size;
* every identifier mentioned by a queued copy, a `MessageReceived` or a `MessageDropped` entry was issued;
* **single fate**: for every message identifier the number of recorded fates (received + dropped entries) plus
  the number of live queued copies is at most the number of copies the network may emit for one send (3), and
  at most 1 for a message that was sent while the duplication rate was zero — tracked by the ghost set
  `dup` of identifiers sent with a positive duplication rate.
The invariant holds initially and is preserved by every `System` operation of the model.

Proof architecture (as in `SimLogInv.lean`): `TraceInv.of_load` (the invariant is inherited by any state with the same
sends in the trace, the same counters and pointwise no more fates plus live copies), the order `TraceLe` that packages its
hypotheses for the bookkeeping primitives (`updProc`, `setNode`, `log` of a neutral entry, `cancelEvent`, timer
`addEvent`, `nextEvent`, pop-and-log-a-fate), `TraceInv.send_shape` for the three shapes of a send, and `Next` for handler
runs (`handleActions_next`, `runHandler_next`, `onMessage_next`, `onTimer_next`, `onLocal_next`, `deliver_next`,
`step_next`, `steps_next`), which also carries "the duplication rate is untouched" and "draws are only dropped from the
front".  The counting arguments never use the uniqueness of queue ids (`nextEvent` removes *all* events with the popped
id, so a cancelled id can never come back to life); `qids` is carried along as stated.
-/
namespace Anysystem

set_option linter.unusedSectionVars false

variable {σ T : Type} [TimeOps T]

def SLog.sentId : SLog T → Option Nat
  | .sent _ mid _ _ _ _ _ => some mid
  | _ => none

def SLog.isInterSent : SLog T → Bool
  | .sent _ _ sn _ dn _ _ => sn != dn
  | _ => false

def SLog.interSize : SLog T → Nat
  | .sent _ _ sn _ dn _ m => if sn != dn then Sim.msgSize m (Sim.nameLen m.tip) else 0
  | _ => 0

def SLog.fateOf : SLog T → Option Nat
  | .recv _ mid _ _ _ _ _ => some mid
  | .dropped _ mid _ _ _ _ _ => some mid
  | _ => none

def QData.mid? : QData → Option Nat
  | .msg mid _ _ _ _ _ => some mid
  | .timer _ _ => none

namespace Sim

/-- recorded fates of message `mid` -/
def fates (s : Sim σ T) (mid : Nat) : Nat := (s.trace.filter (fun x => x.fateOf == some mid)).length

/-- live queued copies of message `mid` -/
def queuedCopies (s : Sim σ T) (mid : Nat) : Nat :=
  (s.events.filter (fun e => !s.canceled.contains e.id && e.data.mid? == some mid)).length

structure TraceInv (s : Sim σ T) (dup : List Nat) : Prop where
  ids : s.trace.filterMap SLog.sentId = List.range s.net.messageCount
  netCount : s.net.networkMessageCount = (s.trace.filter SLog.isInterSent).length
  traffic : s.net.traffic = (s.trace.map SLog.interSize).sum
  issued : ∀ mid, 0 < s.fates mid + s.queuedCopies mid → mid < s.net.messageCount
  fateOnce : ∀ mid, mid ∉ dup → s.fates mid + s.queuedCopies mid ≤ 1
  fateBound : ∀ mid, s.fates mid + s.queuedCopies mid ≤ 3
  /-- queue well-formedness needed to carry the counting argument: event ids are unique and below the counter -/
  qids : (s.events.map (·.id)).Nodup ∧ ∀ e ∈ s.events, e.id < s.eventCount

/-! ### helper lemmas: trace entries -/

theorem _root_.Anysystem.SLog.not_sent (x : SLog T) (h : x.sentId = none) : x.isInterSent = false ∧ x.interSize = 0 := by
  cases x <;> simp_all [SLog.sentId, SLog.isInterSent, SLog.interSize]

theorem sum_interSize_nonsent (extra : List (SLog T)) (hex : ∀ x ∈ extra, x.sentId = none) :
    (extra.map SLog.interSize).sum = 0 := by
  induction extra with
  | nil => rfl
  | cons x xs ih =>
    simp only [List.map_cons, List.sum_cons, (SLog.not_sent x (hex x List.mem_cons_self)).2, Nat.zero_add]
    exact ih (fun y hy => hex y (List.mem_cons_of_mem _ hy))

/-- appending entries that are not sends changes none of the three send-related readings of the trace -/
theorem trace_append_nonsent (tr extra : List (SLog T)) (hex : ∀ x ∈ extra, x.sentId = none) :
    (tr ++ extra).filterMap SLog.sentId = tr.filterMap SLog.sentId ∧
    ((tr ++ extra).filter SLog.isInterSent).length = (tr.filter SLog.isInterSent).length ∧
    ((tr ++ extra).map SLog.interSize).sum = (tr.map SLog.interSize).sum := by
  have h1 : extra.filterMap SLog.sentId = [] := List.filterMap_eq_nil_iff.2 hex
  have h2 : extra.filter SLog.isInterSent = [] :=
    List.filter_eq_nil_iff.2 (fun x hx => by simp [(SLog.not_sent x (hex x hx)).1])
  have h3 := sum_interSize_nonsent extra hex
  refine ⟨?_, ?_, ?_⟩
  · rw [List.filterMap_append, h1, List.append_nil]
  · rw [List.filter_append, h2, List.append_nil]
  · rw [List.map_append, List.sum_append, h3, Nat.add_zero]

theorem fates_of_trace {s s' : Sim σ T} (extra : List (SLog T)) (htr : s'.trace = s.trace ++ extra) (mid : Nat) :
    s'.fates mid = s.fates mid + (extra.filter (fun x => x.fateOf == some mid)).length := by
  unfold fates
  rw [htr, List.filter_append, List.length_append]

theorem fates_of_trace_nonfate {s s' : Sim σ T} (extra : List (SLog T)) (htr : s'.trace = s.trace ++ extra)
    (hex : ∀ x ∈ extra, x.fateOf = none) (mid : Nat) : s'.fates mid = s.fates mid := by
  rw [fates_of_trace extra htr]
  have : extra.filter (fun x => x.fateOf == some mid) = [] :=
    List.filter_eq_nil_iff.2 (fun x hx => by simp [hex x hx])
  rw [this]; rfl

/-- the live copies of `mid`, counted over the live events -/
theorem queuedCopies_eq_live (s : Sim σ T) (mid : Nat) :
    s.queuedCopies mid = ((liveOf s).filter (fun e => e.data.mid? == some mid)).length := by
  unfold queuedCopies liveOf
  rw [List.filter_filter]
  congr 1
  apply List.filter_congr
  intro x _
  exact Bool.and_comm _ _

theorem queuedCopies_of_eq {s s' : Sim σ T} (hev : s'.events = s.events) (hc : s'.canceled = s.canceled) (mid : Nat) :
    s'.queuedCopies mid = s.queuedCopies mid := by
  unfold queuedCopies; rw [hev, hc]

/-! ### the core preservation lemma and the step-internal order `TraceLe` -/

/-- the invariant is inherited by any state with the same send-related readings of the trace, the same counters,
    a well-formed queue and, for every message, no more fates plus live copies than before -/
theorem TraceInv.of_load {s s' : Sim σ T} {dup : List Nat} (hi : s.TraceInv dup)
    (hids : s'.trace.filterMap SLog.sentId = s.trace.filterMap SLog.sentId)
    (hinter : (s'.trace.filter SLog.isInterSent).length = (s.trace.filter SLog.isInterSent).length)
    (hsize : (s'.trace.map SLog.interSize).sum = (s.trace.map SLog.interSize).sum)
    (hm : s'.net.messageCount = s.net.messageCount) (hn : s'.net.networkMessageCount = s.net.networkMessageCount)
    (ht : s'.net.traffic = s.net.traffic)
    (hload : ∀ mid, s'.fates mid + s'.queuedCopies mid ≤ s.fates mid + s.queuedCopies mid)
    (hq : (s'.events.map (·.id)).Nodup ∧ ∀ e ∈ s'.events, e.id < s'.eventCount) : s'.TraceInv dup where
  ids := by rw [hids, hm]; exact hi.ids
  netCount := by rw [hn, hinter]; exact hi.netCount
  traffic := by rw [ht, hsize]; exact hi.traffic
  issued := fun mid h => by rw [hm]; exact hi.issued mid (Nat.lt_of_lt_of_le h (hload mid))
  fateOnce := fun mid h => Nat.le_trans (hload mid) (hi.fateOnce mid h)
  fateBound := fun mid => Nat.le_trans (hload mid) (hi.fateBound mid)
  qids := hq

/-- `s'` arises from `s` by bookkeeping that sends nothing, keeps the network record, consumes draws only from the
    front and gives no message more fates plus live copies than it had -/
structure TraceLe (s s' : Sim σ T) : Prop where
  ids : s'.trace.filterMap SLog.sentId = s.trace.filterMap SLog.sentId
  inter : (s'.trace.filter SLog.isInterSent).length = (s.trace.filter SLog.isInterSent).length
  size : (s'.trace.map SLog.interSize).sum = (s.trace.map SLog.interSize).sum
  net : s'.net = s.net
  load : ∀ mid, s'.fates mid + s'.queuedCopies mid ≤ s.fates mid + s.queuedCopies mid
  qids : s.QueueWF → s'.QueueWF
  draws : ∀ d ∈ s'.draws, d ∈ s.draws

theorem TraceInv.of_le {s s' : Sim σ T} {dup : List Nat} (hi : s.TraceInv dup) (h : TraceLe s s') : s'.TraceInv dup :=
  hi.of_load h.ids h.inter h.size (by rw [h.net]) (by rw [h.net]) (by rw [h.net]) h.load (h.qids hi.qids)

theorem TraceLe.refl (s : Sim σ T) : TraceLe s s :=
  ⟨rfl, rfl, rfl, rfl, fun _ => Nat.le_refl _, id, fun _ h => h⟩

theorem TraceLe.trans {s s1 s2 : Sim σ T} (h1 : TraceLe s s1) (h2 : TraceLe s1 s2) : TraceLe s s2 :=
  ⟨h2.ids.trans h1.ids, h2.inter.trans h1.inter, h2.size.trans h1.size, h2.net.trans h1.net,
   fun mid => Nat.le_trans (h2.load mid) (h1.load mid), fun h => h2.qids (h1.qids h),
   fun d hd => h1.draws d (h2.draws d hd)⟩

/-- generic constructor: the trace grows by entries that are neither sends nor fates, the live copies do not grow -/
theorem TraceLe.of_queue {s s' : Sim σ T} (extra : List (SLog T)) (htr : s'.trace = s.trace ++ extra)
    (hex : ∀ x ∈ extra, x.sentId = none ∧ x.fateOf = none) (hnet : s'.net = s.net)
    (hdr : ∀ d ∈ s'.draws, d ∈ s.draws) (hqc : ∀ mid, s'.queuedCopies mid ≤ s.queuedCopies mid)
    (hq : s.QueueWF → s'.QueueWF) : TraceLe s s' := by
  obtain ⟨h1, h2, h3⟩ := trace_append_nonsent s.trace extra (fun x hx => (hex x hx).1)
  refine ⟨by rw [htr, h1], by rw [htr, h2], by rw [htr, h3], hnet, ?_, hq, hdr⟩
  intro mid
  rw [fates_of_trace_nonfate extra htr (fun x hx => (hex x hx).2)]
  exact Nat.add_le_add_left (hqc mid) _

/-- trace, queue, cancellation set, counters untouched -/
theorem TraceLe.same {s s' : Sim σ T} (htr : s'.trace = s.trace) (hev : s'.events = s.events)
    (hc : s'.canceled = s.canceled) (hec : s'.eventCount = s.eventCount) (hnet : s'.net = s.net)
    (hdr : ∀ d ∈ s'.draws, d ∈ s.draws) : TraceLe s s' := by
  refine TraceLe.of_queue [] (by rw [htr, List.append_nil]) (by simp) hnet hdr
    (fun mid => Nat.le_of_eq (queuedCopies_of_eq hev hc mid)) ?_
  unfold QueueWF
  rw [hev, hec]
  exact id

theorem TraceLe.updProc (s : Sim σ T) (n p : Nat) (f : SProc σ T → SProc σ T) : TraceLe s (s.updProc n p f) :=
  TraceLe.same (by simp) (by simp) (by simp) (by simp) (by simp) (by simp)

theorem TraceLe.setNode (s : Sim σ T) (n : Nat) (nd : SNode σ T) : TraceLe s (s.setNode n nd) :=
  TraceLe.same rfl rfl rfl rfl rfl (fun _ h => h)

theorem TraceLe.dropDraws (s : Sim σ T) (k : Nat) : TraceLe s { s with draws := s.draws.drop k } :=
  TraceLe.same rfl rfl rfl rfl rfl (fun _ h => List.mem_of_mem_drop h)

theorem TraceLe.log (s : Sim σ T) (x : SLog T) (hx : x.sentId = none ∧ x.fateOf = none) : TraceLe s (s.log x) :=
  TraceLe.of_queue [x] rfl (by simpa using hx) rfl (fun _ h => h)
    (fun mid => Nat.le_of_eq (queuedCopies_of_eq rfl rfl mid)) id

/-- cancelling can only remove live copies -/
theorem TraceLe.cancelEvent (s : Sim σ T) (id : Nat) : TraceLe s (s.cancelEvent id) := by
  refine TraceLe.of_queue [] (by simp [Sim.cancelEvent]) (by simp) rfl (fun _ h => h) ?_ (fun h => h)
  intro mid
  unfold queuedCopies
  apply length_filter_le_of_imp
  intro x _ hx
  simp only [Sim.cancelEvent, Bool.and_eq_true, Bool.not_eq_true', List.contains_eq_mem, decide_eq_false_iff_not,
    mem_setInsert, not_or] at hx ⊢
  exact ⟨hx.1.2, hx.2⟩

/-- a queued timer is not a message copy -/
theorem TraceLe.addTimer (s : Sim σ T) (p name src dst : Nat) (d : T) :
    TraceLe s (s.addEvent (.timer p name) src dst d).1 := by
  refine TraceLe.of_queue [] (by simp [Sim.addEvent]) (by simp) rfl (fun _ h => h) ?_ ?_
  · intro mid
    unfold queuedCopies
    simp [Sim.addEvent, List.filter_append, QData.mid?]
  · intro hwf
    exact hwf.append [⟨s.eventCount, TimeOps.add s.clock d, src, dst, .timer p name⟩] 1 rfl (by simp) rfl

theorem TraceLe.then_updProc {s s1 : Sim σ T} (h : TraceLe s s1) (n p : Nat) (f : SProc σ T → SProc σ T) :
    TraceLe s (s1.updProc n p f) := h.trans (TraceLe.updProc s1 n p f)
theorem TraceLe.then_setNode {s s1 : Sim σ T} (h : TraceLe s s1) (n : Nat) (nd : SNode σ T) :
    TraceLe s (s1.setNode n nd) := h.trans (TraceLe.setNode s1 n nd)
theorem TraceLe.then_log {s s1 : Sim σ T} (h : TraceLe s s1) (x : SLog T) (hx : x.sentId = none ∧ x.fateOf = none) :
    TraceLe s (s1.log x) := h.trans (TraceLe.log s1 x hx)
theorem TraceLe.then_cancelEvent {s s1 : Sim σ T} (h : TraceLe s s1) (id : Nat) :
    TraceLe s (s1.cancelEvent id) := h.trans (TraceLe.cancelEvent s1 id)
theorem TraceLe.then_addTimer {s s1 : Sim σ T} (h : TraceLe s s1) (p name src dst : Nat) (d : T) :
    TraceLe s (s1.addEvent (.timer p name) src dst d).1 := h.trans (TraceLe.addTimer s1 p name src dst d)

/-! ### the statements: `frame`, `init`, `mono`, `sent_ids_nodup` -/

/-- a change that leaves queue, counters and message counters alone and appends trace entries that are neither sends nor
    fates (all link controls, rate and delay settings, `netReset`, node (dis)connection) keeps the invariant -/
theorem TraceInv.frame {s s' : Sim σ T} {dup : List Nat} (hi : s.TraceInv dup) (extra : List (SLog T))
    (htr : s'.trace = s.trace ++ extra) (hex : ∀ x ∈ extra, x.sentId = none ∧ x.fateOf = none)
    (hev : s'.events = s.events) (hc : s'.canceled = s.canceled) (hec : s'.eventCount = s.eventCount)
    (hm : s'.net.messageCount = s.net.messageCount) (hn : s'.net.networkMessageCount = s.net.networkMessageCount)
    (ht : s'.net.traffic = s.net.traffic) : s'.TraceInv dup := by
  obtain ⟨h1, h2, h3⟩ := trace_append_nonsent s.trace extra (fun x hx => (hex x hx).1)
  refine hi.of_load (by rw [htr, h1]) (by rw [htr, h2]) (by rw [htr, h3]) hm hn ht ?_ ?_
  · intro mid
    rw [fates_of_trace_nonfate extra htr (fun x hx => (hex x hx).2), queuedCopies_of_eq hev hc]
    exact Nat.le_refl _
  · rw [hev, hec]; exact hi.qids

/-- identifiers are unique (corollary of `ids`) -/
theorem TraceInv.sent_ids_nodup {s : Sim σ T} {dup : List Nat} (h : s.TraceInv dup) :
    (s.trace.filterMap SLog.sentId).Nodup := by
  rw [h.ids]; exact List.nodup_range

/-- the invariant holds in any state with an empty trace, an empty queue and zeroed message counters -/
theorem TraceInv.of_empty (s : Sim σ T) (htr : s.trace = []) (hev : s.events = [])
    (hn : s.net.messageCount = 0 ∧ s.net.networkMessageCount = 0 ∧ s.net.traffic = 0) : s.TraceInv [] where
  ids := by rw [htr, hn.1]; rfl
  netCount := by rw [htr, hn.2.1]; rfl
  traffic := by rw [htr, hn.2.2]; rfl
  issued := by intro mid h; simp [fates, queuedCopies, htr, hev] at h
  fateOnce := by intro mid _; simp [fates, queuedCopies, htr, hev]
  fateBound := by intro mid; simp [fates, queuedCopies, htr, hev]
  qids := by simp [hev]

/-- the invariant holds for a fresh simulator -/
theorem TraceInv.init (clock : T) (net : SimNet T) (draws : List T)
    (hn : net.messageCount = 0 ∧ net.networkMessageCount = 0 ∧ net.traffic = 0) :
    ({ clock := clock, net := net, draws := draws } : Sim σ T).TraceInv [] :=
  TraceInv.of_empty _ rfl rfl hn

/-- monotone in the ghost set -/
theorem TraceInv.mono {s : Sim σ T} {dup dup' : List Nat} (h : s.TraceInv dup) (hsub : ∀ x ∈ dup, x ∈ dup') :
    s.TraceInv dup' :=
  { h with fateOnce := fun mid hm => h.fateOnce mid (fun hin => hm (hsub mid hin)) }

/-! ### `sendMessage` -/

theorem _root_.Anysystem.SLog.fateOf_of_sent (x : SLog T) (mid : Nat) (h : x.sentId = some mid) : x.fateOf = none := by
  cases x <;> simp_all [SLog.sentId, SLog.fateOf]

/-- the next identifier has neither a fate nor a live copy yet -/
theorem TraceInv.load_new {s : Sim σ T} {dup : List Nat} (hi : s.TraceInv dup) :
    s.fates s.net.messageCount + s.queuedCopies s.net.messageCount = 0 := by
  cases h : s.fates s.net.messageCount + s.queuedCopies s.net.messageCount with
  | zero => rfl
  | succ k => exact absurd (hi.issued _ (by omega)) (Nat.lt_irrefl _)

theorem queuedCopies_append_le {s s' : Sim σ T} (new : List (QEv T)) (hev : s'.events = s.events ++ new)
    (hc : s'.canceled = s.canceled) (mid : Nat) :
    s'.queuedCopies mid ≤ s.queuedCopies mid + (new.filter (fun e => e.data.mid? == some mid)).length := by
  unfold queuedCopies
  rw [hev, hc, List.filter_append, List.length_append]
  apply Nat.add_le_add_left
  apply length_filter_le_of_imp
  intro x _ hx
  rw [Bool.and_eq_true] at hx
  exact hx.2

/-- core of a send: the new identifier gets at most `c` fates plus copies, nothing else gains any -/
theorem TraceInv.send_core {s s' : Sim σ T} {dup : List Nat} (hi : s.TraceInv dup) (c : Nat)
    (hids : s'.trace.filterMap SLog.sentId = s.trace.filterMap SLog.sentId ++ [s.net.messageCount])
    (hm : s'.net.messageCount = s.net.messageCount + 1)
    (hn : s'.net.networkMessageCount = (s'.trace.filter SLog.isInterSent).length)
    (ht : s'.net.traffic = (s'.trace.map SLog.interSize).sum)
    (hnew : s'.fates s.net.messageCount + s'.queuedCopies s.net.messageCount ≤ c)
    (hold : ∀ mid, mid ≠ s.net.messageCount → s'.fates mid + s'.queuedCopies mid ≤ s.fates mid + s.queuedCopies mid)
    (hq : s'.QueueWF) (hc3 : c ≤ 3) :
    s'.TraceInv (s.net.messageCount :: dup) ∧ (c ≤ 1 → s'.TraceInv dup) := by
  have base : ∀ dup' : List Nat, (∀ x ∈ dup, x ∈ dup') → (s.net.messageCount ∈ dup' ∨ c ≤ 1) → s'.TraceInv dup' := by
    intro dup' hsub hor
    refine ⟨by rw [hids, hm, hi.ids, List.range_succ], hn, ht, ?_, ?_, ?_, hq⟩
    · intro mid hpos
      rw [hm]
      by_cases hmid : mid = s.net.messageCount
      · omega
      · have := hi.issued mid (Nat.lt_of_lt_of_le hpos (hold mid hmid)); omega
    · intro mid hnot
      by_cases hmid : mid = s.net.messageCount
      · subst hmid
        rcases hor with h | h
        · exact absurd h hnot
        · omega
      · exact Nat.le_trans (hold mid hmid) (hi.fateOnce mid (fun hin => hnot (hsub mid hin)))
    · intro mid
      by_cases hmid : mid = s.net.messageCount
      · subst hmid; omega
      · exact Nat.le_trans (hold mid hmid) (hi.fateBound mid)
  exact ⟨base _ (fun x hx => List.mem_cons_of_mem _ hx) (.inl List.mem_cons_self),
    fun h => base dup (fun _ h => h) (.inr h)⟩

/-- shape of a send: one `sent` entry with the next identifier, then entries that are at most fates of that identifier,
    and `k` new events with consecutive ids, all copies of that identifier -/
theorem TraceInv.send_shape {s s' : Sim σ T} {dup : List Nat} (hi : s.TraceInv dup) (x : SLog T) (rest : List (SLog T))
    (new : List (QEv T)) (k : Nat)
    (htr : s'.trace = s.trace ++ x :: rest) (hx : x.sentId = some s.net.messageCount)
    (hrest : ∀ y ∈ rest, y.sentId = none ∧ (y.fateOf = none ∨ y.fateOf = some s.net.messageCount))
    (hev : s'.events = s.events ++ new) (hc : s'.canceled = s.canceled)
    (hnew : ∀ e ∈ new, e.data.mid? = some s.net.messageCount)
    (hidsnew : new.map (·.id) = (List.range k).map (s.eventCount + ·)) (hec : s'.eventCount = s.eventCount + k)
    (hm : s'.net.messageCount = s.net.messageCount + 1)
    (hn : s'.net.networkMessageCount = s.net.networkMessageCount + (if x.isInterSent = true then 1 else 0))
    (ht : s'.net.traffic = s.net.traffic + x.interSize)
    (hc3 : rest.length + new.length ≤ 3) :
    s'.TraceInv (s.net.messageCount :: dup) ∧ (rest.length + new.length ≤ 1 → s'.TraceInv dup) := by
  have hrs : ∀ y ∈ rest, y.sentId = none := fun y hy => (hrest y hy).1
  obtain ⟨r1, r2, r3⟩ := trace_append_nonsent (s.trace ++ [x]) rest hrs
  have htr' : s'.trace = (s.trace ++ [x]) ++ rest := by rw [htr]; simp
  have hxf := SLog.fateOf_of_sent x _ hx
  have hf : ∀ mid, s'.fates mid = s.fates mid + (rest.filter (fun y => y.fateOf == some mid)).length := by
    intro mid
    rw [fates_of_trace (x :: rest) htr]
    simp [hxf]
  refine hi.send_core (rest.length + new.length) ?_ hm ?_ ?_ ?_ ?_ ?_ hc3
  · rw [htr', r1, List.filterMap_append]
    simp [hx]
  · rw [hn, htr', r2, List.filter_append, List.length_append, hi.netCount]
    cases hxi : x.isInterSent <;> simp [hxi]
  · rw [ht, htr', r3, List.map_append, List.sum_append, hi.traffic]
    simp
  · have h0 := hi.load_new
    have h1 := hf s.net.messageCount
    have h2 := queuedCopies_append_le new hev hc s.net.messageCount
    have h3 := List.length_filter_le (fun y : SLog T => y.fateOf == some s.net.messageCount) rest
    have h4 := List.length_filter_le (fun e : QEv T => e.data.mid? == some s.net.messageCount) new
    omega
  · intro mid hmid
    have h1 := hf mid
    have h2 := queuedCopies_append_le new hev hc mid
    have h3 : rest.filter (fun y => y.fateOf == some mid) = [] := by
      apply List.filter_eq_nil_iff.2
      intro y hy
      rcases (hrest y hy).2 with h | h <;> simp [h, Ne.symm hmid]
    have h4 : new.filter (fun e => e.data.mid? == some mid) = [] := by
      apply List.filter_eq_nil_iff.2
      intro e he
      simp [hnew e he, Ne.symm hmid]
    rw [h3] at h1
    rw [h4] at h2
    simp only [List.length_nil, Nat.add_zero] at h1 h2
    omega
  · exact QueueWF.append (s := s) (s' := s') hi.qids new k hev hidsnew hec

/-- `send_message`, with the rates and the draw stream -/
theorem TraceInv.sendMessage_full [LawfulTime T] {s s' : Sim σ T} {dup : List Nat} (m : Msg) (src dst : Nat)
    (hi : s.TraceInv dup) (hd : ∀ d ∈ s.draws, LawfulTime.isDraw d) (hzero : LawfulTime.isDraw (TimeOps.zero : T))
    (hok : s.sendMessage m src dst (nameLen m.tip) = .ok s') :
    s'.TraceInv (if TimeOps.lt TimeOps.zero s.net.duplRate then s.net.messageCount :: dup else dup) ∧
    s'.net.duplRate = s.net.duplRate ∧ ∀ d ∈ s'.draws, d ∈ s.draws := by
  obtain ⟨sn, dn, hs, hdl⟩ := sendMessage_ok_loc hok
  -- it suffices to exhibit the shape with at most 3 (at most 1 without duplication) fates plus copies
  have fin : ∀ c : Nat, (s'.TraceInv (s.net.messageCount :: dup) ∧ (c ≤ 1 → s'.TraceInv dup)) →
      (TimeOps.lt TimeOps.zero s.net.duplRate = false → c ≤ 1) →
      s'.TraceInv (if TimeOps.lt TimeOps.zero s.net.duplRate then s.net.messageCount :: dup else dup) := by
    intro c hc h1
    cases hz : TimeOps.lt TimeOps.zero s.net.duplRate with
    | true => simpa using hc.1
    | false => simpa using hc.2 (h1 hz)
  by_cases hne : sn = dn
  · subst hne
    rw [sendMessage_same s m src dst sn _ hs hdl] at hok
    cases hok
    refine ⟨?_, rfl, fun _ h => h⟩
    refine fin _ (hi.send_shape (.sent s.clock s.net.messageCount sn src sn dst m) []
      [⟨s.eventCount, TimeOps.add s.clock TimeOps.zero, sn, sn, .msg s.net.messageCount m src sn dst sn⟩] 1
      rfl rfl (by simp) rfl rfl (by simp [QData.mid?]) (by simp) rfl rfl (by simp [SLog.isInterSent])
      (by simp [SLog.interSize]) (by simp)) (fun _ => by simp)
  · rw [sendMessage_cross s m src dst sn dn _ hs hdl hne] at hok
    have hs' := (Except.ok.inj hok).symm
    clear hok
    have hbne : (sn != dn) = true := by simpa using hne
    cases hdr : s.sendDropped sn dn with
    | true =>
      rw [cross_dropped _ _ _ _ _ _ _ hdr] at hs'
      subst hs'
      refine ⟨?_, rfl, fun _ h => List.mem_of_mem_drop h⟩
      refine fin _ (hi.send_shape (.sent s.clock s.net.messageCount sn src dn dst m)
        [.dropped s.clock s.net.messageCount sn src dn dst m] [] 0
        rfl rfl (by simp [SLog.sentId, SLog.fateOf]) (by simp) rfl (by simp) (by simp) rfl rfl
        (by simp [SLog.isInterSent, hbne, crossNet]) (by simp [SLog.interSize, hbne, crossNet]) (by simp))
        (fun _ => by simp)
    | false =>
      rw [cross_passed _ _ _ _ _ _ _ hdr] at hs'
      subst hs'
      have hcnt := sendCount_bounds' s hd hzero
      refine ⟨?_, rfl, fun _ h => List.mem_of_mem_drop h⟩
      refine fin _ (hi.send_shape (.sent s.clock s.net.messageCount sn src dn dst m) []
        ((List.range s.sendCount).map
          (copyEv s (.msg s.net.messageCount (s.sendPayload m) src sn dst dn) sn dn s.sendBase)) s.sendCount
        rfl rfl (by simp) rfl rfl ?_ ?_ rfl rfl
        (by simp [SLog.isInterSent, hbne, crossNet]) (by simp [SLog.interSize, hbne, crossNet])
        (by simpa using hcnt.2)) ?_
      · intro e he
        obtain ⟨i, _, rfl⟩ := List.mem_map.1 he
        rfl
      · rw [List.map_map]
        rfl
      · intro hz
        have := sendCount_no_dupl s hd hzero hz
        simp [this]

/-- one `send_message`: the new identifier joins `dup` exactly when the duplication rate is positive -/
theorem TraceInv.sendMessage [LawfulTime T] {s s' : Sim σ T} {dup : List Nat} (m : Msg) (src dst : Nat)
    (hi : s.TraceInv dup) (hd : ∀ d ∈ s.draws, LawfulTime.isDraw d) (hzero : LawfulTime.isDraw (TimeOps.zero : T))
    (hok : s.sendMessage m src dst (nameLen m.tip) = .ok s') :
    s'.TraceInv (if TimeOps.lt TimeOps.zero s.net.duplRate then s.net.messageCount :: dup else dup) :=
  (hi.sendMessage_full m src dst hd hzero hok).1

/-! ### handler runs: `handleActions`, `runHandler`, `onMessage`, `onTimer`, `onLocal`, `deliver` -/

/-- what a handler run (or a whole step) establishes from a state `s` that satisfies the invariant for `dup`: the
    invariant for a ghost set that grows only if the duplication rate is positive; the rate itself is untouched and
    draws are only consumed from the front -/
def Next (s : Sim σ T) (dup : List Nat) (s' : Sim σ T) : Prop :=
  ∃ dup', s'.TraceInv dup' ∧ (∀ x ∈ dup, x ∈ dup') ∧
    (TimeOps.lt TimeOps.zero s.net.duplRate = false → dup' = dup) ∧
    s'.net.duplRate = s.net.duplRate ∧ ∀ d ∈ s'.draws, d ∈ s.draws

theorem Next.refl {s : Sim σ T} {dup : List Nat} (hi : s.TraceInv dup) : Next s dup s :=
  ⟨dup, hi, fun _ h => h, fun _ => rfl, rfl, fun _ h => h⟩

theorem Next.trans {s s1 s2 : Sim σ T} {dup : List Nat} (h1 : Next s dup s1)
    (h2 : ∀ dup1, s1.TraceInv dup1 → (∀ d ∈ s1.draws, d ∈ s.draws) → Next s1 dup1 s2) : Next s dup s2 := by
  obtain ⟨dup1, hi1, hsub1, hz1, hr1, hd1⟩ := h1
  obtain ⟨dup2, hi2, hsub2, hz2, hr2, hd2⟩ := h2 dup1 hi1 hd1
  refine ⟨dup2, hi2, fun x hx => hsub2 x (hsub1 x hx), ?_, hr2.trans hr1, fun d hd => hd1 d (hd2 d hd)⟩
  intro hz
  rw [hz2 (by rw [hr1]; exact hz), hz1 hz]

/-- bookkeeping first, then the rest -/
theorem Next.of_le {s s1 s' : Sim σ T} {dup : List Nat} (hi : s.TraceInv dup) (hle : TraceLe s s1)
    (h : s1.TraceInv dup → (∀ d ∈ s1.draws, d ∈ s.draws) → Next s1 dup s') : Next s dup s' := by
  obtain ⟨dup2, hi2, hsub2, hz2, hr2, hd2⟩ := h (hi.of_le hle) hle.draws
  exact ⟨dup2, hi2, hsub2, fun hz => hz2 (by rw [hle.net]; exact hz), by rw [hr2, hle.net],
    fun d hd => hle.draws d (hd2 d hd)⟩

/-- bookkeeping last -/
theorem Next.then_le {s s1 s' : Sim σ T} {dup : List Nat} (h : Next s dup s1) (hle : TraceLe s1 s') : Next s dup s' := by
  obtain ⟨dup1, hi1, hsub1, hz1, hr1, hd1⟩ := h
  exact ⟨dup1, hi1.of_le hle, hsub1, hz1, by rw [hle.net]; exact hr1, fun d hd => hd1 d (hle.draws d hd)⟩

/-- `handle_process_actions` keeps the invariant -/
theorem handleActions_next [LawfulTime T] (hzero : LawfulTime.isDraw (TimeOps.zero : T)) (n p : Nat) (time : T)
    (acts : List Action) : ∀ (s s' : Sim σ T) (dup : List Nat), s.TraceInv dup →
    (∀ d ∈ s.draws, LawfulTime.isDraw d) → handleActions n p time acts s = .ok s' → Next s dup s' := by
  induction acts with
  | nil =>
    intro s s' dup hi _ h
    simp only [handleActions, Except.ok.injEq] at h
    subst h
    exact Next.refl hi
  | cons a rest ih =>
    intro s s' dup hi hd h
    -- continue with the remaining actions after bookkeeping that `TraceLe` covers
    have cont : ∀ s1 : Sim σ T, TraceLe s s1 → handleActions n p time rest s1 = .ok s' → Next s dup s' := by
      intro s1 hle h1
      exact Next.of_le hi hle (fun hi1 hd1 => ih s1 s' dup hi1 (fun d hdd => hd d (hd1 d hdd)) h1)
    cases a with
    | send m dst =>
      simp only [handleActions] at h
      split at h
      · cases h
      · rename_i s1 hs1
        refine Next.of_le hi (TraceLe.updProc s n p
          (fun e : SProc σ T => { e with log := e.log ++ [⟨time, .sent m p dst⟩] })) (fun hia hda => ?_)
        have hdA : ∀ d ∈ (s.updProc n p fun e => { e with log := e.log ++ [⟨time, .sent m p dst⟩] }).draws,
            LawfulTime.isDraw d := fun d hdd => hd d (hda d hdd)
        obtain ⟨hib, hrb, hdb⟩ := hia.sendMessage_full m p dst hdA hzero hs1
        have hn1 : Next (s.updProc n p fun e => { e with log := e.log ++ [⟨time, .sent m p dst⟩] }) dup s1 := by
          refine ⟨_, hib, ?_, ?_, hrb, hdb⟩
          · intro x hx
            split
            · exact List.mem_cons_of_mem _ hx
            · exact hx
          · intro hz
            rw [hz]; rfl
        refine hn1.trans ?_
        intro dup1 hi1 hd1
        exact Next.of_le hi1 (TraceLe.updProc s1 n p _)
          (fun hi2 hd2 => ih _ s' dup1 hi2 (fun d hdd => hdA d (hd1 d (hd2 d hdd))) h)
    | loc m =>
      simp only [handleActions] at h
      split at h
      · cases h
      · split at h
        · cases h
        · refine cont _ ?_ h
          apply TraceLe.then_setNode
          apply TraceLe.then_log _ _ ⟨rfl, rfl⟩
          exact TraceLe.updProc s n p _
    | set name delay once =>
      simp only [handleActions] at h
      split at h
      · cases h
      · split at h
        · cases h
        · split at h
          · split at h
            · exact cont _ (TraceLe.updProc s n p _) h
            · refine cont _ ?_ h
              apply TraceLe.then_log _ _ ⟨rfl, rfl⟩
              apply TraceLe.then_updProc
              apply TraceLe.then_addTimer
              apply TraceLe.then_cancelEvent
              exact TraceLe.updProc s n p _
          · refine cont _ ?_ h
            apply TraceLe.then_log _ _ ⟨rfl, rfl⟩
            apply TraceLe.then_updProc
            apply TraceLe.then_addTimer
            exact TraceLe.updProc s n p _
    | cancel name =>
      simp only [handleActions] at h
      split at h
      · cases h
      · split at h
        · cases h
        · split at h
          · refine cont _ ?_ h
            apply TraceLe.then_cancelEvent
            apply TraceLe.then_log _ _ ⟨rfl, rfl⟩
            apply TraceLe.then_updProc
            exact TraceLe.updProc s n p _
          · exact cont _ (TraceLe.updProc s n p _) h

/-- a handler run keeps the invariant -/
theorem runHandler_next [LawfulTime T] (hzero : LawfulTime.isDraw (TimeOps.zero : T)) (h : SHandler σ T) (n p : Nat)
    (time : T) (i : Input) {s s' : Sim σ T} {dup : List Nat} (hi : s.TraceInv dup)
    (hd : ∀ d ∈ s.draws, LawfulTime.isDraw d) (hok : runHandler h n p time i s = .ok s') : Next s dup s' := by
  cases hn : amGet? n s.nodes with
  | none => simp [Sim.runHandler, nodeOf, hn] at hok
  | some nd =>
    cases he : amGet? p nd.procs with
    | none => simp [Sim.runHandler, nodeOf, hn, he] at hok
    | some e =>
      obtain ⟨st', acts, used, _, hact⟩ := runHandler_ok h n p time i s s' hn he hok
      have key : ∀ s1 : Sim σ T, TraceLe s s1 → handleActions n p time acts s1 = .ok s' → Next s dup s' :=
        fun s1 hle hrun => Next.of_le hi hle (fun hi1 hd1 =>
          handleActions_next hzero n p time acts s1 s' dup hi1 (fun d hdd => hd d (hd1 d hdd)) hrun)
      exact key _ ((TraceLe.dropDraws s used).then_updProc n p _) hact

/-- `on_message_received`, given the invariant for the state in which the `MessageReceived` entry is already logged -/
theorem onMessage_next [LawfulTime T] (hzero : LawfulTime.isDraw (TimeOps.zero : T)) (h : SHandler σ T)
    (n mid p : Nat) (m : Msg) (src srcNode : Nat) {s s' : Sim σ T} {dup : List Nat}
    (hi : (s.log (.recv s.clock mid srcNode src n p m)).TraceInv dup)
    (hd : ∀ d ∈ s.draws, LawfulTime.isDraw d) (hok : onMessage h n mid p m src srcNode s = .ok s') :
    Next (s.log (.recv s.clock mid srcNode src n p m)) dup s' := by
  unfold Sim.onMessage at hok
  split at hok
  · cases hok
  · split at hok
    · cases hok
    · have key : ∀ (s1 : Sim σ T) (time : T) (i : Input), TraceLe (s.log (.recv s.clock mid srcNode src n p m)) s1 →
          runHandler h n p time i s1 = .ok s' → Next (s.log (.recv s.clock mid srcNode src n p m)) dup s' :=
        fun s1 time i hle hrun => Next.of_le hi hle (fun hi1 hd1 =>
          runHandler_next hzero h n p time i hi1 (fun d hdd => hd d (hd1 d hdd)) hrun)
      exact key _ _ _ (TraceLe.updProc _ n p _) hok

theorem onTimer_next [LawfulTime T] (hzero : LawfulTime.isDraw (TimeOps.zero : T)) (h : SHandler σ T)
    (n p name : Nat) {s s' : Sim σ T} {dup : List Nat} (hi : s.TraceInv dup)
    (hd : ∀ d ∈ s.draws, LawfulTime.isDraw d) (hok : onTimer h n p name s = .ok s') : Next s dup s' := by
  unfold Sim.onTimer at hok
  split at hok
  · cases hok
  · split at hok
    · cases hok
    · have hle : TraceLe s (match amGet? name (‹SProc σ T›).pending with
          | some id => ((s.updProc n p fun e => { e with log := e.log ++ [⟨s.clock, .tfired name⟩] }).updProc n p
              fun e => { e with pending := amErase name e.pending }).log (.timerFired s.clock id name n p)
          | none => s.updProc n p fun e => { e with log := e.log ++ [⟨s.clock, .tfired name⟩] }) := by
        split
        · apply TraceLe.then_log _ _ ⟨rfl, rfl⟩
          apply TraceLe.then_updProc
          exact TraceLe.updProc s n p _
        · exact TraceLe.updProc s n p _
      refine Next.of_le hi hle (fun hi1 hd1 => ?_)
      exact runHandler_next hzero h n p _ _ hi1 (fun d hdd => hd d (hd1 d hdd)) hok

theorem onLocal_next [LawfulTime T] (hzero : LawfulTime.isDraw (TimeOps.zero : T)) (h : SHandler σ T)
    (n p : Nat) (m : Msg) {s s' : Sim σ T} {dup : List Nat} (hi : s.TraceInv dup)
    (hd : ∀ d ∈ s.draws, LawfulTime.isDraw d) (hok : onLocal h n p m s = .ok s') : Next s dup s' := by
  unfold Sim.onLocal at hok
  split at hok
  · cases hok
  · split at hok
    · cases hok
    · have hle : TraceLe s (((s.log (.localRecv s.clock n p (‹SNode σ T›).localCount m)).setNode n
          { (‹SNode σ T›) with localCount := (‹SNode σ T›).localCount + 1 }).updProc n p
          fun e => { e with log := e.log ++ [⟨s.clock, .lrecv m⟩] }) := by
        apply TraceLe.then_updProc
        apply TraceLe.then_setNode
        exact TraceLe.log s _ ⟨rfl, rfl⟩
      refine Next.of_le hi hle (fun hi1 hd1 => ?_)
      exact runHandler_next hzero h n p _ _ hi1 (fun d hdd => hd d (hd1 d hdd)) hok

/-! ### popping an event, `deliver`, `step` -/

/-- the popped event leaves the live copies of its message (no uniqueness of ids needed) -/
theorem pop_count {fuel : Nat} {s s1 : Sim σ T} {e : QEv T} (hpop : nextEvent fuel s = (some e, s1)) (mid : Nat) :
    s1.queuedCopies mid + (if (e.data.mid? == some mid) = true then 1 else 0) ≤ s.queuedCopies mid := by
  obtain ⟨_, _, _, _, _, _, _, h8, _⟩ := nextEvent_frame fuel s s1 _ hpop
  obtain ⟨hmem, hlive⟩ := h8 e rfl
  rw [queuedCopies_eq_live, queuedCopies_eq_live, hlive]
  exact length_filter_pop (liveOf s) (fun x => x.id != e.id) (fun x => x.data.mid? == some mid) e hmem (by simp)

/-- `next_event` alone (whatever it returns) is bookkeeping -/
theorem TraceLe.pop {fuel : Nat} {s s1 : Sim σ T} {o : Option (QEv T)} (hpop : nextEvent fuel s = (o, s1)) :
    TraceLe s s1 := by
  obtain ⟨h1, h2, h3, h4, _, _, h7, _, h9⟩ := nextEvent_frame fuel s s1 _ hpop
  refine TraceLe.of_queue [] (by rw [h1, List.append_nil]) (by simp) h2 (by rw [h3]; exact fun _ h => h) ?_
    (fun hwf => hwf.sublist h7 h4)
  intro mid
  cases o with
  | none => rw [queuedCopies_eq_live, queuedCopies_eq_live, h9 rfl]; exact Nat.le_refl _
  | some e => have := pop_count hpop mid; omega

/-- popping a copy of `mid` and logging one fate of `mid` is bookkeeping: the copy turns into the fate -/
theorem TraceLe.pop_fate {fuel : Nat} {s s1 : Sim σ T} {e : QEv T} (hpop : nextEvent fuel s = (some e, s1))
    (mid : Nat) (hmid : e.data.mid? = some mid) (x : SLog T) (hx1 : x.sentId = none) (hx2 : x.fateOf = some mid) :
    TraceLe s (s1.log x) := by
  obtain ⟨h1, h2, h3, h4, _, _, h7, _, _⟩ := nextEvent_frame fuel s s1 _ hpop
  have htr : (s1.log x).trace = s.trace ++ [x] := by rw [← h1]; rfl
  obtain ⟨r1, r2, r3⟩ := trace_append_nonsent s.trace [x] (by simpa using hx1)
  refine ⟨by rw [htr, r1], by rw [htr, r2], by rw [htr, r3], h2, ?_,
    fun hwf => QueueWF.sublist (s' := s1.log x) hwf h7 h4, by intro d hdd; rw [← h3]; exact hdd⟩
  intro mid'
  have hf := fates_of_trace [x] htr mid'
  have hq : (s1.log x).queuedCopies mid' = s1.queuedCopies mid' := queuedCopies_of_eq rfl rfl mid'
  have hp := pop_count hpop mid'
  rw [hmid] at hp
  rw [hf, hq]
  by_cases hm : mid = mid'
  · subst hm
    simp only [beq_self_eq_true, if_true] at hp
    simp only [List.filter_cons, hx2, beq_self_eq_true, if_true, List.filter_nil, List.length_cons, List.length_nil]
    omega
  · have hne : (some mid == some mid') = false := by simpa using hm
    simp only [List.filter_cons, hx2, hne, List.filter_nil, List.length_nil, Bool.false_eq_true, if_false]
    simp only [hne, Bool.false_eq_true, if_false] at hp
    omega

/-- delivering the popped event keeps the invariant (a discarded event just disappears from the queue) -/
theorem deliver_next [LawfulTime T] (hzero : LawfulTime.isDraw (TimeOps.zero : T)) (h : SHandler σ T) (fuel : Nat)
    {s s1 s' : Sim σ T} {dup : List Nat} {e : QEv T} (hi : s.TraceInv dup)
    (hd : ∀ d ∈ s.draws, LawfulTime.isDraw d) (hpop : nextEvent fuel s = (some e, s1))
    (hok : deliver h e s1 = .ok s') : Next s dup s' := by
  have hle := TraceLe.pop hpop
  have hd1 : ∀ d ∈ s1.draws, LawfulTime.isDraw d := fun d hdd => hd d (hle.draws d hdd)
  unfold Sim.deliver at hok
  split at hok
  · cases hok
    exact (Next.refl hi).then_le hle
  · split at hok
    · rename_i mid m src sn dst dn hdat
      have hle2 : TraceLe s (s1.log (.recv s1.clock mid sn src e.dst dst m)) :=
        TraceLe.pop_fate hpop mid (by rw [hdat]; rfl) _ rfl rfl
      exact Next.of_le hi hle2 (fun hi2 _ => onMessage_next hzero h e.dst mid dst m src sn hi2 hd1 hok)
    · exact Next.of_le hi hle (fun hi1 _ => onTimer_next hzero h _ _ _ hi1 hd1 hok)

theorem step_next [LawfulTime T] (hzero : LawfulTime.isDraw (TimeOps.zero : T)) (h : SHandler σ T)
    {s s' : Sim σ T} {dup : List Nat} (b : Bool) (hi : s.TraceInv dup)
    (hd : ∀ d ∈ s.draws, LawfulTime.isDraw d) (hok : s.step h = .ok (b, s')) : Next s dup s' := by
  unfold Sim.step at hok
  split at hok
  · rename_i s1 heq
    cases hok
    exact (Next.refl hi).then_le (TraceLe.pop heq)
  · rename_i e s1 heq
    split at hok
    · cases hok
    · rename_i s2 hdel
      cases hok
      exact deliver_next hzero h _ hi hd heq hdel

/-- one step of the simulator (pop + deliver + the handler's actions) -/
theorem TraceInv.step [LawfulTime T] (h : SHandler σ T) {s s' : Sim σ T} {dup : List Nat} (b : Bool)
    (hi : s.TraceInv dup) (hd : ∀ d ∈ s.draws, LawfulTime.isDraw d)
    (hzero : LawfulTime.isDraw (TimeOps.zero : T))
    (hok : s.step h = .ok (b, s')) :
    ∃ dup', s'.TraceInv dup' ∧ (∀ x ∈ dup, x ∈ dup') ∧
      (TimeOps.lt TimeOps.zero s.net.duplRate = false → dup' = dup) := by
  obtain ⟨dup', hi', hsub, hz, _, _⟩ := step_next hzero h b hi hd hok
  exact ⟨dup', hi', hsub, hz⟩

theorem sendLocal_next [LawfulTime T] (hzero : LawfulTime.isDraw (TimeOps.zero : T)) (h : SHandler σ T)
    {s s' : Sim σ T} {dup : List Nat} (p : Nat) (m : Msg) (hi : s.TraceInv dup)
    (hd : ∀ d ∈ s.draws, LawfulTime.isDraw d) (hok : s.sendLocal h p m = .ok s') : Next s dup s' := by
  unfold Sim.sendLocal at hok
  split at hok
  · cases hok
  · split at hok
    · cases hok
    · split at hok
      · cases hok
      · exact onLocal_next hzero h _ p m hi hd hok

/-- `send_local_message` -/
theorem TraceInv.sendLocal [LawfulTime T] (h : SHandler σ T) {s s' : Sim σ T} {dup : List Nat} (p : Nat) (m : Msg)
    (hi : s.TraceInv dup) (hd : ∀ d ∈ s.draws, LawfulTime.isDraw d)
    (hzero : LawfulTime.isDraw (TimeOps.zero : T))
    (hok : s.sendLocal h p m = .ok s') :
    ∃ dup', s'.TraceInv dup' ∧ (∀ x ∈ dup, x ∈ dup') ∧
      (TimeOps.lt TimeOps.zero s.net.duplRate = false → dup' = dup) := by
  obtain ⟨dup', hi', hsub, hz, _, _⟩ := sendLocal_next hzero h p m hi hd hok
  exact ⟨dup', hi', hsub, hz⟩

/-! ### `crashNode` -/

theorem crashDrops_sentId (c : T) (live : List Nat) (L : List (QEv T)) : ∀ x ∈ crashDrops c live L, x.sentId = none := by
  intro x hx
  unfold crashDrops at hx
  obtain ⟨e, _, he⟩ := List.mem_filterMap.1 hx
  unfold crashDrop at he
  split at he
  · split at he
    · cases he; rfl
    · cases he
  · cases he

/-- one `MessageDropped` entry per event of `L` that is live and carries a message -/
theorem crashDrops_count (c : T) (live : List Nat) (L : List (QEv T)) (mid : Nat) :
    ((crashDrops c live L).filter (fun x => x.fateOf == some mid)).length =
      (L.filter (fun e => live.contains e.id && e.data.mid? == some mid)).length := by
  induction L with
  | nil => rfl
  | cons a L ih =>
    have hcons : crashDrops c live (a :: L) =
        (match crashDrop c live a with | some x => [x] | none => []) ++ crashDrops c live L := by
      unfold crashDrops
      rw [List.filterMap_cons]
      cases crashDrop c live a <;> rfl
    rw [hcons, List.filter_append, List.length_append, ih, List.filter_cons]
    generalize (List.filter (fun e => live.contains e.id && e.data.mid? == some mid) L) = tl
    cases hl : live.contains a.id with
    | false =>
      have h0 : crashDrop c live a = none := by unfold crashDrop; rw [hl]; rfl
      rw [h0]
      simp
    | true =>
      cases hdat : a.data with
      | timer q nm =>
        have h0 : crashDrop c live a = none := by unfold crashDrop; rw [hl, hdat]; rfl
        rw [h0]
        simp [QData.mid?]
      | msg mid' m src sn dst dn =>
        have h0 : crashDrop c live a = some (.dropped c mid' sn src dn dst m) := by
          unfold crashDrop; rw [hl, hdat]; rfl
        rw [h0]
        by_cases hm : mid' = mid
        · subst hm
          simp [QData.mid?, SLog.fateOf]
          omega
        · simp [QData.mid?, SLog.fateOf, hm]

/-- `crash_node`: every live copy from the node moves from "queued" to "dropped", copies toward it are cancelled -/
theorem TraceInv.crashNode {s s' : Sim σ T} {dup : List Nat} (n : Nat) (hi : s.TraceInv dup)
    (hok : s.crashNode n = .ok s') : s'.TraceInv dup := by
  obtain ⟨nd, _, rfl⟩ := crashNode_shape' s s' n hok
  -- abbreviations: the ids of the live events, the drops logged, the new cancellation set
  generalize hlive : (s.events.filter (fun e => !s.canceled.contains e.id)).map (·.id) = live
  generalize hC' : ((s.events.filter (fun e => e.dst == n)).map (·.id)).foldl (fun acc x => setInsert x acc)
    (((s.events.filter (fun e => e.src == n)).map (·.id)).foldl (fun acc x => setInsert x acc) s.canceled) = C'
  have hsent : ∀ x ∈ SLog.nodeCrashed s.clock n :: crashDrops s.clock live (s.events.filter (fun e => e.src == n)),
      x.sentId = none := by
    intro x hx
    rcases List.mem_cons.1 hx with rfl | hx
    · rfl
    · exact crashDrops_sentId _ _ _ x hx
  obtain ⟨r1, r2, r3⟩ := trace_append_nonsent s.trace _ hsent
  refine hi.of_load r1 r2 r3 rfl rfl rfl ?_ hi.qids
  intro mid
  have hf : Sim.fates (σ := σ) { s with
        nodes := amInsert natLt n { nd with crashed := true } s.nodes,
        trace := s.trace ++ SLog.nodeCrashed s.clock n :: crashDrops s.clock live (s.events.filter (fun e => e.src == n)),
        handlers := setErase n s.handlers, canceled := C' } mid =
      s.fates mid + ((s.events.filter (fun e => e.src == n)).filter
        (fun e => live.contains e.id && e.data.mid? == some mid)).length := by
    rw [fates_of_trace (s := s) _ rfl, List.filter_cons_of_neg (by simp [SLog.fateOf]), crashDrops_count]
  rw [hf, List.filter_filter]
  have hcount := length_filter_add_le s.events
    (fun e => !C'.contains e.id && e.data.mid? == some mid)
    (fun e => (live.contains e.id && e.data.mid? == some mid) && e.src == n)
    (fun e => !s.canceled.contains e.id && e.data.mid? == some mid) (by
      intro x hx
      have hsub : x.id ∈ s.canceled → x.id ∈ C' := by
        intro hin
        rw [← hC', mem_foldl_setInsert, mem_foldl_setInsert]
        exact .inr (.inr hin)
      have hliv : x.id ∈ live → x.id ∉ s.canceled := by
        intro hin
        rw [← hlive] at hin
        obtain ⟨y, hy, hyx⟩ := List.mem_map.1 hin
        have := (List.mem_filter.1 hy).2
        simp only [Bool.not_eq_true', List.contains_eq_mem, decide_eq_false_iff_not] at this
        rw [← hyx]; exact this
      have hfrom : (x.src == n) = true → x.id ∈ C' := by
        intro hsrc
        rw [← hC', mem_foldl_setInsert, mem_foldl_setInsert]
        exact .inr (.inl (List.mem_map_of_mem (f := (·.id)) (List.mem_filter.2 ⟨hx, hsrc⟩)))
      simp only [Bool.and_eq_true, Bool.not_eq_true', List.contains_eq_mem, decide_eq_false_iff_not,
        decide_eq_true_eq]
      refine ⟨fun h => ⟨fun hin => h.1 (hsub hin), h.2⟩, fun h => ⟨hliv h.1.1, h.1.2⟩, ?_⟩
      rintro ⟨h1, h2⟩
      exact h1.1 (hfrom h2.2))
  unfold queuedCopies
  simp only
  omega

/-! ### operations that only append entries that are neither sends nor fates -/

theorem TraceInv.recoverNode {s s' : Sim σ T} {dup : List Nat} (n : Nat) (hi : s.TraceInv dup)
    (hok : s.recoverNode n = .ok s') : s'.TraceInv dup := by
  unfold Sim.recoverNode at hok
  split at hok
  · cases hok
  · split at hok
    · cases hok
    · cases hok
      exact hi.frame [.nodeRecovered s.clock n] rfl (by simp [SLog.sentId, SLog.fateOf]) rfl rfl rfl rfl rfl rfl

theorem TraceInv.addNode {s s' : Sim σ T} {dup : List Nat} (n : Nat) (hi : s.TraceInv dup)
    (hok : s.addNode n = .ok s') : s'.TraceInv dup := by
  unfold Sim.addNode at hok
  split at hok
  · cases hok
  · cases hok
    exact hi.frame [.nodeStarted s.clock n] rfl (by simp [SLog.sentId, SLog.fateOf]) rfl rfl rfl rfl rfl rfl

theorem TraceInv.addProcess {s s' : Sim σ T} {dup : List Nat} (p n : Nat) (st : σ) (hi : s.TraceInv dup)
    (hok : s.addProcess p st n = .ok s') : s'.TraceInv dup := by
  unfold Sim.addProcess at hok
  split at hok
  · cases hok
  · dsimp only at hok
    split at hok
    · cases hok
    · cases hok
      exact hi.frame [.processStarted s.clock n p] rfl (by simp [SLog.sentId, SLog.fateOf]) rfl rfl rfl rfl rfl rfl

theorem TraceInv.readLocal {s s' : Sim σ T} {dup : List Nat} (p : Nat) (ms : List Msg) (hi : s.TraceInv dup)
    (hok : s.readLocal p = .ok (ms, s')) : s'.TraceInv dup := by
  unfold Sim.readLocal at hok
  split at hok
  · cases hok
  · split at hok
    · cases hok
    · rename_i oms s1 hr
      cases hok
      unfold Sim.readNode at hr
      split at hr
      · cases hr
      · split at hr
        · cases hr
        · split at hr
          · cases hr; exact hi
          · cases hr
            exact hi.frame [] (by simp) (by simp) (by simp) (by simp) (by simp) (by simp) (by simp) (by simp)

theorem TraceInv.disableLink {s : Sim σ T} {dup : List Nat} (a b : Nat) (hi : s.TraceInv dup) : (s.disableLink a b).TraceInv dup :=
  hi.frame [.linkDisabled s.clock a b] rfl (by simp [SLog.sentId, SLog.fateOf]) rfl rfl rfl rfl rfl rfl
theorem TraceInv.enableLink {s : Sim σ T} {dup : List Nat} (a b : Nat) (hi : s.TraceInv dup) : (s.enableLink a b).TraceInv dup :=
  hi.frame [.linkEnabled s.clock a b] rfl (by simp [SLog.sentId, SLog.fateOf]) rfl rfl rfl rfl rfl rfl
theorem TraceInv.disconnectNode {s : Sim σ T} {dup : List Nat} (n : Nat) (hi : s.TraceInv dup) : (s.disconnectNode n).TraceInv dup :=
  hi.frame [.nodeDisconnected s.clock n] rfl (by simp [SLog.sentId, SLog.fateOf]) rfl rfl rfl rfl rfl rfl
theorem TraceInv.connectNode {s : Sim σ T} {dup : List Nat} (n : Nat) (hi : s.TraceInv dup) : (s.connectNode n).TraceInv dup :=
  hi.frame [.nodeConnected s.clock n] rfl (by simp [SLog.sentId, SLog.fateOf]) rfl rfl rfl rfl rfl rfl
theorem TraceInv.makePartition {s : Sim σ T} {dup : List Nat} (g1 g2 : List Nat) (hi : s.TraceInv dup) : (s.makePartition g1 g2).TraceInv dup :=
  hi.frame [.partition s.clock g1 g2] rfl (by simp [SLog.sentId, SLog.fateOf]) rfl rfl rfl rfl rfl rfl
theorem TraceInv.netReset {s : Sim σ T} {dup : List Nat} (hi : s.TraceInv dup) : s.netReset.TraceInv dup :=
  hi.frame [.netReset s.clock] rfl (by simp [SLog.sentId, SLog.fateOf]) rfl rfl rfl rfl rfl rfl
theorem TraceInv.dropIncoming {s : Sim σ T} {dup : List Nat} (n : Nat) (hi : s.TraceInv dup) : (s.dropIncoming n).TraceInv dup :=
  hi.frame [.dropIncoming s.clock n] rfl (by simp [SLog.sentId, SLog.fateOf]) rfl rfl rfl rfl rfl rfl
theorem TraceInv.passIncoming {s : Sim σ T} {dup : List Nat} (n : Nat) (hi : s.TraceInv dup) : (s.passIncoming n).TraceInv dup :=
  hi.frame [.passIncoming s.clock n] rfl (by simp [SLog.sentId, SLog.fateOf]) rfl rfl rfl rfl rfl rfl
theorem TraceInv.dropOutgoing {s : Sim σ T} {dup : List Nat} (n : Nat) (hi : s.TraceInv dup) : (s.dropOutgoing n).TraceInv dup :=
  hi.frame [.dropOutgoing s.clock n] rfl (by simp [SLog.sentId, SLog.fateOf]) rfl rfl rfl rfl rfl rfl
theorem TraceInv.passOutgoing {s : Sim σ T} {dup : List Nat} (n : Nat) (hi : s.TraceInv dup) : (s.passOutgoing n).TraceInv dup :=
  hi.frame [.passOutgoing s.clock n] rfl (by simp [SLog.sentId, SLog.fateOf]) rfl rfl rfl rfl rfl rfl

/-! ### whole runs -/

/-- a run of `steps` keeps the invariant, the duplication rate and the draw hypothesis -/
theorem steps_next [LawfulTime T] (hzero : LawfulTime.isDraw (TimeOps.zero : T)) (h : SHandler σ T) (k : Nat) :
    ∀ {s s' : Sim σ T} {dup : List Nat} (b : Bool), s.TraceInv dup → (∀ d ∈ s.draws, LawfulTime.isDraw d) →
      s.steps h k = .ok (b, s') → Next s dup s' := by
  induction k with
  | zero =>
    intro s s' dup b hi _ hok
    simp only [Sim.steps, Except.ok.injEq, Prod.mk.injEq] at hok
    obtain ⟨_, rfl⟩ := hok
    exact Next.refl hi
  | succ k ih =>
    intro s s' dup b hi hd hok
    simp only [Sim.steps] at hok
    split at hok
    · cases hok
    · rename_i s1 hst
      cases hok
      exact step_next hzero h false hi hd hst
    · rename_i s1 hst
      exact (step_next hzero h true hi hd hst).trans
        (fun dup1 hi1 hd1 => ih b hi1 (fun d hdd => hd d (hd1 d hdd)) hok)

/-- the invariant along a run of `steps` -/
theorem TraceInv.steps [LawfulTime T] (h : SHandler σ T) (k : Nat) {s s' : Sim σ T} {dup : List Nat} (b : Bool)
    (hi : s.TraceInv dup) (hd : ∀ d ∈ s.draws, LawfulTime.isDraw d)
    (hzero : LawfulTime.isDraw (TimeOps.zero : T)) (hok : s.steps h k = .ok (b, s')) :
    ∃ dup', s'.TraceInv dup' ∧ (∀ x ∈ dup, x ∈ dup') ∧
      (TimeOps.lt TimeOps.zero s.net.duplRate = false → dup' = dup) := by
  obtain ⟨dup', hi', hsub, hz, _, _⟩ := steps_next hzero h k b hi hd hok
  exact ⟨dup', hi', hsub, hz⟩

/-- **single fate, duplication off**: in a run in which the duplication rate is zero throughout, after any number of
    steps every message has at most one recorded fate, and a message with a recorded fate has no live copy left -/
theorem single_fate_no_dupl [LawfulTime T] (h : SHandler σ T) (k : Nat) {s s' : Sim σ T} (b : Bool)
    (hi : s.TraceInv []) (hz : TimeOps.lt TimeOps.zero s.net.duplRate = false)
    (hd : ∀ d ∈ s.draws, LawfulTime.isDraw d)
    (hzero : LawfulTime.isDraw (TimeOps.zero : T))
    (hok : s.steps h k = .ok (b, s')) :
    ∀ mid, s'.fates mid + s'.queuedCopies mid ≤ 1 := by
  obtain ⟨dup', hi', _, hdup, _, _⟩ := steps_next hzero h k b hi hd hok
  rw [hdup hz] at hi'
  exact fun mid => hi'.fateOnce mid (by simp)

end Sim

/-! ## Non-vacuity: the hypotheses of `single_fate_no_dupl` are met by a concrete run over `Ticks` -/
namespace Sim.TraceDemo

/-- two nodes, process 1 on node 0 and process 2 on node 1, default network (all rates zero) with delays in `[0, 10]`,
    twelve draws; nothing has happened yet -/
def s1 : Sim Nat Ticks :=
  { clock := ⟨0⟩,
    net := { (SimNet.default : SimNet Ticks) with procLoc := [(1, 0), (2, 1)], maxDelay := ⟨10⟩ },
    draws := [⟨500⟩, ⟨100⟩, ⟨900⟩, ⟨250⟩, ⟨10⟩, ⟨20⟩, ⟨999⟩, ⟨0⟩, ⟨1⟩, ⟨2⟩, ⟨3⟩, ⟨4⟩],
    nodes := [(0, { skew := ⟨0⟩, procs := [(1, { st := 0 })] }), (1, { skew := ⟨0⟩, procs := [(2, { st := 0 })] })],
    procNodes := [(1, 0), (2, 1)], handlers := [0, 1] }

/-- process 1 answers a local message with a cross-node send, a same-node send and a timer; process 2 answers every
    message with a cross-node reply and a local message -/
def h : SHandler Nat Ticks := fun p st i _ _ =>
  match p, i with
  | 1, .loc _ => (st + 1, [.send ⟨1, [7]⟩ 2, .send ⟨2, []⟩ 1, .set 0 5 false], 0)
  | 2, .msg m src => (st + 1, [.send ⟨3, []⟩ src, .loc m], 0)
  | _, _ => (st + 1, [], 0)

theorem hzero : LawfulTime.isDraw (TimeOps.zero : Ticks) := by
  show (0 : Nat) < 1000
  decide

theorem hdraws : ∀ d ∈ s1.draws, LawfulTime.isDraw d := by
  intro d hd
  simp only [s1, List.mem_cons, List.not_mem_nil, or_false] at hd
  rcases hd with rfl | rfl | rfl | rfl | rfl | rfl | rfl | rfl | rfl | rfl | rfl | rfl <;>
    (show (_ : Nat) < 1000) <;> decide

/-- the fresh simulator over `Ticks` satisfies the invariant (`TraceInv.init` instantiated) -/
example : ({ clock := ⟨0⟩, net := SimNet.default, draws := [⟨500⟩] } : Sim Nat Ticks).TraceInv [] :=
  TraceInv.init _ _ _ ⟨rfl, rfl, rfl⟩

theorem s1_inv : s1.TraceInv [] := TraceInv.of_empty s1 rfl rfl ⟨rfl, rfl, rfl⟩

/-- the run exists: `send_local_message` to process 1, then up to ten steps -/
example : ((s1.sendLocal h 1 ⟨0, []⟩).bind (·.steps h 10)).toOption.isSome = true := by decide

/-- … and it is not trivial: three messages are sent (one inside node 0, two across nodes), each ends with exactly one
    `MessageReceived` entry and no live copy -/
example : ((s1.sendLocal h 1 ⟨0, []⟩).bind (·.steps h 10)).toOption.map
    (fun r => (r.2.net.messageCount, r.2.net.networkMessageCount, [0, 1, 2].map r.2.fates, [0, 1, 2].map r.2.queuedCopies)) =
    some (3, 2, [1, 1, 1], [0, 0, 0]) := by decide

/-- every hypothesis of `single_fate_no_dupl` holds for the state after the `send_local_message` (which has two message
    copies and a timer queued), so its conclusion holds for the concrete run above -/
example (s2 s' : Sim Nat Ticks) (b : Bool) (hsend : s1.sendLocal h 1 ⟨0, []⟩ = .ok s2)
    (hrun : s2.steps h 10 = .ok (b, s')) : ∀ mid, s'.fates mid + s'.queuedCopies mid ≤ 1 := by
  obtain ⟨dup', hi2, _, hz, hr, hd⟩ := sendLocal_next hzero h 1 _ s1_inv hdraws hsend
  rw [hz rfl] at hi2
  exact single_fate_no_dupl h 10 b hi2 (by rw [hr]; rfl) (fun d hdd => hdraws d (hd d hdd)) hzero hrun

end Sim.TraceDemo
end Anysystem
