import Anysystem.Proofs.R5Defs
/-!
# Helper lemmas for R5, piece 1 (`R5Snap.lean`)

* a sharper version of `snapFold_spec` that also tracks the abstract store's timer map;
* the shape of `snapshotPending` / its timers;
* the snapshot's node table as a plain `map`.
-/
namespace Anysystem

variable {σ T : Type} [TimeOps T]

/-! ## the snapshot fold, with the timer map -/

/-- the abstract store's timer map points at every pending timer (`SimS.tm`) -/
def TmOK (a : AStore) : Prop :=
  ∀ id p name d, (id, Ev.timer p name d) ∈ a.pending → amGet? (p, name) a.tm = some id

/-- at most one pending timer per (process, name) -/
def TUniq (A : List (Nat × Ev)) : Prop :=
  (timersOf A).Pairwise (fun a b => ¬ (a.proc = b.proc ∧ a.name = b.name))

theorem Rep.push_ok_tm {st : Store} {a : AStore} (h : Rep st a) (e : Ev)
    (he : e.isMsg = true ∨ e.isTimer = true) :
    ∃ st' a', st.push e = .ok (st', a.next) ∧ Rep st' a' ∧
      a'.pending = a.pending ++ [(a.next, e)] ∧ a'.next = a.next + 1 ∧
      a'.tm = (match e with
        | .timer p n _ => amInsert pairLt (p, n) a.next a.tm
        | _ => a.tm) := by
  have : ∃ a', a.step (.push e) = some (a', .id a.next) ∧
      a'.pending = a.pending ++ [(a.next, e)] ∧ a'.next = a.next + 1 ∧
      a'.tm = (match e with
        | .timer p n _ => amInsert pairLt (p, n) a.next a.tm
        | _ => a.tm) := by
    cases e <;> simp [Ev.isMsg, Ev.isTimer] at he <;> simp [AStore.step, Ev.isMsg]
  obtain ⟨a', hs, hp, hn, htm⟩ := this
  obtain ⟨st', hst, hrep⟩ := h.step hs
  refine ⟨st', a', ?_, hrep, hp, hn, htm⟩
  simp only [Store.stepOp] at hst
  split at hst
  · next s' id heq =>
    simp only [Except.ok.injEq, Prod.mk.injEq, Out.id.injEq] at hst
    obtain ⟨rfl, rfl⟩ := hst
    exact heq
  · simp at hst

theorem TmOK.push_msg {a a' : AStore} (h : TmOK a) (m : Msg) (s d : Nat) (o : Opts)
    (hp : a'.pending = a.pending ++ [(a.next, Ev.msg m s d o)]) (htm : a'.tm = a.tm) : TmOK a' := by
  intro id p name dl hm
  rw [hp] at hm
  rw [htm]
  rcases List.mem_append.mp hm with hm | hm
  · exact h id p name dl hm
  · simp at hm

theorem TmOK.push_timer {a a' : AStore} (h : TmOK a) (p n d : Nat)
    (hp : a'.pending = a.pending ++ [(a.next, Ev.timer p n d)])
    (htm : a'.tm = amInsert pairLt (p, n) a.next a.tm)
    (hfresh : ∀ t ∈ timersOf a.pending, ¬ (t.proc = p ∧ t.name = n)) : TmOK a' := by
  intro id p' n' d' hm
  rw [hp] at hm
  rw [htm, amGet?_amInsert]
  rcases List.mem_append.mp hm with hm | hm
  · have hne : ¬ ((p', n') = (p, n)) := by
      intro e
      simp only [Prod.mk.injEq] at e
      exact hfresh ⟨p', n', d'⟩ (mem_timersOf.mpr ⟨id, hm⟩) e
    rw [if_neg hne]
    exact h id p' n' d' hm
  · simp only [List.mem_singleton, Prod.mk.injEq, Ev.timer.injEq] at hm
    obtain ⟨rfl, rfl, rfl, rfl⟩ := hm
    rw [if_pos rfl]

theorem snapFold_tm (bits : T → Nat) (clock : T) (maxDelay : Nat) (crashed : List Nat)
    (L : List (QEv T)) : ∀ (st : Store) (a : AStore), Rep st a → TmOK a →
    TUniq (a.pending ++ ((L.filter (snapKeep crashed)).zipIdx a.next).map
        (fun (e, i) => (i, snapEv bits clock maxDelay e))) →
    ∃ st' a', L.foldl (fun (r : R Store) e => match r with
      | .error err => .error err
      | .ok st =>
        match e.data with
        | .msg _ m src _ dst dstNode =>
          if crashed.contains dstNode then .ok st
          else (st.push (.msg m src dst (.noFail maxDelay))).map (·.1)
        | .timer p name => (st.push (.timer p name (bits (TimeOps.sub e.time clock)))).map (·.1))
        (.ok st) = .ok st' ∧ Rep st' a' ∧
      a'.pending = a.pending ++ ((L.filter (snapKeep crashed)).zipIdx a.next).map
        (fun (e, i) => (i, snapEv bits clock maxDelay e)) ∧
      a'.next = a.next + (L.filter (snapKeep crashed)).length ∧ TmOK a' := by
  induction L with
  | nil => intro st a h htm _; exact ⟨st, a, rfl, h, by simp, by simp, htm⟩
  | cons e L ih =>
    intro st a h htm hu
    rw [List.foldl_cons]
    cases hd : e.data with
    | msg mid m src srcNode dst dstNode =>
      by_cases hc : crashed.contains dstNode = true
      · have hk : snapKeep crashed e = false := by simp only [snapKeep, hd, hc]; rfl
        simp only [hc, if_true, List.filter_cons, hk] at hu ⊢
        exact ih st a h htm hu
      · have hk : snapKeep crashed e = true := by simpa [snapKeep, hd] using hc
        obtain ⟨st1, a1, hpush, hrep1, hp1, hn1, htm1⟩ :=
          h.push_ok_tm (.msg m src dst (.noFail maxDelay)) (Or.inl rfl)
        simp only [List.filter_cons, hk, if_true, List.zipIdx_cons, List.map_cons, snapEv, hd] at hu
        have hu1 : TUniq (a1.pending ++ ((L.filter (snapKeep crashed)).zipIdx a1.next).map
            (fun (e, i) => (i, snapEv bits clock maxDelay e))) := by
          rw [hp1, hn1, List.append_assoc, List.singleton_append]
          exact hu
        obtain ⟨st', a', hf, hrep', hp', hn', htm'⟩ :=
          ih st1 a1 hrep1 (htm.push_msg m src dst _ hp1 htm1) hu1
        refine ⟨st', a', ?_, hrep', ?_, ?_, htm'⟩
        · simp only [hc, hpush, Except.map]
          exact hf
        · simp only [List.filter_cons, hk, if_true, List.zipIdx_cons, List.map_cons, hp', hp1, hn1,
            List.append_assoc, List.singleton_append, snapEv, hd]
        · simp only [List.filter_cons, hk, if_true, List.length_cons, hn', hn1]; omega
    | timer p name =>
      have hk : snapKeep crashed e = true := by simp [snapKeep, hd]
      obtain ⟨st1, a1, hpush, hrep1, hp1, hn1, htm1⟩ :=
        h.push_ok_tm (.timer p name (bits (TimeOps.sub e.time clock))) (Or.inr rfl)
      simp only [List.filter_cons, hk, if_true, List.zipIdx_cons, List.map_cons, snapEv, hd] at hu
      have hu1 : TUniq (a1.pending ++ ((L.filter (snapKeep crashed)).zipIdx a1.next).map
          (fun (e, i) => (i, snapEv bits clock maxDelay e))) := by
        rw [hp1, hn1, List.append_assoc, List.singleton_append]
        exact hu
      have hfresh : ∀ t ∈ timersOf a.pending, ¬ (t.proc = p ∧ t.name = name) := by
        intro t ht
        unfold TUniq at hu
        rw [timersOf_append, timersOf_cons_timer, List.pairwise_append] at hu
        exact hu.2.2 t ht _ (List.mem_cons_self ..)
      obtain ⟨st', a', hf, hrep', hp', hn', htm'⟩ :=
        ih st1 a1 hrep1 (htm.push_timer p name _ hp1 htm1 hfresh) hu1
      refine ⟨st', a', ?_, hrep', ?_, ?_, htm'⟩
      · simp only [hpush, Except.map]
        exact hf
      · simp only [List.filter_cons, hk, if_true, List.zipIdx_cons, List.map_cons, hp', hp1, hn1,
          List.append_assoc, List.singleton_append, snapEv, hd]
      · simp only [List.filter_cons, hk, if_true, List.length_cons, hn', hn1]; omega

/-- `snapshotEvents_spec`, sharpened: the abstract store also has a timer map that points at every pending timer,
    provided the queued timers are unique per (process, name) -/
theorem snapshotEvents_spec_tm (bits : T → Nat) (s : Sim σ T) (maxDelay : Nat)
    (hu : TUniq ((snapshotSource s).zipIdx.map (fun (e, i) => (i, snapshotEv bits s maxDelay e)))) :
    ∃ st a, snapshotEvents bits s maxDelay = .ok st ∧ Rep st a ∧
      a.pending = (snapshotSource s).zipIdx.map (fun (e, i) => (i, snapshotEv bits s maxDelay e)) ∧
      a.next = (snapshotSource s).length ∧ TmOK a := by
  obtain ⟨st, a, hf, hrep, hp, hn, htm⟩ :=
    snapFold_tm bits s.clock maxDelay ((s.nodes.filter (·.2.crashed)).map (·.1)) s.dumpEvents {} {} Rep.empty
      (by intro id p name d hm; cases hm) (by exact hu)
  refine ⟨st, a, hf, hrep, ?_, ?_, htm⟩
  · rw [hp]; rfl
  · rw [hn]; exact Nat.zero_add _

/-! ## the live events and the snapshot source -/

/-- what the snapshot takes over: the live events, without the messages addressed to crashed nodes -/
theorem mem_snapshotSource (q : Sim σ T) (e : QEv T) :
    e ∈ snapshotSource q ↔ e ∈ q.live ∧
      (∀ mid m src sn dst dn, e.data = .msg mid m src sn dst dn → dn ∉ (q.nodes.filter (·.2.crashed)).map (·.1)) := by
  unfold snapshotSource
  rw [List.mem_filter, mem_dumpEvents, Sim.mem_live]
  refine and_congr_right fun _ => ?_
  cases hd : e.data with
  | msg mid m src sn dst dn =>
    simp only [Bool.not_eq_true', List.contains_eq_mem, decide_eq_false_iff_not, QData.msg.injEq]
    constructor
    · rintro h _ _ _ _ _ _ ⟨-, -, -, -, -, rfl⟩; exact h
    · intro h; exact h mid m src sn dst dn ⟨rfl, rfl, rfl, rfl, rfl, rfl⟩
  | timer p name =>
    simp

theorem snapshotSource_ids_nodup (q : Sim σ T) (h : (q.events.map (·.id)).Nodup) :
    ((snapshotSource q).map (·.id)).Nodup := by
  have h1 : ((q.events.filter (fun e => !q.canceled.contains e.id)).map (·.id)).Nodup :=
    h.sublist (List.filter_sublist.map _)
  have h2 : (q.dumpEvents.map (·.id)).Nodup := ((dumpEvents_perm_liveS q).map _).nodup_iff.mpr h1
  unfold snapshotSource
  exact h2.sublist (List.filter_sublist.map _)

/-! ## the shape of `snapshotPending` -/

theorem mem_snapshotPending {bits : T → Nat} {q : Sim σ T} {i : Nat} {ev : Ev}
    (h : (i, ev) ∈ snapshotPending bits q) :
    ∃ e ∈ snapshotSource q, snapshotEv bits q (snapshotNet bits q).maxDelay e = ev := by
  obtain ⟨⟨e, k⟩, hm, heq⟩ := List.mem_map.mp h
  simp only [Prod.mk.injEq] at heq
  obtain ⟨rfl, rfl⟩ := heq
  exact ⟨e, (List.mem_zipIdx_iff_getElem?.mp hm) |> List.mem_of_getElem?, rfl⟩

theorem snapshotEv_msg {bits : T → Nat} {q : Sim σ T} {md : Nat} {e : QEv T} {m : Msg} {src dst : Nat} {o : Opts}
    (h : snapshotEv bits q md e = .msg m src dst o) : ∃ mid sn dn, e.data = .msg mid m src sn dst dn := by
  unfold snapshotEv at h
  split at h
  · next mid m' src' sn dst' dn hd =>
    simp only [Ev.msg.injEq] at h
    obtain ⟨rfl, rfl, rfl, -⟩ := h
    exact ⟨mid, sn, dn, hd⟩
  · cases h

theorem snapshotEv_timer' {bits : T → Nat} {q : Sim σ T} {md : Nat} {e : QEv T} {p n d : Nat}
    (h : snapshotEv bits q md e = .timer p n d) : e.data = .timer p n := by
  unfold snapshotEv at h
  split at h
  · cases h
  · next p' n' hd =>
    simp only [Ev.timer.injEq] at h
    obtain ⟨rfl, rfl, -⟩ := h
    exact hd

/-- the timer a queued event becomes -/
def snapTimer (bits : T → Nat) (q : Sim σ T) (e : QEv T) : Option PTimer :=
  match e.data with
  | .timer p name => some ⟨p, name, bits (TimeOps.sub e.time q.clock)⟩
  | .msg .. => none

theorem timersOf_zipIdx (bits : T → Nat) (q : Sim σ T) (md : Nat) (l : List (QEv T)) : ∀ k : Nat,
    timersOf ((l.zipIdx k).map (fun (e, i) => (i, snapshotEv bits q md e))) = l.filterMap (snapTimer bits q) := by
  induction l with
  | nil => intro k; rfl
  | cons e l ih =>
    intro k
    rw [List.zipIdx_cons, List.map_cons, List.filterMap_cons]
    cases hd : e.data with
    | msg mid m src sn dst dn =>
      have h1 : snapshotEv bits q md e = .msg m src dst (.noFail md) := by simp only [snapshotEv, hd]
      have h2 : snapTimer bits q e = none := by simp only [snapTimer, hd]
      simp only [h1, h2, timersOf_cons_msg]
      exact ih (k + 1)
    | timer p name =>
      have h1 : snapshotEv bits q md e = .timer p name (bits (TimeOps.sub e.time q.clock)) := by
        simp only [snapshotEv, hd]
      have h2 : snapTimer bits q e = some ⟨p, name, bits (TimeOps.sub e.time q.clock)⟩ := by
        simp only [snapTimer, hd]
      simp only [h1, h2, timersOf_cons_timer]
      rw [ih (k + 1)]

theorem timersOf_snapshotPending (bits : T → Nat) (q : Sim σ T) :
    timersOf (snapshotPending bits q) = (snapshotSource q).filterMap (snapTimer bits q) :=
  timersOf_zipIdx bits q _ _ 0

theorem snapTimer_some {bits : T → Nat} {q : Sim σ T} {e : QEv T} {t : PTimer} (h : snapTimer bits q e = some t) :
    e.data = .timer t.proc t.name := by
  unfold snapTimer at h
  split at h
  · cases h; assumption
  · cases h

/-- the reference state of the snapshot has a pending timer `(p, name)` iff a live queued timer event carries it -/
theorem snapshotRef_timerPending (bits : T → Nat) (q : Sim σ T) (p name : Nat) :
    (snapshotRef bits q).timerPending p name = true ↔ ∃ e ∈ q.live, e.data = .timer p name := by
  simp only [RState.timerPending, snapshotRef, timersOf_snapshotPending, List.any_eq_true, List.mem_filterMap,
    Bool.and_eq_true, beq_iff_eq]
  constructor
  · rintro ⟨t, ⟨e, he, ht⟩, rfl, rfl⟩
    exact ⟨e, ((mem_snapshotSource q e).mp he).1, snapTimer_some ht⟩
  · rintro ⟨e, he, hd⟩
    refine ⟨⟨p, name, bits (TimeOps.sub e.time q.clock)⟩, ⟨e, ?_, ?_⟩, rfl, rfl⟩
    · rw [mem_snapshotSource]
      refine ⟨he, ?_⟩
      intro mid m src sn dst dn hm
      rw [hd] at hm; cases hm
    · simp only [snapTimer, hd]

/-- unique live timers (per process and name) and unique event ids make the snapshot's timers unique -/
theorem snapshotPending_tuniq (bits : T → Nat) (q : Sim σ T) (hids : (q.events.map (·.id)).Nodup)
    (hu : ∀ e₁ ∈ q.live, ∀ e₂ ∈ q.live, ∀ p name, e₁.data = .timer p name → e₂.data = .timer p name → e₁.id = e₂.id) :
    TUniq (snapshotPending bits q) := by
  unfold TUniq
  rw [timersOf_snapshotPending]
  have hnd := snapshotSource_ids_nodup q hids
  rw [List.Nodup, List.pairwise_map] at hnd
  have hnd' : (snapshotSource q).Pairwise (fun a b => a ∈ q.live ∧ b ∈ q.live ∧ a.id ≠ b.id) :=
    hnd.imp_of_mem (fun ha hb hne =>
      ⟨((mem_snapshotSource q _).mp ha).1, ((mem_snapshotSource q _).mp hb).1, hne⟩)
  refine List.Pairwise.filterMap _ ?_ hnd'
  rintro a b ⟨ha, hb, hne⟩ ta hta tb htb ⟨hp, hn⟩
  have h1 := snapTimer_some hta
  have h2 := snapTimer_some htb
  rw [hp, hn] at h1
  exact hne (hu a ha b hb _ _ h1 h2)

/-! ## the node table of the snapshot -/

def cvProc (e : SProc σ T) : ProcEntry σ :=
  { st := e.st, log := e.log.map (·.ev), outbox := e.outbox, pending := e.pending.map (·.1), sent := e.sent, recv := e.recv }

def cvNode (nd : SNode σ T) : McNode σ :=
  { procs := nd.procs.map fun pe => (pe.1, cvProc pe.2), crashed := nd.crashed }

omit [TimeOps T] in
theorem snapshotNodes_eq (q : Sim σ T) : snapshotNodes q = q.nodes.map fun x => (x.1, cvNode x.2) := by
  unfold snapshotNodes
  apply List.map_congr_left
  rintro ⟨n, nd⟩ _
  simp only [cvNode, Prod.mk.injEq, McNode.mk.injEq, true_and, and_true]
  apply List.map_congr_left
  rintro ⟨p, e⟩ _
  rfl

theorem KSorted.map_val {β γ : Type} (g : β → γ) {l : List (Nat × β)} (h : KSorted l) :
    KSorted (l.map fun x => (x.1, g x.2)) := by
  unfold KSorted at h ⊢
  rw [List.pairwise_map]
  exact h

theorem snapshotNet_procLoc (bits : T → Nat) (q : Sim σ T) : (snapshotNet bits q).procLoc = q.net.procLoc :=
  (snapshotNet_spec bits q).1

end Anysystem
