import Anysystem.Spec.StoreSpec
namespace Anysystem

theorem store_refines (ops : List Op) (a : AStore) (outs : List Out)
    (h : AStore.run {} ops = some (a, outs)) :
    ∃ s, Store.runOps {} {} ops = .ok (s, outs) ∧ Abs s a := sorry

theorem offered_exact (ops : List Op) (a : AStore) (outs : List Out)
    (h : AStore.run {} ops = some (a, outs)) (id : Nat) :
    id ∈ specOffered a.pending ↔
      ∃ pre e post, a.pending = pre ++ (id, e) :: post ∧ ∀ y ∈ pre, blocks y.2 e = false := sorry

theorem available_events_exact (ops : List Op) (a : AStore) (outs : List Out)
    (h : AStore.run {} ops = some (a, outs)) (mode : Mode) :
    ∃ s l, Store.runOps {} {} ops = .ok (s, outs) ∧ s.availableEvents mode = .ok l ∧
      ∀ id, id ∈ l ↔ id ∈ specOfferedMode a.pending mode := sorry

theorem no_wedge (ops : List Op) (a : AStore) (outs : List Out)
    (h : AStore.run {} ops = some (a, outs)) (hne : a.pending ≠ []) :
    specOffered a.pending ≠ [] := sorry

theorem progress (ops : List Op) (a : AStore) (outs : List Out)
    (h : AStore.run {} ops = some (a, outs)) (x : Nat × Ev) (hx : x ∈ a.pending) :
    ∃ ids A', ids.length ≤ a.pending.length ∧ x.1 ∉ ids ∧ popOffered a.pending ids = some A' ∧
      x.1 ∈ specOffered A' := sorry

theorem ids_unique (ops : List Op) (a : AStore) (outs : List Out)
    (h : AStore.run {} ops = some (a, outs)) :
    (a.pending.map (·.1)).Nodup ∧ ∀ x ∈ a.pending, x.1 < a.next := sorry

theorem no_resurrection (ops₁ ops₂ : List Op) (a₁ a₂ : AStore) (o₁ o₂ : List Out) (id : Nat)
    (h₁ : AStore.run {} ops₁ = some (a₁, o₁)) (hdead : a₁.live id = false) (hold : id < a₁.next)
    (h₂ : a₁.run ops₂ = some (a₂, o₂)) (hno : ∀ e, Op.reinsert e id ∉ ops₂) :
    a₂.live id = false := sorry

end Anysystem
