import Anysystem.Spec.StoreSpec
import Anysystem.Proofs.SpecLemmas
import Anysystem.Proofs.StoreLemmas
namespace Anysystem

theorem head_offered (x : Nat × Ev) (rest : List (Nat × Ev)) : x.1 ∈ specOffered (x :: rest) := by
  simp [specOffered, offeredFrom]

theorem store_refines (ops : List Op) (a : AStore) (outs : List Out)
    (h : AStore.run {} ops = some (a, outs)) :
    ∃ s, Store.runOps {} {} ops = .ok (s, outs) ∧ Abs s a := by
  obtain ⟨s, hs, hr⟩ := Rep.run (s := {}) (a := {}) Rep.empty h
  exact ⟨s, hs, hr.abs⟩

theorem offered_exact (ops : List Op) (a : AStore) (outs : List Out)
    (h : AStore.run {} ops = some (a, outs)) (id : Nat) :
    id ∈ specOffered a.pending ↔
      ∃ pre e post, a.pending = pre ++ (id, e) :: post ∧ ∀ y ∈ pre, blocks y.2 e = false := by
  have hinv := PInv.of_run h
  constructor
  · intro hm
    obtain ⟨e, hg⟩ := specOffered_live hm
    obtain ⟨l, r, hd⟩ := amGet?_decomp hg
    refine ⟨l, e, r, hd, ?_⟩
    have hnd := hinv.nodup
    rw [hd] at hm hnd
    exact (mem_specOffered_decomp l r id e hnd).mp hm
  · rintro ⟨l, e, r, hd, hb⟩
    have hnd := hinv.nodup
    rw [hd] at hnd ⊢
    exact (mem_specOffered_decomp l r id e hnd).mpr hb

theorem mode_lemma (av sp : List Nat) (f g : Nat → Bool) (hfg : ∀ id, f id = g id)
    (hav : ∀ id, id ∈ av ↔ id ∈ sp) (id : Nat) :
    id ∈ (if (av.filter f).isEmpty then av else av.filter f) ↔
      id ∈ (if (sp.filter g).isEmpty then sp else sp.filter g) := by
  have hf : f = g := funext hfg
  subst hf
  have hmem : ∀ id, id ∈ av.filter f ↔ id ∈ sp.filter f := by
    intro id
    simp only [List.mem_filter, hav]
  have hemp : (av.filter f).isEmpty = (sp.filter f).isEmpty := by
    rw [Bool.eq_iff_iff]
    simp only [List.isEmpty_iff, List.eq_nil_iff_forall_not_mem, hmem]
  rw [hemp]
  split
  · exact hav id
  · exact hmem id

theorem available_events_exact (ops : List Op) (a : AStore) (outs : List Out)
    (h : AStore.run {} ops = some (a, outs)) (mode : Mode) :
    ∃ s l, Store.runOps {} {} ops = .ok (s, outs) ∧ s.availableEvents mode = .ok l ∧
      ∀ id, id ∈ l ↔ id ∈ specOfferedMode a.pending mode := by
  obtain ⟨s, hs, hr⟩ := Rep.run (s := {}) (a := {}) Rep.empty h
  have habs := hr.abs
  have hassert : s.assertOk = true := by
    simp only [Store.assertOk, Bool.or_eq_true, Bool.not_eq_eq_eq_not, Bool.not_true]
    cases hev : s.events with
    | nil => right; rfl
    | cons x rest =>
      left
      have hx : amGet? x.1 s.events = some x.2 := by rw [hev]; simp [amGet?]
      rw [hr.get_eq] at hx
      have hmem := amGet?_eq_some_mem hx
      cases hp : a.pending with
      | nil => rw [hp] at hmem; simp at hmem
      | cons y ys =>
        have := (hr.avail y.1).mpr (by rw [hp]; exact head_offered y ys)
        cases hav : s.available with
        | nil => rw [hav] at this; simp at this
        | cons _ _ => rfl
  cases mode with
  | normal =>
    refine ⟨s, s.available, hs, ?_, ?_⟩
    · simp [Store.availableEvents, hassert]
    · intro id
      simp only [specOfferedMode]
      exact hr.avail id
  | messagesFirst =>
    have hlive : s.available.any (fun id => (s.get id).isNone) = false := by
      rw [List.any_eq_false]
      intro id hid
      obtain ⟨e, he⟩ := specOffered_live ((hr.avail id).mp hid)
      simp only [Store.get, hr.get_eq, he]
      simp
    have key : ∃ l, s.availableEvents .messagesFirst = .ok l ∧
        ∀ id, id ∈ l ↔ id ∈ specOfferedMode a.pending .messagesFirst := by
      simp only [Store.availableEvents, hassert, Bool.not_true, Bool.false_eq_true, ↓reduceIte,
        hlive]
      refine ⟨_, rfl, ?_⟩
      intro id
      simp only [specOfferedMode]
      exact mode_lemma _ _ _ _ (fun id => by rw [habs.get_eq] <;> rfl) hr.avail id
    obtain ⟨l, hl, hiff⟩ := key
    exact ⟨s, l, hs, hl, hiff⟩

set_option linter.unusedVariables false in
theorem no_wedge (ops : List Op) (a : AStore) (outs : List Out)
    (h : AStore.run {} ops = some (a, outs)) (hne : a.pending ≠ []) :
    specOffered a.pending ≠ [] := by
  cases hp : a.pending with
  | nil => exact absurd hp hne
  | cons x rest =>
    intro he
    have := head_offered x rest
    rw [he] at this
    simp at this

theorem popOffered_prefix (pre : List (Nat × Ev)) (x : Nat × Ev) (post : List (Nat × Ev))
    (hnd : (keys (pre ++ x :: post)).Nodup) :
    popOffered (pre ++ x :: post) (keys pre) = some (x :: post) := by
  induction pre with
  | nil => simp [popOffered]
  | cons y pre ih =>
    simp only [keys, List.cons_append, List.map_cons, List.nodup_cons] at hnd
    simp only [keys, List.map_cons, popOffered, List.cons_append, head_offered, ↓reduceIte]
    have hf : List.filter (fun z => z.1 != y.1) (y :: (pre ++ x :: post)) = pre ++ x :: post := by
      simp only [List.filter_cons, bne_self_eq_false, Bool.false_eq_true, ↓reduceIte]
      rw [List.filter_eq_self]
      intro z hz
      simp only [bne_iff_ne, ne_eq]
      intro e
      apply hnd.1
      rw [← e]
      exact List.mem_map_of_mem hz
    rw [hf]
    exact ih hnd.2

theorem progress (ops : List Op) (a : AStore) (outs : List Out)
    (h : AStore.run {} ops = some (a, outs)) (x : Nat × Ev) (hx : x ∈ a.pending) :
    ∃ ids A', ids.length ≤ a.pending.length ∧ x.1 ∉ ids ∧ popOffered a.pending ids = some A' ∧
      x.1 ∈ specOffered A' := by
  have hinv := PInv.of_run h
  obtain ⟨pre, post, hd⟩ := List.append_of_mem hx
  have hnd := hinv.nodup
  rw [hd] at hnd
  refine ⟨keys pre, x :: post, ?_, ?_, ?_, head_offered x post⟩
  · rw [hd]; simp only [keys, List.length_map, List.length_append, List.length_cons]; omega
  · simp only [keys, List.map_append, List.map_cons] at hnd
    rw [List.nodup_append] at hnd
    intro hm
    exact hnd.2.2 _ hm x.1 (by simp) rfl
  · rw [hd]; exact popOffered_prefix pre x post hnd

theorem ids_unique (ops : List Op) (a : AStore) (outs : List Out)
    (h : AStore.run {} ops = some (a, outs)) :
    (a.pending.map (·.1)).Nodup ∧ ∀ x ∈ a.pending, x.1 < a.next :=
  ⟨(PInv.of_run h).nodup, (PInv.of_run h).lt_next⟩

theorem dead_step {a a' : AStore} {op : Op} {o : Out} {id : Nat}
    (hdead : a.live id = false) (hold : id < a.next) (hs : a.step op = some (a', o))
    (hno : ∀ e, op ≠ Op.reinsert e id) : a'.live id = false ∧ id < a'.next := by
  rw [not_live_iff] at hdead ⊢
  have hfil : ∀ q : Nat × Ev → Bool, id ∉ keys (a.pending.filter q) := by
    intro q hm
    obtain ⟨x, hx, hxe⟩ := List.mem_map.mp hm
    exact hdead (List.mem_map.mpr ⟨x, (List.mem_filter.mp hx).1, hxe⟩)
  cases op with
  | push e =>
    simp only [AStore.step] at hs
    split at hs
    · simp only [Option.some.injEq, Prod.mk.injEq] at hs
      obtain ⟨rfl, _⟩ := hs
      simp only [keys, List.map_append, List.map_cons, List.map_nil, List.mem_append,
        List.mem_singleton]
      exact ⟨fun h => h.elim hdead (by omega), by omega⟩
    · split at hs
      · simp only [Option.some.injEq, Prod.mk.injEq] at hs
        obtain ⟨rfl, _⟩ := hs
        simp only [keys, List.map_append, List.map_cons, List.map_nil, List.mem_append,
          List.mem_singleton]
        exact ⟨fun h => h.elim hdead (by omega), by omega⟩
      · simp at hs
  | reinsert e id' =>
    simp only [AStore.step] at hs
    split at hs
    · simp only [Option.some.injEq, Prod.mk.injEq] at hs
      obtain ⟨rfl, _⟩ := hs
      have : id ≠ id' := by
        intro e'; subst e'; exact hno e rfl
      simp only [keys, List.map_append, List.map_cons, List.map_nil, List.mem_append,
        List.mem_singleton]
      exact ⟨fun h => h.elim hdead this, hold⟩
    · simp at hs
  | pop id' =>
    simp only [AStore.step] at hs
    split at hs
    · simp only [Option.some.injEq, Prod.mk.injEq] at hs
      obtain ⟨rfl, _⟩ := hs
      exact ⟨hfil _, hold⟩
    · simp at hs
  | cancelTimer p n =>
    simp only [AStore.step] at hs
    split at hs
    · simp only [Option.some.injEq, Prod.mk.injEq] at hs
      obtain ⟨rfl, _⟩ := hs
      exact ⟨hdead, hold⟩
    · simp only [Option.some.injEq, Prod.mk.injEq] at hs
      obtain ⟨rfl, _⟩ := hs
      exact ⟨hfil _, hold⟩
  | cancelProc p =>
    simp only [AStore.step, Option.some.injEq, Prod.mk.injEq] at hs
    obtain ⟨rfl, _⟩ := hs
    exact ⟨hfil _, hold⟩

set_option linter.unusedVariables false in
theorem no_resurrection (ops₁ ops₂ : List Op) (a₁ a₂ : AStore) (o₁ o₂ : List Out) (id : Nat)
    (h₁ : AStore.run {} ops₁ = some (a₁, o₁)) (hdead : a₁.live id = false) (hold : id < a₁.next)
    (h₂ : a₁.run ops₂ = some (a₂, o₂)) (hno : ∀ e, Op.reinsert e id ∉ ops₂) :
    a₂.live id = false := by
  clear h₁
  induction ops₂ generalizing a₁ o₂ with
  | nil =>
    simp only [AStore.run, Option.some.injEq, Prod.mk.injEq] at h₂
    obtain ⟨rfl, _⟩ := h₂
    exact hdead
  | cons op ops ih =>
    simp only [AStore.run] at h₂
    split at h₂
    · simp at h₂
    · rename_i a1 o1 hstep
      split at h₂
      · simp at h₂
      · rename_i a2 os2 hrun
        simp only [Option.some.injEq, Prod.mk.injEq] at h₂
        obtain ⟨rfl, _⟩ := h₂
        have hd := dead_step hdead hold hstep (fun e he => hno e (by simp [he]))
        exact ih a1 os2 hd.1 hd.2 hrun (fun e hm => hno e (by simp [hm]))

end Anysystem
