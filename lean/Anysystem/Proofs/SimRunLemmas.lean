import Anysystem.Proofs.SimTraceInv
/-!
# Helper lemmas for `SimRunThms.lean`

Two step relations are carried through `sendMessage` → `handleActions` → `runHandler` → `onMessage / onTimer / onLocal`
(packaged together as `Run`, so that the case analysis of `handleActions` is done once):

* `OStep c s s'` — *origin*: every trace entry added is, if it is a `recv` or a `dropped` entry, backed by a `sent` entry
  (`SLog.OrgOk`), every queued event of `s'` was queued in `s` or is backed by a `sent` entry (`QEv.OrgOk`), the
  corruption rate is untouched and draws are only dropped from the front.  The flag `c` says whether the canonical
  corruption of the sent payload is an admissible payload (`c = true`: the invariant `TraceOrigin`; `c = false`: the
  exact-payload invariant of `received_intact_no_corruption`, which needs `NoCorr`: no draw is below the corruption rate).
* `Quiet n0 s s'` — *silence of node `n0`*: the handlers are untouched, no trace entry added records a handler invocation
  on `n0`, the node entry of `n0` is untouched.
-/
namespace Anysystem

set_option linter.unusedSectionVars false

variable {σ T : Type} [TimeOps T]

/-- the trace entry records a handler invocation on node `n` -/
def SLog.handledOn (n : Nat) : SLog T → Bool
  | .recv _ _ _ _ dn _ _ => dn == n
  | .timerFired _ _ _ node _ => node == n
  | .localRecv _ node _ _ _ => node == n
  | _ => false

/-- message `mid` from `src` on node `sn` to `dst` on node `dn` with payload `m` stems from a `sent` entry of `tr`:
    same identifier and endpoints, the payload sent or (if `c`, and only across nodes) its canonical corruption -/
def Org (c : Bool) (tr : List (SLog T)) (mid sn src dn dst : Nat) (m : Msg) : Prop :=
  ∃ t m0, SLog.sent t mid sn src dn dst m0 ∈ tr ∧ (m = m0 ∨ (c = true ∧ sn ≠ dn ∧ m = corruptSim m0))

theorem Org.mono {c : Bool} {tr tr' : List (SLog T)} {mid sn src dn dst : Nat} {m : Msg}
    (hsub : ∀ x ∈ tr, x ∈ tr') (h : Org c tr mid sn src dn dst m) : Org c tr' mid sn src dn dst m := by
  obtain ⟨t, m0, hm, hp⟩ := h
  exact ⟨t, m0, hsub _ hm, hp⟩

theorem org_true_iff (tr : List (SLog T)) (mid sn src dn dst : Nat) (m : Msg) :
    Org true tr mid sn src dn dst m ↔
      ∃ t m0, SLog.sent t mid sn src dn dst m0 ∈ tr ∧ (m = m0 ∨ (sn ≠ dn ∧ m = corruptSim m0)) := by
  simp [Org]

theorem org_false_iff (tr : List (SLog T)) (mid sn src dn dst : Nat) (m : Msg) :
    Org false tr mid sn src dn dst m ↔ ∃ t, SLog.sent t mid sn src dn dst m ∈ tr := by
  constructor
  · rintro ⟨t, m0, hm, h | h⟩
    · exact ⟨t, h ▸ hm⟩
    · exact absurd h.1 (by simp)
  · rintro ⟨t, hm⟩
    exact ⟨t, m, hm, .inl rfl⟩

/-- a `recv` / `dropped` entry is backed by a `sent` entry of `tr` -/
def SLog.OrgOk (c : Bool) (tr : List (SLog T)) : SLog T → Prop
  | .recv _ mid sn src dn dst m => Org c tr mid sn src dn dst m
  | .dropped _ mid sn src dn dst m => Org c tr mid sn src dn dst m
  | _ => True

theorem SLog.OrgOk.mono {c : Bool} {tr tr' : List (SLog T)} {x : SLog T} (hsub : ∀ y ∈ tr, y ∈ tr')
    (h : x.OrgOk c tr) : x.OrgOk c tr' := by
  cases x <;> first | trivial | exact Org.mono hsub h

/-- a queued message copy is addressed to the node its data names and is backed by a `sent` entry of `tr` -/
def QEv.OrgOk (c : Bool) (tr : List (SLog T)) (e : QEv T) : Prop :=
  ∀ mid m src sn dst dn, e.data = .msg mid m src sn dst dn → e.dst = dn ∧ Org c tr mid sn src dn dst m

theorem QEv.OrgOk.mono {c : Bool} {tr tr' : List (SLog T)} {e : QEv T} (hsub : ∀ y ∈ tr, y ∈ tr')
    (h : e.OrgOk c tr) : e.OrgOk c tr' :=
  fun mid m src sn dst dn hd => ⟨(h mid m src sn dst dn hd).1, Org.mono hsub (h mid m src sn dst dn hd).2⟩

namespace Sim

theorem sub_of_append {s s' : Sim σ T} {ext : List (SLog T)} (h : s'.trace = s.trace ++ ext) :
    ∀ x ∈ s.trace, x ∈ s'.trace := fun x hx => by rw [h]; exact List.mem_append_left _ hx

/-- no draw of the stream (nor the value of an exhausted stream) lies below the corruption rate -/
def NoCorr (s : Sim σ T) : Prop :=
  ∀ r, (r ∈ s.draws ∨ r = TimeOps.zero) → TimeOps.lt r s.net.corruptRate = false

/-- what a send needs for `OStep c`: nothing when corruption is admissible, `NoCorr` otherwise -/
def Pre (c : Bool) (s : Sim σ T) : Prop := c = true ∨ s.NoCorr

/-! ### the two step relations -/

structure OStep (c : Bool) (s s' : Sim σ T) : Prop where
  trace : ∃ ext, s'.trace = s.trace ++ ext ∧ ∀ x ∈ ext, x.OrgOk c s'.trace
  events : ∀ e ∈ s'.events, e ∈ s.events ∨ e.OrgOk c s'.trace
  rate : s'.net.corruptRate = s.net.corruptRate
  draws : ∀ d ∈ s'.draws, d ∈ s.draws

structure Quiet (n0 : Nat) (s s' : Sim σ T) : Prop where
  handlers : s'.handlers = s.handlers
  trace : ∃ ext, s'.trace = s.trace ++ ext ∧ ∀ x ∈ ext, x.handledOn n0 = false
  node : amGet? n0 s'.nodes = amGet? n0 s.nodes

structure Run (c : Bool) (n0 : Nat) (s s' : Sim σ T) : Prop where
  o : OStep c s s'
  q : Quiet n0 s s'

theorem OStep.refl (c : Bool) (s : Sim σ T) : OStep c s s :=
  ⟨⟨[], by simp, by simp⟩, fun _ h => .inl h, rfl, fun _ h => h⟩

theorem OStep.trans {c : Bool} {s s1 s2 : Sim σ T} (h1 : OStep c s s1) (h2 : OStep c s1 s2) : OStep c s s2 := by
  obtain ⟨ext1, ht1, hx1⟩ := h1.trace
  obtain ⟨ext2, ht2, hx2⟩ := h2.trace
  have hsub := sub_of_append ht2
  refine ⟨⟨ext1 ++ ext2, by rw [ht2, ht1, List.append_assoc], ?_⟩, ?_, h2.rate.trans h1.rate,
    fun d hd => h1.draws d (h2.draws d hd)⟩
  · intro x hx
    rcases List.mem_append.1 hx with hx | hx
    · exact (hx1 x hx).mono hsub
    · exact hx2 x hx
  · intro e he
    rcases h2.events e he with he | he
    · rcases h1.events e he with he | he
      · exact .inl he
      · exact .inr (he.mono hsub)
    · exact .inr he

theorem Quiet.refl (n0 : Nat) (s : Sim σ T) : Quiet n0 s s := ⟨rfl, ⟨[], by simp, by simp⟩, rfl⟩

theorem Quiet.trans {n0 : Nat} {s s1 s2 : Sim σ T} (h1 : Quiet n0 s s1) (h2 : Quiet n0 s1 s2) : Quiet n0 s s2 := by
  obtain ⟨ext1, ht1, hx1⟩ := h1.trace
  obtain ⟨ext2, ht2, hx2⟩ := h2.trace
  refine ⟨h2.handlers.trans h1.handlers, ⟨ext1 ++ ext2, by rw [ht2, ht1, List.append_assoc], ?_⟩,
    h2.node.trans h1.node⟩
  intro x hx
  rcases List.mem_append.1 hx with hx | hx
  · exact hx1 x hx
  · exact hx2 x hx

theorem Run.refl (c : Bool) (n0 : Nat) (s : Sim σ T) : Run c n0 s s := ⟨OStep.refl c s, Quiet.refl n0 s⟩

theorem Run.trans {c : Bool} {n0 : Nat} {s s1 s2 : Sim σ T} (h1 : Run c n0 s s1) (h2 : Run c n0 s1 s2) :
    Run c n0 s s2 := ⟨h1.o.trans h2.o, h1.q.trans h2.q⟩

theorem Pre.of_step {c : Bool} {s s' : Sim σ T} (hp : Pre c s) (h : OStep c s s') : Pre c s' := by
  rcases hp with hp | hp
  · exact .inl hp
  · right
    intro r hr
    rw [h.rate]
    rcases hr with hr | hr
    · exact hp r (.inl (h.draws r hr))
    · exact hp r (.inr hr)

theorem Pre.of_run {c : Bool} {n0 : Nat} {s s' : Sim σ T} (hp : Pre c s) (h : Run c n0 s s') : Pre c s' :=
  hp.of_step h.o

/-- the queue invariant: every queued message copy is backed by a `sent` entry -/
def QOk (c : Bool) (s : Sim σ T) : Prop := ∀ e ∈ s.events, e.OrgOk c s.trace

/-- the trace invariant: every `recv` / `dropped` entry is backed by a `sent` entry -/
def TrOk (c : Bool) (s : Sim σ T) : Prop := ∀ x ∈ s.trace, x.OrgOk c s.trace

theorem QOk.of_step {c : Bool} {s s' : Sim σ T} (hq : QOk c s) (h : OStep c s s') : QOk c s' := by
  obtain ⟨ext, ht, _⟩ := h.trace
  intro e he
  rcases h.events e he with he | he
  · exact (hq e he).mono (sub_of_append ht)
  · exact he

theorem TrOk.of_step {c : Bool} {s s' : Sim σ T} (hq : TrOk c s) (h : OStep c s s') : TrOk c s' := by
  obtain ⟨ext, ht, hx⟩ := h.trace
  intro x hxm
  rw [ht] at hxm
  rcases List.mem_append.1 hxm with hxm | hxm
  · exact (hq x hxm).mono (sub_of_append ht)
  · exact hx x hxm

/-! ### bookkeeping primitives -/

/-- trace untouched, no new events -/
theorem Run.of_frame {c : Bool} {n0 : Nat} {s s' : Sim σ T} (htr : s'.trace = s.trace)
    (hev : ∀ e ∈ s'.events, e ∈ s.events) (hrate : s'.net.corruptRate = s.net.corruptRate)
    (hdr : ∀ d ∈ s'.draws, d ∈ s.draws) (hh : s'.handlers = s.handlers)
    (hnode : amGet? n0 s'.nodes = amGet? n0 s.nodes) : Run c n0 s s' :=
  ⟨⟨⟨[], by rw [htr, List.append_nil], by simp⟩, fun e he => .inl (hev e he), hrate, hdr⟩,
   ⟨hh, ⟨[], by rw [htr, List.append_nil], by simp⟩, hnode⟩⟩

theorem Run.setNode {c : Bool} {n0 n : Nat} (s : Sim σ T) (hne : n ≠ n0) (nd : SNode σ T) :
    Run c n0 s (s.setNode n nd) :=
  Run.of_frame rfl (fun _ h => h) rfl (fun _ h => h) rfl
    (by simp [Sim.setNode, amGet?_amInsert, Ne.symm hne])

theorem Run.updProc {c : Bool} {n0 n : Nat} (s : Sim σ T) (hne : n ≠ n0) (p : Nat) (f : SProc σ T → SProc σ T) :
    Run c n0 s (s.updProc n p f) := by
  unfold Sim.updProc
  split
  · exact Run.refl c n0 s
  · split
    · exact Run.refl c n0 s
    · exact Run.setNode s hne _

theorem Run.dropDraws {c : Bool} {n0 : Nat} (s : Sim σ T) (k : Nat) : Run c n0 s { s with draws := s.draws.drop k } :=
  Run.of_frame rfl (fun _ h => h) rfl (fun _ h => List.mem_of_mem_drop h) rfl rfl

theorem Run.cancelEvent {c : Bool} {n0 : Nat} (s : Sim σ T) (id : Nat) : Run c n0 s (s.cancelEvent id) :=
  Run.of_frame rfl (fun _ h => h) rfl (fun _ h => h) rfl rfl

theorem OStep.log {c : Bool} (s : Sim σ T) (x : SLog T) (h1 : x.OrgOk c (s.trace ++ [x])) : OStep c s (s.log x) :=
  ⟨⟨[x], rfl, fun y hy => by rw [List.mem_singleton] at hy; subst hy; exact h1⟩, fun _ h => .inl h, rfl, fun _ h => h⟩

theorem Quiet.log {n0 : Nat} (s : Sim σ T) (x : SLog T) (h2 : x.handledOn n0 = false) : Quiet n0 s (s.log x) :=
  ⟨rfl, ⟨[x], rfl, fun y hy => by rw [List.mem_singleton] at hy; subst hy; exact h2⟩, rfl⟩

theorem Run.log {c : Bool} {n0 : Nat} (s : Sim σ T) (x : SLog T) (h1 : x.OrgOk c (s.trace ++ [x]))
    (h2 : x.handledOn n0 = false) : Run c n0 s (s.log x) := ⟨OStep.log s x h1, Quiet.log s x h2⟩

/-- a queued timer is not a message copy -/
theorem Run.addTimer {c : Bool} {n0 : Nat} (s : Sim σ T) (p name src dst : Nat) (d : T) :
    Run c n0 s (s.addEvent (.timer p name) src dst d).1 := by
  refine ⟨⟨⟨[], by simp [Sim.addEvent], by simp⟩, ?_, rfl, fun _ h => h⟩, ⟨rfl, ⟨[], by simp [Sim.addEvent], by simp⟩, rfl⟩⟩
  intro e he
  simp only [Sim.addEvent, List.mem_append, List.mem_singleton] at he
  rcases he with he | he
  · exact .inl he
  · right
    subst he
    intro mid m src' sn dst' dn hd
    cases hd

theorem Run.then_updProc {c : Bool} {n0 n : Nat} {s s1 : Sim σ T} (hne : n ≠ n0) (h : Run c n0 s s1) (p : Nat)
    (f : SProc σ T → SProc σ T) : Run c n0 s (s1.updProc n p f) := h.trans (Run.updProc s1 hne p f)
theorem Run.then_setNode {c : Bool} {n0 n : Nat} {s s1 : Sim σ T} (hne : n ≠ n0) (h : Run c n0 s s1)
    (nd : SNode σ T) : Run c n0 s (s1.setNode n nd) := h.trans (Run.setNode s1 hne nd)
theorem Run.then_log {c : Bool} {n0 : Nat} {s s1 : Sim σ T} (h : Run c n0 s s1) (x : SLog T)
    (h1 : x.OrgOk c (s1.trace ++ [x])) (h2 : x.handledOn n0 = false) : Run c n0 s (s1.log x) :=
  h.trans (Run.log s1 x h1 h2)
theorem Run.then_cancelEvent {c : Bool} {n0 : Nat} {s s1 : Sim σ T} (h : Run c n0 s s1) (id : Nat) :
    Run c n0 s (s1.cancelEvent id) := h.trans (Run.cancelEvent s1 id)
theorem Run.then_addTimer {c : Bool} {n0 : Nat} {s s1 : Sim σ T} (h : Run c n0 s s1) (p name src dst : Nat) (d : T) :
    Run c n0 s (s1.addEvent (.timer p name) src dst d).1 := h.trans (Run.addTimer s1 p name src dst d)

/-- `next_event` (whatever it returns) -/
theorem Run.pop {c : Bool} {n0 : Nat} {fuel : Nat} {s s1 : Sim σ T} {o : Option (QEv T)}
    (hpop : nextEvent fuel s = (o, s1)) : Run c n0 s s1 := by
  obtain ⟨h1, h2, h3, _, h5, h6, h7, _, _⟩ := nextEvent_frame fuel s s1 _ hpop
  exact Run.of_frame h1 (fun e he => h7.subset he) (by rw [h2]) (by rw [h3]; exact fun _ h => h) h6 (by rw [h5])

/-! ### `sendMessage` -/

theorem sendMessage_orun (c : Bool) (n0 : Nat) {s s' : Sim σ T} {m : Msg} {src dst tl : Nat} (hp : Pre c s)
    (hok : s.sendMessage m src dst tl = .ok s') : Run c n0 s s' := by
  obtain ⟨sn, dn, hs, hdl⟩ := sendMessage_ok_loc hok
  by_cases hne : sn = dn
  · subst hne
    rw [sendMessage_same s m src dst sn _ hs hdl] at hok
    cases hok
    refine ⟨⟨⟨[_], rfl, ?_⟩, ?_, rfl, fun _ h => h⟩, ⟨rfl, ⟨[_], rfl, ?_⟩, rfl⟩⟩
    · intro x hx
      rw [List.mem_singleton] at hx
      subst hx
      trivial
    · intro e he
      rcases List.mem_append.1 he with he | he
      · exact .inl he
      · right
        rw [List.mem_singleton] at he
        subst he
        intro mid m' src' sn' dst' dn' hdat
        cases hdat
        exact ⟨rfl, s.clock, m, by simp, .inl rfl⟩
    · intro x hx
      rw [List.mem_singleton] at hx
      subst hx
      rfl
  · rw [sendMessage_cross s m src dst sn dn _ hs hdl hne] at hok
    have hs' := (Except.ok.inj hok).symm
    clear hok
    cases hdr : s.sendDropped sn dn with
    | true =>
      rw [cross_dropped _ _ _ _ _ _ _ hdr] at hs'
      subst hs'
      refine ⟨⟨⟨[_, _], rfl, ?_⟩, fun _ h => .inl h, rfl, fun _ h => List.mem_of_mem_drop h⟩,
        ⟨rfl, ⟨[_, _], rfl, ?_⟩, rfl⟩⟩
      · intro x hx
        simp only [List.mem_cons, List.not_mem_nil, or_false] at hx
        rcases hx with rfl | rfl
        · trivial
        · exact ⟨s.clock, m, by simp, .inl rfl⟩
      · intro x hx
        simp only [List.mem_cons, List.not_mem_nil, or_false] at hx
        rcases hx with rfl | rfl <;> rfl
    | false =>
      rw [cross_passed _ _ _ _ _ _ _ hdr] at hs'
      subst hs'
      refine ⟨⟨⟨[_], rfl, ?_⟩, ?_, rfl, fun _ h => List.mem_of_mem_drop h⟩, ⟨rfl, ⟨[_], rfl, ?_⟩, rfl⟩⟩
      · intro x hx
        rw [List.mem_singleton] at hx
        subst hx
        trivial
      · intro e he
        rcases List.mem_append.1 he with he | he
        · exact .inl he
        · right
          obtain ⟨i, _, rfl⟩ := List.mem_map.1 he
          intro mid m' src' sn' dst' dn' hdat
          simp only [copyEv] at hdat
          cases hdat
          refine ⟨rfl, s.clock, m, by simp, ?_⟩
          unfold sendPayload
          split
          · rename_i hlt
            rcases hp with hp | hp
            · exact .inr ⟨hp, hne, rfl⟩
            · rw [hp _ (dr_mem_or_zero s.draws 1)] at hlt
              cases hlt
          · exact .inl rfl
      · intro x hx
        rw [List.mem_singleton] at hx
        subst hx
        rfl

/-! ### handler runs -/

theorem handleActions_orun (c : Bool) (n0 n p : Nat) (time : T) (acts : List Action) (hne : n ≠ n0) :
    ∀ (s s' : Sim σ T), Pre c s → handleActions n p time acts s = .ok s' → Run c n0 s s' := by
  induction acts with
  | nil =>
    intro s s' _ h
    simp only [handleActions, Except.ok.injEq] at h
    subst h
    exact Run.refl c n0 s
  | cons a rest ih =>
    intro s s' hp h
    have cont : ∀ s1 : Sim σ T, Run c n0 s s1 → handleActions n p time rest s1 = .ok s' → Run c n0 s s' :=
      fun s1 hr h1 => hr.trans (ih s1 s' (hp.of_run hr) h1)
    cases a with
    | send m dst =>
      simp only [handleActions] at h
      split at h
      · cases h
      · rename_i s1 hs1
        have r1 : Run c n0 s (s.updProc n p fun e => { e with log := e.log ++ [⟨time, .sent m p dst⟩] }) :=
          Run.updProc s hne p _
        have r2 := r1.trans (sendMessage_orun c n0 (hp.of_run r1) hs1)
        exact cont _ (r2.then_updProc hne p _) h
    | loc m =>
      simp only [handleActions] at h
      split at h
      · cases h
      · split at h
        · cases h
        · refine cont _ ?_ h
          refine Run.then_setNode hne ?_ _
          refine Run.then_log ?_ _ trivial rfl
          exact Run.updProc s hne p _
    | set name delay once =>
      simp only [handleActions] at h
      split at h
      · cases h
      · split at h
        · cases h
        · split at h
          · split at h
            · exact cont _ (Run.updProc s hne p _) h
            · refine cont _ ?_ h
              refine Run.then_log ?_ _ trivial rfl
              refine Run.then_updProc hne ?_ p _
              refine Run.then_addTimer ?_ _ _ _ _ _
              refine Run.then_cancelEvent ?_ _
              exact Run.updProc s hne p _
          · refine cont _ ?_ h
            refine Run.then_log ?_ _ trivial rfl
            refine Run.then_updProc hne ?_ p _
            refine Run.then_addTimer ?_ _ _ _ _ _
            exact Run.updProc s hne p _
    | cancel name =>
      simp only [handleActions] at h
      split at h
      · cases h
      · split at h
        · cases h
        · split at h
          · refine cont _ ?_ h
            refine Run.then_cancelEvent ?_ _
            refine Run.then_log ?_ _ trivial rfl
            refine Run.then_updProc hne ?_ p _
            exact Run.updProc s hne p _
          · exact cont _ (Run.updProc s hne p _) h

theorem runHandler_orun (c : Bool) (n0 : Nat) (h : SHandler σ T) {n p : Nat} {time : T} {i : Input} {s s' : Sim σ T}
    (hne : n ≠ n0) (hp : Pre c s) (hok : runHandler h n p time i s = .ok s') : Run c n0 s s' := by
  cases hn : amGet? n s.nodes with
  | none => simp [Sim.runHandler, nodeOf, hn] at hok
  | some nd =>
    cases he : amGet? p nd.procs with
    | none => simp [Sim.runHandler, nodeOf, hn, he] at hok
    | some e =>
      obtain ⟨st', acts, used, _, hact⟩ := runHandler_ok h n p time i s s' hn he hok
      have r1 : Run c n0 s (({ s with draws := s.draws.drop used }).updProc n p fun e => { e with st := st' }) :=
        (Run.dropDraws s used).then_updProc hne p _
      exact r1.trans (handleActions_orun c n0 n p time acts hne _ s' (hp.of_run r1) hact)

/-- `on_message_received`, from the state in which the `MessageReceived` entry is already logged -/
theorem onMessage_orun (c : Bool) (n0 : Nat) (h : SHandler σ T) {n mid p : Nat} {m : Msg} {src srcNode : Nat}
    {s s' : Sim σ T} (hne : n ≠ n0) (hp : Pre c s) (hok : onMessage h n mid p m src srcNode s = .ok s') :
    Run c n0 (s.log (.recv s.clock mid srcNode src n p m)) s' := by
  unfold Sim.onMessage at hok
  split at hok
  · cases hok
  · split at hok
    · cases hok
    · have hp' : Pre c (s.log (.recv s.clock mid srcNode src n p m)) := hp
      have r1 := Run.updProc (c := c) (s.log (.recv s.clock mid srcNode src n p m)) hne p
        (fun e => { e with log := e.log ++ [⟨s.clock, .recv m src p⟩], recv := e.recv + 1 })
      exact r1.trans (runHandler_orun c n0 h hne (hp'.of_run r1) hok)

theorem onTimer_orun (c : Bool) (n0 : Nat) (h : SHandler σ T) {n p name : Nat} {s s' : Sim σ T} (hne : n ≠ n0)
    (hp : Pre c s) (hok : onTimer h n p name s = .ok s') : Run c n0 s s' := by
  unfold Sim.onTimer at hok
  split at hok
  · cases hok
  · split at hok
    · cases hok
    · have r1 : Run c n0 s (match amGet? name (‹SProc σ T›).pending with
          | some id => ((s.updProc n p fun e => { e with log := e.log ++ [⟨s.clock, .tfired name⟩] }).updProc n p
              fun e => { e with pending := amErase name e.pending }).log (.timerFired s.clock id name n p)
          | none => s.updProc n p fun e => { e with log := e.log ++ [⟨s.clock, .tfired name⟩] }) := by
        split
        · refine Run.then_log ?_ _ trivial (by simpa [SLog.handledOn] using hne)
          refine Run.then_updProc hne ?_ p _
          exact Run.updProc s hne p _
        · exact Run.updProc s hne p _
      exact r1.trans (runHandler_orun c n0 h hne (hp.of_run r1) hok)

theorem onLocal_orun (c : Bool) (n0 : Nat) (h : SHandler σ T) {n p : Nat} {m : Msg} {s s' : Sim σ T} (hne : n ≠ n0)
    (hp : Pre c s) (hok : onLocal h n p m s = .ok s') : Run c n0 s s' := by
  unfold Sim.onLocal at hok
  split at hok
  · cases hok
  · split at hok
    · cases hok
    · have r1 : Run c n0 s (((s.log (.localRecv s.clock n p (‹SNode σ T›).localCount m)).setNode n
          { (‹SNode σ T›) with localCount := (‹SNode σ T›).localCount + 1 }).updProc n p
          fun e => { e with log := e.log ++ [⟨s.clock, .lrecv m⟩] }) := by
        refine Run.then_updProc hne ?_ p _
        refine Run.then_setNode hne ?_ _
        exact Run.log s _ trivial (by simpa [SLog.handledOn] using hne)
      exact r1.trans (runHandler_orun c n0 h hne (hp.of_run r1) hok)

/-! ### `deliver`, `step`, `steps` -/

/-- delivering an event while `n0` has no handler: the event is discarded or handled on another node -/
theorem deliver_quiet (h : SHandler σ T) (e : QEv T) {s s' : Sim σ T} (n0 : Nat) (hn : n0 ∉ s.handlers)
    (hok : deliver h e s = .ok s') : Quiet n0 s s' := by
  unfold Sim.deliver at hok
  split at hok
  · cases hok
    exact Quiet.refl n0 s
  · rename_i hc
    have hmem : e.dst ∈ s.handlers := by simpa using hc
    have hne : e.dst ≠ n0 := fun heq => hn (heq ▸ hmem)
    split at hok
    · rename_i mid m src sn dst dn hdat
      refine (Quiet.log s (.recv s.clock mid sn src e.dst dst m) ?_).trans
        (onMessage_orun true n0 h hne (.inl rfl) hok).q
      simpa [SLog.handledOn] using hne
    · exact (onTimer_orun true n0 h hne (.inl rfl) hok).q

/-- delivering an event that is backed by a `sent` entry -/
theorem deliver_ostep (c : Bool) (h : SHandler σ T) {e : QEv T} {s s' : Sim σ T} (he : e.OrgOk c s.trace)
    (hp : Pre c s) (hok : deliver h e s = .ok s') : OStep c s s' := by
  unfold Sim.deliver at hok
  split at hok
  · cases hok
    exact OStep.refl c s
  · have hne : e.dst ≠ e.dst + 1 := by omega
    split at hok
    · rename_i mid m src sn dst dn hdat
      obtain ⟨hdst, horg⟩ := he mid m src sn dst dn hdat
      refine (OStep.log s (.recv s.clock mid sn src e.dst dst m) ?_).trans
        (onMessage_orun c (e.dst + 1) h hne hp hok).o
      rw [hdst]
      exact horg.mono (fun x hx => List.mem_append_left _ hx)
    · exact (onTimer_orun c (e.dst + 1) h hne hp hok).o

theorem step_quiet (h : SHandler σ T) {s s' : Sim σ T} (b : Bool) (n0 : Nat) (hn : n0 ∉ s.handlers)
    (hok : s.step h = .ok (b, s')) : Quiet n0 s s' := by
  unfold Sim.step at hok
  split at hok
  · rename_i s1 heq
    cases hok
    exact (Run.pop (c := true) heq).q
  · rename_i e s1 heq
    split at hok
    · cases hok
    · rename_i s2 hdel
      cases hok
      have hq := (Run.pop (c := true) (n0 := n0) heq).q
      exact hq.trans (deliver_quiet h e n0 (by rw [hq.handlers]; exact hn) hdel)

theorem step_ostep (c : Bool) (h : SHandler σ T) {s s' : Sim σ T} (b : Bool) (hq : QOk c s) (hp : Pre c s)
    (hok : s.step h = .ok (b, s')) : OStep c s s' := by
  unfold Sim.step at hok
  split at hok
  · rename_i s1 heq
    cases hok
    exact (Run.pop (n0 := 0) heq).o
  · rename_i e s1 heq
    split at hok
    · cases hok
    · rename_i s2 hdel
      cases hok
      have ho := (Run.pop (c := c) (n0 := 0) heq).o
      obtain ⟨h1, _, _, _, _, _, _, h8, _⟩ := nextEvent_frame _ s s1 _ heq
      have hmem : e ∈ s.events := ((mem_liveOf s e).1 (h8 e rfl).1).1
      exact ho.trans (deliver_ostep c h (by rw [h1]; exact hq e hmem) (hp.of_step ho) hdel)

theorem steps_quiet (h : SHandler σ T) (k : Nat) : ∀ {s s' : Sim σ T} (b : Bool) (n0 : Nat), n0 ∉ s.handlers →
    s.steps h k = .ok (b, s') → Quiet n0 s s' := by
  induction k with
  | zero =>
    intro s s' b n0 _ hok
    simp only [Sim.steps, Except.ok.injEq, Prod.mk.injEq] at hok
    obtain ⟨_, rfl⟩ := hok
    exact Quiet.refl n0 s
  | succ k ih =>
    intro s s' b n0 hn hok
    simp only [Sim.steps] at hok
    split at hok
    · cases hok
    · rename_i s1 hst
      cases hok
      exact step_quiet h false n0 hn hst
    · rename_i s1 hst
      have hq := step_quiet h true n0 hn hst
      exact hq.trans (ih b n0 (by rw [hq.handlers]; exact hn) hok)

theorem steps_ostep (c : Bool) (h : SHandler σ T) (k : Nat) : ∀ {s s' : Sim σ T} (b : Bool), QOk c s → Pre c s →
    s.steps h k = .ok (b, s') → OStep c s s' := by
  induction k with
  | zero =>
    intro s s' b _ _ hok
    simp only [Sim.steps, Except.ok.injEq, Prod.mk.injEq] at hok
    obtain ⟨_, rfl⟩ := hok
    exact OStep.refl c s
  | succ k ih =>
    intro s s' b hq hp hok
    simp only [Sim.steps] at hok
    split at hok
    · cases hok
    · rename_i s1 hst
      cases hok
      exact step_ostep c h false hq hp hst
    · rename_i s1 hst
      have ho := step_ostep c h true hq hp hst
      exact ho.trans (ih b (hq.of_step ho) (hp.of_step ho) hok)

theorem sendLocal_ostep (c : Bool) (h : SHandler σ T) {s s' : Sim σ T} (p : Nat) (m : Msg) (hp : Pre c s)
    (hok : s.sendLocal h p m = .ok s') : OStep c s s' := by
  unfold Sim.sendLocal at hok
  split at hok
  · cases hok
  · rename_i n _
    split at hok
    · cases hok
    · split at hok
      · cases hok
      · exact (onLocal_orun c (n + 1) h (by omega) hp hok).o

/-- `crash_node`: the drops logged are built from queued events -/
theorem crashNode_ostep (c : Bool) {s s' : Sim σ T} (n : Nat) (hq : QOk c s) (hok : s.crashNode n = .ok s') :
    OStep c s s' := by
  obtain ⟨nd, _, rfl⟩ := crashNode_shape' s s' n hok
  refine ⟨⟨_, rfl, ?_⟩, fun _ h => .inl h, rfl, fun _ h => h⟩
  intro x hx
  rcases List.mem_cons.1 hx with rfl | hx
  · trivial
  · unfold crashDrops at hx
    obtain ⟨e, he, hxe⟩ := List.mem_filterMap.1 hx
    have hev : e ∈ s.events := (List.mem_filter.1 he).1
    unfold crashDrop at hxe
    split at hxe
    · split at hxe
      · rename_i mid m src sn dst dn hdat
        cases hxe
        exact (hq e hev mid m src sn dst dn hdat).2.mono (fun y hy => List.mem_append_left _ hy)
      · cases hxe
    · cases hxe

theorem recoverNode_ostep (c : Bool) {s s' : Sim σ T} (n : Nat) (hok : s.recoverNode n = .ok s') : OStep c s s' := by
  unfold Sim.recoverNode at hok
  split at hok
  · cases hok
  · split at hok
    · cases hok
    · cases hok
      exact ⟨⟨[_], rfl, fun x hx => by rw [List.mem_singleton] at hx; subst hx; trivial⟩, fun _ h => .inl h, rfl,
        fun _ h => h⟩

end Sim
end Anysystem
