import Anysystem.Proofs.McMisc
import Anysystem.Proofs.SearchThms
import Anysystem.Proofs.PredThms
/-!
# Staged exploration: `run_from_states` (C16) — rollback, traces extend, union over start states
-/
set_option linter.unusedSectionVars false
namespace Anysystem

variable {σ : Type} [DecidableEq σ]

/-! ## helpers: snapshots of same-shape systems -/

theorem SameShape.symm {a b : McSys σ} (h : SameShape a b) : SameShape b a := Eq.symm h

theorem SameShape.trans {a b c : McSys σ} (h1 : SameShape a b) (h2 : SameShape b c) : SameShape a c :=
  Eq.trans h1 h2

/-- setting a snapshot of a sorted system of the same shape: everything comes from the snapshot but the mode -/
theorem setState_snapshot_eq (sys cur s₀ : McSys σ) (hsc : SameShape sys cur) (h0 : SameShape sys s₀)
    (hs0 : SortedTopo s₀) : cur.setState s₀.getState = { s₀ with mode := cur.mode } :=
  setState_getState_core s₀ cur hs0 (h0.symm.trans hsc)

/-- the system every run of a stage starts from does not depend on what the previous runs left behind -/
theorem setState_start_eq (sys cur s₀ : McSys σ) (hsc : SameShape sys cur) (hm : cur.mode = sys.mode)
    (h0 : SameShape sys s₀) (hs0 : SortedTopo s₀) : cur.setState s₀.getState = sys.setState s₀.getState := by
  rw [setState_snapshot_eq sys cur s₀ hsc h0 hs0, setState_snapshot_eq sys sys s₀ (SameShape.refl _) h0 hs0, hm]

theorem setState_start_facts (sys s₀ : McSys σ) (h0 : SameShape sys s₀) (hs0 : SortedTopo s₀) :
    SameShape sys (sys.setState s₀.getState) ∧ SortedTopo (sys.setState s₀.getState) ∧
      (sys.setState s₀.getState).mode = sys.mode := by
  rw [setState_snapshot_eq sys sys s₀ (SameShape.refl _) h0 hs0]
  exact ⟨h0.trans (SameShape.of_nodes_eq rfl), SortedTopo.congr hs0 rfl, rfl⟩

/-! ## the loop of `run_from_states` -/

/-- the loop of `run_from_states`, from any intermediate system of the right shape and mode -/
theorem go_restores (h : Handler σ) (p : Preds σ) (hash : McSys.Key σ → Nat) (strat : Strat) (fuel : Nat)
    (sys : McSys σ) (cb : McSys σ → R (McSys σ)) (hs : SortedTopo sys)
    (hcb : ∀ a b, SortedTopo a → cb a = .ok b → SameShape a b ∧ SortedTopo b) :
    ∀ (starts : List (McSys.Snapshot σ)) (cur : McSys σ) (cache : Cache (McSys.Key σ)) (tot tot' : Totals σ)
      (r : Res (McSys σ)) (sys' : McSys σ),
      (∀ st ∈ starts, ∃ s₀ : McSys σ, SameShape sys s₀ ∧ SortedTopo s₀ ∧ st = s₀.getState) →
      SameShape sys cur → cur.mode = sys.mode →
      runFromStates.go {} h p hash strat fuel cb sys.getState starts cur cache tot = some (r, tot', sys') →
      sys' = sys := by
  intro starts
  induction starts with
  | nil =>
    intro cur cache tot tot' r sys' _ hsc hm hrun
    simp only [runFromStates.go, Option.some.injEq, Prod.mk.injEq] at hrun
    rw [← hrun.2.2]
    exact setState_getState sys cur hs hsc hm
  | cons st rest ih =>
    intro cur cache tot tot' r sys' hstarts hsc hm hrun
    obtain ⟨s₀, h0, hs0, rfl⟩ := hstarts st List.mem_cons_self
    simp only [runFromStates.go] at hrun
    cases hri : runImpl {} h p hash strat fuel (cur.setState s₀.getState) cb { cache := cache } with
    | none => simp [hri] at hrun
    | some v =>
      obtain ⟨r1, acc, cur'⟩ := v
      simp only [hri] at hrun
      have hst := setState_start_eq sys cur s₀ hsc hm h0 hs0
      obtain ⟨f1, f2, f3⟩ := setState_start_facts sys s₀ h0 hs0
      have hcur' : cur' = cur.setState s₀.getState :=
        runImpl_restores h p hash strat fuel _ cur' cb _ acc r1 (hst ▸ f2) hcb hri
      have hsc' : SameShape sys cur' := by rw [hcur', hst]; exact f1
      have hm' : cur'.mode = sys.mode := by rw [hcur', hst]; exact f3
      cases r1 with
      | ok =>
        simp only at hrun
        exact ih cur' _ _ _ _ _ (fun st hst => hstarts st (List.mem_cons_of_mem _ hst)) hsc' hm' hrun
      | err msg e =>
        simp only [Option.some.injEq, Prod.mk.injEq] at hrun
        rw [← hrun.2.2]
        exact setState_getState sys cur' hs hsc' hm'
      | panic msg =>
        simp only [Option.some.injEq, Prod.mk.injEq] at hrun
        rw [← hrun.2.2]
        exact setState_getState sys cur' hs hsc' hm'

/-- `run_from_states` leaves the checker in its initial state — Ok, Err and panicking runs alike (D6) -/
theorem runFromStates_restores (h : Handler σ) (p : Preds σ) (hash : McSys.Key σ → Nat) (strat : Strat) (fuel : Nat)
    (sys sys' : McSys σ) (cb : McSys σ → R (McSys σ)) (mode : CacheMode) (starts : List (McSys.Snapshot σ))
    (r : Res (McSys σ)) (tot : Totals σ) (hs : SortedTopo sys)
    (hcb : ∀ a b, SortedTopo a → cb a = .ok b → SameShape a b ∧ SortedTopo b)
    (hstarts : ∀ st ∈ starts, ∃ s₀ : McSys σ, SameShape sys s₀ ∧ SortedTopo s₀ ∧ st = s₀.getState)
    (hrun : runFromStates {} h p hash strat fuel sys cb mode starts = some (r, tot, sys')) : sys' = sys :=
  go_restores h p hash strat fuel sys cb hs hcb starts sys _ _ _ _ _ hstarts (SameShape.refl _) rfl hrun

/-- one run of a stage: what `run_impl` evaluates is a search from the start state after `McStarted` and the callback -/
theorem runImpl_is_search (h : Handler σ) (p : Preds σ) (hash : McSys.Key σ → Nat) (strat : Strat) (fuel : Nat)
    (sys sys' s₀ : McSys σ) (cb : McSys σ → R (McSys σ)) (acc acc' : Acc (McSys σ) (McSys.Key σ)) (r : Res (McSys σ))
    (hcb : cb { sys with trace := sys.trace ++ [LogE.started] } = .ok s₀)
    (hrun : runImpl {} h p hash strat fuel sys cb acc = some (r, acc', sys')) :
    search (mcTSys {} h p hash) strat fuel s₀ acc = some (r, acc') := by
  simp only [runImpl, hcb] at hrun
  cases hse : search (mcTSys {} h p hash) strat fuel s₀ acc with
  | none => simp [hse] at hrun
  | some v =>
    obtain ⟨r1, a1⟩ := v
    simp only [hse, Option.some.injEq, Prod.mk.injEq] at hrun
    rw [hrun.1, hrun.2.1]

/-- a step only appends to the trace, so everything reachable extends the trace of the start state -/
theorem reachC_trace_prefix (h : Handler σ) (p : Preds σ) (hash : McSys.Key σ → Nat) (s₀ e : McSys σ)
    (hr : ReachC (mcTSys {} h p hash) s₀ e) : ∃ ext, e.trace = s₀.trace ++ ext := by
  induction hr with
  | refl => exact ⟨[], by simp⟩
  | @step y x cs _ _ hsucc hmem ih =>
    obtain ⟨ext, hext⟩ := ih
    obtain ⟨_, _, _, alt, _, _, _, _, happ⟩ := (mem_successors_iff h (s := y) hsucc x).1 hmem
    obtain ⟨_, new, _, htr, _⟩ := applyAlt_trace_depth h happ
    exact ⟨ext ++ new, by rw [htr, hext, List.append_assoc]⟩

/-- traces extend: every state evaluated in a stage carries the start state's trace, then `McStarted`, as a prefix
    (for callbacks that only append to the trace, like `send_local_message` and `crash_node`) -/
theorem search_trace_prefix (h : Handler σ) (p : Preds σ) (hash : McSys.Key σ → Nat) (strat : Strat) (mode : CacheMode)
    (fuel : Nat) (s₀ : McSys σ) (r : Res (McSys σ)) (a : Acc (McSys σ) (McSys.Key σ))
    (hrun : search (mcTSys {} h p hash) strat fuel s₀ (Acc.fresh mode) = some (r, a)) :
    ∀ e ∈ a.evald, ∃ ext, e.trace = s₀.trace ++ ext := fun e he =>
  reachC_trace_prefix h p hash s₀ e (search_evald_reachable _ strat mode fuel s₀ r a hrun e he)

/-! ## cache disabled: a run hands back the cache it was given -/

theorem search_disabled_cache {σ κ : Type} [DecidableEq κ] (S : TSys σ κ) (strat : Strat) (fuel : Nat) (s₀ : σ)
    (a a' : Acc σ κ) (r : Res σ) (hm : a.cache.mode = .disabled)
    (hrun : search S strat fuel s₀ a = some (r, a')) : a'.cache = a.cache := by
  have hmark : ∀ (b : Acc σ κ) (c : σ), b.cache = a.cache → b.cache.mark S c = a.cache := by
    intro b c hb
    rw [mark_of_disabled S b.cache (by rw [hb]; exact hm) c, hb]
  simp only [search] at hrun
  cases strat with
  | dfs =>
    simp only at hrun
    refine (dfs_inv_rule S (fun _ => True) (fun b => b.cache = a.cache) (fun _ b => b.cache = a.cache)
      (fun _ _ _ _ _ _ _ => trivial) ?_ ?_ (fun _ _ hb => hb) fuel).1 s₀ _ r a' hrun trivial ?_
    · intro b c hb _ _
      exact hmark b c hb
    · intro b s hb _
      rw [check_cache]; exact hb
    · exact hmark a s₀ rfl
  | bfs =>
    simp only at hrun
    refine bfs_rule S (I := fun _ b => b.cache = a.cache) (F := fun _ b => b.cache = a.cache)
      (fun _ hb => hb) ?_ ?_ ?_ ?_ fuel [s₀] _ r a' ?_ hrun
    · intro s q b msg hb _
      rw [check_cache]; exact hb
    · intro s q b st hb _
      rw [check_cache]; exact hb
    · intro s q b e hb _ _
      rw [check_cache]; exact hb
    · intro s q b cs hb _ _
      have hbm : b.cache.mode = .disabled := by rw [hb]; exact hm
      rw [bfsEnqueue_disabled S cs q b.cache hbm]
      exact hb
    · exact hmark a s₀ rfl

/-- the loop of `run_from_states` with the cache disabled: every run starts from the same (empty) cache -/
theorem go_disabled_concat (h : Handler σ) (p : Preds σ) (hash : McSys.Key σ → Nat) (strat : Strat) (fuel : Nat)
    (sys : McSys σ) (cb : McSys σ → R (McSys σ))
    (hcb : ∀ a b, SortedTopo a → cb a = .ok b → SameShape a b ∧ SortedTopo b) :
    ∀ (starts : List (McSys.Snapshot σ)) (cur : McSys σ) (tot tot' : Totals σ) (sys' : McSys σ),
      (∀ st ∈ starts, ∃ s₀ : McSys σ, SameShape sys s₀ ∧ SortedTopo s₀ ∧ st = s₀.getState) →
      SameShape sys cur → cur.mode = sys.mode →
      runFromStates.go {} h p hash strat fuel cb sys.getState starts cur { mode := .disabled } tot =
        some (.ok, tot', sys') →
      ∃ parts : List (List (McSys σ)), parts.length = starts.length ∧ tot'.evald = tot.evald ++ parts.flatten ∧
        ∀ i (hi : i < starts.length) (hp : i < parts.length), ∃ s₀ a,
          cb { (sys.setState starts[i]) with trace := (sys.setState starts[i]).trace ++ [LogE.started] } = .ok s₀ ∧
          search (mcTSys {} h p hash) strat fuel s₀ (Acc.fresh .disabled) = some (.ok, a) ∧ parts[i] = a.evald := by
  intro starts
  induction starts with
  | nil =>
    intro cur tot tot' sys' _ _ _ hrun
    simp only [runFromStates.go, Option.some.injEq, Prod.mk.injEq] at hrun
    refine ⟨[], rfl, by rw [← hrun.2.1]; simp, ?_⟩
    intro i hi; simp at hi
  | cons st rest ih =>
    intro cur tot tot' sys' hstarts hsc hm hrun
    obtain ⟨s₀, h0, hs0, rfl⟩ := hstarts st List.mem_cons_self
    simp only [runFromStates.go] at hrun
    cases hri : runImpl {} h p hash strat fuel (cur.setState s₀.getState) cb { cache := { mode := .disabled } } with
    | none => simp [hri] at hrun
    | some v =>
      obtain ⟨r1, acc, cur'⟩ := v
      simp only [hri] at hrun
      have hst := setState_start_eq sys cur s₀ hsc hm h0 hs0
      obtain ⟨f1, f2, f3⟩ := setState_start_facts sys s₀ h0 hs0
      have hcur' : cur' = cur.setState s₀.getState :=
        runImpl_restores h p hash strat fuel _ cur' cb _ acc r1 (hst ▸ f2) hcb hri
      have hsc' : SameShape sys cur' := by rw [hcur', hst]; exact f1
      have hm' : cur'.mode = sys.mode := by rw [hcur', hst]; exact f3
      cases r1 with
      | err msg e => simp at hrun
      | panic msg => simp at hrun
      | ok =>
        simp only at hrun
        rw [hst] at hri
        -- the callback succeeded
        cases hcb0 : cb { (sys.setState s₀.getState) with
            trace := (sys.setState s₀.getState).trace ++ [LogE.started] } with
        | error err => simp [runImpl, hcb0] at hri
        | ok t₀ =>
          have hse := runImpl_is_search h p hash strat fuel _ cur' t₀ cb _ acc .ok hcb0 hri
          have hcache : acc.cache = { mode := .disabled } :=
            search_disabled_cache _ strat fuel t₀ _ acc .ok rfl hse
          rw [hcache] at hrun
          obtain ⟨parts, hlen, hev, hparts⟩ :=
            ih cur' _ tot' sys' (fun st hst => hstarts st (List.mem_cons_of_mem _ hst)) hsc' hm' hrun
          refine ⟨acc.evald :: parts, by simp [hlen], by rw [hev]; simp, ?_⟩
          intro i hi hp
          cases i with
          | zero => exact ⟨t₀, acc, hcb0, hse, rfl⟩
          | succ i =>
            simp only [List.getElem_cons_succ]
            exact hparts i (by simpa using hi) (by simpa using hp)

set_option linter.unusedVariables false in
/-- with the cache disabled the stage evaluates, for every start state, exactly the states reachable from it after the
    callback (no start state shadows another): the evaluated list of an all-Ok staged run is the concatenation of the
    evaluated lists of the individual runs, in order -/
theorem runFromStates_disabled_concat (h : Handler σ) (p : Preds σ) (hash : McSys.Key σ → Nat) (strat : Strat) (fuel : Nat)
    (sys sys' : McSys σ) (cb : McSys σ → R (McSys σ)) (starts : List (McSys.Snapshot σ)) (tot : Totals σ)
    (hs : SortedTopo sys) (hcb : ∀ a b, SortedTopo a → cb a = .ok b → SameShape a b ∧ SortedTopo b)
    (hstarts : ∀ st ∈ starts, ∃ s₀ : McSys σ, SameShape sys s₀ ∧ SortedTopo s₀ ∧ st = s₀.getState)
    (hrun : runFromStates {} h p hash strat fuel sys cb .disabled starts = some (.ok, tot, sys')) :
    ∃ parts : List (List (McSys σ)), parts.length = starts.length ∧ tot.evald = parts.flatten ∧
      ∀ i (hi : i < starts.length) (hp : i < parts.length), ∃ s₀ a,
        cb { (sys.setState starts[i]) with trace := (sys.setState starts[i]).trace ++ [LogE.started] } = .ok s₀ ∧
        search (mcTSys {} h p hash) strat fuel s₀ (Acc.fresh .disabled) = some (.ok, a) ∧ parts[i] = a.evald := by
  obtain ⟨parts, hlen, hev, hparts⟩ :=
    go_disabled_concat h p hash strat fuel sys cb hcb starts sys {} tot sys' hstarts (SameShape.refl _) rfl hrun
  exact ⟨parts, hlen, by rw [hev]; rfl, hparts⟩

end Anysystem
