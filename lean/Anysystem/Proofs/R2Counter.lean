import Anysystem.Proofs.R2Defs
import Anysystem.Proofs.R2AddEvents
/-!
# Kernel-checked counterexamples to five statements of `R2.lean` as originally stated

`unsorted`: a well-formed (`WFTopo`) system whose node map lists node 2 before node 1.  Delivering the
single pending message makes `amInsert natLt 1 _` put a *second* entry for node 1 in front, so
`procsOf` of the successor has three entries and cannot equal the reference `procs` (two entries).
This refutes `applyAlt_refines`, `mc_path_sound_partial`, `alternatives_complete`, `Sim.sendLocal`.

`crash`: a sorted one-node system whose process has a pending timer.  `crash_node` keeps the name in
`pending_timers`, the reference crash removes the timer, so `SimW.pend` fails for the crashed node.
This refutes `Sim.crashNode`.
-/
set_option linter.unusedSimpArgs false
namespace Anysystem
namespace Counter

variable {σ : Type}

/-! ## the reference semantics never changes the number of processes -/

theorem act_procs_length (r : RState σ) (p : Nat) (a : Action) :
    (r.act p a).1.procs.length = r.procs.length := by
  cases a with
  | send m dst =>
    simp only [RState.act]
    split
    · split <;> rfl
    · rfl
    · rfl
  | loc m => simp [RState.act]
  | set name d once =>
    simp only [RState.act]
    split <;> rfl
  | cancel name =>
    simp only [RState.act]
    split <;> rfl

theorem actsAux_procs_length (p : Nat) (as : List Action) : ∀ (r : RState σ) (late : List LogE),
    (RState.actsAux p as r late).1.procs.length = r.procs.length := by
  induction as with
  | nil => intro r late; rfl
  | cons a rest ih =>
    intro r late
    simp only [RState.actsAux]
    rw [ih, act_procs_length]

theorem react_procs_length (h : Handler σ) {r r' : RState σ} {p : Nat} {i : Input}
    (hstep : r.react h p i = some r') : r'.procs.length = r.procs.length := by
  simp only [RState.react] at hstep
  split at hstep
  · simp at hstep
  · split at hstep
    · simp at hstep
    · simp only [Option.some.injEq] at hstep
      subst hstep
      simp only [RState.acts]
      rw [actsAux_procs_length]
      simp

theorem step_procs_length (h : Handler σ) {r r' : RState σ} {l : Label}
    (hstep : r.step h l = some r') : r'.procs.length = r.procs.length := by
  cases l with
  | deliver i =>
    simp only [RState.step] at hstep
    split at hstep
    · simp at hstep
    · have := react_procs_length h hstep
      exact this
  | fire j =>
    simp only [RState.step] at hstep
    split at hstep
    · simp at hstep
    · have := react_procs_length h hstep
      exact this
  | drop i =>
    simp only [RState.step] at hstep
    split at hstep
    · simp only [Option.some.injEq] at hstep; subst hstep; rfl
    · simp at hstep
  | dup i =>
    simp only [RState.step] at hstep
    split at hstep
    · simp only [Option.some.injEq] at hstep; subst hstep; rfl
    · simp at hstep
  | corrupt i =>
    simp only [RState.step] at hstep
    split at hstep
    · simp only [Option.some.injEq] at hstep; subst hstep; rfl
    · simp at hstep

theorem refRun_procs_length (h : Handler σ) (mode : Mode) (ls : List Label) : ∀ {r r' : RState σ},
    refRun h mode r ls = some r' → r'.procs.length = r.procs.length := by
  induction ls with
  | nil => intro r r' hr; simp only [refRun, Option.some.injEq] at hr; subst hr; rfl
  | cons l rest ih =>
    intro r r' hr
    simp only [refRun] at hr
    split at hr
    · split at hr
      · rename_i r1 hstep
        rw [ih hr, step_procs_length h hstep]
      · simp at hr
    · simp at hr

/-! ## the unsorted system -/

/-- a handler that does nothing -/
def h0 : Handler Unit := fun _ st _ => (st, [])

def ev0 : Ev := .msg ⟨0, []⟩ 0 1 (.noFail 2)

def st0 : Store := match ({} : Store).push ev0 with
  | .ok (st, _) => st
  | .error _ => {}

/-- two nodes listed in descending name order: `WFTopo` holds, but the node map is not sorted -/
def s0 : McSys Unit :=
  { nodes := [(2, { procs := [(0, { st := () })] }), (1, { procs := [(1, { st := () })] })],
    net := { procLoc := [(0, 2), (1, 1)] },
    events := st0 }

def r0 : RState Unit :=
  { procs := procsOf s0, flights := [⟨⟨0, []⟩, 0, 1, .noFail 2⟩], net := s0.net, trace := [] }

def a0 : AStore := { pending := [(0, ev0)], next := 1 }

/-- the successor of the only step -/
def s0' : McSys Unit := match s0.applyAlt {} h0 (.deliver 0) with
  | .ok s' => s'
  | .error _ => s0

theorem push0 : ({} : Store).push ev0 = .ok (st0, 0) := by rfl

theorem rep0 : Rep st0 a0 := by
  obtain ⟨st, hp, hr⟩ := Rep.empty.push_msg ⟨0, []⟩ 0 1 (.noFail 2)
  have h := push0
  simp only [ev0] at h
  rw [h] at hp
  simp only [Except.ok.injEq, Prod.mk.injEq] at hp
  rw [← hp.1] at hr
  exact hr

theorem wf0 : WFTopo s0 where
  nodes_nodup := by decide
  procs_nodup := by decide
  loc_of_proc := by decide
  proc_of_loc := by
    intro p n hp
    simp only [s0, amGet?] at hp
    split at hp
    · subst_vars
      simp only [Option.some.injEq] at hp
      subst hp
      exact ⟨_, rfl, rfl⟩
    · split at hp
      · subst_vars
        simp only [Option.some.injEq] at hp
        subst hp
        exact ⟨_, rfl, rfl⟩
      · simp at hp

theorem sim0 : SimRel0 s0 r0 := by
  refine ⟨a0, ⟨wf0, rep0, rfl, rfl, rfl, ?_, rfl, rfl, ?_, List.Pairwise.nil, ?_, ?_⟩⟩
  · decide
  · intro nd hnd pe hpe name
    have hall : ∀ nd ∈ s0.nodes, ∀ pe ∈ nd.2.procs, pe.2.pending = [] := by decide
    rw [hall nd hnd pe hpe]
    simp [r0, RState.timerPending]
  · intro x hx p name d he
    simp only [a0, List.mem_singleton] at hx
    subst hx
    simp [ev0] at he
  · intro x hx
    simp only [a0, List.mem_singleton] at hx
    subst hx
    exact ⟨rfl, rfl⟩

theorem avail0 : s0.available = .ok [0] := by rfl
theorem alts0 : s0.alternatives 0 = .ok [.deliver 0] := by rfl
theorem apply0 : s0.applyAlt {} h0 (.deliver 0) = .ok s0' := by rfl
theorem len0' : (procsOf s0').length = 3 := by decide
theorem len0 : r0.procs.length = 2 := by decide

theorem not_sim0' {r : RState Unit} (hl : r.procs.length = 2) : ¬ SimRel0 s0' r := by
  rintro ⟨a, hw⟩
  have := congrArg List.length hw.procs
  rw [hl, len0'] at this
  omega

theorem overrideFree0 (r : RState Unit) (l : Label) : r.overrideFree h0 l = true := by
  cases l with
  | deliver i =>
    simp only [RState.overrideFree]
    split
    · rfl
    · split <;> rfl
  | fire j =>
    simp only [RState.overrideFree]
    split
    · rfl
    · split <;> rfl
  | drop i => rfl
  | dup i => rfl
  | corrupt i => rfl

theorem overrideFreeRun0 (ls : List Label) : ∀ r : RState Unit, overrideFreeRun h0 r ls = true := by
  induction ls with
  | nil => intro r; rfl
  | cons l rest ih =>
    intro r
    simp only [overrideFreeRun, overrideFree0, Bool.true_and]
    split
    · exact ih _
    · rfl

/-- `applyAlt_refines` as stated in `R2.lean` is false -/
theorem applyAlt_refines_false :
    ¬ (∀ (h : Handler Unit) {s s' : McSys Unit} {r : RState Unit}, SimRel0 s r →
      ∀ {ids : List Nat} {id : Nat} {alts : List Alt} {alt : Alt},
      s.available = .ok ids → id ∈ ids → s.alternatives id = .ok alts → alt ∈ alts →
      s.applyAlt {} h alt = .ok s' →
      ∃ l, r.enabledRed s.mode l = true ∧
        (r.overrideFree h l = true → ∃ r', r.step h l = some r' ∧ SimRel0 s' r')) := by
  intro H
  obtain ⟨l, _, hcont⟩ := H h0 sim0 avail0 (List.mem_singleton.mpr rfl) alts0
    (List.mem_singleton.mpr rfl) apply0
  obtain ⟨r', hstep, hsim⟩ := hcont (overrideFree0 r0 l)
  exact not_sim0' (by rw [step_procs_length h0 hstep, len0]) hsim

/-- `mc_path_sound_partial` as stated in `R2.lean` is false -/
theorem mc_path_sound_partial_false :
    ¬ (∀ (h : Handler Unit) {s₀ s : McSys Unit} {r₀ : RState Unit} {alts : List Alt},
      SimRel0 s₀ r₀ → McPath h s₀ alts s →
      ∃ ls, ls.length = alts.length ∧
        (overrideFreeRun h r₀ ls = true → ∃ r, refRun h s₀.mode r₀ ls = some r ∧ SimRel0 s r)) := by
  intro H
  have hp : McPath h0 s0 [.deliver 0] s0' :=
    McPath.cons avail0 (List.mem_singleton.mpr rfl) alts0 (List.mem_singleton.mpr rfl) apply0
      (McPath.nil s0')
  obtain ⟨ls, _, hcont⟩ := H h0 sim0 hp
  obtain ⟨r, hrun, hsim⟩ := hcont (overrideFreeRun0 ls r0)
  exact not_sim0' (by rw [refRun_procs_length h0 _ ls hrun, len0]) hsim

/-- `alternatives_complete` as stated in `R2.lean` is false -/
theorem alternatives_complete_false :
    ¬ (∀ (h : Handler Unit) {s : McSys Unit} {r r' : RState Unit}, SimRel0 s r → SendsKnown h s →
      ∀ {l : Label}, r.enabledRed s.mode l = true → r.step h l = some r' → r.overrideFree h l = true →
      ∃ ids id alts alt s', s.available = .ok ids ∧ id ∈ ids ∧ s.alternatives id = .ok alts ∧ alt ∈ alts ∧
        s.applyAlt {} h alt = .ok s' ∧ SimRel0 s' r') := by
  intro H
  have hk : SendsKnown h0 s0 := by
    intro p st i a ha
    simp [h0] at ha
  cases hstep : r0.step h0 (.deliver 0) with
  | none => exact absurd hstep (by decide)
  | some r' =>
    obtain ⟨ids, id, alts, alt, s', hav, hid, halts, halt, happ, hsim⟩ :=
      H h0 sim0 hk (l := .deliver 0) (by decide) hstep (overrideFree0 _ _)
    rw [avail0] at hav
    simp only [Except.ok.injEq] at hav
    subst hav
    simp only [List.mem_singleton] at hid
    subst hid
    rw [alts0] at halts
    simp only [Except.ok.injEq] at halts
    subst halts
    simp only [List.mem_singleton] at halt
    subst halt
    rw [apply0] at happ
    simp only [Except.ok.injEq] at happ
    subst happ
    exact not_sim0' (by rw [step_procs_length h0 hstep, len0]) hsim

/-- the successor of a local message to process 1 -/
def s0L : McSys Unit := match s0.sendLocal {} h0 1 1 ⟨0, []⟩ with
  | .ok s' => s'
  | .error _ => s0

theorem sendLocal0 : s0.sendLocal {} h0 1 1 ⟨0, []⟩ = .ok s0L := by rfl
theorem len0L : (procsOf s0L).length = 3 := by decide

/-- `Sim.sendLocal` as stated in `R2.lean` is false -/
theorem sendLocal_false :
    ¬ (∀ (h : Handler Unit) {s s' : McSys Unit} {r : RState Unit}, SimRel0 s r → ∀ (node p : Nat) (m : Msg),
      amGet? p s.net.procLoc = some node → s.sendLocal {} h node p m = .ok s' →
      (∀ e, amGet? p r.procs = some e →
        RState.overrideFreeActs { r with trace := r.trace ++ [LogE.lrecv m p] } p (h p e.st (.loc m)).2 = true) →
      ∃ r', r.sendLocal h p m = some r' ∧ SimRel0 s' r') := by
  intro H
  obtain ⟨r', hstep, a, hw⟩ := H h0 sim0 1 1 ⟨0, []⟩ (by decide) sendLocal0 (fun e _ => rfl)
  have h1 := congrArg List.length hw.procs
  have h2 : r'.procs.length = 2 := by
    rw [react_procs_length h0 hstep]
    exact len0
  rw [h2, len0L] at h1
  omega

/-! ## the crash -/

def evT : Ev := .timer 0 5 1

def stT : Store := match ({} : Store).push evT with
  | .ok (st, _) => st
  | .error _ => {}

/-- one node, one process, one pending timer: sorted and well-formed -/
def s1 : McSys Unit :=
  { nodes := [(0, { procs := [(0, { st := (), pending := [5] })] })],
    net := { procLoc := [(0, 0)] },
    events := stT }

def r1 : RState Unit :=
  { procs := procsOf s1, timers := [⟨0, 5, 1⟩], net := s1.net, trace := [] }

def a1 : AStore := { pending := [(0, evT)], tm := [((0, 5), 0)], next := 1 }

def s1' : McSys Unit := match s1.crashNode {} 0 with
  | .ok s' => s'
  | .error _ => s1

theorem pushT : ({} : Store).push evT = .ok (stT, 0) := by rfl

theorem repT : Rep stT a1 := by
  obtain ⟨st, hp, hr⟩ := Rep.empty.push_timer 0 5 1
  have h := pushT
  simp only [evT] at h
  rw [h] at hp
  simp only [Except.ok.injEq, Prod.mk.injEq] at hp
  rw [← hp.1] at hr
  exact hr

theorem wf1 : WFTopo s1 where
  nodes_nodup := by decide
  procs_nodup := by decide
  loc_of_proc := by decide
  proc_of_loc := by
    intro p n hp
    simp only [s1, amGet?] at hp
    split at hp
    · subst_vars
      simp only [Option.some.injEq] at hp
      subst hp
      exact ⟨_, rfl, rfl⟩
    · simp at hp

theorem sim1 : SimRel0 s1 r1 := by
  refine ⟨a1, ⟨wf1, repT, rfl, rfl, rfl, ?_, rfl, rfl, ?_, ?_, ?_, ?_⟩⟩
  · decide
  · intro nd hnd pe hpe name
    simp only [s1, List.mem_singleton] at hnd
    subst hnd
    simp only [List.mem_singleton] at hpe
    subst hpe
    constructor
    · intro hmem
      simp only [List.mem_singleton] at hmem
      subst hmem
      rfl
    · intro ht
      have h5 : (5 == name) = true := by
        simpa [r1, RState.timerPending] using ht
      simp only [List.mem_singleton]
      exact (beq_iff_eq.mp h5).symm
  · simp [RState.timersUnique, r1]
  · intro x hx p name d he
    simp only [a1, List.mem_singleton] at hx
    subst hx
    simp only [evT, Ev.timer.injEq] at he
    obtain ⟨rfl, rfl, rfl⟩ := he
    decide
  · intro x hx
    simp only [a1, List.mem_singleton] at hx
    subst hx
    exact (rfl : r1.procCrashed 0 = false)

theorem crash1 : s1.crashNode {} 0 = .ok s1' := by rfl

/-- `Sim.crashNode` as stated in `R2.lean` is false -/
theorem crashNode_false :
    ¬ (∀ {s s' : McSys Unit} {r : RState Unit}, SimRel0 s r → ∀ (node : Nat), s.crashNode {} node = .ok s' →
      ∃ order, order.Perm (r.lostOnCrash node) ∧ SimRel0 s' (r.crashNode node order)) := by
  intro H
  obtain ⟨order, _, a, hw⟩ := H sim1 0 crash1
  have hmem : ((0, { procs := [(0, { st := (), pending := [5] })], crashed := true }) :
      Nat × McNode Unit) ∈ s1'.nodes := by decide
  have := (hw.pend _ hmem (0, { st := (), pending := [5] }) (List.mem_singleton.mpr rfl) 5).mp
    (List.mem_singleton.mpr rfl)
  revert this
  simp [RState.crashNode, RState.timerPending, r1, s1, amGet?]

end Counter
end Anysystem
