import Anysystem.Proofs.SimTimeOrder
import Anysystem.Proofs.SimLogInv
import Anysystem.Proofs.SimStepFns
/-!
# Helper definitions and lemmas for `SimLogTimes.lean` (C17 / C06: the times of the per-process event logs)

* `SProc.LogTimesOk c e`: the times of the event log of the process entry `e` are non-decreasing and none lies after `c`;
* `Sim.LogTimeInv s`: every process entry of every node satisfies `LogTimesOk s.clock`;
* `Sim.LogTimes.Ext t o o'`: the process entry `o'` (after) arises from `o` (before) by appending event-log entries that all
  carry the time `t` (both absent, or both present);
* `Sim.LogTimes.LStep t s s'`: the clock stands still and every process entry of every node is extended in that way — what
  a handler run (everything between two pops) does to the event logs;
* `LStep` for `handleActions`, `runHandler`, `onMessage`, `onTimer`, `onLocal`, `deliver`, `sendLocal`;
* `LogTimeInv.of_ext`: the invariant is kept by any change that moves the clock forward, appends entries carrying the
  *new* clock, creates processes with an empty log and possibly forgets processes;
* queue facts needed for the time-bounded stepping functions: `peekEvent` keeps `TimeWF` (`lt_peek_wf`), the clock
  jump to the bound keeps `TimeWF` (`lt_jump_wf`), `peekEvent` and `nextEvent` agree on whether a live event exists.
-/
namespace Anysystem

set_option linter.unusedSectionVars false
set_option linter.unusedVariables false

variable {σ T : Type} [TimeOps T]

/-- the times of the event log of a process entry are non-decreasing and none lies after `c` -/
def SProc.LogTimesOk (c : T) (e : SProc σ T) : Prop :=
  (e.log.map (·.time)).Pairwise (fun a b => TimeOps.le a b = true) ∧ ∀ x ∈ e.log, TimeOps.le x.time c = true

namespace Sim

/-- for every process entry of every node: the times of its event log are non-decreasing and never ahead of the clock -/
def LogTimeInv (s : Sim σ T) : Prop := ∀ n p e, s.proc? n p = some e → e.LogTimesOk s.clock

namespace LogTimes

/-! ### `Ext`: one process entry before and after -/

/-- the entry after arises from the entry before by appending event-log entries that all carry the time `t`
    (a process is neither created nor removed) -/
def Ext (t : T) (o o' : Option (SProc σ T)) : Prop :=
  match o, o' with
  | none, none => True
  | some e, some e' => ∃ evs, e'.log = e.log ++ evs ∧ ∀ x ∈ evs, x.time = t
  | _, _ => False

theorem Ext.refl (t : T) (o : Option (SProc σ T)) : Ext t o o := by
  cases o with
  | none => trivial
  | some e => exact ⟨[], by simp, by simp⟩

theorem Ext.of_eq (t : T) {o o' : Option (SProc σ T)} (h : o' = o) : Ext t o o' := by
  subst h; exact Ext.refl t _

theorem Ext.trans {t : T} {o o1 o2 : Option (SProc σ T)} (h1 : Ext t o o1) (h2 : Ext t o1 o2) : Ext t o o2 := by
  cases o with
  | none =>
    cases o1 with
    | none => exact h2
    | some _ => exact absurd h1 (by simp [Ext])
  | some e =>
    cases o1 with
    | none => exact absurd h1 (by simp [Ext])
    | some e1 =>
      cases o2 with
      | none => exact absurd h2 (by simp [Ext])
      | some e2 =>
        obtain ⟨a, ha, hxa⟩ := h1
        obtain ⟨b, hb, hxb⟩ := h2
        refine ⟨a ++ b, by rw [hb, ha, List.append_assoc], ?_⟩
        intro x hx
        rcases List.mem_append.1 hx with hx | hx
        · exact hxa x hx
        · exact hxb x hx

/-- spelled out -/
theorem Ext.cases {t : T} {o o' : Option (SProc σ T)} (h : Ext t o o') :
    (o = none ∧ o' = none) ∨
    ∃ e e' evs, o = some e ∧ o' = some e' ∧ e'.log = e.log ++ evs ∧ ∀ x ∈ evs, x.time = t := by
  cases o with
  | none =>
    cases o' with
    | none => exact .inl ⟨rfl, rfl⟩
    | some _ => exact absurd h (by simp [Ext])
  | some e =>
    cases o' with
    | none => exact absurd h (by simp [Ext])
    | some e' =>
      obtain ⟨evs, h1, h2⟩ := h
      exact .inr ⟨e, e', evs, rfl, rfl, h1, h2⟩

theorem Ext.time_eq {t t' : T} {o o' : Option (SProc σ T)} (h : Ext t o o') (ht : t = t') : Ext t' o o' := by
  subst ht; exact h

/-! ### `LStep`: the event logs between two pops -/

/-- the clock stands still and every process entry is extended by event-log entries carrying `t` -/
structure LStep (t : T) (s s' : Sim σ T) : Prop where
  clock : s'.clock = s.clock
  procs : ∀ n p, Ext t (s.proc? n p) (s'.proc? n p)

theorem LStep.refl (t : T) (s : Sim σ T) : LStep t s s := ⟨rfl, fun _ _ => Ext.refl t _⟩

theorem LStep.trans {t : T} {s s1 s2 : Sim σ T} (h1 : LStep t s s1) (h2 : LStep t s1 s2) : LStep t s s2 :=
  ⟨h2.clock.trans h1.clock, fun n p => (h1.procs n p).trans (h2.procs n p)⟩

/-- a change that touches neither the nodes nor the clock -/
theorem LStep.of_nodes (t : T) {s s' : Sim σ T} (hn : s'.nodes = s.nodes) (hc : s'.clock = s.clock) : LStep t s s' :=
  ⟨hc, fun n p => Ext.of_eq t (proc?_of_nodes hn n p)⟩

/-- a change of one process entry that appends entries carrying `t` to its event log -/
theorem LStep.updProc (t : T) (s : Sim σ T) (n p : Nat) (f : SProc σ T → SProc σ T)
    (hf : ∀ e, ∃ evs, (f e).log = e.log ++ evs ∧ ∀ x ∈ evs, x.time = t) : LStep t s (s.updProc n p f) := by
  refine ⟨updProc_clock s n p f, ?_⟩
  intro n' p'
  rw [proc?_updProc]
  split
  · rename_i hnp
    obtain ⟨rfl, rfl⟩ := hnp
    cases he : s.proc? n' p' with
    | none => trivial
    | some e => exact hf e
  · exact Ext.refl t _

/-- a change of one process entry that leaves its event log alone -/
theorem LStep.updProc_same (t : T) (s : Sim σ T) (n p : Nat) (f : SProc σ T → SProc σ T)
    (hf : ∀ e, (f e).log = e.log) : LStep t s (s.updProc n p f) :=
  LStep.updProc t s n p f (fun e => ⟨[], by simp [hf e], by simp⟩)

/-- re-inserting a node with the same process table -/
theorem LStep.setNode_sameProcs (t : T) (s : Sim σ T) (n : Nat) {nd nd' : SNode σ T}
    (hn : amGet? n s.nodes = some nd) (hp : nd'.procs = nd.procs) : LStep t s (s.setNode n nd') :=
  ⟨rfl, fun n' p' => Ext.of_eq t (proc?_setNode_sameProcs s n hn hp n' p')⟩

/-- `handle_process_actions` of an existing process: one entry per action, each stamped with the `time` argument; no other
    process entry is touched -/
theorem LStep.handleActions (n p : Nat) (time : T) (acts : List Action) {s s' : Sim σ T}
    (hex : ∃ e, s.proc? n p = some e) (h : handleActions n p time acts s = .ok s') : LStep time s s' := by
  refine ⟨handleActions_clock n p time acts s s' h, ?_⟩
  intro n' p'
  by_cases hnp : n' = n ∧ p' = p
  · obtain ⟨rfl, rfl⟩ := hnp
    obtain ⟨e, he⟩ := hex
    obtain ⟨e1, he1, _, _, _, _, hl⟩ := (handleActions_step n' p' time acts s s' h).proc e he
    rw [he, he1]
    refine ⟨_, hl, ?_⟩
    intro x hx
    obtain ⟨a, _, rfl⟩ := List.mem_map.1 hx
    rfl
  · rw [handleActions_oth n p time acts s s' h n' p' hnp]
    exact Ext.refl _ _

theorem LStep.runHandler (h : SHandler σ T) (n p : Nat) (time : T) (i : Input) {s s' : Sim σ T}
    (hok : runHandler h n p time i s = .ok s') : LStep time s s' := by
  cases hn : amGet? n s.nodes with
  | none => simp [Sim.runHandler, nodeOf, hn] at hok
  | some nd =>
    cases he : amGet? p nd.procs with
    | none => simp [Sim.runHandler, nodeOf, hn, he] at hok
    | some e =>
      obtain ⟨st', acts, used, _, hact⟩ := runHandler_ok h n p time i s s' hn he hok
      refine LStep.trans ?_ (LStep.handleActions n p time acts ?_ hact)
      · exact (LStep.of_nodes time (s := s) (s' := { s with draws := s.draws.drop used }) rfl rfl).trans
          (LStep.updProc_same time _ n p _ (fun _ => rfl))
      · refine ⟨{ e with st := st' }, ?_⟩
        simp only [proc?_updProc, proc?_withDraws, proc?_eq hn, he, and_self, if_true, Option.map_some]

theorem LStep.then_log {t : T} {s s1 : Sim σ T} (h : LStep t s s1) (x : SLog T) : LStep t s (s1.log x) :=
  h.trans (LStep.of_nodes t rfl rfl)

theorem LStep.then_updProc {t : T} {s s1 : Sim σ T} (h : LStep t s s1) (n p : Nat) (f : SProc σ T → SProc σ T)
    (hf : ∀ e, ∃ evs, (f e).log = e.log ++ evs ∧ ∀ x ∈ evs, x.time = t) : LStep t s (s1.updProc n p f) :=
  h.trans (LStep.updProc t s1 n p f hf)

theorem LStep.then_updProc_same {t : T} {s s1 : Sim σ T} (h : LStep t s s1) (n p : Nat) (f : SProc σ T → SProc σ T)
    (hf : ∀ e, (f e).log = e.log) : LStep t s (s1.updProc n p f) :=
  h.trans (LStep.updProc_same t s1 n p f hf)

theorem LStep.then_setNode_sameProcs {t : T} {s s1 : Sim σ T} (h : LStep t s s1) (n : Nat) {nd nd' : SNode σ T}
    (hn : amGet? n s1.nodes = some nd) (hp : nd'.procs = nd.procs) : LStep t s (s1.setNode n nd') :=
  h.trans (LStep.setNode_sameProcs t s1 n hn hp)

theorem lt_singleton_time {t : T} (ev : PEv) : ∀ x ∈ [(⟨t, ev⟩ : SPEv T)], x.time = t := by
  intro x hx
  rw [List.mem_singleton] at hx
  rw [hx]

/-- `Node::on_message_received`: the `MessageReceived` entry and the entries of the handler's actions carry the (global)
    clock -/
theorem LStep.onMessage (h : SHandler σ T) (n mid p : Nat) (m : Msg) (src srcNode : Nat) {s s' : Sim σ T}
    (hok : onMessage h n mid p m src srcNode s = .ok s') : LStep s.clock s s' := by
  unfold Sim.onMessage at hok
  split at hok
  · cases hok
  · split at hok
    · cases hok
    · refine LStep.trans ?_ (LStep.runHandler h n p _ _ hok)
      apply LStep.then_updProc
      · exact (LStep.refl s.clock s).then_log _
      · exact fun e => ⟨[⟨s.clock, .recv m src p⟩], rfl, lt_singleton_time _⟩

/-- `Node::on_timer_fired`: the `TimerFired` entry and the entries of the handler's actions carry the (global) clock -/
theorem LStep.onTimer (h : SHandler σ T) (n p name : Nat) {s s' : Sim σ T}
    (hok : onTimer h n p name s = .ok s') : LStep s.clock s s' := by
  unfold Sim.onTimer at hok
  split at hok
  · cases hok
  · split at hok
    · cases hok
    · refine LStep.trans ?_ (LStep.runHandler h n p _ _ hok)
      have h1 : LStep s.clock s (s.updProc n p fun e => { e with log := e.log ++ [⟨s.clock, .tfired name⟩] }) :=
        LStep.updProc _ _ n p _ (fun e => ⟨[⟨s.clock, .tfired name⟩], rfl, lt_singleton_time _⟩)
      split
      · apply LStep.then_log
        exact h1.then_updProc_same n p _ (fun _ => rfl)
      · exact h1

/-- `Node::on_local_message_received`: the `LocalMessageReceived` entry and the entries of the handler's actions carry the
    (global) clock -/
theorem LStep.onLocal (h : SHandler σ T) (n p : Nat) (m : Msg) {s s' : Sim σ T}
    (hok : onLocal h n p m s = .ok s') : LStep s.clock s s' := by
  unfold Sim.onLocal at hok
  split at hok
  · cases hok
  · rename_i nd hnd
    split at hok
    · cases hok
    · refine LStep.trans ?_ (LStep.runHandler h n p _ _ hok)
      apply LStep.then_updProc
      · refine LStep.then_setNode_sameProcs ?_ n (nd := nd) (nodeOf_ok hnd) rfl
        exact (LStep.refl s.clock s).then_log _
      · exact fun e => ⟨[⟨s.clock, .lrecv m⟩], rfl, lt_singleton_time _⟩

theorem LStep.deliver (h : SHandler σ T) (e : QEv T) {s s' : Sim σ T} (hok : deliver h e s = .ok s') :
    LStep s.clock s s' := by
  unfold Sim.deliver at hok
  split at hok
  · cases hok; exact LStep.refl _ s
  · split at hok
    · exact LStep.onMessage h _ _ _ _ _ _ hok
    · exact LStep.onTimer h _ _ _ hok

theorem LStep.sendLocal (h : SHandler σ T) {s s' : Sim σ T} (p : Nat) (m : Msg) (hok : s.sendLocal h p m = .ok s') :
    LStep s.clock s s' := by
  unfold Sim.sendLocal at hok
  split at hok
  · cases hok
  · split at hok
    · cases hok
    · split at hok
      · cases hok
      · exact LStep.onLocal h _ p m hok

end LogTimes

open LogTimes

/-! ### the invariant -/

section lawful
variable [LawfulTime T]

/-- the general preservation lemma: the clock moves forward; a process entry of the new state has an empty event log
    (a fresh process) or arises from the entry of the old state by appending entries that carry the *new* clock; process
    entries may disappear -/
theorem LogTimeInv.of_ext {s s' : Sim σ T} (hi : s.LogTimeInv) (hc : TimeOps.le s.clock s'.clock = true)
    (hp : ∀ n p e', s'.proc? n p = some e' → e'.log = [] ∨
      ∃ e evs, s.proc? n p = some e ∧ e'.log = e.log ++ evs ∧ ∀ x ∈ evs, x.time = s'.clock) : s'.LogTimeInv := by
  intro n p e' he'
  rcases hp n p e' he' with hnil | ⟨e, evs, he, hl, hx⟩
  · unfold SProc.LogTimesOk
    rw [hnil]
    exact ⟨by simp, by simp⟩
  · obtain ⟨i1, i2⟩ := hi n p e he
    unfold SProc.LogTimesOk
    rw [hl]
    refine ⟨?_, ?_⟩
    · rw [List.map_append, List.pairwise_append]
      refine ⟨i1, ?_, ?_⟩
      · apply TimeOrder.pairwise_of_forall_mem
        intro a ha b hb
        obtain ⟨x, hx1, rfl⟩ := List.mem_map.1 ha
        obtain ⟨y, hy1, rfl⟩ := List.mem_map.1 hb
        rw [hx x hx1, hx y hy1]; exact LawfulTime.le_refl _
      · intro a ha b hb
        obtain ⟨x, hx1, rfl⟩ := List.mem_map.1 ha
        obtain ⟨y, hy1, rfl⟩ := List.mem_map.1 hb
        rw [hx y hy1]
        exact LawfulTime.le_trans _ _ _ (i2 x hx1) hc
    · intro x hxm
      rcases List.mem_append.1 hxm with hxm | hxm
      · exact LawfulTime.le_trans _ _ _ (i2 x hxm) hc
      · rw [hx x hxm]; exact LawfulTime.le_refl _

/-- the clock moves forward and no event log changes (processes may disappear) -/
theorem LogTimeInv.of_sub {s s' : Sim σ T} (hi : s.LogTimeInv) (hc : TimeOps.le s.clock s'.clock = true)
    (hp : ∀ n p e', s'.proc? n p = some e' → ∃ e, s.proc? n p = some e ∧ e'.log = e.log) : s'.LogTimeInv := by
  refine hi.of_ext hc ?_
  intro n p e' he'
  obtain ⟨e, he, hl⟩ := hp n p e' he'
  exact .inr ⟨e, [], he, by simp [hl], by simp⟩

/-- the nodes are untouched and the clock moves forward (a pop, the clock jump of `step_until_time`) -/
theorem LogTimeInv.of_nodes {s s' : Sim σ T} (hi : s.LogTimeInv) (hn : s'.nodes = s.nodes)
    (hc : TimeOps.le s.clock s'.clock = true) : s'.LogTimeInv :=
  hi.of_sub hc (fun n p e' he' => ⟨e', by rw [← proc?_of_nodes hn n p]; exact he', rfl⟩)

/-- between two pops, with the entries stamped with the clock -/
theorem LogTimes.LStep.inv {s s' : Sim σ T} (h : LStep s.clock s s') (hi : s.LogTimeInv) : s'.LogTimeInv := by
  refine hi.of_ext (by rw [h.clock]; exact LawfulTime.le_refl _) ?_
  intro n p e' he'
  have := h.procs n p
  rw [he'] at this
  rcases this.cases with ⟨_, h2⟩ | ⟨e, e'', evs, h1, h2, h3, h4⟩
  · cases h2
  · cases h2
    exact .inr ⟨e, evs, h1, h3, by rw [h.clock]; exact h4⟩

/-! ### queue facts for `step_until_time` -/

/-- `peek_event` (dropping cancelled events from the head of the queue) keeps `TimeWF` -/
theorem lt_peek_wf {fuel : Nat} {s sp : Sim σ T} {o : Option (QEv T)} (hw : s.TimeWF)
    (hp : peekEvent fuel s = (o, sp)) : sp.TimeWF := by
  obtain ⟨h1, _, h3, h4, h5, _, _, _, h9, _⟩ := peekEvent_frame fuel s sp o hp
  refine ⟨hw.queueWF.sublist h9 h5, ?_, by rw [h3]; exact hw.delaysOk, by rw [h4]; exact hw.drawsOk⟩
  intro x hx
  rw [h1]
  exact hw.clockOk x (h9.subset hx)

/-- the clock jump of `step_until_time`: if nothing is queued, or the earliest queued event (in `(time, id)` order) is
    later than `endT`, then moving the clock to `endT` leaves nothing queued in the past — `TimeWF` is kept -/
theorem lt_jump_wf {sp : Sim σ T} (endT : T) (hw : sp.TimeWF)
    (hev : sp.events = [] ∨ ∃ e, minEvent sp.events = some e ∧ TimeOps.lt endT e.time = true) :
    ({ sp with clock := endT } : Sim σ T).TimeWF := by
  refine ⟨hw.queueWF.of_fields rfl rfl, ?_, hw.delaysOk, hw.drawsOk⟩
  intro x hx
  show TimeOps.le endT x.time = true
  change x ∈ sp.events at hx
  rcases hev with hnil | ⟨e, hmin, hlt⟩
  · rw [hnil] at hx; cases hx
  · obtain ⟨_, hleast⟩ := minEvent_spec _ _ hmin
    have h1 := le_time_of_not_evBefore x e (hleast x hx)
    have h2 : TimeOps.le endT e.time = true := by
      rcases LawfulTime.le_total endT e.time with h | h
      · exact h
      · rw [(LawfulTime.lt_iff _ _).1 hlt] at h; cases h
    exact LawfulTime.le_trans _ _ _ h2 h1

/-- if `peek_event` finds nothing live, neither does `next_event` -/
theorem lt_peek_none_next (fuel : Nat) (s sp : Sim σ T) (hp : peekEvent fuel s = (none, sp)) :
    (nextEvent fuel s).1 = none := by
  induction fuel generalizing s with
  | zero => rfl
  | succ fuel ih =>
    rw [peekEvent_succ] at hp
    rw [nextEvent_succ]
    split at hp
    · rename_i hn
      rw [hn]
    · rename_i m hm
      rw [hm]
      split at hp
      · rename_i hc
        simp only [hc, if_true]
        exact ih _ hp
      · cases hp

end lawful

end Sim
end Anysystem
