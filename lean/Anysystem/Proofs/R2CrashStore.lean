import Anysystem.Proofs.R2AddEvents
/-!
# `crash_node`, store side: cancelling the events of all processes of a node
-/
set_option linter.unusedSimpArgs false
namespace Anysystem

variable {σ : Type}

theorem amInsert_perm {β : Type} {k : Nat} {v : β} {acc : List (Nat × β)} (h : k ∉ acc.map (·.1)) :
    (amInsert natLt k v acc).Perm ((k, v) :: acc) := by
  induction acc with
  | nil => exact List.Perm.refl _
  | cons y ys ih =>
    obtain ⟨k', v'⟩ := y
    simp only [List.map_cons, List.mem_cons, not_or] at h
    simp only [amInsert]
    split
    · exact List.Perm.refl _
    · split
      · exact absurd ‹k = k'› h.1
      · exact ((ih h.2).cons _).trans (List.Perm.swap _ _ _)

theorem foldl_amInsert_perm {β : Type} (L : List (Nat × β)) : ∀ (acc : List (Nat × β)),
    (L.map (·.1)).Nodup → (∀ x ∈ L, x.1 ∉ acc.map (·.1)) →
    (L.foldl (fun acc x => amInsert natLt x.1 x.2 acc) acc).Perm (L ++ acc) := by
  induction L with
  | nil => intro acc _ _; exact List.Perm.refl _
  | cons x xs ih =>
    intro acc hnd hfresh
    rw [List.map_cons, List.nodup_cons] at hnd
    simp only [List.foldl_cons]
    have hx := hfresh x List.mem_cons_self
    have hfresh' : ∀ y ∈ xs, y.1 ∉ (amInsert natLt x.1 x.2 acc).map (·.1) := by
      intro y hy hmem
      obtain ⟨z, hz, hzy⟩ := List.mem_map.mp hmem
      rcases mem_amInsert_natLt _ _ _ _ hz with hz | hz
      · apply hnd.1
        rw [hz] at hzy
        simp only at hzy
        rw [hzy]
        exact List.mem_map_of_mem hy
      · exact hfresh y (List.mem_cons_of_mem _ hy) (by rw [← hzy]; exact List.mem_map_of_mem hz)
    refine (ih _ hnd.2 hfresh').trans ?_
    refine (List.Perm.append_left xs (amInsert_perm hx)).trans ?_
    exact List.perm_middle

/-- log entries of the `MessageDropped` events `cancel_proc_events` returns -/
theorem dropped_toLog (L : List (Nat × Ev)) :
    (L.filterMap (fun x => match x.2 with
      | .msg m s d _ => some (Ev.dropped m s d (some x.1))
      | _ => none)).map Ev.toLog = (flightsOf L).map (fun f => LogE.dropped f.m f.src f.dst) := by
  induction L with
  | nil => rfl
  | cons y ys ih =>
    obtain ⟨id, ev⟩ := y
    cases ev <;> simp [flightsOf, List.filterMap_cons, Ev.toLog] at ih ⊢ <;> exact ih

theorem filter_or_perm {α : Type} (q1 q2 : α → Bool) (A : List α) :
    (A.filter (fun x => q1 x || q2 x)).Perm (A.filter q1 ++ (A.filter (fun x => !q1 x)).filter q2) := by
  induction A with
  | nil => exact List.Perm.refl _
  | cons x xs ih =>
    cases h1 : q1 x with
    | true =>
      simp only [List.filter_cons, h1, Bool.true_or, ↓reduceIte, Bool.not_true, Bool.false_eq_true,
        List.cons_append]
      exact ih.cons x
    | false =>
      cases h2 : q2 x with
      | true =>
        simp only [List.filter_cons, h1, h2, Bool.or_true, ↓reduceIte, Bool.false_eq_true,
          Bool.not_false]
        exact (ih.cons x).trans List.perm_middle.symm
      | false =>
        simp only [List.filter_cons, h1, h2, Bool.or_false, ↓reduceIte, Bool.false_eq_true,
          Bool.not_false]
        exact ih

/-- what the `go` loop of `crash_node` computes -/
theorem crash_go (ps : List Nat) : ∀ {st : Store} {a : AStore} (tr : List LogE), Rep st a →
    ∃ (st' : Store) (order : List Flight), McSys.crashNode.go {} ps st tr =
        .ok (st', tr ++ order.map (fun f : Flight => LogE.dropped f.m f.src f.dst)) ∧
      Rep st' { a with pending := a.pending.filter (fun x => !(ps.any (fun p => Store.touches p x.2))) } ∧
      order.Perm (flightsOf (a.pending.filter (fun x => ps.any (fun p => Store.touches p x.2)))) := by
  induction ps with
  | nil =>
    intro st a tr hr
    refine ⟨st, [], by simp [McSys.crashNode.go], ?_, by simp [List.filter_eq_nil_iff.mpr]⟩
    have : a.pending.filter (fun x => !(([] : List Nat).any (fun p => Store.touches p x.2))) = a.pending := by
      simp
    rw [this]
    exact hr
  | cons p ps ih =>
    intro st a tr hr
    have hstep : a.step (.cancelProc p) = some
        ({ a with pending := a.pending.filter (fun x => !Store.touches p x.2) },
          .evs (((a.pending.filter (fun x => Store.touches p x.2)).foldl
            (fun acc x => amInsert natLt x.1 x.2 acc) []).filterMap (fun x => match x.2 with
              | .msg m s d _ => some (Ev.dropped m s d (some x.1))
              | _ => none))) := rfl
    obtain ⟨st1, l, hc, hr1, hl⟩ := hr.cancelProc p hstep
    simp only [Out.evs.injEq] at hl
    obtain ⟨st', order', hgo, hr', hperm'⟩ := ih (tr ++ l.map Ev.toLog) hr1
    have hvict : ((a.pending.filter (fun x => Store.touches p x.2)).foldl
        (fun acc x => amInsert natLt x.1 x.2 acc) []).Perm
        (a.pending.filter (fun x => Store.touches p x.2)) := by
      have := foldl_amInsert_perm (a.pending.filter (fun x => Store.touches p x.2)) []
        ((hr.inv.filter _).nodup) (by simp)
      simpa using this
    refine ⟨st', flightsOf ((a.pending.filter (fun x => Store.touches p x.2)).foldl
        (fun acc x => amInsert natLt x.1 x.2 acc) []) ++ order', ?_, ?_, ?_⟩
    · simp only [McSys.crashNode.go, hc]
      rw [hgo, ← hl, dropped_toLog]
      simp
    · have : (a.pending.filter (fun x => !Store.touches p x.2)).filter
          (fun x => !(ps.any (fun p => Store.touches p x.2))) =
          a.pending.filter (fun x => !((p :: ps).any (fun p => Store.touches p x.2))) := by
        rw [List.filter_filter]
        apply List.filter_congr
        intro x _
        simp [Bool.and_comm]
      rw [← this]
      exact hr'
    · have h1 : (flightsOf ((a.pending.filter (fun x => Store.touches p x.2)).foldl
          (fun acc x => amInsert natLt x.1 x.2 acc) [])).Perm
          (flightsOf (a.pending.filter (fun x => Store.touches p x.2))) := hvict.filterMap _
      have h2 := (filter_or_perm (fun x : Nat × Ev => Store.touches p x.2)
        (fun x => ps.any (fun p => Store.touches p x.2)) a.pending).filterMap
        (fun x => match x.2 with
          | .msg m s d o => some (⟨m, s, d, o⟩ : Flight)
          | _ => none)
      have h3 : flightsOf (a.pending.filter (fun x => (p :: ps).any (fun p => Store.touches p x.2))) =
          flightsOf (a.pending.filter (fun x => Store.touches p x.2 ||
            ps.any (fun p => Store.touches p x.2))) := by
        simp [List.any_cons]
      rw [h3]
      refine ((h1.append hperm').trans ?_)
      rw [← flightsOf_append]
      exact h2.symm

end Anysystem
