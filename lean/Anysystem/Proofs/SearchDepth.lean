import Anysystem.Proofs.SearchBfs
/-!
# BFS reports errors at minimal depth

The queue is always `L1 ++ L2` with `L1` a suffix of level `d` and `L2` a prefix of level `d + 1`.
-/
set_option linter.unusedSectionVars false

namespace Anysystem

variable {σ κ : Type} [DecidableEq κ]

/-- the conclusion: `e` lies at some depth `n` below which nothing fails -/
def MinDepth (S : TSys σ κ) (s₀ e : σ) : Prop :=
  ∃ n, ReachN S s₀ n e ∧ ∀ m x, m < n → ReachN S s₀ m x → isFail (S.verdict x) = false

/-! ## cache disabled -/

structure LevD (S : TSys σ κ) (s₀ : σ) (d : Nat) (L1 L2 : List σ) : Prop where
  below : ∀ m x, m < d → ReachN S s₀ m x → isFail (S.verdict x) = false
  lev1 : ∀ x ∈ L1, ReachN S s₀ d x
  lev2 : ∀ x ∈ L2, ReachN S s₀ (d + 1) x
  cover : ∀ x, ReachN S s₀ d x → x ∈ L1 ∨ (isFail (S.verdict x) = false ∧
    (S.verdict x = .cont → ∀ cs, S.succ x = .ok cs → ∀ c ∈ cs, c ∈ L2))

theorem LevD.shift {S : TSys σ κ} {s₀ : σ} {d : Nat} {L2 : List σ} (h : LevD S s₀ d [] L2) :
    LevD S s₀ (d + 1) L2 [] := by
  refine ⟨?_, h.lev2, by simp, ?_⟩
  · intro m x hm hx
    rcases Nat.lt_or_eq_of_le (Nat.le_of_lt_succ hm) with hm | rfl
    · exact h.below m x hm hx
    · rcases h.cover x hx with hx | hx
      · simp at hx
      · exact hx.1
  · intro x hx
    left
    cases hx with
    | step hy hv hs hmem =>
      rcases h.cover _ hy with hy | hy
      · simp at hy
      · exact hy.2 hv _ hs _ hmem

theorem LevD.normalize {S : TSys σ κ} {s₀ : σ} {s : σ} {q : List σ}
    (h : ∃ d L1 L2, s :: q = L1 ++ L2 ∧ LevD S s₀ d L1 L2) :
    ∃ d L1 L2, q = L1 ++ L2 ∧ LevD S s₀ d (s :: L1) L2 := by
  obtain ⟨d, L1, L2, hq, hl⟩ := h
  cases L1 with
  | nil =>
    simp only [List.nil_append] at hq
    subst hq
    exact ⟨d + 1, q, [], by simp, hl.shift⟩
  | cons x L1 =>
    simp only [List.cons_append, List.cons.injEq] at hq
    obtain ⟨rfl, rfl⟩ := hq
    exact ⟨d, L1, L2, rfl, hl⟩

theorem LevD.minDepth {S : TSys σ κ} {s₀ : σ} {d : Nat} {s : σ} {L1 L2 : List σ}
    (h : LevD S s₀ d (s :: L1) L2) : MinDepth S s₀ s :=
  ⟨d, h.lev1 s (List.mem_cons_self ..), h.below⟩

theorem LevD.stop {S : TSys σ κ} {s₀ : σ} {d : Nat} {s : σ} {L1 L2 : List σ} {st : String}
    (h : LevD S s₀ d (s :: L1) L2) (hv : S.verdict s = .stop st) : LevD S s₀ d L1 L2 := by
  refine ⟨h.below, fun x hx => h.lev1 x (List.mem_cons_of_mem _ hx), h.lev2, ?_⟩
  intro x hx
  rcases h.cover x hx with hx | hx
  · rcases List.mem_cons.mp hx with rfl | hx
    · exact Or.inr ⟨by simp [hv, isFail], fun hc => by simp [hv] at hc⟩
    · exact Or.inl hx
  · exact Or.inr hx

theorem LevD.cont {S : TSys σ κ} {s₀ : σ} {d : Nat} {s : σ} {L1 L2 cs : List σ}
    (h : LevD S s₀ d (s :: L1) L2) (hv : S.verdict s = .cont) (hs : S.succ s = .ok cs) :
    LevD S s₀ d L1 (L2 ++ cs) := by
  refine ⟨h.below, fun x hx => h.lev1 x (List.mem_cons_of_mem _ hx), ?_, ?_⟩
  · intro x hx
    rcases List.mem_append.mp hx with hx | hx
    · exact h.lev2 x hx
    · exact ReachN.step (h.lev1 s (List.mem_cons_self ..)) hv hs hx
  · intro x hx
    rcases h.cover x hx with hx | hx
    · rcases List.mem_cons.mp hx with rfl | hx
      · refine Or.inr ⟨by simp [hv, isFail], fun _ cs' hs' c hc => ?_⟩
        rw [hs] at hs'
        cases hs'
        exact List.mem_append_right _ hc
      · exact Or.inl hx
    · exact Or.inr ⟨hx.1, fun hc cs' hs' c hcm => List.mem_append_left _ (hx.2 hc cs' hs' c hcm)⟩

theorem bfs_minDepth_disabled (S : TSys σ κ) (s₀ : σ) (n : Nat) (q : List σ) (a : Acc σ κ)
    (msg : String) (e : σ) (a' : Acc σ κ)
    (h : bfsLoop S n q a = some (.err msg e, a')) (hm : a.cache.mode = .disabled)
    (hl : ∃ d L1 L2, q = L1 ++ L2 ∧ LevD S s₀ d L1 L2) : MinDepth S s₀ e := by
  refine bfs_rule S
    (I := fun q a => a.cache.mode = .disabled ∧ ∃ d L1 L2, q = L1 ++ L2 ∧ LevD S s₀ d L1 L2)
    (F := fun r _ => ∀ msg e, r = .err msg e → MinDepth S s₀ e)
    ?_ ?_ ?_ ?_ ?_ n q a (.err msg e) a' ⟨hm, hl⟩ h msg e rfl
  · intro a _ _ _ h; cases h
  · intro s q a msg h _ msg' e he
    cases he
    obtain ⟨d, L1, L2, _, hl⟩ := LevD.normalize h.2
    exact hl.minDepth
  · intro s q a st h hv
    obtain ⟨d, L1, L2, hq, hl⟩ := LevD.normalize h.2
    exact ⟨by rw [check_cache]; exact h.1, d, L1, L2, hq, hl.stop hv⟩
  · intro s q a e _ _ _ _ _ h; cases h
  · intro s q a cs h hv hs
    obtain ⟨d, L1, L2, hq, hl⟩ := LevD.normalize h.2
    rw [bfsEnqueue_disabled S cs q a.cache h.1]
    exact ⟨h.1, d, L1, L2 ++ cs, by rw [hq, List.append_assoc], hl.cont hv hs⟩

/-! ## exact cache, congruent key -/

structure LevX (S : TSys σ κ) (s₀ : σ) (d : Nat) (L1 L2 : List σ) (E : List σ) : Prop where
  below : ∀ m x, m < d → ReachN S s₀ m x → isFail (S.verdict x) = false
  lev1 : ∀ x ∈ L1, ReachN S s₀ d x
  lev2 : ∀ x ∈ L2, ReachN S s₀ (d + 1) x
  cover : ∀ m x, m ≤ d → ReachN S s₀ m x →
    (∃ e ∈ E, S.key e = S.key x) ∨ ∃ x' ∈ L1, S.key x' = S.key x

theorem isFail_congr {S : TSys σ κ} {Inv : σ → Prop} (hc : CongruentOn S Inv) {a b : σ} (ha : Inv a)
    (hb : Inv b) (hk : S.key a = S.key b) (h : isFail (S.verdict a) = false) :
    isFail (S.verdict b) = false := by
  rw [← (hc a b ha hb hk).1]; exact h

theorem LevX.shift {S : TSys σ κ} {Inv : σ → Prop} (hc : CongruentOn S Inv) (hcl : InvClosed S Inv)
    {s₀ : σ} (h0 : Inv s₀) {d : Nat} {L2 : List σ} {c : Cache κ}
    {E : List σ} (hE : ∀ e ∈ E, Inv e) (h : LevX S s₀ d [] L2 E) (hb : BInv S L2 c E) :
    LevX S s₀ (d + 1) L2 [] E := by
  have hcov : ∀ m x, m ≤ d → ReachN S s₀ m x → ∃ e ∈ E, S.key e = S.key x := by
    intro m x hm hx
    rcases h.cover m x hm hx with hx | ⟨x', hx', _⟩
    · exact hx
    · simp at hx'
  refine ⟨?_, h.lev2, by simp, ?_⟩
  · intro m x hm hx
    obtain ⟨e, he, hk⟩ := hcov m x (Nat.le_of_lt_succ hm) hx
    exact isFail_congr hc (hE e he) (inv_of_reachN hcl h0 hx) hk (hb.noFail e he)
  · intro m x hm hx
    rcases Nat.lt_or_eq_of_le hm with hm | rfl
    · exact Or.inl (hcov m x (Nat.le_of_lt_succ hm) hx)
    · cases hx with
      | @step _ y _ cs hy hv hs hmem =>
        obtain ⟨e, he, hk⟩ := hcov d y (Nat.le_refl _) hy
        obtain ⟨hve, _, hsucc, _⟩ := hc y e (inv_of_reachN hcl h0 hy) (hE e he) hk.symm
        obtain ⟨cb, hcb, hkeys⟩ := hsucc cs hs
        have hkx : S.key x ∈ cb.map S.key := by
          rw [← hkeys]; exact List.mem_map_of_mem hmem
        obtain ⟨c', hc', hck⟩ := List.mem_map.mp hkx
        have hmk : Marked S c (S.key c') := hb.closed e he (hve ▸ hv) cb hcb c' hc'
        rcases hb.origin _ hmk with ⟨e', he', hk'⟩ | ⟨x', hx', hk'⟩
        · exact Or.inl ⟨e', he', by rw [hk', hck]⟩
        · exact Or.inr ⟨x', hx', by rw [hk', hck]⟩

theorem LevX.minDepth {S : TSys σ κ} {s₀ : σ} {d : Nat} {s : σ} {L1 L2 E : List σ}
    (h : LevX S s₀ d (s :: L1) L2 E) : MinDepth S s₀ s :=
  ⟨d, h.lev1 s (List.mem_cons_self ..), h.below⟩

/-- consume the head of level `d`, appending `added` (children of the head) to level `d + 1` -/
theorem LevX.step {S : TSys σ κ} {s₀ : σ} {d : Nat} {s : σ} {L1 L2 E added : List σ}
    (h : LevX S s₀ d (s :: L1) L2 E) (hadd : ∀ x ∈ added, ReachN S s₀ (d + 1) x) :
    LevX S s₀ d L1 (L2 ++ added) (E ++ [s]) := by
  refine ⟨h.below, fun x hx => h.lev1 x (List.mem_cons_of_mem _ hx), ?_, ?_⟩
  · intro x hx
    rcases List.mem_append.mp hx with hx | hx
    · exact h.lev2 x hx
    · exact hadd x hx
  · intro m x hm hx
    rcases h.cover m x hm hx with ⟨e, he, hk⟩ | ⟨x', hx', hk⟩
    · exact Or.inl ⟨e, List.mem_append_left _ he, hk⟩
    · rcases List.mem_cons.mp hx' with rfl | hx'
      · exact Or.inl ⟨x', by simp, hk⟩
      · exact Or.inr ⟨x', hx', hk⟩

/-- the loop invariant -/
def InvX (S : TSys σ κ) (s₀ : σ) (q : List σ) (a : Acc σ κ) : Prop :=
  ExactCache S a.cache.mode ∧ BInv S q a.cache a.evald ∧
    ∃ d L1 L2, q = L1 ++ L2 ∧ LevX S s₀ d L1 L2 a.evald

theorem InvX.normalize {S : TSys σ κ} {Inv : σ → Prop} (hc : CongruentOn S Inv) (hcl : InvClosed S Inv)
    {s₀ : σ} (h0 : Inv s₀) {s : σ} {q : List σ} {a : Acc σ κ}
    (hE : ∀ e ∈ a.evald, Inv e) (h : InvX S s₀ (s :: q) a) :
    ∃ d L1 L2, q = L1 ++ L2 ∧ LevX S s₀ d (s :: L1) L2 a.evald := by
  obtain ⟨_, hb, d, L1, L2, hq, hl⟩ := h
  cases L1 with
  | nil =>
    simp only [List.nil_append] at hq
    subst hq
    exact ⟨d + 1, q, [], by simp, hl.shift hc hcl h0 hE hb⟩
  | cons x L1 =>
    simp only [List.cons_append, List.cons.injEq] at hq
    obtain ⟨rfl, rfl⟩ := hq
    exact ⟨d, L1, L2, rfl, hl⟩

theorem bfs_minDepth_exact (S : TSys σ κ) (Inv : σ → Prop) (hc : CongruentOn S Inv)
    (hcl : InvClosed S Inv) (s₀ : σ) (h0 : Inv s₀) (n : Nat) (q : List σ)
    (a : Acc σ κ) (msg : String) (e : σ) (a' : Acc σ κ)
    (h : bfsLoop S n q a = some (.err msg e, a')) (hinv : InvX S s₀ q a)
    (hE : ∀ e ∈ a.evald, Inv e) : MinDepth S s₀ e := by
  have hstep : ∀ (s : σ) (a : Acc σ κ) {d : Nat} {L1 L2 : List σ},
      LevX S s₀ d (s :: L1) L2 a.evald → (∀ e ∈ a.evald, Inv e) →
      ∀ e ∈ (a.check S s).1.evald, Inv e := by
    intro s a d L1 L2 hl hE e he
    rw [check_evald] at he
    rcases List.mem_append.mp he with he | he
    · exact hE e he
    · simp only [List.mem_singleton] at he; subst he
      exact inv_of_reachN hcl h0 (hl.lev1 e (List.mem_cons_self ..))
  refine bfs_rule S (I := fun q a => InvX S s₀ q a ∧ ∀ e ∈ a.evald, Inv e)
    (F := fun r _ => ∀ msg e, r = .err msg e → MinDepth S s₀ e)
    ?_ ?_ ?_ ?_ ?_ n q a (.err msg e) a' ⟨hinv, hE⟩ h msg e rfl
  · intro a _ _ _ h; cases h
  · intro s q a msg h _ msg' e he
    cases he
    obtain ⟨d, L1, L2, _, hl⟩ := h.1.normalize hc hcl h0 h.2
    exact hl.minDepth
  · intro s q a st h hv
    obtain ⟨d, L1, L2, hq, hl⟩ := h.1.normalize hc hcl h0 h.2
    refine ⟨⟨by rw [check_cache]; exact h.1.1, ?_, d, L1, L2, hq, ?_⟩, hstep s a hl h.2⟩
    · rw [check_cache, check_evald]; exact h.1.2.1.stop hv
    · rw [check_evald]
      have := hl.step (added := []) (by simp)
      simpa using this
  · intro s q a e _ _ _ _ _ h; cases h
  · intro s q a cs h hv hs
    obtain ⟨d, L1, L2, hq, hl⟩ := h.1.normalize hc hcl h0 h.2
    obtain ⟨added, h1, h2, h3, _⟩ := bfsEnqueue_exact S cs q a.cache h.1.1
    refine ⟨⟨by rw [h2]; exact h.1.1, ?_, d, L1, L2 ++ added, by rw [h1, hq, List.append_assoc], ?_⟩,
      hstep s a hl h.2⟩
    · show BInv S (bfsEnqueue S cs q a.cache).1 (bfsEnqueue S cs q a.cache).2 (a.check S s).1.evald
      rw [check_evald]
      exact h.1.2.1.cont h.1.1 hv hs
    · show LevX S s₀ d L1 (L2 ++ added) (a.check S s).1.evald
      rw [check_evald]
      exact hl.step (fun x hx =>
        ReachN.step (hl.lev1 s (List.mem_cons_self ..)) hv hs (h3 x hx))

end Anysystem
