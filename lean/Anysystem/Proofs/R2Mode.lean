import Anysystem.Proofs.R2StepFault
import Anysystem.Proofs.R2StepDeliver
/-!
# The ordering mode is never changed by a step; `successors` lists the alternatives' results
-/
set_option linter.unusedSimpArgs false
namespace Anysystem

variable {σ : Type}

theorem deliverTo_mode {cfg : Cfg} {h : Handler σ} {s1 s' : McSys σ} {p : Nat} {i : Input}
    (hok : McSys.deliverTo cfg h s1 p i = .ok s') : s'.mode = s1.mode := by
  simp only [McSys.deliverTo] at hok
  split at hok
  · simp at hok
  · split at hok
    · simp at hok
    · split at hok
      · simp at hok
      · exact (addEvents_frame _ hok).2.1

theorem applyEvent_mode {cfg : Cfg} {h : Handler σ} {s s' : McSys σ} {ev : Ev}
    (hok : s.applyEvent cfg h ev = .ok s') : s'.mode = s.mode := by
  cases ev with
  | msg m src dst o => rw [applyEvent_msg] at hok; (have h1 := deliverTo_mode hok; exact h1)
  | timer p t d => rw [applyEvent_timer] at hok; (have h1 := deliverTo_mode hok; exact h1)
  | timerCancelled _ _ => simp only [McSys.applyEvent, Except.ok.injEq] at hok; subst hok; rfl
  | dropped _ _ _ _ => simp only [McSys.applyEvent, Except.ok.injEq] at hok; subst hok; rfl
  | duplicated _ _ _ _ => simp only [McSys.applyEvent, Except.ok.injEq] at hok; subst hok; rfl
  | corrupted _ _ _ _ _ => simp only [McSys.applyEvent, Except.ok.injEq] at hok; subst hok; rfl

theorem applyAlt_mode_gen {cfg : Cfg} (h : Handler σ) {s s' : McSys σ} {alt : Alt}
    (hok : s.applyAlt cfg h alt = .ok s') : s'.mode = s.mode := by
  cases alt with
  | deliver id =>
    simp only [McSys.applyAlt] at hok
    split at hok
    · simp at hok
    · (have h1 := applyEvent_mode hok; exact h1)
  | drop id =>
    simp only [McSys.applyAlt] at hok
    split at hok
    · simp at hok
    · (have h1 := applyEvent_mode hok; exact h1)
    · simp at hok
  | corrupt id =>
    simp only [McSys.applyAlt] at hok
    split at hok
    · simp at hok
    · split at hok
      · simp at hok
      · (have h1 := applyEvent_mode hok; exact h1)
    · simp at hok
  | dup id =>
    simp only [McSys.applyAlt] at hok
    split at hok
    · simp at hok
    · split at hok
      · simp at hok
      · split at hok
        · simp at hok
        · split at hok
          · simp at hok
          · split at hok
            · (have h1 := applyEvent_mode hok; exact h1)
            · simp at hok

/-! ## `successors` -/

theorem goAlts_spec {cfg : Cfg} {h : Handler σ} {s : McSys σ} (alts : List Alt) :
    ∀ {acc acc' : List (McSys σ)}, McSys.successors.goAlts cfg h s alts acc = .ok acc' →
      ∀ c, c ∈ acc' ↔ c ∈ acc ∨ ∃ alt ∈ alts, s.applyAlt cfg h alt = .ok c := by
  induction alts with
  | nil =>
    intro acc acc' hok c
    simp only [McSys.successors.goAlts, Except.ok.injEq] at hok
    subst hok
    simp
  | cons a rest ih =>
    intro acc acc' hok c
    simp only [McSys.successors.goAlts] at hok
    split at hok
    · simp at hok
    · rename_i s1 hs1
      rw [ih hok c]
      constructor
      · rintro (h1 | ⟨alt, halt, hc⟩)
        · rw [List.mem_append, List.mem_singleton] at h1
          rcases h1 with h1 | h1
          · exact Or.inl h1
          · exact Or.inr ⟨a, List.mem_cons_self, by rw [hs1, h1]⟩
        · exact Or.inr ⟨alt, List.mem_cons_of_mem _ halt, hc⟩
      · rintro (h1 | ⟨alt, halt, hc⟩)
        · exact Or.inl (List.mem_append_left _ h1)
        · rcases List.mem_cons.mp halt with rfl | halt
          · left
            rw [hs1] at hc
            simp only [Except.ok.injEq] at hc
            subst hc
            simp
          · exact Or.inr ⟨alt, halt, hc⟩

theorem goIds_spec {cfg : Cfg} {h : Handler σ} {s : McSys σ} (ids : List Nat) :
    ∀ {acc acc' : List (McSys σ)}, McSys.successors.goIds cfg h s ids acc = .ok acc' →
      ∀ c, c ∈ acc' ↔ c ∈ acc ∨ ∃ id ∈ ids, ∃ alts, s.alternatives id = .ok alts ∧
        ∃ alt ∈ alts, s.applyAlt cfg h alt = .ok c := by
  induction ids with
  | nil =>
    intro acc acc' hok c
    simp only [McSys.successors.goIds, Except.ok.injEq] at hok
    subst hok
    simp
  | cons id rest ih =>
    intro acc acc' hok c
    simp only [McSys.successors.goIds] at hok
    split at hok
    · simp at hok
    · rename_i alts halts
      split at hok
      · simp at hok
      · rename_i acc1 hacc1
        rw [ih hok c, goAlts_spec alts hacc1 c]
        simp only [List.mem_cons, exists_eq_or_imp, halts, Except.ok.injEq, exists_eq_left']
        constructor
        · rintro ((h1 | h1) | h1)
          · exact Or.inl h1
          · exact Or.inr (Or.inl h1)
          · exact Or.inr (Or.inr h1)
        · rintro (h1 | h1 | h1)
          · exact Or.inl (Or.inl h1)
          · exact Or.inl (Or.inr h1)
          · exact Or.inr h1

end Anysystem
