import Anysystem.Spec.Monitors
import Anysystem.Proofs.R2Defs
/-!
# Kernel-checked witness for finding D1 (C07)

With the code's configuration (`cfg = {}`, i.e. `overrideLeavesOld = true`) a `set_timer` on a
pending name leaves the old `TimerFired` event pending, so the overridden timer still fires: the
trace of the model checker has two `tfired` entries for one pending name, which the timer contract
(`timerContractOk`) rejects.  Hence the unrestricted statement "every path of the checker satisfies
the timer contract" is false for the code as it is; `mc_timer_contract_partial`
(`TimerContract.lean`) is restricted to override-free runs.  With the reference variant
(`overrideLeavesOld := false`) the same program has one pending timer event and a conforming trace.

Everything is evaluated by the kernel (`decide`).
-/
namespace Anysystem.TimerWitness
open Anysystem

/-- on the local message with tip 0: two `set_timer` on the same name 5 in one handler -/
def hdl : Handler Unit := fun _ _ i =>
  match i with
  | .loc m => if m.tip = 0 then ((), [.set 5 2 false, .set 5 4 false]) else ((), [])
  | _ => ((), [])

/-- one node 0 hosting one process 0 -/
def init : McSys Unit :=
  { nodes := [(0, { procs := [(0, { st := () })] })], net := { procLoc := [(0, 0)] } }

/-- the state after `send_local_message` -/
def afterLocal (cfg : Cfg) : R (McSys Unit) := McSys.sendLocal cfg hdl init 0 0 ⟨0, []⟩

/-- deliver the pending event `id` -/
def deliver (cfg : Cfg) (x : R (McSys Unit)) (id : Nat) : R (McSys Unit) :=
  match x with
  | .ok s => McSys.applyAlt cfg hdl s (.deliver id)
  | .error e => .error e

/-- the code as it is: both timer events (ids 0 and 1) are delivered one after another -/
def finalD1 : R (McSys Unit) := deliver {} (deliver {} (afterLocal {}) 0) 1

/-- the reference variant: the only pending timer event has id 1 (id 0 was cancelled) -/
def refCfg : Cfg := { overrideLeavesOld := false }
def finalRef : R (McSys Unit) := deliver refCfg (afterLocal refCfg) 1

def okTrace (x : R (McSys Unit)) : Option (List LogE) :=
  match x with
  | .ok s => some s.trace
  | .error _ => none

def okEvents (x : R (McSys Unit)) : Option (List (Nat × Ev)) :=
  match x with
  | .ok s => some s.events.events
  | .error _ => none

theorem okTrace_some {x : R (McSys Unit)} {tr : List LogE} (h : okTrace x = some tr) :
    ∃ s, x = .ok s ∧ s.trace = tr := by
  cases x with
  | error e => simp [okTrace] at h
  | ok s => exact ⟨s, rfl, by simpa [okTrace] using h⟩

theorem okEvents_some {x : R (McSys Unit)} {evs : List (Nat × Ev)} (h : okEvents x = some evs) :
    ∃ s, x = .ok s ∧ s.events.events = evs := by
  cases x with
  | error e => simp [okEvents] at h
  | ok s => exact ⟨s, rfl, by simpa [okEvents] using h⟩

def traceD1 : List LogE :=
  [.lrecv ⟨0, []⟩ 0, .tset 0 5, .tset 0 5, .tfired 0 5, .tfired 0 5]

def traceRef : List LogE :=
  [.lrecv ⟨0, []⟩ 0, .tset 0 5, .tset 0 5, .tfired 0 5]

theorem afterLocal_events_D1 : okEvents (afterLocal {}) = some [(0, .timer 0 5 2), (1, .timer 0 5 4)] := by decide
theorem finalD1_trace : okTrace finalD1 = some traceD1 := by decide
theorem afterLocal_events_ref : okEvents (afterLocal refCfg) = some [(1, .timer 0 5 4)] := by decide
theorem finalRef_trace : okTrace finalRef = some traceRef := by decide

/-- D1: in the code as it is, after two `set_timer` on one name both timer events are pending and
    both fire; the resulting trace violates the timer contract -/
theorem C07_D1_witness :
    (∃ s₀, afterLocal {} = .ok s₀ ∧ s₀.events.events = [(0, .timer 0 5 2), (1, .timer 0 5 4)]) ∧
    ∃ s, finalD1 = .ok s ∧ s.trace = traceD1 ∧ timerContractOk [(0, 0)] [] s.trace = false := by
  refine ⟨okEvents_some afterLocal_events_D1, ?_⟩
  obtain ⟨s, hs, htr⟩ := okTrace_some finalD1_trace
  exact ⟨s, hs, htr, by rw [htr]; decide⟩

/-- the contrast: in the reference variant the second `set_timer` cancels the first timer event; one
    timer event is pending, it fires once, and the trace satisfies the timer contract -/
theorem C07_reference_variant_ok :
    (∃ s₀, afterLocal refCfg = .ok s₀ ∧ s₀.events.events = [(1, .timer 0 5 4)]) ∧
    ∃ s, finalRef = .ok s ∧ s.trace = traceRef ∧ timerContractOk [(0, 0)] [] s.trace = true := by
  refine ⟨okEvents_some afterLocal_events_ref, ?_⟩
  obtain ⟨s, hs, htr⟩ := okTrace_some finalRef_trace
  exact ⟨s, hs, htr, by rw [htr]; decide⟩

/-! ### the two deliveries of D1 are a path of the checker (`McPath`) -/

/-- `McPath.cons` for a `deliver` alternative, as a computation -/
def stepChk (s : McSys Unit) (id : Nat) : Option (McSys Unit) :=
  match s.available, s.alternatives id, McSys.applyAlt {} hdl s (.deliver id) with
  | .ok ids, .ok alts, .ok s' => if id ∈ ids ∧ Alt.deliver id ∈ alts then some s' else none
  | _, _, _ => none

theorem stepChk_path {s s' s'' : McSys Unit} {id : Nat} {rest : List Alt} (h : stepChk s id = some s')
    (hp : McPath hdl s' rest s'') : McPath hdl s (.deliver id :: rest) s'' := by
  simp only [stepChk] at h
  split at h
  · rename_i ids alts s1 hav halts happ
    split at h
    · rename_i hc
      simp only [Option.some.injEq] at h
      subst h
      exact McPath.cons hav hc.1 halts hc.2 happ hp
    · simp at h
  · simp at h

def pathD1 : Option (List LogE) :=
  match afterLocal {} with
  | .ok s₀ => ((stepChk s₀ 0).bind (fun s₁ => stepChk s₁ 1)).map (·.trace)
  | .error _ => none

theorem pathD1_trace : pathD1 = some traceD1 := by decide

/-- the violating trace is reached along a path of the model checker (offered events, their
    alternatives, `applyAlt` with the code's configuration) from the state after the local message -/
theorem C07_D1_witness_path :
    ∃ s₀ s, afterLocal {} = .ok s₀ ∧ McPath hdl s₀ [.deliver 0, .deliver 1] s ∧
      timerContractOk [(0, 0)] [] s.trace = false := by
  have h := pathD1_trace
  simp only [pathD1] at h
  split at h
  · rename_i s₀ hs₀
    simp only [Option.map_eq_some_iff, Option.bind_eq_some_iff] at h
    obtain ⟨s, ⟨s₁, h1, h2⟩, htr⟩ := h
    exact ⟨s₀, s, hs₀, stepChk_path h1 (stepChk_path h2 (McPath.nil s)), by rw [htr]; decide⟩
  · simp at h

end Anysystem.TimerWitness
