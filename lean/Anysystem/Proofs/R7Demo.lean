import Anysystem.Proofs.R7Main
import Anysystem.Proofs.R6Demo
/-!
# R7 — non-vacuity of the chain for ARBITRARY rates: a run in which a message is CORRUPTED AND DUPLICATED

Every hypothesis of `sim_step_refines_fates` and of `sim_run_covered_fates` is instantiated on a concrete
`Sim Nat Ticks` run with duplication rate and corruption rate one half (drop rate zero):

* two nodes: node 0 hosts process 1, node 1 hosts process 2;
* `qf1`: process 1 has sent a message to process 2 (built by `Sim.handleActions` from the quiet state `qf0`, hence
  related by `r7_acts_sim`; the draws `⟨999⟩` are above both rates: one intact copy);
* the program `fateH`: process 2 answers every message with the message `⟨st, "a"⟩` to process 1 — the type tag is its
  state, a SEQUENCE NUMBER; everything else only counts;
* `qf1d` = `qf1` with the draw stream `⟨999⟩, ⟨1⟩, ⟨1⟩, ⟨300⟩, …`: the next step delivers the message to process 2, whose
  answer is not dropped, CORRUPTED (`⟨1⟩ < ⟨500⟩`: the payload `"a"` becomes `""`), DUPLICATED (`⟨1⟩ < ⟨500⟩`,
  `copies ⟨300⟩ = 2`): `qf2` holds two corrupted copies; two more steps deliver them to process 1 (`qf4`);
* the reference semantics / the checker put the answer in flight with the options `faults false 2 true`; the reference
  run takes `deliver 0, corrupt 0, dup 0`.  The exploration from the snapshot of `qf1d` finishes `Ok` (31 evaluated
  states, both strategies, kernel evaluation), and `fates_covered_demo` is `sim_run_covered_fates` with every
  hypothesis discharged;
* FRESHNESS (`fateH_fresh`) is proved by the sequence-number argument, for every reference state reachable from ANY
  state satisfying the invariant `SeqInv` ("every flight sent by process 2 carries a tag below the state of
  process 2"): corruption keeps the type tag (`r7_corruptMc_tip`), so a message with a new tag clashes with no flight in the
  air, intact or corrupted (`freshSend_of_tip`).
-/
namespace Anysystem

set_option linter.unusedSectionVars false
set_option linter.unusedVariables false
set_option linter.unusedSimpArgs false

/-! ## the sequence-number criterion for freshness -/

/-- corruption keeps the type tag of a message -/
theorem r7_corruptMc_tip (m : Msg) : (corruptMc m).tip = m.tip := rfl

/-- **messages carrying sequence numbers are fresh**: a `send` whose message carries a type tag that no flight in the
    air from the same sender to the same destination carries is fresh — corruption keeps the tag -/
theorem freshSend_of_tip {σ : Type} (r : RState σ) (p n0 : Nat) (m : Msg) (dst : Nat)
    (h : ∀ g ∈ r.flights, g.src = p → g.dst = dst → g.m.tip ≠ m.tip) : freshSend r p n0 (.send m dst) := by
  intro _
  have key : ∀ g ∈ r.flights, ∀ m1 m2 : Msg, m1.tip = g.m.tip → m2.tip = m.tip → (m1, g.src, g.dst) ≠ (m2, p, dst) := by
    intro g hg m1 m2 h1 h2 heq
    simp only [Prod.mk.injEq] at heq
    obtain ⟨e1, e2, e3⟩ := heq
    exact h g hg e2 e3 (by rw [← h1, ← h2, e1])
  refine ⟨fun g hg => ⟨key g hg _ _ rfl rfl, key g hg _ _ rfl (r7_corruptMc_tip m)⟩, fun g hg => ?_⟩
  have hg' := List.mem_of_mem_drop hg
  exact ⟨key g hg' _ _ (r7_corruptMc_tip g.m) rfl, key g hg' _ _ (r7_corruptMc_tip g.m) (r7_corruptMc_tip m)⟩

namespace R7Demo

open Sim R4Demo R5Demo R5MainDemo R6Demo

/-- process 2 answers every message with `⟨st, "a"⟩` to process 1 (`st` = its state: a sequence number); everything
    else only counts -/
def fateH : Handler Nat := fun p st i =>
  match i with
  | .msg _ _ => if p = 2 then (st + 1, [.send ⟨st, [34, 97, 34]⟩ 1]) else (st + 1, [])
  | _ => (st + 1, [])

def fateActs : List Action := [.send ⟨0, []⟩ 2]

/-- node 0 hosts process 1, node 1 hosts process 2; empty queue; **duplication and corruption rate one half** -/
def qf0 : Sim Nat Ticks :=
  { clock := ⟨0⟩, draws := List.replicate 8 ⟨999⟩,
    net := { (SimNet.default : SimNet Ticks) with duplRate := ⟨500⟩, corruptRate := ⟨500⟩, procLoc := [(1, 0), (2, 1)] },
    nodes := [(0, ndA0), (1, ndB0)],
    procNodes := [(1, 0), (2, 1)], handlers := [0, 1] }

example : TimeOps.lt (TimeOps.zero : Ticks) qf0.net.duplRate = true ∧
    TimeOps.lt (TimeOps.zero : Ticks) qf0.net.corruptRate = true := by decide

/-- process 1 has sent a message to process 2 (the draws `⟨999⟩` are above all rates: one intact copy) -/
def qf1 : Sim Nat Ticks :=
  match Sim.handleActions 0 1 ⟨0⟩ fateActs qf0 with
  | .ok s => s
  | .error _ => qf0

theorem qf1_eq : Sim.handleActions 0 1 ⟨0⟩ fateActs qf0 = .ok qf1 := rfl

/-- `qf1` with the draw stream: not dropped, corrupted, duplicated, two copies, two delays, … -/
def qf1d : Sim Nat Ticks :=
  { qf1 with draws := [⟨999⟩, ⟨1⟩, ⟨1⟩, ⟨300⟩, ⟨0⟩, ⟨500⟩] ++ List.replicate 15 ⟨999⟩ }

/-- one step: the message is delivered to process 2, whose answer is corrupted and duplicated -/
def qf2 : Sim Nat Ticks :=
  match qf1d.step (liftHandler fateH) with
  | .ok (_, s) => s
  | .error _ => qf1d

theorem qf2_eq : qf1d.step (liftHandler fateH) = .ok (true, qf2) := rfl

/-- three steps: then the two corrupted copies are delivered to process 1 -/
def qf4 : Sim Nat Ticks := match qf1d.steps (liftHandler fateH) 3 with
  | .ok (_, s) => s
  | .error _ => qf1d

theorem qf4_eq : qf1d.steps (liftHandler fateH) 3 = .ok (true, qf4) := rfl

def pf1 : SProc Nat Ticks := { st := 0, log := [⟨⟨0⟩, .sent ⟨0, []⟩ 1 2⟩], sent := 1 }
def ndF1 : SNode Nat Ticks := { skew := ⟨0⟩, procs := [(1, pf1)] }
def ef0 : QEv Ticks := ⟨0, ⟨0⟩, 0, 1, .msg 0 ⟨0, []⟩ 1 0 2 1⟩

theorem qf1d_nodes : qf1d.nodes = [(0, ndF1), (1, ndB0)] := rfl
theorem qf1d_events : qf1d.events = [ef0] := rfl
theorem qf1d_live : qf1d.live = [ef0] := rfl
theorem qf1d_loc : qf1d.net.procLoc = [(1, 0), (2, 1)] := rfl

/-- **the answer of process 2 is corrupted and duplicated when it is sent**: the simulator queues two copies with the
    payload `""` instead of `"a"`; six draws are consumed -/
example : qf2.events.map (fun e => (e.id, e.data)) =
      [(1, .msg 1 ⟨0, [34, 34]⟩ 2 1 1 0), (2, .msg 1 ⟨0, [34, 34]⟩ 2 1 1 0)] ∧
    corruptSim ⟨0, [34, 97, 34]⟩ = ⟨0, [34, 34]⟩ ∧ qf2.draws.length = 15 := by decide

example : qf4.events = [] ∧ (qf4.proc? 0 1).map (·.st) = some 2 ∧ (qf4.proc? 1 2).map (·.st) = some 1 := by decide

/-! ## the relation -/

/-- the reference state of the quiet state `qf0` -/
def rf0 : RState Nat :=
  { procs := qf0.nodes.flatMap (fun nd => nd.2.procs.map fun pe => (pe.1, ({ st := pe.2.st, outbox := pe.2.outbox } : RProc Nat))),
    crashedNodes := (qf0.nodes.filter (fun nd => !qf0.handlers.contains nd.1)).map (·.1),
    net := snapshotNet bitsT qf0 }

/-- the reference network of the demo CAN duplicate and corrupt (and cannot drop) -/
example : rf0.net.duplNonzero = true ∧ rf0.net.corruptPos = true ∧ rf0.net.dropPos = false := by decide

theorem qf0_nodes {n : Nat} {nd : SNode Nat Ticks} (h : amGet? n qf0.nodes = some nd) :
    (n = 0 ∧ nd = ndA0) ∨ (n = 1 ∧ nd = ndB0) :=
  amGet?_pair (show amGet? n [(0, ndA0), (1, ndB0)] = some nd from h)

theorem relf0 : TimedRelF bitsT qf0 rf0 [] := by
  refine timedRelF_of_quiet bitsT qf0 rfl rfl ⟨rfl, rfl⟩ ?_ ?_ ?_ ?_ ?_
  · intro n nd p e hn hp
    rcases qf0_nodes hn with ⟨rfl, rfl⟩ | ⟨rfl, rfl⟩
    · obtain ⟨rfl, rfl⟩ := amGet?_singleton (show amGet? p [(1, ({ st := 0 } : SProc Nat Ticks))] = some e from hp); rfl
    · obtain ⟨rfl, rfl⟩ := amGet?_singleton (show amGet? p [(2, ({ st := 0 } : SProc Nat Ticks))] = some e from hp); rfl
  · intro n nd p e hn hp
    rcases qf0_nodes hn with ⟨rfl, rfl⟩ | ⟨rfl, rfl⟩
    · obtain ⟨rfl, rfl⟩ := amGet?_singleton (show amGet? p [(1, ({ st := 0 } : SProc Nat Ticks))] = some e from hp); rfl
    · obtain ⟨rfl, rfl⟩ := amGet?_singleton (show amGet? p [(2, ({ st := 0 } : SProc Nat Ticks))] = some e from hp); rfl
  · intro p n h
    rcases amGet?_pair (show amGet? p [(1, 0), (2, 1)] = some n from h) with ⟨rfl, rfl⟩ | ⟨rfl, rfl⟩ <;> rfl
  · intro n
    constructor
    · intro h
      have : n = 0 ∨ n = 1 := by simpa [qf0] using h
      rcases this with rfl | rfl
      · exact ⟨ndA0, rfl, rfl⟩
      · exact ⟨ndB0, rfl, rfl⟩
    · rintro ⟨nd, hn, _⟩
      rcases qf0_nodes hn with ⟨rfl, rfl⟩ | ⟨rfl, rfl⟩ <;> simp [qf0]
  · exact List.pairwise_cons.2 ⟨by intro x hx; simp only [List.mem_singleton] at hx; subst hx; decide,
      List.pairwise_singleton _ _⟩

theorem ctxf0 : rf0.Ctx 0 1 := ⟨rfl, rfl, by decide⟩

/-- `qf1` (and `qf1d`: the draw stream is not looked at) is related to a reference state -/
theorem relf1 : ∃ r gs, TimedRelF bitsT qf1d r gs := by
  obtain ⟨gs, rv, _, hrel, _⟩ := r7_acts_sim (bits := bitsT) (n := 0) (p := 1) (time := (⟨0⟩ : Ticks)) fateActs qf0 rf0 rf0
    [] [] [] [] relf0 (RState.SameButFlights.r7_refl _) ctxf0 rfl (List.Perm.refl _) (by intro x hx; cases hx)
    (fun _ => ⟨(by intro x hx; cases hx), List.Pairwise.nil⟩)
    ⟨fun _ => ⟨(by intro g hg; cases hg), (by intro g hg; cases hg)⟩, trivial⟩
    (by intro d hd; simp only [qf0, List.mem_replicate] at hd; rw [hd.2]; show (999 : Nat) < 1000; omega)
    (by decide)
    (by
      intro a ha
      simp only [fateActs, List.mem_cons, List.not_mem_nil, or_false] at ha
      subst ha
      show (amGet? 2 rf0.net.procLoc).isSome = true
      rfl)
    qf1_eq
  exact ⟨rv, gs, hrel.sameView (Sim.sameView_draws qf1 _)⟩

/-! ## the program -/

theorem fateH_len (p st : Nat) (i : Input) : (fateH p st i).2.length ≤ 1 := by
  cases i with
  | msg m src => by_cases hp : p = 2 <;> simp [fateH, hp]
  | loc m => simp [fateH]
  | timer name => simp [fateH]

theorem fateH_acts (p st : Nat) (i : Input) (a : Action) (ha : a ∈ (fateH p st i).2) :
    a = .send ⟨st, [34, 97, 34]⟩ 1 ∧ p = 2 ∧ ∃ m src, i = .msg m src := by
  cases i with
  | msg m src =>
    by_cases hp : p = 2
    · exact ⟨by simpa [fateH, hp] using ha, hp, m, src, rfl⟩
    · simp [fateH, hp] at ha
  | loc m => simp [fateH] at ha
  | timer name => simp [fateH] at ha

theorem fateH_st (p st : Nat) (i : Input) : (fateH p st i).1 = st + 1 := by
  cases i with
  | msg m src => by_cases hp : p = 2 <;> simp [fateH, hp]
  | loc m => rfl
  | timer name => rfl

theorem fateH_actsFree (r : RState Nat) (p st : Nat) (i : Input) : r.overrideFreeActs p (fateH p st i).2 = true := by
  cases i with
  | msg m src => by_cases hp : p = 2 <;> simp [fateH, hp, RState.overrideFreeActs]
  | loc m => simp [fateH, RState.overrideFreeActs]
  | timer name => simp [fateH, RState.overrideFreeActs]

/-- `fateH` never sets a timer -/
theorem fateH_overrideFree (r : RState Nat) (l : Label) : r.overrideFree fateH l = true := by
  cases l with
  | deliver i =>
    simp only [RState.overrideFree]
    split
    · rfl
    · split
      · rfl
      · exact fateH_actsFree _ _ _ _
  | fire j =>
    simp only [RState.overrideFree]
    split
    · rfl
    · split
      · rfl
      · exact fateH_actsFree _ _ _ _
  | drop i => rfl
  | dup i => rfl
  | corrupt i => rfl

theorem qf1d_draws : ∀ d ∈ qf1d.draws, LawfulTime.isDraw d := by
  intro d hd
  have : qf1d.draws = [⟨999⟩, ⟨1⟩, ⟨1⟩, ⟨300⟩, ⟨0⟩, ⟨500⟩] ++ List.replicate 15 ⟨999⟩ := rfl
  rw [this] at hd
  simp only [List.mem_append, List.mem_cons, List.not_mem_nil, or_false, List.mem_replicate] at hd
  rcases hd with (rfl | rfl | rfl | rfl | rfl | rfl) | ⟨_, rfl⟩ <;> show _ < 1000 <;> decide

/-! ## freshness, by sequence numbers -/

/-- every flight sent by process 2 carries a tag below the state of process 2 -/
def SeqInv (r : RState Nat) : Prop :=
  ∀ f ∈ r.flights, f.src = 2 → ∀ e, amGet? 2 r.procs = some e → f.m.tip < e.st

/-- the handler step of `fateH`, spelled out -/
theorem fateH_react (r r' : RState Nat) (p : Nat) (i : Input) (h : r.react fateH p i = some r') :
    ∃ e, amGet? p r.procs = some e ∧
      r'.procs = r.procs.map (fun (x : Nat × RProc Nat) => if x.1 = p then (x.1, { x.2 with st := e.st + 1 }) else x) ∧
      ∃ fs, r'.flights = r.flights ++ fs ∧ ∀ f ∈ fs, p = 2 ∧ f.src = 2 ∧ f.m.tip = e.st := by
  unfold RState.react at h
  cases hp : amGet? p r.procs with
  | none => rw [hp] at h; cases h
  | some e =>
    rw [hp] at h
    simp only at h
    split at h
    · cases h
    · have h' := Option.some.inj h
      obtain ⟨rb, hrb⟩ : ∃ rb : RState Nat, rb = { r with procs := r.procs.map (fun (x : Nat × RProc Nat) =>
        if x.1 = p then (x.1, { x.2 with st := (fateH p e.st i).1 }) else x) } := ⟨_, rfl⟩
      rw [← hrb] at h'
      have hb1 : rb.procs = r.procs.map (fun (x : Nat × RProc Nat) =>
        if x.1 = p then (x.1, { x.2 with st := (fateH p e.st i).1 }) else x) := by rw [hrb]
      have hb3 : rb.flights = r.flights := by rw [hrb]
      obtain ⟨a1, _, a3, _, _⟩ := RState.acts_eq rb p (fateH p e.st i).2
      rw [h'] at a1 a3
      refine ⟨e, rfl, ?_, ?_⟩
      · rw [a1]
        -- the actions of `fateH` do not touch the process table
        have : ∀ (as : List Action) (late : List LogE) (rc : RState Nat), (∀ a ∈ as, ∃ m dst, a = .send m dst) →
            (RState.actsAux p as rc late).1.procs = rc.procs := by
          intro as
          induction as with
          | nil => intro late rc _; rfl
          | cons a as ih =>
            intro late rc hall
            rw [RState.actsAux_cons, ih _ _ (fun a' ha' => hall a' (List.mem_cons_of_mem _ ha'))]
            obtain ⟨m, dst, rfl⟩ := hall a List.mem_cons_self
            exact (RState.r7_act_send_same rc p m dst).1
        rw [this _ _ _ (fun a ha => ⟨_, _, (fateH_acts p e.st i a ha).1⟩), hb1, fateH_st]
      · rw [a3]
        cases hacts : (fateH p e.st i).2 with
        | nil => exact ⟨[], by simp [RState.actsAux, hb3], by intro f hf; cases hf⟩
        | cons a as =>
          have hl := fateH_len p e.st i
          rw [hacts] at hl
          have has : as = [] := by
            cases as with
            | nil => rfl
            | cons _ _ => simp at hl
          subst has
          obtain ⟨rfl, hp2, _⟩ := fateH_acts p e.st i a (by rw [hacts]; simp)
          refine ⟨rb.sendAdds p ⟨e.st, [34, 97, 34]⟩ 1, ?_, ?_⟩
          · rw [RState.actsAux_cons]
            show (RState.act rb p (Action.send _ 1)).1.flights = _
            rw [RState.r7_act_flights, hb3]
            rfl
          · intro f hf
            obtain ⟨e1, e2, _⟩ := RState.sendAdds_mem _ _ _ _ f hf
            exact ⟨hp2, by rw [e2, hp2], by rw [e1]⟩

theorem amGet?_map_st (l : List (Nat × RProc Nat)) (p k v : Nat) :
    amGet? k (l.map (fun (x : Nat × RProc Nat) => if x.1 = p then (x.1, { x.2 with st := v }) else x)) =
      if k = p then (amGet? k l).map (fun rp => { rp with st := v }) else amGet? k l :=
  amGet?_map_upd_r4 l p (fun rp => { rp with st := v }) k

/-- the invariant is kept by every step of the reference semantics -/
theorem seqInv_step (r r' : RState Nat) (l : Label) (hinv : SeqInv r) (hst : r.step fateH l = some r') : SeqInv r' := by
  -- after a handler step
  have hreact : ∀ (r1 : RState Nat) (p : Nat) (i : Input), r1.procs = r.procs →
      (∀ f ∈ r1.flights, f ∈ r.flights) → r1.react fateH p i = some r' → SeqInv r' := by
    intro r1 p i hp1 hf1 hre
    obtain ⟨e, he, hprocs, fs, hfl, hfs⟩ := fateH_react r1 r' p i hre
    rw [hp1] at he hprocs
    intro f hf hsrc e' he'
    rw [hprocs, amGet?_map_st] at he'
    rw [hfl] at hf
    rcases List.mem_append.1 hf with hf | hf
    · have hold := hinv f (hf1 f hf) hsrc
      split at he'
      · rename_i h2
        subst h2
        rw [he] at he'
        simp only [Option.map_some, Option.some.injEq] at he'
        subst he'
        have := hold e he
        simp only
        omega
      · exact hold e' he'
    · obtain ⟨hp2, _, htip⟩ := hfs f hf
      subst hp2
      rw [if_pos rfl, he] at he'
      simp only [Option.map_some, Option.some.injEq] at he'
      subst he'
      simp only
      omega
  -- after a fault step: the flights are old flights or copies that keep sender and tag
  have hfault : r'.procs = r.procs → (∀ f ∈ r'.flights, ∃ g ∈ r.flights, f.src = g.src ∧ f.m.tip = g.m.tip) → SeqInv r' := by
    intro hp hfl f hf hsrc e he
    obtain ⟨g, hg, e1, e2⟩ := hfl f hf
    rw [hp] at he
    rw [e2]
    exact hinv g hg (e1 ▸ hsrc) e he
  cases l with
  | deliver i =>
    simp only [RState.step] at hst
    split at hst
    · cases hst
    · refine hreact _ _ _ ?_ ?_ hst
      · rfl
      · intro f hf; exact List.mem_of_mem_eraseIdx hf
  | fire j =>
    simp only [RState.step] at hst
    split at hst
    · cases hst
    · refine hreact _ _ _ ?_ ?_ hst
      · rfl
      · intro f hf; exact hf
  | drop i =>
    simp only [RState.step] at hst
    split at hst
    · cases hst
      exact hfault rfl (fun f hf => ⟨f, List.mem_of_mem_eraseIdx hf, rfl, rfl⟩)
    · cases hst
  | dup i =>
    simp only [RState.step] at hst
    split at hst
    · rename_i m s d a n c hget
      cases hst
      refine hfault rfl (fun f hf => ?_)
      have hmem : (⟨m, s, d, .faults a (n + 1) c⟩ : Flight) ∈ r.flights := List.mem_of_getElem? hget
      simp only [List.mem_append, List.mem_cons, List.not_mem_nil, or_false] at hf
      rcases hf with hf | rfl | rfl
      · exact ⟨f, List.mem_of_mem_eraseIdx hf, rfl, rfl⟩
      · exact ⟨_, hmem, rfl, rfl⟩
      · exact ⟨_, hmem, rfl, rfl⟩
    · cases hst
  | corrupt i =>
    simp only [RState.step] at hst
    split at hst
    · rename_i m s d a n hget
      cases hst
      refine hfault rfl (fun f hf => ?_)
      have hmem : (⟨m, s, d, .faults a n true⟩ : Flight) ∈ r.flights := List.mem_of_getElem? hget
      simp only [List.mem_append, List.mem_cons, List.not_mem_nil, or_false] at hf
      rcases hf with hf | rfl
      · exact ⟨f, List.mem_of_mem_eraseIdx hf, rfl, rfl⟩
      · exact ⟨_, hmem, rfl, rfl⟩
    · cases hst

theorem seqInv_run (ls : List Label) : ∀ (r r' : RState Nat) (mode : Mode), SeqInv r →
    refRun fateH mode r ls = some r' → SeqInv r' := by
  induction ls with
  | nil => intro r r' _ hinv hrun; simp only [refRun, Option.some.injEq] at hrun; subst hrun; exact hinv
  | cons l ls ih =>
    intro r r' mode hinv hrun
    simp only [refRun] at hrun
    split at hrun
    · cases hst : r.step fateH l with
      | none => rw [hst] at hrun; cases hrun
      | some r1 =>
        rw [hst] at hrun
        exact ih r1 r' mode (seqInv_step r r1 l hinv hst) hrun
    · cases hrun

/-- a handler call of `fateH` in a state satisfying the invariant is fresh: the answer carries a new sequence number -/
theorem fateH_freshActs (r : RState Nat) (p n0 : Nat) (i : Input) (e : RProc Nat) (he : amGet? p r.procs = some e)
    (hinv : SeqInv r) : freshActs r p n0 (fateH p e.st i).2 := by
  cases hacts : (fateH p e.st i).2 with
  | nil => trivial
  | cons a as =>
    have hl := fateH_len p e.st i
    rw [hacts] at hl
    have has : as = [] := by
      cases as with
      | nil => rfl
      | cons _ _ => simp at hl
    subst has
    obtain ⟨rfl, hp2, _⟩ := fateH_acts p e.st i a (by rw [hacts]; simp)
    subst hp2
    refine ⟨freshSend_of_tip r 2 n0 _ 1 ?_, trivial⟩
    intro g hg hsrc _
    have := hinv g hg hsrc e he
    simp only
    omega

/-- **freshness of the program**, from every state satisfying the sequence-number invariant -/
theorem fateH_fresh (r : RState Nat) (mode : Mode) (hinv : SeqInv r) : FreshSendsFrom fateH mode r := by
  intro ls r' hrun l _
  have hinv' := seqInv_run ls r r' mode hinv hrun
  cases l with
  | deliver i =>
    simp only [FreshAt]
    split
    · trivial
    · rename_i f hf
      split
      · trivial
      · rename_i e he
        refine fateH_freshActs _ f.dst _ _ e he ?_
        intro g hg hsrc e' he'
        exact hinv' g (List.mem_of_mem_eraseIdx hg) hsrc e' he'
  | fire j =>
    simp only [FreshAt]
    split
    · trivial
    · rename_i t ht
      split
      · trivial
      · rename_i e he
        exact fateH_freshActs _ t.proc _ _ e he (fun g hg hsrc e' he' => hinv' g hg hsrc e' he')
  | drop i => trivial
  | dup i => trivial
  | corrupt i => trivial

/-! ## well-formedness of `qf1d`, the snapshot, the exploration -/

theorem mem_qf1d_live {e : QEv Ticks} (h : e ∈ qf1d.live) : e = ef0 := by
  rw [qf1d_live] at h
  simpa using h

theorem qf1d_node {n : Nat} {nd : SNode Nat Ticks} (h : amGet? n qf1d.nodes = some nd) :
    (n = 0 ∧ nd = ndF1) ∨ (n = 1 ∧ nd = ndB0) := by
  rw [qf1d_nodes] at h
  exact amGet?_pair h

theorem qf1d_wf : SnapWF qf1d := by
  refine ⟨?_, ?_, ?_, ?_, ?_, ?_, ?_, ?_, ?_, ?_, ?_⟩
  · rw [qf1d_nodes]
    exact List.pairwise_cons.2 ⟨by intro x hx; simp only [List.mem_singleton] at hx; subst hx; decide,
      List.pairwise_singleton _ _⟩
  · intro nd h
    rw [qf1d_nodes] at h
    simp only [List.mem_cons, List.not_mem_nil, or_false] at h
    rcases h with rfl | rfl <;> exact List.pairwise_singleton _ _
  · rw [qf1d_nodes]; decide
  · intro n nd p e hn hp
    rcases qf1d_node hn with ⟨rfl, rfl⟩ | ⟨rfl, rfl⟩
    · obtain ⟨rfl, rfl⟩ := amGet?_singleton (show amGet? p [(1, pf1)] = some e from hp); rfl
    · obtain ⟨rfl, rfl⟩ := amGet?_singleton (show amGet? p [(2, pe2')] = some e from hp); rfl
  · intro p n h
    rw [qf1d_loc] at h
    rcases amGet?_pair h with ⟨rfl, rfl⟩ | ⟨rfl, rfl⟩
    · exact ⟨ndF1, pf1, rfl, rfl⟩
    · exact ⟨ndB0, pe2', rfl, rfl⟩
  · intro e he p name hd
    rw [mem_qf1d_live he] at hd; cases hd
  · intro a ha b hb p name hda hdb
    rw [mem_qf1d_live ha] at hda; cases hda
  · intro n nd p e hn _ hp name
    rcases qf1d_node hn with ⟨rfl, rfl⟩ | ⟨rfl, rfl⟩
    · obtain ⟨rfl, rfl⟩ := amGet?_singleton (show amGet? p [(1, pf1)] = some e from hp)
      constructor
      · rintro ⟨id, h⟩
        cases h
      · rintro ⟨ev, hev, hd⟩
        rw [mem_qf1d_live hev] at hd; cases hd
    · obtain ⟨rfl, rfl⟩ := amGet?_singleton (show amGet? p [(2, pe2')] = some e from hp)
      constructor
      · rintro ⟨id, h⟩
        cases h
      · rintro ⟨ev, hev, hd⟩
        rw [mem_qf1d_live hev] at hd; cases hd
  · intro e he p name hd nd hn
    rw [mem_qf1d_live he] at hd; cases hd
  · intro e he mid m src sn dst dn hd
    rw [mem_qf1d_live he] at hd
    cases hd
    refine ⟨rfl, rfl, ?_⟩
    intro nd hn
    rcases qf1d_node hn with ⟨_, rfl⟩ | ⟨h0, _⟩
    · rfl
    · cases h0
  · rw [qf1d_events]; decide

/-- the snapshot of `qf1d` -/
def sf0 : McSys Nat := match snapshot bitsT qf1d with
  | .ok s => s
  | .error _ => {}

theorem sf0_eq : snapshot bitsT qf1d = .ok sf0 := rfl

/-- the checker's network CAN duplicate and corrupt: the exploration from the snapshot contains `dup` and `corrupt`
    steps -/
example : sf0.net.duplNonzero = true ∧ sf0.net.corruptPos = true := by decide

def fateSearch (strat : Strat) :=
  search (mcTSys {} fateH demoP (fun _ => 0)) strat 100 (startedOf sf0) (Acc.fresh .full)

/-- both strategies finish `Ok` within fuel 100 (kernel evaluation; 31 states are evaluated) -/
theorem fateSearch_ok : isOkRes (fateSearch .dfs) = true ∧ isOkRes (fateSearch .bfs) = true := by decide +kernel

/-- the reference state of the snapshot satisfies the sequence-number invariant: no flight stems from process 2 -/
theorem snapRef_seqInv : SeqInv (snapshotRef bitsT qf1d) := by
  intro f hf hsrc
  have hfl : (snapshotRef bitsT qf1d).flights.map (·.src) = [1] := by decide
  have : f.src ∈ (snapshotRef bitsT qf1d).flights.map (·.src) := List.mem_map_of_mem hf
  rw [hfl, List.mem_singleton, hsrc] at this
  cases this

theorem snap_seqInv :
    SeqInv { (snapshotRef bitsT qf1d) with trace := (snapshotRef bitsT qf1d).trace ++ [LogE.started] } :=
  fun f hf => snapRef_seqInv f hf

/-- **Non-vacuity of `sim_step_refines_fates`**: all hypotheses hold for the step `qf1d → qf2`, in which the handler's
    send is corrupted and duplicated, with the reference state of the snapshot of `qf1d`; the conclusion is a reference
    run of at most `1 + 3 * 1` labels. -/
theorem fate_step : ∃ gs, TimedRelF bitsT qf1d (snapshotRef bitsT qf1d) gs ∧
    ∃ ls r' gs', ls.length ≤ 1 + 3 * 1 ∧ refRun fateH .normal (snapshotRef bitsT qf1d) ls = some r' ∧
      TimedRelF bitsT qf2 r' gs' := by
  obtain ⟨r, gs, hrel⟩ := relf1
  obtain ⟨gs₀, hrel₀⟩ := timedRelF_snapshot bitsT ticks_snapTimeLaws qf1d r gs hrel
  refine ⟨gs₀, hrel₀, ?_⟩
  refine sim_step_refines_fates bitsT fateH qf1d qf2 _ gs₀ hrel₀ ticks_snapTimeLaws.bits_mono
    ticks_snapTimeLaws.add_mono_left ?_ ?_ qf1d_draws ?_ 1 fateH_len
    (fateH_fresh _ .normal snapRef_seqInv [] _ rfl) qf2_eq
  · intro p st i a _ name d once _; exact ticks_delay d
  · intro p st i a ha m dst hm
    have := (fateH_acts p st i a ha).1
    rw [hm] at this
    cases this
    rfl
  · intro p st i
    have h1 := fateH_len p st i
    have : qf1d.draws.length = 21 := rfl
    omega

/-- the reference run that matches the step `qf1d → qf2`: the delivery to process 2, then the corruption and one
    duplication of its answer; the triples of the flights at its end are those of the two queued copies -/
example : (refRun fateH .normal (snapshotRef bitsT qf1d) [.deliver 0, .corrupt 0, .dup 0]).map
    (fun r => r.flights.map Flight.key) = some qf2.liveKeys := by decide

/-- **Non-vacuity of `sim_run_covered_fates`, full instantiation with positive duplication and corruption rates**: the
    exploration from the snapshot of `qf1d` finishes `Ok`, and the process-visible state after three further simulator
    steps — in the first of which the answer of process 2 is CORRUPTED AND DUPLICATED — is that of an evaluated
    state. -/
theorem fates_covered_demo (strat : Strat) :
    ∃ a, fateSearch strat = some (.ok, a) ∧ ∃ e ∈ a.evald, visibleEqMc qf4 e := by
  have hok : isOkRes (fateSearch strat) = true := by
    cases strat with
    | dfs => exact fateSearch_ok.1
    | bfs => exact fateSearch_ok.2
  obtain ⟨a, ha⟩ := isOkRes_some hok
  refine ⟨a, ha, ?_⟩
  obtain ⟨r, gs, hrel⟩ := relf1
  refine sim_run_covered_fates bitsT ticks_snapTimeLaws fateH demoP demoP_keyBased (fun _ => 0) qf1d r gs hrel qf1d_wf
    sf0 sf0_eq strat .full (Or.inl rfl) 100 a ha ?_ (fateH_fresh _ _ snap_seqInv) ?_ ?_
    (fun x _ hx => demoP_cont x hx) 3 qf4 qf4_eq qf1d_draws ?_
  · intro ls r' _ l _
    exact fateH_overrideFree r' l
  · intro p st i a _ name d once _; exact ticks_delay d
  · intro p st i a ha m dst hm
    have := (fateH_acts p st i a ha).1
    rw [hm] at this
    cases this
    rfl
  · intro p st i
    have h1 := fateH_len p st i
    have : qf1d.draws.length = 21 := rfl
    omega

/-- the covering evaluated state shows process 1 in state 2 (it has received both corrupted copies) and process 2 in
    state 1, with empty outboxes -/
example (strat : Strat) : ∃ a, fateSearch strat = some (.ok, a) ∧
    ∃ e ∈ a.evald, amGet? 1 (procsOf e) = some ⟨2, []⟩ ∧ amGet? 2 (procsOf e) = some ⟨1, []⟩ := by
  obtain ⟨a, ha, e, he, hv⟩ := fates_covered_demo strat
  refine ⟨a, ha, e, he, ?_, ?_⟩
  · have hq : qf4.proc? 0 1 = some (match qf4.proc? 0 1 with | some pe => pe | none => pf1) := rfl
    exact hv 0 1 _ hq
  · have hq : qf4.proc? 1 2 = some (match qf4.proc? 1 2 with | some pe => pe | none => pe2') := rfl
    exact hv 1 2 _ hq

end R7Demo

end Anysystem
