import Anysystem.Model.Pred
import Anysystem.Model.Strategy
/-!
# Helper lemmas for `PredThms` (C19)

* the local `go` of `received_messages`;
* unfolding equations for the rule combinators;
* a step of the model checker appends at least one trace entry, none of them `McStarted`, and
  increments the depth (for every configuration).
-/
namespace Anysystem

variable {σ : Type}

open Pred

/-! ### `received_messages`: the scan over the outbox -/

theorem invReceivedMessages_go_false (expected : List (List Nat)) (ms : List Msg) : ∀ got : List (List Nat),
    invReceivedMessages.go expected ms got = false ↔
      ((ms.map (·.data)).Nodup ∧ (∀ m ∈ ms, m.data ∉ got) ∧ ∀ m ∈ ms, m.data ∈ expected) := by
  induction ms with
  | nil => intro got; simp [invReceivedMessages.go]
  | cons m ms ih =>
    intro got
    simp only [invReceivedMessages.go]
    by_cases h1 : got.contains m.data = true
    · simp only [h1, if_true]
      simp only [List.contains_iff_mem] at h1
      simp only [Bool.true_eq_false, false_iff]
      rintro ⟨_, h, _⟩
      exact h m (List.mem_cons_self) h1
    · simp only [h1]
      simp only [List.contains_iff_mem] at h1
      by_cases h2 : expected.contains m.data = true
      · simp only [h2, Bool.not_true, Bool.false_eq_true, if_false, ih]
        simp only [List.contains_iff_mem] at h2
        simp only [List.map_cons, List.nodup_cons, List.mem_cons, List.mem_map, not_exists, not_and, not_or,
          forall_eq_or_imp]
        constructor
        · rintro ⟨a, b, c⟩
          exact ⟨⟨fun x hx heq => (b x hx).1 heq, a⟩, ⟨h1, fun x hx => (b x hx).2⟩, h2, c⟩
        · rintro ⟨⟨a, b⟩, ⟨_, c⟩, _, d⟩
          exact ⟨b, fun x hx => ⟨fun heq => a x hx heq, c x hx⟩, d⟩
      · simp only [h2]
        simp only [List.contains_iff_mem] at h2
        simp only [Bool.not_false, if_true, Bool.false_eq_true, if_false, Bool.true_eq_false, false_iff]
        rintro ⟨_, _, h⟩
        exact h2 (h m List.mem_cons_self)

/-! ### combinators: unfolding equations -/

theorem allInvariants_cons {S α : Type} (r : S → α → Bool × S) (rs : List (S → α → Bool × S)) (st : S)
    (sts : List S) (x : α) :
    allInvariants (r :: rs) (st :: sts) x =
      if (r st x).1 then (true, (r st x).2 :: sts)
      else ((allInvariants rs sts x).1, (r st x).2 :: (allInvariants rs sts x).2) := by
  rw [allInvariants]

theorem anyRule_cons {S α : Type} (r : S → α → Bool × S) (rs : List (S → α → Bool × S)) (st : S)
    (sts : List S) (x : α) :
    anyRule (r :: rs) (st :: sts) x =
      if (r st x).1 then (true, (r st x).2 :: sts)
      else ((anyRule rs sts x).1, (r st x).2 :: (anyRule rs sts x).2) := by
  rw [anyRule]

theorem allRules_cons {S α : Type} (r : S → α → Bool × S) (rs : List (S → α → Bool × S)) (st : S)
    (sts : List S) (x : α) :
    allRules (r :: rs) (st :: sts) x =
      if !(r st x).1 then (false, (r st x).2 :: sts)
      else ((allRules rs sts x).1, (r st x).2 :: (allRules rs sts x).2) := by
  rw [allRules]

/-! ### trace entries appended by a step -/

theorem handleActions_trace (cfg : Cfg) (proc : Nat) (acts : List Action) :
    ∀ (e : ProcEntry σ) (evs : List Ev) (tr : List LogE),
      ∃ new, (handleActions cfg proc acts e evs tr).2.2 = tr ++ new ∧ LogE.started ∉ new := by
  induction acts with
  | nil => intro e evs tr; exact ⟨[], by simp [handleActions], by simp⟩
  | cons a rest ih =>
    intro e evs tr
    cases a with
    | send m dst =>
      simp only [handleActions]
      obtain ⟨new, h1, h2⟩ := ih { e with log := e.log ++ [.sent m proc dst], sent := e.sent + 1 }
        (evs ++ [.msg m proc dst (.noFail 0)]) (tr ++ [.sent m proc dst])
      exact ⟨LogE.sent m proc dst :: new, by rw [h1]; simp, by simp [h2]⟩
    | loc m =>
      simp only [handleActions]
      obtain ⟨new, h1, h2⟩ := ih { e with log := e.log ++ [.lsent m], outbox := e.outbox ++ [m] }
        evs (tr ++ [.lsent m proc])
      exact ⟨LogE.lsent m proc :: new, by rw [h1]; simp, by simp [h2]⟩
    | set name delay once =>
      simp only [handleActions]
      split
      · obtain ⟨new, h1, h2⟩ := ih
          { e with log := e.log ++ [.tset name delay once], pending := setInsert name e.pending }
          (evs ++ (if !cfg.overrideLeavesOld && e.pending.contains name then [.timerCancelled proc name] else [])
            ++ [.timer proc name delay]) (tr ++ [.tset proc name])
        exact ⟨LogE.tset proc name :: new, by rw [h1]; simp, by simp [h2]⟩
      · exact ih _ _ _
    | cancel name =>
      simp only [handleActions]
      split
      · obtain ⟨new, h1, h2⟩ := ih
          { e with log := e.log ++ [.tcancel name], pending := setErase name e.pending }
          (evs ++ [.timerCancelled proc name]) (tr ++ [.tcancel proc name])
        exact ⟨LogE.tcancel proc name :: new, by rw [h1]; simp, by simp [h2]⟩
      · exact ih _ _ _

theorem react_trace {cfg : Cfg} {h : Handler σ} {n n' : McNode σ} {proc : Nat} {i : Input}
    {evs : List Ev} {tr : List LogE} (hok : n.react cfg h proc i = .ok (n', evs, tr)) :
    LogE.started ∉ tr := by
  simp only [McNode.react] at hok
  split at hok
  · simp at hok
  · split at hok
    · simp at hok
    · simp only [Except.ok.injEq, Prod.mk.injEq] at hok
      obtain ⟨_, _, rfl⟩ := hok
      obtain ⟨new, h1, h2⟩ := handleActions_trace cfg proc _ _ _ _
      rw [h1]
      simpa using h2

theorem addEvents_cons_trace {cfg : Cfg} {ev : Ev} {rest : List Ev} {s s' : McSys σ}
    (h : McSys.addEvents cfg (ev :: rest) s = .ok s') :
    ∃ s1 : McSys σ, s1.depth = s.depth ∧ (∃ new, s1.trace = s.trace ++ new ∧ LogE.started ∉ new) ∧
      McSys.addEvents cfg rest s1 = .ok s' := by
  simp only [McSys.addEvents] at h
  split at h
  · simp at h
  · split at h
    · simp at h
    · refine ⟨_, ?_, ⟨[], ?_, ?_⟩, h⟩ <;> simp
  · split at h
    · simp at h
    · rename_i m src dst _ _ _ _ _
      refine ⟨_, ?_, ⟨[LogE.dropped m src dst], ?_, ?_⟩, h⟩
      · rfl
      · rfl
      · simp
  · split at h
    · simp at h
    · refine ⟨_, ?_, ⟨[], ?_, ?_⟩, h⟩ <;> simp

theorem addEvents_trace {cfg : Cfg} (evs : List Ev) : ∀ {s s' : McSys σ},
    McSys.addEvents cfg evs s = .ok s' →
      s'.depth = s.depth ∧ ∃ new, s'.trace = s.trace ++ new ∧ LogE.started ∉ new := by
  induction evs with
  | nil =>
    intro s s' h
    simp only [McSys.addEvents, Except.ok.injEq] at h
    subst h
    exact ⟨rfl, [], by simp, by simp⟩
  | cons ev rest ih =>
    intro s s' h
    obtain ⟨s1, h1, ⟨new1, h2, h3⟩, h4⟩ := addEvents_cons_trace h
    obtain ⟨g1, new2, g2, g3⟩ := ih h4
    refine ⟨g1.trans h1, new1 ++ new2, ?_, ?_⟩
    · rw [g2, h2, List.append_assoc]
    · simp [h3, g3]

theorem toLog_ne_started (ev : Ev) : ev.toLog ≠ LogE.started := by
  cases ev <;> simp [Ev.toLog]

theorem applyEvent_trace_depth {cfg : Cfg} {h : Handler σ} {s s' : McSys σ} {ev : Ev}
    (hok : s.applyEvent cfg h ev = .ok s') :
    s'.depth = s.depth + 1 ∧ ∃ new, new ≠ [] ∧ s'.trace = s.trace ++ new ∧ LogE.started ∉ new := by
  have hdel : ∀ (proc : Nat) (i : Input),
      (match ({ s with depth := s.depth + 1, trace := s.trace ++ [ev.toLog] } : McSys σ).net.procNode proc with
        | .error e => (.error e : R (McSys σ))
        | .ok nd =>
          match ({ s with depth := s.depth + 1, trace := s.trace ++ [ev.toLog] } : McSys σ).nodeOf nd with
          | .error e => .error e
          | .ok n =>
            match n.react cfg h proc i with
            | .error e => .error e
            | .ok (n', evs, tr) =>
              McSys.addEvents cfg evs
                { ({ s with depth := s.depth + 1, trace := s.trace ++ [ev.toLog] } : McSys σ) with
                  nodes := amInsert natLt nd n' s.nodes,
                  trace := (s.trace ++ [ev.toLog]) ++ tr }) = .ok s' →
      s'.depth = s.depth + 1 ∧ ∃ new, new ≠ [] ∧ s'.trace = s.trace ++ new ∧ LogE.started ∉ new := by
    intro proc i hd
    split at hd
    · simp at hd
    · split at hd
      · simp at hd
      · split at hd
        · simp at hd
        · rename_i n' evs tr hreact
          obtain ⟨g1, new, g2, g3⟩ := addEvents_trace _ hd
          have hr := react_trace hreact
          refine ⟨g1, ev.toLog :: (tr ++ new), by simp, ?_, ?_⟩
          · rw [g2]; simp
          · simp only [List.mem_cons, List.mem_append, not_or]
            exact ⟨fun h => toLog_ne_started ev h.symm, hr, g3⟩
  cases ev with
  | msg m src dst o => exact hdel dst (.msg m src) hok
  | timer p t d => exact hdel p (.timer t) hok
  | timerCancelled _ _ =>
    simp only [McSys.applyEvent, Except.ok.injEq] at hok; subst hok
    exact ⟨rfl, _, by simp, rfl, by simp [Ev.toLog]⟩
  | dropped _ _ _ _ =>
    simp only [McSys.applyEvent, Except.ok.injEq] at hok; subst hok
    exact ⟨rfl, _, by simp, rfl, by simp [Ev.toLog]⟩
  | duplicated _ _ _ _ =>
    simp only [McSys.applyEvent, Except.ok.injEq] at hok; subst hok
    exact ⟨rfl, _, by simp, rfl, by simp [Ev.toLog]⟩
  | corrupted _ _ _ _ _ =>
    simp only [McSys.applyEvent, Except.ok.injEq] at hok; subst hok
    exact ⟨rfl, _, by simp, rfl, by simp [Ev.toLog]⟩

theorem applyAlt_trace_depth_gen {cfg : Cfg} (h : Handler σ) {s s' : McSys σ} {alt : Alt}
    (hok : s.applyAlt cfg h alt = .ok s') :
    s'.depth = s.depth + 1 ∧ ∃ new, new ≠ [] ∧ s'.trace = s.trace ++ new ∧ LogE.started ∉ new := by
  cases alt with
  | deliver id =>
    simp only [McSys.applyAlt] at hok
    split at hok
    · simp at hok
    · (have h1 := applyEvent_trace_depth hok; exact h1)
  | drop id =>
    simp only [McSys.applyAlt] at hok
    split at hok
    · simp at hok
    · (have h1 := applyEvent_trace_depth hok; exact h1)
    · simp at hok
  | corrupt id =>
    simp only [McSys.applyAlt] at hok
    split at hok
    · simp at hok
    · split at hok
      · simp at hok
      · (have h1 := applyEvent_trace_depth hok; exact h1)
    · simp at hok
  | dup id =>
    simp only [McSys.applyAlt] at hok
    split at hok
    · simp at hok
    · split at hok
      · simp at hok
      · split at hok
        · simp at hok
        · split at hok
          · simp at hok
          · split at hok
            · (have h1 := applyEvent_trace_depth hok; exact h1)
            · simp at hok

end Anysystem
