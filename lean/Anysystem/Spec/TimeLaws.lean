import Anysystem.Model.Time
/-!
# Laws of the time arithmetic assumed by the simulator theorems

`f64` satisfies them on the non-NaN, non-negative values the simulator uses (trusted, `Float` is
opaque to the logic); `Ticks` satisfies them provably (instance below).
-/
namespace Anysystem

class LawfulTime (T : Type) [TimeOps T] where
  /-- `0 ≤ r < 1`: what `ctx.rand()` returns -/
  isDraw : T → Prop
  le_refl : ∀ a : T, TimeOps.le a a = true
  le_trans : ∀ a b c : T, TimeOps.le a b = true → TimeOps.le b c = true → TimeOps.le a c = true
  le_total : ∀ a b : T, TimeOps.le a b = true ∨ TimeOps.le b a = true
  le_antisymm : ∀ a b : T, TimeOps.le a b = true → TimeOps.le b a = true → a = b
  lt_iff : ∀ a b : T, TimeOps.lt a b = true ↔ TimeOps.le b a = false
  add_zero : ∀ a : T, TimeOps.add a TimeOps.zero = a
  /-- adding a non-negative delay does not go back in time -/
  le_add : ∀ a d : T, TimeOps.le TimeOps.zero d = true → TimeOps.le a (TimeOps.add a d) = true
  add_mono : ∀ a b c : T, TimeOps.le b c = true → TimeOps.le (TimeOps.add a b) (TimeOps.add a c) = true
  /-- `min + r·(max − min)` stays inside `[min, max]` for a draw `r` -/
  scale_bounds : ∀ lo hi r : T, TimeOps.le lo hi = true → isDraw r →
    TimeOps.le lo (TimeOps.add lo (TimeOps.mul r (TimeOps.sub hi lo))) = true ∧
    TimeOps.le (TimeOps.add lo (TimeOps.mul r (TimeOps.sub hi lo))) hi = true
  draw_nonneg : ∀ r : T, isDraw r → TimeOps.le TimeOps.zero r = true
  /-- `⌈2r⌉ + 1 ∈ {1, 2, 3}` -/
  copies_bounds : ∀ r : T, isDraw r → 1 ≤ TimeOps.copies r ∧ TimeOps.copies r ≤ 3

end Anysystem
