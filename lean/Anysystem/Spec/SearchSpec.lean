import Anysystem.Model.Search
/-!
# What the generic search is supposed to compute (C03, C10, C11, C16)
-/
namespace Anysystem

variable {σ κ : Type} [DecidableEq κ]

/-- reachability through states that the search expands (`verdict = cont`, successors computed) -/
inductive ReachC (S : TSys σ κ) (s₀ : σ) : σ → Prop where
  | refl : ReachC S s₀ s₀
  | step {y x : σ} {cs : List σ} : ReachC S s₀ y → S.verdict y = .cont → S.succ y = .ok cs → x ∈ cs →
      ReachC S s₀ x

/-- number of expansion steps from `s₀` (for "BFS counterexamples are shortest") -/
inductive ReachN (S : TSys σ κ) (s₀ : σ) : Nat → σ → Prop where
  | refl : ReachN S s₀ 0 s₀
  | step {n : Nat} {y x : σ} {cs : List σ} : ReachN S s₀ n y → S.verdict y = .cont → S.succ y = .ok cs →
      x ∈ cs → ReachN S s₀ (n + 1) x

/-- Key congruence (what C11 establishes for the model checker's state identity): states with equal
    keys have equal verdicts, equal collect answers, fail or succeed alike in computing successors,
    and have key-wise equal successor lists. -/
def Congruent (S : TSys σ κ) : Prop :=
  ∀ a b, S.key a = S.key b →
    S.verdict a = S.verdict b ∧ S.collect a = S.collect b ∧
    (∀ ca, S.succ a = .ok ca → ∃ cb, S.succ b = .ok cb ∧ ca.map S.key = cb.map S.key) ∧
    (∀ e, S.succ a = .error e → ∃ e', S.succ b = .error e')

/-- key congruence relative to an invariant of the explored states (for the model checker: the
    network settings and ordering mode fixed by the callback, and `pending_timers` mirroring the
    pending timer events) -/
def CongruentOn (S : TSys σ κ) (Inv : σ → Prop) : Prop :=
  ∀ a b, Inv a → Inv b → S.key a = S.key b →
    S.verdict a = S.verdict b ∧ S.collect a = S.collect b ∧
    (∀ ca, S.succ a = .ok ca → ∃ cb, S.succ b = .ok cb ∧ ca.map S.key = cb.map S.key) ∧
    (∀ e, S.succ a = .error e → ∃ e', S.succ b = .error e')

/-- the invariant is preserved by every successor -/
def InvClosed (S : TSys σ κ) (Inv : σ → Prop) : Prop :=
  ∀ a cs, Inv a → S.succ a = .ok cs → ∀ c ∈ cs, Inv c

def isFail : Verdict → Bool
  | .fail _ => true
  | _ => false

/-- a fresh accumulator for a run with the given cache mode -/
def Acc.fresh (mode : CacheMode) : Acc σ κ := { cache := { mode := mode } }

/-- the cache modes for which the cache is exact: Full always, Partial when the hash is injective -/
def ExactCache (S : TSys σ κ) (mode : CacheMode) : Prop :=
  mode = .full ∨ (mode = .hashed ∧ ∀ a b, S.hash a = S.hash b → a = b)

end Anysystem
