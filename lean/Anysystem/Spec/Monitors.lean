import Anysystem.Spec.RefSpec
/-!
# Monitors: executable forms of the specifications, run on observation streams

`timerContract`: the timer API contract of C07 as an acceptor of model-checking trace entries.  The
state is the set of pending (process, timer name) pairs.  `tset` makes the name pending (a `set_timer`
on a pending name *replaces* the pending instance, so the set does not change and the old instance
must never fire: after the single permitted `tfired` the name is no longer pending); `tcancel` and
`tfired` are only legal for a pending name and make it not pending; a crash removes the timers of the
processes on that node.  Every other entry is irrelevant.
-/
namespace Anysystem

abbrev PendSet := List (Nat × Nat)

def tcStep (loc : List (Nat × Nat)) (pend : PendSet) : LogE → Option PendSet
  | .tset p t => some (if pend.contains (p, t) then pend else pend ++ [(p, t)])
  | .tcancel p t => if pend.contains (p, t) then some (pend.filter (· != (p, t))) else none
  | .tfired p t => if pend.contains (p, t) then some (pend.filter (· != (p, t))) else none
  | .crashed n => some (pend.filter (fun x => amGet? x.1 loc != some n))
  | _ => some pend

def tcRun (loc : List (Nat × Nat)) : PendSet → List LogE → Option PendSet
  | pend, [] => some pend
  | pend, e :: es => match tcStep loc pend e with
    | some pend' => tcRun loc pend' es
    | none => none

/-- the trace suffix is accepted by the timer contract, starting with `pend` pending -/
def timerContractOk (loc : List (Nat × Nat)) (pend : PendSet) (tr : List LogE) : Bool := (tcRun loc pend tr).isSome

/-- pending (process, name) pairs of a reference state -/
def pendOf {σ : Type} (r : RState σ) : PendSet := r.timers.map fun t => (t.proc, t.name)

/-- two pending sets with the same members -/
def PendSet.same (a b : PendSet) : Prop := ∀ x, x ∈ a ↔ x ∈ b

end Anysystem
