import Anysystem.Model.Store
/-!
# Declarative reading of the pending-event store (what C20 / C13 state)

Abstract state: the pending events in *insertion order* (a re-inserted id goes to the back), the
timer mapping (kept as in the code, it is only a name → last id table) and the next fresh id.
The offered set is defined outright: an event is offered iff no *earlier* pending event blocks it,
where an identical message (same payload, sender, receiver) blocks a message and a timer of the same
process with a less-or-equal delay blocks a timer.
-/
namespace Anysystem

/-- `e'` (earlier) blocks `e` -/
def blocks (e' e : Ev) : Bool :=
  match e', e with
  | .msg m s d _, .msg m' s' d' _ => decide (m = m') && s == s' && d == d'
  | .timer p _ dl, .timer p' _ dl' => p == p' && decide (dl ≤ dl')
  | _, _ => false

/-- ids offered, scanning the pending list in insertion order with the prefix seen so far -/
def offeredFrom : List (Nat × Ev) → List (Nat × Ev) → List Nat
  | _, [] => []
  | pre, x :: rest =>
    (if pre.any (fun y => blocks y.2 x.2) then [] else [x.1]) ++ offeredFrom (pre ++ [x]) rest

/-- the declarative offered set of C20/C13 -/
def specOffered (A : List (Nat × Ev)) : List Nat := offeredFrom [] A

/-- offered under an ordering mode: in `MessagesFirst` only messages if any message is offered -/
def specOfferedMode (A : List (Nat × Ev)) (mode : Mode) : List Nat :=
  match mode with
  | .normal => specOffered A
  | .messagesFirst =>
    let msgs := (specOffered A).filter (fun id => match A.lookup id with
      | some e => e.isMsg
      | none => false)
    if msgs.isEmpty then specOffered A else msgs

/-- Abstract store. -/
structure AStore where
  pending : List (Nat × Ev) := []
  tm : List ((Nat × Nat) × Nat) := []
  next : Nat := 0
deriving DecidableEq, Repr, Inhabited

/-- Operations of the store API (the alphabet C20 quantifies over). -/
inductive Op where
  | push (e : Ev)
  | reinsert (e : Ev) (id : Nat)
  | pop (id : Nat)
  | cancelTimer (proc name : Nat)
  | cancelProc (proc : Nat)
deriving DecidableEq, Repr, Inhabited

/-- Observable result of an operation. -/
inductive Out where
  | id (n : Nat)
  | ev (e : Ev)
  | evs (l : List Ev)
  | unit
deriving DecidableEq, Repr, Inhabited

namespace AStore

def live (a : AStore) (id : Nat) : Bool := a.pending.any (·.1 == id)

def erase (a : AStore) (id : Nat) : AStore := { a with pending := a.pending.filter (·.1 != id) }

/-- One abstract step; `none` = the operation is not legal in this state.
    Legal: push of a message or timer event; re-insertion of a *message* under an id that was
    allocated before and is not live (what duplication and corruption do); pop of a live id;
    cancel_timer and cancel_proc_events always. -/
def step (a : AStore) : Op → Option (AStore × Out)
  | .push e =>
    if e.isMsg then some ({ a with pending := a.pending ++ [(a.next, e)], next := a.next + 1 }, .id a.next)
    else match e with
      | .timer p n _ =>
        some ({ pending := a.pending ++ [(a.next, e)], tm := amInsert pairLt (p, n) a.next a.tm,
                next := a.next + 1 }, .id a.next)
      | _ => none
  | .reinsert e id =>
    if e.isMsg && !a.live id && decide (id < a.next) then
      some ({ a with pending := a.pending ++ [(id, e)] }, .id id)
    else none
  | .pop id =>
    match a.pending.lookup id with
    | some e => some (a.erase id, .ev e)
    | none => none
  | .cancelTimer p n =>
    match amGet? (p, n) a.tm with
    | none => some (a, .unit)
    | some id => some ({ (a.erase id) with tm := amErase (p, n) a.tm }, .unit)
  | .cancelProc p =>
    let victims := a.pending.filter (fun x => Store.touches p x.2)
    let sortedVictims := victims.foldl (fun acc x => amInsert natLt x.1 x.2 acc) []
    let dropped := sortedVictims.filterMap (fun x => match x.2 with
      | .msg m s d _ => some (Ev.dropped m s d (some x.1))
      | _ => none)
    some ({ a with pending := a.pending.filter (fun x => !Store.touches p x.2) }, .evs dropped)

/-- run a sequence of operations, collecting outputs; `none` as soon as one is illegal -/
def run (a : AStore) : List Op → Option (AStore × List Out)
  | [] => some (a, [])
  | op :: ops =>
    match a.step op with
    | none => none
    | some (a', o) =>
      match a'.run ops with
      | none => none
      | some (a'', os) => some (a'', o :: os)

end AStore

namespace Store

/-- the concrete store driven by the same operation alphabet -/
def stepOp (v : Variant) (s : Store) : Op → R (Store × Out)
  | .push e => match s.push e with
    | .ok (s', id) => .ok (s', .id id)
    | .error err => .error err
  | .reinsert e id => match s.pushFixed e id with
    | .ok s' => .ok (s', .id id)
    | .error err => .error err
  | .pop id => match s.pop v id with
    | .ok (s', e) => .ok (s', .ev e)
    | .error err => .error err
  | .cancelTimer p n => match s.cancelTimer v p n with
    | .ok s' => .ok (s', .unit)
    | .error err => .error err
  | .cancelProc p => match s.cancelProcEvents v p with
    | .ok (s', l) => .ok (s', .evs l)
    | .error err => .error err

def runOps (v : Variant) (s : Store) : List Op → R (Store × List Out)
  | [] => .ok (s, [])
  | op :: ops =>
    match s.stepOp v op with
    | .error err => .error err
    | .ok (s', o) =>
      match s'.runOps v ops with
      | .error err => .error err
      | .ok (s'', os) => .ok (s'', o :: os)

end Store

/-- What the concrete store and the abstract one have in common (the observable part). -/
structure Abs (s : Store) (a : AStore) : Prop where
  get_eq : ∀ id, s.get id = a.pending.lookup id
  avail_iff : ∀ id, id ∈ s.available ↔ id ∈ specOffered a.pending
  tm_eq : s.timerMapping = a.tm
  next_eq : s.idCounter = a.next

end Anysystem

namespace Anysystem

/-- executable form of `Abs` (ids range over `0 .. next`): used by the driver as the store monitor
    and by the kernel-checked pre-fix counterexamples -/
def absCheck (s : Store) (a : AStore) : Bool :=
  (List.range (a.next + 1)).all (fun id =>
    decide (s.get id = a.pending.lookup id) &&
    (s.available.contains id == (specOffered a.pending).contains id)) &&
  s.available.all (· < a.next + 1) &&
  decide (s.timerMapping = a.tm) && s.idCounter == a.next

/-- run both machines on an operation sequence and compare: `true` iff the concrete store does not
    panic, returns the abstract outputs and ends in an `absCheck`-related state -/
def refinesOn (v : Store.Variant) (ops : List Op) : Bool :=
  match AStore.run {} ops, Store.runOps v {} ops with
  | some (a, outs), .ok (s, outs') => decide (outs = outs') && absCheck s a
  | some _, .error _ => false
  | none, _ => true

/-- pop a list of ids, each of which must be offered at the moment it is popped -/
def popOffered : List (Nat × Ev) → List Nat → Option (List (Nat × Ev))
  | A, [] => some A
  | A, id :: ids => if id ∈ specOffered A then popOffered (A.filter (·.1 != id)) ids else none

end Anysystem
