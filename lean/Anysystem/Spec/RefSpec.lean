import Anysystem.Model.Strategy
/-!
# RefSpec — the reference semantics of "a genuine execution"

A deliberately small, id-free operational semantics of a message-passing system with timers, a
faulty network and crashed nodes.  State: per process its state and local outbox; the set of
crashed nodes; the messages in flight, in the order they were put in flight (a copy re-inserted by a
duplication or corruption goes to the back), each with its *remaining* fault options; the pending
timers in the order they were set; the network settings; the trace.  The **timer contract is built
in**: at most one pending timer per (process, name); `set_timer` replaces, `set_timer_once` is
ignored while one is pending, `cancel_timer` removes.

One step consumes exactly one pending message or timer (`deliver`, `fire`) and lets the handler
react, or applies one network fault the flight's options permit (`drop`, `dup`, `corrupt`).
`enabledRed` is the reduced enabledness the model checker promises (C13/C20): a flight only if it
is the oldest among identical flights, a timer only if no earlier pending timer of its process has a
less-or-equal delay, and in `MessagesFirst` mode timers only when no message is in flight.
-/
namespace Anysystem

structure Flight where
  m : Msg
  src : Nat
  dst : Nat
  o : Opts
deriving DecidableEq, Repr, Inhabited

structure PTimer where
  proc : Nat
  name : Nat
  delay : Nat
deriving DecidableEq, Repr, Inhabited

structure RProc (σ : Type) where
  st : σ
  outbox : List Msg := []
deriving DecidableEq, Repr

structure RState (σ : Type) where
  procs : List (Nat × RProc σ) := []
  crashedNodes : List Nat := []
  flights : List Flight := []
  timers : List PTimer := []
  net : McNet := {}
  trace : List LogE := []
deriving DecidableEq, Repr

inductive Label where
  | deliver (i : Nat)
  | fire (j : Nat)
  | drop (i : Nat)
  | dup (i : Nat)
  | corrupt (i : Nat)
deriving DecidableEq, Repr, Inhabited

variable {σ : Type}

namespace RState

def procCrashed (r : RState σ) (p : Nat) : Bool :=
  match amGet? p r.net.procLoc with
  | some nd => r.crashedNodes.contains nd
  | none => false

def timerPending (r : RState σ) (p name : Nat) : Bool :=
  r.timers.any (fun t => t.proc == p && t.name == name)

def removeTimer (r : RState σ) (p name : Nat) : RState σ :=
  { r with timers := r.timers.filter (fun t => !(t.proc == p && t.name == name)) }

/-- the effect of one `Context` call of process `p`, with the trace entry the model checker logs at
    once; the second component is the entry it logs only after all calls of the handler were
    processed (the loss of a message sent over a cut link or to a crashed node) -/
def act (r : RState σ) (p : Nat) : Action → RState σ × List LogE
  | .send m dst =>
    let r1 := { r with trace := r.trace ++ [LogE.sent m p dst] }
    match r.net.sendMessage m p dst with
    | .ok (.msg m' s d o) =>
      if r.procCrashed s || r.procCrashed d then (r1, [LogE.dropped m' s d])
      else ({ r1 with flights := r1.flights ++ [⟨m', s, d, o⟩] }, [])
    | .ok (.dropped m' s d _) => (r1, [LogE.dropped m' s d])
    | _ => (r1, [])
  | .loc m =>
    ({ r with procs := r.procs.map (fun (x : Nat × RProc σ) => if x.1 = p then (x.1, { x.2 with outbox := x.2.outbox ++ [m] }) else x),
              trace := r.trace ++ [LogE.lsent m p] }, [])
  | .set name delay once =>
    if once && r.timerPending p name then (r, [])
    else
      let r1 := r.removeTimer p name
      ({ r1 with timers := r1.timers ++ [⟨p, name, delay⟩], trace := r.trace ++ [LogE.tset p name] }, [])
  | .cancel name =>
    if r.timerPending p name then
      let r1 := r.removeTimer p name
      ({ r1 with trace := r.trace ++ [LogE.tcancel p name] }, [])
    else (r, [])

def actsAux (p : Nat) : List Action → RState σ → List LogE → RState σ × List LogE
  | [], r, late => (r, late)
  | a :: rest, r, late => let (r', l) := r.act p a; actsAux p rest r' (late ++ l)

def acts (r : RState σ) (p : Nat) (as : List Action) : RState σ :=
  let (r', late) := actsAux p as r []
  { r' with trace := r'.trace ++ late }

/-- run the handler of `p` on an input and apply its actions -/
def react (h : Handler σ) (r : RState σ) (p : Nat) (i : Input) : Option (RState σ) :=
  match amGet? p r.procs with
  | none => none
  | some e =>
    if r.procCrashed p then none else
    let (st', as) := h p e.st i
    let r1 := { r with procs := r.procs.map (fun (x : Nat × RProc σ) => if x.1 = p then (x.1, { x.2 with st := st' }) else x) }
    some (r1.acts p as)

def eraseIdx' {α : Type} (l : List α) (i : Nat) : List α := l.eraseIdx i

/-- one step of the reference semantics; `none` = the label is not possible in this state -/
def step (h : Handler σ) (r : RState σ) : Label → Option (RState σ)
  | .deliver i =>
    match r.flights[i]? with
    | none => none
    | some f =>
      react h { r with flights := r.flights.eraseIdx i, trace := r.trace ++ [LogE.recv f.m f.src f.dst] }
        f.dst (.msg f.m f.src)
  | .fire j =>
    match r.timers[j]? with
    | none => none
    | some t =>
      react h { r with timers := r.timers.eraseIdx j, trace := r.trace ++ [LogE.tfired t.proc t.name] }
        t.proc (.timer t.name)
  | .drop i =>
    match r.flights[i]? with
    | some ⟨m, s, d, .faults true _ _⟩ =>
      some { r with flights := r.flights.eraseIdx i, trace := r.trace ++ [LogE.dropped m s d] }
    | _ => none
  | .dup i =>
    match r.flights[i]? with
    | some ⟨m, s, d, .faults a (n + 1) c⟩ =>
      some { r with flights := r.flights.eraseIdx i ++ [⟨m, s, d, .faults a n c⟩, ⟨m, s, d, .faults a 0 c⟩],
                    trace := r.trace ++ [LogE.duplicated m s d] }
    | _ => none
  | .corrupt i =>
    match r.flights[i]? with
    | some ⟨m, s, d, .faults a n true⟩ =>
      some { r with flights := r.flights.eraseIdx i ++ [⟨corruptMc m, s, d, .faults a n false⟩],
                    trace := r.trace ++ [LogE.corrupted m (corruptMc m) s d] }
    | _ => none

/-- the flight at `i` is the oldest among identical ones -/
def oldestIdentical (r : RState σ) (i : Nat) : Bool :=
  match r.flights[i]? with
  | none => false
  | some f => (r.flights.take i).all (fun g => !(decide (g.m = f.m) && g.src == f.src && g.dst == f.dst))

/-- no earlier pending timer of the same process has a less-or-equal delay -/
def timerUnblocked (r : RState σ) (j : Nat) : Bool :=
  match r.timers[j]? with
  | none => false
  | some t => (r.timers.take j).all (fun u => !(u.proc == t.proc && decide (u.delay ≤ t.delay)))

/-- reduced enabledness (what the checker explores) -/
def enabledRed (r : RState σ) (mode : Mode) : Label → Bool
  | .deliver i => r.oldestIdentical i
  | .drop i => r.oldestIdentical i
  | .dup i => r.oldestIdentical i
  | .corrupt i => r.oldestIdentical i
  | .fire j => r.timerUnblocked j && (mode == .normal || r.flights.isEmpty)

/-- the handler actions of the step do not `set_timer` a name that is pending at that moment
    (the circumstances of finding D1); `true` for fault labels -/
def overrideFreeActs (r : RState σ) (p : Nat) : List Action → Bool
  | [] => true
  | a :: rest =>
    (match a with
     | .set name _ false => !r.timerPending p name
     | _ => true) && overrideFreeActs (r.act p a).1 p rest

def overrideFree (h : Handler σ) (r : RState σ) : Label → Bool
  | .deliver i =>
    match r.flights[i]? with
    | none => true
    | some f => match amGet? f.dst r.procs with
      | none => true
      | some e => overrideFreeActs { r with flights := r.flights.eraseIdx i } f.dst (h f.dst e.st (.msg f.m f.src)).2
  | .fire j =>
    match r.timers[j]? with
    | none => true
    | some t => match amGet? t.proc r.procs with
      | none => true
      | some e => overrideFreeActs { r with timers := r.timers.eraseIdx j } t.proc (h t.proc e.st (.timer t.name)).2
  | _ => true

/-- the callback operations -/
def sendLocal (h : Handler σ) (r : RState σ) (p : Nat) (m : Msg) : Option (RState σ) :=
  react h { r with trace := r.trace ++ [LogE.lrecv m p] } p (.loc m)

/-- the flights lost when `node` crashes -/
def lostOnCrash (r : RState σ) (node : Nat) : List Flight :=
  r.flights.filter (fun f => amGet? f.src r.net.procLoc == some node || amGet? f.dst r.net.procLoc == some node)

/-- crash of a node; `order` is the order in which the lost flights are recorded in the trace (any
    permutation of `lostOnCrash`: the reference semantics does not fix it) -/
def crashNode (r : RState σ) (node : Nat) (order : List Flight) : RState σ :=
  let onNode (p : Nat) : Bool := amGet? p r.net.procLoc == some node
  { r with crashedNodes := setInsert node r.crashedNodes,
           net := r.net.disconnectNode node,
           flights := r.flights.filter (fun f => !(onNode f.src || onNode f.dst)),
           timers := r.timers.filter (fun t => !onNode t.proc),
           trace := r.trace ++ [LogE.crashed node] ++ order.map (fun f => LogE.dropped f.m f.src f.dst) }

/-- at most one pending timer per (process, name): the invariant of the timer contract -/
def timersUnique (r : RState σ) : Prop :=
  r.timers.Pairwise (fun a b => ¬ (a.proc = b.proc ∧ a.name = b.name))

end RState

/-! ## The abstraction from the model checker's state -/

/-- flights / timers of an insertion-ordered pending list -/
def flightsOf (A : List (Nat × Ev)) : List Flight :=
  A.filterMap fun x => match x.2 with
    | .msg m s d o => some ⟨m, s, d, o⟩
    | _ => none

def timersOf (A : List (Nat × Ev)) : List PTimer :=
  A.filterMap fun x => match x.2 with
    | .timer p n d => some ⟨p, n, d⟩
    | _ => none

end Anysystem
