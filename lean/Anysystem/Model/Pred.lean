import Anysystem.Model.McSys
/-!
# The predicate library (`src/mc/predicates.rs`), mirrored

Predicates are closures that may carry state (`FnMut`); the combinators are modelled on lists of
rules of type `S → α → R × S` so that short-circuiting is observable (a rule that is not invoked
keeps its state).  Results: invariants `Option String` (`some msg` = broken) — only `isSome` is
compared with the code; goals/prunes `Bool` (`Some(_)`); collects `Bool`.
-/
namespace Anysystem

variable {σ : Type}

/-- `McState::current_run_trace`: from the last `McStarted` (inclusive) to the end; the whole trace
    if there is none -/
def currentRunTrace (tr : List LogE) : List LogE :=
  match (tr.reverse.findIdx? (· == LogE.started)) with
  | some k => tr.drop (tr.length - 1 - k)
  | none => tr

def countTrace (p : LogE → Bool) (tr : List LogE) : Nat := (tr.filter p).length

namespace Pred

def findProc (s : McSys σ) (node proc : Nat) : Option (ProcEntry σ) :=
  (amGet? node s.nodes).bind fun nd => amGet? proc nd.procs

/-- `state.events.is_empty()` -/
def noEvents (s : McSys σ) : Bool := s.events.available.isEmpty

/-! ### invariants (`true` = Err) -/
def invStateDepth (d : Nat) (s : McSys σ) : Bool := s.depth > d
/-- as implemented: compares `d` with the *number of trace entries* of the current run (finding D11) -/
def invStateDepthCurrentRun (d : Nat) (s : McSys σ) : Bool := (currentRunTrace s.trace).length > d

/-- `received_messages(node, proc, expected)`; `none` = the indexing panics -/
def invReceivedMessages (node proc : Nat) (expected : List (List Nat)) (s : McSys σ) : Option Bool :=
  match findProc s node proc with
  | none => none
  | some e =>
    let out := e.outbox
    let nExp := expected.eraseDups.length
    if out.length > nExp then some true
    else if out.length < nExp && noEvents s then some true
    else
      let rec go : List Msg → List (List Nat) → Bool
        | [], _ => false
        | m :: ms, got => if got.contains m.data then true else if !expected.contains m.data then true else go ms (m.data :: got)
      some (go out [])

/-! ### goals / prunes / collects (`true` = Some / collected) -/
def gotNLocalMessages (node proc n : Nat) (s : McSys σ) : Option Bool :=
  (findProc s node proc).map fun e => e.outbox.length == n
def depthReached (d : Nat) (s : McSys σ) : Bool := s.depth ≥ d
def eventHappenedNTimesCurrentRun (p : LogE → Bool) (n : Nat) (s : McSys σ) : Bool :=
  countTrace p (currentRunTrace s.trace) ≥ n
def pruneStateDepth (d : Nat) (s : McSys σ) : Bool := s.depth > d
def sentMessagesLimit (k : Nat) (s : McSys σ) : Bool :=
  s.nodes.any fun nd => nd.2.procs.any fun pe => pe.2.sent > k
def eventsLimit (p : LogE → Bool) (limit : Nat) (s : McSys σ) : Bool := countTrace p s.trace > limit
def eventsLimitPerProc (p : LogE → Nat → Bool) (procs : List Nat) (limit : Nat) (s : McSys σ) : Bool :=
  procs.any fun q => countTrace (fun e => p e q) s.trace > limit

/-- `proc_permutations(equivalent_procs)`; `none` = index out of bounds (cannot happen, see theorem) -/
def procPermutations (equiv : List Nat) (s : McSys σ) : Option Bool :=
  let rec go : List LogE → List Nat → Nat → Option Bool
    | [], _, _ => some false
    | e :: es, used, waiting =>
      let proc? : Option Nat := match e with
        | .recv _ src _ => some src
        | .tfired p _ => some p
        | _ => none
      match proc? with
      | none => go es used waiting
      | some p =>
        if used.contains p || !equiv.contains p then go es used waiting
        else match equiv[waiting]? with
          | none => none
          | some q => if q != p then some true else go es (p :: used) (waiting + 1)
  go (currentRunTrace s.trace) [] 0

/-! ### combinators with explicit rule state -/

/-- `all_invariants`: stops at the first broken rule; later rules are not invoked -/
def allInvariants {S α : Type} (rules : List (S → α → Bool × S)) (states : List S) (x : α) : Bool × List S :=
  match rules, states with
  | r :: rs, st :: sts =>
    let (broken, st') := r st x
    if broken then (true, st' :: sts)
    else let (b, sts') := allInvariants rs sts x; (b, st' :: sts')
  | _, sts => (false, sts)

/-- `any_goal` / `any_prune` / `any_collect`: stops at the first rule that fires -/
def anyRule {S α : Type} (rules : List (S → α → Bool × S)) (states : List S) (x : α) : Bool × List S :=
  match rules, states with
  | r :: rs, st :: sts =>
    let (hit, st') := r st x
    if hit then (true, st' :: sts)
    else let (b, sts') := anyRule rs sts x; (b, st' :: sts')
  | _, sts => (false, sts)

/-- `all_goals` / `all_collects`: stops at the first rule that does not fire -/
def allRules {S α : Type} (rules : List (S → α → Bool × S)) (states : List S) (x : α) : Bool × List S :=
  match rules, states with
  | r :: rs, st :: sts =>
    let (hit, st') := r st x
    if !hit then (false, st' :: sts)
    else let (b, sts') := allRules rs sts x; (b, st' :: sts')
  | _, sts => (true, sts)

end Pred
end Anysystem
