import Anysystem.Model.Basic
/-!
# The pending-event store (`src/mc/dependency.rs`, `src/mc/pending_events.rs`), mirrored

Every Rust method becomes a function returning `R` (`Except String`): `assert!`, `unwrap()` on `None`
and indexing a missing key become `.error`.  The incremental bookkeeping (blocker sets, per-message
FIFOs, the offered set, the timer mapping) is kept exactly as in the code; the declarative reading
is in `Anysystem/Spec/StoreSpec.lean` and related by the theorems in `Anysystem/Proofs/Store*.lean`.
-/
namespace Anysystem

structure TimerInfo where
  proc : Nat
  delay : Nat
  blockers : List Nat
deriving DecidableEq, Repr, Inhabited

/-- Mirrors `DependencyResolver`. -/
structure Resolver where
  timers : List (Nat × TimerInfo) := []
  messages : List ((Msg × Nat × Nat) × List Nat) := []
  procTimers : List (Nat × List Nat) := []
deriving DecidableEq, Repr, Inhabited

namespace Resolver

/-- `add_timer`.  The blocker set is built by scanning the process's timers in id order, so it is
    the sub-list of those with delay `<=`; `self.timers[id]` panics on a dangling id. -/
def addTimer (r : Resolver) (proc delay id : Nat) : R (Resolver × Bool) :=
  let pts := (amGet? proc r.procTimers).getD []
  if pts.any (fun i => (amGet? i r.timers).isNone) then .error "add_timer: proc_timers refers to a missing timer" else
  let blockers := pts.filter (fun i => match amGet? i r.timers with
    | some info => info.delay ≤ delay
    | none => false)
  if amHas id r.timers then .error "event with such id already exists" else
  let timers := amInsert natLt id { proc, delay, blockers } r.timers
  let procTimers := amInsert natLt proc (setInsert id pts) r.procTimers
  .ok ({ r with timers, procTimers }, blockers.isEmpty)

/-- the loop of `remove_timer` over the remaining timers of the process -/
def unblockLoop (id : Nat) : List Nat → List (Nat × TimerInfo) → List Nat → R (List (Nat × TimerInfo) × List Nat)
  | [], timers, unblocked => .ok (timers, unblocked)
  | o :: os, timers, unblocked =>
    match amGet? o timers with
    | none => .error "remove_timer: proc_timers refers to a missing timer"
    | some info =>
      let info' := { info with blockers := setErase id info.blockers }
      unblockLoop id os (amInsert natLt o info' timers)
        (if info'.blockers.isEmpty then setInsert o unblocked else unblocked)

/-- `remove_timer` -/
def removeTimer (r : Resolver) (id : Nat) : R (Resolver × List Nat) :=
  match amGet? id r.timers with
  | none => .error "remove_timer: no such timer"
  | some t =>
    let timers := amErase id r.timers
    match amGet? t.proc r.procTimers with
    | none => .error "remove_timer: no proc_timers entry"
    | some pts =>
      if !pts.contains id then .error "remove_timer: id not in proc_timers" else
      let pts' := setErase id pts
      match unblockLoop id pts' timers [] with
      | .error e => .error e
      | .ok (timers', unblocked) =>
        let procTimers := if pts'.isEmpty then amErase t.proc r.procTimers
                          else amInsert natLt t.proc pts' r.procTimers
        .ok ({ r with timers := timers', procTimers }, unblocked)

/-- `add_message` -/
def addMessage (r : Resolver) (m : Msg) (src dst id : Nat) : Resolver × Bool :=
  let q := (amGet? (m, src, dst) r.messages).getD [] ++ [id]
  ({ r with messages := amInsert mkeyLt (m, src, dst) q r.messages }, q.length == 1)

/-- `remove_message_by_id` (the repaired removal: the event's own id, not the front of the FIFO) -/
def removeMessageById (r : Resolver) (m : Msg) (src dst id : Nat) : R (Resolver × Option Nat) :=
  match amGet? (m, src, dst) r.messages with
  | none => .error "remove_message: no FIFO for this message"
  | some q =>
    if !q.contains id then .error "remove_message: id not in the FIFO" else
    let pos := q.idxOf id
    let q' := q.eraseIdx pos
    if q'.isEmpty then .ok ({ r with messages := amErase (m, src, dst) r.messages }, none)
    else
      let r' := { r with messages := amInsert mkeyLt (m, src, dst) q' r.messages }
      if pos == 0 then .ok (r', q'.head?) else .ok (r', none)

/-- `remove_message` as it was before the repair (pops the front whatever id is being removed);
    kept for the kernel-checked counterexample `D8_prefix_violates`. -/
def removeMessageFront (r : Resolver) (m : Msg) (src dst : Nat) : R (Resolver × Option Nat) :=
  match amGet? (m, src, dst) r.messages with
  | none => .error "remove_message: no FIFO for this message"
  | some q =>
    let q' := q.drop 1
    if q'.isEmpty then .ok ({ r with messages := amErase (m, src, dst) r.messages }, none)
    else .ok ({ r with messages := amInsert mkeyLt (m, src, dst) q' r.messages }, q'.head?)

end Resolver

/-- Mirrors `PendingEvents`. -/
structure Store where
  events : List (Nat × Ev) := []
  timerMapping : List ((Nat × Nat) × Nat) := []
  available : List Nat := []
  resolver : Resolver := {}
  idCounter : Nat := 0
deriving DecidableEq, Repr, Inhabited

namespace Store

/-- switch between the repaired store and the one before the `fix:` commit for D8 -/
structure Variant where
  frontPop : Bool := false      -- D8 before the repair
  staleCancelPanics : Bool := false  -- D13 before the repair
deriving DecidableEq, Repr, Inhabited

/-- `push_with_fixed_id` -/
def pushFixed (s : Store) (e : Ev) (id : Nat) : R Store :=
  if amHas id s.events then .error "event with such id already exists" else
  match e with
  | .msg m src dst _ =>
    let (res, avail) := s.resolver.addMessage m src dst id
    .ok { s with resolver := res,
                 available := if avail then setInsert id s.available else s.available,
                 events := amInsert natLt id e s.events }
  | .timer proc name delay =>
    let tm := amInsert pairLt (proc, name) id s.timerMapping
    match s.resolver.addTimer proc delay id with
    | .error err => .error err
    | .ok (res, avail) =>
      .ok { s with resolver := res, timerMapping := tm,
                   available := if avail then setInsert id s.available else s.available,
                   events := amInsert natLt id e s.events }
  | _ => .error "should only have TimerFired or MessageReceived events"

/-- `push` -/
def push (s : Store) (e : Ev) : R (Store × Nat) :=
  let id := s.idCounter
  match ({ s with idCounter := id + 1 }).pushFixed e id with
  | .error err => .error err
  | .ok s' => .ok (s', id)

/-- `get` -/
def get (s : Store) (id : Nat) : Option Ev := amGet? id s.events

/-- the internal assertion shared by `available_events` and `is_empty` -/
def assertOk (s : Store) : Bool := !s.available.isEmpty || s.events.isEmpty

/-- `available_events(mode)` -/
def availableEvents (s : Store) (mode : Mode) : R (List Nat) :=
  if !s.assertOk then .error "assertion failed: !available_events.is_empty() || events.is_empty()" else
  match mode with
  | .normal => .ok s.available
  | .messagesFirst =>
    let onlyMsgs := s.available.filter (fun id => match s.get id with
      | some e => e.isMsg
      | none => false)
    -- `self.events[x]` panics on an offered id that is not live
    if s.available.any (fun id => (s.get id).isNone) then .error "available id is not live"
    else .ok (if onlyMsgs.isEmpty then s.available else onlyMsgs)

/-- `is_empty` -/
def isEmpty (s : Store) : R Bool :=
  if !s.assertOk then .error "assertion failed: !available_events.is_empty() || events.is_empty()"
  else .ok s.available.isEmpty

/-- `pop` -/
def pop (v : Variant) (s : Store) (id : Nat) : R (Store × Ev) :=
  match amGet? id s.events with
  | none => .error "pop: no such event"
  | some e =>
    let s1 := { s with events := amErase id s.events, available := setErase id s.available }
    match e with
    | .timer .. =>
      match s1.resolver.removeTimer id with
      | .error err => .error err
      | .ok (res, unblocked) =>
        .ok ({ s1 with resolver := res, available := unblocked.foldl (fun a x => setInsert x a) s1.available }, e)
    | .msg m src dst _ =>
      match (if v.frontPop then s1.resolver.removeMessageFront m src dst
             else s1.resolver.removeMessageById m src dst id) with
      | .error err => .error err
      | .ok (res, unb) =>
        .ok ({ s1 with resolver := res,
                       available := match unb with
                         | some u => setInsert u s1.available
                         | none => s1.available }, e)
    | _ => .ok (s1, e)

/-- `cancel_timer` -/
def cancelTimer (v : Variant) (s : Store) (proc name : Nat) : R Store :=
  match amGet? (proc, name) s.timerMapping with
  | none => .ok s
  | some id =>
    let s1 := { s with timerMapping := amErase (proc, name) s.timerMapping }
    if !v.staleCancelPanics && !amHas id s1.events then .ok s1
    else match s1.pop v id with
      | .error err => .error err
      | .ok (s2, _) => .ok s2

/-- which events `cancel_proc_events` clears -/
def touches (proc : Nat) : Ev → Bool
  | .msg _ src dst _ => src == proc || dst == proc
  | .timer p _ _ => p == proc
  | _ => true

/-- `cancel_proc_events`: returns the store and the `MessageDropped` events produced, in id order -/
def cancelProcEvents (v : Variant) (s : Store) (proc : Nat) : R (Store × List Ev) :=
  let ids := (s.events.filter (fun e => touches proc e.2)).map (·.1)
  let rec go : List Nat → Store → List Ev → R (Store × List Ev)
    | [], s, acc => .ok (s, acc)
    | id :: rest, s, acc =>
      match s.pop v id with
      | .error err => .error err
      | .ok (s', e) =>
        match e with
        | .msg m src dst _ => go rest s' (acc ++ [.dropped m src dst (some id)])
        | _ => go rest s' acc
  go ids s []

end Store
end Anysystem
