import Anysystem.Model.Basic
/-!
# Time arithmetic of the simulator

The simulator computes with `f64`.  Model functions are generic in a type `T` with the operations
below; the driver instantiates `T := Float` (the same IEEE-754 operations as Rust's `f64`, values
cross the line protocol as 64-bit patterns), theorems are stated for every `T` satisfying
`LawfulTime` (Spec/TimeLaws.lean) and instantiated by `Nat`-scaled and rational examples.
-/
namespace Anysystem

class TimeOps (T : Type) where
  zero : T
  add : T → T → T
  sub : T → T → T
  mul : T → T → T
  le : T → T → Bool
  lt : T → T → Bool
  /-- `(r * 2.).ceil() as u32 + 1` for a draw `r` -/
  copies : T → Nat
  /-- conversion of a script delay (the bit pattern of an `f64` in the driver) -/
  ofBits : Nat → T
  /-- rendering used when a script sends a clock reading / a random draw as payload -/
  render : T → List Nat

export TimeOps (zero)

instance : TimeOps Float where
  zero := 0.0
  add := (· + ·)
  sub := (· - ·)
  mul := (· * ·)
  le := fun a b => a <= b
  lt := fun a b => a < b
  copies := fun r => (r * 2.0).ceil.toUInt32.toNat + 1
  ofBits := fun n => Float.ofBits n.toUInt64
  render := fun x =>
    let n := x.toBits.toNat
    (List.range 16).reverse.map fun i =>
      let d := (n >>> (4 * i)) % 16
      if d < 10 then 48 + d else 87 + d

/-- exact rational-free instance used in kernel-checked examples: time in integer ticks, draws are
    ticks out of 1000 (`mul a r = a * r / 1000`) -/
structure Ticks where
  n : Nat
deriving DecidableEq, Repr, Inhabited

instance : TimeOps Ticks where
  zero := ⟨0⟩
  add := fun a b => ⟨a.n + b.n⟩
  sub := fun a b => ⟨a.n - b.n⟩
  mul := fun a b => ⟨a.n * b.n / 1000⟩
  le := fun a b => a.n ≤ b.n
  lt := fun a b => a.n < b.n
  copies := fun r => (r.n * 2 + 999) / 1000 + 1
  ofBits := fun n => ⟨n⟩
  render := fun x => [x.n]

end Anysystem
