import Anysystem.Model.Basic
/-!
# Message corruption: `Regex::new(r#""[^"]+""#).replace_all(data, "\"\"")`

The same regular expression appears twice in the code (`Network::corrupt_if_needed` for the
simulator, `Strategy::corrupt_message` for the model checker).  Its leftmost, non-overlapping
replace-all is the following one-pass automaton over code points (`"` = 34): outside a candidate
match characters are copied; after an opening quote non-quote characters are buffered; a closing
quote after a non-empty buffer emits `""`; a quote right after a quote emits the first one and
becomes the new candidate opener; an unterminated candidate is copied as it is.
-/
namespace Anysystem

def quote : Nat := 34

inductive CState where
  | outside
  | afterQuote (buf : List Nat)   -- reversed
deriving DecidableEq, Repr

def corruptStep (st : CState × List Nat) (c : Nat) : CState × List Nat :=
  match st with
  | (.outside, out) => if c = quote then (.afterQuote [], out) else (.outside, out ++ [c])
  | (.afterQuote buf, out) =>
    if c = quote then
      (if buf.isEmpty then (.afterQuote [], out ++ [quote]) else (.outside, out ++ [quote, quote]))
    else (.afterQuote (c :: buf), out)

def corruptFinish : CState × List Nat → List Nat
  | (.outside, out) => out
  | (.afterQuote buf, out) => out ++ quote :: buf.reverse

/-- corruption of a payload -/
def corruptData (d : List Nat) : List Nat := corruptFinish (d.foldl corruptStep (.outside, []))

/-- corruption of a message: the type tag is kept -/
def corruptMsg (m : Msg) : Msg := { m with data := corruptData m.data }

/-- the simulator's copy (`Network::corrupt_if_needed` builds `Message::new(msg.tip, corrupted_data)`) -/
def corruptSim (m : Msg) : Msg := ⟨m.tip, corruptData m.data⟩

/-- the model checker's copy (`Strategy::corrupt_message` assigns `msg.data`) -/
def corruptMc (m : Msg) : Msg := corruptMsg m

end Anysystem
