import Anysystem.Model.Basic
/-!
# `McNetwork` (`src/mc/network.rs`), mirrored

Only the sign of the three rates matters to the model checker (`drop_rate > 0.`, `dupl_rate == 0.`,
`corrupt_rate > 0.`); they are kept as the three booleans the code computes from them.  For rates in
`[0, 1]` (the well-formedness domain) "non-zero" and "positive" coincide.
-/
namespace Anysystem

def DUPL_COUNT : Nat := 2

structure McNet where
  dropPos : Bool := false
  duplNonzero : Bool := false
  corruptPos : Bool := false
  dropIncoming : List Nat := []
  dropOutgoing : List Nat := []
  disabledLinks : List (Nat × Nat) := []
  procLoc : List (Nat × Nat) := []     -- process ↦ node
  maxDelay : Nat := 2                  -- in half units (default `max_delay = 1.0`)
deriving DecidableEq, Repr, Inhabited

namespace McNet

def procNode (n : McNet) (p : Nat) : R Nat :=
  match amGet? p n.procLoc with
  | some nd => .ok nd
  | none => .error "get_proc_node: unknown process"

def dropIncomingOn (n : McNet) (nd : Nat) : McNet := { n with dropIncoming := setInsert nd n.dropIncoming }
def dropOutgoingOn (n : McNet) (nd : Nat) : McNet := { n with dropOutgoing := setInsert nd n.dropOutgoing }
def disconnectNode (n : McNet) (nd : Nat) : McNet := (n.dropIncomingOn nd).dropOutgoingOn nd
def disableLink (n : McNet) (a b : Nat) : McNet :=
  { n with disabledLinks := if n.disabledLinks.contains (a, b) then n.disabledLinks else n.disabledLinks ++ [(a, b)] }
def partition (n : McNet) (g1 g2 : List Nat) : McNet :=
  g1.foldl (fun n a => g2.foldl (fun n b => (n.disableLink a b).disableLink b a) n) n
def reset (n : McNet) : McNet := { n with disabledLinks := [], dropIncoming := [], dropOutgoing := [] }

/-- is the directed path `src node → dst node` enabled right now -/
def pathEnabled (n : McNet) (srcNode dstNode : Nat) : Bool :=
  !n.dropOutgoing.contains srcNode && !n.dropIncoming.contains dstNode &&
  !n.disabledLinks.contains (srcNode, dstNode)

/-- `send_message`: classification of a send at the moment it is issued -/
def sendMessage (n : McNet) (m : Msg) (src dst : Nat) : R Ev :=
  match n.procNode src, n.procNode dst with
  | .ok sn, .ok dn =>
    if sn = dn then .ok (.msg m src dst (.noFail n.maxDelay))
    else if n.pathEnabled sn dn then
      .ok (.msg m src dst (.faults n.dropPos (if n.duplNonzero then DUPL_COUNT else 0) n.corruptPos))
    else .ok (.dropped m src dst none)
  | .error e, _ => .error e
  | _, .error e => .error e

end McNet
end Anysystem
