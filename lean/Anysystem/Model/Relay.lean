import Anysystem.Model.Prog
/-!
# The Python bridge (`python/anysystem.py` `Context`, `src/python/mod.rs` `handle_proc_actions`), mirrored

A Python handler records its calls in three lists (`_sent_messages`, `_sent_local_messages`,
`_timer_actions`); a timer operation is recorded as `(name, delay, once)`, `cancel_timer` as
`(name, -1, False)`; `set_timer[_once]` raise `ValueError` for a negative delay.  After the handler
returned, Rust relays the sends, then the local sends, then the timer operations into the `Context`,
decoding `delay < 0` as cancel.
-/
namespace Anysystem

inductive PyCall where
  | send (m : Msg) (dst : Nat)
  | sendLocal (m : Msg)
  | setTimer (name : Nat) (delay : Int)
  | setTimerOnce (name : Nat) (delay : Int)
  | cancelTimer (name : Nat)
deriving DecidableEq, Repr

structure PyCtx where
  sent : List (Msg × Nat) := []
  locals : List Msg := []
  timers : List (Nat × Int × Bool) := []
deriving DecidableEq, Repr

/-- one recorded call; `none` = the call raises (negative delay) and the handler fails -/
def PyCtx.call (c : PyCtx) : PyCall → Option PyCtx
  | .send m dst => some { c with sent := c.sent ++ [(m, dst)] }
  | .sendLocal m => some { c with locals := c.locals ++ [m] }
  | .setTimer n d => if d < 0 then none else some { c with timers := c.timers ++ [(n, d, false)] }
  | .setTimerOnce n d => if d < 0 then none else some { c with timers := c.timers ++ [(n, d, true)] }
  | .cancelTimer n => some { c with timers := c.timers ++ [(n, -1, false)] }

def PyCtx.run (c : PyCtx) : List PyCall → Option PyCtx
  | [] => some c
  | x :: xs => match c.call x with
    | some c' => c'.run xs
    | none => none

/-- `handle_proc_actions`: decoding of one recorded timer action -/
def decodeTimer : Nat × Int × Bool → Action
  | (n, d, once) => if d < 0 then .cancel n else .set n d.toNat once

/-- `handle_proc_actions`: what reaches the engine, in order -/
def relay (c : PyCtx) : List Action :=
  c.sent.map (fun x => Action.send x.1 x.2) ++ c.locals.map Action.loc ++ c.timers.map decodeTimer

/-- the call a Rust process would make for the same intention -/
def PyCall.toAction : PyCall → Action
  | .send m dst => .send m dst
  | .sendLocal m => .loc m
  | .setTimer n d => .set n d.toNat false
  | .setTimerOnce n d => .set n d.toNat true
  | .cancelTimer n => .cancel n

end Anysystem
