import Anysystem.Model.Time
import Anysystem.Model.Prog
import Anysystem.Model.Corrupt
import Anysystem.Model.McSys
/-!
# The simulator (`src/system.rs`, `src/node.rs`, `src/network.rs` on top of `simcore`), mirrored

* the event queue: events carry `(id, time, src node, dst node, data)`, are handled in
  `(time, id)` order, cancellation is lazy (`canceled` set consulted and shrunk on pop);
* one stream of random draws shared by the network and the process contexts, consumed in the
  code's order (drop, corrupt, count [, count], one delay draw per copy; same-node sends draw
  nothing; `ctx.rand()` draws from the same stream);
* `Node::handle_process_actions`, the timers map name ↦ event id, logs, counters;
* `System::crash_node / recover_node / add_process / send_local_message / read_local_messages / step*`.
-/
namespace Anysystem

/-- `simcore` event payloads used by anysystem -/
inductive QData where
  | msg (mid : Nat) (m : Msg) (src srcNode dst dstNode : Nat)
  | timer (proc name : Nat)
deriving DecidableEq, Repr, Inhabited

structure QEv (T : Type) where
  id : Nat
  time : T
  src : Nat      -- node
  dst : Nat      -- node
  data : QData
deriving Repr

/-- simulation `LogEntry` constructors (those of model checking are in `LogE`) -/
inductive SLog (T : Type) where
  | nodeStarted (t : T) (node : Nat)
  | processStarted (t : T) (node proc : Nat)
  | localSent (t : T) (node proc k : Nat) (m : Msg)          -- msg_id = "<node>-<proc>-<k>"
  | localRecv (t : T) (node proc k : Nat) (m : Msg)
  | sent (t : T) (mid srcNode src dstNode dst : Nat) (m : Msg)
  | recv (t : T) (mid srcNode src dstNode dst : Nat) (m : Msg)
  | dropped (t : T) (mid srcNode src dstNode dst : Nat) (m : Msg)
  | nodeDisconnected (t : T) (node : Nat)
  | nodeConnected (t : T) (node : Nat)
  | nodeCrashed (t : T) (node : Nat)
  | nodeRecovered (t : T) (node : Nat)
  | timerSet (t : T) (id : Nat) (name node proc : Nat) (delay : T)
  | timerFired (t : T) (id : Nat) (name node proc : Nat)
  | timerCancelled (t : T) (id : Nat) (name node proc : Nat)
  | linkDisabled (t : T) (a b : Nat)
  | linkEnabled (t : T) (a b : Nat)
  | dropIncoming (t : T) (node : Nat)
  | passIncoming (t : T) (node : Nat)
  | dropOutgoing (t : T) (node : Nat)
  | passOutgoing (t : T) (node : Nat)
  | partition (t : T) (g1 g2 : List Nat)
  | netReset (t : T)
deriving Repr

/-- `ProcessEvent` with the time it is logged with (`EventLogEntry`) -/
structure SPEv (T : Type) where
  time : T
  ev : PEv
deriving Repr

structure SProc (σ T : Type) where
  st : σ
  log : List (SPEv T) := []
  outbox : List Msg := []
  pending : List (Nat × Nat) := []      -- timer name ↦ event id
  sent : Nat := 0
  recv : Nat := 0
deriving Repr

structure SNode (σ T : Type) where
  procs : List (Nat × SProc σ T) := []
  skew : T
  crashed : Bool := false
  localCount : Nat := 0
deriving Repr

/-- Mirrors `Network`. -/
structure SimNet (T : Type) where
  minDelay : T
  maxDelay : T
  dropRate : T
  duplRate : T
  corruptRate : T
  dropIncoming : List Nat := []
  dropOutgoing : List Nat := []
  disabledLinks : List (Nat × Nat) := []
  procLoc : List (Nat × Nat) := []
  networkMessageCount : Nat := 0
  messageCount : Nat := 0
  traffic : Nat := 0
deriving Repr

/-- a simulator handler additionally sees the local clock and may consume random draws:
    `handle proc state input clock draws = (state', actions, number of draws consumed)` -/
abbrev SHandler (σ T : Type) := Nat → σ → Input → T → List T → σ × List Action × Nat

/-- Mirrors `System` + the `simcore` state. -/
structure Sim (σ T : Type) where
  clock : T
  events : List (QEv T) := []
  canceled : List Nat := []
  eventCount : Nat := 0
  draws : List T := []
  net : SimNet T
  nodes : List (Nat × SNode σ T) := []
  procNodes : List (Nat × Nat) := []     -- `proc_nodes`
  handlers : List Nat := []              -- nodes whose event handler is registered
  trace : List (SLog T) := []
deriving Repr

variable {σ T : Type} [TimeOps T]

/-- script interpreter of the simulator: as `Script.handle`, plus clock reads and random draws -/
def Script.handleSim (sc : Script) (s : PState) (i : Input) (clock : T) (draws : List T) :
    PState × List Action × Nat :=
  let hist := if sc.record then s.hist ++ [i.trig] else s.hist
  match sc.rules.find? (fun r => r.st == s.st && r.trig == i.trig) with
  | none => ({ s with hist }, [], 0)
  | some r =>
    let (acts, used) := r.acts.foldl (fun (acc : List Action × Nat) a =>
      match a with
      | .clock tip => (acc.1 ++ [Action.loc ⟨tip, TimeOps.render clock⟩], acc.2)
      | .rand tip => (acc.1 ++ [Action.loc ⟨tip, TimeOps.render ((draws.drop acc.2).headD TimeOps.zero)⟩], acc.2 + 1)
      | a => (acc.1 ++ [a.toAction i.data], acc.2)) ([], 0)
    ({ st := r.st2, hist }, if sc.canon then canonOrder acts else acts, used)

def simScriptHandler (scripts : List (Nat × Script)) : SHandler PState T :=
  fun proc s i clock draws => match amGet? proc scripts with
    | some sc => sc.handleSim s i clock draws
    | none => (s, [], 0)

open TimeOps in
def SimNet.default : SimNet T :=
  -- `min_delay: 1., max_delay: 1.` and zero rates; `one` is supplied by the caller through `setDelay`
  { minDelay := zero, maxDelay := zero, dropRate := zero, duplRate := zero, corruptRate := zero }

namespace Sim

/-- next random draw (`ctx.rand()`); an exhausted stream yields zero (the driver always supplies enough) -/
def draw (s : Sim σ T) : T × Sim σ T :=
  match s.draws with
  | [] => (TimeOps.zero, s)
  | r :: rest => (r, { s with draws := rest })

def log (s : Sim σ T) (e : SLog T) : Sim σ T := { s with trace := s.trace ++ [e] }

/-- `SimulationState::add_event` (negative delays panic; they are outside every statement) -/
def addEvent (s : Sim σ T) (data : QData) (src dst : Nat) (delay : T) : Sim σ T × Nat :=
  let id := s.eventCount
  ({ s with events := s.events ++ [⟨id, TimeOps.add s.clock delay, src, dst, data⟩], eventCount := id + 1 }, id)

def cancelEvent (s : Sim σ T) (id : Nat) : Sim σ T := { s with canceled := setInsert id s.canceled }

/-- `(time, id)` order of the event heap -/
def evBefore (a b : QEv T) : Bool := TimeOps.lt a.time b.time || (!TimeOps.lt b.time a.time && a.id < b.id)

def minEvent : List (QEv T) → Option (QEv T)
  | [] => none
  | e :: es => match minEvent es with
    | none => some e
    | some m => if evBefore e m then some e else some m

/-- `next_event`: pop in `(time, id)` order, skipping (and forgetting) cancelled ids; sets the clock -/
def nextEvent : Nat → Sim σ T → Option (QEv T) × Sim σ T
  | 0, s => (none, s)
  | fuel + 1, s =>
    match minEvent s.events with
    | none => (none, s)
    | some e =>
      let s1 := { s with events := s.events.filter (fun x => x.id != e.id) }
      if s1.canceled.contains e.id then nextEvent fuel { s1 with canceled := setErase e.id s1.canceled }
      else (some e, { s1 with clock := e.time })

/-- `peek_event`: same skipping, without popping the live event and without moving the clock -/
def peekEvent : Nat → Sim σ T → Option (QEv T) × Sim σ T
  | 0, s => (none, s)
  | fuel + 1, s =>
    match minEvent s.events with
    | none => (none, s)
    | some e =>
      if s.canceled.contains e.id then
        peekEvent fuel { s with events := s.events.filter (fun x => x.id != e.id), canceled := setErase e.id s.canceled }
      else (some e, s)

/-- `dump_events`: live events sorted by `(time, id)` -/
def dumpEvents (s : Sim σ T) : List (QEv T) :=
  let live := s.events.filter (fun e => !s.canceled.contains e.id)
  live.foldl (fun acc e => let (a, b) := acc.span (fun x => evBefore x e); a ++ [e] ++ b) []

/-! ### network -/

def netLog (s : Sim σ T) (f : T → SLog T) : Sim σ T := s.log (f s.clock)

def msgSize (m : Msg) (tipLen : Nat) : Nat := tipLen + m.data.length

/-- `Network::send_message`. `tipLen` = byte length of the message type string (names are rendered
    by the driver; payloads are ASCII in the generated scenarios so code points = bytes). -/
def sendMessage (s : Sim σ T) (m : Msg) (src dst : Nat) (tipLen : Nat) : R (Sim σ T) :=
  match amGet? src s.net.procLoc, amGet? dst s.net.procLoc with
  | some sn, some dn =>
    let mid := s.net.messageCount
    let s := s.log (.sent s.clock mid sn src dn dst m)
    let s :=
      if sn = dn then
        (s.addEvent (.msg mid m src sn dst dn) sn dn TimeOps.zero).1
      else
        -- `message_is_dropped`: the draw is taken first, always
        let (r0, s) := s.draw
        let dropped := TimeOps.lt r0 s.net.dropRate || s.net.dropOutgoing.contains sn ||
          s.net.dropIncoming.contains dn || s.net.disabledLinks.contains (sn, dn)
        let s :=
          if !dropped then
            let (r1, s) := s.draw
            let m' := if TimeOps.lt r1 s.net.corruptRate then corruptSim m else m
            let (r2, s) := s.draw
            let (count, s) :=
              if !TimeOps.lt r2 s.net.duplRate then (1, s)
              else let (r3, s) := s.draw; (TimeOps.copies r3, s)
            let rec emit : Nat → Sim σ T → Sim σ T
              | 0, s => s
              | k + 1, s =>
                let (r, s) := s.draw
                let delay := TimeOps.add s.net.minDelay (TimeOps.mul r (TimeOps.sub s.net.maxDelay s.net.minDelay))
                emit k (s.addEvent (.msg mid m' src sn dst dn) sn dn delay).1
            emit count s
          else s.log (.dropped s.clock mid sn src dn dst m)
        { s with net := { s.net with networkMessageCount := s.net.networkMessageCount + 1,
                                      traffic := s.net.traffic + msgSize m tipLen } }
    .ok { s with net := { s.net with messageCount := s.net.messageCount + 1 } }
  | _, _ => .error "send_message: unknown process"

/-! ### node -/

def nodeOf (s : Sim σ T) (n : Nat) : R (SNode σ T) :=
  match amGet? n s.nodes with
  | some nd => .ok nd
  | none => .error "unknown node"

def setNode (s : Sim σ T) (n : Nat) (nd : SNode σ T) : Sim σ T := { s with nodes := amInsert natLt n nd s.nodes }

def updProc (s : Sim σ T) (n p : Nat) (f : SProc σ T → SProc σ T) : Sim σ T :=
  match amGet? n s.nodes with
  | none => s
  | some nd => match amGet? p nd.procs with
    | none => s
    | some e => s.setNode n { nd with procs := amInsert natLt p (f e) nd.procs }

/-- byte length of a name like `m3` as rendered by the harness (letter + decimal digits) -/
def nameLen (k : Nat) : Nat := 1 + (toString k).length

/-- `Node::handle_process_actions` -/
def handleActions (n p : Nat) (time : T) : List Action → Sim σ T → R (Sim σ T)
  | [], s => .ok s
  | a :: rest, s =>
    match a with
    | .send m dst =>
      let s := s.updProc n p fun e => { e with log := e.log ++ [⟨time, .sent m p dst⟩] }
      match s.sendMessage m p dst (nameLen m.tip) with
      | .error e => .error e
      | .ok s => handleActions n p time rest (s.updProc n p fun e => { e with sent := e.sent + 1 })
    | .loc m =>
      match s.nodeOf n with
      | .error e => .error e
      | .ok nd =>
        let s := s.updProc n p fun e => { e with log := e.log ++ [⟨time, .lsent m⟩], outbox := e.outbox ++ [m] }
        let s := s.log (.localSent time n p nd.localCount m)
        match s.nodeOf n with
        | .error e => .error e
        | .ok nd => handleActions n p time rest (s.setNode n { nd with localCount := nd.localCount + 1 })
    | .set name delay once =>
      let s := s.updProc n p fun e => { e with log := e.log ++ [⟨time, .tset name delay once⟩] }
      match s.nodeOf n with
      | .error e => .error e
      | .ok nd =>
        match amGet? p nd.procs with
        | none => .error "unknown process"
        | some e =>
          match amGet? name e.pending with
          | some oldId =>
            if once then handleActions n p time rest s
            else
              let s := s.cancelEvent oldId
              let (s, id) := s.addEvent (.timer p name) n n (delayOf delay)
              let s := s.updProc n p fun e => { e with pending := amInsert natLt name id e.pending }
              handleActions n p time rest (s.log (.timerSet time id name n p (delayOf delay)))
          | none =>
            let (s, id) := s.addEvent (.timer p name) n n (delayOf delay)
            let s := s.updProc n p fun e => { e with pending := amInsert natLt name id e.pending }
            handleActions n p time rest (s.log (.timerSet time id name n p (delayOf delay)))
    | .cancel name =>
      let s := s.updProc n p fun e => { e with log := e.log ++ [⟨time, .tcancel name⟩] }
      match s.nodeOf n with
      | .error e => .error e
      | .ok nd =>
        match amGet? p nd.procs with
        | none => .error "unknown process"
        | some e =>
          match amGet? name e.pending with
          | some id =>
            let s := s.updProc n p fun e => { e with pending := amErase name e.pending }
            let s := s.log (.timerCancelled time id name n p)
            handleActions n p time rest (s.cancelEvent id)
          | none => handleActions n p time rest s
where
  /-- script delays are natural numbers (bit patterns of `f64` in the driver) -/
  delayOf (d : Nat) : T := TimeOps.ofBits d


/-! ### event handlers of a node -/

/-- run the handler of `p` and process its actions -/
def runHandler (h : SHandler σ T) (n p : Nat) (time : T) (i : Input) (s : Sim σ T) : R (Sim σ T) :=
  match s.nodeOf n with
  | .error e => .error e
  | .ok nd =>
    match amGet? p nd.procs with
    | none => .error "unknown process on node"
    | some e =>
      let (st', acts, used) := h p e.st i (TimeOps.add s.clock nd.skew) s.draws
      let s := { s with draws := s.draws.drop used }
      let s := s.updProc n p fun e => { e with st := st' }
      handleActions n p time acts s

/-- `Node::on_local_message_received` -/
def onLocal (h : SHandler σ T) (n p : Nat) (m : Msg) (s : Sim σ T) : R (Sim σ T) :=
  match s.nodeOf n with
  | .error e => .error e
  | .ok nd =>
    let time := s.clock
    let s := s.log (.localRecv time n p nd.localCount m)
    let s := s.setNode n { nd with localCount := nd.localCount + 1 }
    if !(amHas p nd.procs) then .error "unknown process on node" else
    let s := s.updProc n p fun e => { e with log := e.log ++ [⟨time, .lrecv m⟩] }
    runHandler h n p time (.loc m) s

/-- `Node::on_message_received` -/
def onMessage (h : SHandler σ T) (n : Nat) (mid p : Nat) (m : Msg) (src srcNode : Nat) (s : Sim σ T) : R (Sim σ T) :=
  match s.nodeOf n with
  | .error e => .error e
  | .ok nd =>
    let time := s.clock
    let s := s.log (.recv time mid srcNode src n p m)
    if !(amHas p nd.procs) then .error "unknown process on node" else
    let s := s.updProc n p fun e => { e with log := e.log ++ [⟨time, .recv m src p⟩], recv := e.recv + 1 }
    runHandler h n p time (.msg m src) s

/-- `Node::on_timer_fired` -/
def onTimer (h : SHandler σ T) (n p name : Nat) (s : Sim σ T) : R (Sim σ T) :=
  match s.nodeOf n with
  | .error e => .error e
  | .ok nd =>
    let time := s.clock
    match amGet? p nd.procs with
    | none => .error "unknown process on node"
    | some e =>
      let s := s.updProc n p fun e => { e with log := e.log ++ [⟨time, .tfired name⟩] }
      let s := match amGet? name e.pending with
        | some id => (s.updProc n p fun e => { e with pending := amErase name e.pending }).log (.timerFired time id name n p)
        | none => s
      runHandler h n p time (.timer name) s

/-! ### `System` API -/

def addNode (s : Sim σ T) (n : Nat) : R (Sim σ T) :=
  if amHas n s.nodes then .error "Node with this name already exists" else
  let s' : Sim σ T := { s with nodes := amInsert natLt n { skew := TimeOps.zero } s.nodes, handlers := setInsert n s.handlers }
  .ok (s'.log (.nodeStarted s.clock n))

def addProcess (s : Sim σ T) (p : Nat) (st : σ) (n : Nat) : R (Sim σ T) :=
  match s.nodeOf n with
  | .error e => .error e
  | .ok nd =>
    let s := s.setNode n { nd with procs := amInsert natLt p { st } nd.procs }
    let s := { s with net := { s.net with procLoc := amInsert natLt p n s.net.procLoc } }
    if amHas p s.procNodes then .error "Process with this name already exists" else
    let s' : Sim σ T := { s with procNodes := amInsert natLt p n s.procNodes }
    .ok (s'.log (.processStarted s.clock n p))

def setSkew (s : Sim σ T) (n : Nat) (skew : T) : R (Sim σ T) :=
  match s.nodeOf n with
  | .error e => .error e
  | .ok nd => .ok (s.setNode n { nd with skew })

/-- `System::send_local_message` -/
def sendLocal (h : SHandler σ T) (s : Sim σ T) (p : Nat) (m : Msg) : R (Sim σ T) :=
  match amGet? p s.procNodes with
  | none => .error "unknown process"
  | some n =>
    match s.nodeOf n with
    | .error e => .error e
    | .ok nd => if nd.crashed then .error "Cannot send local message to process on crashed node" else onLocal h n p m s

/-- `Node::read_local_messages` -/
def readNode (s : Sim σ T) (n p : Nat) : R (Option (List Msg) × Sim σ T) :=
  match s.nodeOf n with
  | .error e => .error e
  | .ok nd =>
    match amGet? p nd.procs with
    | none => .error "unknown process on node"
    | some e =>
      if e.outbox.isEmpty then .ok (none, s)
      else .ok (some e.outbox, s.updProc n p fun e => { e with outbox := [] })

/-- `System::read_local_messages` -/
def readLocal (s : Sim σ T) (p : Nat) : R (List Msg × Sim σ T) :=
  match amGet? p s.procNodes with
  | none => .error "unknown process"
  | some n => match s.readNode n p with
    | .error e => .error e
    | .ok (ms, s) => .ok (ms.getD [], s)

/-- `System::crash_node` (as repaired: only messages still in flight are logged as dropped) -/
def crashNode (s : Sim σ T) (n : Nat) : R (Sim σ T) :=
  match s.nodeOf n with
  | .error e => .error e
  | .ok nd =>
    let s := s.setNode n { nd with crashed := true }
    let s := s.log (.nodeCrashed s.clock n)
    let live := (s.events.filter (fun e => !s.canceled.contains e.id)).map (·.id)
    let fromNode := s.events.filter (fun e => e.src == n)
    let s := fromNode.foldl (fun s e => s.cancelEvent e.id) s
    let s := fromNode.foldl (fun s e =>
      if live.contains e.id then
        match e.data with
        | .msg mid m src sn dst dn => s.log (.dropped s.clock mid sn src dn dst m)
        | _ => s
      else s) s
    -- `remove_handler(name, EventCancellationPolicy::Incoming)`
    let s := { s with handlers := setErase n s.handlers }
    .ok ((s.events.filter (fun e => e.dst == n)).foldl (fun s e => s.cancelEvent e.id) s)

/-- `System::recover_node` -/
def recoverNode (s : Sim σ T) (n : Nat) : R (Sim σ T) :=
  match s.nodeOf n with
  | .error e => .error e
  | .ok nd =>
    if !nd.crashed then .error "Node is not crashed to be eligible for recovery" else
    let s := s.setNode n { nd with procs := [], crashed := false }
    let s := { s with handlers := setInsert n s.handlers,
                      procNodes := s.procNodes.filter (fun x => x.2 != n) }
    .ok (s.log (.nodeRecovered s.clock n))

/-- deliver one popped event -/
def deliver (h : SHandler σ T) (e : QEv T) (s : Sim σ T) : R (Sim σ T) :=
  if !s.handlers.contains e.dst then .ok s     -- undelivered: no handler
  else match e.data with
    | .msg mid m src sn dst _ => onMessage h e.dst mid dst m src sn s
    | .timer p name => onTimer h e.dst p name s

/-- `System::step` -/
def step (h : SHandler σ T) (s : Sim σ T) : R (Bool × Sim σ T) :=
  match nextEvent (s.events.length + 1) s with
  | (none, s) => .ok (false, s)
  | (some e, s) => match deliver h e s with
    | .error err => .error err
    | .ok s => .ok (true, s)

/-- `System::steps` -/
def steps (h : SHandler σ T) : Nat → Sim σ T → R (Bool × Sim σ T)
  | 0, s => .ok (true, s)
  | k + 1, s => match step h s with
    | .error e => .error e
    | .ok (false, s) => .ok (false, s)
    | .ok (true, s) => steps h k s

/-- `System::step_until_no_events` (fuel = bound on the number of steps; `none` when exhausted) -/
def stepUntilNoEvents (h : SHandler σ T) : Nat → Sim σ T → Option (R (Sim σ T))
  | 0, _ => none
  | f + 1, s => match step h s with
    | .error e => some (.error e)
    | .ok (false, s) => some (.ok s)
    | .ok (true, s) => stepUntilNoEvents h f s

/-- `System::step_for_duration` -/
def stepUntilTime (h : SHandler σ T) (endT : T) : Nat → Sim σ T → Option (R (Bool × Sim σ T))
  | 0, _ => none
  | f + 1, s =>
    match peekEvent (s.events.length + 1) s with
    | (none, s) => some (.ok (false, { s with clock := endT }))
    | (some e, s) =>
      if TimeOps.lt endT e.time then some (.ok (true, { s with clock := endT }))
      else match step h s with
        | .error err => some (.error err)
        | .ok (_, s) => stepUntilTime h endT f s

def stepForDuration (h : SHandler σ T) (d : T) (fuel : Nat) (s : Sim σ T) : Option (R (Bool × Sim σ T)) :=
  stepUntilTime h (TimeOps.add s.clock d) fuel s

/-- `System::step_until_local_message` -/
def stepUntilLocal (h : SHandler σ T) (n p : Nat) : Nat → Sim σ T → Option (R (Option (List Msg) × Sim σ T))
  | 0, _ => none
  | f + 1, s =>
    match s.readNode n p with
    | .error e => some (.error e)
    | .ok (some ms, s) => some (.ok (some ms, s))
    | .ok (none, s) =>
      match step h s with
      | .error e => some (.error e)
      | .ok (false, s) => some (.ok (none, s))
      | .ok (true, s) => stepUntilLocal h n p f s

/-- `System::step_until_local_message_timeout`: like `step_until_local_message`, but gives up (without reading the outbox
    again) as soon as the clock has reached `end = clock at the call + timeout`; the outbox is only read while
    `clock < end`. -/
def stepUntilLocalTimeoutGo (h : SHandler σ T) (n p : Nat) (endT : T) : Nat → Sim σ T → Option (R (Option (List Msg) × Sim σ T))
  | 0, _ => none
  | f + 1, s =>
    if TimeOps.lt s.clock endT then
      match s.readNode n p with
      | .error e => some (.error e)
      | .ok (some ms, s) => some (.ok (some ms, s))
      | .ok (none, s) =>
        match step h s with
        | .error e => some (.error e)
        | .ok (false, s) => some (.ok (none, s))
        | .ok (true, s) => stepUntilLocalTimeoutGo h n p endT f s
    else some (.ok (none, s))

def stepUntilLocalTimeout (h : SHandler σ T) (n p : Nat) (timeout : T) (fuel : Nat) (s : Sim σ T) :
    Option (R (Option (List Msg) × Sim σ T)) :=
  stepUntilLocalTimeoutGo h n p (TimeOps.add s.clock timeout) fuel s

/-- `System::step_until_local_message_max_steps` -/
def stepUntilLocalMax (h : SHandler σ T) (n p : Nat) (maxSteps : Nat) (s : Sim σ T) : R (Option (List Msg) × Sim σ T) :=
  match s.readNode n p with
  | .error e => .error e
  | .ok (some ms, s) => .ok (some ms, s)
  | .ok (none, s) =>
    let rec go : Nat → Sim σ T → R (Option (List Msg) × Sim σ T)
      | 0, s => .ok (none, s)
      | k + 1, s =>
        match step h s with
        | .error e => .error e
        | .ok (false, s) => .ok (none, s)
        | .ok (true, s) =>
          match s.readNode n p with
          | .error e => .error e
          | .ok (some ms, s) => .ok (some ms, s)
          | .ok (none, s) => go k s
    go maxSteps s

/-! ### network settings (`Network::*`), each logs one entry except the rates and delays -/

def netSet (s : Sim σ T) (f : SimNet T → SimNet T) : Sim σ T := { s with net := f s.net }

def dropIncoming (s : Sim σ T) (n : Nat) : Sim σ T :=
  (s.netSet fun x => { x with dropIncoming := setInsert n x.dropIncoming }).log (.dropIncoming s.clock n)
def passIncoming (s : Sim σ T) (n : Nat) : Sim σ T :=
  (s.netSet fun x => { x with dropIncoming := setErase n x.dropIncoming }).log (.passIncoming s.clock n)
def dropOutgoing (s : Sim σ T) (n : Nat) : Sim σ T :=
  (s.netSet fun x => { x with dropOutgoing := setInsert n x.dropOutgoing }).log (.dropOutgoing s.clock n)
def passOutgoing (s : Sim σ T) (n : Nat) : Sim σ T :=
  (s.netSet fun x => { x with dropOutgoing := setErase n x.dropOutgoing }).log (.passOutgoing s.clock n)
def disconnectNode (s : Sim σ T) (n : Nat) : Sim σ T :=
  (s.netSet fun x => { x with dropIncoming := setInsert n x.dropIncoming, dropOutgoing := setInsert n x.dropOutgoing }).log
    (.nodeDisconnected s.clock n)
def connectNode (s : Sim σ T) (n : Nat) : Sim σ T :=
  (s.netSet fun x => { x with dropIncoming := setErase n x.dropIncoming, dropOutgoing := setErase n x.dropOutgoing }).log
    (.nodeConnected s.clock n)
def linkInsert (l : List (Nat × Nat)) (a b : Nat) : List (Nat × Nat) := if l.contains (a, b) then l else l ++ [(a, b)]
def disableLink (s : Sim σ T) (a b : Nat) : Sim σ T :=
  (s.netSet fun x => { x with disabledLinks := linkInsert x.disabledLinks a b }).log (.linkDisabled s.clock a b)
def enableLink (s : Sim σ T) (a b : Nat) : Sim σ T :=
  (s.netSet fun x => { x with disabledLinks := x.disabledLinks.filter (· != (a, b)) }).log (.linkEnabled s.clock a b)
def makePartition (s : Sim σ T) (g1 g2 : List Nat) : Sim σ T :=
  let links (l : List (Nat × Nat)) : List (Nat × Nat) :=
    g1.foldl (fun l a => g2.foldl (fun l b => linkInsert (linkInsert l a b) b a) l) l
  (s.netSet fun x => { x with disabledLinks := links x.disabledLinks }).log (.partition s.clock g1 g2)
def netReset (s : Sim σ T) : Sim σ T :=
  (s.netSet fun x => { x with disabledLinks := [], dropIncoming := [], dropOutgoing := [] }).log (.netReset s.clock)

end Sim
end Anysystem
