import Anysystem.Model.Basic
/-!
# Process programs

In the theorems a program is an arbitrary total function (`Handler σ`) over an arbitrary state type
with decidable equality: this is the modelling assumption "a process is determined by the value
`state()` returns, and its handlers are deterministic functions of (state, input)".  Programs in
this model have no clock and no random source (MC seeds `ctx.rand()` from the state hash and sets
the clock from the depth; the properties that quantify over clock-reading programs say so).

For the correspondence runs programs are *scripts*: finite rule tables interpreted identically by
the Rust harness (`harness/src/script.rs`), this file, and the Python twin.
-/
namespace Anysystem

inductive Input where
  | loc (m : Msg)
  | msg (m : Msg) (src : Nat)
  | timer (name : Nat)
deriving DecidableEq, Repr, Inhabited

/-- what a handler asks the `Context` to do, in call order -/
inductive Action where
  | send (m : Msg) (dst : Nat)
  | loc (m : Msg)
  | set (name delay : Nat) (once : Bool)
  | cancel (name : Nat)
deriving DecidableEq, Repr, Inhabited

/-- `handle proc state input = (state', actions)` -/
abbrev Handler (σ : Type) := Nat → σ → Input → σ × List Action

/-! ## Scripts -/

inductive SData where
  | lit (d : List Nat)
  | echo
deriving DecidableEq, Repr, Inhabited

inductive SAct where
  | send (tip : Nat) (d : SData) (dst : Nat)
  | loc (tip : Nat) (d : SData)
  | set (name delay : Nat)
  | once (name delay : Nat)
  | cancel (name : Nat)
  | clock (tip : Nat)     -- send_local carrying the clock reading (simulator scripts only)
  | rand (tip : Nat)      -- send_local carrying `ctx.rand()` (simulator scripts only)
deriving DecidableEq, Repr, Inhabited

structure SRule where
  st : Nat
  trig : Nat      -- kind * 1000 + key; kind 0 = local message, 1 = message, 2 = timer
  st2 : Nat
  acts : List SAct
deriving DecidableEq, Repr, Inhabited

structure Script where
  rules : List SRule := []
  record : Bool := false
  /-- emit the actions in the order the Python bridge relays them (sends, local sends, timer operations) -/
  canon : Bool := false
deriving DecidableEq, Repr, Inhabited

/-- script process state: control state and (when recording) the triggers seen so far -/
structure PState where
  st : Nat := 0
  hist : List Nat := []
deriving DecidableEq, Repr, Inhabited

def Input.trig : Input → Nat
  | .loc m => m.tip
  | .msg m _ => 1000 + m.tip
  | .timer n => 2000 + n

def Input.data : Input → List Nat
  | .loc m => m.data
  | .msg m _ => m.data
  | .timer _ => []

def SAct.toAction (dat : List Nat) : SAct → Action
  | .send tip d dst => .send ⟨tip, match d with | .lit x => x | .echo => dat⟩ dst
  | .loc tip d => .loc ⟨tip, match d with | .lit x => x | .echo => dat⟩
  | .set n dl => .set n dl false
  | .once n dl => .set n dl true
  | .cancel n => .cancel n
  -- clock and random reads are not part of the clock-free MC program model
  | .clock tip => .loc ⟨tip, []⟩
  | .rand tip => .loc ⟨tip, []⟩

def Action.isSend : Action → Bool | .send .. => true | _ => false
def Action.isLoc : Action → Bool | .loc .. => true | _ => false
def Action.isTimerOp : Action → Bool | .set .. => true | .cancel .. => true | _ => false

/-- the order in which `PyProcess::handle_proc_actions` relays recorded actions -/
def canonOrder (as : List Action) : List Action :=
  as.filter Action.isSend ++ as.filter Action.isLoc ++ as.filter Action.isTimerOp

def Script.handle (sc : Script) (s : PState) (i : Input) : PState × List Action :=
  let hist := if sc.record then s.hist ++ [i.trig] else s.hist
  match sc.rules.find? (fun r => r.st == s.st && r.trig == i.trig) with
  | none => ({ s with hist }, [])
  | some r =>
    let acts := r.acts.map (SAct.toAction i.data)
    ({ st := r.st2, hist }, if sc.canon then canonOrder acts else acts)

/-- a system of scripts, one per process name -/
def scriptHandler (scripts : List (Nat × Script)) : Handler PState :=
  fun proc s i => match amGet? proc scripts with
    | some sc => sc.handle s i
    | none => (s, [])

end Anysystem
