/-!
# Basic vocabulary of the model

Names (processes, nodes, timers, message types) are natural numbers; the driver maps the harness's
`p3`, `n1`, `t2`, `m0` to `3, 1, 2, 0`, which preserves the order Rust's `BTreeMap<String, _>` uses
for these single-digit names.  Payloads are lists of code points, so that the corruption automaton
is an ordinary list function and equality is kernel-decidable.  Model-checking delays are natural
numbers: the bit pattern of a non-negative `f64`, whose unsigned order is the numeric order.
-/
namespace Anysystem

/-- A message: type tag and payload (code points). Mirrors `Message { tip, data }`. -/
structure Msg where
  tip : Nat
  data : List Nat
deriving DecidableEq, Repr, Inhabited

/-- lexicographic order on lists of naturals (mirrors `String`'s `Ord` on code points) -/
def listLt : List Nat → List Nat → Bool
  | [], [] => false
  | [], _ :: _ => true
  | _ :: _, [] => false
  | a :: as, b :: bs => a < b || (a == b && listLt as bs)

/-- `Message`'s derived `Ord`: `tip` first, then `data`. -/
def Msg.lt (a b : Msg) : Bool := a.tip < b.tip || (a.tip == b.tip && listLt a.data b.data)

/-- Mirrors `DeliveryOptions`. -/
inductive Opts where
  | noFail (maxDelay : Nat)
  | faults (canDrop : Bool) (dupl : Nat) (canCorrupt : Bool)
deriving DecidableEq, Repr, Inhabited

/-- Mirrors `McEvent`. -/
inductive Ev where
  | msg (m : Msg) (src dst : Nat) (o : Opts)
  | timer (proc name delay : Nat)
  | timerCancelled (proc name : Nat)
  | dropped (m : Msg) (src dst : Nat) (rid : Option Nat)
  | duplicated (m : Msg) (src dst : Nat) (rid : Nat)
  | corrupted (m cm : Msg) (src dst : Nat) (rid : Nat)
deriving DecidableEq, Repr, Inhabited

def Ev.isMsg : Ev → Bool
  | .msg .. => true
  | _ => false

def Ev.isTimer : Ev → Bool
  | .timer .. => true
  | _ => false

/-- Mirrors `EventOrderingMode`. -/
inductive Mode where
  | normal
  | messagesFirst
deriving DecidableEq, Repr, Inhabited

/-- Outcome of a mirrored Rust method that may `panic!`, `unwrap()` a `None` or trip an `assert!`. -/
abbrev R (α : Type) := Except String α

/-! ## Sorted sets and maps over `Nat` keys (stand-ins for `BTreeSet<usize>`, `BTreeMap<usize,_>`) -/

/-- insert into a strictly increasing list, keeping it so; no-op if present -/
def setInsert (x : Nat) : List Nat → List Nat
  | [] => [x]
  | y :: ys => if x < y then x :: y :: ys else if x = y then y :: ys else y :: setInsert x ys

def setErase (x : Nat) (l : List Nat) : List Nat := l.filter (· != x)

/-- insert or replace a key in a list kept sorted by `lt` (stand-in for `BTreeMap::insert`) -/
def amInsert {κ β : Type} [DecidableEq κ] (lt : κ → κ → Bool) (k : κ) (v : β) : List (κ × β) → List (κ × β)
  | [] => [(k, v)]
  | (k', v') :: rest =>
    if lt k k' then (k, v) :: (k', v') :: rest
    else if k = k' then (k, v) :: rest
    else (k', v') :: amInsert lt k v rest

def amGet? {κ β : Type} [DecidableEq κ] (k : κ) : List (κ × β) → Option β
  | [] => none
  | (k', v) :: rest => if k = k' then some v else amGet? k rest

def amErase {κ β : Type} [DecidableEq κ] (k : κ) (l : List (κ × β)) : List (κ × β) :=
  l.filter (fun e => !decide (e.1 = k))

def amHas {κ β : Type} [DecidableEq κ] (k : κ) (l : List (κ × β)) : Bool := l.any (fun e => decide (e.1 = k))

def natLt (a b : Nat) : Bool := a < b

def pairLt (a b : Nat × Nat) : Bool := a.1 < b.1 || (a.1 == b.1 && a.2 < b.2)

/-- order of the identical-message key `(Message, src, dst)` -/
def mkeyLt (a b : Msg × Nat × Nat) : Bool :=
  a.1.lt b.1 || (decide (a.1 = b.1) && pairLt a.2 b.2)

end Anysystem
