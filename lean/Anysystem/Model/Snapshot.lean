import Anysystem.Model.Sim
import Anysystem.Model.Strategy
/-!
# `ModelChecker::new`: the snapshot of a simulated system (`src/mc/model_checker.rs`), mirrored (as repaired:
crashed nodes stay crashed and disconnected, queued messages addressed to them are skipped, timers carry
their remaining time)
-/
namespace Anysystem

variable {σ T : Type} [TimeOps T]

/-- `McNetwork::new` + `disconnect_node` for crashed nodes. `bits` turns a time value into the
    order-isomorphic natural number the MC model stores for delays. -/
def snapshotNet (bits : T → Nat) (s : Sim σ T) : McNet :=
  let crashed := (s.nodes.filter (·.2.crashed)).map (·.1)
  let base : McNet :=
    { dropPos := TimeOps.lt TimeOps.zero s.net.dropRate,
      duplNonzero := TimeOps.lt TimeOps.zero s.net.duplRate || TimeOps.lt s.net.duplRate TimeOps.zero,
      corruptPos := TimeOps.lt TimeOps.zero s.net.corruptRate,
      dropIncoming := s.net.dropIncoming, dropOutgoing := s.net.dropOutgoing,
      disabledLinks := s.net.disabledLinks, procLoc := s.net.procLoc, maxDelay := bits s.net.maxDelay }
  crashed.foldl (fun n c => n.disconnectNode c) base

def snapshotNodes (s : Sim σ T) : List (Nat × McNode σ) :=
  s.nodes.map fun (n, nd) =>
    (n, { procs := nd.procs.map fun (p, e) =>
            (p, { st := e.st, log := e.log.map (·.ev), outbox := e.outbox, pending := e.pending.map (·.1),
                  sent := e.sent, recv := e.recv }),
          crashed := nd.crashed })

/-- the events of `dump_events` pushed in `(time, id)` order -/
def snapshotEvents (bits : T → Nat) (s : Sim σ T) (maxDelay : Nat) : R Store :=
  let crashed := (s.nodes.filter (·.2.crashed)).map (·.1)
  s.dumpEvents.foldl (fun r e => match r with
    | .error err => .error err
    | .ok st =>
      match e.data with
      | .msg _ m src _ dst dstNode =>
        if crashed.contains dstNode then .ok st
        else (st.push (.msg m src dst (.noFail maxDelay))).map (·.1)
      | .timer p name => (st.push (.timer p name (bits (TimeOps.sub e.time s.clock)))).map (·.1)) (.ok {})

/-- `ModelChecker::new(&sys)` -/
def snapshot (bits : T → Nat) (s : Sim σ T) : R (McSys σ) :=
  let net := snapshotNet bits s
  match snapshotEvents bits s net.maxDelay with
  | .error e => .error e
  | .ok events =>
    .ok { nodes := snapshotNodes s, net, events, depth := 0, mode := .normal,
          trace := (List.range s.trace.length).map LogE.sim }

end Anysystem
