import Anysystem.Model.Store
import Anysystem.Model.McNet
import Anysystem.Model.Prog
import Anysystem.Model.Corrupt
/-!
# `McNode` and `McSystem` (`src/mc/node.rs`, `src/mc/system.rs`), mirrored
-/
namespace Anysystem

/-- `ProcessEvent` as recorded in a process's event log -/
inductive PEv where
  | sent (m : Msg) (src dst : Nat)
  | recv (m : Msg) (src dst : Nat)
  | lsent (m : Msg)
  | lrecv (m : Msg)
  | tset (name delay : Nat) (once : Bool)
  | tfired (name : Nat)
  | tcancel (name : Nat)
deriving DecidableEq, Repr, Inhabited

/-- model-checking `LogEntry` constructors (entries inherited from a simulated prefix are `sim k`) -/
inductive LogE where
  | started
  | lsent (m : Msg) (p : Nat)
  | lrecv (m : Msg) (p : Nat)
  | sent (m : Msg) (s d : Nat)
  | recv (m : Msg) (s d : Nat)
  | dropped (m : Msg) (s d : Nat)
  | corrupted (m cm : Msg) (s d : Nat)
  | duplicated (m : Msg) (s d : Nat)
  | tset (p t : Nat)
  | tfired (p t : Nat)
  | tcancel (p t : Nat)
  | crashed (n : Nat)
  | sim (k : Nat)
deriving DecidableEq, Repr, Inhabited

/-- `McEvent::to_log_entry` -/
def Ev.toLog : Ev → LogE
  | .msg m s d _ => .recv m s d
  | .timer p t _ => .tfired p t
  | .timerCancelled p t => .tcancel p t
  | .dropped m s d _ => .dropped m s d
  | .duplicated m s d _ => .duplicated m s d
  | .corrupted m cm s d _ => .corrupted m cm s d

/-- Behaviour switches. `overrideLeavesOld = true` is the code as it is (finding D1: `set_timer` on a
    pending name leaves the old `TimerFired` event pending); `false` is the contract-conforming
    reference variant. `store` selects the pre-fix store variants. -/
structure Cfg where
  overrideLeavesOld : Bool := true
  store : Store.Variant := {}
deriving DecidableEq, Repr, Inhabited

/-- Mirrors `ProcessEntry` / `ProcessEntryState` (the process object is its state value). -/
structure ProcEntry (σ : Type) where
  st : σ
  log : List PEv := []
  outbox : List Msg := []
  pending : List Nat := []     -- names in `pending_timers` (sorted set)
  sent : Nat := 0
  recv : Nat := 0
deriving DecidableEq, Repr

structure McNode (σ : Type) where
  procs : List (Nat × ProcEntry σ) := []
  crashed : Bool := false
deriving DecidableEq, Repr

structure McSys (σ : Type) where
  nodes : List (Nat × McNode σ) := []
  net : McNet := {}
  events : Store := {}
  depth : Nat := 0
  mode : Mode := .normal
  trace : List LogE := []
deriving DecidableEq, Repr

variable {σ : Type}

/-- `handle_process_actions`: returns the entry, the new events and the trace entries, in order -/
def handleActions (cfg : Cfg) (proc : Nat) :
    List Action → ProcEntry σ → List Ev → List LogE → ProcEntry σ × List Ev × List LogE
  | [], e, evs, tr => (e, evs, tr)
  | a :: rest, e, evs, tr =>
    match a with
    | .send m dst =>
      handleActions cfg proc rest { e with log := e.log ++ [.sent m proc dst], sent := e.sent + 1 }
        (evs ++ [.msg m proc dst (.noFail 0)]) (tr ++ [.sent m proc dst])
    | .loc m =>
      handleActions cfg proc rest { e with log := e.log ++ [.lsent m], outbox := e.outbox ++ [m] }
        evs (tr ++ [.lsent m proc])
    | .set name delay once =>
      let e1 := { e with log := e.log ++ [.tset name delay once] }
      if !once || !e.pending.contains name then
        let cancelOld : List Ev :=
          if !cfg.overrideLeavesOld && e.pending.contains name then [.timerCancelled proc name] else []
        handleActions cfg proc rest { e1 with pending := setInsert name e.pending }
          (evs ++ cancelOld ++ [.timer proc name delay]) (tr ++ [.tset proc name])
      else handleActions cfg proc rest e1 evs tr
    | .cancel name =>
      let e1 := { e with log := e.log ++ [.tcancel name] }
      if e.pending.contains name then
        handleActions cfg proc rest { e1 with pending := setErase name e.pending }
          (evs ++ [.timerCancelled proc name]) (tr ++ [.tcancel proc name])
      else handleActions cfg proc rest e1 evs tr

namespace McNode

/-- the common part of the three `on_*` methods -/
def react (cfg : Cfg) (h : Handler σ) (n : McNode σ) (proc : Nat) (i : Input) :
    R (McNode σ × List Ev × List LogE) :=
  if n.crashed then .error "should not receive event on crashed node" else
  match amGet? proc n.procs with
  | none => .error "unknown process on node"
  | some e =>
    let e1 : ProcEntry σ := match i with
      | .msg m src => { e with log := e.log ++ [.recv m src proc], recv := e.recv + 1 }
      | .timer name => { e with pending := setErase name e.pending, log := e.log ++ [.tfired name] }
      | .loc _ => e
    let (st', acts) := h proc e1.st i
    let (e2, evs, tr) := handleActions cfg proc acts { e1 with st := st' } [] []
    .ok ({ n with procs := amInsert natLt proc e2 n.procs }, evs, tr)

end McNode

namespace McSys

def nodeOf (s : McSys σ) (name : Nat) : R (McNode σ) :=
  match amGet? name s.nodes with
  | some n => .ok n
  | none => .error "unknown node"

/-- is the node hosting the process crashed (`proc_node_is_crashed`) -/
def procCrashed (s : McSys σ) (p : Nat) : R Bool :=
  match s.net.procNode p with
  | .error e => .error e
  | .ok nd => match s.nodeOf nd with
    | .error e => .error e
    | .ok n => .ok n.crashed

/-- `add_events` -/
def addEvents (cfg : Cfg) : List Ev → McSys σ → R (McSys σ)
  | [], s => .ok s
  | ev :: rest, s =>
    let ev' : R Ev := match ev with
      | .msg m src dst _ =>
        match s.net.sendMessage m src dst with
        | .ok (.msg m' src' dst' o) =>
          -- messages from or to a crashed node are lost even after a network reset (repair D14)
          match s.procCrashed src', s.procCrashed dst' with
          | .ok a, .ok b => if a || b then .ok (.dropped m' src' dst' none) else .ok (.msg m' src' dst' o)
          | .error e, _ => .error e
          | _, .error e => .error e
        | r => r
      | e => .ok e
    match ev' with
    | .error e => .error e
    | .ok (.timerCancelled p t) =>
      match s.events.cancelTimer cfg.store p t with
      | .error e => .error e
      | .ok st => addEvents cfg rest { s with events := st }
    | .ok (.dropped m src dst rid) =>
      let st : R Store := match rid with
        | some id => (s.events.pop cfg.store id).map (·.1)
        | none => .ok s.events
      match st with
      | .error e => .error e
      | .ok st => addEvents cfg rest { s with events := st, trace := s.trace ++ [.dropped m src dst] }
    | .ok e =>
      match s.events.push e with
      | .error err => .error err
      | .ok (st, _) => addEvents cfg rest { s with events := st }

/-- `send_local_message` -/
def sendLocal (cfg : Cfg) (h : Handler σ) (s : McSys σ) (node proc : Nat) (m : Msg) : R (McSys σ) :=
  let s1 : McSys σ := { s with trace := s.trace ++ [LogE.lrecv m proc] }
  match s1.nodeOf node with
  | .error e => .error e
  | .ok n =>
    match n.react cfg h proc (.loc m) with
    | .error e => .error e
    | .ok (n', evs, tr) =>
      addEvents cfg evs { s1 with nodes := amInsert natLt node n' s1.nodes, trace := s1.trace ++ tr }

/-- `crash_node` (processes visited in name order, as repaired) -/
def crashNode (cfg : Cfg) (s : McSys σ) (node : Nat) : R (McSys σ) :=
  let s1 : McSys σ := { s with trace := s.trace ++ [LogE.crashed node], net := s.net.disconnectNode node }
  match s1.nodeOf node with
  | .error e => .error e
  | .ok n =>
    let rec go : List Nat → Store → List LogE → R (Store × List LogE)
      | [], st, tr => .ok (st, tr)
      | p :: ps, st, tr =>
        match st.cancelProcEvents cfg.store p with
        | .error e => .error e
        | .ok (st', dropped) => go ps st' (tr ++ dropped.map Ev.toLog)
    match go (n.procs.map (fun x => x.1)) s1.events [] with
    | .error e => .error e
    | .ok (st, tr) =>
      .ok { s1 with events := st, trace := s1.trace ++ tr,
                    nodes := amInsert natLt node { n with crashed := true } s1.nodes }

/-- `apply_event` -/
def applyEvent (cfg : Cfg) (h : Handler σ) (s : McSys σ) (ev : Ev) : R (McSys σ) :=
  let s1 : McSys σ := { s with depth := s.depth + 1, trace := s.trace ++ [ev.toLog] }
  let deliver (proc : Nat) (i : Input) : R (McSys σ) :=
    match s1.net.procNode proc with
    | .error e => .error e
    | .ok nd =>
      match s1.nodeOf nd with
      | .error e => .error e
      | .ok n =>
        match n.react cfg h proc i with
        | .error e => .error e
        | .ok (n', evs, tr) =>
          addEvents cfg evs { s1 with nodes := amInsert natLt nd n' s1.nodes, trace := s1.trace ++ tr }
  match ev with
  | .msg m src dst _ => deliver dst (.msg m src)
  | .timer p t _ => deliver p (.timer t)
  | _ => .ok s1

/-- `available_events` -/
def available (s : McSys σ) : R (List Nat) := s.events.availableEvents s.mode

/-! ### State identity (`McState`'s `Eq`/`Hash`) -/

/-- what `McState::eq`/`hash` look at: the pending-event store and, per node, the crash flag and per
    process its state and local outbox -/
structure ProcKey (σ : Type) where
  name : Nat
  st : σ
  outbox : List Msg
deriving DecidableEq, Repr

structure NodeKey (σ : Type) where
  name : Nat
  crashed : Bool
  procs : List (ProcKey σ)
deriving DecidableEq, Repr

structure Key (σ : Type) where
  events : Store
  nodes : List (NodeKey σ)
deriving DecidableEq, Repr

def key (s : McSys σ) : Key σ :=
  { events := s.events,
    nodes := s.nodes.map fun (n, nd) =>
      { name := n, crashed := nd.crashed, procs := nd.procs.map fun (p, e) => { name := p, st := e.st, outbox := e.outbox } } }

/-! ### `get_state` / `set_state` -/

/-- `McState`: everything `set_state` restores (the ordering mode is *not* part of it) -/
structure Snapshot (σ : Type) where
  nodeStates : List (Nat × McNode σ)
  net : McNet
  events : Store
  depth : Nat
  trace : List LogE

def getState (s : McSys σ) : Snapshot σ :=
  { nodeStates := s.nodes, net := s.net, events := s.events, depth := s.depth, trace := s.trace }

/-- `set_state`: per saved node, per saved process, overwrite the entry; then events, depth, net, trace -/
def setState (s : McSys σ) (snap : Snapshot σ) : McSys σ :=
  let nodes := snap.nodeStates.foldl (fun ns (name, saved) =>
    match amGet? name ns with
    | none => ns      -- `get_mut(&name).unwrap()` would panic; unreachable: node sets never change
    | some cur =>
      let procs := saved.procs.foldl (fun ps (p, e) => amInsert natLt p e ps) cur.procs
      amInsert natLt name { procs, crashed := saved.crashed } ns) s.nodes
  { s with nodes, events := snap.events, depth := snap.depth, net := snap.net, trace := snap.trace }

end McSys
end Anysystem
