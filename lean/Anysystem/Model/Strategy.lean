import Anysystem.Model.McSys
import Anysystem.Model.Search
/-!
# `Strategy::process_event` / `search_step` and `ModelChecker` (`src/mc/strategy.rs`, `model_checker.rs`)
-/
namespace Anysystem

/-- the alternatives `process_event` explores for one offered event, in its order -/
inductive Alt where
  | deliver (id : Nat)
  | drop (id : Nat)
  | corrupt (id : Nat)
  | dup (id : Nat)
deriving DecidableEq, Repr, Inhabited

variable {σ : Type}

namespace McSys

/-- `process_event`: which alternatives exist for event `id` -/
def alternatives (s : McSys σ) (id : Nat) : R (List Alt) :=
  match s.events.get id with
  | none => .error "process_event: offered id is not live"
  | some (.msg _ _ _ (.faults canDrop dupl canCorrupt)) =>
    .ok ([.deliver id] ++ (if canDrop then [.drop id] else []) ++ (if canCorrupt then [.corrupt id] else [])
          ++ (if dupl > 0 then [.dup id] else []))
  | some _ => .ok [.deliver id]

/-- `McEvent::duplicate` -/
def duplicateEv : Ev → Option Ev
  | .msg m s d (.faults a n c) => some (.msg m s d (.faults a (n - 1) c))
  | _ => none

/-- `McEvent::disable_duplications` -/
def disableDup : Ev → Ev
  | .msg m s d (.faults a _ c) => .msg m s d (.faults a 0 c)
  | e => e

/-- `search_step` up to and including `apply_event`: the successor state for one alternative -/
def applyAlt (cfg : Cfg) (h : Handler σ) (s : McSys σ) : Alt → R (McSys σ)
  | .deliver id =>
    match s.events.pop cfg.store id with
    | .error e => .error e
    | .ok (st, ev) => applyEvent cfg h { s with events := st } ev
  | .drop id =>
    match s.events.pop cfg.store id with
    | .error e => .error e
    | .ok (st, .msg m src dst _) => applyEvent cfg h { s with events := st } (.dropped m src dst (some id))
    | .ok _ => .error "drop of a non-message"
  | .corrupt id =>
    match s.events.pop cfg.store id with
    | .error e => .error e
    | .ok (st, .msg m src dst o) =>
      let cm := corruptMc m
      let o' := match o with
        | .faults a n _ => Opts.faults a n false
        | o => o
      match st.pushFixed (.msg cm src dst o') id with
      | .error e => .error e
      | .ok st' => applyEvent cfg h { s with events := st' } (.corrupted m cm src dst id)
    | .ok _ => .error "Unexpected event type"
  | .dup id =>
    match s.events.pop cfg.store id with
    | .error e => .error e
    | .ok (st, ev) =>
      match duplicateEv ev with
      | none => .error "duplicate of an event without failures"
      | some d =>
        match st.pushFixed d id with
        | .error e => .error e
        | .ok st1 =>
          match st1.push (disableDup ev) with
          | .error e => .error e
          | .ok (st2, _) =>
            match ev with
            | .msg m src dst _ => applyEvent cfg h { s with events := st2 } (.duplicated m src dst id)
            | _ => .error "duplicate of a non-message"

/-- all successor states, in exploration order: for each offered id (ascending), each alternative -/
def successors (cfg : Cfg) (h : Handler σ) (s : McSys σ) : R (List (McSys σ)) :=
  match s.available with
  | .error e => .error e
  | .ok ids =>
    let rec goAlts : List Alt → List (McSys σ) → R (List (McSys σ))
      | [], acc => .ok acc
      | a :: as, acc =>
        match applyAlt cfg h s a with
        | .error e => .error e
        | .ok s' => goAlts as (acc ++ [s'])
    let rec goIds : List Nat → List (McSys σ) → R (List (McSys σ))
      | [], acc => .ok acc
      | id :: rest, acc =>
        match s.alternatives id with
        | .error e => .error e
        | .ok alts =>
          match goAlts alts acc with
          | .error e => .error e
          | .ok acc' => goIds rest acc'
    goIds ids []

end McSys

/-- user predicates, as pure functions of the state (`StrategyConfig`) -/
structure Preds (σ : Type) where
  invariant : McSys σ → Option String := fun _ => none      -- `some msg` = broken
  goal : McSys σ → Option String := fun _ => none
  prune : McSys σ → Option String := fun _ => none
  collect : McSys σ → Bool := fun _ => false

/-- `check_state` after `collect`: invariant → goal → prune → dead end -/
def Preds.verdict (p : Preds σ) (s : McSys σ) : Verdict :=
  match p.invariant s with
  | some msg => .fail msg
  | none =>
    match p.goal s with
    | some st => .stop st
    | none =>
      match p.prune s with
      | some st => .stop st
      | none =>
        -- `state.events.is_empty()`
        if s.events.available.isEmpty then .fail "nothing left to do to reach the goal" else .cont

/-- the transition system the strategies explore -/
def mcTSys [DecidableEq σ] (cfg : Cfg) (h : Handler σ) (p : Preds σ) (hash : McSys.Key σ → Nat) :
    TSys (McSys σ) (McSys.Key σ) :=
  { succ := McSys.successors cfg h, key := McSys.key, verdict := p.verdict, collect := p.collect, hash }

/-- `ModelChecker::run_impl`: push `McStarted`, apply the callback, search, roll back (state and,
    as repaired, the ordering mode). Returns the result, the accumulated outcome and the rolled
    back system. -/
def runImpl [DecidableEq σ] (cfg : Cfg) (h : Handler σ) (p : Preds σ) (hash : McSys.Key σ → Nat)
    (strat : Strat) (fuel : Nat) (sys : McSys σ) (cb : McSys σ → R (McSys σ))
    (acc : Acc (McSys σ) (McSys.Key σ)) :
    Option (Res (McSys σ) × Acc (McSys σ) (McSys.Key σ) × McSys σ) :=
  let initial := sys.getState
  let initialMode := sys.mode
  let started : McSys σ := { sys with trace := sys.trace ++ [LogE.started] }
  match cb started with
  | .error e => some (.panic e, acc, sys)
  | .ok s₀ =>
    match search (mcTSys cfg h p hash) strat fuel s₀ acc with
    | none => none
    | some (r, acc') => some (r, acc', { (s₀.setState initial) with mode := initialMode })


/-- sum of two status tables (`McStats::combine`) -/
def combineStatuses (a b : List (String × Nat)) : List (String × Nat) :=
  b.foldl (fun m (k, n) =>
    if m.any (·.1 == k) then m.map (fun (x, c) => if x == k then (x, c + n) else (x, c)) else m ++ [(k, n)]) a

/-- union of collected sets by state identity (`HashSet<McState>::extend`) -/
def combineCollected {σ : Type} [DecidableEq σ] (a b : List (McSys σ)) : List (McSys σ) :=
  b.foldl (fun c x => if c.any (fun y => y.key = x.key) then c else c ++ [x]) a

/-- totals of a staged run -/
structure Totals (σ : Type) where
  evald : List (McSys σ) := []
  collected : List (McSys σ) := []
  statuses : List (String × Nat) := []

/-- `ModelChecker::run_from_states_with_change`, as repaired: one strategy (so one visited cache) over
    all start states, which the caller passes in the order the code visits them (sorted by depth,
    ties by state hash); per-run statistics are summed; the checker is restored to its initial state
    on every exit path. -/
def runFromStates [DecidableEq σ] (cfg : Cfg) (h : Handler σ) (p : Preds σ) (hash : McSys.Key σ → Nat)
    (strat : Strat) (fuel : Nat) (sys : McSys σ) (cb : McSys σ → R (McSys σ)) (mode : CacheMode)
    (starts : List (McSys.Snapshot σ)) : Option (Res (McSys σ) × Totals σ × McSys σ) :=
  let initial := sys.getState
  let rec go : List (McSys.Snapshot σ) → McSys σ → Cache (McSys.Key σ) → Totals σ →
      Option (Res (McSys σ) × Totals σ × McSys σ)
    | [], cur, _, tot => some (.ok, tot, cur.setState initial)
    | st :: rest, cur, cache, tot =>
      match runImpl cfg h p hash strat fuel (cur.setState st) cb { cache := cache } with
      | none => none
      | some (r, acc, cur') =>
        let tot' : Totals σ := { evald := tot.evald ++ acc.evald,
                                 collected := combineCollected tot.collected acc.collected,
                                 statuses := combineStatuses tot.statuses acc.statuses }
        match r with
        | .ok => go rest cur' acc.cache tot'
        | r => some (r, tot', cur'.setState initial)
  go starts sys { mode := mode } {}

end Anysystem
