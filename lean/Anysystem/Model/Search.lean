import Anysystem.Model.Basic
/-!
# Generic explicit-state search (`Strategy::search_step`, `Bfs::bfs`, `Dfs::dfs`), mirrored

The search is generic in the transition system: `succ` lists the successor states of a state in
exploration order (all alternatives of all offered events), `key` is what the visited cache
compares (`McState`'s `Eq`/`Hash`), `verdict` is `check_state` (collect → invariant → goal → prune →
dead end) and `collect` the collect predicate.  Loops take fuel (`none` = out of fuel).

Every run returns, besides its result and the cache, the list of states on which the predicates
were evaluated, in order (`evald`) – the same sequence a recording predicate observes on the
implementation – and the collected states.
-/
namespace Anysystem

inductive Verdict where
  | cont
  | stop (status : String)      -- goal reached or branch pruned
  | fail (msg : String)         -- invariant broken, or dead end
deriving DecidableEq, Repr, Inhabited

inductive CacheMode where
  | full
  | hashed
  | disabled
deriving DecidableEq, Repr, Inhabited

structure TSys (σ κ : Type) where
  succ : σ → R (List σ)
  key : σ → κ
  verdict : σ → Verdict
  collect : σ → Bool
  /-- the 64-bit hash the Partial cache stores -/
  hash : κ → Nat

inductive Res (σ : Type) where
  | ok
  | err (msg : String) (s : σ)
  | panic (msg : String)
deriving Repr

/-- visited cache: keys (Full), hashes (Partial) or nothing (Disabled) -/
structure Cache (κ : Type) where
  mode : CacheMode
  keys : List κ := []
  hashes : List Nat := []

variable {σ κ : Type} [DecidableEq κ]

def Cache.has (S : TSys σ κ) (c : Cache κ) (s : σ) : Bool :=
  match c.mode with
  | .full => c.keys.contains (S.key s)
  | .hashed => c.hashes.contains (S.hash (S.key s))
  | .disabled => false

def Cache.mark (S : TSys σ κ) (c : Cache κ) (s : σ) : Cache κ :=
  match c.mode with
  | .full => if c.keys.contains (S.key s) then c else { c with keys := S.key s :: c.keys }
  | .hashed => if c.hashes.contains (S.hash (S.key s)) then c else { c with hashes := S.hash (S.key s) :: c.hashes }
  | .disabled => c

/-- accumulated outcome of a run -/
structure Acc (σ κ : Type) where
  cache : Cache κ
  evald : List σ := []
  collected : List σ := []       -- deduplicated by key (it is a `HashSet<McState>`)
  statuses : List (String × Nat) := []

def bump (st : List (String × Nat)) (k : String) : List (String × Nat) :=
  if st.any (·.1 == k) then st.map (fun (a, n) => if a == k then (a, n + 1) else (a, n)) else st ++ [(k, 1)]

/-- `check_state`: record, collect, and classify -/
def Acc.check (S : TSys σ κ) (a : Acc σ κ) (s : σ) : Acc σ κ × Verdict :=
  let a1 := { a with evald := a.evald ++ [s],
                     collected := if S.collect s && !(a.collected.any (fun c => S.key c = S.key s))
                                  then a.collected ++ [s] else a.collected }
  match S.verdict s with
  | .stop status => ({ a1 with statuses := bump a1.statuses status }, .stop status)
  | v => (a1, v)

mutual
/-- `Dfs::dfs` on a state whose key is already marked -/
def dfs (S : TSys σ κ) : Nat → σ → Acc σ κ → Option (Res σ × Acc σ κ)
  | 0, _, _ => none
  | n + 1, s, a =>
    -- `available_events` is computed before `check_state`
    match S.succ s with
    | .error e => some (.panic e, a)
    | .ok children =>
      let (a1, v) := a.check S s
      match v with
      | .fail msg => some (.err msg s, a1)
      | .stop _ => some (.ok, a1)
      | .cont => dfsChildren S n children a1
/-- the `for event_id in available_events { process_event }` loop with `search_step` inlined -/
def dfsChildren (S : TSys σ κ) : Nat → List σ → Acc σ κ → Option (Res σ × Acc σ κ)
  | _, [], a => some (.ok, a)
  | 0, _ :: _, _ => none
  | n + 1, c :: cs, a =>
    if a.cache.has S c then dfsChildren S n cs a
    else
      match dfs S n c { a with cache := a.cache.mark S c } with
      | none => none
      | some (.ok, a') => dfsChildren S n cs a'
      | some (r, a') => some (r, a')
end

/-- BFS discovery of the children of one state -/
def bfsEnqueue (S : TSys σ κ) : List σ → List σ → Cache κ → List σ × Cache κ
  | [], q, c => (q, c)
  | x :: xs, q, c => if c.has S x then bfsEnqueue S xs q c else bfsEnqueue S xs (q ++ [x]) (c.mark S x)

/-- `Bfs::bfs`: predicates are evaluated when a state is dequeued -/
def bfsLoop (S : TSys σ κ) : Nat → List σ → Acc σ κ → Option (Res σ × Acc σ κ)
  | 0, _, _ => none
  | _ + 1, [], a => some (.ok, a)
  | n + 1, s :: q, a =>
    let (a1, v) := a.check S s
    match v with
    | .fail msg => some (.err msg s, a1)
    | .stop _ => bfsLoop S n q a1
    | .cont =>
      match S.succ s with
      | .error e => some (.panic e, a1)
      | .ok children =>
        let (q', c') := bfsEnqueue S children q a1.cache
        bfsLoop S n q' { a1 with cache := c' }

inductive Strat where
  | dfs
  | bfs
deriving DecidableEq, Repr, Inhabited

/-- `run_impl` after the callback: mark the start state, run the strategy -/
def search (S : TSys σ κ) (strat : Strat) (fuel : Nat) (s₀ : σ) (a : Acc σ κ) : Option (Res σ × Acc σ κ) :=
  let a0 := { a with cache := a.cache.mark S s₀ }
  match strat with
  | .dfs => dfs S fuel s₀ a0
  | .bfs => bfsLoop S fuel [s₀] a0

end Anysystem
