import Anysystem.Proofs.SimNetThms
import Anysystem.Proofs.SimQueueThms
import Anysystem.Proofs.SimLogThms
/-!
# C17 — Logs, event logs, counters and outboxes tell one consistent story

Theorems (partial): every send, whatever its fate, is logged exactly once with the next message id, bumps the id counter, and is counted as network traffic iff it crosses nodes (`send_logged_once`, `send_same_node`, `send_cut_dropped`); a send dropped at the source logs exactly one drop; counters and logs of a re-added process start empty. The whole-run consistency (counters = number of trace entries, event logs = projection of the trace, one fate per copy, `read_local_messages`) is judged by the monitor `vlib/sim_monitors.py` on the implementation's observations after every operation and by the bit-exact correspondence with the Lean simulator.
-/
namespace Anysystem

#check @Sim.send_logged_once
#check @Sim.send_same_node
#check @Sim.send_cut_dropped
#check @Sim.addProcess_fresh
#check @Sim.crashNode_cancels
#check @Sim.readNode_drains
#check @Sim.handleActions_loc_outbox
#check @Sim.handleActions_send_counts
#check @Sim.onMessage_counts
#check @Sim.handleActions_counts

end Anysystem
