import Anysystem.Proofs.SimNetThms
import Anysystem.Proofs.SimQueueThms
import Anysystem.Proofs.SimLogThms
import Anysystem.Proofs.SimTraceInv
import Anysystem.Proofs.SimTimeOrder
import Anysystem.Proofs.SimLogTimes
import Anysystem.Proofs.SimStepTimeout
/-!
# C17 — Logs, event logs, counters and outboxes tell one consistent story

Theorems (partial): every send, whatever its fate, is logged exactly once with the next message id, bumps the id counter, and is counted as network traffic iff it crosses nodes (`send_logged_once`, `send_same_node`, `send_cut_dropped`); a send dropped at the source logs exactly one drop; counters and logs of a re-added process start empty. The whole-run consistency (counters = number of trace entries, event logs = projection of the trace, one fate per copy, `read_local_messages`) is judged by the monitor `vlib/sim_monitors.py` on the implementation's observations after every operation and by the bit-exact correspondence with the Lean simulator.
-/
namespace Anysystem

#check @Sim.send_logged_once
#check @Sim.send_same_node
#check @Sim.send_cut_dropped
#check @Sim.addProcess_fresh
#check @Sim.crashNode_cancels
#check @Sim.readNode_drains
#check @Sim.handleActions_loc_outbox
#check @Sim.handleActions_send_counts
#check @Sim.onMessage_counts
#check @Sim.handleActions_counts

/- the global trace (whole-run invariant `TraceInv`): message identifiers are 0,1,2,… in order (unique, every send logged
   once), network_message_count / traffic equal what the trace says, every identifier with a fate or a live copy was
   issued, and fates + live copies of one identifier are at most 1 (at most 3 for a message sent while the duplication
   rate was positive); preserved by every operation; `single_fate_no_dupl` for whole runs -/
#check @Sim.TraceInv.init
#check @Sim.TraceInv.sent_ids_nodup
#check @Sim.TraceInv.sendMessage
#check @Sim.TraceInv.step
#check @Sim.TraceInv.steps
#check @Sim.TraceInv.sendLocal
#check @Sim.TraceInv.readLocal
#check @Sim.TraceInv.crashNode
#check @Sim.TraceInv.recoverNode
#check @Sim.TraceInv.addProcess
#check @Sim.TraceInv.frame
#check @Sim.single_fate_no_dupl

/- "with the right time": the times recorded in the global trace (`Proofs/SimTimeOrder.lean`) -/
#check @Sim.trace_times_sorted
#check @Sim.step_trace_times
#check @Sim.TraceTimeInv.steps
#check @Sim.TraceTimeInv.sendLocal
#check @Sim.TraceTimeInv.crashNode
#check @Sim.TraceTimeInv.readLocal

/- per-process event logs (`Proofs/SimLogTimes.lean`): `LogTimeInv` — the times of every process's event log are non-decreasing
   and never ahead of the clock — holds for a fresh process and is kept by every API call of the model; every entry a step
   appends to any event log carries the popped event's time, every entry `send_local_message` appends carries the current
   clock (`step_log_times`, `sendLocal_log_times`); no entry carries the skewed handler clock. -/
#check @Sim.LogTimeInv.step
#check @Sim.LogTimeInv.steps
#check @Sim.LogTimeInv.sendLocal
#check @Sim.LogTimeInv.crashNode
#check @Sim.LogTimeInv.recoverNode
#check @Sim.LogTimeInv.addProcess
#check @Sim.addProcess_fresh_log_times
#check @Sim.step_log_times
#check @Sim.sendLocal_log_times
#check @Sim.log_times_sorted

/- nothing is consumed without being returned: `step_until_local_message_timeout` (`Proofs/SimStepTimeout.lean`) -/
#check @Sim.stepUntilLocalTimeout_some_frame
#check @Sim.stepUntilLocalTimeout_none_keeps_outboxes

end Anysystem
