import Anysystem.Spec.StoreSpec
import Anysystem.Proofs.StoreRefine
/-!
# C20 — The pending-event store never loses, duplicates or wedges events

Statements only (plus one-line proofs from `Anysystem/Proofs/StoreRefine.lean`).  All theorems
quantify over *every* finite sequence of store operations that is legal in the sense of
`AStore.step` (push of a message/timer, re-insertion of a message under an old, non-live id, pop of
a live id, cancel_timer, cancel_proc_events) — no bound on length, ids, names, delays or payloads.
-/
namespace Anysystem

/-- Refinement (R1): on every legal operation sequence the mirrored store does not trip an
    assertion, returns exactly the abstract outputs, and ends in a state whose live events, offered
    set, timer mapping and id counter are those of the abstract store. -/
theorem C20_store_refines (ops : List Op) (a : AStore) (outs : List Out)
    (h : AStore.run {} ops = some (a, outs)) :
    ∃ s, Store.runOps {} {} ops = .ok (s, outs) ∧ Abs s a :=
  store_refines ops a outs h

/-- The offered set is exactly: every pending event with no earlier pending event that blocks it
    (identical message, or same-process timer with less-or-equal delay). -/
theorem C20_offered_exact (ops : List Op) (a : AStore) (outs : List Out)
    (h : AStore.run {} ops = some (a, outs)) (id : Nat) :
    id ∈ specOffered a.pending ↔
      ∃ pre e post, a.pending = pre ++ (id, e) :: post ∧ ∀ y ∈ pre, blocks y.2 e = false :=
  offered_exact ops a outs h id

/-- ... and this is what `available_events(mode)` returns, for both ordering modes, without
    tripping its assertion. -/
theorem C20_available_events (ops : List Op) (a : AStore) (outs : List Out)
    (h : AStore.run {} ops = some (a, outs)) (mode : Mode) :
    ∃ s l, Store.runOps {} {} ops = .ok (s, outs) ∧ s.availableEvents mode = .ok l ∧
      ∀ id, id ∈ l ↔ id ∈ specOfferedMode a.pending mode :=
  available_events_exact ops a outs h mode

/-- No wedge: whenever something is pending, something is offered. -/
theorem C20_no_wedge (ops : List Op) (a : AStore) (outs : List Out)
    (h : AStore.run {} ops = some (a, outs)) (hne : a.pending ≠ []) :
    specOffered a.pending ≠ [] :=
  no_wedge ops a outs h hne

/-- Progress: every pending event is offered after consuming at most `|pending|` offered events
    (explicit witness: the events inserted before it, oldest first). -/
theorem C20_progress (ops : List Op) (a : AStore) (outs : List Out)
    (h : AStore.run {} ops = some (a, outs)) (x : Nat × Ev) (hx : x ∈ a.pending) :
    ∃ ids A', ids.length ≤ a.pending.length ∧ x.1 ∉ ids ∧ popOffered a.pending ids = some A' ∧
      x.1 ∈ specOffered A' :=
  progress ops a outs h x hx

/-- Ids stay unique and below the fresh-id counter. -/
theorem C20_ids_unique (ops : List Op) (a : AStore) (outs : List Out)
    (h : AStore.run {} ops = some (a, outs)) :
    (a.pending.map (·.1)).Nodup ∧ ∀ x ∈ a.pending, x.1 < a.next :=
  ids_unique ops a outs h

/-- No resurrection: once an id has been consumed or cancelled it is not live again unless it is
    explicitly re-inserted (`ops₂` contains no `reinsert _ id`). -/
theorem C20_no_resurrection (ops₁ ops₂ : List Op) (a₁ a₂ : AStore) (o₁ o₂ : List Out) (id : Nat)
    (h₁ : AStore.run {} ops₁ = some (a₁, o₁)) (hdead : a₁.live id = false) (hold : id < a₁.next)
    (h₂ : a₁.run ops₂ = some (a₂, o₂)) (hno : ∀ e, Op.reinsert e id ∉ ops₂) :
    a₂.live id = false :=
  no_resurrection ops₁ ops₂ a₁ a₂ o₁ o₂ id h₁ hdead hold h₂ hno

/-! ## Non-vacuity and the pre-fix counterexamples (kernel-checked by `decide`) -/

def m0 : Msg := ⟨0, [1]⟩
def c20Example : List Op :=
  [.push (.msg m0 0 1 (.faults true 2 true)), .push (.msg m0 0 1 (.faults true 2 true)),
   .push (.timer 1 0 5), .push (.timer 1 1 3), .pop 0, .reinsert (.msg m0 0 1 (.faults true 1 true)) 0,
   .cancelProc 1]

/-- the hypotheses of the theorems above are met by a non-trivial history (two identical messages,
    a duplication re-insert behind the newer one, blocked timers, a process cancellation) -/
example : (AStore.run {} c20Example).isSome = true := by decide

/-- D8 (before the `fix:` commit): with "pop the front of the FIFO" the same history trips an
    internal `unwrap` or leaves a dead id in the offered set — the failing input of the repaired defect is a kernel-checked artefact. -/
theorem D8_prefix_violates :
    (AStore.run {} c20Example).isSome = true ∧ refinesOn { frontPop := true } c20Example = false ∧
    refinesOn {} c20Example = true := by decide

def d13Example : List Op := [.push (.timer 0 0 1), .pop 0, .cancelTimer 0 0]

/-- D13 (before its `fix:` commit): cancel_timer after the timer fired follows the stale mapping. -/
theorem D13_prefix_violates :
    (AStore.run {} d13Example).isSome = true ∧ refinesOn { staleCancelPanics := true } d13Example = false ∧
    refinesOn {} d13Example = true := by decide

end Anysystem
