import Anysystem.Proofs.SnapshotThms
import Anysystem.Props.C13
import Anysystem.Props.C03
import Anysystem.Proofs.R4
import Anysystem.Proofs.R5Main
import Anysystem.Proofs.R6Demo
/-!
# C04 — The simulator's own execution is always among the model-checked ones

PARTIAL. Proved: the event the simulator handles next is offered by the snapshot's store; snapshot timers are ordered exactly by real firing time and a later timer is withheld only behind timers that really fire no later (`C13_blocked_cannot_overtake`, which is where the snapshot delay must be the remaining time — D3); every reduced-enabled step of the reference semantics is explored (R2, override-free) and the search is exhaustive. Not yet a theorem: the simulation of the timed simulator by the reference semantics along whole executions (R4). That inclusion is checked on the implementation: after every snapshot the simulation is continued and every process-visible state it passes through must be among the states the checker evaluated.
-/
namespace Anysystem

#check @snapshot_first_offered
#check @snapshot_timers_in_firing_order
#check @snapshotSource_complete
#check @C13_blocked_cannot_overtake
#check @C13_every_reduced_step_explored_partial
#check @C03_ok_exhaustive_disabled
#check @C03_evaluated_reachable

/- R4 (partial: duplication and corruption rates zero — drop rate arbitrary —, no crash during the run): one simulator step that handles an event is a step of the
   reference semantics enabled in the *reduced* sense (so the model checker, complete for reduced steps by C13/R2,
   offers it), and the relation `TimedRel` between simulator and reference state is re-established; the relation holds
   for a quiet simulator state (`timedRel_of_quiet`), implies equality of the process-visible projection
   (`TimedRel.visible`), and the timer the simulator pops is never blocked in the reference state -/
#check @sim_step_refines_partial
#check @sim_step_refines_run
#check @timedRel_of_quiet
#check @TimedRel.visible
#check @popped_timer_unblocked
/- non-vacuity: a concrete `Sim Nat Ticks` state with a queued timer and message on which all hypotheses hold -/
#check @R4Demo.demo_hyps
#check @R4Demo.demo_step

/- **C04 end to end** (partial: duplication and corruption rates zero — drop rate arbitrary: a message the simulator drops at
   random when it is sent stays in flight in the reference state as a zombie —, no crash/recover after the snapshot, override-free program (D1), exact time
   arithmetic (D16), goal/prune only at states without pending events): after k further simulator steps the process-visible
   state of the simulation is that of a state an `Ok` exploration from the snapshot evaluated.  Chain: `timedRel_snapshot`,
   `snapshot_sim'`, then per step R4 + R2 completeness, finally R3 + C11 congruence + `key_covers`.  `demo_covered`: every
   hypothesis discharged on a concrete run (DFS and BFS). -/
#check @snapshot_sim'
#check @timedRel_snapshot
#check @sim_step_matched
#check @sim_run_covered_partial
#check @R5MainDemo.demo_covered
/- non-vacuity with a positive drop rate: a run in which a send is dropped at random -/
#check @R6Demo.drop_hyps
#check @R6Demo.drop_step
#check @R6Demo.drop_covered

end Anysystem
