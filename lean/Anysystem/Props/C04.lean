import Anysystem.Proofs.SnapshotThms
import Anysystem.Props.C13
import Anysystem.Props.C03
import Anysystem.Proofs.R4
import Anysystem.Proofs.R5Main
import Anysystem.Proofs.R6Demo
import Anysystem.Proofs.R7Demo
import Anysystem.Proofs.D17Witness
/-!
# C04 — The simulator's own execution is always among the model-checked ones

PARTIAL. Proved: the event the simulator handles next is offered by the snapshot's store; snapshot timers are ordered exactly by real firing time and a later timer is withheld only behind timers that really fire no later (`C13_blocked_cannot_overtake`, which is where the snapshot delay must be the remaining time — D3); every reduced-enabled step of the reference semantics is explored (R2, override-free) and the search is exhaustive. Not yet a theorem: the simulation of the timed simulator by the reference semantics along whole executions (R4). That inclusion is checked on the implementation: after every snapshot the simulation is continued and every process-visible state it passes through must be among the states the checker evaluated.
-/
namespace Anysystem

#check @snapshot_first_offered
#check @snapshot_timers_in_firing_order
#check @snapshotSource_complete
#check @C13_blocked_cannot_overtake
#check @C13_every_reduced_step_explored_partial
#check @C03_ok_exhaustive_disabled
#check @C03_evaluated_reachable

/- R4 (partial: duplication and corruption rates zero — drop rate arbitrary —, no crash during the run): one simulator step that handles an event is a step of the
   reference semantics enabled in the *reduced* sense (so the model checker, complete for reduced steps by C13/R2,
   offers it), and the relation `TimedRel` between simulator and reference state is re-established; the relation holds
   for a quiet simulator state (`timedRel_of_quiet`), implies equality of the process-visible projection
   (`TimedRel.visible`), and the timer the simulator pops is never blocked in the reference state -/
#check @sim_step_refines_partial
#check @sim_step_refines_run
#check @timedRel_of_quiet
#check @TimedRel.visible
#check @popped_timer_unblocked
/- non-vacuity: a concrete `Sim Nat Ticks` state with a queued timer and message on which all hypotheses hold -/
#check @R4Demo.demo_hyps
#check @R4Demo.demo_step

/- **C04 end to end** (partial: duplication and corruption rates zero — drop rate arbitrary: a message the simulator drops at
   random when it is sent stays in flight in the reference state as a zombie —, no crash/recover after the snapshot, override-free program (D1), exact time
   arithmetic (D16), goal/prune only at states without pending events): after k further simulator steps the process-visible
   state of the simulation is that of a state an `Ok` exploration from the snapshot evaluated.  Chain: `timedRel_snapshot`,
   `snapshot_sim'`, then per step R4 + R2 completeness, finally R3 + C11 congruence + `key_covers`.  `demo_covered`: every
   hypothesis discharged on a concrete run (DFS and BFS). -/
#check @snapshot_sim'
#check @timedRel_snapshot
#check @sim_step_matched
#check @sim_run_covered_partial
#check @R5MainDemo.demo_covered
/- non-vacuity with a positive drop rate: a run in which a send is dropped at random -/
#check @R6Demo.drop_hyps
#check @R6Demo.drop_step
#check @R6Demo.drop_covered

/- R7: the same chain for ARBITRARY drop, duplication and corruption rates (`Proofs/R7*.lean`).  `TimedRelF` is `TimedRel`
   without the restriction on the rates (`TimedRel.toF`); one simulator step is a reference run of one deliver/fire label
   followed by at most three fault labels per send of the handler call (`sim_step_refines_fates`: the copies the simulator
   queued for a send — `SendFate`, up to three, intact or corrupted — are what `fatePathMid` makes of the flight the
   reference `send` created, `fates_covered`); every label, fault labels included, is matched by a checker expansion
   (`r7_run_matched`, via `alternatives_complete'`); hence `sim_run_covered_fates`: C04 end to end for arbitrary rates.
   Additional hypothesis `FreshSendsFrom`: when the network can duplicate or corrupt, a handler never sends a message
   whose (message, sender, receiver) triple — or that of its corruption — is already in the air (messages carrying
   sequence numbers satisfy it: `freshSend_of_tip`, `R7Demo.fateH_fresh`); `fate_needs_fresh` (C12) shows that without it
   fault labels alone do not reach every fate (behind an identical older flight the faults of the new one have to wait
   for deliveries in between).  `R7Demo.fates_covered_demo`: every hypothesis discharged on a concrete run in which the
   simulator corrupts and duplicates a message after the snapshot (DFS and BFS). -/
#check @TimedRel.toF
#check @fate_covered_mid
#check @fates_covered
#check @sim_step_refines_fates
#check @timedRelF_snapshot
#check @sim_step_matched_fates
#check @sim_run_covered_fates
#check @freshSend_of_tip
#check @R7Demo.fateH_fresh
#check @R7Demo.fate_step
#check @R7Demo.fates_covered_demo


/- finding D17 (kernel-checked witness, `Proofs/D17Witness.lean`): without `FreshSendsFrom` the statement is false of the model —
   and of the real code, where the same scenario was run (`corpus/snap/D17_identical_inflight_blocks_corruption.txt`).  An
   identical message in flight at the snapshot (`noFail`) blocks the later identical message (corruptible) in the checker's
   FIFO of identical messages; the exploration from the snapshot ends `Ok` (DFS and BFS) without ever evaluating the state in
   which the corrupted newer copy was received first, which the simulator reaches after two steps.  `D17_only_freshness_missing`:
   every other hypothesis of `sim_run_covered_fates` holds on this instance. -/
#check @D17.D17_witness
#check @D17.D17_uncovered
#check @D17.D17_uncovered3
#check @D17.D17_not_fresh
#check @D17.D17_blocked
#check @D17.D17_only_freshness_missing

end Anysystem
