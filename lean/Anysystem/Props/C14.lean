import Anysystem.Proofs.McMisc
/-!
# C14 — Crashing a node in model checking silences it on every path

`Sim.crashNode'` (R2): `McSystem::crash_node` refines the reference crash — all pending messages from
or to the node's processes and all their timers are removed, the trace gains `crashed` plus one
`dropped` entry per lost message (in some order), the node is disconnected and flagged; the relation
`Sim'` (which contains "nothing is pending from, to or on a crashed node") is re-established and then
kept by every step (`applyAlt_refines'`), so no explored path delivers to those processes.
-/
namespace Anysystem

/- the model checker's crash is the reference crash (store survives `cancel_proc_events` in every
    related configuration — D8) -/
#check @Sim.crashNode'
/- after the crash nothing is pending from, to or on the node -/
#check @crashNode_no_pending
/- pending events of other nodes, and all processes, are untouched -/
#check @crashNode_others_untouched
/- no step delivers a message or timer to a process of a crashed node -/
#check @crashed_never_handles
/- a later send from or to the node is lost unconditionally (also after a network reset — D14) -/
#check @send_touching_crashed_dropped
/- the relation (incl. "nothing pending on crashed nodes") is kept by every explored step -/
#check @applyAlt_refines'

end Anysystem
