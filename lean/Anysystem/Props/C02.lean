import Anysystem.Proofs.R2
import Anysystem.Proofs.SearchThms
/-!
# C02 — Every model-checked path is a genuine execution

Reference: `Anysystem/Spec/RefSpec.lean` (one pending message or timer is consumed per step, the
handler reacts, only permitted faults are applied; timer contract built in).  Relation between a
checker state and a reference state: `Sim'` (`Anysystem/Proofs/R2Sim.lean`): same process states and
outboxes, same crash flags, the in-flight messages with their remaining fault options and the pending
timers are exactly the pending events (in insertion order), same network settings, **same trace**.

`…_partial`: finding D1 (`set_timer` on a pending name leaves the old event pending in the code)
makes the full statement false; the theorems hold for paths whose reference run is override-free
(`overrideFreeRun`), the witness of the failure is `C07_D1_witness` (Props/C07.lean), and the check
recognises exactly this mechanism as the known finding.
-/
namespace Anysystem

variable {σ : Type}

/-- the start of an exploration: a system with nothing pending is related to the reference state
    with the same processes; `send_local_message`, `crash_node`, network settings and the ordering
    mode applied by the preliminary callback keep the relation (`Sim.sendLocal'`, `Sim.crashNode'`,
    `Sim.setNet'`, `Sim.setMode'`) -/
theorem C02_initial_related (s : McSys σ) (ht : WFTopo s) (hsrt : SortedTopo s) (he : s.events = {})
    (hp : ∀ nd ∈ s.nodes, ∀ pe ∈ nd.2.procs, pe.2.pending = []) (hc : ∀ nd ∈ s.nodes, nd.2.crashed = false) :
    Sim' s { procs := procsOf s, net := s.net, trace := s.trace } :=
  Sim.init' s ht hsrt he hp hc

theorem C02_callback_local (h : Handler σ) {s s' : McSys σ} {r : RState σ} (hs : Sim' s r) (node p : Nat) (m : Msg)
    (hnode : amGet? p s.net.procLoc = some node) (hok : s.sendLocal {} h node p m = .ok s')
    (hof : ∀ e, amGet? p r.procs = some e →
      RState.overrideFreeActs { r with trace := r.trace ++ [LogE.lrecv m p] } p (h p e.st (.loc m)).2 = true) :
    ∃ r', r.sendLocal h p m = some r' ∧ Sim' s' r' :=
  Sim.sendLocal' h hs node p m hnode hok hof

theorem C02_callback_crash {s s' : McSys σ} {r : RState σ} (hs : Sim' s r) (node : Nat)
    (hok : s.crashNode {} node = .ok s') :
    ∃ order, order.Perm (r.lostOnCrash node) ∧ Sim' s' (r.crashNode node order) :=
  Sim.crashNode' hs node hok

/-- one step (soundness half of R2): every alternative the checker applies to an offered event is a
    reduced-enabled step of the reference semantics, and the successors are related again -/
theorem C02_step_genuine_partial (h : Handler σ) {s s' : McSys σ} {r : RState σ} (hs : Sim' s r)
    {ids : List Nat} {id : Nat} {alts : List Alt} {alt : Alt}
    (hav : s.available = .ok ids) (hid : id ∈ ids) (halts : s.alternatives id = .ok alts) (halt : alt ∈ alts)
    (hok : s.applyAlt {} h alt = .ok s') :
    ∃ l, r.enabledRed s.mode l = true ∧ (r.overrideFree h l = true → ∃ r', r.step h l = some r' ∧ Sim' s' r') :=
  applyAlt_refines' h hs hav hid halts halt hok

/-- whole paths: the state reached by the checker along any path is the state reached by replaying
    the path in the reference semantics — process states, outboxes, pending messages with their
    options, pending timers and the trace (they are all part of `Sim'`) -/
theorem C02_path_genuine_partial (h : Handler σ) {s₀ s : McSys σ} {r₀ : RState σ} {alts : List Alt}
    (hs : Sim' s₀ r₀) (hp : McPath h s₀ alts s) :
    ∃ ls, ls.length = alts.length ∧
      (overrideFreeRun h r₀ ls = true → ∃ r, refRun h s₀.mode r₀ ls = some r ∧ Sim' s r) :=
  mc_path_sound_partial' h hs hp

/-- the states handed to predicates, returned in errors and collected are reached by paths: every
    evaluated state is reachable through expanded states, whose successor lists consist exactly of the
    results of alternatives of offered events -/
theorem C02_evaluated_on_paths [DecidableEq σ] (h : Handler σ) (p : Preds σ) (hash : McSys.Key σ → Nat)
    (strat : Strat) (mode : CacheMode) (fuel : Nat) (s₀ : McSys σ) (r : Res (McSys σ))
    (a : Acc (McSys σ) (McSys.Key σ))
    (hrun : search (mcTSys {} h p hash) strat fuel s₀ (Acc.fresh mode) = some (r, a)) :
    (∀ e ∈ a.evald, ReachC (mcTSys {} h p hash) s₀ e) ∧ (∀ c ∈ a.collected, c ∈ a.evald) ∧
    (∀ msg e, r = .err msg e → e ∈ a.evald) := by
  refine ⟨search_evald_reachable _ strat mode fuel s₀ r a hrun, ?_, ?_⟩
  · intro c hc; exact ((search_collected_exact _ strat mode fuel s₀ r a hrun).1 c hc).1
  · intro msg e hr; subst hr; exact (search_err_genuine _ strat mode fuel s₀ e msg a hrun).1

theorem C02_successors_are_alternatives (h : Handler σ) {s : McSys σ} {cs : List (McSys σ)}
    (hsucc : s.successors {} h = .ok cs) (c : McSys σ) :
    c ∈ cs ↔ ∃ ids id alts alt, s.available = .ok ids ∧ id ∈ ids ∧ s.alternatives id = .ok alts ∧ alt ∈ alts ∧
      s.applyAlt {} h alt = .ok c :=
  mem_successors_iff h hsucc c

end Anysystem
