import Anysystem.Proofs.SimQueueThms
import Anysystem.Proofs.SimNetThms
import Anysystem.Proofs.SimStepThms
import Anysystem.Proofs.SimStepFns
/-!
# C06 — Simulated time: delays, ordering, clocks and stepping are exact

Statements and proofs: `Anysystem/Proofs/SimQueueThms.lean`: `next_event` returns the live event minimal in (time, creation id), moves the clock there and never returns a cancelled event; an event queued with delay d at clock t is stamped t + d; with non-negative delays nothing is ever queued in the past, so handled times never decrease; `steps` handles events one by one and stops exactly when the queue runs dry; `step` returns false iff nothing live is queued; `step_for_duration` leaves the clock at t₀ + d. Arrival-time bounds and zero delay inside a node: `send_copies`, `send_same_node`. The remaining stepping calls (`step_until_local_message[_max_steps]`), clock skew and bit-exact f64 times are carried by the correspondence runs.
-/
namespace Anysystem

#check @Sim.nextEvent_some
#check @Sim.nextEvent_none
#check @Sim.addEvent_time
#check @Sim.addEvent_keeps
#check @Sim.nextEvent_keeps
#check @Sim.steps_zero
#check @Sim.steps_succ
#check @Sim.step_false_iff
#check @Sim.stepUntilTime_clock
#check @Sim.send_copies
#check @Sim.send_same_node
/- run-level stepping: a `false` step means the queue is empty; `step_until_no_events` ends with an empty queue -/
#check @Sim.step_false_events
#check @Sim.stepUntilNoEvents_spec
#check @Sim.stepUntilLocalMax_immediate

/- the stepping functions expressed through `steps`: they perform exactly k event-finding steps, their stop condition did not
   hold before (outbox empty / every handled event due no later than the end time), it holds at the end, and the clock is
   where documented -/
#check @Sim.stepUntilLocal_some
#check @Sim.stepUntilLocal_none
#check @Sim.stepUntilLocalMax_some
#check @Sim.stepUntilLocalMax_none
#check @Sim.stepUntilTime_spec
#check @Sim.stepForDuration_steps
#check @Sim.stepForDuration_spec

end Anysystem
