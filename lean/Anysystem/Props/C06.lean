import Anysystem.Proofs.SimQueueThms
import Anysystem.Proofs.SimNetThms
import Anysystem.Proofs.SimStepThms
import Anysystem.Proofs.SimStepFns
import Anysystem.Proofs.SimTimeOrder
import Anysystem.Proofs.SimLogTimes
import Anysystem.Proofs.SimStepTimeout
/-!
# C06 — Simulated time: delays, ordering, clocks and stepping are exact

Statements and proofs: `Anysystem/Proofs/SimQueueThms.lean`: `next_event` returns the live event minimal in (time, creation id), moves the clock there and never returns a cancelled event; an event queued with delay d at clock t is stamped t + d; with non-negative delays nothing is ever queued in the past, so handled times never decrease; `steps` handles events one by one and stops exactly when the queue runs dry; `step` returns false iff nothing live is queued; `step_for_duration` leaves the clock at t₀ + d. Arrival-time bounds and zero delay inside a node: `send_copies`, `send_same_node`. The remaining stepping calls (`step_until_local_message[_max_steps]`), clock skew and bit-exact f64 times are carried by the correspondence runs.
-/
namespace Anysystem

#check @Sim.nextEvent_some
#check @Sim.nextEvent_none
#check @Sim.addEvent_time
#check @Sim.addEvent_keeps
#check @Sim.nextEvent_keeps
#check @Sim.steps_zero
#check @Sim.steps_succ
#check @Sim.step_false_iff
#check @Sim.stepUntilTime_clock
#check @Sim.send_copies
#check @Sim.send_same_node
/- run-level stepping: a `false` step means the queue is empty; `step_until_no_events` ends with an empty queue -/
#check @Sim.step_false_events
#check @Sim.stepUntilNoEvents_spec
#check @Sim.stepUntilLocalMax_immediate

/- the stepping functions expressed through `steps`: they perform exactly k event-finding steps, their stop condition did not
   hold before (outbox empty / every handled event due no later than the end time), it holds at the end, and the clock is
   where documented -/
#check @Sim.stepUntilLocal_some
#check @Sim.stepUntilLocal_none
#check @Sim.stepUntilLocalMax_some
#check @Sim.stepUntilLocalMax_none
#check @Sim.stepUntilTime_spec
#check @Sim.stepForDuration_steps
#check @Sim.stepForDuration_spec

/- whole runs, time order (`Proofs/SimTimeOrder.lean`): `popSeq h k s` is the list of (time, id) of the events `steps h k` pops
   (events addressed to a node without handler included); under `TimeWF` (queue well formed, clock ≤ every queued time, delay
   bounds ordered, lawful draws) and non-negative timer delays it is STRICTLY increasing in the lexicographic order (time, id):
   events are handled in non-decreasing time order with ties in creation order, and none twice; the clock never decreases and
   equals the time of the last event popped; every entry a step writes into the global trace carries the popped event's time,
   so the times of the trace are non-decreasing and never ahead of the clock (`TraceTimeInv`, kept by every API call of the
   model: steps, local messages, crash, recovery, adding nodes/processes, reading outboxes, skews, all network settings).  No
   trace entry carries a skewed time: the skew only enters the clock value handed to the handler (`runHandler_clock`). -/
#check @Sim.popSeq_sorted
#check @Sim.pop_times_nondecreasing
#check @Sim.pop_ties_in_creation_order
#check @Sim.popSeq_ids_nodup
#check @Sim.step_creates_later
#check @Sim.clock_monotone
#check @Sim.step_clock_eq_pop
#check @Sim.steps_clock_eq_last_pop
#check @Sim.TimeWF.steps
#check @Sim.TimeWF.sendLocal
#check @Sim.TimeWF.crashNode
#check @Sim.TimeWF.recoverNode
#check @Sim.trace_times_sorted
#check @Sim.step_trace_times
#check @Sim.TraceTimeInv.sendLocal
#check @Sim.TraceTimeInv.crashNode
#check @SimTimeOrderDemo.s0_wf

/- the time-bounded stepping functions in the same framework (`Proofs/SimLogTimes.lean`): `step_until_time` /
   `step_for_duration` pop exactly the events up to the bound (`stepUntilTime_pops`: every popped event is at or before it, the
   next live event is after it, the clock ends at the bound), and keep the three invariants (`TimeInvs`) provided the bound is
   not in the past — `backwards_breaks` is the kernel-checked witness that a bound before the clock moves the clock backwards
   (the model, like the library, sets it unconditionally); `step_until_no_events` and `step_until_local_message[_max_steps]`
   keep them as iterations of `step`. -/
#check @Sim.stepUntilTime_pops
#check @Sim.stepForDuration_pops
#check @Sim.TimeInvs.stepUntilTime
#check @Sim.TimeInvs.stepForDuration
#check @Sim.TimeInvs.stepUntilNoEvents
#check @Sim.TimeInvs.stepUntilLocal
#check @Sim.TimeInvs.stepUntilLocalMax
#check @SimLogTimesDemo.backwards_breaks
#check @SimLogTimesDemo.runAll_invs

/- `step_until_local_message_timeout` (`Proofs/SimStepTimeout.lean`; the deadline is simulation time): the run is k successful
   steps during which the process's outbox was empty and the clock before the deadline at every read; it returns the non-empty
   outbox (cleared, nothing else changed) while the clock is before the deadline, and otherwise gives up — either because the
   deadline has been reached (then NOTHING is read or cleared: every process's outbox is what it was after the last step) or
   because no event is left; the clock is never set to the deadline (it can overshoot by the step that crossed it) and never
   decreases; the invariants `TimeInvs`, `LogInv`, `TraceInv` are kept. -/
#check @Sim.stepUntilLocalTimeout_some
#check @Sim.stepUntilLocalTimeout_some_frame
#check @Sim.stepUntilLocalTimeout_none
#check @Sim.stepUntilLocalTimeout_none_keeps_outboxes
#check @Sim.stepUntilLocalTimeout_expired
#check @Sim.stepUntilLocalTimeout_clock_le
#check @Sim.stepUntilLocalTimeout_none_deadline
#check @Sim.TimeInvs.stepUntilLocalTimeout
#check @Sim.LogInv.stepUntilLocalTimeout
#check @Sim.TraceInv.stepUntilLocalTimeout
#check @SimStepTimeoutDemo.gives_up_past_deadline
#check @SimStepTimeoutDemo.then_read_returns_it

end Anysystem
