import Anysystem.Proofs.McMisc
import Anysystem.Model.Time
import Anysystem.Proofs.SimFates
/-!
# C12 — The checker explores exactly the permitted network fates, as the simulator

Statements and proofs: `Anysystem/Proofs/McMisc.lean`, section C12.
-/
namespace Anysystem

/- same node ⇒ reliable; cut (sender's outgoing, receiver's incoming, directed link) ⇒ unconditional
    loss and nothing pending; otherwise `PossibleFailures {drop_rate > 0, dupl_rate ≠ 0 ? 2 : 0, corrupt_rate > 0}` -/
#check @sendMessage_classification
/- delivery always; loss iff `can_be_dropped`; corruption iff `can_be_corrupted`; duplication iff the
    budget is positive; nothing else -/
#check @alternatives_iff_options
#check @alternatives_timer
/- duplicates: faults never increase the number of copies still deliverable, a delivery uses one -/
#check @fault_step_potential
#check @deliver_uses_potential
#check @dup_inherits
/- corruption at most once per copy -/
#check @corrupt_once
/- the corrupted payload is the simulator's -/
#check @corrupt_fns_equal
#check @corruptData_no_quote
#check @corruptData_not_idem

/- "as the simulator", one send, arbitrary drop / duplication / corruption rates (`Proofs/SimFates.lean`): the complete
    characterisation of what `Network::send_message` queues for a cross-node send (`SendFate`: `k ≤ 3` copies of the intact or
    corrupted payload, `k = 0` iff random drop or cut path, each fault only under a positive rate), and every such fate is a path
    of at most three reduced-enabled fault labels (`drop` | `corrupt`? then `dup`*) of the reference semantics from the single
    flight the reference `send` creates with the options `McNetwork::send_message` computes; freshness (no identical flight in
    the air) is necessary for a *fault-only* path (`fate_needs_fresh`: behind an identical older flight the faults of the new one
    wait until the older one is consumed) -/
#check @sendMessage_fate
#check @SendFate.addedKeys
#check @fate_covered
#check @fate_covered_perm
#check @send_fate_refines
#check @send_fate_keeps_flights
#check @fate_needs_fresh
#check @SimFatesDemo.demo_refines
#check @SimFatesDemo.demo_witness

/-- the maximum number of copies is the simulator's: budget 2 means at most 3 deliveries, and the
    simulator emits `⌈2r⌉ + 1 ∈ {1,2,3}` copies for a draw `0 ≤ r < 1` (ticks out of 1000 here) -/
theorem C12_copies_equal : DUPL_COUNT + 1 = 3 ∧ ∀ r : Ticks, r.n < 1000 → TimeOps.copies r ≤ 3 ∧ 1 ≤ TimeOps.copies r := by
  refine ⟨rfl, ?_⟩
  intro r hr
  show (r.n * 2 + 999) / 1000 + 1 ≤ 3 ∧ 1 ≤ (r.n * 2 + 999) / 1000 + 1
  omega

/-- one send with the full budget can be delivered at most three times -/
example : (⟨⟨0, []⟩, 0, 1, .faults true DUPL_COUNT true⟩ : Flight).potential = 3 := rfl

end Anysystem
