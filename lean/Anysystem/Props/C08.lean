import Anysystem.Proofs.SimQueueThms
/-!
# C08 — A crash isolates a node and recovery starts clean (simulation)

Statements and proofs: `Anysystem/Proofs/SimQueueThms.lean`: after `crash_node n` every queued event from or to n is cancelled, n has no handler and is flagged; other nodes, their events, the clock and the network are untouched; a cancelled event is never returned by `next_event` (also after recovery: ids are never reused); an event addressed to a node without handler is discarded; recovery clears the processes and restores the handler, a re-added process starts with fresh state, log, outbox, timers and counters.
-/
namespace Anysystem

#check @Sim.crashNode_cancels
#check @Sim.crashNode_frame
#check @Sim.cancelled_never_returned
#check @Sim.deliver_no_handler
#check @Sim.recoverNode_fresh
#check @Sim.addProcess_fresh
#check @Sim.nextEvent_some

end Anysystem
