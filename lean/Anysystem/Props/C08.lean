import Anysystem.Proofs.SimQueueThms
import Anysystem.Proofs.SimRunThms
import Anysystem.Proofs.SimWholeRun
/-!
# C08 — A crash isolates a node and recovery starts clean (simulation)

Statements and proofs: `Anysystem/Proofs/SimQueueThms.lean`: after `crash_node n` every queued event from or to n is cancelled, n has no handler and is flagged; other nodes, their events, the clock and the network are untouched; a cancelled event is never returned by `next_event` (also after recovery: ids are never reused); an event addressed to a node without handler is discarded; recovery clears the processes and restores the handler, a re-added process starts with fresh state, log, outbox, timers and counters.
-/
namespace Anysystem

#check @Sim.crashNode_cancels
#check @Sim.crashNode_frame
#check @Sim.cancelled_never_returned
#check @Sim.deliver_no_handler
#check @Sim.recoverNode_fresh
#check @Sim.addProcess_fresh
#check @Sim.nextEvent_some

/- whole runs: while a node has no handler (from crash_node until recover_node) no step records a handler invocation on it
   and its processes do not change; send_local_message to it is refused -/
#check @Sim.crashNode_no_handler
#check @Sim.step_crashed_silent
#check @Sim.steps_crashed_silent
#check @Sim.sendLocal_crashed_refused

/- whole runs: what a crash discards stays discarded — the events from and to the node that are queued at crash time are never
   popped for delivery afterwards (not after recovery, not after re-adding processes), their ids are never issued again -/
#check @Sim.crashNode_dead
#check @Sim.DeadIds.never_popped
#check @Sim.DeadIds.step
#check @Sim.DeadIds.steps
#check @Sim.DeadIds.sendLocal
#check @Sim.DeadIds.recoverNode
#check @Sim.DeadIds.addProcess
#check @Sim.DeadIds.crashNode

end Anysystem
