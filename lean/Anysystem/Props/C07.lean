import Anysystem.Proofs.TimerContract
import Anysystem.Proofs.TimerWitness
import Anysystem.Proofs.SimStepThms
import Anysystem.Proofs.SimWholeRun
/-!
# C07 — The timer API contract holds identically in simulation and model checking

The contract is the acceptor `timerContractOk` (`Anysystem/Spec/Monitors.lean`): per process and name
at most one pending timer; `set_timer` replaces (the old instance never fires), `set_timer_once` is
ignored while pending, `cancel_timer` prevents the firing, names are reusable, every instance fires
at most once.  The reference semantics satisfies it by construction and every step keeps "at most one
pending timer per (process, name)".  The statements (with their proofs) are in
`Anysystem/Proofs/TimerContract.lean`; the kernel-checked witnesses in `Anysystem/Proofs/TimerWitness.lean`.

* model checker, **partial**: along every path whose reference run is override-free the trace
  satisfies the contract (`mc_timer_contract_partial`);
* finding D1: the unrestricted statement is false for the code as it is (`C07_D1_witness`: two
  `set_timer` on one name in one handler, both events fire) and true for the contract-conforming
  variant (`C07_reference_variant_ok`);
* simulator: `Anysystem/Props/C07Sim.lean` (the simulator cancels the old event on override).
-/
namespace Anysystem

/- every step of the reference semantics is accepted by the timer contract and keeps its pending set -/
#check @step_timerContract
/- the same along whole runs -/
#check @refRun_timerContract
/- `send_local_message` in the callback -/
#check @sendLocal_timerContract
/- at most one pending timer per (process, name) is an invariant of the reference semantics -/
#check @RState.step_timersUnique
/- model checker (partial: OverrideFree, finding D1) -/
#check @mc_timer_contract_partial
/- D1: the code as it is violates the contract on a concrete path (kernel-checked) -/
#check @TimerWitness.C07_D1_witness
#check @TimerWitness.C07_D1_witness_path
/- the contract-conforming variant of the same handler satisfies it -/
#check @TimerWitness.C07_reference_variant_ok
/- the simulator's `Context` calls, per call: set queues clock+delay and records the name; override cancels the old
   event and queues a new one; `set_timer_once` on a pending name is ignored; cancel cancels and forgets -/
#check @Sim.handleActions_set_timer
#check @Sim.handleActions_override_timer
#check @Sim.handleActions_once_ignored
#check @Sim.handleActions_cancel_timer

/- simulator, whole runs: queue, `pending` tables and event logs fit together (`TimerInv`, preserved by every operation incl.
   crash / recover / re-add), hence no process's event log ever contains a firing the timer contract forbids -/
#check @Sim.TimerInv.init
#check @Sim.TimerInv.step
#check @Sim.TimerInv.steps
#check @Sim.TimerInv.sendLocal
#check @Sim.TimerInv.crashNode
#check @Sim.TimerInv.recoverNode
#check @Sim.TimerInv.addProcess
#check @Sim.sim_timer_contract

end Anysystem
