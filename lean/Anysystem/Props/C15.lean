import Anysystem.Proofs.SnapshotThms
/-!
# C15 — Snapshot hand-off preserves the simulated state

Statements and proofs: `Anysystem/Proofs/SnapshotThms.lean`: `ModelChecker::new` never trips a store assertion and builds a store holding exactly one pending event per live queued copy (cancelled copies and copies addressed to crashed nodes excluded) in (time, id) order; in-flight messages carry no fault options, timers carry their remaining time and are constrained exactly by their real firing order; process states, outboxes, counters, pending timer names, crash flags, link and fault settings are copied, crashed nodes are disconnected. The equivalence with the callback route is checked implementation against implementation (known finding D15 for prefixes that set several timers of one process with different delays at one instant).
-/
namespace Anysystem

#check @snapshotEvents_spec
#check @snapshotSource_live
#check @snapshotSource_complete
#check @snapshotNodes_spec
#check @snapshotNet_spec
#check @snapshot_first_offered
#check @snapshot_timers_in_firing_order

end Anysystem
