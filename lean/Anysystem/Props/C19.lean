import Anysystem.Proofs.PredThms
/-!
# C19 — Built-in predicates mean what their documentation says

Model: `Anysystem/Model/Pred.lean` mirrors `src/mc/predicates.rs` (closures with state are rules `S → α → R × S`, so short-circuiting is observable).  Statements and proofs: `Anysystem/Proofs/PredThms.lean`: every depth / count limit with its comparison operator (`>` for invariants, prunes and collects, `>=` for `depth_reached` and `event_happened_n_times_current_run`), `current_run_trace` (suffix from the last `McStarted`), `received_messages` (Ok iff not more messages than expected, not fewer when nothing is pending, no payload twice, every payload expected), `proc_permutations` (prunes iff the first-mention order of the equivalent processes in the current run is not a prefix of the given order; the index is always in bounds), the combinators' value and short-circuiting (rules after the deciding one keep their state).

Finding D11: `state_depth_current_run(d)` compares `d` with the number of trace entries of the current run, not with a depth; the sound half is `invStateDepthCurrentRun_partial` (it never accepts a state more than `d - 1` steps into the run), the witness `invStateDepthCurrentRun_D11_witness` (the start state of a run is rejected for `d = 0`).  `time_limit` (wall clock) is outside the model.
-/
namespace Anysystem

#check @currentRunTrace_last_started
#check @currentRunTrace_no_started
#check @invStateDepth_iff
#check @pruneStateDepth_iff
#check @depthReached_iff
#check @sentMessagesLimit_iff
#check @eventsLimit_iff
#check @eventsLimitPerProc_iff
#check @eventHappened_iff
#check @gotNLocalMessages_iff
#check @invReceivedMessages_spec
#check @procPermutations_spec
#check @allInvariants_value
#check @allInvariants_short_circuit
#check @anyRule_value
#check @anyRule_short_circuit
#check @allRules_value
#check @allRules_short_circuit
#check @applyAlt_trace_depth
#check @invStateDepthCurrentRun_partial
#check @invStateDepthCurrentRun_D11_witness

end Anysystem
