import Anysystem.Proofs.C11Congr
import Anysystem.Proofs.C11Witness
import Anysystem.Proofs.SearchThmsOn
/-!
# C11 — Visited-state caching does not change what is explored

* `key_covers`: state identity covers every process state, local outbox, node crash flag and the
  complete pending-event store (events with fault options, offered set, FIFOs, blocker sets).
* `mcTSys_congruentOn` (**partial**: finding D1): two states the checker treats as equal have
  identical futures — equal verdicts (for predicates that look only at what identity covers) and
  key-wise equal successor lists, failing alike — *relative to the invariant `GoodState`*: network
  settings and ordering mode as fixed by the callback, and `pending_timers` mirroring the pending
  timer events.  `goodState_closed`: the invariant is kept by every explored step as long as the
  program does not re-set a pending timer (`OverrideFreeFrom`).
* `C11_D1_witness` / `C11_D1_not_congruent`: without that restriction the statement is false for
  the code as it is: histories `set; set; fire(old)` and `set; fire; set` reach equal keys with
  different `pending_timers`, and `set_timer_once` then reacts differently (kernel-checked).
* Cache modes: with the congruence, Full, Partial (injective hash = no collision) and Disabled
  evaluate predicates on the same set of states and agree on the verdict.
-/
namespace Anysystem

variable {σ : Type} [DecidableEq σ]

#check @key_covers
#check @mcTSys_congruentOn
#check @goodState_closed
#check @C11W.C11_D1_witness
#check @C11W.C11_D1_not_congruent

/-- Full / Partial-without-collision versus Disabled: same evaluated states (partial: D1) -/
theorem C11_modes_same_states_partial (h : Handler σ) (p : Preds σ) (hp : KeyBased p) (hash : McSys.Key σ → Nat)
    (net : McNet) (md : Mode) (s₁ s₂ : Strat) (mode : CacheMode) (hm : ExactCache (mcTSys {} h p hash) mode)
    (f₁ f₂ : Nat) (s₀ : McSys σ) (h0 : GoodState h net md s₀) (a₁ a₂ : Acc (McSys σ) (McSys.Key σ))
    (h₁ : search (mcTSys {} h p hash) s₁ f₁ s₀ (Acc.fresh mode) = some (.ok, a₁))
    (h₂ : search (mcTSys {} h p hash) s₂ f₂ s₀ (Acc.fresh .disabled) = some (.ok, a₂)) :
    ∀ k, k ∈ a₁.evald.map McSys.key ↔ k ∈ a₂.evald.map McSys.key :=
  cache_modes_same_keys_on _ _ (mcTSys_congruentOn h p hp hash net md) (goodState_closed h p hash net md)
    s₁ s₂ mode hm f₁ f₂ s₀ h0 a₁ a₂ h₁ h₂

/-- caching only removes repeats: with an exact cache no state identity is evaluated twice -/
theorem C11_cache_removes_repeats (cfg : Cfg) (h : Handler σ) (p : Preds σ) (hash : McSys.Key σ → Nat)
    (strat : Strat) (mode : CacheMode) (hm : ExactCache (mcTSys cfg h p hash) mode) (fuel : Nat) (s₀ : McSys σ)
    (r : Res (McSys σ)) (a : Acc (McSys σ) (McSys.Key σ))
    (hrun : search (mcTSys cfg h p hash) strat fuel s₀ (Acc.fresh mode) = some (r, a)) :
    (a.evald.map McSys.key).Nodup :=
  search_evald_nodup_keys _ strat mode hm fuel s₀ r a hrun

/-- same verdict in all modes (partial: D1): if a reachable state fails, no mode returns Ok -/
theorem C11_modes_same_verdict_partial (h : Handler σ) (p : Preds σ) (hp : KeyBased p) (hash : McSys.Key σ → Nat)
    (net : McNet) (md : Mode) (strat : Strat) (mode : CacheMode)
    (hm : ExactCache (mcTSys {} h p hash) mode ∨ mode = .disabled) (fuel : Nat) (s₀ x : McSys σ)
    (h0 : GoodState h net md s₀) (a : Acc (McSys σ) (McSys.Key σ))
    (hx : ReachC (mcTSys {} h p hash) s₀ x) (hf : isFail (p.verdict x) = true) :
    search (mcTSys {} h p hash) strat fuel s₀ (Acc.fresh mode) ≠ some (.ok, a) :=
  search_not_ok_of_reachable_fail_on _ _ (mcTSys_congruentOn h p hp hash net md) (goodState_closed h p hash net md)
    strat mode hm fuel s₀ x h0 a hx hf

/-- C03 / C10 with the congruence discharged (partial: D1): exhaustive Ok -/
theorem C11_ok_exhaustive_partial (h : Handler σ) (p : Preds σ) (hp : KeyBased p) (hash : McSys.Key σ → Nat)
    (net : McNet) (md : Mode) (strat : Strat) (mode : CacheMode) (hm : ExactCache (mcTSys {} h p hash) mode)
    (fuel : Nat) (s₀ : McSys σ) (h0 : GoodState h net md s₀) (a : Acc (McSys σ) (McSys.Key σ))
    (hrun : search (mcTSys {} h p hash) strat fuel s₀ (Acc.fresh mode) = some (.ok, a)) :
    ∀ x, ReachC (mcTSys {} h p hash) s₀ x →
      (∃ e ∈ a.evald, McSys.key e = McSys.key x) ∧ isFail (p.verdict x) = false :=
  search_ok_exhaustive_on _ _ (mcTSys_congruentOn h p hp hash net md) (goodState_closed h p hash net md)
    strat mode hm fuel s₀ h0 a hrun

theorem C11_bfs_dfs_same_states_partial (h : Handler σ) (p : Preds σ) (hp : KeyBased p) (hash : McSys.Key σ → Nat)
    (net : McNet) (md : Mode) (mode : CacheMode) (hm : ExactCache (mcTSys {} h p hash) mode) (f₁ f₂ : Nat)
    (s₀ : McSys σ) (h0 : GoodState h net md s₀) (a₁ a₂ : Acc (McSys σ) (McSys.Key σ))
    (h₁ : search (mcTSys {} h p hash) .dfs f₁ s₀ (Acc.fresh mode) = some (.ok, a₁))
    (h₂ : search (mcTSys {} h p hash) .bfs f₂ s₀ (Acc.fresh mode) = some (.ok, a₂)) :
    ∀ k, k ∈ a₁.evald.map McSys.key ↔ k ∈ a₂.evald.map McSys.key :=
  bfs_dfs_same_keys_on _ _ (mcTSys_congruentOn h p hp hash net md) (goodState_closed h p hash net md)
    mode hm f₁ f₂ s₀ h0 a₁ a₂ h₁ h₂

theorem C11_bfs_error_min_depth_partial (h : Handler σ) (p : Preds σ) (hp : KeyBased p) (hash : McSys.Key σ → Nat)
    (net : McNet) (md : Mode) (mode : CacheMode) (hm : ExactCache (mcTSys {} h p hash) mode) (fuel : Nat)
    (s₀ e : McSys σ) (h0 : GoodState h net md s₀) (msg : String) (a : Acc (McSys σ) (McSys.Key σ))
    (hrun : search (mcTSys {} h p hash) .bfs fuel s₀ (Acc.fresh mode) = some (.err msg e, a)) :
    ∃ n, ReachN (mcTSys {} h p hash) s₀ n e ∧
      ∀ m x, m < n → ReachN (mcTSys {} h p hash) s₀ m x → isFail (p.verdict x) = false :=
  bfs_err_min_depth_on _ _ (mcTSys_congruentOn h p hp hash net md) (goodState_closed h p hash net md)
    mode hm fuel s₀ e h0 msg a hrun

end Anysystem
