import Anysystem.Proofs.SearchThms
import Anysystem.Model.Strategy
import Anysystem.Proofs.StagedThms
import Anysystem.Proofs.SearchShared
/-!
# C16 — Staged exploration composes

What one stage returns (below) and, in `Anysystem/Proofs/StagedThms.lean`: `runFromStates_restores` (the checker is
rolled back on every exit path, D6), `runImpl_is_search`, `search_trace_prefix` (every state evaluated in a stage
carries the start state's trace followed by `McStarted` as a prefix), `runFromStates_disabled_concat` (without a cache
the stage evaluates, start state by start state, exactly what a search from that state after the callback evaluates).
-/
namespace Anysystem

variable {σ : Type} [DecidableEq σ]

/-- the collected set is exactly the discovered states that satisfy the collect predicate (one per
    state identity), each being one of the evaluated states — so it carries that state's own trace
    and depth -/
theorem C16_collected_exact (cfg : Cfg) (h : Handler σ) (p : Preds σ) (hash : McSys.Key σ → Nat)
    (strat : Strat) (mode : CacheMode) (fuel : Nat) (s₀ : McSys σ) (r : Res (McSys σ))
    (a : Acc (McSys σ) (McSys.Key σ))
    (hrun : search (mcTSys cfg h p hash) strat fuel s₀ (Acc.fresh mode) = some (r, a)) :
    (∀ c ∈ a.collected, c ∈ a.evald ∧ p.collect c = true) ∧
    (∀ e ∈ a.evald, p.collect e = true → ∃ c ∈ a.collected, c.key = e.key) ∧
    (a.collected.map McSys.key).Nodup :=
  search_collected_exact _ strat mode fuel s₀ r a hrun

/-- Debug-mode status counts equal the number of goal resp. pruned states actually evaluated -/
theorem C16_status_counts_exact (cfg : Cfg) (h : Handler σ) (p : Preds σ) (hash : McSys.Key σ → Nat)
    (strat : Strat) (mode : CacheMode) (fuel : Nat) (s₀ : McSys σ) (r : Res (McSys σ))
    (a : Acc (McSys σ) (McSys.Key σ))
    (hrun : search (mcTSys cfg h p hash) strat fuel s₀ (Acc.fresh mode) = some (r, a)) (status : String) :
    ((a.statuses.filter (·.1 == status)).map (·.2)).sum =
      (a.evald.filter (fun e => p.verdict e == .stop status)).length :=
  search_statuses_exact _ strat mode fuel s₀ r a hrun status

/- shared visited cache: an all-Ok staged run evaluates (up to state identity) exactly the union of what is reachable from
   the start states; the evaluated key set does not depend on strategy, exact cache mode or order of the start states;
   it stays within what a single run passing through the start states evaluates -/
#check @searchMany_evald_reachable
#check @searchMany_ok_union
#check @searchMany_same_keys
#check @searchMany_same_keys_disabled
#check @searchMany_within_single_run
#check @runFromStates_is_searchMany
#check @runFromStates_ok_union

end Anysystem
