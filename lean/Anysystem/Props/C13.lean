import Anysystem.Proofs.StoreRefine
import Anysystem.Proofs.R2
import Anysystem.Proofs.R4
/-!
# C13 — Timer-order reduction is exact and keeps every real-time-feasible schedule
-/
namespace Anysystem

variable {σ : Type}

/-- exactness at the store: on every legal operation history, a pending timer is offered iff no
    earlier-set pending timer of the same process has a delay less than or equal to its own -/
theorem C13_offered_timer_iff (ops : List Op) (a : AStore) (outs : List Out)
    (h : AStore.run {} ops = some (a, outs)) (id p name d : Nat) (hmem : (id, Ev.timer p name d) ∈ a.pending) :
    id ∈ specOffered a.pending ↔
      ∀ j q n' d', (j, Ev.timer q n' d') ∈ a.pending → j < id → ¬ (q = p ∧ d' ≤ d) := by
  have hinv := PInv.of_run h
  have hg : amGet? id a.pending = some (.timer p name d) := amGet?_of_mem_nodup hinv.nodup hmem
  rw [offered_timer hinv hg]
  constructor
  · intro hno j q n' d' hj hlt hc
    obtain ⟨rfl, hle⟩ := hc
    exact hno j n' d' (amGet?_of_mem_nodup hinv.nodup hj) hlt hle
  · intro hall j n' d' hj hlt hle
    exact hall j p n' d' (amGet?_eq_some_mem hj) hlt ⟨rfl, hle⟩

/-- `MessagesFirst`: only messages are offered while any message is offered, otherwise the timers -/
theorem C13_messages_first (ops : List Op) (a : AStore) (outs : List Out)
    (h : AStore.run {} ops = some (a, outs)) :
    ∃ s l, Store.runOps {} {} ops = .ok (s, outs) ∧ s.availableEvents .messagesFirst = .ok l ∧
      ∀ id, id ∈ l ↔ id ∈ specOfferedMode a.pending .messagesFirst :=
  available_events_exact ops a outs h .messagesFirst

/-- apart from the reduction every interleaving is explored: every reduced-enabled step of the
    reference semantics is an alternative of an offered event (completeness half of R2; partial:
    `overrideFree`, finding D1) -/
theorem C13_every_reduced_step_explored_partial (h : Handler σ) {s : McSys σ} {r r' : RState σ} (hs : Sim' s r)
    (hk : SendsKnown h s) {l : Label} (hen : r.enabledRed s.mode l = true) (hstep : r.step h l = some r')
    (hof : r.overrideFree h l = true) :
    ∃ ids id alts alt s', s.available = .ok ids ∧ id ∈ ids ∧ s.alternatives id = .ok alts ∧ alt ∈ alts ∧
      s.applyAlt {} h alt = .ok s' ∧ Sim' s' r' :=
  alternatives_complete' h hs hk hen hstep hof

/-! ## Real time: the reduction removes exactly the infeasible orders

A timer set at time `t` with delay `d` fires at `t + d`; ties are resolved in creation order.  Times
are natural numbers here (any linearly ordered additive structure works the same way; that `f64`
addition is monotone on the values used is part of the trusted base). -/

/-- firing order of two timers: by firing time, ties by creation index -/
def firesBefore (t₁ d₁ i₁ t₂ d₂ i₂ : Nat) : Prop := t₁ + d₁ < t₂ + d₂ ∨ (t₁ + d₁ = t₂ + d₂ ∧ i₁ < i₂)

/-- nothing feasible is pruned: a timer that the rule withholds (an earlier-set pending timer of the
    same process has a delay `≤`) can in no timed execution fire before its blocker — also when the
    blocker is a snapshot timer carrying its remaining time (`t₁ = now`, `d₁ = remaining`) -/
theorem C13_blocked_cannot_overtake (t₁ d₁ i₁ t₂ d₂ i₂ : Nat) (hset : t₁ ≤ t₂) (hcre : i₁ < i₂) (hdel : d₁ ≤ d₂) :
    firesBefore t₁ d₁ i₁ t₂ d₂ i₂ := by
  unfold firesBefore; omega

/-- nothing infeasible is added by the rule itself: a later timer with a strictly smaller delay than
    an earlier one can fire first in some timed execution (e.g. when both are set at the same moment) -/
theorem C13_unblocked_feasible (d₁ d₂ i₁ i₂ : Nat) (hdel : d₂ < d₁) :
    ∃ t₁ t₂, t₁ ≤ t₂ ∧ firesBefore t₂ d₂ i₂ t₁ d₁ i₁ := by
  refine ⟨0, 0, Nat.le_refl _, ?_⟩
  unfold firesBefore; omega

/-- the inverse is not a constraint: a newly set timer never blocks an existing one with a larger
    delay, because the moment the older one was set is unknown (it may fire first or second) -/
theorem C13_no_constraint_on_older (d₁ d₂ i₁ i₂ : Nat) (hdel : d₂ < d₁) (hcre : i₁ < i₂) :
    (∃ t₁ t₂, t₁ ≤ t₂ ∧ firesBefore t₁ d₁ i₁ t₂ d₂ i₂) ∧ (∃ t₁ t₂, t₁ ≤ t₂ ∧ firesBefore t₂ d₂ i₂ t₁ d₁ i₁) := by
  refine ⟨⟨0, d₁, Nat.zero_le _, ?_⟩, ⟨0, 0, Nat.le_refl _, ?_⟩⟩ <;> unfold firesBefore <;> omega

/- "every schedule that is realisable by some assignment of non-negative message delays, with each timer firing at its set time
   plus its delay and ties resolved in creation order, is explored": the simulator *is* that timed semantics (arbitrary draws =
   arbitrary delays within the bounds); R4 shows each of its steps is a reduced-enabled step of the reference semantics (in
   particular the timer it fires is never withheld, `popped_timer_unblocked`), and every reduced-enabled step is explored
   (`C13_every_reduced_step_explored_partial`).  Partial: duplication and corruption rates zero (drop rate arbitrary). -/
#check @sim_step_refines_partial
#check @popped_timer_unblocked

end Anysystem
