import Anysystem.Proofs.SearchThms
import Anysystem.Model.Strategy
/-!
# C10 — BFS and DFS agree, and BFS counterexamples are shortest
-/
namespace Anysystem

variable {σ : Type} [DecidableEq σ]

/-- two `Ok` runs, one per strategy, evaluate predicates on the same set of states (keys) -/
theorem C10_bfs_dfs_same_states (cfg : Cfg) (h : Handler σ) (p : Preds σ) (hash : McSys.Key σ → Nat)
    (hc : Congruent (mcTSys cfg h p hash)) (mode : CacheMode) (hm : ExactCache (mcTSys cfg h p hash) mode)
    (f₁ f₂ : Nat) (s₀ : McSys σ) (a₁ a₂ : Acc (McSys σ) (McSys.Key σ))
    (h₁ : search (mcTSys cfg h p hash) .dfs f₁ s₀ (Acc.fresh mode) = some (.ok, a₁))
    (h₂ : search (mcTSys cfg h p hash) .bfs f₂ s₀ (Acc.fresh mode) = some (.ok, a₂)) :
    ∀ k, k ∈ a₁.evald.map McSys.key ↔ k ∈ a₂.evald.map McSys.key :=
  bfs_dfs_same_keys _ hc mode hm f₁ f₂ s₀ a₁ a₂ h₁ h₂

/-- ... and therefore collect the same states -/
theorem C10_bfs_dfs_same_collected (cfg : Cfg) (h : Handler σ) (p : Preds σ) (hash : McSys.Key σ → Nat)
    (hc : Congruent (mcTSys cfg h p hash)) (mode : CacheMode) (hm : ExactCache (mcTSys cfg h p hash) mode)
    (f₁ f₂ : Nat) (s₀ : McSys σ) (a₁ a₂ : Acc (McSys σ) (McSys.Key σ))
    (h₁ : search (mcTSys cfg h p hash) .dfs f₁ s₀ (Acc.fresh mode) = some (.ok, a₁))
    (h₂ : search (mcTSys cfg h p hash) .bfs f₂ s₀ (Acc.fresh mode) = some (.ok, a₂)) :
    ∀ k, k ∈ a₁.collected.map McSys.key ↔ k ∈ a₂.collected.map McSys.key := by
  have hk := bfs_dfs_same_keys _ hc mode hm f₁ f₂ s₀ a₁ a₂ h₁ h₂
  have c₁ := search_collected_exact _ .dfs mode f₁ s₀ .ok a₁ h₁
  have c₂ := search_collected_exact _ .bfs mode f₂ s₀ .ok a₂ h₂
  intro k
  constructor
  · intro hk1
    obtain ⟨c, hc1, rfl⟩ := List.mem_map.mp hk1
    obtain ⟨hce, hcc⟩ := c₁.1 c hc1
    obtain ⟨e, he, hke⟩ := List.mem_map.mp ((hk _).mp (List.mem_map_of_mem hce))
    have hcol : (mcTSys cfg h p hash).collect e = true := by
      have := (hc e c hke).2.1; rw [this]; exact hcc
    obtain ⟨c', hc', hkc'⟩ := c₂.2.1 e he hcol
    exact List.mem_map.mpr ⟨c', hc', hkc'.trans hke⟩
  · intro hk2
    obtain ⟨c, hc2, rfl⟩ := List.mem_map.mp hk2
    obtain ⟨hce, hcc⟩ := c₂.1 c hc2
    obtain ⟨e, he, hke⟩ := List.mem_map.mp ((hk _).mpr (List.mem_map_of_mem hce))
    have hcol : (mcTSys cfg h p hash).collect e = true := by
      have := (hc e c hke).2.1; rw [this]; exact hcc
    obtain ⟨c', hc', hkc'⟩ := c₁.2.1 e he hcol
    exact List.mem_map.mpr ⟨c', hc', hkc'.trans hke⟩

/-- agreement on Ok versus Err: if one strategy finds an error, the other cannot finish with `Ok` -/
theorem C10_verdicts_agree (cfg : Cfg) (h : Handler σ) (p : Preds σ) (hash : McSys.Key σ → Nat)
    (hc : Congruent (mcTSys cfg h p hash)) (mode : CacheMode)
    (hm : ExactCache (mcTSys cfg h p hash) mode ∨ mode = .disabled)
    (s₁ s₂ : Strat) (f₁ f₂ : Nat) (s₀ e : McSys σ) (msg : String) (a₁ a₂ : Acc (McSys σ) (McSys.Key σ))
    (h₁ : search (mcTSys cfg h p hash) s₁ f₁ s₀ (Acc.fresh mode) = some (.err msg e, a₁)) :
    search (mcTSys cfg h p hash) s₂ f₂ s₀ (Acc.fresh mode) ≠ some (.ok, a₂) := by
  obtain ⟨_, hv, hr⟩ := search_err_genuine _ s₁ mode f₁ s₀ e msg a₁ h₁
  exact search_not_ok_of_reachable_fail _ hc s₂ mode hm f₂ s₀ e a₂ hr (by
    show isFail ((mcTSys cfg h p hash).verdict e) = true
    rw [hv]; rfl)

/-- BFS counterexamples are shortest (exact cache) -/
theorem C10_bfs_error_min_depth (cfg : Cfg) (h : Handler σ) (p : Preds σ) (hash : McSys.Key σ → Nat)
    (hc : Congruent (mcTSys cfg h p hash)) (mode : CacheMode) (hm : ExactCache (mcTSys cfg h p hash) mode)
    (fuel : Nat) (s₀ e : McSys σ) (msg : String) (a : Acc (McSys σ) (McSys.Key σ))
    (hrun : search (mcTSys cfg h p hash) .bfs fuel s₀ (Acc.fresh mode) = some (.err msg e, a)) :
    ∃ n, ReachN (mcTSys cfg h p hash) s₀ n e ∧
      ∀ m x, m < n → ReachN (mcTSys cfg h p hash) s₀ m x → isFail (p.verdict x) = false :=
  bfs_err_min_depth _ hc mode hm fuel s₀ e msg a hrun

/-- BFS counterexamples are shortest (cache disabled) -/
theorem C10_bfs_error_min_depth_disabled (cfg : Cfg) (h : Handler σ) (p : Preds σ) (hash : McSys.Key σ → Nat)
    (fuel : Nat) (s₀ e : McSys σ) (msg : String) (a : Acc (McSys σ) (McSys.Key σ))
    (hrun : search (mcTSys cfg h p hash) .bfs fuel s₀ (Acc.fresh .disabled) = some (.err msg e, a)) :
    ∃ n, ReachN (mcTSys cfg h p hash) s₀ n e ∧
      ∀ m x, m < n → ReachN (mcTSys cfg h p hash) s₀ m x → isFail (p.verdict x) = false :=
  bfs_err_min_depth_disabled _ fuel s₀ e msg a hrun

end Anysystem
