import Anysystem.Proofs.McMisc
/-!
# C09 — Exploration never leaks between branches, runs, or into the source System

Model side (statements and proofs in `Anysystem/Proofs/McMisc.lean`): `set_state(get_state())` is
exact on every field (process states, event logs, outboxes, pending timers, counters, crash flags,
pending events, network, depth, trace) whatever alternatives were explored in between, because no
step changes the set of nodes / processes; `search_step` restores; `run_impl` restores for Ok, Err
and panicking successor computations, including the ordering mode (D9).  That the *source System*
is untouched is trivial in a pure model and therefore not claimed from the proof: it is carried by
the correspondence runs (twin simulations, one interrupted by model checking).
-/
namespace Anysystem

#check @applyAlt_sameShape
#check @sendLocal_sameShape
#check @crashNode_sameShape
/- restoring a snapshot is exact on every field -/
#check @setState_getState
/- siblings are unaffected: after exploring one alternative the system is the one before -/
#check @searchStep_restores
/- a run leaves the checker in its initial state, for every result and every callback -/
#check @runImpl_restores

end Anysystem
