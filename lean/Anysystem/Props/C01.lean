import Anysystem.Proofs.DetThms
/-!
# C01 — Deterministic replay of simulation and model checking

The model has no hidden inputs: every definition is a function of (program, topology, call
sequence, draw stream), so two runs of the model agree by construction, and the correspondence runs
tie the implementation to it.  What is proved here concerns the places where the *code* passes
through an unordered container on the way to something observable (statements and proofs:
`Anysystem/Proofs/DetThms.lean`): the sorted `dump_events` — hence the snapshot — does not depend on
simcore's heap array order; `crash_node` visited in any process order differs only in the order of
the recorded losses, which the repaired code fixes by sorting the names (D7).  Cross-process
determinism of `DefaultHasher`, of `Pcg64` and of the order of start states of `run_from_states`
is observed (every scenario is executed three times in two OS processes), not proved; every
iteration over a `HashMap`/`HashSet` in `src/` is listed and reviewed in `vlib/hash_sites.json`.
-/
namespace Anysystem

/- the dump is sorted by (time, id) and is a permutation of the live (not cancelled) events: nothing lost, nothing invented -/
#check @dumpEvents_sorted
#check @dumpEvents_perm_live
#check @dumpEvents_perm
#check @snapshotEvents_perm
#check @crashNode_eq_ord
#check @crashNodeOrd_perm

end Anysystem
