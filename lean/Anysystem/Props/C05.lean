import Anysystem.Proofs.SimNetThms
import Anysystem.Proofs.SimRunThms
import Anysystem.Proofs.SimDelivery
/-!
# C05 — The simulated network delivers only what link state and fault rates allow

Statements and proofs: `Anysystem/Proofs/SimNetThms.lean` (for every time structure satisfying `LawfulTime`, every draw stream, every network state): same-node sends are queued once, intact, with zero delay and without consuming a draw; a send over a disabled path queues nothing and is logged as dropped; otherwise between 0 and 3 copies are queued, each carrying the payload or its canonical corruption (only when the corruption rate is positive), arriving within the delay bounds configured at that moment; duplication rate 0 ⇒ at most one copy; drop rate 0 on an enabled path ⇒ queued; drop rate above every draw ⇒ nothing; link controls are directional, a partition cuts both directions, reset heals links and keeps rates.
-/
namespace Anysystem

#check @instLawfulTimeTicks
#check @Sim.send_same_node
#check @Sim.send_cut_dropped
#check @Sim.send_copies
#check @Sim.send_no_dupl
#check @Sim.send_drop_zero_delivers
#check @Sim.send_drop_one
#check @Sim.send_logged_once
#check @Sim.disableLink_directional
#check @Sim.enableLink_directional
#check @Sim.partition_cuts_both
#check @Sim.reset_heals_keeps_rates
#check @Sim.dropIncoming_directional
#check @Sim.dropOutgoing_directional

/- whole runs: every queued copy, receipt and drop stems from an earlier MessageSent with the same id and endpoints, carrying
   the payload sent or (only across nodes) its canonical corruption; with corruption rate zero exactly the payload sent -/
#check @Sim.TraceOrigin.init
#check @Sim.TraceOrigin.sendMessage
#check @Sim.TraceOrigin.step
#check @Sim.TraceOrigin.steps
#check @Sim.TraceOrigin.sendLocal
#check @Sim.TraceOrigin.crashNode
#check @Sim.TraceOrigin.recoverNode
#check @Sim.received_intact_no_corruption
#check @Sim.queued_intact_no_corruption

/- between live nodes nothing is lost silently: with duplication off and no node down every issued message id keeps exactly one
   of {live queued copy, receipt, recorded drop}; when the queue has run dry every send has exactly one recorded fate, and a
   message never recorded as dropped has been received exactly once (with `send_drop_zero_delivers`: drop rate 0 on an enabled
   path between live nodes ⇒ delivered) -/
#check @Sim.ExactFate.init
#check @Sim.ExactFate.sendMessage
#check @Sim.ExactFate.step
#check @Sim.ExactFate.steps
#check @Sim.ExactFate.sendLocal
#check @Sim.every_send_has_one_fate
#check @Sim.delivered_once_if_not_dropped

end Anysystem
