import Anysystem.Proofs.SimNetThms
import Anysystem.Proofs.SimRunThms
import Anysystem.Proofs.SimDelivery
import Anysystem.Proofs.SimDeliveryDup
/-!
# C05 — The simulated network delivers only what link state and fault rates allow

Statements and proofs: `Anysystem/Proofs/SimNetThms.lean` (for every time structure satisfying `LawfulTime`, every draw stream, every network state): same-node sends are queued once, intact, with zero delay and without consuming a draw; a send over a disabled path queues nothing and is logged as dropped; otherwise between 0 and 3 copies are queued, each carrying the payload or its canonical corruption (only when the corruption rate is positive), arriving within the delay bounds configured at that moment; duplication rate 0 ⇒ at most one copy; drop rate 0 on an enabled path ⇒ queued; drop rate above every draw ⇒ nothing; link controls are directional, a partition cuts both directions, reset heals links and keeps rates.
-/
namespace Anysystem

#check @instLawfulTimeTicks
#check @Sim.send_same_node
#check @Sim.send_cut_dropped
#check @Sim.send_copies
#check @Sim.send_no_dupl
#check @Sim.send_drop_zero_delivers
#check @Sim.send_drop_one
#check @Sim.send_logged_once
#check @Sim.disableLink_directional
#check @Sim.enableLink_directional
#check @Sim.partition_cuts_both
#check @Sim.reset_heals_keeps_rates
#check @Sim.dropIncoming_directional
#check @Sim.dropOutgoing_directional

/- whole runs: every queued copy, receipt and drop stems from an earlier MessageSent with the same id and endpoints, carrying
   the payload sent or (only across nodes) its canonical corruption; with corruption rate zero exactly the payload sent -/
#check @Sim.TraceOrigin.init
#check @Sim.TraceOrigin.sendMessage
#check @Sim.TraceOrigin.step
#check @Sim.TraceOrigin.steps
#check @Sim.TraceOrigin.sendLocal
#check @Sim.TraceOrigin.crashNode
#check @Sim.TraceOrigin.recoverNode
#check @Sim.received_intact_no_corruption
#check @Sim.queued_intact_no_corruption

/- between live nodes nothing is lost silently: with duplication off and no node down every issued message id keeps exactly one
   of {live queued copy, receipt, recorded drop}; when the queue has run dry every send has exactly one recorded fate, and a
   message never recorded as dropped has been received exactly once (with `send_drop_zero_delivers`: drop rate 0 on an enabled
   path between live nodes ⇒ delivered) -/
#check @Sim.ExactFate.init
#check @Sim.ExactFate.sendMessage
#check @Sim.ExactFate.step
#check @Sim.ExactFate.steps
#check @Sim.ExactFate.sendLocal
#check @Sim.every_send_has_one_fate
#check @Sim.delivered_once_if_not_dropped

/- the same for an ARBITRARY duplication rate (`Proofs/SimDeliveryDup.lean`): the invariant `FateBounds` — every issued message
   id is either dropped when it was sent (one `dropped` entry, no copy, never received) or has no `dropped` entry and between one
   and three copies received or still queued — holds initially and is kept by every send (via `SendFate`), step and `sendLocal`
   while no node is down; hence, when the queue has run dry, every message was dropped once and never received, or received one
   to three times and never recorded as dropped; with drop rate zero and no link control on (`NoLoss`; the settings do not change
   during the run: `stepUntilNoEvents_cfg`) every message issued during the run is received at least once.  `ExactFate` is the
   special case (`FateBounds.of_exact`, `every_send_has_one_fate_of_dup`); `SimDeliveryDupDemo`: a message delivered three times. -/
#check @Sim.FateBounds.init
#check @Sim.FateBounds.of_exact
#check @Sim.FateBounds.sendMessage
#check @Sim.FateBounds.step
#check @Sim.FateBounds.steps
#check @Sim.FateBounds.sendLocal
#check @Sim.FateBounds.stepUntilNoEvents
#check @Sim.stepUntilNoEvents_cfg
#check @Sim.every_send_has_fate_dup
#check @Sim.delivered_if_not_dropped_dup
#check @Sim.drop_rate_zero_all_delivered
#check @Sim.every_send_has_one_fate_of_dup
#check @SimDeliveryDupDemo.d3_results
#check @SimDeliveryDupDemo.d3_three

end Anysystem
