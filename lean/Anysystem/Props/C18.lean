import Anysystem.Proofs.RelayThms
/-!
# C18 — Python processes behave exactly like equivalent Rust processes

Theorems about the relay: what the bridge hands to the engine is exactly the handler's calls, with
their arguments, in issue order within each kind, sends first, then local sends, then timer
operations (`C18_relay_canonical`); the `(name, delay, once)` / `delay < 0` encoding is decoded to
exactly the call that was made on the domain Python accepts (`C18_decode_exact`); a call Python
rejects fails the handler (`C18_negative_delay_raises`), and a handler fails *iff* one of its calls is
rejected (`C18_handler_fails_iff`: no exception is swallowed, none invented); a handler without rejected
calls always completes and is relayed canonically (`C18_accepted_handler_relays`); the canonical order
is a fixed point of the relay (`C18_canon_idempotent`), so a Rust twin issuing its calls in that order
is relayed unchanged.  Hence a Python process equals the Rust
process that issues the same calls in canonical order; the engines are functions of the action list.
Pickle, `deepcopy`, PyO3 conversions and JSON text are runtime behaviour: they are covered by the
correspondence runs only (Python twin processes through the real bridge).
-/
namespace Anysystem

#check @C18_relay_canonical
#check @C18_decode_exact
#check @C18_negative_delay_raises
#check @C18_failing_call_fails_handler
#check @C18_handler_fails_iff
#check @C18_accepted_handler_relays
#check @C18_canon_idempotent

end Anysystem
