import Anysystem.Proofs.SearchThms
import Anysystem.Model.Strategy
/-!
# C03 — Model checking is exhaustive up to user pruning and its verdict is correct

The strategies are the generic `search` (mirroring `Bfs::bfs`, `Dfs::dfs`, `Strategy::search_step`,
`check_state`) instantiated with the model checker's transition system `mcTSys`: successors = all
alternatives (delivery, permitted faults) of all offered events, key = `McState`'s `Eq`/`Hash`,
verdict = invariant → goal → prune → dead end.  All statements hold for every program (`Handler σ`),
topology, network setting, predicate set, start state and fuel.

`Congruent` (equal keys ⇒ equal futures) is what C11 establishes; it is a hypothesis here so that
the two results stay independent.  Completeness of `successors` with respect to the reference
semantics (every delivery / firing / permitted fault is an alternative) is R2, see C02/C13.
-/
namespace Anysystem

variable {σ : Type} [DecidableEq σ]

/-- the checker evaluates predicates only on states reachable through expanded (non-goal,
    non-pruned, non-failing) states: goal and pruned states are never expanded -/
theorem C03_evaluated_reachable (cfg : Cfg) (h : Handler σ) (p : Preds σ) (hash : McSys.Key σ → Nat)
    (strat : Strat) (mode : CacheMode) (fuel : Nat) (s₀ : McSys σ) (r : Res (McSys σ))
    (a : Acc (McSys σ) (McSys.Key σ))
    (hrun : search (mcTSys cfg h p hash) strat fuel s₀ (Acc.fresh mode) = some (r, a)) :
    ∀ e ∈ a.evald, ReachC (mcTSys cfg h p hash) s₀ e :=
  search_evald_reachable _ strat mode fuel s₀ r a hrun

/-- `Ok` ⇒ every reachable state was evaluated (up to state identity) and none breaks the invariant
    or is a dead end — Full cache, or Partial cache without hash collision -/
theorem C03_ok_exhaustive (cfg : Cfg) (h : Handler σ) (p : Preds σ) (hash : McSys.Key σ → Nat)
    (hc : Congruent (mcTSys cfg h p hash)) (strat : Strat) (mode : CacheMode)
    (hm : ExactCache (mcTSys cfg h p hash) mode) (fuel : Nat) (s₀ : McSys σ)
    (a : Acc (McSys σ) (McSys.Key σ))
    (hrun : search (mcTSys cfg h p hash) strat fuel s₀ (Acc.fresh mode) = some (.ok, a)) :
    ∀ x, ReachC (mcTSys cfg h p hash) s₀ x →
      (∃ e ∈ a.evald, McSys.key e = McSys.key x) ∧ isFail (p.verdict x) = false :=
  search_ok_exhaustive _ hc strat mode hm fuel s₀ a hrun

/-- the same with the cache disabled: every reachable state itself is evaluated (no congruence needed) -/
theorem C03_ok_exhaustive_disabled (cfg : Cfg) (h : Handler σ) (p : Preds σ) (hash : McSys.Key σ → Nat)
    (strat : Strat) (fuel : Nat) (s₀ : McSys σ) (a : Acc (McSys σ) (McSys.Key σ))
    (hrun : search (mcTSys cfg h p hash) strat fuel s₀ (Acc.fresh .disabled) = some (.ok, a)) :
    ∀ x, ReachC (mcTSys cfg h p hash) s₀ x → x ∈ a.evald ∧ isFail (p.verdict x) = false :=
  search_ok_exhaustive_disabled _ strat fuel s₀ a hrun

/-- an error names an evaluated, reachable state that genuinely breaks the invariant or is a dead end -/
theorem C03_err_genuine (cfg : Cfg) (h : Handler σ) (p : Preds σ) (hash : McSys.Key σ → Nat)
    (strat : Strat) (mode : CacheMode) (fuel : Nat) (s₀ e : McSys σ) (msg : String)
    (a : Acc (McSys σ) (McSys.Key σ))
    (hrun : search (mcTSys cfg h p hash) strat fuel s₀ (Acc.fresh mode) = some (.err msg e, a)) :
    e ∈ a.evald ∧ p.verdict e = .fail msg ∧ ReachC (mcTSys cfg h p hash) s₀ e :=
  search_err_genuine _ strat mode fuel s₀ e msg a hrun

/-- `Ok` only if nothing reachable fails: if a reachable state breaks the invariant or is a dead end,
    no finished run (any strategy, any cache mode) returns `Ok` -/
theorem C03_not_ok_if_reachable_failure (cfg : Cfg) (h : Handler σ) (p : Preds σ) (hash : McSys.Key σ → Nat)
    (hc : Congruent (mcTSys cfg h p hash)) (strat : Strat) (mode : CacheMode)
    (hm : ExactCache (mcTSys cfg h p hash) mode ∨ mode = .disabled) (fuel : Nat) (s₀ x : McSys σ)
    (a : Acc (McSys σ) (McSys.Key σ)) (hx : ReachC (mcTSys cfg h p hash) s₀ x)
    (hf : isFail (p.verdict x) = true) :
    search (mcTSys cfg h p hash) strat fuel s₀ (Acc.fresh mode) ≠ some (.ok, a) :=
  search_not_ok_of_reachable_fail _ hc strat mode hm fuel s₀ x a hx hf

omit [DecidableEq σ] in
/-- `check_state` order: invariant before goal before prune before the dead-end test -/
theorem C03_checkState_order (p : Preds σ) (s : McSys σ) :
    (∀ m, p.invariant s = some m → p.verdict s = .fail m) ∧
    (p.invariant s = none → ∀ st, p.goal s = some st → p.verdict s = .stop st) ∧
    (p.invariant s = none → p.goal s = none → ∀ st, p.prune s = some st → p.verdict s = .stop st) ∧
    (p.invariant s = none → p.goal s = none → p.prune s = none →
      p.verdict s = if s.events.available.isEmpty then .fail "nothing left to do to reach the goal" else .cont) := by
  refine ⟨?_, ?_, ?_, ?_⟩
  · intro m hm; simp [Preds.verdict, hm]
  · intro hi st hg; simp [Preds.verdict, hi, hg]
  · intro hi hg st hp; simp [Preds.verdict, hi, hg, hp]
  · intro hi hg hp; simp [Preds.verdict, hi, hg, hp]

end Anysystem
